#!/usr/bin/env python3
"""Assemble MANIFEST.json from manifest/Cxx.json fragments; every property without a fragment is
listed under not_applicable with the reason given in manifest/not_claimed.json (or a default)."""
import glob, json, os
here = os.path.dirname(os.path.dirname(os.path.abspath(__file__)))
ids = [json.loads(l)['id'] for l in open(os.path.join(here, 'properties.jsonl'))]
checks = []
for f in sorted(glob.glob(os.path.join(here, 'manifest', 'C*.json'))):
    checks.append(json.load(open(f)))
claimed = {c['property_id'] for c in checks}
reasons = {}
p = os.path.join(here, 'manifest', 'not_claimed.json')
if os.path.exists(p):
    reasons = json.load(open(p))
hooks = json.load(open(os.path.join(here, 'manifest', 'hooks.json')))
man = {
    'version': 1,
    'setup_cmd': 'cd lean && lake build',
    'hooks': hooks,
    'engines': [{'name': 'lean-proof+correspondence', 'path': 'check', 'serves_properties': sorted(claimed),
                 'kind_free_text': 'Lean 4 model + theorems (lean/QP), audited axioms, differential correspondence '
                                   'harness in Python driving the real qupulse code and the compiled Lean driver'}],
    'checks': checks,
    'notes': 'See DESIGN.md. Every check: lake build + axiom audit of QP.Props.<id>, then correspondence of the Lean '
             'model with /repo (real code in-process), executable Lean spec as judge, failing-input search.',
    'not_applicable': [{'property_id': i, 'reason': reasons.get(i, 'not claimed yet: model/theorems/correspondence for '
                        'this property are not merged; machine-checked proof is applicable (DESIGN.md 4) and is planned')}
                       for i in ids if i not in claimed],
}
json.dump(man, open(os.path.join(here, 'MANIFEST.json'), 'w'), indent=1)
# the library root imports every property module that exists, so `lake build` (setup_cmd) builds all proofs
props = sorted(os.path.basename(f)[:-5] for f in glob.glob(os.path.join(here, 'lean', 'QP', 'Props', 'C*.lean')))
with open(os.path.join(here, 'lean', 'QP.lean'), 'w') as f:
    f.write('import QP.Base\n' + ''.join('import QP.Props.%s\n' % p for p in props))
print('claimed', sorted(claimed))
