#!/usr/bin/env python3
"""fill_hash.py <worktree> FINDING=HASH ... : set commit hashes of fixed findings in known_findings.jsonl"""
import json, sys
w = sys.argv[1]; m = dict(a.split('=') for a in sys.argv[2:])
p = w + '/known_findings.jsonl'; out = []
for l in open(p):
    if not l.strip(): continue
    r = json.loads(l)
    if r.get('status') == 'fixed' and r['finding'] in m:
        h = m[r['finding']]
        r['line'] = r['line'].replace(r.get('commit', 'PENDING'), h)
        r['commit'] = h
    out.append(json.dumps(r))
open(p, 'w').write('\n'.join(out) + '\n')
