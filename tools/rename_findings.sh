#!/bin/bash
# rename_findings.sh <worktree> OLD=NEW [OLD=NEW...]: rename finding ids in the files a branch added/changed
set -e
w=$1; shift
cd $w
files=$(git diff --name-only main...HEAD | grep -v '^evidence/' || true)
for m in "$@"; do
  old=${m%%=*}; new=${m##*=}
  for f in $files; do [ -f "$f" ] && grep -q "$old" "$f" && sed -i "s/$old/$new/g" "$f" || true; done
  for f in fixes/$old.*; do [ -e "$f" ] && git mv "$f" "fixes/$new.${f##*.}" || true; done
  for f in corpus/*/*; do case "$f" in *$(echo $old | tr 'A-Z' 'a-z')*) git mv "$f" "$(echo $f | sed "s/$(echo $old | tr 'A-Z' 'a-z')/$(echo $new | tr 'A-Z' 'a-z')/")";; esac; done
done
git add -A; git commit -qm "rename finding ids: $*"; git status --short | head
