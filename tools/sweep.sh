#!/bin/bash
# sweep.sh <tier> <seed...>: build, then run every claimed check for each seed; summarise exit codes and wall times
tier=$1; shift
cd "$(dirname "$0")/.."
(cd lean && lake build > /dev/null 2>&1) || { echo BUILD-FAILED; exit 2; }
ids=${SWEEP_IDS:-}; [ -z "$ids" ] && ids=$(python3 -c "import json;print(' '.join(c['property_id'] for c in json.load(open('MANIFEST.json'))['checks']))" 2>/dev/null)
for s in "$@"; do for p in $ids; do
  t0=$(date +%s); VERIF_SEED=$s ./check $p --tier $tier > /tmp/sweep_$p.log 2>&1; rc=$?; t1=$(date +%s)
  echo "$p seed=$s tier=$tier exit=$rc wall=$((t1-t0))s $(grep -c '^VIOLATION' /tmp/sweep_$p.log) violations"
  if [ $rc -ne 0 ]; then grep -A1 "^VIOLATION\|MACHINERY" /tmp/sweep_$p.log | head -6; fi
done; done
exit 0
