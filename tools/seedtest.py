#!/venv/bin/python
"""Confirm a seeded change and run checks against it.

usage: seedtest.py <dir with patch.diff demo.py meta.json> [--checks C14,C12] [--tier quick] [--keep NAME]

1. scratch worktree of /repo HEAD, `git apply patch.diff`
2. pinned suite must still match BASELINE stable_pass (tools/baseline_check.py)
3. demo.py must fail with the change and pass without it
4. run ./check <id> with VERIF_REPO=<scratch> for every requested check; report exit status + first VIOLATION line
5. with --keep NAME: copy into /verif/seeded/NAME/ and write the results into meta.json
The scratch worktree is always removed.
"""
import argparse
import json
import os
import shutil
import subprocess
import sys
import tempfile
import time

VERIF = os.path.dirname(os.path.dirname(os.path.abspath(__file__)))


def sh(cmd, cwd=None, env=None, timeout=3600):
    r = subprocess.run(cmd, cwd=cwd, env=env, stdout=subprocess.PIPE, stderr=subprocess.STDOUT, timeout=timeout)
    return r.returncode, r.stdout.decode(errors='replace')


def main():
    ap = argparse.ArgumentParser()
    ap.add_argument('dir')
    ap.add_argument('--checks', default=None)
    ap.add_argument('--tier', default='quick')
    ap.add_argument('--keep', default=None)
    ap.add_argument('--skip-suite', action='store_true')
    a = ap.parse_args()
    d = os.path.abspath(a.dir)
    meta = json.load(open(os.path.join(d, 'meta.json'))) if os.path.exists(os.path.join(d, 'meta.json')) else {}
    checks = (a.checks.split(',') if a.checks else [meta.get('property')])
    scratch = tempfile.mkdtemp(prefix='st-', dir='/tmp')
    os.rmdir(scratch)
    res = {'patch': os.path.join(d, 'patch.diff')}
    try:
        rc, out = sh(['git', '-C', '/repo', 'worktree', 'add', '-q', scratch, 'HEAD'])
        assert rc == 0, out
        env = dict(os.environ, PYTHONPATH=scratch)
        env.pop('QUPULSE_VERIF', None)
        demo = os.path.join(d, 'demo.py')
        rc0, out0 = sh(['/venv/bin/python', demo], cwd=scratch, env=env, timeout=600)
        res['demo_without'] = rc0
        rc, out = sh(['git', 'apply', os.path.join(d, 'patch.diff')], cwd=scratch)
        res['applies'] = (rc == 0)
        if rc != 0:
            print('PATCH DOES NOT APPLY', out)
            return 1
        rc1, out1 = sh(['/venv/bin/python', demo], cwd=scratch, env=env, timeout=600)
        res['demo_with'] = rc1
        if not a.skip_suite:
            rc, out = sh([os.path.join(VERIF, 'tools', 'baseline_check.py'), scratch])
            res['suite_ok'] = (rc == 0)
            res['suite'] = [l for l in out.splitlines() if 'stable_pass' in l or 'MISSING' in l][:6]
        res['checks'] = {}
        for c in checks:
            t0 = time.time()
            env2 = dict(os.environ, VERIF_REPO=scratch)
            rc, out = sh([os.path.join(VERIF, 'check'), c, '--tier', a.tier], cwd=VERIF, env=env2, timeout=7200)
            lines = [l for l in out.splitlines() if l.startswith('VIOLATION') or l.startswith('KNOWN-FINDING') or 'MACHINERY' in l]
            detail = ''
            ol = out.splitlines()
            for i, l in enumerate(ol):
                if l.startswith('VIOLATION') and i + 1 < len(ol):
                    detail = ol[i + 1].strip()[:300]
                    break
            res['checks'][c] = {'exit': rc, 'wall_s': round(time.time() - t0, 1), 'violations': len([l for l in lines if l.startswith('VIOLATION')]),
                                'first': (lines[0] if lines else ''), 'detail': detail,
                                'no_failing_input': any('no-failing-input-found' in l for l in lines)}
            # evidence files were rewritten by this run against a modified tree: restore the committed ones
            sh(['git', 'checkout', '--', 'evidence'], cwd=VERIF)
        confirmed = res['demo_without'] == 0 and res['demo_with'] != 0 and res.get('suite_ok', True)
        res['confirmed'] = confirmed
        print(json.dumps(res, indent=1))
        if a.keep and confirmed:
            dst = os.path.join(VERIF, 'seeded', a.keep)
            os.makedirs(dst, exist_ok=True)
            shutil.copy(os.path.join(d, 'patch.diff'), dst)
            shutil.copy(demo, dst)
            meta.update({'base_commit': subprocess.check_output(['git', '-C', '/repo', 'rev-parse', '--short', 'HEAD']).decode().strip(),
                         'confirmed': {'demo_exit_without_change': res['demo_without'], 'demo_exit_with_change': res['demo_with'],
                                       'pinned_suite_matches_baseline': res.get('suite_ok')},
                         'ran': ['git apply patch.diff (scratch worktree of /repo)', 'tools/baseline_check.py <scratch>',
                                 'demo.py with and without the change'] + ['VERIF_REPO=<scratch> ./check %s --tier %s' % (c, a.tier) for c in checks],
                         'check_results': res['checks']})
            json.dump(meta, open(os.path.join(dst, 'meta.json'), 'w'), indent=1)
        return 0
    finally:
        sh(['git', '-C', '/repo', 'worktree', 'remove', '--force', scratch])
        shutil.rmtree(scratch, ignore_errors=True)


if __name__ == '__main__':
    sys.exit(main())
