#!/bin/bash
# merge_branch.sh <branch> <Cxx> [<Cyy>...]: merge an agent branch, regenerate manifest, build, run quick checks (seeds 0,1)
set -e
cd /verif
b=$1; shift
git merge -q $b -m "Merge branch $b" || { echo MERGE-CONFLICT; git status --short | grep '^UU\|^AA' ; exit 1; }
python3 tools/gen_manifest.py | grep -v conda
(cd lean && lake build > /tmp/merge_build.log 2>&1 || { grep -E "error" /tmp/merge_build.log | head -10; echo BUILD-FAILED; exit 1; }; tail -1 /tmp/merge_build.log)
for p in "$@"; do for s in 0 1; do VERIF_SEED=$s ./check $p 2>&1 | grep -v conda | tail -3; done; done
python3-vt tools/validate.py 2>&1 | grep -v conda | grep -v "^valid" || true
