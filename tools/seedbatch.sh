#!/bin/bash
# seedbatch.sh <outdir-root> <Cxx/V>...: run seedtest for several seeded changes, one summary line each
root=$1; shift
for p in "$@"; do c=${p%%/*}; extra=${SEED_CHECKS:-$c}
  /verif/tools/seedtest.py $root/$p --keep ${p/\//-} --checks $extra 2>&1 | grep -v conda | python3 -c "
import sys,json
try:
    r=json.load(sys.stdin); print('$p', 'confirmed=%s suite=%s applies=%s' % (r['confirmed'], r.get('suite_ok'), r.get('applies')), {k:('MISSED' if v['exit']==0 else ('MACHINERY-ERROR' if v['exit']==2 or v['violations']==0 else ('drift' if v['no_failing_input'] else 'caught')), v['detail'][:120]) for k,v in r.get('checks',{}).items()})
except Exception as e: print('$p ERR', e)"
done
