#!/venv/bin/python
"""Run the repository's pinned test-suite (guard off) on a qupulse tree and compare with
/root/.vp/BASELINE.json's stable_pass list.  Usage: baseline_check.py [repo_dir]"""
import json, os, subprocess, sys, tempfile
import xml.etree.ElementTree as ET
repo = sys.argv[1] if len(sys.argv) > 1 else '/repo'
base = json.load(open('/root/.vp/BASELINE.json'))
with tempfile.TemporaryDirectory() as d:
    x = os.path.join(d, 'j.xml')
    env = dict(os.environ); env.pop('QUPULSE_VERIF', None)
    subprocess.run(['/venv/bin/python', '-m', 'pytest', '-ra', '-q', '-p', 'no:cacheprovider', '--timeout=900',
                    '--continue-on-collection-errors', '--junitxml=' + x], cwd=repo, env=env,
                   stdout=subprocess.DEVNULL, stderr=subprocess.DEVNULL)
    passed = set()
    for tc in ET.parse(x).getroot().iter('testcase'):
        if not any(c.tag in ('failure', 'error', 'skipped') for c in tc):
            passed.add('%s::%s' % (tc.get('classname'), tc.get('name')))
missing = sorted(set(base['stable_pass']) - passed)
print('stable_pass %d, passed now %d, missing %d' % (len(base['stable_pass']), len(passed), len(missing)))
for m in missing[:40]:
    print('  MISSING', m)
sys.exit(1 if missing else 0)
