#!/bin/bash
# apply_fix.sh <diff> <msgfile>: apply a proposed fix to /repo, run the pinned suite, commit as "fix:" commit
set -e
cd /repo
git apply --check "$1"
git apply "$1"
if /verif/tools/baseline_check.py /repo | grep -v conda | tee /tmp/apply_fix.out | grep -q "missing 0"; then
  git add -A && git commit -q -F "$2" && echo "COMMITTED $(git log -1 --format=%h) $(head -1 $2)"
else
  cat /tmp/apply_fix.out; git checkout -- .; echo "REVERTED $1"; exit 1
fi
