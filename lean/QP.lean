import QP.Base
import QP.Props.C14
