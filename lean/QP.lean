import QP.Base
