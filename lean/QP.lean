import QP.Base
import QP.Props.C08
import QP.Props.C11
import QP.Props.C13
import QP.Props.C14
import QP.Props.C17
import QP.Props.C19
import QP.Props.C20
