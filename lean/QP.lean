import QP.Base
import QP.Props.C13
import QP.Props.C14
