import QP.Base
import QP.Model.C01
import QP.Model.C02
import QP.Model.C03
import QP.Model.C04
import QP.Model.C05
import QP.Model.C06
import QP.Model.C07
import QP.Model.C08
import QP.Model.C09
import QP.Model.C10
import QP.Model.C11
import QP.Model.C12
import QP.Model.C13
import QP.Model.C14
import QP.Model.C15
import QP.Model.C16
import QP.Model.C17
import QP.Model.C18
import QP.Model.C19
import QP.Model.C20
open QP

/-! Line protocol main: one S-expression request per line, one answer per line.
The first atom selects the property module (`c01` … `c20`). Model files import nothing from
Mathlib, so this driver is compiled to a native executable. -/

def dispatch (s : Sexp) : Sexp :=
  match s with
  | .list (.atom "ping" :: rest) => .list (.atom "pong" :: rest)
  | .list (.atom "c01" :: rest) => QP.C01.handle rest
  | .list (.atom "c02" :: rest) => QP.C02.handle rest
  | .list (.atom "c03" :: rest) => QP.C03.handle rest
  | .list (.atom "c04" :: rest) => QP.C04.handle rest
  | .list (.atom "c05" :: rest) => QP.C05.handle rest
  | .list (.atom "c06" :: rest) => QP.C06.handle rest
  | .list (.atom "c07" :: rest) => QP.C07.handle rest
  | .list (.atom "c08" :: rest) => QP.C08.handle rest
  | .list (.atom "c09" :: rest) => QP.C09.handle rest
  | .list (.atom "c10" :: rest) => QP.C10.handle rest
  | .list (.atom "c11" :: rest) => QP.C11.handle rest
  | .list (.atom "c12" :: rest) => QP.C12.handle rest
  | .list (.atom "c13" :: rest) => QP.C13.handle rest
  | .list (.atom "c14" :: rest) => QP.C14.handle rest
  | .list (.atom "c15" :: rest) => QP.C15.handle rest
  | .list (.atom "c16" :: rest) => QP.C16.handle rest
  | .list (.atom "c17" :: rest) => QP.C17.handle rest
  | .list (.atom "c18" :: rest) => QP.C18.handle rest
  | .list (.atom "c19" :: rest) => QP.C19.handle rest
  | .list (.atom "c20" :: rest) => QP.C20.handle rest
  | _ => Sexp.err "unknown-request"

partial def loop (h : IO.FS.Stream) (out : IO.FS.Stream) : IO Unit := do
  let line ← h.getLine
  if line.isEmpty then return ()
  match Sexp.parse line with
  | some s => out.putStrLn (toString (dispatch s))
  | none => out.putStrLn "(err parse)"
  loop h out

def main : IO Unit := do
  let i ← IO.getStdin
  let o ← IO.getStdout
  loop i o
  o.flush
