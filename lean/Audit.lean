import Lean
open Lean

/-!
`lake env lean --run Audit.lean C14 [C13 …]`
For each property id: import `QP.Props.<id>`, list every theorem declared in that module (by
module index, so helper lemmas imported from `QP.Proofs` are not counted), and print the axioms
each depends on.  Output: one JSON object per line.
-/

def allowed : List Name := [``propext, ``Classical.choice, ``Quot.sound]

def auditOne (pid : String) : IO Bool := do
  let modName : Name := (`QP.Props).str pid
  let env ← importModules #[{ module := modName }] {} (trustLevel := 1024) (loadExts := true)
  let some midx := env.getModuleIdx? modName
    | do IO.println s!"\{\"property\":\"{pid}\",\"error\":\"module-not-found\"}"; return false
  let mut ok := true
  let mut n := 0
  for (name, ci) in env.constants.map₁.toList do
    if env.getModuleIdxFor? name != some midx then continue
    if name.isInternalDetail then continue
    let isThm := match ci with | .thmInfo _ => true | _ => false
    if !isThm then continue
    n := n + 1
    let axs := (← runCore env (collectAxioms name)).toList
    let bad := axs.filter (fun a => !allowed.contains a)
    let usesSorry := axs.contains ``sorryAx
    if !bad.isEmpty || usesSorry then ok := false
    let axsJ := ",".intercalate (axs.map (fun a => s!"\"{a}\""))
    let ty := (toString (← (ppExprSimple env ci.type))).replace "\\" "\\\\" |>.replace "\"" "\\\"" |>.replace "\n" " "
    IO.println s!"\{\"property\":\"{pid}\",\"theorem\":\"{name}\",\"axioms\":[{axsJ}],\"ok\":{bad.isEmpty && !usesSorry},\"statement\":\"{ty}\"}"
  IO.println s!"\{\"property\":\"{pid}\",\"theorems\":{n},\"all_ok\":{ok}}"
  return ok
where
  runCore {α} (env : Environment) (x : CoreM α) : IO α := do
    let ctx : Core.Context := { fileName := "<audit>", fileMap := default }
    let st : Core.State := { env }
    let (a, _) ← x.toIO ctx st
    return a
  ppExprSimple (env : Environment) (e : Expr) : IO Format :=
    runCore env (Meta.MetaM.run' (Meta.ppExpr e))

unsafe def main (args : List String) : IO UInt32 := do
  initSearchPath (← findSysroot)
  unsafe enableInitializersExecution
  let mut ok := true
  for a in args do
    let r ← auditOne a
    ok := ok && r
  return if ok then 0 else 1
