import QP.Proofs.C16
/-! C16: segment packing — `unpack (pack s) = s`. -/
namespace QP.C16

theorem and_two_pow' (w i : Nat) : w &&& 2 ^ i = if w.testBit i then 2 ^ i else 0 := by
  apply Nat.eq_of_testBit_eq
  intro j
  rw [Nat.testBit_and, Nat.testBit_two_pow]
  by_cases hij : i = j
  · subst hij
    cases h : w.testBit i <;> simp
  · cases h : w.testBit i <;> simp [hij]

theorem and_pow_ne_zero (w i : Nat) : (w &&& 2 ^ i != 0) = w.testBit i := by
  rw [and_two_pow']
  cases w.testBit i <;> simp

theorem wordChan_pack (a : Nat) (mA mB : Bool) (h : a < 2 ^ 14) : wordChan (packWord a mA mB) = a := by
  simp only [wordChan, packWord, Nat.and_two_pow_sub_one_eq_mod, Nat.or_mod_two_pow, Nat.shiftLeft_eq]
  cases mA <;> cases mB <;> simp <;> omega

theorem wordMA_pack (a : Nat) (mA mB : Bool) (h : a < 2 ^ 14) : wordMA (packWord a mA mB) = mA := by
  simp only [wordMA, and_pow_ne_zero, packWord, Nat.testBit_or, Nat.testBit_shiftLeft,
    Nat.testBit_lt_two_pow h]
  cases mA <;> cases mB <;> simp

theorem wordMB_pack (a : Nat) (mA mB : Bool) (h : a < 2 ^ 14) : wordMB (packWord a mA mB) = mB := by
  have h' : a < 2 ^ 15 := by omega
  simp only [wordMB, and_pow_ne_zero, packWord, Nat.testBit_or, Nat.testBit_shiftLeft,
    Nat.testBit_lt_two_pow h']
  cases mA <;> cases mB <;> simp <;> decide

/-- a plain code word (no marker bits) reads back as itself with both markers off -/
theorem wordChan_plain (a : Nat) (h : a < 2 ^ 14) : wordChan a = a := by
  simp only [wordChan, Nat.and_two_pow_sub_one_eq_mod]; omega

theorem packHalf_length : ∀ (as : List Nat) (ms ns : List Bool), ms.length = as.length → ns.length = as.length →
    (packHalf as ms ns).length = as.length := by
  intro as
  induction as with
  | nil => intro ms ns _ _; cases ms <;> cases ns <;> simp [packHalf]
  | cons a as ih =>
    intro ms ns h1 h2
    cases ms with
    | nil => simp at h1
    | cons m ms =>
      cases ns with
      | nil => simp at h2
      | cons n ns =>
        simp only [packHalf, List.length_cons]
        rw [ih ms ns (by simpa using h1) (by simpa using h2)]

theorem packHalf_read : ∀ (as : List Nat) (ms ns : List Bool), ms.length = as.length → ns.length = as.length →
    (∀ a ∈ as, a < 2 ^ 14) →
    (packHalf as ms ns).map wordChan = as ∧ (packHalf as ms ns).map wordMA = ms ∧
      (packHalf as ms ns).map wordMB = ns := by
  intro as
  induction as with
  | nil => intro ms ns h1 h2 _; cases ms <;> cases ns <;> simp_all [packHalf]
  | cons a as ih =>
    intro ms ns h1 h2 hlt
    cases ms with
    | nil => simp at h1
    | cons m ms =>
      cases ns with
      | nil => simp at h2
      | cons n ns =>
        have ha := hlt a (by simp)
        obtain ⟨i1, i2, i3⟩ := ih ms ns (by simpa using h1) (by simpa using h2)
          (fun x hx => hlt x (by simp [hx]))
        simp only [packHalf, List.map_cons, wordChan_pack a m n ha, wordMA_pack a m n ha,
          wordMB_pack a m n ha, i1, i2, i3, and_self]

theorem map_wordChan_plain : ∀ (as : List Nat), (∀ a ∈ as, a < 2 ^ 14) → as.map wordChan = as := by
  intro as h
  induction as with
  | nil => rfl
  | cons a as ih =>
    simp only [List.map_cons, wordChan_plain a (h a (by simp)), ih (fun x hx => h x (by simp [hx]))]

theorem unpackN_packN : ∀ (n : Nat) (s : Seg), s.WF n → (∀ x ∈ s.a, x < 2 ^ 14) → unpackN n (packN n s) = s
  | 0, s, h, _ => by
    obtain ⟨h1, h2, h3, h4⟩ := h
    cases s with
    | mk a b mA mB =>
      simp only [Nat.mul_zero, List.length_eq_zero_iff] at h1 h2 h3 h4
      subst h1 h2 h3 h4
      rfl
  | n + 1, s, h, hlt => by
    obtain ⟨h1, h2, h3, h4⟩ := h
    have ih := unpackN_packN n ⟨s.a.drop 16, s.b.drop 16, s.mA.drop 8, s.mB.drop 8⟩
      ⟨by simp only [List.length_drop]; omega, by simp only [List.length_drop]; omega,
       by simp only [List.length_drop]; omega, by simp only [List.length_drop]; omega⟩
      (fun x hx => hlt x (List.mem_of_mem_drop hx))
    have hA8 : (s.a.take 8).length = 8 := by simp only [List.length_take]; omega
    have hA8' : ((s.a.drop 8).take 8).length = 8 := by simp only [List.length_take, List.length_drop]; omega
    have hM8 : (s.mA.take 8).length = 8 := by simp only [List.length_take]; omega
    have hN8 : (s.mB.take 8).length = 8 := by simp only [List.length_take]; omega
    have hH := packHalf_length ((s.a.drop 8).take 8) (s.mA.take 8) (s.mB.take 8) (by omega) (by omega)
    obtain ⟨r1, r2, r3⟩ := packHalf_read ((s.a.drop 8).take 8) (s.mA.take 8) (s.mB.take 8) (by omega) (by omega)
      (fun x hx => hlt x (List.mem_of_mem_drop (List.mem_of_mem_take hx)))
    have hX : (s.b.take 16).length = 16 := by simp only [List.length_take]; omega
    have hY : (s.a.take 8 ++ packHalf ((s.a.drop 8).take 8) (s.mA.take 8) (s.mB.take 8)).length = 16 := by
      simp only [List.length_append, hA8, hH, hA8']
    simp only [packN, unpackN]
    generalize hZ : packN n ⟨s.a.drop 16, s.b.drop 16, s.mA.drop 8, s.mB.drop 8⟩ = Z at ih
    generalize hYd : s.a.take 8 ++ packHalf ((s.a.drop 8).take 8) (s.mA.take 8) (s.mB.take 8) = Y at hY
    have t1 : (s.b.take 16 ++ Y ++ Z).take 16 = s.b.take 16 := by
      rw [List.append_assoc]; exact List.take_left' hX
    have t2 : (s.b.take 16 ++ Y ++ Z).drop 16 = Y ++ Z := by
      rw [List.append_assoc]; exact List.drop_left' hX
    have t3 : (Y ++ Z).take 16 = Y := List.take_left' hY
    have t4 : (s.b.take 16 ++ Y ++ Z).drop 32 = Z :=
      List.drop_left' (by simp only [List.length_append, hX, hY])
    rw [t1, t2, t3, t4, ih]
    have d8 : Y.drop 8 = packHalf ((s.a.drop 8).take 8) (s.mA.take 8) (s.mB.take 8) := by
      rw [← hYd]; exact List.drop_left' hA8
    have mY : Y.map wordChan = s.a.take 16 := by
      rw [← hYd, List.map_append, r1,
        map_wordChan_plain _ (fun x hx => hlt x (List.mem_of_mem_take hx))]
      exact (List.take_add (l := s.a) (i := 8) (j := 8)).symm
    rw [d8, r2, r3, mY]
    cases s with
    | mk a b mA mB => simp only [List.take_append_drop]

/-- reading back a packed segment gives the codes and markers that went in (`a`, `b` 14-bit codes) -/
theorem unpack_pack (s : Seg) (raw : List Nat) (ha : ∀ x ∈ s.a, x < 2 ^ 14) (h : pack s = .ok raw) :
    unpack raw = some s := by
  simp only [pack] at h
  split at h
  · rename_i hl
    obtain ⟨l1, l2, l3⟩ := hl
    split at h
    · rename_i hm
      cases h
      have hwf : s.WF (s.a.length / 16) := ⟨by omega, by omega, by omega, by omega⟩
      have hlen : ∀ (n : Nat) (s : Seg), s.WF n → (packN n s).length = 32 * n := by
        intro n
        induction n with
        | zero => intro s _; simp [packN]
        | succ k ih =>
          intro s hw
          obtain ⟨w1, w2, w3, w4⟩ := hw
          have := ih ⟨s.a.drop 16, s.b.drop 16, s.mA.drop 8, s.mB.drop 8⟩
            ⟨by simp only [List.length_drop]; omega, by simp only [List.length_drop]; omega,
             by simp only [List.length_drop]; omega, by simp only [List.length_drop]; omega⟩
          have hH := packHalf_length ((s.a.drop 8).take 8) (s.mA.take 8) (s.mB.take 8)
            (by simp only [List.length_take, List.length_drop]; omega)
            (by simp only [List.length_take, List.length_drop]; omega)
          simp only [packN, List.length_append, List.length_take, hH, this, List.length_drop]
          omega
      have hl := hlen _ s hwf
      simp only [unpack, hl]
      have : 32 * (s.a.length / 16) % 32 = 0 := by omega
      simp only [this, if_true]
      have : 32 * (s.a.length / 16) / 32 = s.a.length / 16 := by omega
      rw [this, unpackN_packN _ s hwf ha]
    · cases h
  · cases h

end QP.C16
