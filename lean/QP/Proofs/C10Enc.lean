import QP.Proofs.C10Round
/-! C10: the encoder as it runs (`encT`, with the transaction dictionary) computes the declarative
documents `emit`/`body` and inserts exactly the pending named nodes, children first. -/
namespace QP.C10
set_option linter.unusedSimpArgs false
set_option linter.unusedVariables false

/-- `_transaction_storage[n.identifier] = (document of n, n)` -/
def ins (txn : Txn) (n : T) : Txn :=
  match n.id with
  | some i => put i (body n, n) txn
  | none => txn

mutual
/-- the named nodes the encoder hands to `storage[id] = o` while encoding `t` as a child, in order
(with repetitions: a shared node that is not yet in the storage is encoded again) -/
def pendT (st : St) : T → List T
  | .node cls id items =>
    match id with
    | none => pendItems st items
    | some i => if st.has i then [] else pendItems st items ++ [.node cls id items]
def pendItems (st : St) : List Item → List T
  | [] => []
  | .data _ _ :: rest => pendItems st rest
  | .child _ t :: rest => pendT st t ++ pendItems st rest
  | .children _ ts :: rest => pendList st ts ++ pendItems st rest
def pendList (st : St) : List T → List T
  | [] => []
  | t :: ts => pendT st t ++ pendList st ts
end

/-- every named node of `L` that is already in the storage is in the temporary storage as that object -/
def Compat (st : St) (L : List T) : Prop :=
  ∀ c ∈ L, ∀ i, c.id = some i → st.has i = true → lookup i st.temp = some c

theorem Compat.mono {st : St} {L L' : List T} (h : ∀ c ∈ L', c ∈ L) (hc : Compat st L) : Compat st L' :=
  fun c hcm i hi hs => hc c (h c hcm) i hi hs

theorem self_mem_subterms (t : T) : t ∈ subterms t := by
  cases t; rw [subterms_node]; simp

theorem foldl_ins_append (txn : Txn) (a b : List T) :
    (a ++ b).foldl ins txn = b.foldl ins (a.foldl ins txn) := List.foldl_append

mutual
theorem enc_T (st : St) : (t : T) → (txn : Txn) → Compat st (subterms t) →
    encT st txn t = .ok ((pendT st t).foldl ins txn, emit t)
  | .node cls id items, txn, hc => by
    have hci : Compat st (subtermsItems items) :=
      hc.mono (fun c h => by rw [subterms_node]; exact List.mem_append_left _ h)
    have ih := enc_items st cls items txn hci
    cases id with
    | none =>
      simp only [encT, ih, pendT, emit, bind, Except.bind, pure, Except.pure]
    | some i =>
      by_cases hs : st.has i = true
      · have := hc _ (self_mem_subterms _) i rfl hs
        simp only [encT, hs, if_true, this, pendT, emit, List.foldl_nil, pure, Except.pure]
      · have hs' : st.has i = false := by simpa using hs
        simp only [encT, hs', Bool.false_eq_true, if_false, ih, pendT, emit, bind, Except.bind, pure,
          Except.pure, foldl_ins_append, List.foldl_cons, List.foldl_nil, ins, T.id, body]
theorem enc_items (st : St) (cls : Cls) : (items : List Item) → (txn : Txn) →
    Compat st (subtermsItems items) →
    encItems st cls txn items = .ok ((pendItems st items).foldl ins txn, bodyItems cls items)
  | [], txn, _ => rfl
  | .data k j :: rest, txn, hc => by
    simp only [subtermsItems] at hc
    have ih := enc_items st cls rest txn hc
    by_cases he : emitted cls (.data k j) = true
    · simp only [encItems, he, if_true, ih, pendItems, bodyItems, bind, Except.bind, pure, Except.pure]
    · have he' : emitted cls (.data k j) = false := by simpa using he
      simp only [encItems, he', Bool.false_eq_true, if_false, ih, pendItems, bodyItems]
  | .child k t :: rest, txn, hc => by
    simp only [subtermsItems] at hc
    have h1 := enc_T st t txn (hc.mono (fun c h => List.mem_append_left _ h))
    have h2 := enc_items st cls rest ((pendT st t).foldl ins txn) (hc.mono (fun c h => List.mem_append_right _ h))
    simp only [encItems, h1, h2, pendItems, bodyItems, bind, Except.bind, pure, Except.pure, foldl_ins_append]
  | .children k ts :: rest, txn, hc => by
    simp only [subtermsItems] at hc
    have h1 := enc_list st ts txn (hc.mono (fun c h => List.mem_append_left _ h))
    have h2 := enc_items st cls rest ((pendList st ts).foldl ins txn) (hc.mono (fun c h => List.mem_append_right _ h))
    simp only [encItems, h1, h2, pendItems, bodyItems, bind, Except.bind, pure, Except.pure, foldl_ins_append]
theorem enc_list (st : St) : (ts : List T) → (txn : Txn) → Compat st (subtermsList ts) →
    encList st txn ts = .ok ((pendList st ts).foldl ins txn, emitList ts)
  | [], txn, _ => rfl
  | t :: ts, txn, hc => by
    simp only [subtermsList] at hc
    have h1 := enc_T st t txn (hc.mono (fun c h => List.mem_append_left _ h))
    have h2 := enc_list st ts ((pendT st t).foldl ins txn) (hc.mono (fun c h => List.mem_append_right _ h))
    simp only [encList, h1, h2, pendList, emitList, bind, Except.bind, pure, Except.pure, foldl_ins_append]
end

/-- the named nodes written by `overwrite st i t`, in transaction order (with repetitions) -/
def pendRoot (st : St) (t : T) : List T := pendItems st t.items ++ [t]

theorem overwrite_spec (st : St) (i : Id) (t : T) (hid : t.id = some i) (hc : Compat st (subterms t)) :
    overwrite st i t =
      .ok (commit st ((pendRoot st t).foldl ins []),
           ((pendRoot st t).foldl ins []).map (fun e => (e.1, e.2.1))) := by
  cases t with
  | node cls id items =>
    have hid' : id = some i := hid
    subst hid'
    have hci : Compat st (subtermsItems items) :=
      hc.mono (fun c h => by rw [subterms_node]; exact List.mem_append_left _ h)
    simp only [overwrite, enc_items st cls items [] hci, bind, Except.bind, pure, Except.pure, pendRoot,
      T.items, foldl_ins_append, List.foldl_cons, List.foldl_nil, ins, T.id, body]

/-! ### sub-terms -/

mutual
theorem pendT_sub (st : St) : (t : T) → ∀ n ∈ pendT st t, n ∈ subterms t ∧ n.named = true
  | .node cls id items, n, h => by
    rw [subterms_node]
    cases id with
    | none =>
      simp only [pendT] at h
      have := pendItems_sub st items n h
      exact ⟨List.mem_append_left _ this.1, this.2⟩
    | some i =>
      simp only [pendT] at h
      by_cases hs : st.has i = true
      · simp [hs] at h
      · have hs' : st.has i = false := by simpa using hs
        simp only [hs', Bool.false_eq_true, if_false, List.mem_append, List.mem_singleton] at h
        rcases h with h | h
        · have := pendItems_sub st items n h
          exact ⟨List.mem_append_left _ this.1, this.2⟩
        · subst h; exact ⟨by simp, rfl⟩
theorem pendItems_sub (st : St) : (items : List Item) → ∀ n ∈ pendItems st items,
    n ∈ subtermsItems items ∧ n.named = true
  | [], n, h => by simp [pendItems] at h
  | .data _ _ :: rest, n, h => by
    simp only [pendItems] at h
    simpa only [subtermsItems] using pendItems_sub st rest n h
  | .child _ t :: rest, n, h => by
    simp only [pendItems, List.mem_append] at h
    simp only [subtermsItems, List.mem_append]
    rcases h with h | h
    · have := pendT_sub st t n h; exact ⟨Or.inl this.1, this.2⟩
    · have := pendItems_sub st rest n h; exact ⟨Or.inr this.1, this.2⟩
  | .children _ ts :: rest, n, h => by
    simp only [pendItems, List.mem_append] at h
    simp only [subtermsItems, List.mem_append]
    rcases h with h | h
    · have := pendList_sub st ts n h; exact ⟨Or.inl this.1, this.2⟩
    · have := pendItems_sub st rest n h; exact ⟨Or.inr this.1, this.2⟩
theorem pendList_sub (st : St) : (ts : List T) → ∀ n ∈ pendList st ts,
    n ∈ subtermsList ts ∧ n.named = true
  | [], n, h => by simp [pendList] at h
  | t :: ts, n, h => by
    simp only [pendList, List.mem_append] at h
    simp only [subtermsList, List.mem_append]
    rcases h with h | h
    · have := pendT_sub st t n h; exact ⟨Or.inl this.1, this.2⟩
    · have := pendList_sub st ts n h; exact ⟨Or.inr this.1, this.2⟩
end

mutual
theorem subterms_trans : (t : T) → ∀ n ∈ subterms t, ∀ c ∈ subterms n, c ∈ subterms t
  | .node cls id items, n, hn, c, hc => by
    rw [subterms_node] at hn ⊢
    rcases List.mem_append.mp hn with h | h
    · exact List.mem_append_left _ (subtermsItems_trans items n h c hc)
    · simp only [List.mem_singleton] at h; subst h
      rw [subterms_node] at hc; exact hc
theorem subtermsItems_trans : (items : List Item) → ∀ n ∈ subtermsItems items, ∀ c ∈ subterms n,
    c ∈ subtermsItems items
  | [], n, hn, _, _ => by simp [subtermsItems] at hn
  | .data _ _ :: rest, n, hn, c, hc => by
    simp only [subtermsItems] at hn ⊢
    exact subtermsItems_trans rest n hn c hc
  | .child _ t :: rest, n, hn, c, hc => by
    simp only [subtermsItems, List.mem_append] at hn ⊢
    rcases hn with h | h
    · exact Or.inl (subterms_trans t n h c hc)
    · exact Or.inr (subtermsItems_trans rest n h c hc)
  | .children _ ts :: rest, n, hn, c, hc => by
    simp only [subtermsItems, List.mem_append] at hn ⊢
    rcases hn with h | h
    · exact Or.inl (subtermsList_trans ts n h c hc)
    · exact Or.inr (subtermsItems_trans rest n h c hc)
theorem subtermsList_trans : (ts : List T) → ∀ n ∈ subtermsList ts, ∀ c ∈ subterms n, c ∈ subtermsList ts
  | [], n, hn, _, _ => by simp [subtermsList] at hn
  | t :: ts, n, hn, c, hc => by
    simp only [subtermsList, List.mem_append] at hn ⊢
    rcases hn with h | h
    · exact Or.inl (subterms_trans t n h c hc)
    · exact Or.inr (subtermsList_trans ts n h c hc)
end

/-! ### what is not pending is already stored -/

/-- the storage is closed: with an object it holds all the object's named descendants -/
def ClosedSt (st : St) : Prop :=
  ∀ i o, lookup i st.temp = some o → ∀ c ∈ subterms o, ∀ j, c.id = some j → st.has j = true

mutual
theorem cover_T (st : St) (hcl : ClosedSt st) : (t : T) → Compat st (subterms t) →
    ∀ c ∈ subterms t, ∀ j, c.id = some j → c ∈ pendT st t ∨ st.has j = true
  | .node cls id items, hc, c, hcm, j, hj => by
    have hci : Compat st (subtermsItems items) :=
      hc.mono (fun c h => by rw [subterms_node]; exact List.mem_append_left _ h)
    rw [subterms_node] at hcm
    cases id with
    | none =>
      simp only [pendT]
      rcases List.mem_append.mp hcm with h | h
      · exact cover_items st hcl items hci c h j hj
      · simp only [List.mem_singleton] at h; subst h; simp [T.id] at hj
    | some i =>
      by_cases hs : st.has i = true
      · right
        have hl := hc _ (self_mem_subterms _) i rfl hs
        exact hcl i _ hl c (by rw [subterms_node]; exact hcm) j hj
      · have hs' : st.has i = false := by simpa using hs
        simp only [pendT, hs', Bool.false_eq_true, if_false, List.mem_append, List.mem_singleton]
        rcases List.mem_append.mp hcm with h | h
        · rcases cover_items st hcl items hci c h j hj with h' | h'
          · exact Or.inl (Or.inl h')
          · exact Or.inr h'
        · simp only [List.mem_singleton] at h; exact Or.inl (Or.inr h)
theorem cover_items (st : St) (hcl : ClosedSt st) : (items : List Item) → Compat st (subtermsItems items) →
    ∀ c ∈ subtermsItems items, ∀ j, c.id = some j → c ∈ pendItems st items ∨ st.has j = true
  | [], _, c, hcm, _, _ => by simp [subtermsItems] at hcm
  | .data _ _ :: rest, hc, c, hcm, j, hj => by
    simp only [subtermsItems] at hc hcm
    simpa only [pendItems] using cover_items st hcl rest hc c hcm j hj
  | .child _ t :: rest, hc, c, hcm, j, hj => by
    simp only [subtermsItems] at hc
    simp only [subtermsItems, List.mem_append] at hcm
    simp only [pendItems, List.mem_append]
    rcases hcm with h | h
    · rcases cover_T st hcl t (hc.mono (fun c h => List.mem_append_left _ h)) c h j hj with h' | h'
      · exact Or.inl (Or.inl h')
      · exact Or.inr h'
    · rcases cover_items st hcl rest (hc.mono (fun c h => List.mem_append_right _ h)) c h j hj with h' | h'
      · exact Or.inl (Or.inr h')
      · exact Or.inr h'
  | .children _ ts :: rest, hc, c, hcm, j, hj => by
    simp only [subtermsItems] at hc
    simp only [subtermsItems, List.mem_append] at hcm
    simp only [pendItems, List.mem_append]
    rcases hcm with h | h
    · rcases cover_list st hcl ts (hc.mono (fun c h => List.mem_append_left _ h)) c h j hj with h' | h'
      · exact Or.inl (Or.inl h')
      · exact Or.inr h'
    · rcases cover_items st hcl rest (hc.mono (fun c h => List.mem_append_right _ h)) c h j hj with h' | h'
      · exact Or.inl (Or.inr h')
      · exact Or.inr h'
theorem cover_list (st : St) (hcl : ClosedSt st) : (ts : List T) → Compat st (subtermsList ts) →
    ∀ c ∈ subtermsList ts, ∀ j, c.id = some j → c ∈ pendList st ts ∨ st.has j = true
  | [], _, c, hcm, _, _ => by simp [subtermsList] at hcm
  | t :: ts, hc, c, hcm, j, hj => by
    simp only [subtermsList] at hc
    simp only [subtermsList, List.mem_append] at hcm
    simp only [pendList, List.mem_append]
    rcases hcm with h | h
    · rcases cover_T st hcl t (hc.mono (fun c h => List.mem_append_left _ h)) c h j hj with h' | h'
      · exact Or.inl (Or.inl h')
      · exact Or.inr h'
    · rcases cover_list st hcl ts (hc.mono (fun c h => List.mem_append_right _ h)) c h j hj with h' | h'
      · exact Or.inl (Or.inr h')
      · exact Or.inr h'
end

end QP.C10
