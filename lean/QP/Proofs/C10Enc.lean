import QP.Proofs.C10Pend
/-! C10: the encoder as it runs (`encT`, with the transaction dictionary) computes the declarative
documents `emit`/`body` and inserts exactly the pending named nodes, children first. -/
namespace QP.C10
set_option linter.unusedSimpArgs false
set_option linter.unusedVariables false
set_option linter.unusedSectionVars false

/-- no node handed to the storage while encoding the attributes of `t` carries `t`'s identifier -/
theorem pendItems_no_self {F : List T} (hu : UniqueIds F) (st : St) {t : T} {i : Id} (hid : t.id = some i)
    (hU : ∀ x ∈ subterms t, x ∈ Univ F) {txn : Txn} (hno : lookup i txn = none) :
    lookup i ((pendItems st t.items).foldl ins txn) = none := by
  cases hl : lookup i ((pendItems st t.items).foldl ins txn) with
  | none => rfl
  | some v =>
    obtain ⟨d, n⟩ := v
    rcases fold_ins_lookup _ txn i d n hl with h | h
    · rw [hno] at h; exact absurd h (by simp)
    · have hn := (pendItems_sub st t.items n h.1).1
      have hsub : n ∈ subterms t := by
        cases t with
        | node cls id items => rw [subterms_node]; exact List.mem_append_left _ hn
      exact absurd (uniq hu (hU n hsub) (hU t (self_mem_subterms t)) h.2.1 hid) (strict_ne t n hn)

section
variable {F : List T} (hu : UniqueIds F)
include hu

mutual
theorem enc_T (st : St) : (t : T) → (txn : Txn) → Compat st (subterms t) → (∀ x ∈ subterms t, x ∈ Univ F) →
    TxnVal F txn → TxnClosed st txn →
    encT st txn t = .ok ((pendT st t).foldl ins txn, emit t)
  | .node cls id items, txn, hc, hU, hv, hcl => by
    have hsub : ∀ x ∈ subtermsItems items, x ∈ subterms (T.node cls id items) :=
      fun x hx => by rw [subterms_node]; exact List.mem_append_left _ hx
    have hci : Compat st (subtermsItems items) := hc.mono hsub
    have ih := enc_items st cls items txn hci (fun x hx => hU x (hsub x hx)) hv hcl
    cases id with
    | none =>
      simp only [encT, ih, pendT, emit, bind, Except.bind, pure, Except.pure]
    | some i =>
      by_cases hs : st.has i = true
      · have := hc _ (self_mem_subterms _) i rfl hs
        simp only [encT, hs, if_true, this, pendT, emit, List.foldl_nil, pure, Except.pure]
      · have hs' : st.has i = false := by simpa using hs
        cases hl : lookup i txn with
        | some e =>
          obtain ⟨d, o⟩ := e
          have ho := hv i d o hl
          have hot : o = T.node cls (some i) items :=
            uniq hu ho.1 (hU _ (self_mem_subterms _)) ho.2.1 rfl
          -- everything that encoding the node again would hand to the storage is in the transaction already
          have hid1 : ∀ n ∈ pendItems st items, ins txn n = txn := by
            intro n hn
            obtain ⟨hnsub, hnamed⟩ := pendItems_sub st items n hn
            obtain ⟨k, hk⟩ : ∃ k, n.id = some k := by
              simp only [T.named] at hnamed; exact Option.isSome_iff_exists.mp hnamed
            have hhas := hcl i d o hl n (by rw [hot]; exact hn) k hk
            obtain ⟨v, hv'⟩ := (hasKey_true_iff _ _).mp hhas
            obtain ⟨d', m⟩ := v
            have hm := hv k d' m hv'
            have hmn : m = n := uniq hu hm.1 (hU n (hsub n hnsub)) hm.2.1 hk
            rw [ins_named hk]
            apply put_self; rw [hv', hm.2.2, hmn]
          have hfold : (pendItems st items ++ [T.node cls (some i) items]).foldl ins txn = txn := by
            rw [foldl_ins_append, fold_ins_id _ txn hid1]
            simp only [List.foldl_cons, List.foldl_nil]
            rw [ins_named (show (T.node cls (some i) items).id = some i from rfl)]
            apply put_self; rw [hl, ho.2.2, hot]
          simp only [encT, hs', Bool.false_eq_true, if_false, hl, hot, if_true, pendT, emit, hfold, pure, Except.pure]
        | none =>
          have hno := pendItems_no_self hu st (t := T.node cls (some i) items) rfl hU hl
          simp only [T.items] at hno
          have hk : hasKey i ((pendItems st items).foldl ins txn) = false := by
            simp only [hasKey, hno]; rfl
          simp only [encT, hs', Bool.false_eq_true, if_false, hl, ih, hk, pendT, emit, bind, Except.bind, pure,
            Except.pure, foldl_ins_append, List.foldl_cons, List.foldl_nil, ins, T.id, body]
theorem enc_items (st : St) (cls : Cls) : (items : List Item) → (txn : Txn) →
    Compat st (subtermsItems items) → (∀ x ∈ subtermsItems items, x ∈ Univ F) → TxnVal F txn → TxnClosed st txn →
    encItems st cls txn items = .ok ((pendItems st items).foldl ins txn, bodyItems cls items)
  | [], txn, _, _, _, _ => rfl
  | .data k j :: rest, txn, hc, hU, hv, hcl => by
    simp only [subtermsItems] at hc hU
    have ih := enc_items st cls rest txn hc hU hv hcl
    by_cases he : emitted cls (.data k j) = true
    · simp only [encItems, he, if_true, ih, pendItems, bodyItems, bind, Except.bind, pure, Except.pure]
    · have he' : emitted cls (.data k j) = false := by simpa using he
      simp only [encItems, he', Bool.false_eq_true, if_false, ih, pendItems, bodyItems]
  | .child k t :: rest, txn, hc, hU, hv, hcl => by
    simp only [subtermsItems] at hc hU
    have hUt : ∀ x ∈ subterms t, x ∈ Univ F := fun x hx => hU x (List.mem_append_left _ hx)
    have h1 := enc_T st t txn (hc.mono (fun c h => List.mem_append_left _ h)) hUt hv hcl
    have hLU : ∀ n ∈ pendT st t, n ∈ Univ F := fun n hn => hUt n (pendT_sub st t n hn).1
    have h2 := enc_items st cls rest ((pendT st t).foldl ins txn) (hc.mono (fun c h => List.mem_append_right _ h))
      (fun x hx => hU x (List.mem_append_right _ hx)) (fold_val hv hLU)
      (fold_closed hu hv hcl hLU (pendT_closed st t))
    simp only [encItems, h1, h2, pendItems, bodyItems, bind, Except.bind, pure, Except.pure, foldl_ins_append]
  | .children k ts :: rest, txn, hc, hU, hv, hcl => by
    simp only [subtermsItems] at hc hU
    have hUt : ∀ x ∈ subtermsList ts, x ∈ Univ F := fun x hx => hU x (List.mem_append_left _ hx)
    have h1 := enc_list st ts txn (hc.mono (fun c h => List.mem_append_left _ h)) hUt hv hcl
    have hLU : ∀ n ∈ pendList st ts, n ∈ Univ F := fun n hn => hUt n (pendList_sub st ts n hn).1
    have h2 := enc_items st cls rest ((pendList st ts).foldl ins txn) (hc.mono (fun c h => List.mem_append_right _ h))
      (fun x hx => hU x (List.mem_append_right _ hx)) (fold_val hv hLU)
      (fold_closed hu hv hcl hLU (pendList_closed st ts))
    simp only [encItems, h1, h2, pendItems, bodyItems, bind, Except.bind, pure, Except.pure, foldl_ins_append]
theorem enc_list (st : St) : (ts : List T) → (txn : Txn) → Compat st (subtermsList ts) →
    (∀ x ∈ subtermsList ts, x ∈ Univ F) → TxnVal F txn → TxnClosed st txn →
    encList st txn ts = .ok ((pendList st ts).foldl ins txn, emitList ts)
  | [], txn, _, _, _, _ => rfl
  | t :: ts, txn, hc, hU, hv, hcl => by
    simp only [subtermsList] at hc hU
    have hUt : ∀ x ∈ subterms t, x ∈ Univ F := fun x hx => hU x (List.mem_append_left _ hx)
    have h1 := enc_T st t txn (hc.mono (fun c h => List.mem_append_left _ h)) hUt hv hcl
    have hLU : ∀ n ∈ pendT st t, n ∈ Univ F := fun n hn => hUt n (pendT_sub st t n hn).1
    have h2 := enc_list st ts ((pendT st t).foldl ins txn) (hc.mono (fun c h => List.mem_append_right _ h))
      (fun x hx => hU x (List.mem_append_right _ hx)) (fold_val hv hLU)
      (fold_closed hu hv hcl hLU (pendT_closed st t))
    simp only [encList, h1, h2, pendList, emitList, bind, Except.bind, pure, Except.pure, foldl_ins_append]
end

theorem overwrite_spec (st : St) (i : Id) (t : T) (hid : t.id = some i) (hc : Compat st (subterms t))
    (hU : ∀ x ∈ subterms t, x ∈ Univ F) :
    overwrite st i t =
      .ok (commit st ((pendRoot st t).foldl ins []),
           ((pendRoot st t).foldl ins []).map (fun e => (e.1, e.2.1))) := by
  have hno := pendItems_no_self hu st hid hU (txn := []) rfl
  cases t with
  | node cls id items =>
    have hid' : id = some i := hid
    subst hid'
    have hsub : ∀ x ∈ subtermsItems items, x ∈ subterms (T.node cls (some i) items) :=
      fun x hx => by rw [subterms_node]; exact List.mem_append_left _ hx
    simp only [T.items] at hno
    have hk : hasKey i ((pendItems st items).foldl ins []) = false := by
      simp only [hasKey, hno]; rfl
    have henc := enc_items hu st cls items [] (hc.mono hsub) (fun x hx => hU x (hsub x hx))
      (fun j d m h => by simp at h) (fun j d m h => by simp at h)
    simp only [overwrite, henc, hk, bind, Except.bind, pure, Except.pure, pendRoot,
      T.items, foldl_ins_append, List.foldl_cons, List.foldl_nil, ins, T.id, body, Bool.false_eq_true, if_false]

end

/-! ### what is not pending is already stored -/

/-- the storage is closed: with an object it holds all the object's named descendants -/
def ClosedSt (st : St) : Prop :=
  ∀ i o, lookup i st.temp = some o → ∀ c ∈ subterms o, ∀ j, c.id = some j → st.has j = true

mutual
theorem cover_T (st : St) (hcl : ClosedSt st) : (t : T) → Compat st (subterms t) →
    ∀ c ∈ subterms t, ∀ j, c.id = some j → c ∈ pendT st t ∨ st.has j = true
  | .node cls id items, hc, c, hcm, j, hj => by
    have hci : Compat st (subtermsItems items) :=
      hc.mono (fun c h => by rw [subterms_node]; exact List.mem_append_left _ h)
    rw [subterms_node] at hcm
    cases id with
    | none =>
      simp only [pendT]
      rcases List.mem_append.mp hcm with h | h
      · exact cover_items st hcl items hci c h j hj
      · simp only [List.mem_singleton] at h; subst h; simp [T.id] at hj
    | some i =>
      by_cases hs : st.has i = true
      · right
        have hl := hc _ (self_mem_subterms _) i rfl hs
        exact hcl i _ hl c (by rw [subterms_node]; exact hcm) j hj
      · have hs' : st.has i = false := by simpa using hs
        simp only [pendT, hs', Bool.false_eq_true, if_false, List.mem_append, List.mem_singleton]
        rcases List.mem_append.mp hcm with h | h
        · rcases cover_items st hcl items hci c h j hj with h' | h'
          · exact Or.inl (Or.inl h')
          · exact Or.inr h'
        · simp only [List.mem_singleton] at h; exact Or.inl (Or.inr h)
theorem cover_items (st : St) (hcl : ClosedSt st) : (items : List Item) → Compat st (subtermsItems items) →
    ∀ c ∈ subtermsItems items, ∀ j, c.id = some j → c ∈ pendItems st items ∨ st.has j = true
  | [], _, c, hcm, _, _ => by simp [subtermsItems] at hcm
  | .data _ _ :: rest, hc, c, hcm, j, hj => by
    simp only [subtermsItems] at hc hcm
    simpa only [pendItems] using cover_items st hcl rest hc c hcm j hj
  | .child _ t :: rest, hc, c, hcm, j, hj => by
    simp only [subtermsItems] at hc
    simp only [subtermsItems, List.mem_append] at hcm
    simp only [pendItems, List.mem_append]
    rcases hcm with h | h
    · rcases cover_T st hcl t (hc.mono (fun c h => List.mem_append_left _ h)) c h j hj with h' | h'
      · exact Or.inl (Or.inl h')
      · exact Or.inr h'
    · rcases cover_items st hcl rest (hc.mono (fun c h => List.mem_append_right _ h)) c h j hj with h' | h'
      · exact Or.inl (Or.inr h')
      · exact Or.inr h'
  | .children _ ts :: rest, hc, c, hcm, j, hj => by
    simp only [subtermsItems] at hc
    simp only [subtermsItems, List.mem_append] at hcm
    simp only [pendItems, List.mem_append]
    rcases hcm with h | h
    · rcases cover_list st hcl ts (hc.mono (fun c h => List.mem_append_left _ h)) c h j hj with h' | h'
      · exact Or.inl (Or.inl h')
      · exact Or.inr h'
    · rcases cover_items st hcl rest (hc.mono (fun c h => List.mem_append_right _ h)) c h j hj with h' | h'
      · exact Or.inl (Or.inr h')
      · exact Or.inr h'
theorem cover_list (st : St) (hcl : ClosedSt st) : (ts : List T) → Compat st (subtermsList ts) →
    ∀ c ∈ subtermsList ts, ∀ j, c.id = some j → c ∈ pendList st ts ∨ st.has j = true
  | [], _, c, hcm, _, _ => by simp [subtermsList] at hcm
  | t :: ts, hc, c, hcm, j, hj => by
    simp only [subtermsList] at hc
    simp only [subtermsList, List.mem_append] at hcm
    simp only [pendList, List.mem_append]
    rcases hcm with h | h
    · rcases cover_T st hcl t (hc.mono (fun c h => List.mem_append_left _ h)) c h j hj with h' | h'
      · exact Or.inl (Or.inl h')
      · exact Or.inr h'
    · rcases cover_list st hcl ts (hc.mono (fun c h => List.mem_append_right _ h)) c h j hj with h' | h'
      · exact Or.inl (Or.inr h')
      · exact Or.inr h'
end

end QP.C10
