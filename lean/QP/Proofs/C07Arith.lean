import QP.Proofs.C07Par
/-!
# C07: `ArithmeticPulseTemplate` (template ∘ scalar): the coefficient table `x ↦ x·α + β`, the closed form side
(`arithCombine`), the denoted side (chain of offset / scaling transformations) and the case of the induction
-/
namespace QP.C07
open QP.PT


/-! ### affine maps of the values of a piecewise linear function -/

/-- every value `x` becomes `x·α + β` -/
def affPL (α β : Rat) (pl : PL) : PL := pl.mapV (fun x => x * α + β)

theorem mapV_congr {f g : Rat → Rat} (h : ∀ x, f x = g x) (pl : PL) : pl.mapV f = pl.mapV g := by
  unfold PL.mapV
  apply List.map_congr_left
  intro s _
  rw [h, h]

theorem mapV_mapV (f g : Rat → Rat) (pl : PL) : (pl.mapV f).mapV g = pl.mapV (fun x => g (f x)) := by
  unfold PL.mapV
  rw [List.map_map]
  rfl

theorem affPL_id (pl : PL) : affPL 1 0 pl = pl := by
  unfold affPL PL.mapV
  have : ∀ s : Seg, ({ s with v0 := s.v0 * 1 + 0, v1 := s.v1 * 1 + 0 } : Seg) = s := by
    intro s
    have h0 : s.v0 * 1 + 0 = s.v0 := by grind
    have h1 : s.v1 * 1 + 0 = s.v1 := by grind
    rw [h0, h1]
  simp only [this, List.map_id']

theorem plIntegral_affPL (α β : Rat) (pl : PL) : plIntegral (affPL α β pl) = plIntegral pl * α + β * PL.dur pl := by
  unfold affPL
  induction pl with
  | nil => simp [PL.mapV, plIntegral, PL.dur]; grind
  | cons s r ih =>
    have : PL.mapV (fun x => x * α + β) (s :: r) =
        { s with v0 := s.v0 * α + β, v1 := s.v1 * α + β } :: PL.mapV (fun x => x * α + β) r := rfl
    rw [this]
    simp only [plIntegral, PL.dur, ih]
    grind

theorem plEnd_affPL (e : End) (α β : Rat) (pl : PL) : plEnd e (affPL α β pl) = (plEnd e pl).map (fun x => x * α + β) := by
  unfold affPL
  cases e with
  | first =>
    cases pl with
    | nil => rfl
    | cons s r => rfl
  | last =>
    simp only [plEnd]
    induction pl with
    | nil => rfl
    | cons s r ih =>
      cases r with
      | nil => rfl
      | cons t r' =>
        have h1 : PL.mapV (fun x => x * α + β) (s :: t :: r') =
            { s with v0 := s.v0 * α + β, v1 := s.v1 * α + β } :: PL.mapV (fun x => x * α + β) (t :: r') := rfl
        have h2 : PL.mapV (fun x => x * α + β) (t :: r') =
            { t with v0 := t.v0 * α + β, v1 := t.v1 * α + β } :: PL.mapV (fun x => x * α + β) r' := rfl
        rw [h1, h2, plLast]
        rw [← h2]
        exact ih

/-! ### the coefficient table of `ArithmeticPulseTemplate` -/

/-- `x ↦ x·α + β`: what the operator, the operand order and the scalar value `s` (if the channel has one) do to a
value of the template operand; `none` where the code raises -/
def arithCoeff (op : AOp) (ptIsLhs : Bool) (s : Option Rat) : Option (Rat × Rat) :=
  match ptIsLhs, op, s with
  | true, .plus, some s => some (1, s)
  | true, .minus, some s => some (1, -s)
  | true, .times, some s => some (s, 0)
  | true, .div, some s => if s = 0 then none else some (s⁻¹, 0)
  | true, _, none => some (1, 0)
  | false, .plus, some s => some (1, s)
  | false, .minus, some s => some (-1, s)
  | false, .times, some s => some (s, 0)
  | false, .div, _ => none
  | false, .plus, none => some (1, 0)
  | false, .minus, none => some (-1, 0)
  | false, .times, none => some (1, 0)

/-- the closed form side for the end values: `arithCombine` applies the table -/
theorem arithCombine_ends {op : AOp} {ptIsLhs : Bool} {x : Rat} {s : Option Rat} {y : Rat}
    (h : arithCombine op ptIsLhs (some x) s = .ok y) :
    ∃ α β, arithCoeff op ptIsLhs s = some (α, β) ∧ y = x * α + β := by
  unfold arithCombine at h
  cases ptIsLhs <;> cases op <;> cases s <;> simp only [Bool.false_eq_true, if_false, if_true] at h
  all_goals first
    | (have hy := Except.ok.inj h; subst hy; exact ⟨_, _, rfl, by grind⟩)
    | (split at h
       · cases h
       · rename_i hne
         have hy := Except.ok.inj h
         subst hy
         rename_i v
         refine ⟨v⁻¹, 0, by simp [arithCoeff, hne], ?_⟩
         simp only [Rat.div_def]; grind)
    | cases h

/-- the scalar as it enters the integral: multiplied by the duration for `+` and `-` -/
def scaleBy (op : AOp) (D v : Rat) : Rat :=
  match op with
  | .plus | .minus => v * D
  | .times | .div => v

/-- the closed form side for the integral: the scalar is multiplied by the duration for `+` and `-` -/
theorem arithCombine_integral {op : AOp} {ptIsLhs : Bool} {x D : Rat} {s : Option Rat} {y : Rat}
    (h : arithCombine op ptIsLhs (some x) (s.map (scaleBy op D)) = .ok y) :
    ∃ α β, arithCoeff op ptIsLhs s = some (α, β) ∧ y = x * α + β * D := by
  cases s with
  | none =>
    obtain ⟨α, β, h1, h2⟩ := arithCombine_ends (s := none) h
    refine ⟨α, β, h1, ?_⟩
    cases ptIsLhs <;> cases op <;> simp [arithCoeff] at h1 <;> (obtain ⟨rfl, rfl⟩ := h1; rw [h2]; grind)
  | some v =>
    cases op with
    | plus =>
      obtain ⟨α, β, h1, h2⟩ := arithCombine_ends (s := some (v * D)) h
      cases ptIsLhs <;> simp [arithCoeff] at h1 <;> (obtain ⟨rfl, rfl⟩ := h1; exact ⟨1, v, by simp [arithCoeff], h2⟩)
    | minus =>
      obtain ⟨α, β, h1, h2⟩ := arithCombine_ends (s := some (v * D)) h
      cases ptIsLhs <;> simp [arithCoeff] at h1 <;> obtain ⟨rfl, rfl⟩ := h1
      · exact ⟨-1, v, by simp [arithCoeff], h2⟩
      · exact ⟨1, -v, by simp [arithCoeff], by rw [h2]; grind⟩
    | times =>
      obtain ⟨α, β, h1, h2⟩ := arithCombine_ends (s := some v) h
      refine ⟨α, β, h1, ?_⟩
      cases ptIsLhs <;> simp [arithCoeff] at h1 <;> (obtain ⟨rfl, rfl⟩ := h1; rw [h2]; grind)
    | div =>
      obtain ⟨α, β, h1, h2⟩ := arithCombine_ends (s := some v) h
      refine ⟨α, β, h1, ?_⟩
      cases ptIsLhs <;> simp [arithCoeff] at h1
      obtain ⟨_, rfl, rfl⟩ := h1; rw [h2]; grind

/-! ### the denoted side -/

def offPick (m : List (Chan × Rat)) (k : Chan) (pl : PL) : PL :=
  match m.lookup k with
  | some s => affPL 1 s pl
  | none => pl

def sclPick (m : List (Chan × Rat)) (k : Chan) (pl : PL) : PL :=
  match m.lookup k with
  | some f => affPL f 0 pl
  | none => pl

theorem lookup_offset (m : List (Chan × Rat)) (d : Rat) (chans : List (Chan × PL)) (o : Chan) :
    (applyTrafoPL (.offset m) d chans).lookup o = (chans.lookup o).map (offPick m o) := by
  rw [applyTrafoPL_offset, ← lookup_map_key chans (offPick m) o]
  congr 1
  apply List.map_congr_left
  intro x _
  unfold offPick affPL
  cases m.lookup x.1 with
  | none => rfl
  | some s => simp only; congr 1; apply mapV_congr; intro y; grind

theorem lookup_scaling (m : List (Chan × Rat)) (d : Rat) (chans : List (Chan × PL)) (o : Chan) :
    (applyTrafoPL (.scaling m) d chans).lookup o = (chans.lookup o).map (sclPick m o) := by
  rw [applyTrafoPL_scaling, ← lookup_map_key chans (sclPick m) o]
  congr 1
  apply List.map_congr_left
  intro x _
  unfold sclPick affPL
  cases m.lookup x.1 with
  | none => rfl
  | some s => simp only; congr 1; apply mapV_congr; intro y; grind

theorem affPL_affPL (a b c d : Rat) (pl : PL) : affPL c d (affPL a b pl) = affPL (a * c) (b * c + d) pl := by
  unfold affPL
  rw [mapV_mapV]
  apply mapV_congr
  intro x; grind

theorem filterMapM_opt {α} (cm : List (Chan × Option Chan)) (key : α → Chan) (val : α → Rat) :
    ∀ (l : List α) (r : List (Chan × Rat)),
    l.filterMapM (fun x => do
        let o ← chanLookup cm (key x)
        pure (o.map (fun o => (o, val x)))) = .ok r →
    (∀ x ∈ l, ∀ o, cm.lookup (key x) = some (some o) → (o, val x) ∈ r) ∧
    (∀ y ∈ r, ∃ x ∈ l, cm.lookup (key x) = some (some y.1) ∧ y.2 = val x)
  | [], r, h => by
    simp only [List.filterMapM_nil, pure_ok_iff] at h; subst h
    exact ⟨(fun x hx => nomatch hx), (fun y hy => nomatch hy)⟩
  | z :: rest, r, h => by
    rw [List.filterMapM_cons] at h
    simp only [bind_ok_iff, pure_ok_iff] at h
    obtain ⟨w, ⟨oo, hoo, rfl⟩, h⟩ := h
    rw [chanLookup_ok_iff] at hoo
    cases oo with
    | none =>
      simp only [Option.map] at h
      obtain ⟨i1, i2⟩ := filterMapM_opt cm key val rest r h
      refine ⟨?_, ?_⟩
      · intro x hx o ho
        rcases List.mem_cons.mp hx with rfl | hx
        · rw [hoo] at ho; cases ho
        · exact i1 x hx o ho
      · intro y hy
        obtain ⟨x, hx, hh⟩ := i2 y hy
        exact ⟨x, List.mem_cons_of_mem _ hx, hh⟩
    | some o1 =>
      simp only [Option.map, bind_ok_iff, pure_ok_iff] at h
      obtain ⟨r', hr', rfl⟩ := h
      obtain ⟨i1, i2⟩ := filterMapM_opt cm key val rest r' hr'
      refine ⟨?_, ?_⟩
      · intro x hx o ho
        rcases List.mem_cons.mp hx with rfl | hx
        · rw [hoo] at ho; cases ho; exact List.mem_cons_self ..
        · exact List.mem_cons_of_mem _ (i1 x hx o ho)
      · intro y hy
        rcases List.mem_cons.mp hy with rfl | hy
        · exact ⟨z, List.mem_cons_self .., hoo, rfl⟩
        · obtain ⟨x, hx, hh⟩ := i2 y hy
          exact ⟨x, List.mem_cons_of_mem _ hx, hh⟩

/-- a constant dictionary over the kept channels -/
theorem const_dict_lookup {cm : List (Chan × Option Chan)} {cs : List Chan} {v : Rat} {r : List (Chan × Rat)}
    (h : cs.filterMapM (fun c => do
        let o ← chanLookup cm c
        pure (o.map (fun o => (o, v)))) = .ok r) {c o : Chan} (hc : c ∈ cs) (hcm : cm.lookup c = some (some o)) :
    (dictOfList r).lookup o = some v := by
  obtain ⟨i1, i2⟩ := filterMapM_opt cm id (fun _ => v) cs r h
  apply dictOfList_lookup r o v _ (i1 c hc o hcm)
  intro y hy _
  obtain ⟨x, _, _, hv⟩ := i2 y hy
  exact hv

theorem offPick_eq (m : List (Chan × Rat)) (o : Chan) :
    offPick m o = match m.lookup o with | some s => affPL 1 s | none => affPL 1 0 := by
  funext pl
  unfold offPick
  cases m.lookup o with
  | none => simp only; rw [affPL_id]
  | some s => rfl

theorem sclPick_eq (m : List (Chan × Rat)) (o : Chan) :
    sclPick m o = match m.lookup o with | some f => affPL f 0 | none => affPL 1 0 := by
  funext pl
  unfold sclPick
  cases m.lookup o with
  | none => simp only; rw [affPL_id]
  | some s => rfl

theorem affPL_congr {a b a' b' : Rat} (ha : a = a') (hb : b = b') : affPL a b = affPL a' b' := by rw [ha, hb]

/-- the denoted side: the chain of transformations applies the coefficient table to the channel -/
theorem arith_chan {bodyChans : List Chan} {op : AOp} {ptIsLhs : Bool} {cm : List (Chan × Option Chan)}
    {sv : List (Chan × Rat)} {T : Chain} (hT : arithTail bodyChans op ptIsLhs cm sv = .ok T)
    (d : Rat) (chans : List (Chan × PL)) {c o : Chan} (hc : c ∈ bodyChans) (hcm : cm.lookup c = some (some o)) :
    ∃ α β, arithCoeff op ptIsLhs (sv.lookup o) = some (α, β) ∧
      (T.foldl (fun cs t => applyTrafoPL t d cs) chans).lookup o = (chans.lookup o).map (affPL α β) := by
  unfold arithTail at hT
  cases ptIsLhs
  case true =>
    -- the template is the left operand
    simp only [if_true] at hT
    cases op with
    | plus =>
      simp only [pure_ok_iff] at hT; subst hT
      simp only [List.foldl_cons, List.foldl_nil, lookup_offset, offPick_eq]
      cases sv.lookup o with
      | none => exact ⟨1, 0, rfl, rfl⟩
      | some s => exact ⟨1, s, rfl, rfl⟩
    | minus =>
      simp only [pure_ok_iff] at hT; subst hT
      simp only [List.foldl_cons, List.foldl_nil, lookup_offset, offPick_eq]
      rw [lookup_map_snd sv (fun v => -v) o]
      cases sv.lookup o with
      | none => exact ⟨1, 0, rfl, rfl⟩
      | some s => exact ⟨1, -s, rfl, rfl⟩
    | times =>
      simp only [pure_ok_iff] at hT; subst hT
      simp only [List.foldl_cons, List.foldl_nil, lookup_scaling, sclPick_eq]
      cases sv.lookup o with
      | none => exact ⟨1, 0, rfl, rfl⟩
      | some s => exact ⟨s, 0, rfl, rfl⟩
    | div =>
      simp only at hT
      split at hT
      · cases hT
      · rename_i hany
        simp only [pure_ok_iff] at hT; subst hT
        simp only [List.foldl_cons, List.foldl_nil, lookup_scaling, sclPick_eq]
        rw [lookup_map_snd sv (fun v => v⁻¹) o]
        cases hs : sv.lookup o with
        | none => exact ⟨1, 0, rfl, rfl⟩
        | some s =>
          have hs0 : s ≠ 0 := by
            intro h0
            apply hany
            apply List.any_eq_true.mpr
            exact ⟨(o, s), mem_of_lookup sv o s hs, by simp [h0]⟩
          exact ⟨s⁻¹, 0, by simp [arithCoeff, hs0], rfl⟩
  case false =>
    simp only [Bool.false_eq_true, if_false] at hT
    cases op with
    | plus =>
      simp only [pure_ok_iff] at hT; subst hT
      simp only [List.foldl_cons, List.foldl_nil, lookup_offset, offPick_eq]
      cases sv.lookup o with
      | none => exact ⟨1, 0, rfl, rfl⟩
      | some s => exact ⟨1, s, rfl, rfl⟩
    | minus =>
      simp only [bind_ok_iff, pure_ok_iff] at hT
      obtain ⟨neg, hneg, rfl⟩ := hT
      have hn : (dictOfList neg).lookup o = some (-1) := const_dict_lookup hneg hc hcm
      simp only [List.foldl_cons, List.foldl_nil, lookup_offset, lookup_scaling, offPick_eq, sclPick_eq, hn,
        Option.map_map]
      cases sv.lookup o with
      | none =>
        refine ⟨-1, 0, rfl, ?_⟩
        congr 1
        funext pl
        simp only [Function.comp, affPL_id]
      | some s =>
        refine ⟨-1, s, rfl, ?_⟩
        congr 1
        funext pl
        simp only [Function.comp, affPL_affPL]
        exact congrFun (affPL_congr (by grind) (by grind)) pl
    | times =>
      simp only [pure_ok_iff] at hT; subst hT
      simp only [List.foldl_cons, List.foldl_nil, lookup_scaling, sclPick_eq]
      cases sv.lookup o with
      | none => exact ⟨1, 0, rfl, rfl⟩
      | some s => exact ⟨s, 0, rfl, rfl⟩
    | div => cases hT

/-! ### the scalar operand -/

theorem eval_mono {look1 look2 : String → Except Err Rat} (h : ∀ x v, look1 x = .ok v → look2 x = .ok v) :
    ∀ (e : Expr) (s : Rat), e.eval look1 = .ok s → e.eval look2 = .ok s := by
  intro e
  induction e with
  | lit q => intro s hs; exact hs
  | var x => intro s hs; exact h x s hs
  | add a b iha ihb | mul a b iha ihb | max a b iha ihb | min a b iha ihb =>
    intro s hs
    simp only [Expr.eval, bind_ok_iff, pure_ok_iff] at hs ⊢
    obtain ⟨x, hx, y, hy, rfl⟩ := hs
    exact ⟨x, iha x hx, y, ihb y hy, rfl⟩
  | cmp c a b iha ihb =>
    intro s hs
    simp only [Expr.eval, bind_ok_iff, pure_ok_iff] at hs ⊢
    obtain ⟨x, hx, y, hy, rfl⟩ := hs
    exact ⟨x, iha x hx, y, ihb y hy, rfl⟩
  | pow a n iha =>
    intro s hs
    simp only [Expr.eval, bind_ok_iff] at hs ⊢
    obtain ⟨x, hx, hp⟩ := hs
    exact ⟨x, iha x hx, hp⟩
  | floor a iha | ceil a iha | abs a iha =>
    intro s hs
    simp only [Expr.eval, bind_ok_iff, pure_ok_iff] at hs ⊢
    obtain ⟨x, hx, rfl⟩ := hs
    exact ⟨x, iha x hx, rfl⟩
  | unsupported => intro s hs; cases hs

/-- `evaluate_numeric(**scope)` and `evaluate_in_scope(scope)` agree where both succeed -/
theorem evalKw_eq_eval {σ : Scope} {e : Expr} {s v : Rat} (h1 : σ.evalKw e = .ok s) (h2 : σ.eval e = .ok v) : s = v := by
  unfold Scope.evalKw at h1
  simp only [bind_ok_iff] at h1
  obtain ⟨_, _, h1⟩ := h1
  have := eval_mono (look2 := σ.look) (fun x w hx => by
    revert hx
    cases hl : σ.look x with
    | ok u => intro hx; exact hx
    | error er => cases er <;> intro hx <;> cases hx) e s h1
  unfold Scope.eval at h2
  rw [this] at h2; cases h2; rfl

/-- what the constructor of `ArithmeticPulseTemplate` enforces for a scalar given per channel -/
def scalarWf (body : PT) : Scalar → Prop
  | .perChan m => hasDup (m.map (·.1)) = false ∧ ∀ x ∈ m, x.1 ∈ body.definedChannels
  | .uniform _ => True

theorem arithSv_lookup {body : PT} {scalar : Scalar} {σ : Scope} {cm : List (Chan × Option Chan)}
    {sv : List (Chan × Rat)} (h : arithSv body.definedChannels scalar σ cm = .ok sv)
    {c o : Chan} (hc : c ∈ body.definedChannels) (hcm : cm.lookup c = some (some o))
    (hinj : InjOn cm body.definedChannels)
    (hwf : scalarWf body scalar) :
    match scalarOn body scalar c with
    | some ex => ∃ s, σ.evalKw ex = .ok s ∧ sv.lookup o = some s
    | none => sv.lookup o = none := by
  unfold arithSv at h
  cases scalar with
  | uniform e =>
    simp only [bind_ok_iff, pure_ok_iff] at h
    obtain ⟨v, hv, cs, hcs, rfl⟩ := h
    have hcont : body.definedChannels.contains c = true := by simpa using hc
    simp only [scalarOn, hcont, if_true]
    exact ⟨v, hv, const_dict_lookup hcs hc hcm⟩
  | perChan m =>
    simp only [bind_ok_iff, pure_ok_iff] at h
    obtain ⟨cs, hcs, rfl⟩ := h
    simp only [scalarWf] at hwf
    obtain ⟨hnd, hsub⟩ := hwf
    obtain ⟨h1, h2⟩ := filterMapM_kept cm σ.evalKw m cs hcs
    simp only [scalarOn]
    cases hm : m.lookup c with
    | some ex =>
      simp only
      obtain ⟨v, hv, _⟩ := h2 (c, ex) (mem_of_lookup m c ex hm) o hcm
      refine ⟨v, hv, ?_⟩
      refine kept_dict_lookup σ.evalKw hnd hcs ?_ hm hcm hv
      intro x hx c' o' hx1 hx2 hc'
      obtain ⟨y, hy, rfl⟩ := List.mem_map.mp hc'
      exact hinj x.1 y.1 o' (hsub x hx) (hsub y hy) hx1 hx2
    | none =>
      simp only
      cases hl : (dictOfList cs).lookup o with
      | none => rfl
      | some v =>
        exfalso
        have hk := dictOfList_keys cs o v hl
        obtain ⟨y, hy, hy1⟩ := List.mem_map.mp hk
        obtain ⟨x, hx, hxc, _⟩ := h1 y hy
        rw [hy1] at hxc
        have : x.1 = c := hinj x.1 c o (hsub x hx) hc hxc hcm
        obtain ⟨ex, hex⟩ := lookup_isSome_of_mem_keys m x.1 (List.mem_map.mpr ⟨x, hx, rfl⟩)
        rw [this, hm] at hex; cases hex

/-! ### the case of the induction -/

theorem arithCoeff_beta {op : AOp} {ptIsLhs : Bool} {s : Option Rat} {α β : Rat}
    (h : arithCoeff op ptIsLhs s = some (α, β)) (hβ : β ≠ 0) : s.isSome = true ∧ (op = .plus ∨ op = .minus) := by
  cases ptIsLhs <;> cases op <;> cases s <;> simp [arithCoeff] at h <;>
    first
    | (obtain ⟨_, rfl⟩ := h; exact absurd rfl hβ)
    | (obtain ⟨_, _, rfl⟩ := h; exact absurd rfl hβ)
    | exact ⟨rfl, by simp⟩

/-- what the closed form of the integral evaluates -/
theorem integralOf_arith {id body op scalar ptIsLhs} {σ : Scope} {c : Chan} {r : Rat}
    (h : integralOf (.arith id body op scalar ptIsLhs) σ c = .ok r) (hc : c ∈ body.definedChannels) :
    ∃ I s D, integralOf body σ c = .ok I ∧
      (match scalarOn body scalar c with
       | none => s = none
       | some ex => ∃ v, σ.eval ex = .ok v ∧ s = some v) ∧
      ((s.isSome = true ∧ (op = .plus ∨ op = .minus)) → templateDuration body σ = .ok D) ∧
      arithCombine op ptIsLhs (some I) (s.map (scaleBy op D)) = .ok r := by
  rw [integralOf] at h
  split at h
  · cases h
  · have hcont : body.definedChannels.contains c = true := by simpa using hc
    simp only [hcont, if_true, bind_ok_iff, pure_ok_iff] at h
    obtain ⟨ptv, ⟨I, hI, rfl⟩, h⟩ := h
    cases hso : scalarOn body scalar c with
    | none =>
      rw [hso] at h
      simp only [pure, Except.pure, ok_bind] at h
      exact ⟨I, none, 0, hI, rfl, (fun hh => by simp at hh), h⟩
    | some ex =>
      rw [hso] at h
      simp only [bind_ok_iff] at h
      obtain ⟨v, hv, h⟩ := h
      cases op with
      | plus =>
        simp only [bind_ok_iff, pure_ok_iff] at h
        obtain ⟨D, hD, a, rfl, h⟩ := h
        exact ⟨I, some v, D, hI, ⟨v, hv, rfl⟩, (fun _ => hD), h⟩
      | minus =>
        simp only [bind_ok_iff, pure_ok_iff] at h
        obtain ⟨D, hD, a, rfl, h⟩ := h
        exact ⟨I, some v, D, hI, ⟨v, hv, rfl⟩, (fun _ => hD), h⟩
      | times =>
        simp only [pure, Except.pure, ok_bind] at h
        exact ⟨I, some v, 0, hI, ⟨v, hv, rfl⟩, (fun hh => by simp at hh), h⟩
      | div =>
        simp only [pure, Except.pure, ok_bind] at h
        exact ⟨I, some v, 0, hI, ⟨v, hv, rfl⟩, (fun hh => by simp at hh), h⟩

theorem claim_arith (id body op scalar ptIsLhs) (ih : Claim body) (hinv : InvClaim body) (hpres : PresClaim body)
    (hwf : scalarWf body scalar) :
    Claim (.arith id body op scalar ptIsLhs) := by
  intro σ mm cm P c o hden hreg hinj hc hcm hkeep
  rw [denote] at hden
  simp only [bind_ok_iff] at hden
  obtain ⟨b, hb, hden⟩ := hden
  rw [regular] at hreg
  have hkeepb : keeps body cm = true := by simpa [keeps] using hkeep
  simp only [PT.definedChannels] at hinj hc
  obtain ⟨i1, _, i3⟩ := hinv σ mm cm b hb hreg
  have ihb := ih σ mm cm b c o hb hreg hinj hc hcm hkeepb
  have hdurb : PL.dur (pulseVal b o) = b.dur := by
    cases hl : b.chans.lookup o with
    | some pl =>
      simp only [pulseVal, hl, Option.getD_some]
      exact (i1.seg (o, pl) (mem_of_lookup b.chans o pl hl)).2
    | none =>
      simp only [pulseVal, hl, Option.getD_none, PL.dur]
      rcases hpres σ mm cm b hb hreg hkeepb c o hc hcm with h | h
      · obtain ⟨pl, hpl⟩ := lookup_isSome_of_mem_keys b.chans o h
        rw [hpl] at hl; cases hl
      · exact h.symm
  -- the scalar value the denoted side uses is the one the closed form evaluates
  have hscal : ∀ (sv : List (Chan × Rat)), arithSv body.definedChannels scalar σ cm = .ok sv →
      ∀ s, (match scalarOn body scalar c with
        | none => s = none
        | some ex => ∃ v, σ.eval ex = .ok v ∧ s = some v) → sv.lookup o = s := by
    intro sv hsv s hs
    have := arithSv_lookup hsv hc hcm hinj hwf
    cases hso : scalarOn body scalar c with
    | none => rw [hso] at this hs; rw [this, hs]
    | some ex =>
      rw [hso] at this hs
      obtain ⟨s', hs', hl⟩ := this
      obtain ⟨v, hv, rfl⟩ := hs
      rw [hl, evalKw_eq_eval hs' hv]
  split at hden
  · -- the template operand is empty
    rename_i hbe
    simp only [pure_ok_iff] at hden; subst hden
    rw [pulseVal_empty]
    constructor
    · intro r hr
      obtain ⟨I, s, D, hI, _, hD, hcomb⟩ := integralOf_arith hr hc
      obtain ⟨α, β, hco, rfl⟩ := arithCombine_integral hcomb
      have hI0 := ihb.1 I hI
      rw [pulseVal_of_isEmpty hbe] at hI0
      simp only [plIntegral] at hI0 ⊢
      subst hI0
      by_cases hβ : β = 0
      · subst hβ; grind
      · have := i3 hkeepb D (hD (arithCoeff_beta hco hβ))
        rw [this, i1.empty_dur hbe]; grind
    · intro e _ v v' hv
      rw [plEnd_nil] at hv; cases hv
  · simp only [bind_ok_iff, pure_ok_iff] at hden
    obtain ⟨T, hT, rfl⟩ := hden
    rw [arithTransformation_eq, bind_ok_iff] at hT
    obtain ⟨sv, hsv, hT⟩ := hT
    obtain ⟨α, β, hco, hlk⟩ := arith_chan hT b.dur b.chans hc hcm
    have hval : pulseVal { b with chans := T.foldl (fun cs t => applyTrafoPL t b.dur cs) b.chans } o =
        affPL α β (pulseVal b o) := by
      simp only [pulseVal, hlk]
      cases b.chans.lookup o <;> rfl
    rw [hval]
    constructor
    · intro r hr
      obtain ⟨I, s, D, hI, hs, hD, hcomb⟩ := integralOf_arith hr hc
      obtain ⟨α', β', hco', rfl⟩ := arithCombine_integral hcomb
      rw [hscal sv hsv s hs] at hco
      rw [hco] at hco'
      cases hco'
      rw [plIntegral_affPL, hdurb, ← ihb.1 I hI]
      by_cases hβ : β = 0
      · subst hβ; grind
      · rw [i3 hkeepb D (hD (arithCoeff_beta hco hβ))]
    · intro e htags v v' hv hv'
      rw [pathTags] at htags
      have hcont : body.definedChannels.contains c = true := by simpa using hc
      simp only [hcont, if_true] at htags
      rw [plEnd_affPL] at hv
      cases hu : plEnd e (pulseVal b o) with
      | none => rw [hu] at hv; cases hv
      | some u =>
        rw [hu] at hv
        simp only [Option.map_some, Option.some.injEq] at hv
        simp only [endOf, hcont, if_true, bind_ok_iff, pure_ok_iff] at hv'
        obtain ⟨ptv, ⟨x, hx, rfl⟩, hv'⟩ := hv'
        have hxu : x = u := ihb.2 e htags u x hu hx
        have hex : ∃ scv, (match scalarOn body scalar c with
            | none => scv = none
            | some ex => ∃ v, σ.eval ex = .ok v ∧ scv = some v) ∧ arithCombine op ptIsLhs (some x) scv = .ok v' := by
          cases hso : scalarOn body scalar c with
          | none =>
            rw [hso] at hv'
            simp only [pure, Except.pure, ok_bind] at hv'
            exact ⟨none, rfl, hv'⟩
          | some ex =>
            rw [hso] at hv'
            simp only [bind_ok_iff, pure_ok_iff] at hv'
            obtain ⟨w, hw, a, rfl, hv'⟩ := hv'
            exact ⟨some w, ⟨w, hw, rfl⟩, hv'⟩
        obtain ⟨scv, hs, hcomb⟩ := hex
        obtain ⟨α', β', hco', rfl⟩ := arithCombine_ends hcomb
        rw [hscal sv hsv scv hs] at hco
        rw [hco] at hco'
        cases hco'
        rw [← hv, hxu]


end QP.C07
