import QP.Proofs.C10Share
/-! C10: a store always writes — whatever the (possibly stale) temporary storage says, every document of a
finished transaction is in the backend afterwards. -/
namespace QP.C10
set_option linter.unusedSimpArgs false
set_option linter.unusedVariables false

abbrev KeysNodup (txn : Txn) : Prop := (txn.map Prod.fst).Nodup

mutual
theorem encT_nodup (st : St) : (t : T) → ∀ (txn txn' : Txn) (j : J), encT st txn t = .ok (txn', j) →
    KeysNodup txn → KeysNodup txn'
  | .node cls id items, txn, txn', j, h, hn => by
    cases id with
    | none =>
      simp only [encT, bind, Except.bind] at h
      cases he : encItems st cls txn items with
      | error e => simp [he] at h
      | ok v =>
        simp only [he, pure, Except.pure, Except.ok.injEq, Prod.mk.injEq] at h
        rw [← h.1]; exact encItems_nodup st cls items txn v.1 v.2 (by rw [he]) hn
    | some i =>
      simp only [encT] at h
      by_cases hs : st.has i = true
      · simp only [hs, if_true] at h
        cases hl : lookup i st.temp with
        | none => simp [hl, throw, throwThe, MonadExceptOf.throw] at h
        | some o =>
          simp only [hl] at h
          by_cases ho : o = T.node cls (some i) items
          · simp only [ho, if_true, pure, Except.pure, Except.ok.injEq, Prod.mk.injEq] at h
            rw [← h.1]; exact hn
          · simp [ho, throw, throwThe, MonadExceptOf.throw] at h
      · have hs' : st.has i = false := by simpa using hs
        simp only [hs', Bool.false_eq_true, if_false] at h
        cases hl : lookup i txn with
        | some e =>
          simp only [hl] at h
          by_cases ho : e.2 = T.node cls (some i) items
          · simp only [ho, if_true, pure, Except.pure, Except.ok.injEq, Prod.mk.injEq] at h
            rw [← h.1]; exact hn
          · simp [ho, throw, throwThe, MonadExceptOf.throw] at h
        | none =>
          simp only [hl, bind, Except.bind] at h
          cases he : encItems st cls txn items with
          | error e => simp [he] at h
          | ok v =>
            simp only [he] at h
            by_cases hk : hasKey i v.1 = true
            · simp [hk, throw, throwThe, MonadExceptOf.throw] at h
            · simp only [hk, Bool.false_eq_true, if_false, pure, Except.pure, Except.ok.injEq, Prod.mk.injEq] at h
              rw [← h.1]
              exact nodup_keys_put _ _ (encItems_nodup st cls items txn v.1 v.2 (by rw [he]) hn)
theorem encItems_nodup (st : St) (cls : Cls) : (items : List Item) → ∀ (txn txn' : Txn) (kvs : List (String × J)),
    encItems st cls txn items = .ok (txn', kvs) → KeysNodup txn → KeysNodup txn'
  | [], txn, txn', kvs, h, hn => by
    simp only [encItems, pure, Except.pure, Except.ok.injEq, Prod.mk.injEq] at h; rw [← h.1]; exact hn
  | .data k j :: rest, txn, txn', kvs, h, hn => by
    simp only [encItems] at h
    by_cases he : emitted cls (.data k j) = true
    · simp only [he, if_true, bind, Except.bind] at h
      cases hr : encItems st cls txn rest with
      | error e => simp [hr] at h
      | ok v =>
        simp only [hr, pure, Except.pure, Except.ok.injEq, Prod.mk.injEq] at h
        rw [← h.1]; exact encItems_nodup st cls rest txn v.1 v.2 (by rw [hr]) hn
    · have he' : emitted cls (.data k j) = false := by simpa using he
      simp only [he', Bool.false_eq_true, if_false] at h
      exact encItems_nodup st cls rest txn txn' kvs h hn
  | .child k t :: rest, txn, txn', kvs, h, hn => by
    simp only [encItems, bind, Except.bind] at h
    cases h1 : encT st txn t with
    | error e => simp [h1] at h
    | ok v =>
      simp only [h1] at h
      have hn1 := encT_nodup st t txn v.1 v.2 (by rw [h1]) hn
      cases hr : encItems st cls v.1 rest with
      | error e => simp [hr] at h
      | ok w =>
        simp only [hr, pure, Except.pure, Except.ok.injEq, Prod.mk.injEq] at h
        rw [← h.1]; exact encItems_nodup st cls rest v.1 w.1 w.2 (by rw [hr]) hn1
  | .children k ts :: rest, txn, txn', kvs, h, hn => by
    simp only [encItems, bind, Except.bind] at h
    cases h1 : encList st txn ts with
    | error e => simp [h1] at h
    | ok v =>
      simp only [h1] at h
      have hn1 := encList_nodup st ts txn v.1 v.2 (by rw [h1]) hn
      cases hr : encItems st cls v.1 rest with
      | error e => simp [hr] at h
      | ok w =>
        simp only [hr, pure, Except.pure, Except.ok.injEq, Prod.mk.injEq] at h
        rw [← h.1]; exact encItems_nodup st cls rest v.1 w.1 w.2 (by rw [hr]) hn1
theorem encList_nodup (st : St) : (ts : List T) → ∀ (txn txn' : Txn) (js : List J),
    encList st txn ts = .ok (txn', js) → KeysNodup txn → KeysNodup txn'
  | [], txn, txn', js, h, hn => by
    simp only [encList, pure, Except.pure, Except.ok.injEq, Prod.mk.injEq] at h; rw [← h.1]; exact hn
  | t :: ts, txn, txn', js, h, hn => by
    simp only [encList, bind, Except.bind] at h
    cases h1 : encT st txn t with
    | error e => simp [h1] at h
    | ok v =>
      simp only [h1] at h
      have hn1 := encT_nodup st t txn v.1 v.2 (by rw [h1]) hn
      cases hr : encList st v.1 ts with
      | error e => simp [hr] at h
      | ok w =>
        simp only [hr, pure, Except.pure, Except.ok.injEq, Prod.mk.injEq] at h
        rw [← h.1]; exact encList_nodup st ts v.1 w.1 w.2 (by rw [hr]) hn1
end

/-- **a store always writes**: after `overwrite` every document of the transaction — the root's among them — is what
the backend holds under that identifier, whatever the storage's own (possibly stale) temporary storage or the backend
contained before. -/
theorem overwrite_writes (st st' : St) (i : Id) (t : T) (log : List (Id × J)) (h : overwrite st i t = .ok (st', log)) :
    (∀ e ∈ log, lookup e.1 st'.backend = some e.2) ∧ i ∈ log.map Prod.fst := by
  cases t with
  | node cls id items =>
    simp only [overwrite, bind, Except.bind] at h
    cases he : encItems st cls [] items with
    | error e => simp [he] at h
    | ok v =>
      simp only [he] at h
      by_cases hk : hasKey i v.1 = true
      · simp [hk, throw, throwThe, MonadExceptOf.throw] at h
      · simp only [hk, Bool.false_eq_true, if_false, pure, Except.pure, Except.ok.injEq, Prod.mk.injEq] at h
        have hn : KeysNodup (put i (J.obj (hdr cls id ++ v.2), T.node cls id items) v.1) :=
          nodup_keys_put _ _ (encItems_nodup st cls items [] v.1 v.2 (by rw [he]) (by simp [KeysNodup]))
        rw [← h.1, ← h.2]
        refine ⟨?_, ?_⟩
        · intro e hem
          obtain ⟨x, hx, hxe⟩ := List.mem_map.mp hem
          rw [commit_backend st _ hn e.1]
          have : lookup x.1 (put i (J.obj (hdr cls id ++ v.2), T.node cls id items) v.1) = some x.2 :=
            lookup_of_mem_nodup hn (by cases x; exact hx)
          rw [← hxe]; simp only [this, Option.elim]
        · simp only [List.map_map]
          have : hasKey i (put i (J.obj (hdr cls id ++ v.2), T.node cls id items) v.1) = true := by
            rw [hasKey_put]; simp
          have := (hasKey_iff i _).mp this
          simpa [Function.comp_def] using this

end QP.C10
