import QP.Proofs.C08d
/-! Helper lemmas for C08: `get_subset_for_channels`. -/
namespace QP.C08
open Wf

/-- `s` is `w` restricted to the channels `chs` -/
def SubsetAlike (s w : Wf) (chs : List Chan) : Prop :=
  wf s = true ∧ duration s = duration w ∧ (∀ k, k ∈ channels s ↔ k ∈ chs) ∧
  ∀ k, k ∈ chs → ∀ t, 0 ≤ t → t ≤ duration w → sample s k t = sample w k t

/-! ### results of the optimising constructors are well-formed -/

theorem wfL_of_mem : ∀ (l : List Wf), (∀ y ∈ l, wf y = true) → wfL l = true := by
  intro l
  induction l with
  | nil => intro _; simp [wfL]
  | cons y ys ih => intro h; simp [wfL, h y (by simp), ih (fun z hz => h z (by simp [hz]))]

theorem sameDur_of_mem : ∀ (l : List Wf) (D : Rat), (∀ y ∈ l, duration y = D) → sameDur D l = true := by
  intro l
  induction l with
  | nil => intro _ _; simp [sameDur]
  | cons y ys ih => intro D h; simp [sameDur, h y (by simp), ih D (fun z hz => h z (by simp [hz]))]

theorem wf_multi_of (L : List Wf) (D : Rat) (hne : L ≠ []) (hw : ∀ y ∈ L, wf y = true)
    (hd : ∀ y ∈ L, duration y = D) (hdis : disjointGo [] L = true) : wf (.multi L) = true := by
  simp only [wf, Bool.and_eq_true]
  refine ⟨⟨⟨by simpa using hne, wfL_of_mem L hw⟩, ?_⟩, hdis⟩
  rw [durHead_of_all L D hne hd]
  exact sameDur_of_mem L D hd

theorem wf_fromMapping (dur : Rat) (h0 : 0 ≤ dur) (d : List (Chan × Rat)) (s : Wf)
    (h : fromMapping dur d = .ok s) : wf s = true := by
  match d, h with
  | [(c, a)], h =>
    simp [fromMapping] at h
    subst h
    simp [wf, h0]
  | kv1 :: kv2 :: rest, h =>
    simp only [fromMapping] at h
    obtain ⟨hs, hne, hdis⟩ := mkMulti_ok _ s h
    subst hs
    have hall : ∀ y ∈ sortByChannels ((kv1 :: kv2 :: rest).map (fun ca => Wf.const dur ca.2 ca.1)),
        ∃ a c, y = .const dur a c := by
      intro y hy
      rw [mem_sortByChannels] at hy
      simp only [List.mem_map] at hy
      obtain ⟨ca, _, rfl⟩ := hy
      exact ⟨ca.2, ca.1, rfl⟩
    apply wf_multi_of _ dur
    · intro e
      have : Wf.const dur kv1.2 kv1.1 ∈ sortByChannels ((kv1 :: kv2 :: rest).map (fun ca => Wf.const dur ca.2 ca.1)) := by
        rw [mem_sortByChannels]; simp
      rw [e] at this; cases this
    · intro y hy; obtain ⟨a, c, rfl⟩ := hall y hy; simp [wf, h0]
    · intro y hy; obtain ⟨a, c, rfl⟩ := hall y hy; simp [duration]
    · exact hdis

theorem wf_fromSequence (ws : List Wf) (s : Wf) (hw : ∀ w ∈ ws, wf w = true)
    (h : fromSequence ws = .ok s) : wf s = true := by
  match ws, h with
  | [w], h =>
    simp only [fromSequence] at h
    injection h with h; subst h; exact hw _ (by simp)
  | w0 :: w1 :: rest, h =>
    simp only [fromSequence] at h
    cases hc : seqConstants (w0 :: w1 :: rest) with
    | none =>
      simp only [hc] at h
      have hfw : ∀ x ∈ flattenSeq (w0 :: w1 :: rest), wf x = true := by
        intro x hx
        simp only [flattenSeq, List.mem_flatMap] at hx
        obtain ⟨w, hwm, hxw⟩ := hx
        exact pieces_wf w (hw w hwm) x (by cases w <;> simpa [pieces] using hxw)
      obtain ⟨hse, hwf⟩ := mkSeq_wf _ s h hfw
      rw [hse]; exact hwf
    | some d =>
      simp only [hc] at h
      apply wf_fromMapping _ _ d s h
      rw [flattenSeq_durSum]
      exact durSum_nonneg (fun w hwm => duration_nonneg w (hw w hwm))

theorem wf_fromRepetition (b : Wf) (n : Nat) (hn : 1 ≤ n) (s : Wf) (hb : wf b = true)
    (h : fromRepetitionCount b (n : Int) = .ok s) : wf s = true := by
  simp only [fromRepetitionCount] at h
  cases hd : constantValueDict b with
  | none =>
    simp only [hd, mkRep] at h
    split at h
    · cases h
    · injection h with h; subst h; simp [wf, hb]; omega
  | some d =>
    simp only [hd] at h
    apply wf_fromMapping _ _ d s h
    have := duration_nonneg b hb
    have hn' : (0 : Rat) ≤ ((n : Int) : Rat) := by exact_mod_cast Int.natCast_nonneg n
    exact Rat.mul_nonneg this hn'

theorem wf_fromFunctor (i : Wf) (fs : List (Chan × Fn)) (s : Wf) (hi : wf i = true)
    (h : fromFunctor i fs = .ok s) : wf s = true := by
  simp only [fromFunctor] at h
  cases hd : constantValueDict i with
  | none =>
    simp only [hd, mkFunctor] at h
    split at h
    · rename_i hk
      injection h with h; subst h
      have hk' := (sameSet_iff _ _).mp hk
      simp only [wf, hi, Bool.true_and, lookupAll, List.all_eq_true]
      intro c hc
      obtain ⟨v, hv⟩ := keys_lookup_some fs c ((hk' c).mpr hc)
      simp [hv]
    · cases h
  | some d =>
    simp only [hd] at h
    cases hdd : applyFunctors fs d with
    | none => simp [hdd] at h
    | some dd =>
      simp only [hdd] at h
      exact wf_fromMapping _ (duration_nonneg i hi) dd s h

theorem wf_fromToReverse (i : Wf) (hi : wf i = true) : wf (fromToReverse i) = true := by
  simp only [fromToReverse]
  split <;> simp [wf, hi]

/-! ### congruence of piecewise sampling -/

theorem repSample_congr (f g : Rat → Option Rat) (d : Rat) (h : ∀ t, 0 ≤ t → t ≤ d → f t = g t) :
    ∀ (n : Nat) (t : Rat), repSample f d n t = repSample g d n t := by
  intro n
  induction n with
  | zero => intro t; simp [repSample]
  | succ k ih =>
    intro t
    cases k with
    | zero =>
      simp only [repSample]
      split
      · rename_i hc; exact h t hc.1 hc.2
      · rfl
    | succ m =>
      simp only [repSample]
      split
      · rename_i hc; exact h t hc.1 (Rat.le_of_lt hc.2)
      · exact ih (t - d)

/-- `subs` are the members of `ws` restricted to `chs`, one for one -/
inductive Restricted (chs : List Chan) : List Wf → List Wf → Prop
  | nil : Restricted chs [] []
  | cons {s w : Wf} {ss ws : List Wf} : SubsetAlike s w chs → Restricted chs ss ws → Restricted chs (s :: ss) (w :: ws)

theorem Restricted.durSum {chs : List Chan} {ss ws : List Wf} (h : Restricted chs ss ws) :
    durSum ss = durSum ws := by
  induction h with
  | nil => rfl
  | cons hs _ ih => simp only [Wf.durSum, hs.2.1, ih]

theorem Restricted.sample {chs : List Chan} {ss ws : List Wf} (h : Restricted chs ss ws) (k : Chan)
    (hk : k ∈ chs) : ∀ t, sampleSeq ss k t = sampleSeq ws k t := by
  induction h with
  | nil => intro t; rfl
  | @cons s w ss' ws' hs hr ih =>
    intro t
    cases hr with
    | nil =>
      simp only [sampleSeq, hs.2.1]
      split
      · rename_i hc; exact hs.2.2.2 k hk t hc.1 hc.2
      · rfl
    | @cons s2 w2 ss2 ws2 hs2 hr2 =>
      simp only [sampleSeq, hs.2.1]
      split
      · rename_i hc; exact hs.2.2.2 k hk t hc.1 (Rat.le_of_lt hc.2)
      · exact ih (t - duration w)

theorem Restricted.wf {chs : List Chan} {ss ws : List Wf} (h : Restricted chs ss ws) :
    ∀ s ∈ ss, wf s = true := by
  induction h with
  | nil => intro s hs; cases hs
  | cons hs _ ih =>
    intro x hx
    cases hx with
    | head => exact hs.1
    | tail _ hm => exact ih x hm

theorem Restricted.chans {chs : List Chan} {ss ws : List Wf} (h : Restricted chs ss ws) :
    ∀ s ∈ ss, ∀ k, k ∈ channels s ↔ k ∈ chs := by
  induction h with
  | nil => intro s hs; cases hs
  | cons hs _ ih =>
    intro x hx
    cases hx with
    | head => exact hs.2.2.1
    | tail _ hm => exact ih x hm

theorem SubsetAlike.congr_chs {s w : Wf} {a b : List Chan} (h : SubsetAlike s w a) (hab : ∀ k, k ∈ a ↔ k ∈ b) :
    SubsetAlike s w b :=
  ⟨h.1, h.2.1, fun k => (h.2.2.1 k).trans (hab k), fun k hk => h.2.2.2 k ((hab k).mpr hk)⟩


/-! ### functor maps -/

theorem lookup_sinsert {α} (c : Chan) (v : α) : ∀ (l : List (Chan × α)) (k : Chan),
    (sinsert c v l).lookup k = if k = c then some v else l.lookup k := by
  intro l
  induction l with
  | nil =>
    intro k
    by_cases h : k = c
    · subst h; simp [sinsert, List.lookup]
    · have hne : (k == c) = false := by simpa using h
      simp [sinsert, List.lookup, h, hne]
  | cons y ys ih =>
    intro k
    obtain ⟨k0, x⟩ := y
    simp only [sinsert]
    split
    · by_cases h : k = c
      · subst h; simp [List.lookup]
      · have hne : (k == c) = false := by simpa using h
        simp [List.lookup, h, hne]
    · split
      · rename_i hck; subst hck
        by_cases h : k = c
        · subst h; simp [List.lookup]
        · have hne : (k == c) = false := by simpa using h
          simp [List.lookup, h, hne]
      · rename_i hck
        by_cases h0 : k = k0
        · subst h0
          have : ¬ k = c := fun e => hck e.symm
          simp [List.lookup, this]
        · have hne : (k == k0) = false := by simpa using h0
          simp only [List.lookup, hne]
          exact ih k

theorem restrictFunctors_spec (fs : List (Chan × Fn)) : ∀ (cs : List Chan) (fs' : List (Chan × Fn)),
    restrictFunctors fs cs = some fs' →
    (∀ k, k ∈ cs → fs'.lookup k = fs.lookup k ∧ (fs.lookup k).isSome = true) ∧
    (∀ k, k ∉ cs → fs'.lookup k = none) := by
  intro cs
  induction cs with
  | nil => intro fs' h; simp [restrictFunctors] at h; subst h; simp [List.lookup]
  | cons c cs' ih =>
    intro fs' h
    simp only [restrictFunctors] at h
    cases hf : fs.lookup c with
    | none => simp [hf] at h
    | some f =>
      cases hr : restrictFunctors fs cs' with
      | none => simp [hf, hr] at h
      | some l =>
        simp [hf, hr] at h
        subst h
        obtain ⟨a1, a2⟩ := ih l hr
        constructor
        · intro k hk
          rw [lookup_sinsert]
          by_cases hkc : k = c
          · subst hkc; simp [hf]
          · simp only [hkc, if_false]
            cases hk with
            | head => exact absurd rfl hkc
            | tail _ hm => exact a1 k hm
        · intro k hk
          rw [lookup_sinsert]
          have hkc : ¬ k = c := fun e => hk (by simp [e])
          simp only [hkc, if_false]
          exact a2 k (fun hm => hk (by simp [hm]))

theorem lookup_some_keys {α} (m : List (Chan × α)) (k : Chan) (v : α) (h : m.lookup k = some v) : k ∈ dkeys m :=
  mem_keys m k v (lookup_mem m k v h)

theorem keys_of_lookup {α} (m : List (Chan × α)) (k : Chan) (h : k ∈ dkeys m) : (m.lookup k).isSome = true := by
  obtain ⟨v, hv⟩ := keys_lookup_some m k h
  simp [hv]

/-! ### the sub-waveform lists of `unsafe_get_subset_for_channels` -/

/-- `x` is `w` restricted to `chs ∩ channels w` -/
def MRel (chs : List Chan) (x w : Wf) : Prop :=
  wf x = true ∧ duration x = duration w ∧ (∀ k, k ∈ channels x ↔ (k ∈ chs ∧ k ∈ channels w)) ∧
  ∀ k, k ∈ chs → k ∈ channels w → ∀ t, 0 ≤ t → t ≤ duration w → sample x k t = sample w k t

def relevant (chs : List Chan) (w : Wf) : Prop := ∃ k, k ∈ chs ∧ k ∈ channels w

theorem inter_isEmpty_iff (chs : List Chan) (w : Wf) : (inter (channels w) chs).isEmpty = false ↔ relevant chs w := by
  simp only [relevant]
  constructor
  · intro h
    cases hi : inter (channels w) chs with
    | nil => simp [hi] at h
    | cons k ks =>
      have : k ∈ inter (channels w) chs := by rw [hi]; simp
      rw [mem_inter] at this
      exact ⟨k, this.2, this.1⟩
  · rintro ⟨k, h1, h2⟩
    cases hi : inter (channels w) chs with
    | nil =>
      have : k ∈ inter (channels w) chs := by rw [mem_inter]; exact ⟨h2, h1⟩
      rw [hi] at this; cases this
    | cons _ _ => simp

/-- the induction hypothesis of `subset_aux` for one waveform -/
def SubsetIH (w : Wf) : Prop :=
  wf w = true → ∀ chs s, chs ≠ [] → (∀ c ∈ chs, c ∈ channels w) → unsafeSubset w chs = .ok s → SubsetAlike s w chs

theorem inter_ne_of_relevant (chs : List Chan) (w : Wf) (h : relevant chs w) : inter chs (channels w) ≠ [] := by
  obtain ⟨k, h1, h2⟩ := h
  intro e
  have : k ∈ inter chs (channels w) := by rw [mem_inter]; exact ⟨h1, h2⟩
  rw [e] at this; cases this

theorem subsetSeq_restricted (chs : List Chan) (hne : chs ≠ []) : ∀ (l subs : List Wf),
    (∀ w ∈ l, SubsetIH w ∧ wf w = true ∧ ∀ c ∈ chs, c ∈ channels w) →
    subsetSeq l chs = .ok subs → Restricted chs subs l := by
  intro l
  induction l with
  | nil => intro subs _ h; simp [subsetSeq] at h; subst h; exact .nil
  | cons w l' ih =>
    intro subs hall h
    simp only [subsetSeq] at h
    cases hr : subsetSeq l' chs with
    | error e => simp [hr] at h
    | ok rest =>
      simp only [hr] at h
      obtain ⟨hih, hww, hch⟩ := hall w (by simp)
      have hrel : relevant chs w := by
        cases chs with
        | nil => exact absurd rfl hne
        | cons c cs => exact ⟨c, by simp, hch c (by simp)⟩
      have hie := (inter_isEmpty_iff chs w).mpr hrel
      simp only [hie] at h
      cases hu : unsafeSubset w (inter chs (channels w)) with
      | error e => simp [hu] at h
      | ok w' =>
        simp [hu] at h
        subst h
        have hsa := hih hww (inter chs (channels w)) w' (inter_ne_of_relevant chs w hrel)
          (by intro c hc; exact ((mem_inter _ _ c).mp hc).2) hu
        refine .cons (hsa.congr_chs ?_) (ih rest (fun x hx => hall x (by simp [hx])) hr)
        intro k
        rw [mem_inter]
        exact ⟨fun a => a.1, fun a => ⟨a, hch k a⟩⟩

theorem subsetMulti_rel (chs : List Chan) : ∀ (l xs : List Wf),
    (∀ w ∈ l, SubsetIH w ∧ wf w = true) → subsetMulti l chs = .ok xs →
    (∀ x ∈ xs, ∃ w ∈ l, relevant chs w ∧ MRel chs x w) ∧ (∀ w ∈ l, relevant chs w → ∃ x ∈ xs, MRel chs x w) := by
  intro l
  induction l with
  | nil => intro xs _ h; simp [subsetMulti] at h; subst h; simp
  | cons w l' ih =>
    intro xs hall h
    simp only [subsetMulti] at h
    cases hr : subsetMulti l' chs with
    | error e => simp [hr] at h
    | ok rest =>
      simp only [hr] at h
      obtain ⟨a1, a2⟩ := ih rest (fun x hx => hall x (by simp [hx])) hr
      obtain ⟨hih, hww⟩ := hall w (by simp)
      by_cases hrel : relevant chs w
      · have hie := (inter_isEmpty_iff chs w).mpr hrel
        simp only [hie] at h
        have finish : ∀ x, MRel chs x w → xs = x :: rest →
            (∀ x ∈ xs, ∃ w' ∈ w :: l', relevant chs w' ∧ MRel chs x w') ∧
            (∀ w' ∈ w :: l', relevant chs w' → ∃ x ∈ xs, MRel chs x w') := by
          intro x hx hxs
          subst hxs
          constructor
          · intro y hy
            cases hy with
            | head => exact ⟨w, by simp, hrel, hx⟩
            | tail _ hm =>
              obtain ⟨w', hw', r⟩ := a1 y hm
              exact ⟨w', by simp [hw'], r⟩
          · intro w' hw' hr'
            cases hw' with
            | head => exact ⟨x, by simp, hx⟩
            | tail _ hm =>
              obtain ⟨y, hy, r⟩ := a2 w' hm hr'
              exact ⟨y, by simp [hy], r⟩
        by_cases hsame : sameSet (inter chs (channels w)) (channels w) = true
        · simp [hsame] at h
          apply finish w _ h.symm
          have hs := (sameSet_iff _ _).mp hsame
          refine ⟨hww, rfl, ?_, fun _ _ _ _ _ _ => rfl⟩
          intro k
          constructor
          · intro hk; exact ⟨((mem_inter _ _ k).mp ((hs k).mpr hk)).1, hk⟩
          · intro hk; exact hk.2
        · have : sameSet (inter chs (channels w)) (channels w) = false := by simpa using hsame
          simp only [this] at h
          cases hu : unsafeSubset w (inter chs (channels w)) with
          | error e => simp [hu] at h
          | ok w' =>
            simp [hu] at h
            apply finish w' _ h.symm
            have hsa := hih hww (inter chs (channels w)) w' (inter_ne_of_relevant chs w hrel)
              (by intro c hc; exact ((mem_inter _ _ c).mp hc).2) hu
            refine ⟨hsa.1, hsa.2.1, ?_, ?_⟩
            · intro k; rw [hsa.2.2.1 k, mem_inter]
            · intro k hk1 hk2 t h0 hle
              exact hsa.2.2.2 k ((mem_inter _ _ k).mpr ⟨hk1, hk2⟩) t h0 hle
      · have hie : (inter (channels w) chs).isEmpty = true := by
          cases hb : (inter (channels w) chs).isEmpty with
          | true => rfl
          | false => exact absurd ((inter_isEmpty_iff chs w).mp hb) hrel
        simp [hie] at h
        subst h
        constructor
        · intro y hy
          obtain ⟨w', hw', r⟩ := a1 y hy
          exact ⟨w', by simp [hw'], r⟩
        · intro w' hw' hr'
          cases hw' with
          | head => exact absurd hr' hrel
          | tail _ hm => exact a2 w' hm hr'

end QP.C08
