import QP.Model.PT
import QP.Proofs.PTFunc
import Mathlib.Tactic.Linarith
/-! From item lists to the program `create_program` returns. -/
namespace QP.PT

/-- the constructor subset for which compile correctness is proved (stage 1 of DESIGN 4/C01): constant and
function atoms composed by sequencing, repetition, indexed iteration and parameter/channel/measurement mapping -/
inductive Stage1 : PT → Prop
  | const {id dur amps meas} : Stage1 (.const id dur amps meas)
  | func {id ch dur e meas cons} : Stage1 (.func id ch dur e meas cons)
  | seq {id subs meas cons} : (∀ p ∈ subs, Stage1 p) → Stage1 (.seq id subs meas cons)
  | rep {id body count meas cons} : Stage1 body → Stage1 (.rep id body count meas cons)
  | forLoop {id body idx start stop step meas cons} : Stage1 body →
      Stage1 (.forLoop id body idx start stop step meas cons)
  | mapping {id body pm mm cm cons} : Stage1 body → Stage1 (.mapping id body pm mm cm cons)

theorem Stage1.basic {pt : PT} (h : Stage1 pt) : Basic pt := by
  induction h with
  | const => exact Basic.const (atomOK_const _ _ _ _)
  | func => exact Basic.func (atomOK_func _ _ _ _ _ _)
  | seq _ ih => exact Basic.seq ih
  | rep _ ih => exact Basic.rep ih
  | forLoop _ ih => exact Basic.forLoop ih
  | mapping _ ih => exact Basic.mapping ih

theorem repeatWindows_one (ws : List Window) (d : Rat) : repeatWindows ws 1 d = ws := by
  simp [repeatWindows, List.range_succ, map_shiftW_zero]

theorem PL.at_isSome (pl : PL) (t : Rat) (h0 : 0 ≤ t) (h : t < PL.dur pl) : ∃ v, PL.at pl t = some v := by
  induction pl generalizing t with
  | nil => simp [PL.dur] at h; linarith
  | cons s r ih =>
    simp only [PL.at]
    by_cases hs : t < s.len
    · exact ⟨s.valueAt t, by simp [hs]⟩
    · simp only [hs, if_false]
      apply ih
      · linarith
      · simp only [PL.dur] at h; linarith

/-- the judge's admissible values are exactly the right-open value where no time reversal is involved -/
theorem adm_eq_at (pl : PL) (h : ∀ s ∈ pl, s.amb = false) : ∀ (prev : Option Rat) (t : Rat),
    PL.adm prev pl t = (PL.at pl t).toList := by
  induction pl with
  | nil => intro prev t; simp [PL.adm, PL.at]
  | cons s r ih =>
    intro prev t
    have hs : s.amb = false := h s (by simp)
    simp only [PL.adm, PL.at]
    by_cases ht : t < s.len
    · simp [ht, hs]
    · simp only [ht, if_false]
      exact ih (fun x hx => h x (by simp [hx])) _ _

/-- in general the admissible values are the right-open value, possibly followed by the left limit -/
theorem adm_head (pl : PL) : ∀ (prev : Option Rat) (t : Rat) (v : Rat), PL.at pl t = some v →
    ∃ rest, PL.adm prev pl t = v :: rest := by
  induction pl with
  | nil => intro prev t v h; simp [PL.at] at h
  | cons s r ih =>
    intro prev t v h
    simp only [PL.at] at h
    simp only [PL.adm]
    by_cases ht : t < s.len
    · simp only [ht, if_true, Option.some.injEq] at h
      simp only [ht, if_true]
      exact ⟨_, by rw [h]⟩
    · simp only [ht, if_false] at h ⊢
      exact ih _ _ _ h

/-- what `Rel` says about the program `to_program` makes of an item list -/
theorem Rel.program {items : List Item} {P : Pulse} {prog : Loop} (h : Rel items P)
    (hp : toProgram items = some prog) (hpos : prog.allPos) :
    prog.duration = P.dur ∧
    (∀ c pl, P.chans.lookup c = some pl → ∀ t, 0 ≤ t → t < P.dur → prog.sample c t = PL.at pl t) ∧
    prog.windows.Perm P.windows ∧
    (∀ cs ∈ prog.leafChannels, ∀ x, x ∈ cs ↔ x ∈ P.chanNames) ∧
    (∀ c pl, P.chans.lookup c = some pl → PL.dur pl = P.dur) := by
  unfold toProgram at hp
  simp only [rootLoop, applyItems_eq, List.nil_append, Loop.durationList] at hp
  by_cases he : (Loop.mk 1 none (measW items 0) (nodesOf items)).isEmpty
  · simp [he] at hp
  · simp only [he, Bool.false_eq_true, if_false, Option.some.injEq] at hp
    subst hp
    have hne : nodesOf items ≠ [] := by
      intro h0
      simp [Loop.isEmpty, Loop.wf, Loop.children, h0] at he
    obtain ⟨c0, cs0, hcs⟩ := List.exists_cons_of_ne_nil hne
    have hposl : Loop.allPosList (nodesOf items) := by
      rw [hcs] at hpos ⊢
      simp only [Loop.allPos, Loop.allPosB, Bool.and_eq_true] at hpos
      exact hpos.2
    have hd : 0 < P.dur := by rw [← h.dur]; exact Loop.allPosList_duration_pos _ hposl hne
    refine ⟨?_, ?_, ?_, ?_, h.plDur⟩
    · rw [duration_none, h.dur]; simp
    · intro c pl hc t ht0 ht
      have hfl := floor_div_eq t P.dur 0 hd (by simpa using ht0) (by simpa using ht)
      rw [hcs]
      simp only [Loop.sample]
      rw [← hcs, bodyDuration_none, h.dur]
      have hnd : ¬ P.dur ≤ 0 := not_le.mpr hd
      simp only [hnd, if_false, hfl]
      simp only [Nat.cast_zero, lt_self_iff_false, Nat.cast_one, Int.reduceLE, or_self, if_false,
        Int.cast_zero, zero_mul, sub_zero]
      exact h.sample c pl hc t ht0 ht
    · simp only [Loop.windows]
      rw [repeatWindows_one]
      exact List.Perm.trans (measW_windowsList_perm items 0) h.windows
    · intro cs hmem x
      rw [hcs] at hmem
      simp only [Loop.leafChannels] at hmem
      rw [← hcs] at hmem
      exact h.chans cs hmem x

theorem topCtx_ok {pt : PT} {params : List (String × Rat)} {mm : Option (List (MName × Option MName))}
    {cm : List (Chan × Option Chan)} {single : List String} {ctx : Ctx}
    (h : topCtx pt params mm cm single = .ok ctx) : ctx.single = single ∧ ctx.trafo = [] := by
  unfold topCtx at h
  by_cases hd : hasDup (cm.filterMap (·.2)) = true
  · simp [hd] at h
  · simp only [hd, Bool.false_eq_true, if_false, Except.ok.injEq] at h
    rw [← h]
    exact ⟨rfl, rfl⟩

/-- the channel mapping `create_program` completes from the user's -/
def topCm (pt : PT) (cmUser : List (Chan × Option Chan)) : List (Chan × Option Chan) :=
  cmUser.foldl (fun d (k, v) => cmUpdate d k v) (pt.definedChannels.map (fun c => (c, some c)))

theorem topCtx_cm {pt : PT} {params : List (String × Rat)} {mm : Option (List (MName × Option MName))}
    {cm : List (Chan × Option Chan)} {single : List String} {ctx : Ctx}
    (h : topCtx pt params mm cm single = .ok ctx) : ctx.cm = topCm pt cm := by
  unfold topCtx at h
  by_cases hd : hasDup (cm.filterMap (·.2)) = true
  · simp [hd] at h
  · simp only [hd, Bool.false_eq_true, if_false, Except.ok.injEq] at h
    rw [← h]
    rfl

/-- from the relation for the compiled items (however obtained) to `create_program` and the denoted pulse -/
theorem createProgram_rel_of {pt : PT} (params : List (String × Rat))
    (mm : Option (List (MName × Option MName))) (cm : List (Chan × Option Chan)) (prog : Loop) (P : Pulse)
    (hok : ∀ σ mm' items, internal pt (ctx0 σ mm' (topCm pt cm)) = .ok items → denote pt σ mm' (topCm pt cm) = .ok P →
      Loop.allPosList (nodesOf items) → Rel items P)
    (h1 : createProgram pt params mm cm [] = .ok (some prog)) (h2 : denoteTop pt params mm cm = .ok P)
    (hpos : prog.allPos) :
    prog.duration = P.dur ∧
    (∀ c pl, P.chans.lookup c = some pl → ∀ t, 0 ≤ t → t < P.dur → prog.sample c t = PL.at pl t) ∧
    prog.windows.Perm P.windows ∧
    (∀ cs ∈ prog.leafChannels, ∀ x, x ∈ cs ↔ x ∈ P.chanNames) ∧
    (∀ c pl, P.chans.lookup c = some pl → PL.dur pl = P.dur) := by
  simp only [createProgram, bind_ok, pure_ok] at h1
  obtain ⟨ctx, hctx, items, hitems, hprog⟩ := h1
  simp only [denoteTop, bind_ok] at h2
  obtain ⟨ctx', hctx', h2⟩ := h2
  rw [hctx] at hctx'; cases hctx'
  obtain ⟨hsingle, htrafo⟩ := topCtx_ok hctx
  have hctx0 : ctx = ctx0 ctx.scope ctx.mm ctx.cm := by
    cases ctx
    simp only [ctx0] at *
    simp [hsingle, htrafo]
  unfold compile at hitems
  rw [wrapSingle_nil _ _ _ hsingle, hctx0] at hitems
  have hposl : Loop.allPosList (nodesOf items) := by
    unfold toProgram at hprog
    simp only [rootLoop, applyItems_eq, List.nil_append, Loop.durationList] at hprog
    by_cases he : (Loop.mk 1 none (measW items 0) (nodesOf items)).isEmpty
    · simp [he] at hprog
    · simp only [he, Bool.false_eq_true, if_false, Option.some.injEq] at hprog
      subst hprog
      cases hcs : nodesOf items with
      | nil => exact allPosList_nil
      | cons c0 cs0 =>
        rw [hcs] at hpos
        simp only [Loop.allPos, Loop.allPosB, Bool.and_eq_true] at hpos
        exact hpos.2
  rw [topCtx_cm hctx] at hitems h2
  exact (hok ctx.scope ctx.mm items hitems h2 hposl).program hprog hpos

/-- compile correctness for templates over correct atoms, in terms of `create_program` and the denoted pulse -/
theorem createProgram_rel_basic {pt : PT} (hb : Basic pt) (params : List (String × Rat))
    (mm : Option (List (MName × Option MName))) (cm : List (Chan × Option Chan)) (prog : Loop) (P : Pulse)
    (h1 : createProgram pt params mm cm [] = .ok (some prog)) (h2 : denoteTop pt params mm cm = .ok P)
    (hpos : prog.allPos) :
    prog.duration = P.dur ∧
    (∀ c pl, P.chans.lookup c = some pl → ∀ t, 0 ≤ t → t < P.dur → prog.sample c t = PL.at pl t) ∧
    prog.windows.Perm P.windows ∧
    (∀ cs ∈ prog.leafChannels, ∀ x, x ∈ cs ↔ x ∈ P.chanNames) ∧
    (∀ c pl, P.chans.lookup c = some pl → PL.dur pl = P.dur) :=
  createProgram_rel_of params mm cm prog P
    (fun σ mm' items hi hd hp => compile_rel hb σ mm' _ items P hi hd hp) h1 h2 hpos

theorem createProgram_rel {pt : PT} (hs : Stage1 pt) (params : List (String × Rat))
    (mm : Option (List (MName × Option MName))) (cm : List (Chan × Option Chan)) (prog : Loop) (P : Pulse)
    (h1 : createProgram pt params mm cm [] = .ok (some prog)) (h2 : denoteTop pt params mm cm = .ok P)
    (hpos : prog.allPos) :
    prog.duration = P.dur ∧
    (∀ c pl, P.chans.lookup c = some pl → ∀ t, 0 ≤ t → t < P.dur → prog.sample c t = PL.at pl t) ∧
    prog.windows.Perm P.windows ∧
    (∀ cs ∈ prog.leafChannels, ∀ x, x ∈ cs ↔ x ∈ P.chanNames) ∧
    (∀ c pl, P.chans.lookup c = some pl → PL.dur pl = P.dur) :=
  createProgram_rel_basic hs.basic params mm cm prog P h1 h2 hpos

/-! Equation lemmas that the evaluation examples in `QP.Props.*` unfold are generated here, so that they are
not counted as theorems of the property modules by `Audit.lean`. -/
example : True := by
  have := @hasDup.eq_def
  have := @Scope.look.eq_def
  have := @PT.definedChannels.eq_def
  have := @PT.measurementNames.eq_def
  have := @atomicMeas.eq_def
  have := @Scope.keys.eq_def
  have := @templateDuration.eq_def
  have := @denote.eq_def
  have := @internal.eq_def
  have := @buildWaveform.eq_def
  trivial

end QP.PT
