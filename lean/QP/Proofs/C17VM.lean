import QP.Model.C17
/-! Structured view of command lists and the simulation lemma:
the program-counter VM (`runLoop`) on the flattening of a structured command list computes the
structured big-step execution `execL`. -/
namespace QP.C17.VMS
open QP.C17

/-- data commands (no control flow) -/
inductive DCmd where
  | set (ch : Nat) (v : Rat) (key : Key)
  | inc (ch : Nat) (v : Rat) (key : Key)
  | wait (d : Rat)

def DCmd.toCmd : DCmd → Cmd
  | .set ch v k => .set ch v k
  | .inc ch v k => .inc ch v k
  | .wait d => .wait d

/-- structured commands: a loop is `LoopLabel idx count; body; LoopJmp idx` -/
inductive SCmd where
  | prim (d : DCmd)
  | loop (idx : Nat) (count : Int) (body : List SCmd)

mutual
def flat1 : SCmd → List Cmd
  | .prim d => [d.toCmd]
  | .loop i n b => .label i n :: (flat b ++ [.jmp i])
def flat : List SCmd → List Cmd
  | [] => []
  | c :: r => flat1 c ++ flat r
end

mutual
def labels1 : SCmd → List Nat
  | .prim _ => []
  | .loop i _ b => i :: labelsL b
def labelsL : List SCmd → List Nat
  | [] => []
  | c :: r => labels1 c ++ labelsL r
end

def labelsFlat : List Cmd → List Nat
  | [] => []
  | .label i _ :: cs => i :: labelsFlat cs
  | _ :: cs => labelsFlat cs

def iterN (f : VM → Except Err VM) : Nat → VM → Except Err VM
  | 0, vm => .ok vm
  | n + 1, vm =>
    match f vm with
    | .error e => .error e
    | .ok vm' => iterN f n vm'

/-- number of passes of a loop whose counter is `c` when its body is entered -/
def passesLeft (c : Int) : Nat := (max c 0).toNat + 1

mutual
/-- big-step execution; a loop with label count `n` plays its body `max n 1` times -/
def exec1 : SCmd → VM → Except Err VM
  | .prim d, vm => changeState d.toCmd vm
  | .loop _ n b, vm => iterN (fun v => execL b v) (passesLeft (n - 1)) vm
def execL : List SCmd → VM → Except Err VM
  | [], vm => .ok vm
  | c :: r, vm =>
    match exec1 c vm with
    | .error e => .error e
    | .ok vm' => execL r vm'
end

/-! ### a structured execution never reports `fuel` -/

theorem changeState_no_fuel (c : Cmd) (vm : VM) : changeState c vm ≠ .error .fuel := by
  cases c <;> simp only [changeState]
  · split <;> simp
  · split
    · split <;> simp
    · simp
  all_goals simp

theorem iterN_no_fuel (f : VM → Except Err VM) (hf : ∀ vm, f vm ≠ .error .fuel) :
    ∀ (n : Nat) (vm : VM), iterN f n vm ≠ .error .fuel
  | 0, vm => by simp [iterN]
  | n + 1, vm => by
    simp only [iterN]
    cases h : f vm with
    | error e => simp only; intro he; cases he; exact hf vm h
    | ok vm' => exact iterN_no_fuel f hf n vm'

mutual
theorem exec1_no_fuel : (c : SCmd) → ∀ vm, exec1 c vm ≠ .error .fuel
  | .prim d, vm => by simp only [exec1]; exact changeState_no_fuel _ _
  | .loop _ n b, vm => by
    simp only [exec1]
    exact iterN_no_fuel _ (fun v => execL_no_fuel b v) _ _
theorem execL_no_fuel : (s : List SCmd) → ∀ vm, execL s vm ≠ .error .fuel
  | [], vm => by simp [execL]
  | c :: r, vm => by
    simp only [execL]
    cases h : exec1 c vm with
    | error e => simp only; intro he; cases he; exact exec1_no_fuel c vm h
    | ok vm' => exact execL_no_fuel r vm'
end

/-! ### labels and targets -/

theorem labelsFlat_append (a b : List Cmd) : labelsFlat (a ++ b) = labelsFlat a ++ labelsFlat b := by
  induction a with
  | nil => rfl
  | cons c cs ih => cases c <;> simp [labelsFlat, ih]

mutual
theorem labelsFlat_flat1 : (c : SCmd) → labelsFlat (flat1 c) = labels1 c
  | .prim d => by cases d <;> rfl
  | .loop i n b => by
    simp only [flat1, labelsFlat, labels1, labelsFlat_append, labelsFlat_flat b]
    simp [labelsFlat]
theorem labelsFlat_flat : (s : List SCmd) → labelsFlat (flat s) = labelsL s
  | [] => rfl
  | c :: r => by simp only [flat, labelsL, labelsFlat_append, labelsFlat_flat1 c, labelsFlat_flat r]
end

/-- what `set_commands` guarantees about the target table -/
def TgOK (P : List Cmd) (tg : Nat → Option Nat) : Prop :=
  ∀ p i c, P[p]? = some (.label i c) → tg i = some (p + 1)

theorem buildTargets_spec (cs : List Cmd) :
    ∀ (pos : Nat) (tg tg' : Nat → Option Nat), buildTargets cs pos tg = .ok tg' →
      (∀ i ∈ labelsFlat cs, tg i = none) ∧ (labelsFlat cs).Nodup ∧
      (∀ i, i ∉ labelsFlat cs → tg' i = tg i) ∧
      (∀ p i c, cs[p]? = some (.label i c) → tg' i = some (pos + p + 1)) := by
  induction cs with
  | nil =>
    intro pos tg tg' h
    simp only [buildTargets] at h; cases h
    simp [labelsFlat]
  | cons c cs ih =>
    intro pos tg tg' h
    cases c with
    | label i n =>
      simp only [buildTargets] at h
      split at h
      · cases h
      · rename_i hnone
        have hnone' : tg i = none := by
          cases hti : tg i with
          | none => rfl
          | some _ => simp [hti] at hnone
        obtain ⟨h1, h2, h3, h4⟩ := ih _ _ _ h
        have hi : i ∉ labelsFlat cs := by
          intro hmem
          have := h1 i hmem
          simp [upd] at this
        refine ⟨?_, ?_, ?_, ?_⟩
        · intro j hj
          simp only [labelsFlat, List.mem_cons] at hj
          rcases hj with rfl | hj
          · exact hnone'
          · have := h1 j hj
            simp only [upd] at this
            split at this
            · cases this
            · exact this
        · simp only [labelsFlat, List.nodup_cons]; exact ⟨hi, h2⟩
        · intro j hj
          simp only [labelsFlat, List.mem_cons, not_or] at hj
          rw [h3 j hj.2]
          simp [upd, hj.1]
        · intro p j c hp
          cases p with
          | zero =>
            simp only [List.getElem?_cons_zero, Option.some.injEq, Cmd.label.injEq] at hp
            obtain ⟨rfl, rfl⟩ := hp
            rw [h3 _ hi]; simp [upd]
          | succ q =>
            simp only [List.getElem?_cons_succ] at hp
            have := h4 q j c hp
            rw [this]; congr 1; omega
    | set ch v k =>
      simp only [buildTargets] at h
      obtain ⟨h1, h2, h3, h4⟩ := ih _ _ _ h
      refine ⟨h1, h2, h3, ?_⟩
      intro p j c hp
      cases p with
      | zero => simp at hp
      | succ q =>
        simp only [List.getElem?_cons_succ] at hp
        have := h4 q j c hp
        rw [this]; congr 1; omega
    | inc ch v k =>
      simp only [buildTargets] at h
      obtain ⟨h1, h2, h3, h4⟩ := ih _ _ _ h
      refine ⟨h1, h2, h3, ?_⟩
      intro p j c hp
      cases p with
      | zero => simp at hp
      | succ q =>
        simp only [List.getElem?_cons_succ] at hp
        have := h4 q j c hp
        rw [this]; congr 1; omega
    | wait d =>
      simp only [buildTargets] at h
      obtain ⟨h1, h2, h3, h4⟩ := ih _ _ _ h
      refine ⟨h1, h2, h3, ?_⟩
      intro p j c hp
      cases p with
      | zero => simp at hp
      | succ q =>
        simp only [List.getElem?_cons_succ] at hp
        have := h4 q j c hp
        rw [this]; congr 1; omega
    | jmp j' =>
      simp only [buildTargets] at h
      obtain ⟨h1, h2, h3, h4⟩ := ih _ _ _ h
      refine ⟨h1, h2, h3, ?_⟩
      intro p j c hp
      cases p with
      | zero => simp at hp
      | succ q =>
        simp only [List.getElem?_cons_succ] at hp
        have := h4 q j c hp
        rw [this]; congr 1; omega

theorem buildTargets_ok {cs : List Cmd} {tg : Nat → Option Nat}
    (h : buildTargets cs 0 (fun _ => none) = .ok tg) : TgOK cs tg ∧ (labelsFlat cs).Nodup := by
  obtain ⟨_, h2, _, h4⟩ := buildTargets_spec cs 0 _ _ h
  refine ⟨?_, h2⟩
  intro p i c hp
  have := h4 p i c hp
  simpa using this

/-- `buildTargets` succeeds when the labels are distinct -/
theorem buildTargets_of_nodup (cs : List Cmd) :
    ∀ (pos : Nat) (tg : Nat → Option Nat), (∀ i ∈ labelsFlat cs, tg i = none) → (labelsFlat cs).Nodup →
      ∃ tg', buildTargets cs pos tg = .ok tg' := by
  induction cs with
  | nil => intro pos tg _ _; exact ⟨tg, rfl⟩
  | cons c cs ih =>
    intro pos tg h1 h2
    cases c with
    | label i n =>
      simp only [labelsFlat, List.nodup_cons] at h2
      have hi : tg i = none := h1 i (by simp [labelsFlat])
      simp only [buildTargets, hi, Option.isSome_none, Bool.false_eq_true, if_false]
      apply ih _ _ _ h2.2
      intro j hj
      have hne : j ≠ i := by intro h; subst h; exact h2.1 hj
      simp only [upd, hne, if_false]
      exact h1 j (by simp [labelsFlat, hj])
    | set ch v k => simp only [buildTargets]; exact ih _ _ (fun j hj => h1 j (by simpa [labelsFlat] using hj)) (by simpa [labelsFlat] using h2)
    | inc ch v k => simp only [buildTargets]; exact ih _ _ (fun j hj => h1 j (by simpa [labelsFlat] using hj)) (by simpa [labelsFlat] using h2)
    | wait d => simp only [buildTargets]; exact ih _ _ (fun j hj => h1 j (by simpa [labelsFlat] using hj)) (by simpa [labelsFlat] using h2)
    | jmp j' => simp only [buildTargets]; exact ih _ _ (fun j hj => h1 j (by simpa [labelsFlat] using hj)) (by simpa [labelsFlat] using h2)

/-! ### single steps of the VM loop -/

theorem step_data {P : List Cmd} {tg : Nat → Option Nat} {pc : Nat} {d : DCmd} (h : P[pc]? = some d.toCmd)
    (n : Nat) (counts : Nat → Option Int) (vm : VM) :
    runLoop P tg (n + 1) pc counts vm =
      match changeState d.toCmd vm with
      | .error e => .error e
      | .ok vm' => runLoop P tg n (pc + 1) counts vm' := by
  cases d <;> simp only [runLoop, h, DCmd.toCmd] <;> cases changeState _ vm <;> rfl

theorem step_label {P : List Cmd} {tg : Nat → Option Nat} {pc i : Nat} {c : Int} (h : P[pc]? = some (.label i c))
    (n : Nat) (counts : Nat → Option Int) (vm : VM) :
    runLoop P tg (n + 1) pc counts vm = runLoop P tg n (pc + 1) (upd counts i (c - 1)) vm := by
  simp only [runLoop, h]

theorem step_jmp_back {P : List Cmd} {tg : Nat → Option Nat} {pc i t : Nat} {c : Int} (h : P[pc]? = some (.jmp i))
    (n : Nat) (counts : Nat → Option Int) (vm : VM) (hc : counts i = some c) (hpos : c > 0) (ht : tg i = some t) :
    runLoop P tg (n + 1) pc counts vm = runLoop P tg n t (upd counts i (c - 1)) vm := by
  simp only [runLoop, h, hc, hpos, if_true, ht]

theorem step_jmp_exit {P : List Cmd} {tg : Nat → Option Nat} {pc i : Nat} {c : Int} (h : P[pc]? = some (.jmp i))
    (n : Nat) (counts : Nat → Option Int) (vm : VM) (hc : counts i = some c) (hpos : ¬ c > 0) :
    runLoop P tg (n + 1) pc counts vm = runLoop P tg n (pc + 1) counts vm := by
  simp only [runLoop, h, hc, hpos, if_false]

/-! ### the simulation -/

/-- the conclusion of the simulation lemma for a segment `seg` executed by `ex`, located after `pre` -/
def Sim (P : List Cmd) (tg : Nat → Option Nat) (start len : Nat) (labs : List Nat)
    (res : Except Err VM) (counts : Nat → Option Int) (vm : VM) : Prop :=
  ∃ (k : Nat) (counts' : Nat → Option Int), (∀ j, j ∉ labs → counts' j = counts j) ∧
    ∀ n, runLoop P tg (n + k) start counts vm =
      match res with
      | .ok vm' => runLoop P tg n (start + len) counts' vm'
      | .error e => .error e

theorem flat_length_cons (c : SCmd) (r : List SCmd) : (flat (c :: r)).length = (flat1 c).length + (flat r).length := by
  simp [flat]

/-- the loop part: from the start of the body with counter `c`, the body is played `passesLeft c` times -/
theorem sim_loop_body {P : List Cmd} {tg : Nat → Option Nat} {pre post : List Cmd} {i : Nat} {cnt : Int}
    {b : List SCmd} (hP : P = pre ++ (.label i cnt :: (flat b ++ [.jmp i])) ++ post)
    (htg : TgOK P tg) (hi : i ∉ labelsL b)
    (ihb : ∀ counts vm, Sim P tg (pre.length + 1) (flat b).length (labelsL b) (execL b vm) counts vm) :
    ∀ (m : Nat) (c : Int) (counts : Nat → Option Int) (vm : VM), (max c 0).toNat = m → counts i = some c →
      Sim P tg (pre.length + 1) ((flat b).length + 1) (i :: labelsL b)
        (iterN (fun v => execL b v) (passesLeft c) vm) counts vm := by
  have hjmp : P[pre.length + 1 + (flat b).length]? = some (.jmp i) := by
    subst hP
    have : pre.length + 1 + (flat b).length = pre.length + ((flat b).length + 1) := by omega
    rw [this, List.append_assoc, List.getElem?_append_right (by omega)]
    simp only [Nat.add_sub_cancel_left, List.cons_append, List.getElem?_cons_succ, List.append_assoc]
    rw [List.getElem?_append_right (by omega)]
    simp
  have hlab : tg i = some (pre.length + 1) := by
    apply htg pre.length i cnt
    subst hP
    simp [List.getElem?_append]
  intro m
  induction m with
  | zero =>
    intro c counts vm hm hc
    have hc0 : ¬ c > 0 := by omega
    have hp : passesLeft c = 1 := by simp only [passesLeft]; omega
    obtain ⟨k, counts1, hfr, hrun⟩ := ihb counts vm
    rw [hp]
    simp only [iterN]
    cases hres : execL b vm with
    | error e =>
      refine ⟨k, counts1, ?_, ?_⟩
      · intro j hj; exact hfr j (fun h => hj (List.mem_cons_of_mem _ h))
      · intro n; rw [hrun n, hres]
    | ok vm1 =>
      refine ⟨k + 1, counts1, ?_, ?_⟩
      · intro j hj; exact hfr j (fun h => hj (List.mem_cons_of_mem _ h))
      · intro n
        have := hrun (n + 1)
        rw [hres] at this
        simp only at this
        rw [show n + (k + 1) = n + 1 + k by omega, this]
        rw [step_jmp_exit hjmp n counts1 vm1 (by rw [hfr i hi]; exact hc) hc0]
        simp only [Nat.add_assoc]
  | succ m ih =>
    intro c counts vm hm hc
    have hc0 : c > 0 := by omega
    have hp : passesLeft c = passesLeft (c - 1) + 1 := by simp only [passesLeft]; omega
    obtain ⟨k, counts1, hfr, hrun⟩ := ihb counts vm
    rw [hp]
    simp only [iterN]
    cases hres : execL b vm with
    | error e =>
      refine ⟨k, counts1, ?_, ?_⟩
      · intro j hj; exact hfr j (fun h => hj (List.mem_cons_of_mem _ h))
      · intro n; rw [hrun n, hres]
    | ok vm1 =>
      have hc1 : counts1 i = some c := by rw [hfr i hi]; exact hc
      obtain ⟨k2, counts2, hfr2, hrun2⟩ := ih (c - 1) (upd counts1 i (c - 1)) vm1 (by omega) (by simp [upd])
      refine ⟨k2 + 1 + k, counts2, ?_, ?_⟩
      · intro j hj
        rw [hfr2 j hj]
        have hji : j ≠ i := fun h => hj (by simp [h])
        simp only [upd, hji, if_false]
        exact hfr j (fun h => hj (List.mem_cons_of_mem _ h))
      · intro n
        have := hrun (n + k2 + 1)
        rw [hres] at this
        simp only at this
        rw [show n + (k2 + 1 + k) = n + k2 + 1 + k by omega, this]
        rw [step_jmp_back hjmp (n + k2) counts1 vm1 hc1 hc0 hlab]
        exact hrun2 n

mutual
theorem sim1 : (c : SCmd) → ∀ (P pre post : List Cmd) (tg : Nat → Option Nat),
    P = pre ++ flat1 c ++ post → TgOK P tg → (labelsFlat P).Nodup →
    ∀ counts vm, Sim P tg pre.length (flat1 c).length (labels1 c) (exec1 c vm) counts vm
  | .prim d, P, pre, post, tg, hP, _, _, counts, vm => by
    have hget : P[pre.length]? = some d.toCmd := by subst hP; simp [flat1]
    refine ⟨1, counts, fun _ _ => rfl, ?_⟩
    intro n
    rw [step_data hget]
    simp only [exec1, flat1, List.length_singleton]
    cases changeState d.toCmd vm <;> rfl
  | .loop i cnt b, P, pre, post, tg, hP, htg, hnd, counts, vm => by
    have hP' : P = pre ++ (.label i cnt :: (flat b ++ [.jmp i])) ++ post := by rw [hP]; simp [flat1]
    have hlabel : P[pre.length]? = some (.label i cnt) := by subst hP'; simp
    have hi : i ∉ labelsL b := by
      have h := hnd
      rw [hP'] at h
      simp only [labelsFlat_append, labelsFlat, labelsFlat_flat] at h
      have h2 := (List.nodup_append.mp h).1
      have h3 := (List.nodup_append.mp h2).2.1
      simp only [List.nodup_cons, List.mem_append, not_or] at h3
      exact h3.1.1
    have ihb : ∀ counts vm, Sim P tg (pre.length + 1) (flat b).length (labelsL b) (execL b vm) counts vm := by
      intro counts vm
      have := simL b P (pre ++ [.label i cnt]) (.jmp i :: post) tg (by rw [hP']; simp) htg hnd counts vm
      simpa using this
    obtain ⟨k, counts', hfr, hrun⟩ :=
      sim_loop_body hP' htg hi ihb (max (cnt - 1) 0).toNat (cnt - 1) (upd counts i (cnt - 1)) vm rfl (by simp [upd])
    refine ⟨k + 1, counts', ?_, ?_⟩
    · intro j hj
      simp only [labels1] at hj
      rw [hfr j hj]
      have hji : j ≠ i := fun h => hj (by simp [h])
      simp [upd, hji]
    · intro n
      rw [show n + (k + 1) = n + k + 1 by omega, step_label hlabel, hrun n]
      simp only [exec1, flat1, List.length_cons, List.length_append, List.length_singleton, List.length_nil]
      cases iterN (fun v => execL b v) (passesLeft (cnt - 1)) vm with
      | error e => rfl
      | ok vm' => simp only; congr 1; omega
theorem simL : (s : List SCmd) → ∀ (P pre post : List Cmd) (tg : Nat → Option Nat),
    P = pre ++ flat s ++ post → TgOK P tg → (labelsFlat P).Nodup →
    ∀ counts vm, Sim P tg pre.length (flat s).length (labelsL s) (execL s vm) counts vm
  | [], P, pre, post, tg, _, _, _, counts, vm => by
    refine ⟨0, counts, fun _ _ => rfl, ?_⟩
    intro n
    simp [execL, flat]
  | c :: r, P, pre, post, tg, hP, htg, hnd, counts, vm => by
    obtain ⟨k1, counts1, hfr1, hrun1⟩ :=
      sim1 c P pre (flat r ++ post) tg (by rw [hP]; simp [flat]) htg hnd counts vm
    simp only [execL]
    cases hres : exec1 c vm with
    | error e =>
      refine ⟨k1, counts1, ?_, ?_⟩
      · intro j hj; exact hfr1 j (fun h => hj (by simp [labelsL, h]))
      · intro n; rw [hrun1 n, hres]
    | ok vm1 =>
      obtain ⟨k2, counts2, hfr2, hrun2⟩ :=
        simL r P (pre ++ flat1 c) post tg (by rw [hP]; simp [flat]) htg hnd counts1 vm1
      refine ⟨k2 + k1, counts2, ?_, ?_⟩
      · intro j hj
        simp only [labelsL, List.mem_append, not_or] at hj
        rw [hfr2 j hj.2, hfr1 j hj.1]
      · intro n
        have h1 := hrun1 (n + k2)
        rw [hres] at h1
        simp only at h1
        rw [show n + (k2 + k1) = n + k2 + k1 by omega, h1]
        have h2 := hrun2 n
        simp only [List.length_append] at h2
        rw [h2]
        simp only [flat, List.length_append]
        cases execL r vm1 with
        | error e => rfl
        | ok vm2 => simp only; congr 1; omega
end

end QP.C17.VMS
