import QP.Model.PT
import QP.Proofs.PTCompile
import QP.Proofs.PTReverse
/-! Durations and windows only: a weaker relation than `Rel` that needs no positivity assumption and is also
preserved by time reversal. -/
namespace QP.PT

structure RelW (items : List Item) (P : Pulse) : Prop where
  blocks : Blocks items
  empty : nodesOf items = [] ↔ P.chans = []
  dur : Loop.durationList (nodesOf items) = P.dur
  windows : (itemsWindows items 0).Perm P.windows

theorem Rel.toW {items : List Item} {P : Pulse} (h : Rel items P) : RelW items P :=
  ⟨h.blocks, h.empty, h.dur, h.windows⟩

theorem RelW.nil : RelW [] Pulse.empty where
  blocks := Blocks.nil
  empty := by simp [nodesOf, Pulse.empty]
  dur := by simp [nodesOf, Loop.durationList, Pulse.empty]
  windows := by simp [itemsWindows, Pulse.empty]

theorem RelW.items_nil {items : List Item} {P : Pulse} (h : RelW items P) (he : P.chans = []) : items = [] :=
  h.blocks.eq_nil (h.empty.mpr he)

theorem RelW.append {a b : List Item} {Pa Pb P : Pulse} (ha : RelW a Pa) (hb : RelW b Pb)
    (hP : Pa.append Pb = .ok P) : RelW (a ++ b) P := by
  unfold Pulse.append at hP
  rcases Bool.eq_false_or_eq_true Pa.isEmpty with h1 | h1
  · simp only [h1, if_true, Except.ok.injEq] at hP
    subst hP
    have : a = [] := ha.items_nil (by simpa [Pulse.isEmpty] using h1)
    subst this
    simpa using hb
  · simp only [h1, Bool.false_eq_true, if_false] at hP
    rcases Bool.eq_false_or_eq_true Pb.isEmpty with h2 | h2
    · simp only [h2, if_true, Except.ok.injEq] at hP
      subst hP
      have : b = [] := hb.items_nil (by simpa [Pulse.isEmpty] using h2)
      subst this
      simpa using ha
    · simp only [h2, Bool.false_eq_true, if_false] at hP
      rcases Bool.eq_false_or_eq_true (sameSet Pa.chanNames Pb.chanNames) with h3 | h3
      · simp only [h3, Bool.not_true, Bool.false_eq_true, if_false, Except.ok.injEq] at hP
        subst hP
        have hne_a : Pa.chans ≠ [] := by simpa [Pulse.isEmpty] using h1
        refine ⟨ha.blocks.append hb.blocks, ?_, ?_, ?_⟩
        · simp only [nodesOf_append, List.append_eq_nil_iff, List.map_eq_nil_iff]
          constructor
          · intro h; exact absurd (ha.empty.mp h.1) hne_a
          · intro h; exact absurd h hne_a
        · simp only [nodesOf_append, durationList_append, ha.dur, hb.dur]
        · rw [itemsWindows_append, itemsWindows_shift b, ha.dur]
          simp only [zero_add]
          exact List.Perm.append ha.windows (List.Perm.map _ hb.windows)
      · simp [h3] at hP

theorem RelW.guard {its : List Item} {p : Pulse} (h : RelW its p) (ms : List Window) :
    RelW (guardRun ms its) (p.withOwn ms) := by
  unfold Pulse.withOwn
  rcases Bool.eq_false_or_eq_true p.isEmpty with he | he
  · simp only [he, if_true]
    have : its = [] := h.items_nil (by simpa [Pulse.isEmpty] using he)
    subst this
    simpa [guardRun] using h
  · simp only [he, Bool.false_eq_true, if_false]
    have hne : its ≠ [] := by
      intro h0; subst h0
      have := h.empty.mp (by simp [nodesOf])
      simp [Pulse.isEmpty, this] at he
    refine ⟨guardRun_blocks h.blocks ms, ?_, ?_, ?_⟩
    · rw [nodesOf_guardRun]; exact h.empty
    · rw [nodesOf_guardRun]; exact h.dur
    · rw [itemsWindows_guardRun h.blocks]
      simp only [hne, if_false, map_shiftW_zero]
      exact List.Perm.append_left _ h.windows

theorem RelW.rep {its : List Item} {b : Pulse} (h : RelW its b) (n : Nat) (ms : List Window) :
    RelW (tryAppend ((Loop.mk n none [] []).applyItems its) ms)
      (if b.isEmpty then Pulse.empty else
        { dur := b.dur * n, chans := b.chans.map (fun (x : Chan × PL) => (x.1, PL.replicate n x.2)),
          windows := ms ++ repeatWindows b.windows n b.dur }) := by
  rw [applyItems_eq]
  simp only [List.nil_append, Loop.durationList]
  rcases Bool.eq_false_or_eq_true b.isEmpty with he | he
  · simp only [he, if_true]
    have : its = [] := h.items_nil (by simpa [Pulse.isEmpty] using he)
    subst this
    simp [tryAppend, Loop.isEmpty, Loop.wf, Loop.children, nodesOf, RelW.nil]
  · simp only [he, Bool.false_eq_true, if_false]
    have hne : nodesOf its ≠ [] := by
      intro h0
      have := h.empty.mp h0
      simp [Pulse.isEmpty, this] at he
    have hnotempty : (Loop.mk n none (measW its 0) (nodesOf its)).isEmpty = false := by
      simp [Loop.isEmpty, Loop.wf, Loop.children, hne]
    simp only [tryAppend, hnotempty, Bool.false_eq_true, if_false]
    have hLdur : (Loop.mk n none (measW its 0) (nodesOf its)).duration = b.dur * n := by
      rw [duration_none, h.dur]
    refine ⟨Blocks.meas ms _ Blocks.nil, ?_, ?_, ?_⟩
    · simp only [nodesOf]
      constructor
      · intro h0; simp at h0
      · intro h0
        simp only [List.map_eq_nil_iff] at h0
        simp [Pulse.isEmpty, h0] at he
    · simp only [nodesOf, Loop.durationList, hLdur]; ring
    · simp only [itemsWindows, map_shiftW_zero, List.append_nil]
      apply List.Perm.append_left
      simp only [Loop.windows]
      rw [bodyDuration_none, h.dur]
      apply repeatWindows_perm
      exact List.Perm.trans (measW_windowsList_perm its 0) h.windows

theorem repeatWindows_one' (ws : List Window) (d : Rat) : repeatWindows ws 1 d = ws := by
  simp [repeatWindows, List.range_succ, map_shiftW_zero]

/-- `LoopBuilder.time_reversed` against the reversed pulse -/
theorem RelW.reversed {its : List Item} {b : Pulse} (h : RelW its b) :
    RelW (match toProgram its with | none => [] | some root => [Item.node root.reverseInplace])
      { dur := b.dur, chans := b.chans.map (fun (x : Chan × PL) => (x.1, x.2.reversed)),
        windows := b.windows.map (mirrorW b.dur) } := by
  unfold toProgram
  simp only [rootLoop, applyItems_eq, List.nil_append, Loop.durationList]
  rcases Bool.eq_false_or_eq_true (Loop.mk 1 none (measW its 0) (nodesOf its)).isEmpty with he | he
  · simp only [he, if_true]
    have hn : nodesOf its = [] := by
      simpa [Loop.isEmpty, Loop.wf, Loop.children] using he
    have hits : its = [] := h.blocks.eq_nil hn
    have hch := h.empty.mp hn
    subst hits
    have hw : b.windows = [] := by
      have := h.windows
      simp only [itemsWindows] at this
      exact List.Perm.eq_nil (List.Perm.symm this)
    have hd : b.dur = 0 := by rw [← h.dur]; simp [nodesOf, Loop.durationList]
    refine ⟨Blocks.nil, ?_, ?_, ?_⟩
    · simp [nodesOf, hch]
    · simp [nodesOf, Loop.durationList, hd]
    · simp [itemsWindows, hw]
  · simp only [he, Bool.false_eq_true, if_false]
    have hne : nodesOf its ≠ [] := by
      intro h0
      simp [Loop.isEmpty, Loop.wf, Loop.children, h0] at he
    have hrootdur : (Loop.mk 1 none (measW its 0) (nodesOf its)).duration = b.dur := by
      rw [duration_none, h.dur]; simp
    refine ⟨Blocks.node _ Blocks.nil, ?_, ?_, ?_⟩
    · simp only [nodesOf]
      constructor
      · intro h0; simp at h0
      · intro h0
        simp only [List.map_eq_nil_iff] at h0
        exact absurd (h.empty.mpr h0) hne
    · simp only [nodesOf, Loop.durationList, reverse_duration, hrootdur]; ring
    · simp only [itemsWindows, map_shiftW_zero, List.append_nil]
      refine List.Perm.trans (reverse_windows _) ?_
      rw [hrootdur]
      apply List.Perm.map
      simp only [Loop.windows]
      rw [repeatWindows_one']
      exact List.Perm.trans (measW_windowsList_perm its 0) h.windows

end QP.PT
