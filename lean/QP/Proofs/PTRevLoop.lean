import QP.Model.PT
import QP.Proofs.PTReverse
import QP.Proofs.PTSample
import Mathlib.Tactic.Linarith
import Mathlib.Tactic.Ring
/-! Programs under time reversal: left-closed playback `Loop.sampleL` (every leaf owns `(start, start+duration]`), and
`Loop.reverse_inplace` exchanges it with the ordinary right-open playback at the mirrored time. -/
namespace QP.PT

mutual
/-- the program played back at time `τ`, every leaf owning `(start, start + duration]` -/
def Loop.sampleL : Loop → Chan → Rat → Option Rat
  | .mk rep wf meas cs, ch, τ =>
      let d := Loop.bodyDuration (.mk rep wf meas cs)
      if d ≤ 0 then none else
      let k := (τ / d).ceil - 1
      if k < 0 ∨ (rep : Int) ≤ k then none else
      match cs with
      | [] => (match wf with | some w => w.sample ch (τ - k * d) | none => none)
      | c :: cs' => Loop.sampleListL (c :: cs') ch (τ - k * d)
def Loop.sampleListL : List Loop → Chan → Rat → Option Rat
  | [], _, _ => none
  | c :: cs, ch, τ => if τ ≤ c.duration then c.sampleL ch τ else Loop.sampleListL cs ch (τ - c.duration)
end

theorem sampleListL_append_left (a b : List Loop) (c : Chan) (τ : Rat) (h0 : 0 < τ)
    (h : τ ≤ Loop.durationList a) : Loop.sampleListL (a ++ b) c τ = Loop.sampleListL a c τ := by
  induction a generalizing τ with
  | nil => simp [Loop.durationList] at h; linarith
  | cons x xs ih =>
    simp only [List.cons_append, Loop.sampleListL]
    by_cases hs : τ ≤ x.duration
    · simp [hs]
    · simp only [hs, if_false]
      apply ih
      · linarith
      · simp only [Loop.durationList] at h; linarith

theorem sampleListL_append_right (a b : List Loop) (c : Chan) (τ : Rat)
    (ha : ∀ l ∈ a, 0 ≤ l.duration) (h : Loop.durationList a < τ) :
    Loop.sampleListL (a ++ b) c τ = Loop.sampleListL b c (τ - Loop.durationList a) := by
  induction a generalizing τ with
  | nil => simp [Loop.durationList]
  | cons x xs ih =>
    have hx := ha x (by simp)
    have hxs := durationList_nonneg xs (fun l hl => ha l (by simp [hl]))
    simp only [Loop.durationList] at h
    have hs : ¬ τ ≤ x.duration := by linarith
    simp only [List.cons_append, Loop.sampleListL, hs, if_false]
    rw [ih (τ - x.duration) (fun l hl => ha l (by simp [hl])) (by linarith)]
    simp only [Loop.durationList]
    congr 1
    ring

theorem ceil_sub_one_eq (τ d : Rat) (j : Nat) (hd : 0 < d) (h1 : d * j < τ) (h2 : τ ≤ d * (j + 1)) :
    (τ / d).ceil - 1 = (j : Int) := by
  have hle : (τ / d).ceil ≤ (j : Int) + 1 := by
    rw [Rat.ceil_le_iff, div_le_iff₀ hd]; push_cast; linarith
  have hgt : (j : Int) < (τ / d).ceil := by
    rw [Rat.lt_ceil_iff, lt_div_iff₀ hd]; push_cast; linarith
  omega

theorem reversedWf_sample (w : Wf) (c : Chan) (x : Rat) :
    w.reversedWf.sample c x = w.sample c (w.duration - x) := by
  cases w with
  | const d ch v => simp [Wf.reversedWf, Wf.sample]
  | reversed inner => simp [Wf.reversedWf, Wf.sample, Wf.duration]
  | table ch es => simp [Wf.reversedWf, Wf.sample]
  | func ch d e env => simp [Wf.reversedWf, Wf.sample]
  | multi subs => simp [Wf.reversedWf, Wf.sample]
  | seq subs => simp [Wf.reversedWf, Wf.sample]
  | rep b n => simp [Wf.reversedWf, Wf.sample]
  | trafo i T => simp [Wf.reversedWf, Wf.sample]
  | arith l m r => simp [Wf.reversedWf, Wf.sample]
  | neg i => simp [Wf.reversedWf, Wf.sample]

theorem sampleList_singleton (x : Loop) (c : Chan) (t : Rat) (h : t < x.duration) :
    Loop.sampleList [x] c t = x.sample c t := by
  simp [Loop.sampleList, h]

theorem sampleListL_singleton (x : Loop) (c : Chan) (τ : Rat) (h : τ ≤ x.duration) :
    Loop.sampleListL [x] c τ = x.sampleL c τ := by
  simp [Loop.sampleListL, h]

theorem allPosB_mk {rep : Nat} {wf : Option Wf} {meas : List Window} {cs : List Loop}
    (h : (Loop.mk rep wf meas cs).allPosB = true) :
    0 < rep ∧ 0 < Loop.bodyDuration (.mk rep wf meas cs) := by
  have hd := Loop.allPos_duration_pos _ h
  have h1 : 0 < rep := by
    rcases Nat.eq_zero_or_pos rep with h0 | h0
    · subst h0
      simp [Loop.duration] at hd
    · exact h0
  refine ⟨h1, ?_⟩
  simp only [Loop.duration] at hd
  have : (0 : Rat) < (rep : Rat) := by exact_mod_cast h1
  by_contra hcon
  have : Loop.bodyDuration (.mk rep wf meas cs) ≤ 0 := not_lt.mp hcon
  nlinarith

/-- the period bookkeeping of a repeated body under reversal -/
theorem period_mirror (t d : Rat) (rep : Nat) (hd : 0 < d) (h0 : 0 ≤ t) (h : t < d * rep) :
    ∃ k j : Nat, k < rep ∧ j < rep ∧ (t / d).floor = (k : Int) ∧ ((d * rep - t) / d).ceil - 1 = (j : Int) ∧
      0 ≤ t - k * d ∧ t - k * d < d ∧ (d * rep - t) - j * d = d - (t - k * d) := by
  obtain ⟨k, hk, hk1, hk2⟩ := exists_period t d rep hd h0 h
  have hfl := floor_div_eq t d k hd hk1 hk2
  refine ⟨k, rep - 1 - k, hk, by omega, hfl, ?_, by linarith, by linarith, ?_⟩
  · apply ceil_sub_one_eq _ d (rep - 1 - k) hd
    · have : ((rep - 1 - k : Nat) : Rat) = (rep : Rat) - 1 - k := by
        rw [Nat.cast_sub (by omega), Nat.cast_sub (by omega)]; simp
      rw [this]; nlinarith
    · have : ((rep - 1 - k : Nat) : Rat) = (rep : Rat) - 1 - k := by
        rw [Nat.cast_sub (by omega), Nat.cast_sub (by omega)]; simp
      rw [this]; nlinarith
  · have : ((rep - 1 - k : Nat) : Rat) = (rep : Rat) - 1 - k := by
      rw [Nat.cast_sub (by omega), Nat.cast_sub (by omega)]; simp
    rw [this]; ring

/-- … and for the left-closed playback -/
theorem period_mirrorL (τ d : Rat) (rep : Nat) (hd : 0 < d) (h0 : 0 < τ) (h : τ ≤ d * rep) :
    ∃ k j : Nat, k < rep ∧ j < rep ∧ (τ / d).ceil - 1 = (j : Int) ∧ ((d * rep - τ) / d).floor = (k : Int) ∧
      0 < τ - j * d ∧ τ - j * d ≤ d ∧ (d * rep - τ) - k * d = d - (τ - j * d) := by
  have ht0 : 0 ≤ d * rep - τ := by linarith
  have ht1 : d * rep - τ < d * rep := by linarith
  obtain ⟨k, j, hk, hj, e1, e2, b1, b2, e3⟩ := period_mirror (d * rep - τ) d rep hd ht0 ht1
  have e : d * rep - (d * rep - τ) = τ := by ring
  rw [e] at e2 e3
  refine ⟨k, j, hk, hj, e2, e1, ?_, ?_, ?_⟩
  · linarith
  · linarith
  · linarith

theorem revList_ne (x : Loop) (xs : List Loop) :
    ∃ y ys, ((x :: xs).map Loop.reverseInplace).reverse = y :: ys := by
  cases h : ((x :: xs).map Loop.reverseInplace).reverse with
  | nil => simp at h
  | cons y ys => exact ⟨y, ys, rfl⟩

theorem allPosListB_cons {x : Loop} {xs : List Loop} (h : Loop.allPosListB (x :: xs) = true) :
    x.allPosB = true ∧ Loop.allPosListB xs = true := by
  simpa [Loop.allPosListB] using h

theorem allPosListB_nonneg : ∀ (cs : List Loop), Loop.allPosListB cs = true → ∀ l ∈ cs, 0 ≤ l.duration :=
  fun cs h => allPosList_nonneg (cs := cs) h

mutual
theorem rev_sample (c : Chan) : ∀ l : Loop, l.allPosB = true → ∀ t, 0 ≤ t → t < l.duration →
    l.reverseInplace.sample c t = l.sampleL c (l.duration - t)
  | .mk rep none meas [], h, _, _, _ => by simp [Loop.allPosB] at h
  | .mk rep (some w) meas [], h, t, h0, h1 => by
      obtain ⟨hrep, hd⟩ := allPosB_mk h
      simp only [Loop.bodyDuration] at hd
      simp only [Loop.duration, Loop.bodyDuration] at h1 ⊢
      obtain ⟨k, j, hk, hj, e1, e2, b1, b2, e3⟩ := period_mirror t w.duration rep hd h0 h1
      simp only [Loop.reverseInplace, Option.map_some, Loop.sample, Loop.sampleL, Loop.bodyDuration,
        reversedWf_duration]
      have hnd : ¬ w.duration ≤ 0 := not_le.mpr hd
      have hk' : ¬ ((k : Int) < 0 ∨ (rep : Int) ≤ k) := by omega
      have hj' : ¬ ((j : Int) < 0 ∨ (rep : Int) ≤ j) := by omega
      simp only [hnd, if_false, e1, e2, hk', hj']
      rw [reversedWf_sample]
      congr 1
      push_cast
      linarith
  | .mk rep wf meas (x :: xs), h, t, h0, h1 => by
      obtain ⟨hrep, hd⟩ := allPosB_mk h
      have hch : Loop.allPosListB (x :: xs) = true := by
        simp only [Loop.allPosB, Bool.and_eq_true] at h
        exact h.2
      simp only [Loop.bodyDuration] at hd
      simp only [Loop.duration, Loop.bodyDuration] at h1 ⊢
      obtain ⟨k, j, hk, hj, e1, e2, b1, b2, e3⟩ :=
        period_mirror t (Loop.durationList (x :: xs)) rep hd h0 h1
      obtain ⟨y, ys, hR⟩ := revList_ne x xs
      have hRd : Loop.durationList (y :: ys) = Loop.durationList (x :: xs) := by
        rw [← hR, durationList_reverse, reverse_durationList]
      simp only [Loop.reverseInplace, reverseList_eq, List.append_nil]
      rw [hR]
      simp only [Loop.sample, Loop.sampleL, Loop.bodyDuration, hRd]
      have hnd : ¬ Loop.durationList (x :: xs) ≤ 0 := not_le.mpr hd
      have hk' : ¬ ((k : Int) < 0 ∨ (rep : Int) ≤ k) := by omega
      have hj' : ¬ ((j : Int) < 0 ∨ (rep : Int) ≤ j) := by omega
      simp only [hnd, if_false, e1, e2, hk', hj']
      rw [← hR]
      have ih := rev_sampleList c (x :: xs) hch (t - k * Loop.durationList (x :: xs)) b1 b2
      have ek : t - (((k : Nat) : Int) : Rat) * Loop.durationList (x :: xs) = t - k * Loop.durationList (x :: xs) := by
        push_cast; ring
      rw [ek, ih]
      congr 1
      push_cast
      linarith
theorem rev_sampleList (c : Chan) : ∀ cs : List Loop, Loop.allPosListB cs = true → ∀ t, 0 ≤ t →
    t < Loop.durationList cs →
    Loop.sampleList (cs.map Loop.reverseInplace).reverse c t = Loop.sampleListL cs c (Loop.durationList cs - t)
  | [], _, t, h0, h1 => by simp [Loop.durationList] at h1; linarith
  | x :: xs, h, t, h0, h1 => by
      obtain ⟨hx, hxs⟩ := allPosListB_cons h
      have hxd := Loop.allPos_duration_pos x hx
      have hxsn : ∀ l ∈ (xs.map Loop.reverseInplace).reverse, 0 ≤ l.duration := by
        intro l hl
        simp only [List.mem_reverse, List.mem_map] at hl
        obtain ⟨l0, hl0, rfl⟩ := hl
        rw [reverse_duration]
        exact allPosListB_nonneg xs hxs l0 hl0
      have hAd : Loop.durationList (xs.map Loop.reverseInplace).reverse = Loop.durationList xs := by
        rw [durationList_reverse, reverse_durationList]
      simp only [List.map_cons, List.reverse_cons, Loop.durationList] at h1 ⊢
      by_cases hlt : t < Loop.durationList xs
      · rw [sampleList_append_left _ _ _ _ h0 (by rw [hAd]; exact hlt)]
        rw [rev_sampleList c xs hxs t h0 hlt]
        have : ¬ (x.duration + Loop.durationList xs - t ≤ x.duration) := by linarith
        simp only [Loop.sampleListL, this, if_false]
        congr 1; ring
      · have hge : Loop.durationList xs ≤ t := not_lt.mp hlt
        rw [sampleList_append_right _ _ _ _ hxsn (by rw [hAd]; exact hge), hAd]
        rw [sampleList_singleton _ _ _ (by rw [reverse_duration]; linarith)]
        rw [rev_sample c x hx (t - Loop.durationList xs) (by linarith) (by linarith)]
        have : x.duration + Loop.durationList xs - t ≤ x.duration := by linarith
        simp only [Loop.sampleListL, this, if_true]
        congr 1; ring
end

mutual
theorem rev_sampleL (c : Chan) : ∀ l : Loop, l.allPosB = true → ∀ τ, 0 < τ → τ ≤ l.duration →
    l.reverseInplace.sampleL c τ = l.sample c (l.duration - τ)
  | .mk rep none meas [], h, _, _, _ => by simp [Loop.allPosB] at h
  | .mk rep (some w) meas [], h, τ, h0, h1 => by
      obtain ⟨hrep, hd⟩ := allPosB_mk h
      simp only [Loop.bodyDuration] at hd
      simp only [Loop.duration, Loop.bodyDuration] at h1 ⊢
      obtain ⟨k, j, hk, hj, e1, e2, b1, b2, e3⟩ := period_mirrorL τ w.duration rep hd h0 h1
      simp only [Loop.reverseInplace, Option.map_some, Loop.sample, Loop.sampleL, Loop.bodyDuration,
        reversedWf_duration]
      have hnd : ¬ w.duration ≤ 0 := not_le.mpr hd
      have hk' : ¬ ((k : Int) < 0 ∨ (rep : Int) ≤ k) := by omega
      have hj' : ¬ ((j : Int) < 0 ∨ (rep : Int) ≤ j) := by omega
      simp only [hnd, if_false, e1, e2, hk', hj']
      rw [reversedWf_sample]
      congr 1
      push_cast
      linarith
  | .mk rep wf meas (x :: xs), h, τ, h0, h1 => by
      obtain ⟨hrep, hd⟩ := allPosB_mk h
      have hch : Loop.allPosListB (x :: xs) = true := by
        simp only [Loop.allPosB, Bool.and_eq_true] at h
        exact h.2
      simp only [Loop.bodyDuration] at hd
      simp only [Loop.duration, Loop.bodyDuration] at h1 ⊢
      obtain ⟨k, j, hk, hj, e1, e2, b1, b2, e3⟩ :=
        period_mirrorL τ (Loop.durationList (x :: xs)) rep hd h0 h1
      obtain ⟨y, ys, hR⟩ := revList_ne x xs
      have hRd : Loop.durationList (y :: ys) = Loop.durationList (x :: xs) := by
        rw [← hR, durationList_reverse, reverse_durationList]
      simp only [Loop.reverseInplace, reverseList_eq, List.append_nil]
      rw [hR]
      simp only [Loop.sample, Loop.sampleL, Loop.bodyDuration, hRd]
      have hnd : ¬ Loop.durationList (x :: xs) ≤ 0 := not_le.mpr hd
      have hk' : ¬ ((k : Int) < 0 ∨ (rep : Int) ≤ k) := by omega
      have hj' : ¬ ((j : Int) < 0 ∨ (rep : Int) ≤ j) := by omega
      simp only [hnd, if_false, e1, e2, hk', hj']
      rw [← hR]
      have ih := rev_sampleListL c (x :: xs) hch (τ - j * Loop.durationList (x :: xs)) b1 b2
      have ej : τ - (((j : Nat) : Int) : Rat) * Loop.durationList (x :: xs) = τ - j * Loop.durationList (x :: xs) := by
        push_cast; ring
      rw [ej, ih]
      congr 1
      push_cast
      linarith
theorem rev_sampleListL (c : Chan) : ∀ cs : List Loop, Loop.allPosListB cs = true → ∀ τ, 0 < τ →
    τ ≤ Loop.durationList cs →
    Loop.sampleListL (cs.map Loop.reverseInplace).reverse c τ = Loop.sampleList cs c (Loop.durationList cs - τ)
  | [], _, τ, h0, h1 => by simp [Loop.durationList] at h1; linarith
  | x :: xs, h, τ, h0, h1 => by
      obtain ⟨hx, hxs⟩ := allPosListB_cons h
      have hxd := Loop.allPos_duration_pos x hx
      have hxsn : ∀ l ∈ (xs.map Loop.reverseInplace).reverse, 0 ≤ l.duration := by
        intro l hl
        simp only [List.mem_reverse, List.mem_map] at hl
        obtain ⟨l0, hl0, rfl⟩ := hl
        rw [reverse_duration]
        exact allPosListB_nonneg xs hxs l0 hl0
      have hAd : Loop.durationList (xs.map Loop.reverseInplace).reverse = Loop.durationList xs := by
        rw [durationList_reverse, reverse_durationList]
      simp only [List.map_cons, List.reverse_cons, Loop.durationList] at h1 ⊢
      by_cases hle : τ ≤ Loop.durationList xs
      · rw [sampleListL_append_left _ _ _ _ h0 (by rw [hAd]; exact hle)]
        rw [rev_sampleListL c xs hxs τ h0 hle]
        have : ¬ (x.duration + Loop.durationList xs - τ < x.duration) := by linarith
        simp only [Loop.sampleList, this, if_false]
        congr 1; ring
      · have hgt : Loop.durationList xs < τ := not_le.mp hle
        rw [sampleListL_append_right _ _ _ _ hxsn (by rw [hAd]; exact hgt), hAd]
        rw [sampleListL_singleton _ _ _ (by rw [reverse_duration]; linarith)]
        rw [rev_sampleL c x hx (τ - Loop.durationList xs) (by linarith) (by linarith)]
        have : x.duration + Loop.durationList xs - τ < x.duration := by linarith
        simp only [Loop.sampleList, this, if_true]
        congr 1; ring
end

end QP.PT
