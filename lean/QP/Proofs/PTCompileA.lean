import QP.Model.PT
import QP.Proofs.PTCompile
import QP.Proofs.PTRevAtoms
/-! Compile correctness with the junction tolerance of time reversed parts: sequence, repetition, iteration, mapping
**and time reversal** over atoms that satisfy `AtomOKA`. -/
namespace QP.PT

def CompileOKA (pt : PT) : Prop :=
  ∀ σ mm cm items P, internal pt (ctx0 σ mm cm) = .ok items → denote pt σ mm cm = .ok P →
    Loop.allPosList (nodesOf items) → RelA items P

/-- templates built from correct atoms by sequencing, repetition, iteration and mapping -/
inductive BasicA : PT → Prop
  | const {id dur amps meas} : AtomOKA (.const id dur amps meas) → BasicA (.const id dur amps meas)
  | table {id entries meas cons} : AtomOKA (.table id entries meas cons) → BasicA (.table id entries meas cons)
  | point {id chans entries meas cons} : AtomOKA (.point id chans entries meas cons) →
      BasicA (.point id chans entries meas cons)
  | func {id ch dur e meas cons} : AtomOKA (.func id ch dur e meas cons) → BasicA (.func id ch dur e meas cons)
  | atomicMulti {id subs dur meas cons} : AtomOKA (.atomicMulti id subs dur meas cons) →
      BasicA (.atomicMulti id subs dur meas cons)
  | arithAtomic {id lhs minus rhs meas} : AtomOKA (.arithAtomic id lhs minus rhs meas) →
      BasicA (.arithAtomic id lhs minus rhs meas)
  | seq {id subs meas cons} : (∀ p ∈ subs, BasicA p) → BasicA (.seq id subs meas cons)
  | rep {id body count meas cons} : BasicA body → BasicA (.rep id body count meas cons)
  | forLoop {id body idx start stop step meas cons} : BasicA body →
      BasicA (.forLoop id body idx start stop step meas cons)
  | mapping {id body pm mm cm cons} : BasicA body → BasicA (.mapping id body pm mm cm cons)
  | timeReversal {id body} : BasicA body → BasicA (.timeReversal id body)

theorem list_relA (subs : List PT) (ih : ∀ p ∈ subs, CompileOKA p) (σ : Scope)
    (mm : List (MName × Option MName)) (cm : List (Chan × Option Chan)) :
    ∀ its parts p, internalList subs (ctx0 σ mm cm) = .ok its → denoteList subs σ mm cm = .ok parts →
      Pulse.appendAll parts = .ok p → Loop.allPosList (nodesOf its) → RelA its p := by
  induction subs with
  | nil =>
    intro its parts p h1 h2 h3 _
    simp only [internalList] at h1
    simp only [denoteList] at h2
    cases h1; cases h2
    simp only [Pulse.appendAll] at h3
    cases h3
    exact RelA.nil
  | cons q qs ihq =>
    intro its parts p h1 h2 h3 hpos
    simp only [internalList, bind_ok, pure_ok] at h1
    obtain ⟨a, ha, b, hb, rfl⟩ := h1
    simp only [denoteList, bind_ok, pure_ok] at h2
    obtain ⟨pa, hpa, pr, hpr, rfl⟩ := h2
    simp only [Pulse.appendAll, bind_ok] at h3
    obtain ⟨r, hr, hp⟩ := h3
    rw [wrapSingle_nil _ _ _ rfl] at ha
    rw [nodesOf_append, allPosList_append] at hpos
    have hq := ih q (by simp) σ mm cm a pa ha hpa hpos.1
    have hrest := ihq (fun p hp => ih p (by simp [hp])) b pr r hb hpr hr hpos.2
    exact RelA.append hq hrest hpos.1 hp

theorem range_relA (body : PT) (ih : CompileOKA body) (σ : Scope) (idx : String)
    (mm : List (MName × Option MName)) (cm : List (Chan × Option Chan)) (rng : List Int) :
    ∀ its parts p,
      rng.flatMapM (fun (i : Int) => wrapSingle body.ident
        { ctx0 σ mm cm with scope := .range σ idx (i : Rat) } (internal body)) = .ok its →
      rng.mapM (fun (i : Int) => denote body (.range σ idx (i : Rat)) mm cm) = .ok parts →
      Pulse.appendAll parts = .ok p → Loop.allPosList (nodesOf its) → RelA its p := by
  induction rng with
  | nil =>
    intro its parts p h1 h2 h3 _
    simp only [List.flatMapM_nil, pure_ok] at h1
    simp only [List.mapM_nil, pure_ok] at h2
    subst h1; subst h2
    simp only [Pulse.appendAll] at h3
    cases h3
    exact RelA.nil
  | cons i is ihr =>
    intro its parts p h1 h2 h3 hpos
    simp only [List.flatMapM_cons, bind_ok, pure_ok] at h1
    obtain ⟨a, ha, b, hb, rfl⟩ := h1
    simp only [List.mapM_cons, bind_ok, pure_ok] at h2
    obtain ⟨pa, hpa, pr, hpr, rfl⟩ := h2
    simp only [Pulse.appendAll, bind_ok] at h3
    obtain ⟨r, hr, hp⟩ := h3
    rw [wrapSingle_nil _ _ _ rfl] at ha
    rw [nodesOf_append, allPosList_append] at hpos
    have hq := ih (.range σ idx (i : Rat)) mm cm a pa ha hpa hpos.1
    have hrest := ihr b pr r hb hpr hr hpos.2
    exact RelA.append hq hrest hpos.1 hp

theorem compile_relA {pt : PT} (hb : BasicA pt) : CompileOKA pt := by
  induction hb with
  | const h => intro σ mm cm items P h1 h2 h3; simp only [internal] at h1; exact h σ mm cm items P h1 h2 h3
  | table h => intro σ mm cm items P h1 h2 h3; simp only [internal] at h1; exact h σ mm cm items P h1 h2 h3
  | point h => intro σ mm cm items P h1 h2 h3; simp only [internal] at h1; exact h σ mm cm items P h1 h2 h3
  | func h => intro σ mm cm items P h1 h2 h3; simp only [internal] at h1; exact h σ mm cm items P h1 h2 h3
  | atomicMulti h => intro σ mm cm items P h1 h2 h3; simp only [internal] at h1; exact h σ mm cm items P h1 h2 h3
  | arithAtomic h => intro σ mm cm items P h1 h2 h3; simp only [internal] at h1; exact h σ mm cm items P h1 h2 h3
  | @seq id subs meas cons _ ih =>
    intro σ mm cm items P h1 h2 hpos
    simp only [internal, ctx0, bind_ok, pure_ok] at h1
    obtain ⟨_, _, ms, hms, its, hits, rfl⟩ := h1
    simp only [denote, bind_ok, pure_ok] at h2
    obtain ⟨_, _, ms', hms', parts, hparts, p, hp, rfl⟩ := h2
    rw [hms] at hms'
    cases hms'
    rw [nodesOf_guardRun] at hpos
    exact (list_relA subs ih σ mm cm its parts p hits hparts hp hpos).guard ms
  | @rep id body count meas cons _ ih =>
    intro σ mm cm items P h1 h2 hpos
    simp only [internal, ctx0, bind_ok] at h1
    obtain ⟨_, _, c, hc, h1⟩ := h1
    simp only [denote, bind_ok] at h2
    obtain ⟨_, _, c', hc', h2⟩ := h2
    rw [hc] at hc'
    cases hc'
    cases hn : checkedInt c with
    | none => simp [hn] at h1
    | some n =>
      simp only [hn] at h1 h2
      by_cases hle : n ≤ 0
      · simp only [hle, if_true, pure_ok] at h1 h2
        subst h1; subst h2
        exact RelA.nil
      · simp only [hle, if_false, bind_ok, pure_ok] at h1 h2
        obtain ⟨ms, hms, its, hits, rfl⟩ := h1
        obtain ⟨ms', hms', b, hbd, h2⟩ := h2
        rw [hms] at hms'
        cases hms'
        rw [wrapSingle_nil _ _ _ rfl] at hits
        have hposb : Loop.allPosList (nodesOf its) := by
          rcases allPos_of_tryAppend hpos with he | hL
          · rw [applyItems_eq] at he
            simp only [Loop.isEmpty, Loop.wf, Loop.children, List.nil_append, Option.isNone_none,
              Bool.true_and, List.isEmpty_iff] at he
            rw [he]; exact allPosList_nil
          · rw [applyItems_eq] at hL
            simp only [List.nil_append] at hL
            cases hcs : nodesOf its with
            | nil => exact allPosList_nil
            | cons c0 cs0 =>
              rw [hcs] at hL
              simp only [Loop.allPos, Loop.allPosB, Bool.and_eq_true] at hL
              exact hL.2
        have hrel := (ih σ mm cm its b hits hbd hposb).rep hposb n.toNat ms
        by_cases he : b.isEmpty
        · simp only [he, if_true, pure_ok] at h2
          subst h2
          simpa [he] using hrel
        · have he' : b.isEmpty = false := by simpa using he
          simp only [he', Bool.false_eq_true, if_false, pure_ok] at h2
          simp only [he', Bool.false_eq_true, if_false] at hrel
          subst h2
          exact hrel
  | @forLoop id body idx start stop step meas cons _ ih =>
    intro σ mm cm items P h1 h2 hpos
    simp only [internal, ctx0, bind_ok] at h1
    obtain ⟨_, _, a, ha, ai, hai, b, hb, bi, hbi, s, hs, si, hsi, h1⟩ := h1
    simp only [denote, bind_ok] at h2
    obtain ⟨_, _, a', ha', ai', hai', b', hb', bi', hbi', s', hs', si', hsi', h2⟩ := h2
    rw [ha] at ha'; cases ha'
    rw [hai] at hai'; cases hai'
    rw [hb] at hb'; cases hb'
    rw [hbi] at hbi'; cases hbi'
    rw [hs] at hs'; cases hs'
    rw [hsi] at hsi'; cases hsi'
    by_cases hz : si = 0
    · simp [hz] at h1
    · simp only [hz, if_false, bind_ok, pure_ok] at h1 h2
      obtain ⟨ms, hms, its, hits, rfl⟩ := h1
      obtain ⟨ms', hms', parts, hparts, p, hp, rfl⟩ := h2
      rw [hms] at hms'; cases hms'
      rw [nodesOf_guardRun] at hpos
      exact (range_relA body ih σ idx mm cm (pyRange ai bi si) its parts p hits hparts hp hpos).guard ms
  | @mapping id body pm mm' cm' cons _ ih =>
    intro σ mm cm items P h1 h2 hpos
    simp only [internal, ctx0, bind_ok] at h1
    obtain ⟨_, _, mmU, hmm, cmU, hcm, h1⟩ := h1
    simp only [denote, bind_ok] at h2
    obtain ⟨_, _, mmU', hmm', cmU', hcm', h2⟩ := h2
    rw [hmm] at hmm'; cases hmm'
    rw [hcm] at hcm'; cases hcm'
    rw [wrapSingle_nil _ _ _ rfl] at h1
    exact ih (.mapped σ pm) mmU cmU items P h1 h2 hpos
  | @timeReversal id body _ ih =>
    intro σ mm cm items P h1 h2 hpos
    simp only [internal, ctx0, bind_ok] at h1
    obtain ⟨its, hits, h1⟩ := h1
    simp only [denote, bind_ok, pure_ok] at h2
    obtain ⟨b, hb, rfl⟩ := h2
    have hposb : Loop.allPosList (nodesOf its) := by
      cases hp : toProgram its with
      | none =>
        unfold toProgram at hp
        simp only [rootLoop, applyItems_eq, List.nil_append, Loop.durationList] at hp
        by_cases he : (Loop.mk 1 none (measW its 0) (nodesOf its)).isEmpty
        · have hn : nodesOf its = [] := by simpa [Loop.isEmpty, Loop.wf, Loop.children] using he
          rw [hn]; exact allPosList_nil
        · simp [he] at hp
      | some root =>
        simp only [hp, pure_ok] at h1
        subst h1
        simp only [nodesOf] at hpos
        have hr : root.reverseInplace.allPosB = true := (allPosList_cons.mp hpos).1
        rw [reverse_allPosB] at hr
        unfold toProgram at hp
        simp only [rootLoop, applyItems_eq, List.nil_append, Loop.durationList] at hp
        by_cases he : (Loop.mk 1 none (measW its 0) (nodesOf its)).isEmpty
        · simp [he] at hp
        · simp only [he, Bool.false_eq_true, if_false, Option.some.injEq] at hp
          subst hp
          cases hcs : nodesOf its with
          | nil => exact allPosList_nil
          | cons c0 cs0 =>
            rw [hcs] at hr
            simp only [Loop.allPosB, Bool.and_eq_true] at hr
            exact hr.2
    have hrel := (ih σ mm cm its b hits hb hposb).reversed hposb
    cases hp : toProgram its with
    | none =>
      simp only [hp, pure_ok] at h1 hrel
      subst h1
      exact hrel
    | some root =>
      simp only [hp, pure_ok] at h1 hrel
      subst h1
      exact hrel

end QP.PT
