import QP.Model.C17
/-! Arithmetic of `required_increment_from`: the meaning of a stored `DepState` relative to the current
translation-time iterations and the run-time loop indices, and the correctness of the increment. -/
namespace QP.C17.Frag
open QP.C17

/-- translation-time iterations `cur` describe the run-time indices `env`:
`0` means index 0, the last index `L-1` means "some index ≥ 1" -/
def Compat : List Nat → List Nat → Prop
  | [], [] => True
  | c :: cs, e :: es => (c = 0 ↔ e = 0) ∧ Compat cs es
  | _, _ => False

/-- the run-time indices a stored `its` stands for: along the enclosing loops (`cur`/`env`) an equal
entry is the current index, a smaller one (0 against `L-1`) the previous index, a larger one the final
index of an already finished loop; beyond the enclosing loops the entries are final indices -/
def actual : List Nat → List Nat → List Nat → List Nat
  | i :: is, c :: cs, e :: es => (if i = c then e else if i < c then e - 1 else i) :: actual is cs es
  | is, _, _ => is

/-- a stored `its` is from this or the previous pass of every enclosing loop that is in its second pass -/
def Fresh : List Nat → List Nat → Prop
  | i :: is, c :: cs => (c ≠ 0 → i = 0 ∨ i = c) ∧ Fresh is cs
  | _, _ => True

/-- the register value a stored state stands for -/
def val (ds : DepState) (fs : List Rat) (cur env : List Nat) : Rat :=
  ds.base + dot fs (actual ds.its cur env)

theorem compat_length : ∀ {cur env : List Nat}, Compat cur env → cur.length = env.length
  | [], [], _ => rfl
  | [], _ :: _, h => by simp [Compat] at h
  | _ :: _, [], h => by simp [Compat] at h
  | _ :: cs, _ :: es, h => by simp [compat_length h.2]

theorem compat_snoc : ∀ {cur env : List Nat} {c e : Nat}, Compat cur env → (c = 0 ↔ e = 0) →
    Compat (cur ++ [c]) (env ++ [e])
  | [], [], _, _, _, h => by simp [Compat, h]
  | [], _ :: _, _, _, h, _ => by simp [Compat] at h
  | _ :: _, [], _, _, h, _ => by simp [Compat] at h
  | _ :: cs, _ :: es, _, _, h, h' => by
    simp only [List.cons_append, Compat]
    exact ⟨h.1, compat_snoc h.2 h'⟩

theorem reqIncGo_spec : ∀ (its cur : List Nat) (fs : List Rat) (env : List Nat) (acc : Rat),
    its.length = cur.length → cur.length = fs.length → Compat cur env → Fresh its cur →
    reqIncGo its cur fs acc = .ok (acc + dot fs env - dot fs (actual its cur env))
  | [], [], [], [], acc, _, _, _, _ => by simp only [reqIncGo, dot, actual]; congr 1; grind
  | [], [], [], _ :: _, _, _, _, hc, _ => by simp [Compat] at hc
  | [], [], _ :: _, _, _, _, h2, _, _ => by simp at h2
  | [], _ :: _, _, _, _, h1, _, _, _ => by simp at h1
  | _ :: _, [], _, _, _, h1, _, _, _ => by simp at h1
  | _ :: _, _ :: _, [], _, _, _, h2, _, _ => by simp at h2
  | _ :: _, _ :: _, _ :: _, [], _, _, _, hc, _ => by simp [Compat] at hc
  | o :: os, n :: ns, f :: fs, e :: es, acc, h1, h2, hc, hf => by
    have h1' : os.length = ns.length := by simpa using h1
    have h2' : ns.length = fs.length := by simpa using h2
    simp only [Compat] at hc
    simp only [Fresh] at hf
    simp only [reqIncGo, dot, actual]
    by_cases hon : o = n
    · simp only [hon, if_true]
      rw [reqIncGo_spec os ns fs es acc h1' h2' hc.2 hf.2]
      congr 1; grind
    · simp only [hon, if_false]
      by_cases hlt : o < n
      · have hn0 : n ≠ 0 := by omega
        have ho : o = 0 := by
          rcases hf.1 hn0 with h | h
          · exact h
          · exact absurd h hon
        have he : e ≠ 0 := fun h => hn0 (hc.1.mpr h)
        obtain ⟨k, rfl⟩ : ∃ k, e = k + 1 := ⟨e - 1, by omega⟩
        simp only [hlt, if_true, ho]
        rw [reqIncGo_spec os ns fs es (acc + f) h1' h2' hc.2 hf.2]
        congr 1
        have : ((k + 1 : Nat) : Rat) = (k : Rat) + 1 := by simp
        simp only [Nat.add_sub_cancel, this]
        grind
      · have hn0 : n = 0 := by
          by_cases h : n = 0
          · exact h
          · rcases hf.1 h with h' | h'
            · omega
            · exact absurd h' hon
        have he : e = 0 := hc.1.mp hn0
        simp only [hlt, if_false, hn0, if_true]
        rw [reqIncGo_spec os ns fs es (acc - f * (o : Rat)) h1' h2' hc.2 hf.2]
        congr 1
        subst he
        simp
        grind

/-- the increment the translator emits moves the register from the value its stored state stands
for to the value the hold needs -/
theorem reqInc_spec (b : Rat) (cur : List Nat) (ds : DepState) (fs : List Rat) (env : List Nat)
    (h1 : ds.its.length = cur.length) (h2 : cur.length = fs.length) (hc : Compat cur env) (hf : Fresh ds.its cur) :
    ∃ inc, reqInc ⟨b, cur⟩ ds fs = .ok inc ∧ val ds fs cur env + inc = b + dot fs env := by
  refine ⟨(b - ds.base) + dot fs env - dot fs (actual ds.its cur env), ?_, ?_⟩
  · simp only [reqInc]
    rw [if_neg (by simp [h1]), if_neg (by simp [h2])]
    exact reqIncGo_spec ds.its cur fs env (b - ds.base) h1 h2 hc hf
  · simp only [val]; grind

/-! ### transport of `actual` / `Fresh` along entering and leaving iterations -/

theorem actual_self_prefix : ∀ (cur env rel : List Nat), cur.length = env.length →
    actual (cur ++ rel) cur env = env ++ rel
  | [], [], rel, _ => by cases rel <;> simp [actual]
  | [], _ :: _, _, h => by simp at h
  | _ :: _, [], _, h => by simp at h
  | c :: cs, e :: es, rel, h => by
    simp only [List.cons_append, actual, if_true]
    rw [actual_self_prefix cs es rel (by simpa using h)]

theorem fresh_self_prefix : ∀ (cur rel : List Nat), Fresh (cur ++ rel) cur
  | [], rel => by cases rel <;> simp [Fresh]
  | c :: cs, rel => by
    simp [Fresh, fresh_self_prefix cs rel]

/-- entering the first pass of an iteration does not change what a stored state stands for -/
theorem actual_enter : ∀ (its cur env : List Nat), cur.length = env.length → cur.length < its.length →
    actual its (cur ++ [0]) (env ++ [0]) = actual its cur env
  | [], _, _, _, h => by simp at h
  | i :: is, [], [], _, _ => by
    simp only [List.nil_append, actual]
    by_cases h : i = 0
    · simp [h]
    · simp [h]
  | _ :: _, [], _ :: _, h, _ => by simp at h
  | _ :: _, _ :: _, [], h, _ => by simp at h
  | i :: is, c :: cs, e :: es, h1, h2 => by
    simp only [List.cons_append, actual]
    rw [actual_enter is cs es (by simpa using h1) (by simpa using h2)]

theorem fresh_enter : ∀ (its cur : List Nat), Fresh its cur → Fresh its (cur ++ [0])
  | [], _, _ => by simp [Fresh]
  | i :: is, [], _ => by simp [Fresh]
  | i :: is, c :: cs, h => by
    simp only [List.cons_append, Fresh] at *
    exact ⟨h.1, fresh_enter is cs h.2⟩

/-- a state stored in the previous pass (`0` at the position of the loop now at `L-1`) stands for
the previous index -/
theorem actual_pass2 : ∀ (cur env rel : List Nat) (l m : Nat), cur.length = env.length → l ≠ 0 →
    actual (cur ++ 0 :: rel) (cur ++ [l]) (env ++ [m + 1]) = env ++ m :: rel
  | [], [], rel, l, m, _, hl => by
    simp only [List.nil_append, actual]
    have : ¬ (0 = l) := fun h => hl h.symm
    simp only [this, if_false, Nat.pos_of_ne_zero hl, if_true, Nat.add_sub_cancel]
  | [], _ :: _, _, _, _, h, _ => by simp at h
  | _ :: _, [], _, _, _, h, _ => by simp at h
  | c :: cs, e :: es, rel, l, m, h, hl => by
    simp only [List.cons_append, actual, if_true]
    rw [actual_pass2 cs es rel l m (by simpa using h) hl]

theorem fresh_pass2 : ∀ (cur rel : List Nat) (l : Nat), Fresh (cur ++ 0 :: rel) (cur ++ [l])
  | [], rel, l => by
    cases rel <;> simp [Fresh]
  | c :: cs, rel, l => by
    simp [Fresh, fresh_pass2 cs rel l]

theorem dot_nil_right (fs : List Rat) : dot fs [] = 0 := by cases fs <;> simp [dot]

end QP.C17.Frag
