import QP.Model.C14
import Mathlib.Tactic.Linarith
/-!
# C14 — integer-level lemmas about one iteration of `_approximate_int`
-/
namespace QP.C14

/-- floor division by a positive divisor -/
theorem fdiv_pos_spec (n d : Int) (hd : 0 < d) :
    d * Int.fdiv n d ≤ n ∧ n < d * (Int.fdiv n d + 1) := by
  have h1 := Int.fmod_add_mul_fdiv n d
  have h2 := Int.fmod_nonneg_of_pos n hd
  have h3 := Int.fmod_lt_of_pos n hd
  constructor <;> linarith

/-- floor division by a negative divisor -/
theorem fdiv_neg_spec (n d : Int) (hd : d < 0) :
    n ≤ d * Int.fdiv n d ∧ d * (Int.fdiv n d + 1) < n := by
  have h := fdiv_pos_spec (-n) (-d) (by omega)
  rw [Int.neg_fdiv_neg] at h
  constructor <;> linarith


structure Good (lower upper den P Q : Int) : Prop where
  qpos : 0 < Q
  lo : lower * Q < den * P
  hi : den * P < upper * Q
  min : ∀ p q : Int, 0 < q → lower * q < den * p → den * p < upper * q → Q ≤ q

theorem finalL_aux (den pa qa pb qb lower upper k j : Int)
    (hden : 0 < den) (hqa : 0 < qa) (hqb : 0 < qb) (hdet : pb * qa - pa * qb = 1)
    (hlu : lower < upper) (ha : den * pa ≤ lower * qa)
    (hb : upper * qb ≤ den * pb ∨ (qb = 1 ∧ den * pa - upper * qa < den * pb - upper * qb))
    (hjlo : lower * (qb + j * qa) < den * (pb + j * pa))
    (hjhi : den * (pb + j * pa) < upper * (qb + j * qa))
    (hk1 : (upper * qa - den * pa) * (k - 1) ≤ den * pb - upper * qb)
    (hk2 : den * pb - upper * qb < (upper * qa - den * pa) * k) :
    Good lower upper den (pb + k * pa) (qb + k * qa) := by
  have hkDen : 0 < upper * qa - den * pa := by
    have := Int.mul_pos (Int.sub_pos.mpr hlu) hqa
    linarith
  -- k ≤ j
  have hkj : k ≤ j := by
    have : (upper * qa - den * pa) * (k - 1) < (upper * qa - den * pa) * j := by linarith
    have := Int.lt_of_mul_lt_mul_left this (Int.le_of_lt hkDen)
    omega
  -- 0 ≤ k
  have hk0 : 0 ≤ k ∧ (den * pb - upper * qb < 0 → k = 0 ∧ qb = 1) := by
    rcases lt_or_ge (den * pb - upper * qb) 0 with hneg | hpos
    · rcases hb with hb | ⟨hq, hb⟩
      · omega
      · have h3 : (upper * qa - den * pa) * (k - 1) < (upper * qa - den * pa) * 0 := by linarith
        have h4 := Int.lt_of_mul_lt_mul_left h3 (Int.le_of_lt hkDen)
        have h5 : (upper * qa - den * pa) * (-1) < (upper * qa - den * pa) * k := by linarith
        have h6 := Int.lt_of_mul_lt_mul_left h5 (Int.le_of_lt hkDen)
        exact ⟨by omega, fun _ => ⟨by omega, hq⟩⟩
    · have h5 : (upper * qa - den * pa) * 0 < (upper * qa - den * pa) * k := by linarith
      have h6 := Int.lt_of_mul_lt_mul_left h5 (Int.le_of_lt hkDen)
      exact ⟨by omega, fun h => by omega⟩
  refine ⟨?_, ?_, ?_, ?_⟩
  · have := Int.mul_nonneg hk0.1 (Int.le_of_lt hqa)
    linarith
  · have := Int.mul_nonneg (Int.sub_nonneg.mpr hkj) (Int.sub_nonneg.mpr ha)
    linarith
  · linarith
  · intro p q hq hlo hhi
    -- p/q > a
    have h1 : pa * q < p * qa := by
      have e1 := Int.mul_le_mul_of_nonneg_right ha (Int.le_of_lt hq)
      have e2 := Int.mul_lt_mul_of_pos_right hlo hqa
      have : den * (pa * q) < den * (p * qa) := by linarith
      exact Int.lt_of_mul_lt_mul_left this (Int.le_of_lt hden)
    rcases lt_or_ge (p * qb) (pb * q) with hlt | hge
    · -- Farey
      have hu : 0 < pb * q - qb * p := by linarith
      have hv : 0 < p * qa - q * pa := by linarith
      have hp : p = (pb * q - qb * p) * pa + (p * qa - q * pa) * pb := by
        have : p = p * (pb * qa - pa * qb) := by rw [hdet]; omega
        linarith
      have hqq : q = (pb * q - qb * p) * qa + (p * qa - q * pa) * qb := by
        have : q = q * (pb * qa - pa * qb) := by rw [hdet]; omega
        linarith
      generalize pb * q - qb * p = u at *
      generalize p * qa - q * pa = v at *
      subst hp hqq
      have hvu : v * (den * pb - upper * qb) < u * (upper * qa - den * pa) := by linarith
      rcases lt_or_ge u k with huk | huk
      · exfalso
        have e1 : (upper * qa - den * pa) * u ≤ (upper * qa - den * pa) * (k - 1) :=
          Int.mul_le_mul_of_nonneg_left (by omega) (Int.le_of_lt hkDen)
        rcases lt_or_ge (den * pb - upper * qb) 0 with hneg | hpos
        · have := (hk0.2 hneg).1
          omega
        · have := Int.mul_nonneg (show (0:Int) ≤ v - 1 by omega) hpos
          linarith
      · have e1 := Int.mul_nonneg (show (0:Int) ≤ u - k by omega) (Int.le_of_lt hqa)
        have e2 := Int.mul_nonneg (show (0:Int) ≤ v - 1 by omega) (Int.le_of_lt hqb)
        linarith
    · have e1 := Int.mul_le_mul_of_nonneg_left hge (Int.le_of_lt hden)
      have e2 := Int.mul_lt_mul_of_pos_right hhi hqb
      have hneg : den * pb - upper * qb < 0 := by
        rcases lt_or_ge (den * pb - upper * qb) 0 with hneg | hpos
        · exact hneg
        · have := Int.mul_nonneg hpos (Int.le_of_lt hq)
          linarith
      obtain ⟨hk, hq1⟩ := hk0.2 hneg
      subst hk hq1
      omega



/-- the returned mediant in a left-moving iteration (`bound = upper`) -/
theorem finalL (den pa qa pb qb lower upper j : Int)
    (hden : 0 < den) (hqa : 0 < qa) (hqb : 0 < qb) (hdet : pb * qa - pa * qb = 1)
    (hlu : lower < upper) (ha : den * pa ≤ lower * qa)
    (hb : upper * qb ≤ den * pb ∨ (qb = 1 ∧ den * pa - upper * qa < den * pb - upper * qb))
    (hjlo : lower * (qb + j * qa) < den * (pb + j * pa))
    (hjhi : den * (pb + j * pa) < upper * (qb + j * qa)) :
    Good lower upper den
      (pb + (Int.fdiv (den * pb - upper * qb) (upper * qa - den * pa) + 1) * pa)
      (qb + (Int.fdiv (den * pb - upper * qb) (upper * qa - den * pa) + 1) * qa) := by
  have hkDen : 0 < upper * qa - den * pa := by
    have := Int.mul_pos (Int.sub_pos.mpr hlu) hqa
    linarith
  obtain ⟨h1, h2⟩ := fdiv_pos_spec (den * pb - upper * qb) _ hkDen
  generalize Int.fdiv (den * pb - upper * qb) (upper * qa - den * pa) = f at *
  exact finalL_aux den pa qa pb qb lower upper (f + 1) j hden hqa hqb hdet hlu ha hb hjlo hjhi
    (by linarith) (by linarith)

/-- the returned mediant in a right-moving iteration (`bound = lower`): mirror image of `finalL` -/
theorem finalR (den pa qa pb qb lower upper j : Int)
    (hden : 0 < den) (hqa : 0 < qa) (hqb : 0 < qb) (hdet : pa * qb - pb * qa = 1)
    (hlu : lower < upper) (ha : upper * qa ≤ den * pa) (hb : den * pb ≤ lower * qb)
    (hjlo : lower * (qb + j * qa) < den * (pb + j * pa))
    (hjhi : den * (pb + j * pa) < upper * (qb + j * qa)) :
    Good lower upper den
      (pb + (Int.fdiv (den * pb - lower * qb) (lower * qa - den * pa) + 1) * pa)
      (qb + (Int.fdiv (den * pb - lower * qb) (lower * qa - den * pa) + 1) * qa) := by
  have hkDen : lower * qa - den * pa < 0 := by
    have := Int.mul_pos (Int.sub_pos.mpr hlu) hqa
    linarith
  obtain ⟨h1, h2⟩ := fdiv_neg_spec (den * pb - lower * qb) _ hkDen
  generalize Int.fdiv (den * pb - lower * qb) (lower * qa - den * pa) = f at *
  have g := finalL_aux den (-pa) qa (-pb) qb (-upper) (-lower) (f + 1) j hden hqa hqb
    (by linarith) (by linarith) (by linarith) (Or.inl (by linarith)) (by linarith) (by linarith)
    (by linarith) (by linarith)
  refine ⟨g.qpos, ?_, ?_, ?_⟩
  · have := g.hi; linarith
  · have := g.lo; linarith
  · intro p q hq hlo hhi
    exact g.min (-p) q hq (by linarith) (by linarith)


/-- loop invariant of `_approximate_int` -/
structure Inv (alpha lower upper den : Int) (s : St) : Prop where
  qa : 0 < s.qa
  qb : 0 < s.qb
  pfull : s.pfull = s.pb
  qfull : s.qfull = s.qb
  left : s.toLeft = true →
    s.pb * s.qa - s.pa * s.qb = 1 ∧ den * s.pa ≤ lower * s.qa ∧ alpha * s.qb < den * s.pb ∧
    (upper * s.qb ≤ den * s.pb ∨
      (s.qb = 1 ∧ den * s.pa - upper * s.qa < den * s.pb - upper * s.qb))
  right : s.toLeft = false →
    s.pa * s.qb - s.pb * s.qa = 1 ∧ upper * s.qa ≤ den * s.pa ∧ den * s.pb ≤ lower * s.qb

theorem step_left (alpha lower upper den pa qa pb qb : Int)
    (hden : 0 < den) (hl : lower < alpha) (hu : alpha < upper)
    (hqa : 0 < qa) (hqb : 0 < qb)
    (hdet : pb * qa - pa * qb = 1) (ha : den * pa ≤ lower * qa) (hba : alpha * qb < den * pb)
    (hb : upper * qb ≤ den * pb ∨ (qb = 1 ∧ den * pa - upper * qa < den * pb - upper * qb)) :
    (∃ s', step alpha lower upper den ⟨pa, qa, pb, qb, pb, qb, true⟩ = .ok (.inl s') ∧
        Inv alpha lower upper den s' ∧ qb < s'.qb) ∨
    (∃ P Q, step alpha lower upper den ⟨pa, qa, pb, qb, pb, qb, true⟩ = .ok (.inr (P, Q)) ∧
        Good lower upper den P Q) := by
  have hxDen : 0 < -den * pa + alpha * qa := by
    have := Int.mul_pos (Int.sub_pos.mpr hl) hqa
    linarith
  obtain ⟨hx1, hx2⟩ := fdiv_pos_spec (den * pb - alpha * qb + (-den * pa + alpha * qa) - 1) _ hxDen
  simp only [step]
  rw [if_neg (by omega)]
  generalize (den * pb - alpha * qb + (-den * pa + alpha * qa) - 1).fdiv (-den * pa + alpha * qa) = x at *
  simp only [if_true]
  have hx0 : 1 ≤ x := by
    have h : (-den * pa + alpha * qa) * 0 < (-den * pa + alpha * qa) * x := by linarith
    have := Int.lt_of_mul_lt_mul_left h (Int.le_of_lt hxDen)
    omega
  have hkDen : 0 < upper * qa - den * pa := by
    have := Int.mul_pos (Int.sub_pos.mpr hu) hqa
    linarith
  have hxqa := Int.mul_le_mul_of_nonneg_right hx0 (Int.le_of_lt hqa)
  split
  · rename_i hC
    right
    rw [if_neg (by omega)]
    refine ⟨_, _, rfl, ?_⟩
    rcases hC with ⟨h1, h2⟩ | ⟨h1, h2⟩
    · exact finalL den pa qa pb qb lower upper x hden hqa hqb hdet (by omega) ha hb
        (by linarith) (by linarith)
    · exact finalL den pa qa pb qb lower upper (x - 1) hden hqa hqb hdet (by omega) ha hb
        (by linarith) (by linarith)
  · rename_i hC
    left
    refine ⟨_, rfl, ?_, ?_⟩
    · have hC1 := not_and.mp (not_or.mp hC).1
      have hC2 := not_and.mp (not_or.mp hC).2
      constructor
      · show 0 < qb + x * qa - qa
        linarith
      · show 0 < qb + x * qa
        linarith
      · rfl
      · rfl
      · intro h; simp at h
      · intro _
        show (pb + x * pa - pa) * (qb + x * qa) - (pb + x * pa) * (qb + x * qa - qa) = 1 ∧
          upper * (qb + x * qa - qa) ≤ den * (pb + x * pa - pa) ∧
          den * (pb + x * pa) ≤ lower * (qb + x * qa)
        refine ⟨by linarith, ?_, ?_⟩
        · have h3 : (qb + x * qa - qa) * lower < (pb + x * pa - pa) * den := by
            have := Int.mul_pos (Int.sub_pos.mpr hl) (show 0 < qb + x * qa - qa by linarith)
            linarith
          have := hC2 h3
          linarith
        · have h3 : (pb + x * pa) * den < (qb + x * qa) * upper := by
            have := Int.mul_pos (Int.sub_pos.mpr hu) (show 0 < qb + x * qa by linarith)
            linarith
          have : ¬ (qb + x * qa) * lower < (pb + x * pa) * den := fun h => hC1 h h3
          linarith
    · show qb < qb + x * qa
      linarith

theorem step_right (alpha lower upper den pa qa pb qb : Int)
    (hden : 0 < den) (hl : lower < alpha) (hu : alpha < upper)
    (hqa : 0 < qa) (hqb : 0 < qb)
    (hdet : pa * qb - pb * qa = 1) (ha : upper * qa ≤ den * pa) (hb : den * pb ≤ lower * qb) :
    (∃ s', step alpha lower upper den ⟨pa, qa, pb, qb, pb, qb, false⟩ = .ok (.inl s') ∧
        Inv alpha lower upper den s' ∧ qb < s'.qb) ∨
    (∃ P Q, step alpha lower upper den ⟨pa, qa, pb, qb, pb, qb, false⟩ = .ok (.inr (P, Q)) ∧
        Good lower upper den P Q) := by
  have hxDen : -den * pa + alpha * qa < 0 := by
    have := Int.mul_pos (Int.sub_pos.mpr hu) hqa
    linarith
  have hxNum : den * pb - alpha * qb < 0 := by
    have := Int.mul_pos (Int.sub_pos.mpr hl) hqb
    linarith
  obtain ⟨hx1, hx2⟩ := fdiv_neg_spec (den * pb - alpha * qb + (-den * pa + alpha * qa) - 1) _ hxDen
  simp only [step]
  rw [if_neg (by omega)]
  generalize (den * pb - alpha * qb + (-den * pa + alpha * qa) - 1).fdiv (-den * pa + alpha * qa) = x at *
  simp only [Bool.false_eq_true, if_false]
  have hx0 : 1 ≤ x := by
    have h : (den * pa - alpha * qa) * 1 < (den * pa - alpha * qa) * (x + 1) := by linarith
    have := Int.lt_of_mul_lt_mul_left h (by linarith)
    omega
  have hkDen : lower * qa - den * pa < 0 := by
    have := Int.mul_pos (Int.sub_pos.mpr hl) hqa
    linarith
  have hxqa := Int.mul_le_mul_of_nonneg_right hx0 (Int.le_of_lt hqa)
  split
  · rename_i hC
    right
    rw [if_neg (by omega)]
    refine ⟨_, _, rfl, ?_⟩
    rcases hC with ⟨h1, h2⟩ | ⟨h1, h2⟩
    · exact finalR den pa qa pb qb lower upper x hden hqa hqb hdet (by omega) ha hb
        (by linarith) (by linarith)
    · exact finalR den pa qa pb qb lower upper (x - 1) hden hqa hqb hdet (by omega) ha hb
        (by linarith) (by linarith)
  · rename_i hC
    left
    refine ⟨_, rfl, ?_, ?_⟩
    · have hC1 := not_and.mp (not_or.mp hC).1
      have hC2 := not_and.mp (not_or.mp hC).2
      have hqprev : 0 < qb + x * qa - qa := by linarith
      -- the previous mediant lies strictly below alpha
      have hV : den * (pb + x * pa - pa) - alpha * (qb + x * qa - qa) < 0 := by
        rcases lt_or_ge (den * (pb + x * pa - pa) - alpha * (qb + x * qa - qa)) 0 with h | h
        · exact h
        · exfalso
          have hlo : (qb + x * qa - qa) * lower < (pb + x * pa - pa) * den := by
            have := Int.mul_pos (Int.sub_pos.mpr hl) hqprev
            linarith
          apply hC2 hlo
          rcases lt_or_ge 0 (den * (pb + x * pa - pa) - alpha * (qb + x * qa - qa)) with h1 | h0
          · -- the value is exactly 1, hence `x ≥ 2` and the denominator is at least 2
            have hx2' : 2 ≤ x := by
              rcases lt_or_ge x 2 with hlt | hge
              · have : x = 1 := by omega
                subst this
                linarith
              · exact hge
            have e1 := Int.mul_le_mul_of_nonneg_right (show (1:Int) ≤ x - 1 by omega) (Int.le_of_lt hqa)
            have e2 := Int.mul_le_mul_of_nonneg_right (show (1:Int) ≤ upper - alpha by omega)
              (Int.le_of_lt hqprev)
            linarith
          · have := Int.mul_pos (Int.sub_pos.mpr hu) hqprev
            linarith
      constructor
      · show 0 < qb + x * qa - qa
        linarith
      · show 0 < qb + x * qa
        linarith
      · rfl
      · rfl
      · intro _
        show (pb + x * pa) * (qb + x * qa - qa) - (pb + x * pa - pa) * (qb + x * qa) = 1 ∧
          den * (pb + x * pa - pa) ≤ lower * (qb + x * qa - qa) ∧
          alpha * (qb + x * qa) < den * (pb + x * pa) ∧
          (upper * (qb + x * qa) ≤ den * (pb + x * pa) ∨ _)
        refine ⟨by linarith, ?_, by linarith, Or.inl ?_⟩
        · have h3 : (pb + x * pa - pa) * den < (qb + x * qa - qa) * upper := by
            have := Int.mul_pos (Int.sub_pos.mpr hu) hqprev
            linarith
          have : ¬ (qb + x * qa - qa) * lower < (pb + x * pa - pa) * den := fun h => hC2 h h3
          linarith
        · have h3 : (qb + x * qa) * lower < (pb + x * pa) * den := by
            have := Int.mul_pos (Int.sub_pos.mpr hl) (show 0 < qb + x * qa by linarith)
            linarith
          have := hC1 h3
          linarith
      · intro h; simp at h
    · show qb < qb + x * qa
      linarith

theorem step_spec (alpha lower upper den : Int) (s : St)
    (hden : 0 < den) (hl : lower < alpha) (hu : alpha < upper)
    (hinv : Inv alpha lower upper den s) :
    (∃ s', step alpha lower upper den s = .ok (.inl s') ∧
        Inv alpha lower upper den s' ∧ s.qb < s'.qb) ∨
    (∃ P Q, step alpha lower upper den s = .ok (.inr (P, Q)) ∧ Good lower upper den P Q) := by
  obtain ⟨pa, qa, pb, qb, pfull, qfull, tl⟩ := s
  obtain ⟨hqa, hqb, hpf, hqf, hL, hR⟩ := hinv
  simp only at hqa hqb hpf hqf hL hR
  subst pfull qfull
  cases tl
  · obtain ⟨h1, h2, h3⟩ := hR rfl
    exact step_right alpha lower upper den pa qa pb qb hden hl hu hqa hqb h1 h2 h3
  · obtain ⟨h1, h2, h3, h4⟩ := hL rfl
    exact step_left alpha lower upper den pa qa pb qb hden hl hu hqa hqb h1 h2 h3 h4

/-- in every state satisfying the invariant, `q_b` is below the common denominator -/
theorem Inv.qb_lt (alpha lower upper den : Int) (s : St)
    (hl : lower < alpha) (hu : alpha < upper)
    (hinv : Inv alpha lower upper den s) : s.qb < den := by
  obtain ⟨pa, qa, pb, qb, pfull, qfull, tl⟩ := s
  obtain ⟨hqa, hqb, hpf, hqf, hL, hR⟩ := hinv
  simp only at hqa hqb hpf hqf hL hR
  show qb < den
  cases tl
  · obtain ⟨h1, h2, h3⟩ := hR rfl
    have hA : 1 ≤ den * pa - alpha * qa := by
      have := Int.mul_pos (Int.sub_pos.mpr hu) hqa
      linarith
    have hB : 1 ≤ alpha * qb - den * pb := by
      have := Int.mul_pos (Int.sub_pos.mpr hl) hqb
      linarith
    have e1 := Int.mul_le_mul_of_nonneg_right hA (Int.le_of_lt hqb)
    have e2 := Int.mul_le_mul_of_nonneg_right hB (Int.le_of_lt hqa)
    have e3 : (den * pa - alpha * qa) * qb + (alpha * qb - den * pb) * qa
        = den * (pa * qb - pb * qa) := by linarith
    rw [h1] at e3
    linarith
  · obtain ⟨h1, h2, h3, h4⟩ := hL rfl
    have hA : 1 ≤ alpha * qa - den * pa := by
      have := Int.mul_pos (Int.sub_pos.mpr hl) hqa
      linarith
    have hB : 1 ≤ den * pb - alpha * qb := by linarith
    have e1 := Int.mul_le_mul_of_nonneg_right hA (Int.le_of_lt hqb)
    have e2 := Int.mul_le_mul_of_nonneg_right hB (Int.le_of_lt hqa)
    have e3 : (alpha * qa - den * pa) * qb + (den * pb - alpha * qb) * qa
        = den * (pb * qa - pa * qb) := by linarith
    rw [h1] at e3
    linarith

/-- the loop returns (no error, fuel suffices) and what it returns is the best approximation -/
theorem approxLoop_spec (alpha lower upper den : Int)
    (hden : 0 < den) (hl : lower < alpha) (hu : alpha < upper) :
    ∀ (n : Nat) (s : St), Inv alpha lower upper den s → den ≤ n + s.qb →
      ∃ P Q, approxLoop alpha lower upper den n s = .ok (P, Q) ∧ Good lower upper den P Q := by
  intro n
  induction n with
  | zero =>
    intro s hinv hfuel
    have := Inv.qb_lt alpha lower upper den s hl hu hinv
    omega
  | succ n ih =>
    intro s hinv hfuel
    simp only [approxLoop]
    rcases step_spec alpha lower upper den s hden hl hu hinv with ⟨s', hs, hinv', hlt⟩ | ⟨P, Q, hs, hg⟩
    · rw [hs]
      exact ih s' hinv' (by omega)
    · rw [hs]
      exact ⟨P, Q, rfl, hg⟩

theorem Inv.init (alpha lower upper den : Int) (hden : 0 < den) (hlo : 0 ≤ lower)
    (had : alpha < den) : Inv alpha lower upper den St.init := by
  constructor
  · show (0:Int) < 1
    omega
  · show (0:Int) < 1
    omega
  · rfl
  · rfl
  · intro _
    show (1:Int) * 1 - 0 * 1 = 1 ∧ den * 0 ≤ lower * 1 ∧ alpha * 1 < den * 1 ∧
      (upper * 1 ≤ den * 1 ∨ ((1:Int) = 1 ∧ den * 0 - upper * 1 < den * 1 - upper * 1))
    refine ⟨by omega, by omega, by omega, Or.inr ⟨rfl, by omega⟩⟩
  · intro h
    simp [St.init] at h

/-- `_approximate_int` under the guard established by `approximate_rational` -/
theorem approxInt_spec (alpha d den : Int) (hd : 0 < d) (hda : d ≤ alpha) (had : alpha < den) :
    ∃ P Q, approxInt (fuelFor den) alpha d den = .ok (P, Q) ∧
      Good (alpha - d) (alpha + d) den P Q := by
  have hden : 0 < den := by omega
  apply approxLoop_spec alpha (alpha - d) (alpha + d) den hden (by omega) (by omega)
  · exact Inv.init alpha _ _ den hden (by omega) had
  · show den ≤ ((fuelFor den : Nat) : Int) + 1
    unfold fuelFor
    omega

end QP.C14
