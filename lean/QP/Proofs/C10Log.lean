import QP.Proofs.C10Order
/-! C10: the sequence of `put`s of a whole session is children first. -/
namespace QP.C10
set_option linter.unusedSimpArgs false
set_option linter.unusedVariables false

theorem cf_weaken {base base' : Id → Prop} : ∀ (l : List (Id × J)) (seen seen' : List Id),
    (∀ r, base r → base' r ∨ r ∈ seen') → (∀ k ∈ seen, k ∈ seen') → CF base seen l → CF base' seen' l
  | [], _, _, _, _, _ => trivial
  | e :: l, seen, seen', hb, hs, h => by
    refine ⟨fun r hr => ?_, ?_⟩
    · rcases h.1 r hr with h' | h'
      · exact hb r h'
      · exact Or.inr (hs r h')
    · apply cf_weaken l _ _ _ _ h.2
      · intro r hr
        rcases hb r hr with h' | h'
        · exact Or.inl h'
        · exact Or.inr (List.mem_append_left _ h')
      · intro k hk
        rcases List.mem_append.mp hk with hk | hk
        · exact List.mem_append_left _ (hs k hk)
        · exact List.mem_append_right _ hk

/-- every identifier the storage knows was written earlier in the session -/
def HasLog (st : St) (L : List (Id × J)) : Prop := ∀ r, st.has r = true → r ∈ L.map Prod.fst

theorem commit_has (st : St) (txn : Txn) (hn : (txn.map Prod.fst).Nodup) (r : Id)
    (h : (commit st txn).has r = true) : hasKey r txn = true ∨ st.has r = true := by
  simp only [St.has, Bool.or_eq_true] at h ⊢
  cases hl : lookup r txn with
  | some v => exact Or.inl ((hasKey_true_iff _ _).mpr ⟨v, hl⟩)
  | none =>
    right
    rcases h with h | h
    · left
      simp only [hasKey, commit_temp st txn hn r, hl, Option.elim] at h
      exact h
    · right
      simp only [hasKey, commit_backend st txn hn r, hl, Option.elim] at h
      exact h

/-- the two possible outcomes of `storage[i] = t` for a root of a forest with unique identifiers -/
theorem setitem_eq {F : List T} (hu : UniqueIds F) {st : St} (hinv : Inv F st) {t : T} (ht : t ∈ F)
    {i : Id} (hid : t.id = some i) :
    (lookup i st.temp = some t ∧ setitem st i t = .ok (st, [])) ∨
    (lookup i st.temp = none ∧
      setitem st i t = .ok (commit st ((pendRoot st t).foldl ins []), docsOf ((pendRoot st t).foldl ins []))) := by
  have htU : t ∈ Univ F := mem_univ_of_root ht (self_mem_subterms t)
  unfold setitem
  simp only [hid, ne_eq, not_true_eq_false, if_false]
  cases hl : lookup i st.temp with
  | some o =>
    have := hinv.temp_in i o hl
    have hot : o = t := uniq hu this.1 htU this.2 hid
    subst hot
    left; simp only [if_true]; exact ⟨trivial, rfl⟩
  | none =>
    right
    have hb : hasKey i st.backend = false := by
      simp only [hasKey, hinv.backend_eq i, hl]; rfl
    simp only [hb, Bool.false_eq_true, if_false]
    have hsubU : ∀ c ∈ subterms t, c ∈ Univ F := fun c hc => mem_univ_of_root ht hc
    rw [overwrite_spec hu st i t hid (hinv.compat hu hsubU) hsubU]
    exact ⟨trivial, rfl⟩

theorem pendRoot_sub (st : St) (t : T) : ∀ n ∈ pendRoot st t, n ∈ subterms t := by
  intro n hn
  simp only [pendRoot, List.mem_append, List.mem_singleton] at hn
  rcases hn with h | h
  · cases t with
    | node cls id items =>
      rw [subterms_node]; exact List.mem_append_left _ (pendItems_sub st items n h).1
  · subst h; exact self_mem_subterms _

theorem storeAll_cf {F : List T} (hu : UniqueIds F) (hwf : ∀ c ∈ Univ F, c.wf = true) :
    ∀ (ts : List T) (st : St) (base : List (Id × J)), Inv F st → (∀ r ∈ ts, r ∈ F ∧ r.named = true) →
    HasLog st base → CF (fun _ => False) [] base →
    ∀ st' log, storeAll st ts = .ok (st', log) →
      CF (fun _ => False) [] (base ++ log) ∧ HasLog st' (base ++ log)
  | [], st, base, _, _, hlog, hcf, st', log, h => by
    simp only [storeAll, pure, Except.pure, Except.ok.injEq, Prod.mk.injEq] at h
    rw [← h.1, ← h.2, List.append_nil]; exact ⟨hcf, hlog⟩
  | t :: ts, st, base, hinv, hts, hlog, hcf, st', log, h => by
    have ht := hts t List.mem_cons_self
    obtain ⟨i, hi⟩ : ∃ i, t.id = some i := by
      have := ht.2; simp only [T.named] at this
      exact Option.isSome_iff_exists.mp this
    obtain ⟨st1, log1, h1, hinv1, _, _⟩ := setitem_inv hu hinv ht.1 hi
    simp only [storeAll, hi, h1, bind, Except.bind] at h
    cases h2 : storeAll st1 ts with
    | error e => simp [h2] at h
    | ok v =>
      obtain ⟨st2, log2⟩ := v
      simp only [h2, pure, Except.pure, Except.ok.injEq, Prod.mk.injEq] at h
      have hstep : CF (fun _ => False) [] (base ++ log1) ∧ HasLog st1 (base ++ log1) := by
        rcases setitem_eq hu hinv ht.1 hi with ⟨_, he⟩ | ⟨_, he⟩
        · rw [he] at h1
          simp only [Except.ok.injEq, Prod.mk.injEq] at h1
          rw [← h1.1, ← h1.2, List.append_nil]; exact ⟨hcf, hlog⟩
        · rw [he] at h1
          simp only [Except.ok.injEq, Prod.mk.injEq] at h1
          have hsubU : ∀ c ∈ subterms t, c ∈ Univ F := fun c hc => mem_univ_of_root ht.1 hc
          have hcompat := hinv.compat hu hsubU
          have hnodup : (((pendRoot st t).foldl ins []).map Prod.fst).Nodup := fold_ins_nodup _ [] (by simp)
          have hcf' := fold_ins_cf hu st (pendRoot st t) [] [] (ord_pendRoot st hinv.closed t hcompat)
            (fun k hk => by simp at hk) (fun j d m hl => by simp at hl)
            (fun n hn => ⟨hsubU n (pendRoot_sub st t n hn), hwf n (hsubU n (pendRoot_sub st t n hn))⟩) trivial
          rw [← h1.1, ← h1.2]
          refine ⟨?_, ?_⟩
          · rw [cf_append]
            refine ⟨hcf, ?_⟩
            apply cf_weaken _ [] _ _ _ hcf'
            · intro r hr; exact Or.inr (by simpa using hlog r hr)
            · intro k hk; simp at hk
          · intro r hr
            rcases commit_has st _ hnodup r hr with h' | h'
            · simp only [List.map_append, List.mem_append, docsOf_keys]
              exact Or.inr ((hasKey_iff r _).mp h')
            · simp only [List.map_append, List.mem_append]
              exact Or.inl (hlog r h')
      have := storeAll_cf hu hwf ts st1 (base ++ log1) hinv1
        (fun r hr => hts r (List.mem_cons_of_mem _ hr)) hstep.2 hstep.1 st2 log2 h2
      rw [← h.1, ← h.2, ← List.append_assoc]
      exact this

end QP.C10
