import QP.Model.C17
/-! Helper lemmas for `QP.Props.C17.scaling`: running amplitude/offset-scaled commands is the affine image
of running the original commands (a lock-step simulation of the two VM runs). -/
namespace QP.C17.Scale
open QP.C17

/-- the simulation relation between the VM on the original and on the scaled commands -/
structure Rel (A O : List Rat) (vm vm' : VM) : Prop where
  time : vm'.time = vm.time
  cur : vm'.cur = affineVals A O 0 vm.cur
  hist : vm'.hist = affineHist A O vm.hist
  regs : ∀ ch key, vm'.regs ch key = (vm.regs ch key).map (affineVal A O ch)

theorem affineVals_length (A O : List Rat) (i : Nat) (l : List (Option Rat)) :
    (affineVals A O i l).length = l.length := by
  induction l generalizing i with
  | nil => rfl
  | cons v vs ih => simp [affineVals, ih]

theorem affineVals_set (A O : List Rat) (i ch : Nat) (l : List (Option Rat)) (v : Option Rat) :
    affineVals A O i (l.set ch v) = (affineVals A O i l).set ch (v.map (affineVal A O (i + ch))) := by
  induction l generalizing i ch with
  | nil => simp [affineVals]
  | cons x xs ih =>
    cases ch with
    | zero => simp [affineVals]
    | succ c =>
      simp only [List.set_cons_succ, affineVals]
      rw [ih (i + 1) c]
      have : i + 1 + c = i + (c + 1) := by omega
      rw [this]

theorem rel_init (A O : List Rat) (nch : Nat) : Rel A O (VM.init nch) (VM.init nch) := by
  refine ⟨rfl, ?_, rfl, fun _ _ => rfl⟩
  simp only [VM.init]
  generalize (0 : Nat) = i
  induction nch generalizing i with
  | zero => rfl
  | succ n ih => simp [List.replicate_succ, affineVals, ← ih]

theorem scale_length {A O : List Rat} {cmds cmds' : List Cmd} (h : scale A O cmds = .ok cmds') :
    cmds'.length = cmds.length := by
  induction cmds generalizing cmds' with
  | nil => simp [scale] at h; subst h; rfl
  | cons c cs ih =>
    simp only [scale] at h
    split at h
    · cases h
    · split at h
      · cases h
      · rename_i c' _ cs' hcs
        cases h
        simp [ih hcs]

theorem scale_getElem? {A O : List Rat} {cmds cmds' : List Cmd} (h : scale A O cmds = .ok cmds') (pc : Nat) :
    (cmds[pc]? = none ∧ cmds'[pc]? = none) ∨
    (∃ c c', cmds[pc]? = some c ∧ cmds'[pc]? = some c' ∧ scaleCmd A O c = .ok c') := by
  induction cmds generalizing cmds' pc with
  | nil => simp [scale] at h; subst h; left; simp
  | cons c cs ih =>
    simp only [scale] at h
    split at h
    · cases h
    · rename_i c' hc
      split at h
      · cases h
      · rename_i cs' hcs
        cases h
        cases pc with
        | zero => right; exact ⟨c, c', by simp, by simp, hc⟩
        | succ p => simpa using ih hcs p

theorem scale_buildTargets {A O : List Rat} {cmds cmds' : List Cmd} (h : scale A O cmds = .ok cmds')
    (pos : Nat) (tg : Nat → Option Nat) : buildTargets cmds' pos tg = buildTargets cmds pos tg := by
  induction cmds generalizing cmds' pos tg with
  | nil => simp [scale] at h; subst h; rfl
  | cons c cs ih =>
    simp only [scale] at h
    split at h
    · cases h
    · rename_i c' hc
      split at h
      · cases h
      · rename_i cs' hcs
        cases h
        cases c with
        | label i n =>
          simp only [scaleCmd] at hc; cases hc
          simp only [buildTargets]
          split
          · rfl
          · exact ih hcs _ _
        | jmp i => simp only [scaleCmd] at hc; cases hc; simp only [buildTargets]; exact ih hcs _ _
        | wait d => simp only [scaleCmd] at hc; cases hc; simp only [buildTargets]; exact ih hcs _ _
        | set ch v k =>
          simp only [scaleCmd] at hc
          split at hc
          · split at hc
            · cases hc
            · cases hc; simp only [buildTargets]; exact ih hcs _ _
          · cases hc
        | inc ch v k =>
          simp only [scaleCmd] at hc
          split at hc
          · split at hc
            · cases hc
            · cases hc; simp only [buildTargets]; exact ih hcs _ _
          · cases hc

/-- one data step: related states stay related, errors coincide -/
theorem changeState_rel {A O : List Rat} {c c' : Cmd} (hc : scaleCmd A O c = .ok c') {vm vm' : VM}
    (hr : Rel A O vm vm') :
    (∃ e, changeState c vm = .error e ∧ changeState c' vm' = .error e) ∨
    (∃ w w', changeState c vm = .ok w ∧ changeState c' vm' = .ok w' ∧ Rel A O w w') := by
  have hlen : vm'.cur.length = vm.cur.length := by rw [hr.cur, affineVals_length]
  cases c with
  | label i n => simp only [scaleCmd] at hc; cases hc; left; exact ⟨_, rfl, rfl⟩
  | jmp i => simp only [scaleCmd] at hc; cases hc; left; exact ⟨_, rfl, rfl⟩
  | wait d =>
    simp only [scaleCmd] at hc; cases hc
    right
    refine ⟨_, _, rfl, rfl, ?_⟩
    refine ⟨by simp [hr.time], hr.cur, ?_, hr.regs⟩
    simp [affineHist, hr.hist, hr.time, hr.cur]
  | set ch v k =>
    simp only [scaleCmd] at hc
    split at hc
    · rename_i a o ha ho
      split at hc
      · cases hc
      · cases hc
        simp only [changeState, hlen]
        by_cases hch : ch < vm.cur.length
        · right
          simp only [hch, if_true]
          refine ⟨_, _, rfl, rfl, ?_⟩
          refine ⟨hr.time, ?_, hr.hist, ?_⟩
          · simp only [hr.cur, affineVals_set, Nat.zero_add, Option.map_some, affineVal, ha, ho, Option.getD_some]
          · intro ch' key
            simp only [upd2]
            split
            · rename_i h; obtain ⟨rfl, rfl⟩ := h
              simp [affineVal, ha, ho]
            · exact hr.regs ch' key
        · left; simp only [hch, if_false]; exact ⟨_, rfl, rfl⟩
    · cases hc
  | inc ch v k =>
    simp only [scaleCmd] at hc
    split at hc
    · rename_i a o ha ho
      split at hc
      · cases hc
      · cases hc
        simp only [changeState, hlen]
        by_cases hch : ch < vm.cur.length
        · simp only [hch, if_true]
          have hreg := hr.regs ch k
          cases hx : vm.regs ch k with
          | none =>
            left
            rw [hx] at hreg
            simp only [Option.map_none] at hreg
            rw [hreg]
            exact ⟨_, rfl, rfl⟩
          | some x =>
            right
            rw [hx] at hreg
            simp only [Option.map_some] at hreg
            rw [hreg]
            refine ⟨_, _, rfl, rfl, ?_⟩
            have harith : affineVal A O ch x + v / a = affineVal A O ch (x + v) := by
              simp only [affineVal, ha, ho, Option.getD_some]; grind
            refine ⟨hr.time, ?_, hr.hist, ?_⟩
            · simp only [hr.cur, affineVals_set, Nat.zero_add, Option.map_some, harith]
            · intro ch' key
              simp only [upd2]
              split
              · rename_i h; obtain ⟨rfl, rfl⟩ := h
                simp [harith]
              · exact hr.regs ch' key
        · left; simp only [hch, if_false]; exact ⟨_, rfl, rfl⟩
    · cases hc

/-- the two VM loops run in lock step -/
theorem runLoop_rel {A O : List Rat} {cmds cmds' : List Cmd} (h : scale A O cmds = .ok cmds')
    (tg : Nat → Option Nat) (fuel : Nat) :
    ∀ (pc : Nat) (counts : Nat → Option Int) (vm vm' : VM), Rel A O vm vm' →
      (∃ e, runLoop cmds tg fuel pc counts vm = .error e ∧ runLoop cmds' tg fuel pc counts vm' = .error e) ∨
      (∃ w w', runLoop cmds tg fuel pc counts vm = .ok w ∧ runLoop cmds' tg fuel pc counts vm' = .ok w' ∧
        Rel A O w w') := by
  induction fuel with
  | zero =>
    intro pc counts vm vm' hr
    simp only [runLoop, scale_length h]
    split
    · left; exact ⟨_, rfl, rfl⟩
    · right; exact ⟨_, _, rfl, rfl, hr⟩
  | succ n ih =>
    intro pc counts vm vm' hr
    rcases scale_getElem? h pc with ⟨h1, h2⟩ | ⟨c, c', h1, h2, hc⟩
    · right; simp only [runLoop, h1, h2]; exact ⟨_, _, rfl, rfl, hr⟩
    · cases c with
      | jmp i =>
        simp only [scaleCmd] at hc; cases hc
        simp only [runLoop, h1, h2]
        cases counts i with
        | none => left; exact ⟨_, rfl, rfl⟩
        | some cnt =>
          simp only
          split
          · cases tg i with
            | none => left; exact ⟨_, rfl, rfl⟩
            | some t => exact ih _ _ _ _ hr
          · exact ih _ _ _ _ hr
      | label i cnt =>
        simp only [scaleCmd] at hc; cases hc
        simp only [runLoop, h1, h2]
        exact ih _ _ _ _ hr
      | wait d =>
        have hcs := changeState_rel hc hr
        simp only [scaleCmd] at hc; cases hc
        simp only [runLoop, h1, h2]
        rcases hcs with ⟨e, e1, e2⟩ | ⟨w, w', e1, e2, hr'⟩
        · left; rw [e1, e2]; exact ⟨_, rfl, rfl⟩
        · rw [e1, e2]; exact ih _ _ _ _ hr'
      | set ch v k =>
        have hcs := changeState_rel hc hr
        have hc' : ∃ v', c' = .set ch v' k := by
          simp only [scaleCmd] at hc
          split at hc
          · split at hc
            · cases hc
            · cases hc; exact ⟨_, rfl⟩
          · cases hc
        obtain ⟨v', rfl⟩ := hc'
        simp only [runLoop, h1, h2]
        rcases hcs with ⟨e, e1, e2⟩ | ⟨w, w', e1, e2, hr'⟩
        · left; rw [e1, e2]; exact ⟨_, rfl, rfl⟩
        · rw [e1, e2]; exact ih _ _ _ _ hr'
      | inc ch v k =>
        have hcs := changeState_rel hc hr
        have hc' : ∃ v', c' = .inc ch v' k := by
          simp only [scaleCmd] at hc
          split at hc
          · split at hc
            · cases hc
            · cases hc; exact ⟨_, rfl⟩
          · cases hc
        obtain ⟨v', rfl⟩ := hc'
        simp only [runLoop, h1, h2]
        rcases hcs with ⟨e, e1, e2⟩ | ⟨w, w', e1, e2, hr'⟩
        · left; rw [e1, e2]; exact ⟨_, rfl, rfl⟩
        · rw [e1, e2]; exact ih _ _ _ _ hr'

end QP.C17.Scale
