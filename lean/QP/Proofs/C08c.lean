import QP.Proofs.C08b
/-! Helper lemmas for C08: flattening constructors (`from_sequence`, `from_parallel`). -/
namespace QP.C08
open Wf

/-! ### sequences -/

theorem durSum_append : ∀ (xs ys : List Wf), durSum (xs ++ ys) = durSum xs + durSum ys := by
  intro xs
  induction xs with
  | nil => intro ys; simp only [List.nil_append, durSum]; grind
  | cons x xs' ih => intro ys; simp only [List.cons_append, durSum, ih]; grind

theorem sampleSeq_append_left : ∀ (xs ys : List Wf) (k : Chan) (t : Rat), ys ≠ [] →
    (∀ x ∈ xs, 0 ≤ duration x) → 0 ≤ t → t < durSum xs →
    sampleSeq (xs ++ ys) k t = sampleSeq xs k t := by
  intro xs
  induction xs with
  | nil => intro ys k t _ _ h0 hlt; simp only [durSum] at hlt; exact absurd h0 (Rat.not_le.mpr hlt)
  | cons x xs' ih =>
    intro ys k t hy hd h0 hlt
    cases xs' with
    | nil =>
      simp only [durSum] at hlt
      have hlt' : t < duration x := by grind
      cases ys with
      | nil => exact absurd rfl hy
      | cons y ys' =>
        simp [sampleSeq, h0, hlt', Rat.le_of_lt hlt']
    | cons x' xs'' =>
      simp only [List.cons_append, sampleSeq]
      by_cases hx : t < duration x
      · simp [h0, hx]
      · simp only [hx, and_false, if_false]
        have hge : duration x ≤ t := Rat.not_lt.mp hx
        have := ih ys k (t - duration x) hy (fun z hz => hd z (by simp [hz])) (by grind)
          (by simp only [durSum] at hlt ⊢; grind)
        simpa using this

theorem sampleSeq_append_right : ∀ (xs ys : List Wf) (k : Chan) (t : Rat), ys ≠ [] →
    (∀ x ∈ xs, 0 ≤ duration x) → durSum xs ≤ t →
    sampleSeq (xs ++ ys) k t = sampleSeq ys k (t - durSum xs) := by
  intro xs
  induction xs with
  | nil =>
    intro ys k t _ _ _
    simp only [List.nil_append, durSum]
    congr 1
    grind
  | cons x xs' ih =>
    intro ys k t hy hd hge
    have hdx : 0 ≤ duration x := hd x (by simp)
    have hds : 0 ≤ durSum xs' := durSum_nonneg (fun z hz => hd z (by simp [hz]))
    simp only [durSum] at hge
    have hx : ¬ t < duration x := by
      intro h; grind
    have hrest := ih ys k (t - duration x) hy (fun z hz => hd z (by simp [hz])) (by grind)
    cases hc : xs' ++ ys with
    | nil =>
      have : ys = [] := by
        cases xs' <;> simp_all
      exact absurd this hy
    | cons z zs =>
      simp only [List.cons_append, hc, sampleSeq, hx, and_false, if_false]
      rw [hc] at hrest
      rw [hrest]
      congr 1
      simp only [durSum]; grind

/-- the pieces `from_sequence` puts in place of `w` -/
def pieces : Wf → List Wf
  | .seq xs => xs
  | w => [w]

theorem flattenSeq_cons (w : Wf) (rest : List Wf) : flattenSeq (w :: rest) = pieces w ++ flattenSeq rest := by
  simp only [flattenSeq, List.flatMap_cons]
  cases w <;> rfl

theorem pieces_durSum (w : Wf) : durSum (pieces w) = duration w := by
  cases w <;> simp only [pieces, durSum, duration] <;> grind

theorem pieces_ne (w : Wf) (hw : wf w = true) : pieces w ≠ [] := by
  cases w <;> simp [pieces]
  case seq xs =>
    intro h; subst h; simp [wf] at hw

theorem pieces_wf (w : Wf) (hw : wf w = true) : ∀ x ∈ pieces w, wf x = true := by
  cases w <;> simp [pieces]
  all_goals try exact hw
  case seq xs =>
    simp [wf] at hw
    exact wfL_mem hw.1.2

theorem pieces_sample (w : Wf) (hw : wf w = true) (k : Chan) (t : Rat) (h0 : 0 ≤ t) (hle : t ≤ duration w) :
    sampleSeq (pieces w) k t = sample w k t := by
  cases w <;> simp [pieces, sampleSeq, h0, hle, sample]

theorem flattenSeq_durSum : ∀ (ws : List Wf), durSum (flattenSeq ws) = durSum ws := by
  intro ws
  induction ws with
  | nil => simp [flattenSeq]
  | cons w rest ih => rw [flattenSeq_cons, durSum_append, ih, pieces_durSum]; simp [durSum]

theorem flattenSeq_ne : ∀ (ws : List Wf), ws ≠ [] → (∀ w ∈ ws, wf w = true) → flattenSeq ws ≠ [] := by
  intro ws hne hw
  cases ws with
  | nil => exact absurd rfl hne
  | cons w rest =>
    rw [flattenSeq_cons]
    intro h
    have := pieces_ne w (hw w (by simp))
    simp at h
    exact this h.1

theorem flattenSeq_sample : ∀ (ws : List Wf), ws ≠ [] → (∀ w ∈ ws, wf w = true) →
    ∀ (k : Chan) (t : Rat), 0 ≤ t → t ≤ durSum ws → sampleSeq (flattenSeq ws) k t = sampleSeq ws k t := by
  intro ws
  induction ws with
  | nil => intro h; exact absurd rfl h
  | cons w rest ih =>
    intro _ hw k t h0 hle
    have hww := hw w (by simp)
    have hdw := duration_nonneg w hww
    rw [flattenSeq_cons]
    cases rest with
    | nil =>
      simp only [durSum] at hle
      have hle' : t ≤ duration w := by grind
      simp only [flattenSeq, List.flatMap_nil, List.append_nil]
      rw [pieces_sample w hww k t h0 hle']
      simp [sampleSeq, h0, hle']
    | cons w' rest' =>
      have hne : flattenSeq (w' :: rest') ≠ [] :=
        flattenSeq_ne _ (by simp) (fun x hx => hw x (by simp [hx]))
      have hpd : ∀ x ∈ pieces w, 0 ≤ duration x := fun x hx => duration_nonneg x (pieces_wf w hww x hx)
      simp only [sampleSeq]
      by_cases hx : t < duration w
      · simp only [h0, hx, and_self, if_true]
        rw [sampleSeq_append_left _ _ k t hne hpd h0 (by rw [pieces_durSum]; exact hx)]
        exact pieces_sample w hww k t h0 (Rat.le_of_lt hx)
      · simp only [hx, and_false, if_false]
        have hge : duration w ≤ t := Rat.not_lt.mp hx
        rw [sampleSeq_append_right _ _ k t hne hpd (by rw [pieces_durSum]; exact hge), pieces_durSum]
        apply ih (by simp) (fun x hx => hw x (by simp [hx])) k (t - duration w) (by grind)
        simp only [durSum] at hle ⊢
        grind


theorem cvSeq_all (k : Chan) (x : Rat) : ∀ (ws : List Wf) (v : Option Rat),
    (∀ w ∈ ws, constantValue w k = some x) → (v = none ∧ ws ≠ [] ∨ v = some x) → cvSeq ws k v = some x := by
  intro ws
  induction ws with
  | nil =>
    intro v _ hv
    rcases hv with ⟨_, h⟩ | h
    · exact absurd rfl h
    · simp [cvSeq, h]
  | cons w rest ih =>
    intro v hall hv
    simp only [cvSeq, hall w (by simp)]
    rcases hv with ⟨h, _⟩ | h
    · subst h
      exact ih (some x) (fun y hy => hall y (by simp [hy])) (Or.inr rfl)
    · subst h
      simp only [if_true]
      exact ih (some x) (fun y hy => hall y (by simp [hy])) (Or.inr rfl)

theorem seqStep_foldl : ∀ (l : List Wf) (init : Option (List (Chan × Rat))) (d : List (Chan × Rat)),
    l.foldl seqStep init = some d → init = some d ∧ (d = [] ∨ ∀ w ∈ l, cvdEq d w = true) := by
  intro l
  induction l with
  | nil => intro init d h; simp at h; exact ⟨h, Or.inr (by simp)⟩
  | cons w rest ih =>
    intro init d h
    simp only [List.foldl] at h
    obtain ⟨h1, h2⟩ := ih _ d h
    cases init with
    | none => simp [seqStep] at h1
    | some d0 =>
      simp only [seqStep] at h1
      split at h1
      · cases h1
      · rename_i hc
        injection h1 with h1
        subst h1
        refine ⟨rfl, ?_⟩
        by_cases hd : d0 = []
        · exact Or.inl hd
        · refine Or.inr ?_
          intro y hy
          cases hy with
          | head =>
            cases hb : cvdEq d0 w with
            | true => rfl
            | false => exact absurd ⟨hd, hb⟩ hc
          | tail _ hm =>
            rcases h2 with h2 | h2
            · exact absurd h2 hd
            · exact h2 y hm

theorem dictEq_spec (d e : List (Chan × Rat)) (h : dictEq d e = true) :
    (∀ k x, (k, x) ∈ d → e.lookup k = some x) ∧ (∀ k x, (k, x) ∈ e → d.lookup k = some x) := by
  simp only [dictEq, Bool.and_eq_true, List.all_eq_true, decide_eq_true_eq] at h
  exact ⟨fun k x hk => h.1 (k, x) hk, fun k x hk => h.2 (k, x) hk⟩

theorem mkSeq_wf (ws : List Wf) (p : Wf) (hp : mkSeq ws = .ok p) (hw : ∀ w ∈ ws, wf w = true) :
    p = .seq ws ∧ wf (.seq ws) = true := by
  cases ws with
  | nil => simp [mkSeq] at hp
  | cons w rest =>
    simp only [mkSeq] at hp
    split at hp
    · rename_i hall
      injection hp with hp
      refine ⟨hp.symm, ?_⟩
      have hwl : ∀ (l : List Wf), (∀ y ∈ l, wf y = true) → wfL l = true := by
        intro l
        induction l with
        | nil => intro _; simp [wfL]
        | cons y ys ih => intro h; simp [wfL, h y (by simp), ih (fun z hz => h z (by simp [hz]))]
      have hsc : ∀ (l : List Wf), (∀ y ∈ l, sameSet (channels y) (channels w) = true) →
          sameChans (channels w) l = true := by
        intro l
        induction l with
        | nil => intro _; simp [sameChans]
        | cons y ys ih => intro h; simp [sameChans, h y (by simp), ih (fun z hz => h z (by simp [hz]))]
      simp only [wf, chanHead, Bool.and_eq_true]
      refine ⟨⟨by simp, hwl _ hw⟩, hsc _ ?_⟩
      intro y hy
      cases hy with
      | head => simp [sameSet, subsetOf]
      | tail _ hm => exact (List.all_eq_true.mp hall) y hm
    · cases hp

theorem chanHead_flatten (ws : List Wf) (hne : ws ≠ []) (hw : ∀ w ∈ ws, wf w = true) :
    chanHead (flattenSeq ws) = chanHead ws := by
  cases ws with
  | nil => exact absurd rfl hne
  | cons w rest =>
    rw [flattenSeq_cons]
    have hp := pieces_ne w (hw w (by simp))
    cases w <;> simp [pieces, chanHead, channels] at hp ⊢
    case seq xs =>
      cases xs with
      | nil => exact absurd rfl hp
      | cons x xs' => simp [chanHead]

theorem smart_seq (ws : List Wf) (p s : Wf) (hw : ∀ w ∈ ws, wf w = true)
    (hp : mkSeq ws = .ok p) (hs : fromSequence ws = .ok s) : SamplesAlike s p := by
  obtain ⟨hpe, hwp⟩ := mkSeq_wf ws p hp hw
  subst hpe
  match ws, hs with
  | [w], hs =>
    simp only [fromSequence] at hs
    injection hs with hs
    subst hs
    refine ⟨by simp only [duration, durSum]; grind, by simp [channels, chanHead], ?_⟩
    intro k _ t h0 hle
    simp only [duration, durSum] at hle
    have hle' : t ≤ duration w := by grind
    simp [sample, sampleSeq, h0, hle']
  | w0 :: w1 :: rest, hs =>
    simp only [fromSequence] at hs
    generalize hws : (w0 :: w1 :: rest) = ws at *
    have hne : ws ≠ [] := by rw [← hws]; simp
    cases hc : seqConstants ws with
    | none =>
      simp only [hc] at hs
      have hfw : ∀ x ∈ flattenSeq ws, wf x = true := by
        intro x hx
        simp only [flattenSeq, List.mem_flatMap] at hx
        obtain ⟨w, hwm, hxw⟩ := hx
        have := pieces_wf w (hw w hwm) x (by cases w <;> simpa [pieces] using hxw)
        exact this
      obtain ⟨hse, _⟩ := mkSeq_wf (flattenSeq ws) s hs hfw
      subst hse
      refine ⟨by simp only [duration]; exact flattenSeq_durSum ws,
        by intro k; simp only [channels]; rw [chanHead_flatten ws hne hw], ?_⟩
      intro k _ t h0 hle
      simp only [duration] at hle
      simp only [sample]
      exact flattenSeq_sample ws hne hw k t h0 hle
    | some d =>
      simp only [hc] at hs
      have hc' := hc
      rw [← hws] at hc'
      simp only [seqConstants] at hc'
      rw [hws] at hc'
      obtain ⟨h0d, hall⟩ := seqStep_foldl ws _ d hc'
      have hdne : d ≠ [] := by
        intro e; subst e; simp [fromMapping] at hs
      have hall' : ∀ w ∈ ws, cvdEq d w = true := by
        rcases hall with h | h
        · exact absurd h hdne
        · exact h
      -- no member is a sequence: nothing is flattened
      have hflat : flattenSeq ws = ws := by
        have : ∀ (l : List Wf), (∀ w ∈ l, cvdEq d w = true) → flattenSeq l = l := by
          intro l
          induction l with
          | nil => intro _; simp [flattenSeq]
          | cons y ys ih =>
            intro h
            rw [flattenSeq_cons, ih (fun z hz => h z (by simp [hz]))]
            have hy := h y (by simp)
            cases y <;> simp [pieces]
            case seq xs => simp [cvdEq, constantValueDict] at hy
        exact this ws hall'
      rw [hflat] at hs
      have hw0 : w0 ∈ ws := by rw [← hws]; simp
      have hhead : chanHead ws = channels w0 := by rw [← hws]; simp [chanHead]
      obtain ⟨a1, a2⟩ := cvd_sound w0 (hw w0 hw0) d h0d
      apply folded_sound (.seq ws) hwp d s
      · intro k x hk
        refine ⟨by simp only [channels, hhead]; exact (a1 k x hk).1, ?_⟩
        simp only [constantValue]
        apply cvSeq_all k x ws none _ (Or.inl ⟨rfl, hne⟩)
        intro w hwm
        have he := hall' w hwm
        simp only [cvdEq] at he
        cases hcw : constantValueDict w with
        | none => simp [hcw] at he
        | some e =>
          simp only [hcw] at he
          have hl := (dictEq_spec d e he).1 k x hk
          exact ((cvd_sound w (hw w hwm) e hcw).1 k x (lookup_mem e k x hl)).2
      · intro k hk
        simp only [channels, hhead] at hk
        exact a2 k hk
      · simpa [duration] using hs


/-! ### multi-channel waveforms -/

def parts : Wf → List Wf
  | .multi xs => xs
  | w => [w]

theorem flattenMulti_mem (ws : List Wf) (x : Wf) : x ∈ flattenMulti ws ↔ ∃ w ∈ ws, x ∈ parts w := by
  simp only [flattenMulti, List.mem_flatMap]
  constructor
  · rintro ⟨w, hw, hx⟩; exact ⟨w, hw, by cases w <;> simpa [parts] using hx⟩
  · rintro ⟨w, hw, hx⟩; exact ⟨w, hw, by cases w <;> simpa [parts] using hx⟩

theorem parts_chan (w : Wf) (k : Chan) : k ∈ channels w ↔ ∃ x ∈ parts w, k ∈ channels x := by
  cases w <;> simp [parts]
  case multi xs => simp [channels, mem_chanUnion]

theorem durHead_of_all (L : List Wf) (D : Rat) (hne : L ≠ []) (h : ∀ y ∈ L, duration y = D) : durHead L = D := by
  cases L with
  | nil => exact absurd rfl hne
  | cons y ys => simp [durHead, h y (by simp)]

theorem mkMulti_ok (ws : List Wf) (p : Wf) (h : mkMulti ws = .ok p) :
    p = .multi (sortByChannels ws) ∧ ws ≠ [] ∧ disjointGo [] (sortByChannels ws) = true := by
  simp only [mkMulti] at h
  split at h
  · cases h
  · rename_i hne
    split at h
    · cases h
    · rename_i hd
      split at h
      · cases h
      · injection h with h
        refine ⟨h.symm, ?_, by simpa using hd⟩
        intro e; subst e; simp at hne

theorem smart_multi (ws : List Wf) (p s : Wf) (hp : mkMulti ws = .ok p) (hwp : wf p = true)
    (hs : fromParallel ws = .ok s) : SamplesAlike s p := by
  obtain ⟨hpe, hne, hdis⟩ := mkMulti_ok ws p hp
  subst hpe
  have hwp' := hwp
  simp [wf] at hwp'
  have hwl : ∀ w ∈ ws, wf w = true := fun w hw =>
    wfL_mem hwp'.1.1.2 w ((mem_sortByChannels ws w).mpr hw)
  have hD : ∀ w ∈ ws, duration w = durHead (sortByChannels ws) := fun w hw =>
    sameDur_mem _ _ hwp'.1.2 w ((mem_sortByChannels ws w).mpr hw)
  match ws, hs with
  | [w], hs =>
    simp only [fromParallel] at hs
    injection hs with hs
    subst hs
    refine ⟨by simp [duration, sortByChannels, insertByKey, durHead],
      by intro k; simp [channels, sortByChannels, insertByKey, chanUnion], ?_⟩
    intro k hk t _ _
    have hk' : k ∈ channels w := by simpa [channels, sortByChannels, insertByKey, chanUnion] using hk
    simp [sample, sortByChannels, insertByKey, sampleMulti, hk']
  | w0 :: w1 :: rest, hs =>
    simp only [fromParallel] at hs
    generalize hws : (w0 :: w1 :: rest) = ws at *
    obtain ⟨hse, hfne, hdis2⟩ := mkMulti_ok _ s hs
    subst hse
    -- every part has the common duration
    have hpD : ∀ x ∈ flattenMulti ws, duration x = durHead (sortByChannels ws) := by
      intro x hx
      obtain ⟨w, hw, hxw⟩ := (flattenMulti_mem ws x).mp hx
      have hww := hwl w hw
      cases w <;> simp [parts] at hxw
      all_goals try (subst hxw; exact hD _ hw)
      case multi xs =>
        have := hD _ hw
        simp [wf] at hww
        rw [← this]
        simp only [duration]
        exact sameDur_mem xs _ hww.1.2 x hxw
    have hchan : ∀ k, k ∈ chanUnion (sortByChannels (flattenMulti ws)) ↔ k ∈ chanUnion (sortByChannels ws) := by
      intro k
      rw [mem_chanUnion, mem_chanUnion]
      constructor
      · rintro ⟨x, hx, hk⟩
        rw [mem_sortByChannels] at hx
        obtain ⟨w, hw, hxw⟩ := (flattenMulti_mem ws x).mp hx
        exact ⟨w, (mem_sortByChannels ws w).mpr hw, (parts_chan w k).mpr ⟨x, hxw, hk⟩⟩
      · rintro ⟨w, hw, hk⟩
        rw [mem_sortByChannels] at hw
        obtain ⟨x, hxw, hkx⟩ := (parts_chan w k).mp hk
        exact ⟨x, (mem_sortByChannels _ x).mpr ((flattenMulti_mem ws x).mpr ⟨w, hw, hxw⟩), hkx⟩
    refine ⟨?_, by simpa [channels] using hchan, ?_⟩
    · simp only [duration]
      apply durHead_of_all
      · intro e
        have : ∃ x, x ∈ flattenMulti ws := by
          cases hf : flattenMulti ws with
          | nil => exact absurd hf hfne
          | cons y ys => exact ⟨y, by simp⟩
        obtain ⟨x, hx⟩ := this
        have := (mem_sortByChannels _ x).mpr hx
        rw [e] at this; cases this
      · intro y hy
        exact hpD y ((mem_sortByChannels _ y).mp hy)
    · intro k hk t _ _
      simp only [channels] at hk
      obtain ⟨w, hw, hkw⟩ := (mem_chanUnion _ k).mp hk
      have hw' := (mem_sortByChannels ws w).mp hw
      simp only [sample]
      rw [(disjoint_first _ [] hdis w hw k hkw).2 t]
      obtain ⟨x, hxw, hkx⟩ := (parts_chan w k).mp hkw
      have hxf : x ∈ sortByChannels (flattenMulti ws) :=
        (mem_sortByChannels _ x).mpr ((flattenMulti_mem ws x).mpr ⟨w, hw', hxw⟩)
      rw [(disjoint_first _ [] hdis2 x hxf k hkx).2 t]
      -- `w` samples `k` through its part `x`
      have hww := hwl w hw'
      cases w <;> simp [parts] at hxw
      all_goals try (subst hxw; rfl)
      case multi xs =>
        simp [wf] at hww
        simp only [sample]
        exact ((disjoint_first xs [] hww.2 x hxw k hkx).2 t).symm

end QP.C08
