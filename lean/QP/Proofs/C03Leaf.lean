import QP.Proofs.C03Pure
/-!
# C03 helper lemmas, part 4: the scope reading leaf functions (`Avoid E` under the unary invariant, congruence
under the binary invariant)
-/
namespace QP.C03
open QP QP.PT

structure EClass (E : Err → Prop) : Prop where
  sub : SubSc E
  conv : E .exprVarMissing → E .parameterMissing

variable {E : Err → Prop}

theorem avoid_validateCons (hE : SubSc E) {cons : List Expr} {look : String → Except Err Rat}
    (hcv : cons = [] ∨ ¬ E .constraintViolation)
    (h : ∀ x ∈ consVars cons, Avoid E (look x)) : Avoid E (validateCons cons look) := by
  unfold validateCons
  rw [List.forM_eq_forM]
  apply avoid_forM
  intro c hc
  refine avoid_bind (avoid_eval hE c (fun x hx => h x (List.mem_flatMap.mpr ⟨c, hc, hx⟩))) (fun v _ => ?_)
  split
  · rcases hcv with rfl | hcv
    · cases hc
    · exact avoid_error hcv
  · exact avoid_pure _

theorem validateCons_congr {cons : List Expr} {look look' : String → Except Err Rat}
    (h : ∀ x ∈ consVars cons, look x = look' x) : validateCons cons look = validateCons cons look' := by
  unfold validateCons
  rw [List.forM_eq_forM]
  apply forM_congr'
  intro c hc
  rw [eval_congr c (fun x hx => h x (List.mem_flatMap.mpr ⟨c, hc, hx⟩))]

theorem avoid_getMeas (hE : SubSc E) {decls : List MeasDecl} {look : String → Except Err Rat} {mm}
    (h : ∀ x ∈ measVars decls, Avoid E (look x)) : Avoid E (getMeas decls look mm) := by
  unfold getMeas
  apply avoid_foldlM
  intro d hd acc
  have hs : ∀ x ∈ d.start.vars, Avoid E (look x) := fun x hx => h x (List.mem_flatMap.mpr ⟨d, hd, by simp [hx]⟩)
  have hl : ∀ x ∈ d.len.vars, Avoid E (look x) := fun x hx => h x (List.mem_flatMap.mpr ⟨d, hd, by simp [hx]⟩)
  split
  · exact avoid_error (subSc_not hE notSc_keyError)
  · exact avoid_pure _
  · refine avoid_bind (avoid_eval hE _ hs) (fun _ _ => avoid_bind (avoid_eval hE _ hl) (fun _ _ => ?_))
    split
    · exact avoid_error (subSc_not hE notSc_valueError)
    · exact avoid_pure _

theorem getMeas_congr {decls : List MeasDecl} {look look' : String → Except Err Rat} {mm}
    (h : ∀ x ∈ measVars decls, look x = look' x) : getMeas decls look mm = getMeas decls look' mm := by
  unfold getMeas
  apply foldlM_congr'
  intro d hd acc
  have hs : ∀ x ∈ d.start.vars, look x = look' x := fun x hx => h x (List.mem_flatMap.mpr ⟨d, hd, by simp [hx]⟩)
  have hl : ∀ x ∈ d.len.vars, look x = look' x := fun x hx => h x (List.mem_flatMap.mpr ⟨d, hd, by simp [hx]⟩)
  rw [eval_congr _ hs, eval_congr _ hl]

theorem eclass_cv : EClass (fun e => e = .constraintViolation) := ⟨subSc_cv, by simp⟩
theorem eclass_miss : EClass (fun e => e = .parameterMissing ∨ e = .exprVarMissing) := ⟨subSc_miss, by simp⟩

/-- any scope is fine as far as constraint violations are concerned -/
theorem good_cv (N : List String) (σ : Scope) : Good (fun e => e = .constraintViolation) N σ := by
  constructor
  · intro x _; exact look_noCV σ x
  · intro g
    unfold Scope.forceExcept
    apply avoid_forM
    intro k _
    split
    · exact avoid_pure _
    · exact avoid_voidR (look_noCV σ k)
  · intro h
    cases h

/-! ### table entries -/

theorem avoid_instEntries (hE : SubSc E) {N : List String} {σ : Scope} (hG : Good E N σ) {es : List TEntry}
    (h : ∀ x ∈ tentryVars es, x ∈ N) : Avoid E (instEntries σ es) := by
  unfold instEntries
  apply avoid_mapM
  intro e he
  have ht : ∀ x ∈ e.t.vars, x ∈ N := fun x hx => h x (List.mem_flatMap.mpr ⟨e, he, by simp [hx]⟩)
  have hv : ∀ x ∈ e.v.vars, x ∈ N := fun x hx => h x (List.mem_flatMap.mpr ⟨e, he, by simp [hx]⟩)
  exact avoid_bind (hG.eval hE ht) (fun _ _ => avoid_bind (hG.eval hE hv) (fun _ _ => avoid_pure _))

theorem instEntries_congr {N : List String} {σ σ' : Scope} (hR : Rel N σ σ') {es : List TEntry}
    (h : ∀ x ∈ tentryVars es, x ∈ N) : instEntries σ es = instEntries σ' es := by
  unfold instEntries
  apply mapM_congr'
  intro e he
  have ht : ∀ x ∈ e.t.vars, x ∈ N := fun x hx => h x (List.mem_flatMap.mpr ⟨e, he, by simp [hx]⟩)
  have hv : ∀ x ∈ e.v.vars, x ∈ N := fun x hx => h x (List.mem_flatMap.mpr ⟨e, he, by simp [hx]⟩)
  rw [hR.eval ht, hR.eval hv]

theorem avoid_tableInstantiate (hE : SubSc E) {N : List String} {σ : Scope} (hG : Good E N σ)
    {entries : List (Chan × List TEntry)} (h : ∀ x ∈ tableVars entries, x ∈ N) :
    Avoid E (tableInstantiate σ entries) := by
  unfold tableInstantiate
  refine avoid_bind ?_ (fun inst _ => ?_)
  · apply avoid_mapM
    intro ce hce
    obtain ⟨ch, es⟩ := ce
    simp only
    refine avoid_bind (avoid_instEntries hE hG (fun x hx => h x (List.mem_flatMap.mpr ⟨(ch, es), hce, hx⟩))) (fun ws _ => ?_)
    split
    · exact avoid_error (subSc_not hE notSc_valueError)
    · exact avoid_pure _
  · simp only
    split
    · exact avoid_pure _
    · split
      · exact avoid_pure _
      · exact avoid_pure _

theorem tableInstantiate_congr {N : List String} {σ σ' : Scope} (hR : Rel N σ σ')
    {entries : List (Chan × List TEntry)} (h : ∀ x ∈ tableVars entries, x ∈ N) :
    tableInstantiate σ entries = tableInstantiate σ' entries := by
  unfold tableInstantiate
  refine bind_congr' ?_ (fun _ _ => rfl)
  apply mapM_congr'
  intro ce hce
  obtain ⟨ch, es⟩ := ce
  simp only
  rw [instEntries_congr hR (fun x hx => h x (List.mem_flatMap.mpr ⟨(ch, es), hce, hx⟩))]

/-! ### `evaluate_numeric(**scope)` -/

theorem avoid_evalKw (hE : EClass E) {N : List String} {σ : Scope} (hG : Good E N σ) {e : Expr}
    (h : ∀ x ∈ e.vars, x ∈ N) : Avoid E (σ.evalKw e) := by
  unfold Scope.evalKw
  refine avoid_bind hG.forceAll (fun _ _ => ?_)
  apply avoid_eval hE.sub
  intro x hx
  have hl := hG.look x (h x hx)
  split
  · rename_i heq
    exact avoid_error (fun hbad => avoid_iff.mp hl _ heq (hE.conv hbad))
  · exact hl

theorem evalKw_congr {N : List String} {σ σ' : Scope} (hR : Rel N σ σ') {e : Expr}
    (h : ∀ x ∈ e.vars, x ∈ N) : σ.evalKw e = σ'.evalKw e := by
  unfold Scope.evalKw
  rw [hR.forceAll]
  refine bind_congr' rfl (fun _ _ => ?_)
  apply eval_congr
  intro x hx
  rw [hR.look x (h x hx)]

/-! ### transformations -/

theorem avoid_arithTransformation (hE : EClass E) {N : List String} {σ : Scope} (hG : Good E N σ)
    (bodyChans : List Chan) (op : AOp) {scalar : Scalar} (ptIsLhs : Bool) (cm : List (Chan × Option Chan))
    (h : ∀ x ∈ scalarVars scalar, x ∈ N) : Avoid E (arithTransformation bodyChans op scalar ptIsLhs σ cm) := by
  have hS : SubSc E := hE.sub
  have hfm : ∀ (f : Chan → Option Chan → Option (Chan × Rat)),
      Avoid E (bodyChans.filterMapM (fun c => do let o ← chanLookup cm c; pure (f c o))) :=
    fun f => avoid_filterMapM (fun c _ => avoid_bind (clean_avoid hS (chanLookup_clean cm c)) (fun _ _ => avoid_pure _))
  unfold arithTransformation
  cases scalar with
  | uniform e =>
    have he : Avoid E (σ.evalKw e) := avoid_evalKw hE hG (by simpa [scalarVars] using h)
    dsimp only
    refine avoid_bind he (fun v _ => avoid_bind (hfm _) (fun cs _ => ?_))
    avoid_auto
  | perChan m =>
    dsimp only
    refine avoid_bind (avoid_filterMapM (fun ce hce => ?_)) (fun cs _ => ?_)
    · obtain ⟨c, e⟩ := ce
      have he : Avoid E (σ.evalKw e) :=
        avoid_evalKw hE hG (fun x hx => h x (by simp only [scalarVars]; exact kvVars_mem hce hx))
      avoid_auto
    · avoid_auto

theorem arithTransformation_congr {N : List String} {σ σ' : Scope} (hR : Rel N σ σ')
    (bodyChans : List Chan) (op : AOp) {scalar : Scalar} (ptIsLhs : Bool) (cm : List (Chan × Option Chan))
    (h : ∀ x ∈ scalarVars scalar, x ∈ N) :
    arithTransformation bodyChans op scalar ptIsLhs σ cm = arithTransformation bodyChans op scalar ptIsLhs σ' cm := by
  unfold arithTransformation
  cases scalar with
  | uniform e =>
    dsimp only
    rw [evalKw_congr hR (by simpa [scalarVars] using h)]
  | perChan m =>
    dsimp only
    refine bind_congr' ?_ (fun _ _ => rfl)
    apply filterMapM_congr'
    intro ce hce
    obtain ⟨c, e⟩ := ce
    dsimp only
    refine bind_congr' rfl (fun o _ => ?_)
    split
    · rfl
    · rw [evalKw_congr hR (fun x hx => h x (by simp only [scalarVars]; exact kvVars_mem hce hx))]

theorem avoid_overwrittenValues (hE : SubSc E) {N : List String} {σ : Scope} (hG : Good E N σ)
    {over : List (Chan × Expr)} (cm : List (Chan × Option Chan)) (h : ∀ x ∈ kvVars over, x ∈ N) :
    Avoid E (overwrittenValues over σ cm) := by
  unfold overwrittenValues
  refine avoid_bind (avoid_filterMapM (fun ce hce => ?_)) (fun _ _ => avoid_pure _)
  obtain ⟨c, e⟩ := ce
  simp only
  refine avoid_bind (clean_avoid hE (chanLookup_clean cm c)) (fun o _ => ?_)
  split
  · exact avoid_pure _
  · exact avoid_bind (hG.eval hE (fun x hx => h x (kvVars_mem hce hx))) (fun _ _ => avoid_pure _)

theorem overwrittenValues_congr {N : List String} {σ σ' : Scope} (hR : Rel N σ σ')
    {over : List (Chan × Expr)} (cm : List (Chan × Option Chan)) (h : ∀ x ∈ kvVars over, x ∈ N) :
    overwrittenValues over σ cm = overwrittenValues over σ' cm := by
  unfold overwrittenValues
  refine bind_congr' ?_ (fun _ _ => rfl)
  apply filterMapM_congr'
  intro ce hce
  obtain ⟨c, e⟩ := ce
  simp only
  refine bind_congr' rfl (fun o _ => ?_)
  split
  · rfl
  · rw [hR.eval (fun x hx => h x (kvVars_mem hce hx))]

/-! ### eager parameter mapping -/

/-- `map_parameter_values` without the constraint check -/
def mapValues (pm : List (String × Expr)) (σ : Scope) : Except Err Scope := do
  let kv ← pm.mapM (fun (p, e) => do let v ← σ.eval e; pure (p, v))
  pure (.dict kv)

/-- `_validate_parameters`: the external parameters are keys of the scope -/
def presence (xs : List String) (σ : Scope) : Except Err Unit := forM xs (presentKey σ)

theorem mapParameterValues_eq (pm : List (String × Expr)) (cons : List Expr) (σ : Scope) :
    mapParameterValues pm cons σ =
      presence (kvVars pm ++ consVars cons) σ >>= fun _ => validateCons cons σ.look >>= fun _ => mapValues pm σ := rfl

theorem avoid_presence {xs : List String} {σ : Scope}
    (h : E .parameterMissing → ∀ x ∈ xs, x ∈ σ.keys) : Avoid E (presence xs σ) := by
  unfold presence
  apply avoid_forM
  intro x hx
  unfold presentKey
  split
  · exact avoid_pure _
  · rename_i hc
    refine avoid_error (fun hE => hc ?_)
    simpa using h hE x hx

theorem presence_congr {xs : List String} {σ σ' : Scope} (h : ∀ x ∈ xs, (x ∈ σ.keys ↔ x ∈ σ'.keys)) :
    presence xs σ = presence xs σ' := by
  unfold presence
  apply forM_congr'
  intro x hx
  unfold presentKey
  have : σ.keys.contains x = σ'.keys.contains x := by
    rw [Bool.eq_iff_iff]
    simpa using h x hx
  rw [this]

theorem presence_append (xs ys : List String) (σ : Scope) :
    presence (xs ++ ys) σ = presence xs σ >>= fun _ => presence ys σ := by
  unfold presence
  simp only [List.forM_append]

theorem avoid_mapValues (hE : SubSc E) {N : List String} {σ : Scope} (hG : Good E N σ)
    {pm : List (String × Expr)} (h : ∀ x ∈ kvVars pm, x ∈ N) : Avoid E (mapValues pm σ) := by
  unfold mapValues
  refine avoid_bind (avoid_mapM (fun ke hke => ?_)) (fun _ _ => avoid_pure _)
  obtain ⟨k, e⟩ := ke
  simp only
  exact avoid_bind (hG.eval hE (fun x hx => h x (kvVars_mem hke hx))) (fun _ _ => avoid_pure _)

theorem mapValues_congr {N : List String} {σ σ' : Scope} (hR : Rel N σ σ')
    {pm : List (String × Expr)} (h : ∀ x ∈ kvVars pm, x ∈ N) : mapValues pm σ = mapValues pm σ' := by
  unfold mapValues
  refine bind_congr' ?_ (fun _ _ => rfl)
  apply mapM_congr'
  intro ke hke
  obtain ⟨k, e⟩ := ke
  simp only
  rw [hR.eval (fun x hx => h x (kvVars_mem hke hx))]

theorem mapM_eval_keys {σ : Scope} : ∀ {pm : List (String × Expr)} {kv : List (String × Rat)},
    pm.mapM (fun (pe : String × Expr) => (do let v ← σ.eval pe.2; pure (pe.1, v) : Except Err (String × Rat))) = .ok kv →
      kv.map (·.1) = pm.map (·.1)
  | [], kv, h => by simp only [List.mapM_nil] at h; cases h; rfl
  | (k, e) :: pm, kv, h => by
      simp only [List.mapM_cons] at h
      obtain ⟨kv1, h1, h⟩ := bind_ok.mp h
      obtain ⟨kvs, h2, h⟩ := bind_ok.mp h
      cases h
      obtain ⟨v, _, h1⟩ := bind_ok.mp h1
      cases h1
      simp [mapM_eval_keys h2]

/-- the eagerly mapped dictionary binds exactly the mapped names -/
theorem mapValues_keys {pm : List (String × Expr)} {σ σ' : Scope} (h : mapValues pm σ = .ok σ') :
    ∃ kv, σ' = .dict kv ∧ kv.map (·.1) = pm.map (·.1) := by
  unfold mapValues at h
  obtain ⟨kv, hkv, h⟩ := bind_ok.mp h
  cases h
  exact ⟨kv, rfl, mapM_eval_keys hkv⟩

end QP.C03
