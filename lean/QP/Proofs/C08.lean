import QP.Model.C08
/-! Helper lemmas for C08. -/
namespace QP.C08
open Wf

/-- structural induction over waveforms: the list-valued constructors get the hypothesis for every element -/
theorem Wf.induct {P : Wf → Prop}
    (table : ∀ ch es, P (.table ch es))
    (const : ∀ d a ch, P (.const d a ch))
    (func : ∀ s i d ch, P (.func s i d ch))
    (seq : ∀ ws, (∀ w ∈ ws, P w) → P (.seq ws))
    (multi : ∀ ws, (∀ w ∈ ws, P w) → P (.multi ws))
    (rep : ∀ b n, P b → P (.rep b n))
    (trans : ∀ i tr, P i → P (.trans i tr))
    (subset : ∀ i cs, P i → P (.subset i cs))
    (arith : ∀ l op r, P l → P r → P (.arith l op r))
    (functor : ∀ i fs, P i → P (.functor i fs))
    (reversed : ∀ i, P i → P (.reversed i)) : ∀ w, P w := by
  intro w
  exact Wf.rec (motive_1 := P) (motive_2 := fun ws => ∀ w ∈ ws, P w)
    table const func (fun ws ih => seq ws ih) (fun ws ih => multi ws ih)
    (fun b n ih => rep b n ih) (fun i tr ih => trans i tr ih) (fun i cs ih => subset i cs ih)
    (fun l op r ihl ihr => arith l op r ihl ihr) (fun i fs ih => functor i fs ih)
    (fun i ih => reversed i ih)
    (by intro w h; cases h)
    (fun w ws ihw ihws => by
      intro x hx
      cases hx with
      | head => exact ihw
      | tail _ h => exact ihws x h) w

theorem reversedM_duration (w : Wf) : duration (reversedM w) = duration w := by
  cases w <;> simp [reversedM, duration]

theorem reversedM_channels (w : Wf) : channels (reversedM w) = channels w := by
  cases w <;> simp [reversedM, channels]

theorem reversedM_sample (w : Wf) (ch : Chan) (t : Rat) :
    sample (reversedM w) ch t = sample w ch (duration w - t) := by
  cases w <;> simp [reversedM, sample, duration]
  case reversed i =>
    congr 1
    grind


/-! ### equality -/

theorem eqv_eq : ∀ a b : Wf, eqv a b = true → a = b := by
  intro a
  refine Wf.rec (motive_1 := fun a => ∀ b, eqv a b = true → a = b)
    (motive_2 := fun as => ∀ bs, eqvL as bs = true → as = bs)
    ?_ ?_ ?_ ?_ ?_ ?_ ?_ ?_ ?_ ?_ ?_ ?_ ?_ a
  · intro ch es b h; cases b <;> simp_all [eqv]
  · intro d x ch b h; cases b <;> simp_all [eqv]
  · intro s i d ch b h; cases b <;> simp_all [eqv]
  · intro ws ih b h
    cases b <;> simp_all [eqv]
    exact ih _ h
  · intro ws ih b h
    cases b <;> simp_all [eqv]
    exact ih _ h
  · intro body n ih b h
    cases b <;> simp_all [eqv]
    exact ih _ h.1
  · intro i tr ih b h
    cases b <;> simp_all [eqv]
    exact ih _ h.1
  · intro i cs ih b h
    cases b <;> simp_all [eqv]
    exact ih _ h.1
  · intro l op r ihl ihr b h
    cases b <;> simp_all [eqv]
    exact ⟨ihl _ h.1.1, ihr _ h.2⟩
  · intro i fs ih b h
    cases b <;> simp_all [eqv]
    exact ih _ h.1
  · intro i ih b h
    cases b <;> simp_all [eqv]
    exact ih _ h
  · intro bs h; cases bs <;> simp_all [eqvL]
  · intro w ws ihw ihws bs h
    cases bs <;> simp_all [eqvL]
    exact ⟨ihw _ h.1, ihws _ h.2⟩

theorem eqv_refl : ∀ a : Wf, eqv a a = true := by
  intro a
  refine Wf.rec (motive_1 := fun a => eqv a a = true)
    (motive_2 := fun as => eqvL as as = true)
    ?_ ?_ ?_ ?_ ?_ ?_ ?_ ?_ ?_ ?_ ?_ ?_ ?_ a <;> intros <;> simp_all [eqv, eqvL]


/-! ### durations are non-negative -/

theorem mono_last_ge : ∀ (es : List Entry) (e : Entry) (l : Entry),
    tableOk.mono (e :: es) = true → (e :: es).getLast? = some l → e.t ≤ l.t := by
  intro es
  induction es with
  | nil => intro e l _ h; simp at h; subst h; exact Rat.le_refl
  | cons e2 rest ih =>
    intro e l hm hl
    simp [tableOk.mono] at hm
    have h2 : (e2 :: rest).getLast? = some l := by
      simpa [List.getLast?_cons_cons] using hl
    have := ih e2 l hm.2 h2
    exact Rat.le_trans hm.1 this

theorem table_duration_nonneg (ch : Chan) (es : List Entry) (h : tableOk es = true) :
    0 ≤ duration (.table ch es) := by
  match es, h with
  | e1 :: e2 :: rest, h =>
    simp [tableOk] at h
    simp only [duration]
    cases hl : (e1 :: e2 :: rest).getLast? with
    | none => simp at hl
    | some l =>
      have := mono_last_ge _ _ _ h.2 hl
      simp; grind

theorem wfL_mem {ws : List Wf} (h : wfL ws = true) : ∀ w ∈ ws, wf w = true := by
  induction ws with
  | nil => intro w hw; cases hw
  | cons x xs ih =>
    simp [wfL] at h
    intro w hw
    cases hw with
    | head => exact h.1
    | tail _ hm => exact ih h.2 w hm

theorem durSum_nonneg {ws : List Wf} (h : ∀ w ∈ ws, 0 ≤ duration w) : 0 ≤ durSum ws := by
  induction ws with
  | nil => simp [durSum]
  | cons x xs ih =>
    simp only [durSum]
    have h1 := h x (by simp)
    have h2 := ih (fun w hw => h w (by simp [hw]))
    grind

theorem duration_nonneg : ∀ w : Wf, wf w = true → 0 ≤ duration w := by
  intro w
  induction w using Wf.induct with
  | table ch es => intro h; exact table_duration_nonneg ch es (by simpa [wf] using h)
  | const d a ch => intro h; simpa [wf, duration] using h
  | func s i d ch => intro h; simpa [wf, duration] using h
  | seq ws ih =>
    intro h
    simp [wf] at h
    simp only [duration]
    exact durSum_nonneg (fun w hw => ih w hw (wfL_mem h.1.2 w hw))
  | multi ws ih =>
    intro h
    simp [wf] at h
    simp only [duration]
    cases ws with
    | nil => simp [durHead]
    | cons x xs =>
      simp only [durHead]
      exact ih x (by simp) (wfL_mem h.1.1.2 x (by simp))
  | rep b n ih =>
    intro h
    simp [wf] at h
    simp only [duration]
    have := ih h.1
    have hn : (0:Rat) ≤ (n:Rat) := by exact_mod_cast Nat.zero_le n
    exact Rat.mul_nonneg this hn
  | trans i tr ih => intro h; simp [wf] at h; simpa [duration] using ih h.1
  | subset i cs ih => intro h; simp [wf] at h; simpa [duration] using ih h.1
  | arith l op r ihl ihr => intro h; simp [wf] at h; simpa [duration] using ihl h.1.1
  | functor i fs ih => intro h; simp [wf] at h; simpa [duration] using ih h.1
  | reversed i ih => intro h; simp [wf] at h; simpa [duration] using ih h


/-! ### which piece of a sequence / repetition owns a time -/

theorem sampleSeq_piece : ∀ (ws : List Wf) (ch : Chan) (t : Rat),
    ws ≠ [] → (∀ w ∈ ws, 0 ≤ duration w) → 0 ≤ t → t ≤ durSum ws →
    ∃ w ∈ ws, ∃ t', 0 ≤ t' ∧ t' ≤ duration w ∧ sampleSeq ws ch t = sample w ch t' := by
  intro ws
  induction ws with
  | nil => intro ch t h; exact absurd rfl h
  | cons w rest ih =>
    intro ch t _ hd h0 hle
    cases rest with
    | nil =>
      have hle2 : t ≤ duration w := by simp only [durSum] at hle; grind
      refine ⟨w, by simp, t, h0, hle2, ?_⟩
      simp [sampleSeq, h0, hle2]
    | cons w' ws =>
      by_cases hlt : t < duration w
      · refine ⟨w, by simp, t, h0, Rat.le_of_lt hlt, ?_⟩
        simp [sampleSeq, h0, hlt]
      · have hge : duration w ≤ t := Rat.not_lt.mp hlt
        have hle' : t - duration w ≤ durSum (w' :: ws) := by
          simp only [durSum] at hle ⊢; grind
        have h0' : 0 ≤ t - duration w := by grind
        obtain ⟨x, hx, t', ht0, ht1, hs⟩ := ih ch (t - duration w) (by simp)
          (fun y hy => hd y (by simp [hy])) h0' hle'
        refine ⟨x, by simp [hx], t', ht0, ht1, ?_⟩
        simp [sampleSeq, hlt, hs]

theorem repSample_piece (f : Rat → Option Rat) (d : Rat) : ∀ (n : Nat) (t : Rat),
    1 ≤ n → 0 ≤ t → t ≤ d * n → ∃ t', 0 ≤ t' ∧ t' ≤ d ∧ repSample f d n t = f t' := by
  intro n
  induction n with
  | zero => intro t h; omega
  | succ k ih =>
    intro t _ h0 hle
    cases k with
    | zero =>
      have : t ≤ d := by simpa using hle
      exact ⟨t, h0, this, by simp [repSample, h0, this]⟩
    | succ m =>
      by_cases hlt : t < d
      · exact ⟨t, h0, Rat.le_of_lt hlt, by simp [repSample, h0, hlt]⟩
      · have hge : d ≤ t := Rat.not_lt.mp hlt
        have h0' : 0 ≤ t - d := by grind
        have hle' : t - d ≤ d * ((m + 1 : Nat) : Rat) := by
          have : ((m + 1 + 1 : Nat) : Rat) = ((m + 1 : Nat) : Rat) + 1 := by push_cast; rfl
          rw [this] at hle
          grind
        obtain ⟨t', a, b, c⟩ := ih (t - d) (by omega) h0' hle'
        exact ⟨t', a, b, by simp [repSample, hlt, c]⟩

/-! ### the loop of `SequenceWaveform.constant_value` -/

theorem cvSeq_some : ∀ (ws : List Wf) (ch : Chan) (v : Option Rat) (c : Rat),
    cvSeq ws ch v = some c →
    (∀ w ∈ ws, constantValue w ch = some c) ∧ (v = none ∨ v = some c) := by
  intro ws
  induction ws with
  | nil => intro ch v c h; simp [cvSeq] at h; simp [h]
  | cons w rest ih =>
    intro ch v c h
    simp only [cvSeq] at h
    cases hw : constantValue w ch with
    | none => simp [hw] at h
    | some x =>
      simp only [hw] at h
      cases v with
      | none =>
        simp only at h
        obtain ⟨h1, h2⟩ := ih ch (some x) c h
        have hx : x = c := by simpa using h2
        subst hx
        exact ⟨by intro y hy; cases hy with
          | head => exact hw
          | tail _ hm => exact h1 y hm, Or.inl rfl⟩
      | some y =>
        simp only at h
        by_cases hxy : x = y
        · subst hxy
          simp at h
          obtain ⟨h1, h2⟩ := ih ch (some x) c h
          have hx : x = c := by simpa using h2
          subst hx
          exact ⟨by intro y hy; cases hy with
            | head => exact hw
            | tail _ hm => exact h1 y hm, Or.inr rfl⟩
        · simp [hxy] at h

/-! ### multi-channel waveforms: the first sub-waveform that defines the channel -/

theorem cvMulti_some : ∀ (ws : List Wf) (ch : Chan) (c : Rat), cvMulti ws ch = some c →
    ∃ w ∈ ws, ch ∈ channels w ∧ constantValue w ch = some c ∧ ∀ t, sampleMulti ws ch t = sample w ch t := by
  intro ws
  induction ws with
  | nil => intro ch c h; simp [cvMulti] at h
  | cons w rest ih =>
    intro ch c h
    simp only [cvMulti] at h
    by_cases hm : ch ∈ channels w
    · simp [hm] at h
      exact ⟨w, by simp, hm, h, by intro t; simp [sampleMulti, hm]⟩
    · simp [hm] at h
      obtain ⟨x, hx, a, b, c'⟩ := ih ch c h
      exact ⟨x, by simp [hx], a, b, by intro t; simp [sampleMulti, hm, c']⟩

theorem sameDur_mem : ∀ (ws : List Wf) (d : Rat), sameDur d ws = true → ∀ w ∈ ws, duration w = d := by
  intro ws
  induction ws with
  | nil => intro d _ w hw; cases hw
  | cons x xs ih =>
    intro d h w hw
    simp [sameDur] at h
    cases hw with
    | head => exact h.1
    | tail _ hm => exact ih d h.2 w hm


/-! ### channel sets -/

@[simp] theorem mem_union (a b : List Chan) (c : Chan) : c ∈ union a b ↔ c ∈ a ∨ c ∈ b := by
  simp only [union, diff, List.mem_append, List.mem_filter, decide_eq_true_eq]
  by_cases h : c ∈ a <;> simp [h]

@[simp] theorem mem_diff (a b : List Chan) (c : Chan) : c ∈ diff a b ↔ c ∈ a ∧ c ∉ b := by
  simp [diff]

@[simp] theorem mem_inter (a b : List Chan) (c : Chan) : c ∈ inter a b ↔ c ∈ a ∧ c ∈ b := by
  simp [inter]

theorem subsetOf_iff (a b : List Chan) : subsetOf a b = true ↔ ∀ c ∈ a, c ∈ b := by
  simp [subsetOf]

theorem sameSet_iff (a b : List Chan) : sameSet a b = true ↔ ∀ c, c ∈ a ↔ c ∈ b := by
  simp only [sameSet, Bool.and_eq_true, subsetOf_iff]
  constructor
  · intro h c; exact ⟨h.1 c, h.2 c⟩
  · intro h; exact ⟨fun c => (h c).1, fun c => (h c).2⟩

theorem sameChans_mem : ∀ (ws : List Wf) (cs : List Chan), sameChans cs ws = true →
    ∀ w ∈ ws, ∀ c, c ∈ channels w ↔ c ∈ cs := by
  intro ws
  induction ws with
  | nil => intro cs _ w hw; cases hw
  | cons x xs ih =>
    intro cs h w hw c
    simp [sameChans] at h
    cases hw with
    | head => exact (sameSet_iff _ _).mp h.1 c
    | tail _ hm => exact ih cs h.2 w hm c

theorem lookup_mem {α} : ∀ (m : List (Chan × α)) (c : Chan) (v : α), m.lookup c = some v → (c, v) ∈ m := by
  intro m
  induction m with
  | nil => intro c v h; simp [List.lookup] at h
  | cons kv rest ih =>
    intro c v h
    obtain ⟨k, x⟩ := kv
    simp only [List.lookup] at h
    by_cases hk : c = k
    · subst hk; simp at h; subst h; simp
    · have : (c == k) = false := by simpa using hk
      simp [this] at h
      exact List.mem_cons_of_mem _ (ih c v h)

theorem lookup_none_keys {α} : ∀ (m : List (Chan × α)) (c : Chan), m.lookup c = none → c ∉ dkeys m := by
  intro m
  induction m with
  | nil => intro c _; simp [dkeys]
  | cons kv rest ih =>
    intro c h
    obtain ⟨k, x⟩ := kv
    simp only [List.lookup] at h
    by_cases hk : c = k
    · subst hk; simp at h
    · have : (c == k) = false := by simpa using hk
      rw [this] at h
      have := ih c h
      simp [dkeys] at this ⊢
      exact ⟨hk, this⟩

theorem lookup_zip_none {α} : ∀ (ks : List Chan) (vs : List α) (c : Chan), ks.length ≤ vs.length →
    (ks.zip vs).lookup c = none → c ∉ ks := by
  intro ks
  induction ks with
  | nil => intro vs c _ _; simp
  | cons k rest ih =>
    intro vs c hl h
    cases vs with
    | nil => simp at hl
    | cons v vs' =>
      simp only [List.zip_cons_cons, List.lookup] at h
      by_cases hk : c = k
      · subst hk; simp at h
      · have : (c == k) = false := by simpa using hk
        rw [this] at h
        have := ih vs' c (by simpa using hl) h
        simp [hk, this]

/-! ### transformations are monotone in their input: a known (constant) input value stays that value -/

/-- on the channels `C`, `h` knows less than `g`: wherever `h` has a value, `g` has the same one -/
def BelowOn (C : List Chan) (h g : Chan → Option Rat) : Prop := ∀ c ∈ C, ∀ x, h c = some x → g c = some x

theorem invariant_eval (m : List (Chan × TV)) (hm : m.all (fun kv => !kv.2.timeDependent) = true)
    (c : Chan) (tv : TV) (h : m.lookup c = some tv) (t : Rat) : tv.eval t = tv.eval 0 := by
  have hmem := lookup_mem m c tv h
  have := (List.all_eq_true.mp hm) _ hmem
  cases tv with
  | num k => simp [TV.eval]
  | expr a b => simp [TV.timeDependent] at this

theorem dot_below (C : List Chan) (h g : Chan → Option Rat) (hb : BelowOn C h g) :
    ∀ (row : List Rat) (l : List Chan) (x : Rat), (∀ c ∈ l, c ∈ C) →
    dot row (l.map h) = some x → dot row (l.map g) = some x := by
  intro row
  induction row with
  | nil => intro l x _ hx; cases l <;> simpa [dot] using hx
  | cons m ms ih =>
    intro l x hl hx
    cases l with
    | nil => simpa [dot] using hx
    | cons c cs =>
      simp only [List.map, dot] at hx ⊢
      cases hc : h c with
      | none => simp [hc, omul, oadd] at hx
      | some y =>
        rw [hb c (hl c (by simp)) y hc]
        rw [hc] at hx
        cases hd : dot ms (cs.map h) with
        | none => simp [hd, omul, oadd] at hx
        | some z =>
          rw [ih cs z (fun c' hc' => hl c' (by simp [hc'])) hd]
          rw [hd] at hx
          exact hx

theorem atom_below (a : TAtom) (C : List Chan) (hok : a.okOn C = true) (ha : a.isConstantInvariant = true)
    (h g : Chan → Option Rat) (hb : BelowOn C h g) (t : Rat) :
    BelowOn (a.outputChannels C) (a.applyF 0 h) (a.applyF t g) := by
  intro c hc x hx
  cases a with
  | identity => exact hb c hc x hx
  | offset m =>
    simp only [TAtom.applyF] at hx ⊢
    simp only [TAtom.outputChannels] at hc
    cases hl : m.lookup c with
    | none => simp only [hl] at hx ⊢; exact hb c hc x hx
    | some tv =>
      simp only [hl] at hx ⊢
      rw [invariant_eval m ha c tv hl t]
      cases hv : h c with
      | none => simp [hv, oadd] at hx
      | some y => rw [hb c hc y hv]; rw [hv] at hx; exact hx
  | scaling m =>
    simp only [TAtom.applyF] at hx ⊢
    simp only [TAtom.outputChannels] at hc
    cases hl : m.lookup c with
    | none => simp only [hl] at hx ⊢; exact hb c hc x hx
    | some tv =>
      simp only [hl] at hx ⊢
      rw [invariant_eval m ha c tv hl t]
      cases hv : h c with
      | none => simp [hv, omul] at hx
      | some y => rw [hb c hc y hv]; rw [hv] at hx; exact hx
  | linear mat ins outs =>
    simp only [TAtom.applyF] at hx ⊢
    simp only [TAtom.outputChannels, mem_union, mem_diff] at hc
    simp only [TAtom.okOn, Bool.and_eq_true, subsetOf_iff] at hok
    cases hl : (outs.zip mat).lookup c with
    | none =>
      simp only [hl] at hx ⊢
      have hlen : outs.length ≤ mat.length := by
        have := hok.1.2; simp at this; omega
      have hno := lookup_zip_none outs mat c hlen hl
      cases hc with
      | inl h1 => exact hb c h1.1 x hx
      | inr h2 => exact absurd h2 hno
    | some row =>
      simp only [hl] at hx ⊢
      exact dot_below C h g hb row ins x hok.1.1.1 hx
  | parallel m =>
    simp only [TAtom.applyF] at hx ⊢
    simp only [TAtom.outputChannels, mem_union] at hc
    cases hl : m.lookup c with
    | none =>
      simp only [hl] at hx ⊢
      have := lookup_none_keys m c hl
      cases hc with
      | inl h1 => exact hb c h1 x hx
      | inr h2 => exact absurd h2 this
    | some tv =>
      simp only [hl] at hx ⊢
      rw [invariant_eval m ha c tv hl t]
      exact hx

theorem chain_below : ∀ (as : List TAtom) (prod C : List Chan), chainOkOn as prod C = true →
    as.all (·.isConstantInvariant) = true →
    ∀ (h g : Chan → Option Rat), BelowOn C h g → ∀ t,
    BelowOn (as.foldl (fun cs a => a.outputChannels cs) C) (applyChain as 0 h) (applyChain as t g) := by
  intro as
  induction as with
  | nil => intro _ C _ _ h g hb t; simpa [applyChain] using hb
  | cons a rest ih =>
    intro prod C hok ha h g hb t
    simp at ha
    simp only [chainOkOn, Bool.and_eq_true] at hok
    simp only [applyChain, List.foldl]
    exact ih _ _ hok.2 (by simpa using ha.2) _ _ (atom_below a C hok.1.1 ha.1 h g hb t) t

theorem trafo_below (tr : Trafo) (C : List Chan) (hok : tr.okOn C = true) (ht : tr.isConstantInvariant = true)
    (h g : Chan → Option Rat) (hb : BelowOn C h g) (t : Rat) :
    BelowOn (tr.outputChannels C) (tr.applyF 0 h) (tr.applyF t g) := by
  cases tr with
  | atom a => exact atom_below a C hok ht h g hb t
  | chain as => exact chain_below as [] C hok ht h g hb t

/-! ### a reported constant value equals every sample -/

theorem constant_sound_aux : ∀ w : Wf, wf w = true → ∀ (ch : Chan) (c t : Rat), ch ∈ channels w →
    constantValue w ch = some c → 0 ≤ t → t ≤ duration w → sample w ch t = some c := by
  intro w
  induction w using Wf.induct with
  | table ch es => intro _ ch c t _ h; simp [constantValue] at h
  | const d a ch => intro _ ch c t _ h _ _; simpa [constantValue, sample] using h
  | func s i d ch => intro _ ch c t _ h; simp [constantValue] at h
  | seq ws ih =>
    intro hw ch c t hch h h0 hle
    simp [wf] at hw
    simp only [constantValue] at h
    simp only [duration] at hle
    simp only [channels] at hch
    simp only [sample]
    obtain ⟨hall, _⟩ := cvSeq_some ws ch none c h
    have hne : ws ≠ [] := by intro e; simp [e] at hw
    obtain ⟨x, hx, t', a, b, e⟩ := sampleSeq_piece ws ch t hne
      (fun y hy => duration_nonneg y (wfL_mem hw.1.2 y hy)) h0 hle
    rw [e]
    exact ih x hx (wfL_mem hw.1.2 x hx) ch c t' ((sameChans_mem ws _ hw.2 x hx ch).mpr hch) (hall x hx) a b
  | multi ws ih =>
    intro hw ch c t _ h h0 hle
    simp [wf] at hw
    simp only [constantValue] at h
    simp only [duration] at hle
    simp only [sample]
    obtain ⟨x, hx, hm, hc, hs⟩ := cvMulti_some ws ch c h
    rw [hs t]
    have hd := sameDur_mem ws _ hw.1.2 x hx
    exact ih x hx (wfL_mem hw.1.1.2 x hx) ch c t hm hc h0 (by rw [hd]; exact hle)
  | rep b n ih =>
    intro hw ch c t hch h h0 hle
    simp [wf] at hw
    simp only [constantValue] at h
    simp only [duration] at hle
    simp only [channels] at hch
    simp only [sample]
    obtain ⟨t', a, b', e⟩ := repSample_piece (fun t' => sample b ch t') (duration b) n t hw.2 h0 hle
    rw [e]
    exact ih hw.1 ch c t' hch h a b'
  | trans i tr ih =>
    intro hw ch c t hch h h0 hle
    simp [wf] at hw
    simp only [constantValue] at h
    simp only [duration] at hle
    simp only [channels] at hch
    simp only [sample]
    by_cases hinv : tr.isConstantInvariant = true
    · simp [hinv] at h
      have hb : BelowOn (channels i) (fun c => constantValue i c) (fun c => sample i c t) := by
        intro c' hc' x hx
        exact ih hw.1 c' x t hc' hx h0 hle
      exact trafo_below tr (channels i) hw.2 hinv _ _ hb t ch hch c h
    · simp [hinv] at h
  | subset i cs ih =>
    intro hw ch c t hch h h0 hle
    simp [wf] at hw
    simp only [constantValue] at h
    simp only [duration] at hle
    simp only [channels] at hch
    simp only [sample]
    simp [hch] at h
    exact ih hw.1 ch c t ((subsetOf_iff _ _).mp hw.2 ch hch) h h0 hle
  | arith l op r ihl ihr =>
    intro hw ch c t hch h h0 hle
    simp [wf] at hw
    simp only [constantValue] at h
    simp only [duration] at hle
    simp only [channels, mem_union] at hch
    simp only [sample]
    have hler : t ≤ duration r := by rw [← hw.2]; exact hle
    by_cases hr : ch ∈ channels r
    · simp only [hr, if_true] at h ⊢
      cases hrv : constantValue r ch with
      | none => simp [hrv] at h
      | some rv =>
        simp only [hrv] at h
        have sr := ihr hw.1.2 ch rv t hr hrv h0 hler
        by_cases hl : ch ∈ channels l
        · simp only [hl, if_true] at h ⊢
          cases hlv : constantValue l ch with
          | none => simp [hlv] at h
          | some lv =>
            simp only [hlv] at h
            have sl := ihl hw.1.1 ch lv t hl hlv h0 hle
            rw [sl, sr]; exact h
        · simp only [hl, if_false] at h ⊢
          rw [sr]; exact h
    · simp only [hr, if_false] at h ⊢
      have hl : ch ∈ channels l := by
        cases hch with
        | inl a => exact a
        | inr b => exact absurd b hr
      simp only [hl, if_true]
      exact ihl hw.1.1 ch c t hl h h0 hle
  | functor i fs ih =>
    intro hw ch c t hch h h0 hle
    simp [wf] at hw
    simp only [constantValue] at h
    simp only [duration] at hle
    simp only [channels] at hch
    simp only [sample]
    cases hv : constantValue i ch with
    | none => simp [hv] at h
    | some x =>
      simp only [hv] at h
      have si := ih hw.1 ch x t hch hv h0 hle
      cases hf : fs.lookup ch with
      | none => simp [hf] at h
      | some f =>
        simp [hf] at h
        simp [si, h]
  | reversed i ih => intro _ ch c t _ h; simp [constantValue] at h


/-! ### sampling is total on `[0, duration]` -/

theorem tableGo_acc_some (t : Rat) : ∀ (es : List Entry) (acc : Option Rat), acc.isSome = true →
    (tableGo t acc es).isSome = true := by
  intro es
  induction es with
  | nil => intro acc h; simpa [tableGo] using h
  | cons e rest ih =>
    intro acc h
    cases rest with
    | nil => simpa [tableGo] using h
    | cons e2 r =>
      simp only [tableGo]
      apply ih
      split <;> simp [h]

theorem tableGo_covered (t : Rat) : ∀ (rest : List Entry) (e : Entry) (acc : Option Rat),
    tableOk.mono (e :: rest) = true → rest ≠ [] → e.t ≤ t →
    (∀ l, (e :: rest).getLast? = some l → t ≤ l.t) → (tableGo t acc (e :: rest)).isSome = true := by
  intro rest
  induction rest with
  | nil => intro e acc _ h; exact absurd rfl h
  | cons e2 r ih =>
    intro e acc hm _ hge hlast
    simp [tableOk.mono] at hm
    simp only [tableGo]
    by_cases hle : t ≤ e2.t
    · apply tableGo_acc_some
      simp [hge, hle]
    · have hr : r ≠ [] := by
        intro hr
        subst hr
        exact hle (hlast e2 (by simp))
      have hlt : e2.t ≤ t := Rat.le_of_lt (Rat.not_le.mp hle)
      apply ih e2 _ hm.2 hr hlt
      intro l hl
      apply hlast l
      simpa [List.getLast?_cons_cons] using hl

theorem table_total (es : List Entry) (h : tableOk es = true) (t : Rat) (h0 : 0 ≤ t)
    (hle : t ≤ duration (.table ch es)) : (tableSample es t).isSome = true := by
  match es, h with
  | e1 :: e2 :: rest, h =>
    simp [tableOk] at h
    simp only [tableSample]
    apply tableGo_covered t (e2 :: rest) e1 none h.2 (by simp) (by rw [h.1]; exact h0)
    intro l hl
    simp only [duration, hl] at hle
    exact hle

theorem sampleMulti_first : ∀ (ws : List Wf) (ch : Chan), ch ∈ chanUnion ws →
    ∃ w ∈ ws, ch ∈ channels w ∧ ∀ t, sampleMulti ws ch t = sample w ch t := by
  intro ws
  induction ws with
  | nil => intro ch h; simp [chanUnion] at h
  | cons w rest ih =>
    intro ch h
    simp only [chanUnion, mem_union] at h
    by_cases hm : ch ∈ channels w
    · exact ⟨w, by simp, hm, by intro t; simp [sampleMulti, hm]⟩
    · have hr : ch ∈ chanUnion rest := by
        cases h with
        | inl a => exact absurd a hm
        | inr b => exact b
      obtain ⟨x, hx, a, b⟩ := ih ch hr
      exact ⟨x, by simp [hx], a, by intro t; simp [sampleMulti, hm, b]⟩

/-- `g` is defined (not NaN) on the channels `C` -/
def DefinedOn (C : List Chan) (g : Chan → Option Rat) : Prop := ∀ c ∈ C, (g c).isSome = true

theorem dot_defined (C : List Chan) (g : Chan → Option Rat) (hd : DefinedOn C g) :
    ∀ (row : List Rat) (l : List Chan), (∀ c ∈ l, c ∈ C) → (dot row (l.map g)).isSome = true := by
  intro row
  induction row with
  | nil => intro l _; cases l <;> simp [dot]
  | cons m ms ih =>
    intro l hl
    cases l with
    | nil => simp [dot]
    | cons c cs =>
      simp only [List.map, dot]
      have h1 := hd c (hl c (by simp))
      have h2 := ih cs (fun c' hc' => hl c' (by simp [hc']))
      cases hg : g c with
      | none => simp [hg] at h1
      | some y =>
        cases hd' : dot ms (cs.map g) with
        | none => simp [hd'] at h2
        | some z => simp [omul, oadd]

theorem atom_defined (a : TAtom) (C : List Chan) (hok : a.okOn C = true) (g : Chan → Option Rat)
    (hd : DefinedOn C g) (t : Rat) : DefinedOn (a.outputChannels C) (a.applyF t g) := by
  intro c hc
  cases a with
  | identity => exact hd c hc
  | offset m =>
    simp only [TAtom.outputChannels] at hc
    simp only [TAtom.applyF]
    have := hd c hc
    cases hg : g c with
    | none => simp [hg] at this
    | some y => cases m.lookup c <;> simp [oadd]
  | scaling m =>
    simp only [TAtom.outputChannels] at hc
    simp only [TAtom.applyF]
    have := hd c hc
    cases hg : g c with
    | none => simp [hg] at this
    | some y => cases m.lookup c <;> simp [omul]
  | linear mat ins outs =>
    simp only [TAtom.applyF]
    simp only [TAtom.outputChannels, mem_union, mem_diff] at hc
    simp only [TAtom.okOn, Bool.and_eq_true, subsetOf_iff] at hok
    cases hl : (outs.zip mat).lookup c with
    | none =>
      simp only
      have hlen : outs.length ≤ mat.length := by
        have := hok.1.2; simp at this; omega
      have hno := lookup_zip_none outs mat c hlen hl
      cases hc with
      | inl h1 => exact hd c h1.1
      | inr h2 => exact absurd h2 hno
    | some row =>
      simp only
      exact dot_defined C g hd row ins hok.1.1.1
  | parallel m =>
    simp only [TAtom.applyF]
    simp only [TAtom.outputChannels, mem_union] at hc
    cases hl : m.lookup c with
    | none =>
      simp only
      have := lookup_none_keys m c hl
      cases hc with
      | inl h1 => exact hd c h1
      | inr h2 => exact absurd h2 this
    | some tv => simp

theorem chain_defined : ∀ (as : List TAtom) (prod C : List Chan), chainOkOn as prod C = true →
    ∀ (g : Chan → Option Rat), DefinedOn C g → ∀ t,
    DefinedOn (as.foldl (fun cs a => a.outputChannels cs) C) (applyChain as t g) := by
  intro as
  induction as with
  | nil => intro _ C _ g hd t; simpa [applyChain] using hd
  | cons a rest ih =>
    intro prod C hok g hd t
    simp only [chainOkOn, Bool.and_eq_true] at hok
    simp only [applyChain, List.foldl]
    exact ih _ _ hok.2 _ (atom_defined a C hok.1.1 g hd t) t

theorem trafo_defined (tr : Trafo) (C : List Chan) (hok : tr.okOn C = true) (g : Chan → Option Rat)
    (hd : DefinedOn C g) (t : Rat) : DefinedOn (tr.outputChannels C) (tr.applyF t g) := by
  cases tr with
  | atom a => exact atom_defined a C hok g hd t
  | chain as => exact chain_defined as [] C hok g hd t

theorem lookupAll_some {α} (fs : List (Chan × α)) (cs : List Chan) (h : lookupAll fs cs = true)
    (c : Chan) (hc : c ∈ cs) : ∃ f, fs.lookup c = some f := by
  simp only [lookupAll, List.all_eq_true] at h
  exact Option.isSome_iff_exists.mp (h c hc)

theorem sample_total_aux : ∀ w : Wf, wf w = true → ∀ (ch : Chan) (t : Rat), ch ∈ channels w →
    0 ≤ t → t ≤ duration w → (sample w ch t).isSome = true := by
  intro w
  induction w using Wf.induct with
  | table ch es =>
    intro hw c t _ h0 hle
    simp only [sample]
    exact table_total es (by simpa [wf] using hw) t h0 hle
  | const d a ch => intro _ c t _ _ _; simp [sample]
  | func s i d ch => intro _ c t _ _ _; simp [sample]
  | seq ws ih =>
    intro hw ch t hch h0 hle
    simp [wf] at hw
    simp only [duration] at hle
    simp only [channels] at hch
    simp only [sample]
    have hne : ws ≠ [] := by intro e; simp [e] at hw
    obtain ⟨x, hx, t', a, b, e⟩ := sampleSeq_piece ws ch t hne
      (fun y hy => duration_nonneg y (wfL_mem hw.1.2 y hy)) h0 hle
    rw [e]
    exact ih x hx (wfL_mem hw.1.2 x hx) ch t' ((sameChans_mem ws _ hw.2 x hx ch).mpr hch) a b
  | multi ws ih =>
    intro hw ch t hch h0 hle
    simp [wf] at hw
    simp only [duration] at hle
    simp only [channels] at hch
    simp only [sample]
    obtain ⟨x, hx, hm, hs⟩ := sampleMulti_first ws ch hch
    rw [hs t]
    have hd := sameDur_mem ws _ hw.1.2 x hx
    exact ih x hx (wfL_mem hw.1.1.2 x hx) ch t hm h0 (by rw [hd]; exact hle)
  | rep b n ih =>
    intro hw ch t hch h0 hle
    simp [wf] at hw
    simp only [duration] at hle
    simp only [channels] at hch
    simp only [sample]
    obtain ⟨t', a, b', e⟩ := repSample_piece (fun t' => sample b ch t') (duration b) n t hw.2 h0 hle
    rw [e]
    exact ih hw.1 ch t' hch a b'
  | trans i tr ih =>
    intro hw ch t hch h0 hle
    simp [wf] at hw
    simp only [duration] at hle
    simp only [channels] at hch
    simp only [sample]
    have hd : DefinedOn (channels i) (fun c => sample i c t) := fun c hc => ih hw.1 c t hc h0 hle
    exact trafo_defined tr (channels i) hw.2 _ hd t ch hch
  | subset i cs ih =>
    intro hw ch t hch h0 hle
    simp [wf] at hw
    simp only [duration] at hle
    simp only [channels] at hch
    simp only [sample]
    exact ih hw.1 ch t ((subsetOf_iff _ _).mp hw.2 ch hch) h0 hle
  | arith l op r ihl ihr =>
    intro hw ch t hch h0 hle
    simp [wf] at hw
    simp only [duration] at hle
    simp only [channels, mem_union] at hch
    simp only [sample]
    have hler : t ≤ duration r := by rw [← hw.2]; exact hle
    by_cases hl : ch ∈ channels l
    · have sl := ihl hw.1.1 ch t hl h0 hle
      by_cases hr : ch ∈ channels r
      · have sr := ihr hw.1.2 ch t hr h0 hler
        simp only [hl, hr, if_true]
        cases hsl : sample l ch t with
        | none => simp [hsl] at sl
        | some a =>
          cases hsr : sample r ch t with
          | none => simp [hsr] at sr
          | some b => cases op <;> simp [ArithOp.apply, oadd, osub]
      · simp only [hl, hr, if_true, if_false]; exact sl
    · have hr : ch ∈ channels r := by
        cases hch with
        | inl a => exact absurd a hl
        | inr b => exact b
      have sr := ihr hw.1.2 ch t hr h0 hler
      simp only [hl, hr, if_true, if_false]
      cases hsr : sample r ch t with
      | none => simp [hsr] at sr
      | some b => cases op <;> simp [ArithOp.rhsOnly]
  | functor i fs ih =>
    intro hw ch t hch h0 hle
    simp [wf] at hw
    simp only [duration] at hle
    simp only [channels] at hch
    simp only [sample]
    obtain ⟨f, hf⟩ := lookupAll_some fs _ hw.2 ch hch
    have := ih hw.1 ch t hch h0 hle
    simp [hf, this]
  | reversed i ih =>
    intro hw ch t hch h0 hle
    simp [wf] at hw
    simp only [duration] at hle
    simp only [channels] at hch
    simp only [sample]
    exact ih hw ch (duration i - t) hch (by grind) (by grind)


/-! ### dictionaries -/

theorem mem_dinsert {α} (c : Chan) (v : α) : ∀ (l : List (Chan × α)) (kx : Chan × α),
    kx ∈ dinsert c v l → kx = (c, v) ∨ kx ∈ l := by
  intro l
  induction l with
  | nil => intro kx h; simp [dinsert] at h; exact Or.inl h
  | cons y ys ih =>
    intro kx h
    obtain ⟨k, x⟩ := y
    simp only [dinsert] at h
    split at h
    · rename_i hck; subst hck
      simp at h; rcases h with h | h
      · exact Or.inl h
      · exact Or.inr (by simp [h])
    · simp at h; rcases h with h | h
      · exact Or.inr (by simp [h])
      · rcases ih kx h with h' | h'
        · exact Or.inl h'
        · exact Or.inr (by simp [h'])

theorem keys_dinsert {α} (c : Chan) (v : α) : ∀ (l : List (Chan × α)) (k : Chan),
    k ∈ dkeys (dinsert c v l) ↔ k = c ∨ k ∈ dkeys l := by
  intro l
  induction l with
  | nil => intro k; simp [dinsert, dkeys]
  | cons y ys ih =>
    intro k
    obtain ⟨k0, x⟩ := y
    simp only [dinsert]
    split
    · rename_i hck; subst hck; simp [dkeys]
    · have := ih k
      simp only [dkeys, List.map_cons, List.mem_cons] at this ⊢
      rw [this]
      constructor
      · rintro (h | h | h)
        · exact Or.inr (Or.inl h)
        · exact Or.inl h
        · exact Or.inr (Or.inr h)
      · rintro (h | h | h)
        · exact Or.inr (Or.inl h)
        · exact Or.inl h
        · exact Or.inr (Or.inr h)

theorem mem_dupdate {α} : ∀ (e d : List (Chan × α)) (kx : Chan × α), kx ∈ dupdate d e → kx ∈ d ∨ kx ∈ e := by
  intro e
  induction e with
  | nil => intro d kx h; simp [dupdate] at h; exact Or.inl h
  | cons y ys ih =>
    intro d kx h
    simp only [dupdate, List.foldl] at h
    have := ih (dinsert y.1 y.2 d) kx (by simpa [dupdate] using h)
    rcases this with h1 | h1
    · rcases mem_dinsert _ _ _ _ h1 with h2 | h2
      · exact Or.inr (by simp [h2])
      · exact Or.inl h2
    · exact Or.inr (by simp [h1])

theorem keys_dupdate {α} : ∀ (e d : List (Chan × α)) (k : Chan),
    k ∈ dkeys (dupdate d e) ↔ k ∈ dkeys d ∨ k ∈ dkeys e := by
  intro e
  induction e with
  | nil => intro d k; simp [dupdate, dkeys]
  | cons y ys ih =>
    intro d k
    have := ih (dinsert y.1 y.2 d) k
    simp only [dupdate, List.foldl] at this ⊢
    rw [this, keys_dinsert]
    simp only [dkeys, List.map_cons, List.mem_cons]
    constructor
    · rintro ((h | h) | h)
      · exact Or.inr (Or.inl h)
      · exact Or.inl h
      · exact Or.inr (Or.inr h)
    · rintro (h | h | h)
      · exact Or.inl (Or.inr h)
      · exact Or.inl (Or.inl h)
      · exact Or.inr h

theorem mem_keys {α} (d : List (Chan × α)) (k : Chan) (x : α) (h : (k, x) ∈ d) : k ∈ dkeys d := by
  simp only [dkeys, List.mem_map]
  exact ⟨(k, x), h, rfl⟩

theorem keys_mem {α} (d : List (Chan × α)) (k : Chan) (h : k ∈ dkeys d) : ∃ x, (k, x) ∈ d := by
  simp only [dkeys, List.mem_map] at h
  obtain ⟨⟨k', x⟩, hm, rfl⟩ := h
  exact ⟨x, hm⟩


/-! ### `constant_value_dict` agrees with `constant_value` -/

theorem disjointGo_acc : ∀ (ws : List Wf) (acc : List Chan), disjointGo acc ws = true →
    ∀ w ∈ ws, ∀ k, k ∈ channels w → k ∉ acc := by
  intro ws
  induction ws with
  | nil => intro acc _ w hw; cases hw
  | cons y ys ih =>
    intro acc h w hw k hk
    simp only [disjointGo, Bool.and_eq_true] at h
    cases hw with
    | head =>
      intro hacc
      have : k ∈ inter (channels y) acc := by simp [hk, hacc]
      have he : inter (channels y) acc = [] := by simpa using h.1
      rw [he] at this; cases this
    | tail _ hm =>
      have := ih _ h.2 w hm k hk
      intro hacc
      exact this (by simp [hacc])

theorem disjoint_first : ∀ (ws : List Wf) (acc : List Chan), disjointGo acc ws = true →
    ∀ w ∈ ws, ∀ k, k ∈ channels w →
    cvMulti ws k = constantValue w k ∧ ∀ t, sampleMulti ws k t = sample w k t := by
  intro ws
  induction ws with
  | nil => intro acc _ w hw; cases hw
  | cons y ys ih =>
    intro acc h w hw k hk
    simp only [disjointGo, Bool.and_eq_true] at h
    cases hw with
    | head => simp [cvMulti, sampleMulti, hk]
    | tail _ hm =>
      have hny : k ∉ channels y := by
        intro hy
        exact disjointGo_acc ys _ h.2 w hm k hk (by simp [hy])
      have := ih _ h.2 w hm k hk
      simp [cvMulti, sampleMulti, hny, this]

theorem mem_chanUnion : ∀ (ws : List Wf) (k : Chan), k ∈ chanUnion ws ↔ ∃ w ∈ ws, k ∈ channels w := by
  intro ws
  induction ws with
  | nil => intro k; simp [chanUnion]
  | cons y ys ih => intro k; simp [chanUnion, ih]

theorem cvd_sound : ∀ w : Wf, wf w = true → ∀ d, constantValueDict w = some d →
    (∀ k x, (k, x) ∈ d → k ∈ channels w ∧ constantValue w k = some x) ∧
    (∀ k, k ∈ channels w → k ∈ dkeys d) := by
  intro w
  induction w using Wf.induct with
  | table ch es => intro _ d h; simp [constantValueDict] at h
  | const dur a ch =>
    intro _ d h
    simp [constantValueDict] at h
    subst h
    simp [channels, constantValue, dkeys]
  | func s i dur ch => intro _ d h; simp [constantValueDict] at h
  | seq ws ih => intro _ d h; simp [constantValueDict] at h
  | multi ws ih =>
    intro hw d h
    simp [wf] at hw
    simp only [constantValueDict] at h
    have hdis := hw.2
    have hwl := wfL_mem hw.1.1.2
    -- list statement
    have key : ∀ (l : List Wf), (∀ w ∈ l, w ∈ ws) → ∀ d, cvdMulti l = some d →
        (∀ k x, (k, x) ∈ d → ∃ w ∈ l, k ∈ channels w ∧ constantValue w k = some x) ∧
        (∀ k, k ∈ chanUnion l → k ∈ dkeys d) := by
      intro l
      induction l with
      | nil => intro _ d h; simp [cvdMulti] at h; subst h; simp [chanUnion]
      | cons y ys ihl =>
        intro hsub d h
        simp only [cvdMulti] at h
        cases hy : constantValueDict y with
        | none => simp [hy] at h
        | some dy =>
          cases hys : cvdMulti ys with
          | none => simp [hy, hys] at h
          | some dr =>
            simp [hy, hys] at h
            subst h
            have hyws : y ∈ ws := hsub y (by simp)
            obtain ⟨a1, a2⟩ := ih y hyws (hwl y hyws) dy hy
            obtain ⟨b1, b2⟩ := ihl (fun w hw => hsub w (by simp [hw])) dr hys
            constructor
            · intro k x hkx
              rcases mem_dupdate _ _ _ hkx with h1 | h1
              · exact ⟨y, by simp, a1 k x h1⟩
              · obtain ⟨w, hw, hh⟩ := b1 k x h1
                exact ⟨w, by simp [hw], hh⟩
            · intro k hk
              simp only [chanUnion, mem_union] at hk
              rw [keys_dupdate]
              rcases hk with h1 | h1
              · exact Or.inl (a2 k h1)
              · exact Or.inr (b2 k h1)
    obtain ⟨k1, k2⟩ := key ws (fun w hw => hw) d h
    constructor
    · intro k x hkx
      obtain ⟨w, hw, hk, hc⟩ := k1 k x hkx
      refine ⟨by simp only [channels]; exact (mem_chanUnion ws k).mpr ⟨w, hw, hk⟩, ?_⟩
      simp only [constantValue]
      rw [(disjoint_first ws [] hdis w hw k hk).1, hc]
    · intro k hk; exact k2 k (by simpa [channels] using hk)
  | rep b n ih =>
    intro hw d h
    simp [wf] at hw
    simp only [constantValueDict] at h
    simpa [channels, constantValue] using ih hw.1 d h
  | trans i tr ih => intro _ d h; simp [constantValueDict] at h
  | subset i cs ih =>
    intro hw d h
    simp [wf] at hw
    simp only [constantValueDict] at h
    cases hi : constantValueDict i with
    | none => simp [hi] at h
    | some di =>
      simp only [hi] at h
      obtain ⟨a1, _⟩ := ih hw.1 di hi
      have key : ∀ (l : List Chan) (d : List (Chan × Rat)),
          l.foldr (fun c acc => match acc, di.lookup c with
            | some l, some v => some (dinsert c v l)
            | _, _ => none) (some []) = some d →
          (∀ k x, (k, x) ∈ d → k ∈ l ∧ (k, x) ∈ di) ∧ (∀ k, k ∈ l → k ∈ dkeys d) := by
        intro l
        induction l with
        | nil => intro d h; simp at h; subst h; simp
        | cons c cs' ihl =>
          intro d h
          simp only [List.foldr] at h
          cases hacc : cs'.foldr (fun c acc => match acc, di.lookup c with
            | some l, some v => some (dinsert c v l)
            | _, _ => none) (some []) with
          | none => simp [hacc] at h
          | some l' =>
            cases hl : di.lookup c with
            | none => simp [hacc, hl] at h
            | some v =>
              simp [hacc, hl] at h
              subst h
              obtain ⟨b1, b2⟩ := ihl l' hacc
              constructor
              · intro k x hkx
                rcases mem_dinsert _ _ _ _ hkx with h1 | h1
                · cases h1; exact ⟨by simp, lookup_mem di c v hl⟩
                · obtain ⟨m1, m2⟩ := b1 k x h1
                  exact ⟨by simp [m1], m2⟩
              · intro k hk
                rw [keys_dinsert]
                cases hk with
                | head => exact Or.inl rfl
                | tail _ hm => exact Or.inr (b2 k hm)
      obtain ⟨k1, k2⟩ := key cs d h
      constructor
      · intro k x hkx
        obtain ⟨m1, m2⟩ := k1 k x hkx
        refine ⟨by simpa [channels] using m1, ?_⟩
        simp only [constantValue, m1, if_true]
        exact (a1 k x m2).2
      · intro k hk; exact k2 k (by simpa [channels] using hk)
  | arith l op r ihl ihr => intro _ d h; simp [constantValueDict] at h
  | functor i fs ih => intro _ d h; simp [constantValueDict] at h
  | reversed i ih =>
    intro _ d h
    simp only [constantValueDict] at h
    by_cases he : channels i = []
    · simp [he] at h; subst h; simp [channels, he]
    · simp [he] at h

/-- the dictionary reports the sample values -/
theorem cvd_sample (w : Wf) (hw : wf w = true) (d : List (Chan × Rat)) (h : constantValueDict w = some d)
    (k : Chan) (x : Rat) (hk : (k, x) ∈ d) (t : Rat) (h0 : 0 ≤ t) (hle : t ≤ duration w) :
    sample w k t = some x := by
  obtain ⟨a, _⟩ := cvd_sound w hw d h
  exact constant_sound_aux w hw k x t (a k x hk).1 (a k x hk).2 h0 hle


/-! ### `ConstantWaveform.from_mapping` -/

theorem mem_insertByKey (w : Wf) : ∀ (l : List Wf) (x : Wf), x ∈ insertByKey w l ↔ x = w ∨ x ∈ l := by
  intro l
  induction l with
  | nil => intro x; simp [insertByKey]
  | cons y ys ih =>
    intro x
    simp only [insertByKey]
    split
    · simp only [List.mem_cons, ih]
      constructor
      · rintro (h | h | h)
        · exact Or.inr (Or.inl h)
        · exact Or.inl h
        · exact Or.inr (Or.inr h)
      · rintro (h | h | h)
        · exact Or.inr (Or.inl h)
        · exact Or.inl h
        · exact Or.inr (Or.inr h)
    · simp

theorem mem_sortByChannels : ∀ (l : List Wf) (x : Wf), x ∈ sortByChannels l ↔ x ∈ l := by
  intro l
  induction l with
  | nil => intro x; simp [sortByChannels]
  | cons y ys ih =>
    intro x
    simp only [sortByChannels, List.foldr] at ih ⊢
    rw [mem_insertByKey, ih]
    simp

/-- `d` assigns at most one value to a channel -/
def Functional (d : List (Chan × Rat)) : Prop := ∀ k x y, (k, x) ∈ d → (k, y) ∈ d → x = y

theorem sampleMulti_consts (dur : Rat) (d : List (Chan × Rat)) (hf : Functional d) (k : Chan) (x : Rat)
    (hk : (k, x) ∈ d) (t : Rat) : ∀ (L : List Wf),
    (∀ w ∈ L, ∃ c a, w = .const dur a c ∧ (c, a) ∈ d) → (∃ w ∈ L, k ∈ channels w) →
    sampleMulti L k t = some x := by
  intro L
  induction L with
  | nil => intro _ h; obtain ⟨w, hw, _⟩ := h; cases hw
  | cons y ys ih =>
    intro hall hex
    obtain ⟨c, a, hy, hca⟩ := hall y (by simp)
    simp only [sampleMulti]
    by_cases hm : k ∈ channels y
    · simp only [hm, if_true]
      subst hy
      simp [channels] at hm
      subst hm
      simp [sample, hf k a x hca hk]
    · simp only [hm, if_false]
      apply ih (fun w hw => hall w (by simp [hw]))
      obtain ⟨w, hw, hkw⟩ := hex
      cases hw with
      | head => exact absurd hkw hm
      | tail _ h => exact ⟨w, h, hkw⟩

theorem fromMapping_sound (dur : Rat) (d : List (Chan × Rat)) (s : Wf) (h : fromMapping dur d = .ok s)
    (hf : Functional d) :
    duration s = dur ∧ (∀ k, k ∈ channels s ↔ k ∈ dkeys d) ∧
    ∀ k x, (k, x) ∈ d → ∀ t, sample s k t = some x := by
  match d, h with
  | [(c, a)], h =>
    simp [fromMapping] at h
    subst h
    refine ⟨by simp [duration], by simp [channels, dkeys], ?_⟩
    intro k x hk t
    simp at hk
    simp [sample, hk.2]
  | kv1 :: kv2 :: rest, h =>
    simp only [fromMapping, mkMulti] at h
    split at h
    · cases h
    · split at h
      · cases h
      · split at h
        · cases h
        · injection h with h
          subst h
          generalize hd : (kv1 :: kv2 :: rest) = d at *
          have hall : ∀ w ∈ sortByChannels (d.map (fun ca => Wf.const dur ca.2 ca.1)),
              ∃ c a, w = .const dur a c ∧ (c, a) ∈ d := by
            intro w hw
            rw [mem_sortByChannels] at hw
            simp only [List.mem_map] at hw
            obtain ⟨⟨c, a⟩, hm, rfl⟩ := hw
            exact ⟨c, a, rfl, hm⟩
          have hchan : ∀ k, k ∈ chanUnion (sortByChannels (d.map (fun ca => Wf.const dur ca.2 ca.1))) ↔
              k ∈ dkeys d := by
            intro k
            rw [mem_chanUnion]
            constructor
            · rintro ⟨w, hw, hk⟩
              obtain ⟨c, a, rfl, hca⟩ := hall w hw
              simp [channels] at hk
              subst hk
              exact mem_keys d k a hca
            · intro hk
              obtain ⟨x, hx⟩ := keys_mem d k hk
              refine ⟨.const dur x k, ?_, by simp [channels]⟩
              rw [mem_sortByChannels]
              simp only [List.mem_map]
              exact ⟨(k, x), hx, rfl⟩
          refine ⟨?_, by simpa [channels] using hchan, ?_⟩
          · simp only [duration]
            cases hs : sortByChannels (d.map (fun ca => Wf.const dur ca.2 ca.1)) with
            | nil =>
              have : Wf.const dur kv1.2 kv1.1 ∈ sortByChannels (d.map (fun ca => Wf.const dur ca.2 ca.1)) := by
                rw [mem_sortByChannels, ← hd]; simp
              rw [hs] at this; cases this
            | cons y ys =>
              obtain ⟨c, a, hy, _⟩ := hall y (by rw [hs]; simp)
              simp [durHead, hy, duration]
          · intro k x hk t
            simp only [sample]
            apply sampleMulti_consts dur d hf k x hk t _ hall
            have := (hchan k).mpr (mem_keys d k x hk)
            exact (mem_chanUnion _ k).mp this

end QP.C08
