import QP.Model.PT
import QP.Proofs.PTAtomsW
import QP.Proofs.PTTableS
/-! Waveform level: a waveform built by `build_waveform` plays the pulse the template denotes (`WfRel`), and how
that carries over to the leaf `AtomicPulseTemplate._internal_create_program` appends (`BuildOK → AtomOK`). -/
namespace QP.PT

/-- a waveform plays a (non-empty) pulse -/
structure WfRel (w : Wf) (P : Pulse) : Prop where
  dur : w.duration = P.dur
  ne : P.chans ≠ []
  chans : w.channels = P.chanNames
  plDur : ∀ c pl, P.chans.lookup c = some pl → PL.dur pl = P.dur
  plPos : ∀ c pl, P.chans.lookup c = some pl → pl.pos
  sample : ∀ c pl, P.chans.lookup c = some pl → ∀ t, 0 ≤ t → t < P.dur → w.sample c t = PL.at pl t

/-- waveforms without inner structure -/
inductive LeafWf : Wf → Prop
  | table (ch es) : LeafWf (.table ch es)
  | const (d ch v) : LeafWf (.const d ch v)
  | func (ch d e env) : LeafWf (.func ch d e env)

/-- a leaf or a `MultiChannelWaveform` of leaves -/
inductive FlatWf : Wf → Prop
  | leaf {w} : LeafWf w → FlatWf w
  | multi {subs} : (∀ s ∈ subs, LeafWf s) → FlatWf (.multi subs)

/-- the `hold_voltage` shortcut can be taken literally: the waveform either reports no constant values or is flat -/
def Collapsible (w : Wf) : Prop := w.constDict = none ∨ FlatWf w

theorem constDictAll_leaves : ∀ (subs : List Wf) (cv : List (Chan × Rat)), (∀ s ∈ subs, LeafWf s) →
    Wf.constDictAll subs = some cv →
    Wf.channelsAll subs = cv.map (·.1) ∧ ∀ c v t, cv.lookup c = some v → Wf.sampleMulti subs c t = some v := by
  intro subs
  induction subs with
  | nil =>
    intro cv _ h
    simp only [Wf.constDictAll, Option.some.injEq] at h
    subst h
    simp [Wf.channelsAll]
  | cons s ss ih =>
    intro cv hl h
    simp only [Wf.constDictAll] at h
    cases hs : s.constDict with
    | none => simp [hs] at h
    | some a =>
      cases hss : Wf.constDictAll ss with
      | none => simp [hs, hss] at h
      | some b =>
        simp only [hs, hss, Option.some.injEq] at h
        subst h
        have hleaf := hl s (by simp)
        obtain ⟨hc, hsmp⟩ := ih b (fun x hx => hl x (by simp [hx])) hss
        cases hleaf with
        | table ch es => simp [Wf.constDict] at hs
        | func ch d e env => simp [Wf.constDict] at hs
        | const d ch v =>
          simp only [Wf.constDict, Option.some.injEq] at hs
          subst hs
          refine ⟨by simp [Wf.channelsAll, Wf.channels, hc], ?_⟩
          intro c v' t hlk
          simp only [List.cons_append, List.nil_append, List.lookup_cons] at hlk
          simp only [Wf.sampleMulti, Wf.channels]
          by_cases hk : c == ch
          · simp only [hk] at hlk
            cases hlk
            have : c = ch := by simpa using hk
            simp [this, Wf.sample]
          · simp only [hk] at hlk
            have : ¬ c = ch := by simpa using hk
            simp only [List.contains_cons, List.contains_nil, Bool.or_false, hk, Bool.false_eq_true, if_false]
            exact hsmp c v' t hlk

/-- `constant_value_dict` of a flat waveform is sound -/
theorem constDict_sound_flat {w : Wf} (hf : FlatWf w) {cv : List (Chan × Rat)} (h : w.constDict = some cv) :
    w.channels = cv.map (·.1) ∧ ∀ c v t, cv.lookup c = some v → w.sample c t = some v := by
  cases hf with
  | leaf hl =>
    cases hl with
    | table ch es => simp [Wf.constDict] at h
    | func ch d e env => simp [Wf.constDict] at h
    | const d ch v =>
      simp only [Wf.constDict, Option.some.injEq] at h
      subst h
      refine ⟨by simp [Wf.channels], ?_⟩
      intro c v' t hlk
      simp only [List.lookup_cons, List.lookup_nil] at hlk
      by_cases hk : c == ch
      · simp only [hk] at hlk; cases hlk; simp [Wf.sample]
      · simp [hk] at hlk
  | multi hl =>
    simp only [Wf.constDict] at h
    obtain ⟨hc, hs⟩ := constDictAll_leaves _ cv hl h
    exact ⟨by simpa [Wf.channels] using hc, fun c v t hlk => by simpa [Wf.sample] using hs c v t hlk⟩

/-- the leaf that is appended: the waveform itself or its `hold_voltage` replacement -/
theorem atomItems_shape' {pt : PT} {σ : Scope} {mm : List (MName × Option MName)} {cm : List (Chan × Option Chan)}
    {items : List Item} (h : atomItems pt (ctx0 σ mm cm) = .ok items) :
    (buildWaveform pt σ cm = .ok none ∧ items = []) ∨
    (∃ w ms w', buildWaveform pt σ cm = .ok (some w) ∧ atomicMeas pt σ mm = .ok ms ∧
      ((w' = w ∧ w.constDict = none) ∨ ∃ cv, w.constDict = some cv ∧ constFromMapping w.duration cv = .ok w') ∧
      items = (if ms.isEmpty then [] else [Item.measure ms]) ++ [Item.node (leaf w')]) := by
  simp only [atomItems, ctx0, bind_ok] at h
  obtain ⟨w?, hw, h⟩ := h
  cases w? with
  | none =>
    simp only [pure_ok] at h
    exact Or.inl ⟨hw, h.symm⟩
  | some w =>
    right
    simp only [bind_ok] at h
    obtain ⟨ms, hms, h⟩ := h
    simp only [List.isEmpty_nil, if_true, pure_bind] at h
    cases hcd : w.constDict with
    | none =>
      simp only [hcd, pure_bind, pure_ok] at h
      exact ⟨w, ms, w, hw, hms, Or.inl ⟨rfl, hcd⟩, h.symm⟩
    | some cv =>
      simp only [hcd, bind_ok, pure_ok] at h
      obtain ⟨w', hw', h⟩ := h
      exact ⟨w, ms, w', hw, hms, Or.inr ⟨cv, hcd, hw'⟩, h.symm⟩

/-- the `hold_voltage` replacement of a collapsible waveform plays the same pulse -/
theorem WfRel.collapse {w w' : Wf} {P : Pulse} (h : WfRel w P) (hc : Collapsible w) {cv : List (Chan × Rat)}
    (hcv : w.constDict = some cv) (hw' : constFromMapping w.duration cv = .ok w') : WfRel w' P := by
  rcases hc with hn | hf
  · rw [hn] at hcv; cases hcv
  · obtain ⟨hch, hs⟩ := constDict_sound_flat hf hcv
    obtain ⟨hd', _, hch', hs'⟩ := constFromMapping_spec hw'
    refine ⟨by rw [hd', h.dur], h.ne, ?_, h.plDur, h.plPos, ?_⟩
    · rw [hch', ← hch]; exact h.chans
    · intro c pl hpl t ht0 ht
      have hmem : c ∈ w.channels := by
        rw [h.chans]; simpa [Pulse.chanNames] using mem_keys_of_lookup _ _ _ hpl
      rw [hch] at hmem
      obtain ⟨v, hv⟩ := lookup_some_of_mem_keys cv c hmem
      rw [hs' c v t hv, ← hs c v t hv]
      exact h.sample c pl hpl t ht0 ht

/-- what has to hold of `build_waveform` of an atomic template: no waveform ⇔ the empty pulse; a waveform has the
duration of the (non-empty) pulse and, if that is positive, plays it -/
def BuildOK (pt : PT) : Prop :=
  ∀ σ mm cm w? P, buildWaveform pt σ cm = .ok w? → denote pt σ mm cm = .ok P →
    match w? with
    | none => P = Pulse.empty
    | some w => P.chans ≠ [] ∧ w.duration = P.dur ∧ w.channels = P.chanNames ∧
        (0 < w.duration → WfRel w P ∧ Collapsible w) ∧
        ∀ ms, atomicMeas pt σ mm = .ok ms → P.windows = ms

theorem BuildOK.of_rel {w : Wf} {P : Pulse} {pt : PT} {σ : Scope} {mm : List (MName × Option MName)}
    (h : WfRel w P ∧ Collapsible w ∧ ∀ ms, atomicMeas pt σ mm = .ok ms → P.windows = ms) :
    P.chans ≠ [] ∧ w.duration = P.dur ∧ w.channels = P.chanNames ∧ (0 < w.duration → WfRel w P ∧ Collapsible w) ∧
        ∀ ms, atomicMeas pt σ mm = .ok ms → P.windows = ms :=
  ⟨h.1.ne, h.1.dur, h.1.chans, fun _ => ⟨h.1, h.2.1⟩, h.2.2⟩

/-- from the waveform to the appended leaf -/
theorem atomOK_of_buildOK {pt : PT} (hb : BuildOK pt) : AtomOK pt := by
  intro σ mm cm items P h1 h2 hpos
  rcases atomItems_shape' h1 with ⟨hw, rfl⟩ | ⟨w, ms, w', hw, hms, hw', rfl⟩
  · have := hb σ mm cm none P hw h2
    simp only at this
    subst this
    exact Rel.nil
  · obtain ⟨_, hdur, _, hrelc, hwin⟩ := hb σ mm cm (some w) P hw h2
    have hw'dur : w'.duration = w.duration := by
      rcases hw' with ⟨rfl, _⟩ | ⟨cv, _, hcm⟩
      · rfl
      · exact (constFromMapping_spec hcm).1
    have hwpos : 0 < w.duration := by
      rw [nodesOf_append] at hpos
      have := (allPosList_append.mp hpos).2
      simp only [nodesOf] at this
      have := Loop.allPos_duration_pos _ (allPosList_cons.mp this).1
      rw [leaf_duration, hw'dur] at this
      exact this
    obtain ⟨hrel, hcol⟩ := hrelc hwpos
    have hrel' : WfRel w' P := by
      rcases hw' with ⟨rfl, _⟩ | ⟨cv, hcv, hcm⟩
      · exact hrel
      · exact hrel.collapse hcol hcv hcm
    have hP : P = { dur := P.dur, chans := P.chans, windows := ms } := by
      rw [← hwin ms hms]
    have hdpos : 0 < P.dur := by rw [← hdur]; exact hwpos
    rw [hP]
    apply rel_single_leaf w' ms P.dur hdpos hrel'.dur P.chans hrel'.ne
    · intro x; rw [hrel'.chans]; simp [Pulse.chanNames]
    · intro c pl hc
      exact ⟨hrel'.plDur c pl hc, hrel'.plPos c pl hc, hrel'.sample c pl hc⟩

end QP.PT
