import QP.Proofs.C05Compile
/-!
# C05: the two open findings on the model (concrete witnesses)
-/
namespace QP.C05
open QP.PT

deriving instance DecidableEq for QP.PT.Trafo

/-! ## PF-11 on the model: `2 * ParallelChannelPT(f, {'B': 1})` -/

def pf11F : PT := .func none "A" (.lit 2) (.var "t") [] []
def pf11P : PT := .parallel (some "pc") pf11F [("B", .lit 1)]
def pf11X : PT := .arith none pf11P .times (.uniform (.lit 2)) false
def pf11Ctx (S : List String) : Ctx :=
  { scope := .dict [], mm := [], cm := [("A", some "A"), ("B", some "B")], single := S }

/-- the waveforms of the leaves of a list of items -/
def leafWfs : List Item → List Wf
  | [] => []
  | .measure _ :: r => leafWfs r
  | .node (.mk _ (some w) _ []) :: r => w :: leafWfs r
  | .node _ :: r => leafWfs r

/-- `w` is `inner` (not defining `c`) under exactly the chains `Ts` (outermost first) -/
def underChains (c : Chan) : Wf → List Chain → Bool
  | .trafo i T, T' :: r => decide (T = T') && underChains c i r
  | w, [] => !w.channels.contains c
  | _, _ => false

theorem pv_underChains (c : Chan) (t : Rat) : ∀ (w : Wf) (Ts : List Chain), underChains c w Ts = true →
    pv w c t = Ts.foldr (fun T x => Chain.chanF T c x) none
  | w, [], h => by
      have : w.channels.contains c = false := by
        cases w <;> simp_all [underChains]
      unfold pv
      rw [this]
      rfl
  | .trafo i T, T' :: r, h => by
      simp only [underChains, Bool.and_eq_true, decide_eq_true_eq] at h
      rw [pv_trafo, pv_underChains c t i r h.2, h.1]
      rfl
  | .table _ _, _ :: _, h => by simp [underChains] at h
  | .const _ _ _, _ :: _, h => by simp [underChains] at h
  | .func _ _ _ _, _ :: _, h => by simp [underChains] at h
  | .multi _, _ :: _, h => by simp [underChains] at h
  | .seq _, _ :: _, h => by simp [underChains] at h
  | .rep _ _, _ :: _, h => by simp [underChains] at h
  | .arith _ _ _, _ :: _, h => by simp [underChains] at h
  | .neg _, _ :: _, h => by simp [underChains] at h
  | .reversed _, _ :: _, h => by simp [underChains] at h

def pf11Check (S : List String) (Ts : List Chain) : Bool :=
  match compile pf11X (pf11Ctx S) with
  | .ok I => (match leafWfs I with
      | [w] => underChains "B" w Ts
      | _ => false)
  | .error _ => false

theorem pf11_shapes :
    pf11Check [] [[.scaling [("A", 2), ("B", 2)], .parallel [("B", 1)]]] = true ∧
    pf11Check ["pc"] [[.scaling [("A", 2), ("B", 2)]], [.parallel [("B", 1)]]] = true := by
  decide +kernel

/-- PF-11 on the model: the single played waveform of `2 * ParallelChannelPT(f, {'B': 1})` samples `B = 1` with
the default options and `B = 2` when the ParallelChannelPT is collapsed (`to_single_waveform = {'pc'}`) — the full
statement `collapse_invariant` is false of the code -/
theorem pf11_model (t : Rat) :
    (∃ I w, compile pf11X (pf11Ctx []) = .ok I ∧ leafWfs I = [w] ∧ pv w "B" t = some (some 1)) ∧
    (∃ I w, compile pf11X (pf11Ctx ["pc"]) = .ok I ∧ leafWfs I = [w] ∧ pv w "B" t = some (some 2)) := by
  obtain ⟨h1, h2⟩ := pf11_shapes
  constructor
  · unfold pf11Check at h1
    cases hc : compile pf11X (pf11Ctx []) with
    | error e => simp [hc] at h1
    | ok I =>
      simp only [hc] at h1
      match hl : leafWfs I, h1 with
      | [w], h1 =>
        refine ⟨I, w, rfl, hl, ?_⟩
        rw [pv_underChains "B" t w _ h1]
        decide +kernel
  · unfold pf11Check at h2
    cases hc : compile pf11X (pf11Ctx ["pc"]) with
    | error e => simp [hc] at h2
    | ok I =>
      simp only [hc] at h2
      match hl : leafWfs I, h2 with
      | [w], h2 =>
        refine ⟨I, w, rfl, hl, ?_⟩
        rw [pv_underChains "B" t w _ h2]
        decide +kernel

deriving instance DecidableEq for QP.PT.WEntry

/-! ## PF-04-junction on the model -/

def j04A : PT := .table none [("A", [⟨.lit 0, .lit 1, .hold⟩, ⟨.lit 1, .lit 2, .linear⟩])] [] []
def j04B : PT := .table none [("A", [⟨.lit 0, .lit 5, .hold⟩, ⟨.lit 1, .lit 7, .linear⟩])] [] []
def j04S : PT := .seq (some "s") [j04A, j04B] [] []
def j04X : PT := .timeReversal none (.seq none [j04S, j04B] [] [])
def j04Ctx (S : List String) : Ctx := { scope := .dict [], mm := [], cm := [("A", some "A")], single := S }
def j04wA : Wf := .table "A" [⟨0, 1, .hold⟩, ⟨1, 2, .linear⟩]
def j04wB : Wf := .table "A" [⟨0, 5, .hold⟩, ⟨1, 7, .linear⟩]

/-- tables under a reversal: `reversed(table)` or `reversed(seq [table, table])` -/
def revTables : Wf → Option (List (Chan × List WEntry))
  | .reversed i => (match i with
      | .table c es => some [(c, es)]
      | .seq ws => (match ws with
          | [x, y] => (match x, y with
              | .table c1 e1, .table c2 e2 => some [(c1, e1), (c2, e2)]
              | _, _ => none)
          | _ => none)
      | _ => none)
  | _ => none

theorem revTables_one (w : Wf) (c : Chan) (es : List WEntry) (h : revTables w = some [(c, es)]) :
    w = .reversed (.table c es) := by
  unfold revTables at h
  split at h
  · rename_i i
    split at h
    · simp only [Option.some.injEq, List.cons.injEq, Prod.mk.injEq, and_true] at h
      obtain ⟨rfl, rfl⟩ := h; rfl
    · split at h
      · split at h
        · simp at h
        · cases h
      · cases h
    · cases h
  · cases h

theorem revTables_two (w : Wf) (c1 c2 : Chan) (e1 e2 : List WEntry)
    (h : revTables w = some [(c1, e1), (c2, e2)]) : w = .reversed (.seq [.table c1 e1, .table c2 e2]) := by
  unfold revTables at h
  split at h
  · rename_i i
    split at h
    · simp at h
    · split at h
      · split at h
        · simp only [Option.some.injEq, List.cons.injEq, Prod.mk.injEq, and_true] at h
          obtain ⟨⟨rfl, rfl⟩, rfl, rfl⟩ := h; rfl
        · cases h
      · cases h
    · cases h
  · cases h

/-- waveforms of the loops two levels deep (the root a time reversal appends has the leaves as children) -/
def revLeaves : List Item → List Wf
  | [] => []
  | .measure _ :: r => revLeaves r
  | .node (.mk _ _ _ cs) :: r => cs.filterMap (fun l => l.wf) ++ revLeaves r

def j04Shape (S : List String) : Option (List (Option (List (Chan × List WEntry)))) :=
  match compile j04X (j04Ctx S) with
  | .ok I => some ((revLeaves I).map revTables)
  | .error _ => none

def j04Check (S : List String) (expected : List (Option (List (String × List WEntry)))) : Bool :=
  match j04Shape S with
  | some l => decide (l = expected)
  | none => false

theorem j04_shapes :
    j04Check [] [some [("A", [⟨0, 5, .hold⟩, ⟨1, 7, .linear⟩])], some [("A", [⟨0, 5, .hold⟩, ⟨1, 7, .linear⟩])],
      some [("A", [⟨0, 1, .hold⟩, ⟨1, 2, .linear⟩])]] = true ∧
    j04Check ["s"] [some [("A", [⟨0, 5, .hold⟩, ⟨1, 7, .linear⟩])],
      some [("A", [⟨0, 1, .hold⟩, ⟨1, 2, .linear⟩]), ("A", [⟨0, 5, .hold⟩, ⟨1, 7, .linear⟩])]] = true := by
  decide +kernel

/-- the third played waveform of the default program starts (program time 2) on the END value of table `a` … -/
theorem j04_default_value : (Wf.reversed j04wA).sample "A" 0 = some 2 := by
  simp only [Wf.sample, Wf.duration, j04wA, lastT, tableSample]
  decide +kernel

/-- … the collapsed sequence, reversed as a whole, is sampled at its inner boundary there (local time 1) and
takes the START value of table `b` -/
theorem j04_collapsed_value : (Wf.reversed (.seq [j04wA, j04wB])).sample "A" 1 = some 5 := by
  simp only [Wf.sample, Wf.duration, Wf.sumDuration, Wf.sampleSeq, j04wA, j04wB, lastT, tableSample]
  decide +kernel


theorem map_eq_two {α β} (f : α → β) (l : List α) (x y : β) (h : l.map f = [x, y]) :
    ∃ a b, l = [a, b] ∧ f a = x ∧ f b = y := by
  match l, h with
  | [a, b], h => simp at h; exact ⟨a, b, rfl, h.1, h.2⟩

theorem map_eq_three {α β} (f : α → β) (l : List α) (x y z : β) (h : l.map f = [x, y, z]) :
    ∃ a b c, l = [a, b, c] ∧ f a = x ∧ f b = y ∧ f c = z := by
  match l, h with
  | [a, b, c], h => simp at h; exact ⟨a, b, c, rfl, h.1, h.2.1, h.2.2⟩

theorem j04_dur_B : (Wf.reversed j04wB).duration = 1 := by
  simp only [Wf.duration, j04wB, lastT]

/-- PF-04-junction on the model: `TimeReversalPT(SequencePT(SequencePT(a, b, identifier='s'), b))` at program
time 2 (the third played waveform of the default program at its local time 0; the second played waveform of the
program with `to_single_waveform = {'s'}` at its local time 1) plays 2 by default and 5 when `s` is collapsed -/
theorem pf04_junction_model :
    (∃ I a b c, compile j04X (j04Ctx []) = .ok I ∧ revLeaves I = [a, b, c] ∧ a.duration = 1 ∧ b.duration = 1 ∧
      c.sample "A" 0 = some 2) ∧
    (∃ I a b, compile j04X (j04Ctx ["s"]) = .ok I ∧ revLeaves I = [a, b] ∧ a.duration = 1 ∧
      b.sample "A" 1 = some 5) := by
  obtain ⟨h1, h2⟩ := j04_shapes
  constructor
  · unfold j04Check j04Shape at h1
    cases hc : compile j04X (j04Ctx []) with
    | error e => simp [hc] at h1
    | ok I =>
      simp only [hc, decide_eq_true_eq] at h1
      obtain ⟨a, b, c, hl, ha, hb, hcc⟩ := map_eq_three _ _ _ _ _ h1
      · have ea := revTables_one a _ _ ha
        have eb := revTables_one b _ _ hb
        have ec := revTables_one c _ _ hcc
        refine ⟨I, a, b, c, rfl, hl, ?_, ?_, ?_⟩
        · rw [ea]; exact j04_dur_B
        · rw [eb]; exact j04_dur_B
        · rw [ec]; exact j04_default_value
  · unfold j04Check j04Shape at h2
    cases hc : compile j04X (j04Ctx ["s"]) with
    | error e => simp [hc] at h2
    | ok I =>
      simp only [hc, decide_eq_true_eq] at h2
      obtain ⟨a, b, hl, ha, hb⟩ := map_eq_two _ _ _ _ h2
      · have ea := revTables_one a _ _ ha
        have eb := revTables_two b _ _ _ _ hb
        refine ⟨I, a, b, rfl, hl, ?_, ?_⟩
        · rw [ea]; exact j04_dur_B
        · rw [eb]; exact j04_collapsed_value

end QP.C05
