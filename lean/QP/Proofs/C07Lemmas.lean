import QP.Model.C07
/-!
# C07 helper lemmas: `Except` plumbing, piecewise linear lists, channel lookups in denoted pulses
-/
namespace QP.C07
open QP.PT

/-! ## `Except` -/

theorem bind_ok_iff {α β} {x : Except Err α} {f : α → Except Err β} {b : β} :
    (x >>= f) = .ok b ↔ ∃ a, x = .ok a ∧ f a = .ok b := by
  cases x with
  | error e => simp [bind, Except.bind]
  | ok a => simp [bind, Except.bind]

@[simp] theorem pure_ok_iff {α} {a b : α} : (pure a : Except Err α) = .ok b ↔ a = b := by
  simp [pure, Except.pure]

@[simp] theorem ok_bind {α β} (a : α) (f : α → Except Err β) : ((Except.ok a : Except Err α) >>= f) = f a := rfl

@[simp] theorem error_bind {α β} (e : Err) (f : α → Except Err β) :
    ((Except.error e : Except Err α) >>= f) = .error e := rfl

theorem keyOf_ok_iff {α} {o : Option α} {a : α} : keyOf o = .ok a ↔ o = some a := by
  cases o <;> simp [keyOf]

/-! ## Piecewise linear lists -/

theorem plIntegral_append (p q : PL) : plIntegral (p ++ q) = plIntegral p + plIntegral q := by
  induction p with
  | nil => simp [plIntegral, Rat.zero_add]
  | cons s rest ih => simp only [List.cons_append, plIntegral, ih]; grind

theorem plIntegral_flatten (ps : List PL) : plIntegral ps.flatten = (ps.map plIntegral).sum := by
  induction ps with
  | nil => simp [plIntegral]
  | cons p rest ih => simp [plIntegral_append, ih]

theorem PL_replicate_zero (p : PL) : PL.replicate 0 p = [] := by simp [PL.replicate]

theorem PL_replicate_succ (n : Nat) (p : PL) : PL.replicate (n + 1) p = p ++ PL.replicate n p := by
  simp [PL.replicate, List.replicate_succ]

theorem PL_replicate_nil (n : Nat) : PL.replicate n [] = [] := by
  induction n with
  | zero => exact PL_replicate_zero _
  | succ n ih => rw [PL_replicate_succ, ih]; rfl

theorem plIntegral_replicate (n : Nat) (p : PL) : plIntegral (PL.replicate n p) = (n : Rat) * plIntegral p := by
  induction n with
  | zero => simp [PL_replicate_zero, plIntegral]
  | succ n ih =>
    rw [PL_replicate_succ, plIntegral_append, ih]
    have : ((n + 1 : Nat) : Rat) = (n : Rat) + 1 := by simp
    rw [this]; grind

theorem plLast_append_of_ne_nil (p q : PL) (hq : q ≠ []) : plLast (p ++ q) = plLast q := by
  induction p with
  | nil => rfl
  | cons s rest ih =>
    cases h : rest ++ q with
    | nil => simp at h; exact absurd h.2 hq
    | cons t more =>
      simp only [List.cons_append, h, plLast]
      rw [← h]; exact ih

theorem plLast_append_nil (p : PL) : plLast (p ++ []) = plLast p := by simp

theorem plEnd_first_append_of_ne_nil (p q : PL) (hp : p ≠ []) : plEnd .first (p ++ q) = plEnd .first p := by
  cases p with
  | nil => exact absurd rfl hp
  | cons s rest => rfl

theorem plEnd_last_append_of_ne_nil (p q : PL) (hq : q ≠ []) : plEnd .last (p ++ q) = plEnd .last q := by
  simp only [plEnd]; exact plLast_append_of_ne_nil p q hq

theorem plEnd_nil (e : End) : plEnd e [] = none := by cases e <;> rfl

theorem plEnd_replicate (e : End) (n : Nat) (p : PL) (hn : 0 < n) : plEnd e (PL.replicate n p) = plEnd e p := by
  by_cases hp : p = []
  · subst hp; rw [PL_replicate_nil]
  · cases e with
    | first =>
      obtain ⟨m, rfl⟩ : ∃ m, n = m + 1 := ⟨n - 1, by omega⟩
      rw [PL_replicate_succ, plEnd_first_append_of_ne_nil _ _ hp]
    | last =>
      induction n with
      | zero => omega
      | succ m ih =>
        rw [PL_replicate_succ]
        by_cases hm : m = 0
        · subst hm; rw [PL_replicate_zero]; simp
        · have : PL.replicate m p ≠ [] := by
            obtain ⟨k, rfl⟩ : ∃ k, m = k + 1 := ⟨m - 1, by omega⟩
            rw [PL_replicate_succ]; simp [hp]
          rw [plEnd_last_append_of_ne_nil _ _ this]
          exact ih (by omega)

/-! ## Channels of denoted pulses -/

theorem lookup_map_snd {β γ} (l : List (String × β)) (g : β → γ) (k : String) :
    (l.map (fun x => (x.1, g x.2))).lookup k = (l.lookup k).map g := by
  induction l with
  | nil => rfl
  | cons x rest ih =>
    simp only [List.map, List.lookup]
    cases h : k == x.1 <;> simp [ih]

theorem lookup_map_key {β γ} (l : List (String × β)) (g : String → β → γ) (k : String) :
    (l.map (fun x => (x.1, g x.1 x.2))).lookup k = (l.lookup k).map (g k) := by
  induction l with
  | nil => rfl
  | cons x rest ih =>
    simp only [List.map, List.lookup]
    cases h : k == x.1
    · simp [ih]
    · have : k = x.1 := by simpa using h
      simp [this]

theorem lookup_eq_none_of_not_mem {β} (l : List (String × β)) (k : String) (h : k ∉ l.map (·.1)) :
    l.lookup k = none := by
  induction l with
  | nil => rfl
  | cons x rest ih =>
    simp only [List.map, List.mem_cons, not_or] at h
    simp only [List.lookup]
    have : (k == x.1) = false := by simpa using h.1
    rw [this]; exact ih h.2

theorem mem_keys_of_lookup {β} (l : List (String × β)) (k : String) (v : β) (h : l.lookup k = some v) :
    k ∈ l.map (·.1) := by
  induction l with
  | nil => simp [List.lookup] at h
  | cons x rest ih =>
    simp only [List.lookup] at h
    cases hk : k == x.1
    · rw [hk] at h; simp only [List.map, List.mem_cons]; right; exact ih h
    · have : k = x.1 := by simpa using hk
      simp [this]

theorem lookup_isSome_of_mem_keys {β} (l : List (String × β)) (k : String) (h : k ∈ l.map (·.1)) :
    ∃ v, l.lookup k = some v := by
  induction l with
  | nil => simp at h
  | cons x rest ih =>
    simp only [List.lookup]
    cases hk : k == x.1
    · simp only [List.map, List.mem_cons] at h
      rcases h with h | h
      · have : (k == x.1) = true := by simp [h]
        rw [this] at hk; cases hk
      · exact ih h
    · exact ⟨x.2, rfl⟩

theorem pulseVal_of_isEmpty {p : Pulse} (h : p.isEmpty = true) (o : Chan) : pulseVal p o = [] := by
  unfold Pulse.isEmpty at h
  have : p.chans = [] := by simpa using h
  simp [pulseVal, this, List.lookup]

theorem pulseVal_empty (o : Chan) : pulseVal Pulse.empty o = [] := rfl

theorem sameSet_mem {a b : List String} (h : sameSet a b = true) (x : String) : x ∈ a ↔ x ∈ b := by
  simp only [sameSet, Bool.and_eq_true, List.all_eq_true, List.contains_iff_mem] at h
  exact ⟨fun hx => h.1 x hx, fun hx => h.2 x hx⟩

theorem pulseVal_append {p q r : Pulse} (h : p.append q = .ok r) (o : Chan) :
    pulseVal r o = pulseVal p o ++ pulseVal q o := by
  unfold Pulse.append at h
  split at h
  · rename_i hp
    cases h
    rw [pulseVal_of_isEmpty hp]; rfl
  · split at h
    · rename_i hq
      cases h
      rw [pulseVal_of_isEmpty hq]; simp
    · split at h
      · cases h
      · rename_i hs
        cases h
        have hs' : sameSet p.chanNames q.chanNames = true := by simpa using hs
        simp only [pulseVal]
        rw [lookup_map_key p.chans (fun c pl => pl ++ (q.chans.lookup c).getD []) o]
        cases hl : p.chans.lookup o with
        | some pl => simp
        | none =>
          have hnp : o ∉ p.chanNames := fun hm => by
            obtain ⟨v, hv⟩ := lookup_isSome_of_mem_keys p.chans o hm
            rw [hv] at hl; cases hl
          have hnq : o ∉ q.chanNames := fun hm => hnp ((sameSet_mem hs' o).mpr hm)
          rw [lookup_eq_none_of_not_mem q.chans o hnq]
          simp

theorem pulseVal_withOwn (p : Pulse) (ms : List Window) (o : Chan) : pulseVal (p.withOwn ms) o = pulseVal p o := by
  unfold Pulse.withOwn; split <;> rfl

theorem pulseVal_appendAll {ps : List Pulse} {r : Pulse} (h : Pulse.appendAll ps = .ok r) (o : Chan) :
    pulseVal r o = (ps.map (fun p => pulseVal p o)).flatten := by
  induction ps generalizing r with
  | nil => simp only [Pulse.appendAll] at h; cases h; rfl
  | cons p rest ih =>
    simp only [Pulse.appendAll, bind_ok_iff] at h
    obtain ⟨r', hr', happ⟩ := h
    rw [pulseVal_append happ o, ih hr']
    simp

/-! ## Exact integers -/

theorem isInt_eq {q : Rat} (h : isInt q = true) : q = (q.num : Rat) := by
  unfold isInt at h
  have hd : q.den = 1 := by simpa using h
  apply Rat.ext
  · simp
  · simp [hd]

theorem checkedInt_intCast (m : Int) : checkedInt (m : Rat) = some m := by
  unfold checkedInt
  have hf : ((m : Rat) + 1/2).floor = m := by
    apply Int.le_antisymm
    · have : ((m : Rat) + 1/2).floor < m + 1 := by
        rw [Rat.floor_lt_iff]; simp [Rat.intCast_add]; grind
      omega
    · rw [Rat.le_floor_iff]; grind
  simp only [hf]
  simp
  grind

/-! ## Channel lists and channel mappings -/


theorem mem_dedup_aux (xs acc : List String) (x : String) :
    x ∈ xs.foldl (fun acc x => if acc.contains x then acc else acc ++ [x]) acc ↔ x ∈ acc ∨ x ∈ xs := by
  induction xs generalizing acc with
  | nil => simp
  | cons y ys ih =>
    simp only [List.foldl_cons, ih, List.mem_cons]
    by_cases h : acc.contains y = true
    · simp only [h, if_true]
      have : y ∈ acc := by simpa using h
      constructor
      · rintro (h | h); exact Or.inl h; exact Or.inr (Or.inr h)
      · rintro (h | h | h); exact Or.inl h; exact Or.inl (h ▸ this); exact Or.inr h
    · simp only [h]
      simp only [Bool.false_eq_true, if_false, List.mem_append, List.mem_singleton]
      constructor
      · rintro ((h | h) | h); exact Or.inl h; exact Or.inr (Or.inl h); exact Or.inr (Or.inr h)
      · rintro (h | h | h); exact Or.inl (Or.inl h); exact Or.inl (Or.inr h); exact Or.inr h

theorem mem_dedup (xs : List String) (x : String) : x ∈ dedup xs ↔ x ∈ xs := by
  unfold dedup; rw [mem_dedup_aux]; simp

theorem filterMap_inj_of_not_hasDup {l : List String} {f : String → Option String}
    (h : hasDup (l.filterMap f) = false) {c1 c2 x : String} (h1 : c1 ∈ l) (h2 : c2 ∈ l)
    (hnd : hasDup l = false)
    (f1 : f c1 = some x) (f2 : f c2 = some x) : c1 = c2 := by
  induction l with
  | nil => cases h1
  | cons y ys ih =>
    simp only [hasDup, Bool.or_eq_false_iff] at hnd
    simp only [List.mem_cons] at h1 h2
    have hm : ∀ c, c ∈ ys → f c = some x → x ∈ ys.filterMap f := fun c hc hf =>
      List.mem_filterMap.mpr ⟨c, hc, hf⟩
    cases hy : f y with
    | none =>
      simp only [List.filterMap_cons, hy] at h
      rcases h1 with rfl | h1
      · rw [hy] at f1; cases f1
      · rcases h2 with rfl | h2
        · rw [hy] at f2; cases f2
        · exact ih h h1 h2 hnd.2
    | some z =>
      simp only [List.filterMap_cons, hy, hasDup, Bool.or_eq_false_iff] at h
      have hz : z ∉ ys.filterMap f := by simpa using h.1
      rcases h1 with rfl | h1
      · rcases h2 with rfl | h2
        · rfl
        · rw [hy] at f1; cases f1
          exact absurd (hm c2 h2 f2) hz
      · rcases h2 with rfl | h2
        · rw [hy] at f2; cases f2
          exact absurd (hm c1 h1 f1) hz
        · exact ih h.2 h1 h2 hnd.2


theorem chanLookup_ok_iff {cm : List (Chan × Option Chan)} {c : Chan} {r : Option Chan} :
    chanLookup cm c = .ok r ↔ cm.lookup c = some r := by
  unfold chanLookup
  cases cm.lookup c <;> simp

theorem updatedCm_lookup {inner outer cmU : List (Chan × Option Chan)} (h : updatedCm inner outer = .ok cmU)
    (k : Chan) :
    cmU.lookup k = match inner.lookup k with
      | none => none
      | some none => some none
      | some (some x) => outer.lookup x := by
  unfold updatedCm at h
  induction inner generalizing cmU with
  | nil =>
    simp only [List.mapM_nil, pure_ok_iff] at h; subst h; rfl
  | cons e rest ih =>
    obtain ⟨k', v'⟩ := e
    simp only [List.mapM_cons, bind_ok_iff, pure_ok_iff] at h
    obtain ⟨e', he', rest', hrest', rfl⟩ := h
    have ih' := ih hrest'
    simp only [List.lookup]
    cases v' with
    | none =>
      simp only [pure_ok_iff] at he'; subst he'
      simp only
      cases hk : k == k' <;> simp [ih']
    | some x =>
      simp only [bind_ok_iff, pure_ok_iff] at he'
      obtain ⟨r, hr, rfl⟩ := he'
      rw [chanLookup_ok_iff] at hr
      simp only
      cases hk : k == k' <;> simp [ih', hr]

/-! ## Dictionaries of kept channels (atomic templates) -/


theorem dictSet_lookup (d : List (Chan × Rat)) (k : Chan) (v : Rat) (k' : Chan) :
    (dictSet d k v).lookup k' = if k' = k then some v else d.lookup k' := by
  unfold dictSet
  split
  · rename_i hs
    induction d with
    | nil => simp [List.lookup] at hs
    | cons x rest ih =>
      obtain ⟨c, y⟩ := x
      simp only [List.map_cons, List.lookup]
      by_cases hck : c = k
      · subst hck
        simp only [if_true]
        by_cases hk' : k' = c
        · subst hk'; simp
        · have : (k' == c) = false := by simpa using hk'
          simp only [this, hk', if_false]
          by_cases hr : (rest.lookup c).isSome = true
          · rw [ih hr]; simp [hk']
          · -- no further entry with key c: the map is the identity on lookups of k'
            clear ih hs
            induction rest with
            | nil => rfl
            | cons z zs ihz =>
              obtain ⟨c2, y2⟩ := z
              simp only [List.map_cons, List.lookup]
              have hr' : (List.lookup c ((c2, y2) :: zs)).isSome ≠ true := hr
              by_cases h2 : c2 = c
              · subst h2; simp [List.lookup] at hr'
              · have hzs : ¬ (zs.lookup c).isSome = true := by
                  intro h; apply hr'; simp only [List.lookup]
                  have : (c == c2) = false := by simpa using (fun h => h2 h.symm)
                  rw [this]; exact h
                simp only [h2, if_false]
                cases hk2 : k' == c2
                · exact ihz hzs
                · rfl
      · simp only [hck, if_false]
        have hs' : (rest.lookup k).isSome = true := by
          simp only [List.lookup] at hs
          have : (k == c) = false := by simpa using (fun h => hck h.symm)
          rw [this] at hs; exact hs
        cases hk2 : k' == c
        · simp only; exact ih hs'
        · have hk2' : k' = c := by simpa using hk2
          have : k' ≠ k := fun h => hck (hk2' ▸ h)
          simp [this]
  · rename_i hs
    have hn : d.lookup k = none := by
      cases h : d.lookup k with
      | none => rfl
      | some _ => rw [h] at hs; simp at hs
    induction d with
    | nil =>
      simp only [List.nil_append, List.lookup]
      by_cases hk : k' = k
      · subst hk; simp
      · have : (k' == k) = false := by simpa using hk
        simp [this, hk]
    | cons x rest ih =>
      obtain ⟨c, y⟩ := x
      simp only [List.cons_append, List.lookup] at hn ⊢
      cases hkc : k == c
      · rw [hkc] at hn
        simp only at hn
        cases hk2 : k' == c
        · simp only
          apply ih
          · rw [hn]; simp
          · exact hn
        · have hk2' : k' = c := by simpa using hk2
          have hne : k' ≠ k := by
            intro h; rw [h] at hk2'; simp [hk2'] at hkc
          simp [hne]
      · rw [hkc] at hn; cases hn
theorem foldl_dictSet_lookup (kv : List (Chan × Rat)) (o : Chan) (v : Rat)
    (hall : ∀ x ∈ kv, x.1 = o → x.2 = v) :
    ∀ d0 : List (Chan × Rat), (d0.lookup o = some v ∨ (o, v) ∈ kv) → (∀ x, d0.lookup o = some x → x = v) →
      (kv.foldl (fun d (x : Chan × Rat) => dictSet d x.1 x.2) d0).lookup o = some v := by
  induction kv with
  | nil =>
    intro d0 h _
    rcases h with h | h
    · exact h
    · cases h
  | cons x rest ih =>
    intro d0 h hd
    simp only [List.foldl_cons]
    apply ih (fun y hy => hall y (List.mem_cons_of_mem _ hy))
    · rw [dictSet_lookup]
      by_cases hx : o = x.1
      · have := hall x (List.mem_cons_self ..) hx.symm
        left; simp [hx, this]
      · simp only [hx, if_false]
        rcases h with h | h
        · exact Or.inl h
        · rcases List.mem_cons.mp h with h | h
          · exact absurd (by rw [← h]) hx
          · exact Or.inr h
    · intro y hy
      rw [dictSet_lookup] at hy
      by_cases hx : o = x.1
      · have := hall x (List.mem_cons_self ..) hx.symm
        simp only [hx, if_true] at hy
        cases hy; exact this
      · simp only [hx, if_false] at hy
        exact hd y hy

theorem dictOfList_lookup (kv : List (Chan × Rat)) (o : Chan) (v : Rat)
    (hall : ∀ x ∈ kv, x.1 = o → x.2 = v) (hmem : (o, v) ∈ kv) : (dictOfList kv).lookup o = some v := by
  unfold dictOfList
  have := foldl_dictSet_lookup kv o v hall [] (Or.inr hmem) (fun x hx => by simp [List.lookup] at hx)
  exact this

/-- what `filterMapM` over the amplitudes / entries of an atomic template collects -/
theorem filterMapM_kept {α} (cm : List (Chan × Option Chan)) (ev : α → Except Err Rat) :
    ∀ (amps : List (Chan × α)) (cvs : List (Chan × Rat)),
    amps.filterMapM (fun (x : Chan × α) => do
        let o ← chanLookup cm x.1
        match o with
        | none => pure none
        | some o => do let v ← ev x.2; pure (some (o, v))) = .ok cvs →
    (∀ y ∈ cvs, ∃ x ∈ amps, cm.lookup x.1 = some (some y.1) ∧ ev x.2 = .ok y.2) ∧
    (∀ x ∈ amps, ∀ o, cm.lookup x.1 = some (some o) → ∃ v, ev x.2 = .ok v ∧ (o, v) ∈ cvs) := by
  intro amps
  induction amps with
  | nil =>
    intro cvs h
    simp only [List.filterMapM_nil, pure_ok_iff] at h; subst h
    exact ⟨fun y hy => (nomatch hy), fun x hx => (nomatch hx)⟩
  | cons a rest ih =>
    intro cvs h
    rw [List.filterMapM_cons] at h
    simp only [bind_ok_iff] at h
    obtain ⟨r, ⟨oo, hoo, hr⟩, h⟩ := h
    rw [chanLookup_ok_iff] at hoo
    cases oo with
    | none =>
      simp only [pure_ok_iff] at hr; subst hr
      simp only at h
      obtain ⟨h1, h2⟩ := ih cvs h
      refine ⟨fun y hy => ?_, fun x hx o ho => ?_⟩
      · obtain ⟨x, hx, hh⟩ := h1 y hy
        exact ⟨x, List.mem_cons_of_mem _ hx, hh⟩
      · rcases List.mem_cons.mp hx with rfl | hx
        · rw [hoo] at ho; cases ho
        · exact h2 x hx o ho
    | some o1 =>
      simp only [bind_ok_iff, pure_ok_iff] at hr
      obtain ⟨v1, hv1, rfl⟩ := hr
      simp only [bind_ok_iff, pure_ok_iff] at h
      obtain ⟨cvs', hcvs', rfl⟩ := h
      obtain ⟨h1, h2⟩ := ih cvs' hcvs'
      refine ⟨fun y hy => ?_, fun x hx o ho => ?_⟩
      · rcases List.mem_cons.mp hy with rfl | hy
        · exact ⟨a, List.mem_cons_self .., hoo, hv1⟩
        · obtain ⟨x, hx, hh⟩ := h1 y hy
          exact ⟨x, List.mem_cons_of_mem _ hx, hh⟩
      · rcases List.mem_cons.mp hx with rfl | hx
        · rw [hoo] at ho; cases ho
          exact ⟨v1, hv1, List.mem_cons_self ..⟩
        · obtain ⟨v, hv, hm⟩ := h2 x hx o ho
          exact ⟨v, hv, List.mem_cons_of_mem _ hm⟩

theorem mem_of_lookup {β} (l : List (String × β)) (k : String) (v : β) (h : l.lookup k = some v) : (k, v) ∈ l := by
  induction l with
  | nil => simp [List.lookup] at h
  | cons x rest ih =>
    simp only [List.lookup] at h
    cases hk : k == x.1
    · rw [hk] at h; exact List.mem_cons_of_mem _ (ih h)
    · rw [hk] at h
      have : k = x.1 := by simpa using hk
      cases h
      rw [this]; exact List.mem_cons_self ..

theorem unique_of_not_hasDup {β} (l : List (String × β)) (h : hasDup (l.map (·.1)) = false)
    {k : String} {a b : β} (ha : (k, a) ∈ l) (hb : (k, b) ∈ l) : a = b := by
  induction l with
  | nil => cases ha
  | cons x rest ih =>
    simp only [List.map_cons, hasDup, Bool.or_eq_false_iff] at h
    have hx : x.1 ∉ rest.map (·.1) := by simpa using h.1
    rcases List.mem_cons.mp ha with ha1 | ha1
    · rcases List.mem_cons.mp hb with hb1 | hb1
      · rw [← ha1] at hb1; cases hb1; rfl
      · rw [← ha1] at hx
        exact absurd (List.mem_map.mpr (⟨(k, b), hb1, rfl⟩ : ∃ y, y ∈ rest ∧ y.1 = k)) hx
    · rcases List.mem_cons.mp hb with hb1 | hb1
      · rw [← hb1] at hx
        exact absurd (List.mem_map.mpr (⟨(k, a), ha1, rfl⟩ : ∃ y, y ∈ rest ∧ y.1 = k)) hx
      · exact ih h.2 ha1 hb1


end QP.C07
