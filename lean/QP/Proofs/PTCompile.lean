import QP.Model.PT
import QP.Proofs.PTRel
/-! Compile correctness by induction over the template: the composite constructors (sequence, repetition,
iteration, mapping) preserve the relation `Rel` for any atoms that satisfy it. -/
namespace QP.PT

theorem pure_ok {α} {a b : α} : (pure a : Except Err α) = .ok b ↔ a = b := by
  simp [pure, Except.pure]

theorem wrapSingle_nil (id : Option String) (ctx : Ctx) (k : Ctx → Except Err (List Item))
    (h : ctx.single = []) : wrapSingle id ctx k = k ctx := by
  unfold wrapSingle
  cases id with
  | none => rfl
  | some name => simp [h]

/-- the context of a plain instantiation: no global transformation, nothing collapsed to a single waveform -/
def ctx0 (σ : Scope) (mm : List (MName × Option MName)) (cm : List (Chan × Option Chan)) : Ctx :=
  { scope := σ, mm := mm, cm := cm, trafo := [], single := [] }

/-- what has to hold of an atomic template: its leaf and windows are the denoted pulse -/
def AtomOK (pt : PT) : Prop :=
  ∀ σ mm cm items P, atomItems pt (ctx0 σ mm cm) = .ok items → denote pt σ mm cm = .ok P →
    Loop.allPosList (nodesOf items) → Rel items P

/-- the statement proved for a template -/
def CompileOK (pt : PT) : Prop :=
  ∀ σ mm cm items P, internal pt (ctx0 σ mm cm) = .ok items → denote pt σ mm cm = .ok P →
    Loop.allPosList (nodesOf items) → Rel items P

/-- templates built from correct atoms by sequencing, repetition, iteration and mapping -/
inductive Basic : PT → Prop
  | const {id dur amps meas} : AtomOK (.const id dur amps meas) → Basic (.const id dur amps meas)
  | table {id entries meas cons} : AtomOK (.table id entries meas cons) → Basic (.table id entries meas cons)
  | point {id chans entries meas cons} : AtomOK (.point id chans entries meas cons) →
      Basic (.point id chans entries meas cons)
  | func {id ch dur e meas cons} : AtomOK (.func id ch dur e meas cons) → Basic (.func id ch dur e meas cons)
  | atomicMulti {id subs dur meas cons} : AtomOK (.atomicMulti id subs dur meas cons) →
      Basic (.atomicMulti id subs dur meas cons)
  | arithAtomic {id lhs minus rhs meas} : AtomOK (.arithAtomic id lhs minus rhs meas) →
      Basic (.arithAtomic id lhs minus rhs meas)
  | seq {id subs meas cons} : (∀ p ∈ subs, Basic p) → Basic (.seq id subs meas cons)
  | rep {id body count meas cons} : Basic body → Basic (.rep id body count meas cons)
  | forLoop {id body idx start stop step meas cons} : Basic body →
      Basic (.forLoop id body idx start stop step meas cons)
  | mapping {id body pm mm cm cons} : Basic body → Basic (.mapping id body pm mm cm cons)

theorem list_rel (subs : List PT) (ih : ∀ p ∈ subs, CompileOK p) (σ : Scope)
    (mm : List (MName × Option MName)) (cm : List (Chan × Option Chan)) :
    ∀ its parts p, internalList subs (ctx0 σ mm cm) = .ok its → denoteList subs σ mm cm = .ok parts →
      Pulse.appendAll parts = .ok p → Loop.allPosList (nodesOf its) → Rel its p := by
  induction subs with
  | nil =>
    intro its parts p h1 h2 h3 _
    simp only [internalList] at h1
    simp only [denoteList] at h2
    cases h1; cases h2
    simp only [Pulse.appendAll] at h3
    cases h3
    exact Rel.nil
  | cons q qs ihq =>
    intro its parts p h1 h2 h3 hpos
    simp only [internalList, bind_ok, pure_ok] at h1
    obtain ⟨a, ha, b, hb, rfl⟩ := h1
    simp only [denoteList, bind_ok, pure_ok] at h2
    obtain ⟨pa, hpa, pr, hpr, rfl⟩ := h2
    simp only [Pulse.appendAll, bind_ok] at h3
    obtain ⟨r, hr, hp⟩ := h3
    rw [wrapSingle_nil _ _ _ rfl] at ha
    rw [nodesOf_append, allPosList_append] at hpos
    have hq := ih q (by simp) σ mm cm a pa ha hpa hpos.1
    have hrest := ihq (fun p hp => ih p (by simp [hp])) b pr r hb hpr hr hpos.2
    exact Rel.append hq hrest hpos.1 hp

theorem range_rel (body : PT) (ih : CompileOK body) (σ : Scope) (idx : String)
    (mm : List (MName × Option MName)) (cm : List (Chan × Option Chan)) (rng : List Int) :
    ∀ its parts p,
      rng.flatMapM (fun (i : Int) => wrapSingle body.ident
        { ctx0 σ mm cm with scope := .range σ idx (i : Rat) } (internal body)) = .ok its →
      rng.mapM (fun (i : Int) => denote body (.range σ idx (i : Rat)) mm cm) = .ok parts →
      Pulse.appendAll parts = .ok p → Loop.allPosList (nodesOf its) → Rel its p := by
  induction rng with
  | nil =>
    intro its parts p h1 h2 h3 _
    simp only [List.flatMapM_nil, pure_ok] at h1
    simp only [List.mapM_nil, pure_ok] at h2
    subst h1; subst h2
    simp only [Pulse.appendAll] at h3
    cases h3
    exact Rel.nil
  | cons i is ihr =>
    intro its parts p h1 h2 h3 hpos
    simp only [List.flatMapM_cons, bind_ok, pure_ok] at h1
    obtain ⟨a, ha, b, hb, rfl⟩ := h1
    simp only [List.mapM_cons, bind_ok, pure_ok] at h2
    obtain ⟨pa, hpa, pr, hpr, rfl⟩ := h2
    simp only [Pulse.appendAll, bind_ok] at h3
    obtain ⟨r, hr, hp⟩ := h3
    rw [wrapSingle_nil _ _ _ rfl] at ha
    rw [nodesOf_append, allPosList_append] at hpos
    have hq := ih (.range σ idx (i : Rat)) mm cm a pa ha hpa hpos.1
    have hrest := ihr b pr r hb hpr hr hpos.2
    exact Rel.append hq hrest hpos.1 hp

theorem allPos_of_tryAppend {L : Loop} {ms : List Window}
    (h : Loop.allPosList (nodesOf (tryAppend L ms))) : L.isEmpty = true ∨ L.allPos := by
  by_cases he : L.isEmpty
  · exact Or.inl he
  · right
    simp only [tryAppend, he, Bool.false_eq_true, if_false, nodesOf] at h
    exact (allPosList_cons.mp h).1

theorem compile_rel {pt : PT} (hb : Basic pt) : CompileOK pt := by
  induction hb with
  | const h => intro σ mm cm items P h1 h2 h3; simp only [internal] at h1; exact h σ mm cm items P h1 h2 h3
  | table h => intro σ mm cm items P h1 h2 h3; simp only [internal] at h1; exact h σ mm cm items P h1 h2 h3
  | point h => intro σ mm cm items P h1 h2 h3; simp only [internal] at h1; exact h σ mm cm items P h1 h2 h3
  | func h => intro σ mm cm items P h1 h2 h3; simp only [internal] at h1; exact h σ mm cm items P h1 h2 h3
  | atomicMulti h => intro σ mm cm items P h1 h2 h3; simp only [internal] at h1; exact h σ mm cm items P h1 h2 h3
  | arithAtomic h => intro σ mm cm items P h1 h2 h3; simp only [internal] at h1; exact h σ mm cm items P h1 h2 h3
  | @seq id subs meas cons _ ih =>
    intro σ mm cm items P h1 h2 hpos
    simp only [internal, ctx0, bind_ok, pure_ok] at h1
    obtain ⟨_, _, ms, hms, its, hits, rfl⟩ := h1
    simp only [denote, bind_ok, pure_ok] at h2
    obtain ⟨_, _, ms', hms', parts, hparts, p, hp, rfl⟩ := h2
    rw [hms] at hms'
    cases hms'
    rw [nodesOf_guardRun] at hpos
    exact (list_rel subs ih σ mm cm its parts p hits hparts hp hpos).guard ms
  | @rep id body count meas cons _ ih =>
    intro σ mm cm items P h1 h2 hpos
    simp only [internal, ctx0, bind_ok] at h1
    obtain ⟨_, _, c, hc, h1⟩ := h1
    simp only [denote, bind_ok] at h2
    obtain ⟨_, _, c', hc', h2⟩ := h2
    rw [hc] at hc'
    cases hc'
    cases hn : checkedInt c with
    | none => simp [hn] at h1
    | some n =>
      simp only [hn] at h1 h2
      by_cases hle : n ≤ 0
      · simp only [hle, if_true, pure_ok] at h1 h2
        subst h1; subst h2
        exact Rel.nil
      · simp only [hle, if_false, bind_ok, pure_ok] at h1 h2
        obtain ⟨ms, hms, its, hits, rfl⟩ := h1
        obtain ⟨ms', hms', b, hbd, h2⟩ := h2
        rw [hms] at hms'
        cases hms'
        rw [wrapSingle_nil _ _ _ rfl] at hits
        have hposb : Loop.allPosList (nodesOf its) := by
          rcases allPos_of_tryAppend hpos with he | hL
          · rw [applyItems_eq] at he
            simp only [Loop.isEmpty, Loop.wf, Loop.children, List.nil_append, Option.isNone_none,
              Bool.true_and, List.isEmpty_iff] at he
            rw [he]; exact allPosList_nil
          · rw [applyItems_eq] at hL
            simp only [List.nil_append] at hL
            cases hcs : nodesOf its with
            | nil => exact allPosList_nil
            | cons c0 cs0 =>
              rw [hcs] at hL
              simp only [Loop.allPos, Loop.allPosB, Bool.and_eq_true] at hL
              exact hL.2
        have hrel := (ih σ mm cm its b hits hbd hposb).rep hposb n.toNat ms
        by_cases he : b.isEmpty
        · simp only [he, if_true, pure_ok] at h2
          subst h2
          simpa [he] using hrel
        · have he' : b.isEmpty = false := by simpa using he
          simp only [he', Bool.false_eq_true, if_false, pure_ok] at h2
          simp only [he', Bool.false_eq_true, if_false] at hrel
          subst h2
          exact hrel
  | @forLoop id body idx start stop step meas cons _ ih =>
    intro σ mm cm items P h1 h2 hpos
    simp only [internal, ctx0, bind_ok] at h1
    obtain ⟨_, _, a, ha, ai, hai, b, hb, bi, hbi, s, hs, si, hsi, h1⟩ := h1
    simp only [denote, bind_ok] at h2
    obtain ⟨_, _, a', ha', ai', hai', b', hb', bi', hbi', s', hs', si', hsi', h2⟩ := h2
    rw [ha] at ha'; cases ha'
    rw [hai] at hai'; cases hai'
    rw [hb] at hb'; cases hb'
    rw [hbi] at hbi'; cases hbi'
    rw [hs] at hs'; cases hs'
    rw [hsi] at hsi'; cases hsi'
    by_cases hz : si = 0
    · simp [hz] at h1
    · simp only [hz, if_false, bind_ok, pure_ok] at h1 h2
      obtain ⟨ms, hms, its, hits, rfl⟩ := h1
      obtain ⟨ms', hms', parts, hparts, p, hp, rfl⟩ := h2
      rw [hms] at hms'; cases hms'
      rw [nodesOf_guardRun] at hpos
      exact (range_rel body ih σ idx mm cm (pyRange ai bi si) its parts p hits hparts hp hpos).guard ms
  | @mapping id body pm mm' cm' cons _ ih =>
    intro σ mm cm items P h1 h2 hpos
    simp only [internal, ctx0, bind_ok] at h1
    obtain ⟨_, _, mmU, hmm, cmU, hcm, h1⟩ := h1
    simp only [denote, bind_ok] at h2
    obtain ⟨_, _, mmU', hmm', cmU', hcm', h2⟩ := h2
    rw [hmm] at hmm'; cases hmm'
    rw [hcm] at hcm'; cases hcm'
    rw [wrapSingle_nil _ _ _ rfl] at h1
    exact ih (.mapped σ pm) mmU cmU items P h1 h2 hpos

end QP.PT
