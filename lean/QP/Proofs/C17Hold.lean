import QP.Proofs.C17Arith
import QP.Proofs.C17Det
/-! Executing the commands emitted for one hold node establishes the hold's voltages on every channel. -/
namespace QP.C17.Frag
open QP.C17 QP.C17.VMS QP.C17.Struct

/-- what the translator's bookkeeping promises about the VM -/
structure Inv (nch : Nat) (PL : List Nat) (c : TS) (V : VM) : Prop where
  active : ∀ ch κ, c.activeDep ch = some κ → ∃ v, V.regs ch κ = some v ∧ V.cur[ch]? = some (some v)
  plain : ∀ ch v, c.plainVoltage ch = some v → V.regs ch [] = some v
  plainDom : ∀ ch v, c.plainVoltage ch = some v → ch ∈ PL
  len : V.cur.length = nch

/-- static readiness of the registers `T`: the asserts of `_set_indexed_voltage` will hold -/
def SReady (res : Rat) (c : TS) (T : List (Nat × List Rat)) : Prop :=
  ∀ p ∈ T, match c.depStates p.1 (depKey res p.2) with
    | none => ∀ i ∈ c.iterations, i = 0
    | some ds => ds.its.length = p.2.length ∧ Fresh ds.its c.iterations

/-- dynamic readiness: each stored state describes the VM register -/
def DReady (res : Rat) (c : TS) (V : VM) (env : List Nat) (T : List (Nat × List Rat)) : Prop :=
  ∀ p ∈ T, ∀ ds, c.depStates p.1 (depKey res p.2) = some ds →
    V.regs p.1 (depKey res p.2) = some (val ds p.2 c.iterations env)

theorem execL_single (d : DCmd) (V : VM) : execL [.prim d] V = changeState d.toCmd V := by
  simp only [execL, exec1]
  cases changeState d.toCmd V <;> rfl

theorem execL_append (a b : List SCmd) (V V1 : VM) (h : execL a V = .ok V1) :
    execL (a ++ b) V = execL b V1 := by
  induction a generalizing V with
  | nil => simp only [execL] at h; cases h; rfl
  | cons x xs ih =>
    simp only [List.cons_append, execL] at *
    cases hx : exec1 x V with
    | error e => rw [hx] at h; cases h
    | ok V2 => rw [hx] at h; simp only at h ⊢; exact ih V2 h

/-- a plain `Set` or no command -/
theorem plainStep {nch : Nat} {PL : List Nat} (c : TS) (ch : Nat) (v : Rat) (V : VM)
    (hch : ch < nch) (hpl : ch ∈ PL) (hinv : Inv nch PL c V) :
    ∃ V1, execL (setVoltageS c ch v).1 V = .ok V1 ∧ V1.time = V.time ∧ V1.hist = V.hist ∧
      Inv nch PL (setVoltageS c ch v).2 V1 ∧ V1.cur[ch]? = some (some v) ∧
      (∀ ch', ch' ≠ ch → V1.cur[ch']? = V.cur[ch']?) ∧
      (∀ ch' κ, ¬ (ch' = ch ∧ κ = []) → V1.regs ch' κ = V.regs ch' κ) := by
  have hlen := hinv.len
  by_cases h : (c.activeDep ch ≠ some [] ∨ c.plainVoltage ch ≠ some v)
  · simp only [setVoltageS, h, if_true]
    refine ⟨{ V with cur := V.cur.set ch (some v), regs := upd2 V.regs ch [] v }, ?_, rfl, rfl, ?_, ?_, ?_, ?_⟩
    · rw [execL_single]; simp only [DCmd.toCmd, changeState, hlen, hch, if_true]
    · refine ⟨?_, ?_, ?_, by simp [hlen]⟩
      · intro ch' κ hact
        simp only [upd] at hact
        by_cases hx : ch' = ch
        · subst hx
          simp only [if_true, Option.some.injEq] at hact
          subst hact
          exact ⟨v, by simp [upd2], by simp [hlen, hch]⟩
        · simp only [hx, if_false] at hact
          obtain ⟨v', h1, h2⟩ := hinv.active ch' κ hact
          refine ⟨v', ?_, ?_⟩
          · simp only [upd2, hx, false_and, if_false]; exact h1
          · rw [List.getElem?_set_ne (Ne.symm hx)]; exact h2
      · intro ch' v' hp
        simp only [upd] at hp
        by_cases hx : ch' = ch
        · subst hx
          simp only [if_true, Option.some.injEq] at hp
          subst hp
          simp [upd2]
        · simp only [hx, if_false] at hp
          simp only [upd2, hx, false_and, if_false]
          exact hinv.plain ch' v' hp
      · intro ch' v' hp
        simp only [upd] at hp
        by_cases hx : ch' = ch
        · subst hx; exact hpl
        · simp only [hx, if_false] at hp; exact hinv.plainDom ch' v' hp
    · simp [hlen, hch]
    · intro ch' hx; rw [List.getElem?_set_ne (Ne.symm hx)]
    · intro ch' κ hx
      simp only [upd2]
      rw [if_neg hx]
  · simp only [setVoltageS, h, if_false]
    have h' : c.activeDep ch = some [] ∧ c.plainVoltage ch = some v := by
      simp only [not_or, Decidable.not_not] at h; exact h
    refine ⟨V, rfl, rfl, rfl, hinv, ?_, fun _ _ => rfl, fun _ _ _ => rfl⟩
    obtain ⟨v0, h1, h2⟩ := hinv.active ch [] h'.1
    have := hinv.plain ch v h'.2
    rw [h1] at this
    cases this
    exact h2

/-- an indexed `Set` / `Increment` / no command -/
theorem indexedStep {nch : Nat} {PL : List Nat} {G : List (Nat × List Rat)} (res : Rat)
    (SEP : ∀ ch fs, (ch, fs) ∈ G → depKey res fs = [] → ch ∉ PL)
    (c : TS) (ch : Nat) (b : Rat) (fs : List Rat) (hres : c.resolution = res) (hG : (ch, fs) ∈ G)
    (hlenf : fs.length = c.iterations.length) (hch : ch < nch) (hs : SReady res c [(ch, fs)]) :
    ∃ s c1, setIndexedS c ch b fs = .ok (s, c1) ∧
      ∀ V env, Compat c.iterations env → DReady res c V env [(ch, fs)] → Inv nch PL c V →
        ∃ V1, execL s V = .ok V1 ∧ V1.time = V.time ∧ V1.hist = V.hist ∧ Inv nch PL c1 V1 ∧
          V1.cur[ch]? = some (some (b + dot fs env)) ∧
          (∀ ch', ch' ≠ ch → V1.cur[ch']? = V.cur[ch']?) ∧
          V1.regs ch (depKey res fs) = some (b + dot fs env) ∧
          (∀ ch' κ, ¬ (ch' = ch ∧ κ = depKey res fs) → V1.regs ch' κ = V.regs ch' κ) := by
  subst hres
  have hs' := hs (ch, fs) (by simp)
  simp only at hs'
  -- Inv is preserved by writing the register (ch, key) and making it the active one
  have inv_write : ∀ (V : VM) (x : Rat), Inv nch PL c V →
      Inv nch PL { c with activeDep := upd c.activeDep ch (depKey c.resolution fs),
                          depStates := upd2 c.depStates ch (depKey c.resolution fs) ⟨b, c.iterations⟩ }
        { V with cur := V.cur.set ch (some x), regs := upd2 V.regs ch (depKey c.resolution fs) x } := by
    intro V x hinv
    have hlen := hinv.len
    refine ⟨?_, ?_, hinv.plainDom, by simp [hlen]⟩
    · intro ch' κ hact
      simp only [upd] at hact
      by_cases hx : ch' = ch
      · subst hx
        simp only [if_true, Option.some.injEq] at hact
        subst hact
        exact ⟨x, by simp [upd2], by simp [hlen, hch]⟩
      · simp only [hx, if_false] at hact
        obtain ⟨v', h1, h2⟩ := hinv.active ch' κ hact
        refine ⟨v', ?_, ?_⟩
        · simp only [upd2, hx, false_and, if_false]; exact h1
        · rw [List.getElem?_set_ne (Ne.symm hx)]; exact h2
    · intro ch' v' hp
      simp only [upd2]
      by_cases hx : ch' = ch ∧ ([] : Key) = depKey c.resolution fs
      · exfalso
        obtain ⟨rfl, hk⟩ := hx
        exact SEP ch' fs hG hk.symm (hinv.plainDom ch' v' hp)
      · rw [if_neg hx]; exact hinv.plain ch' v' hp
  simp only [setIndexedS]
  cases hds : c.depStates ch (depKey c.resolution fs) with
  | none =>
    rw [hds] at hs'
    simp only at hs'
    have hall : (c.iterations.all fun i => decide (i = 0)) = true := by
      simp only [List.all_eq_true, decide_eq_true_eq]; exact hs'
    simp only [hall, if_true]
    refine ⟨_, _, rfl, ?_⟩
    intro V env hc _ hinv
    have hlen := hinv.len
    have henv : dot fs env = 0 := by
      -- all iterations are 0, so are the indices
      have : ∀ (cur env : List Nat) (fs : List Rat), Compat cur env → (∀ i ∈ cur, i = 0) → dot fs env = 0 := by
        intro cur
        induction cur with
        | nil => intro env fs hc _; cases env with
          | nil => exact dot_nil_right fs
          | cons _ _ => simp [Compat] at hc
        | cons x xs ih =>
          intro env fs hc hz
          cases env with
          | nil => simp [Compat] at hc
          | cons e es =>
            simp only [Compat] at hc
            have hx : x = 0 := hz x (by simp)
            have he : e = 0 := hc.1.mp hx
            cases fs with
            | nil => simp [dot]
            | cons f fs' =>
              simp only [dot, he]
              rw [ih es fs' hc.2 (fun i hi => hz i (by simp [hi]))]
              grind
      exact this _ _ _ hc hs'
    refine ⟨{ V with cur := V.cur.set ch (some b), regs := upd2 V.regs ch (depKey c.resolution fs) b }, ?_, rfl, rfl,
      inv_write V b hinv, ?_, ?_, ?_, ?_⟩
    · rw [execL_single]; simp only [DCmd.toCmd, changeState, hlen, hch, if_true]
    · simp only [henv, List.getElem?_set_self (by rw [hlen]; exact hch)]; congr 2; grind
    · intro ch' hx; rw [List.getElem?_set_ne (Ne.symm hx)]
    · simp only [upd2, henv, and_self, if_true]; congr 1; grind
    · intro ch' κ hx; simp only [upd2]; rw [if_neg hx]
  | some ds =>
    rw [hds] at hs'
    simp only at hs'
    -- the increment exists (no assert fires)
    have hl1 : ds.its.length = c.iterations.length := by rw [hs'.1, hlenf]
    -- use any compatible env to see that reqInc succeeds: success does not depend on env
    have hsucc : ∃ inc, reqInc ⟨b, c.iterations⟩ ds fs = .ok inc := by
      -- build a compatible env from the iterations themselves
      have hcself : ∀ (l : List Nat), Compat l l := by
        intro l; induction l with
        | nil => simp [Compat]
        | cons x xs ih => simp [Compat, ih]
      obtain ⟨inc, hinc, _⟩ := reqInc_spec b c.iterations ds fs c.iterations hl1 hlenf.symm (hcself _) hs'.2
      exact ⟨inc, hinc⟩
    obtain ⟨inc, hinc⟩ := hsucc
    simp only [hinc]
    refine ⟨_, _, rfl, ?_⟩
    intro V env hc hd hinv
    have hlen := hinv.len
    obtain ⟨inc', hinc', hval⟩ := reqInc_spec b c.iterations ds fs env hl1 hlenf.symm hc hs'.2
    rw [hinc] at hinc'
    cases hinc'
    have hreg : V.regs ch (depKey c.resolution fs) = some (val ds fs c.iterations env) := hd (ch, fs) (by simp) ds hds
    by_cases hemit : (inc ≠ 0 ∨ c.activeDep ch ≠ some (depKey c.resolution fs))
    · simp only [hemit, if_true]
      refine ⟨{ V with cur := V.cur.set ch (some (val ds fs c.iterations env + inc)),
                        regs := upd2 V.regs ch (depKey c.resolution fs) (val ds fs c.iterations env + inc) },
        ?_, rfl, rfl, inv_write V _ hinv, ?_, ?_, ?_, ?_⟩
      · rw [execL_single]; simp only [DCmd.toCmd, changeState, hlen, hch, if_true, hreg]
      · simp [hlen, hch, hval]
      · intro ch' hx; rw [List.getElem?_set_ne (Ne.symm hx)]
      · simp [upd2, hval]
      · intro ch' κ hx; simp only [upd2]; rw [if_neg hx]
    · simp only [hemit, if_false]
      have h' : inc = 0 ∧ c.activeDep ch = some (depKey c.resolution fs) := by
        simp only [not_or, Decidable.not_not] at hemit; exact hemit
      have hval' : val ds fs c.iterations env = b + dot fs env := by rw [← hval, h'.1]; grind
      obtain ⟨v0, h1, h2⟩ := hinv.active ch _ h'.2
      rw [hreg] at h1
      cases h1
      refine ⟨V, rfl, rfl, rfl, ?_, ?_, fun _ _ => rfl, ?_, fun _ _ _ => rfl⟩
      · -- Inv for the updated bookkeeping: active entry unchanged
        refine ⟨?_, hinv.plain, hinv.plainDom, hinv.len⟩
        intro ch' κ hact
        simp only [upd] at hact
        by_cases hx : ch' = ch
        · subst hx
          simp only [if_true, Option.some.injEq] at hact
          subst hact
          exact hinv.active ch' _ h'.2
        · simp only [hx, if_false] at hact
          exact hinv.active ch' κ hact
      · rw [← hval']; exact h2
      · rw [← hval']; exact hreg

end QP.C17.Frag

namespace QP.C17.Frag
open QP.C17 QP.C17.VMS QP.C17.Struct

theorem touchesHold_ge : ∀ (fs : List (Option (List Rat))) (ch0 : Nat) (p : Nat × List Rat),
    p ∈ touchesHold fs ch0 → ch0 ≤ p.1
  | [], _, _, h => by simp [touchesHold] at h
  | none :: fs, ch0, p, h => by
    simp only [touchesHold] at h
    have := touchesHold_ge fs (ch0 + 1) p h; omega
  | some f :: fs, ch0, p, h => by
    simp only [touchesHold, List.mem_cons] at h
    rcases h with rfl | h
    · exact Nat.le_refl _
    · have := touchesHold_ge fs (ch0 + 1) p h; omega

/-- the channel loop of a hold: afterwards every channel shows the hold's voltage -/
theorem holdStep {nch : Nat} {PL : List Nat} {G : List (Nat × List Rat)} (res : Rat)
    (SEP : ∀ ch fs, (ch, fs) ∈ G → depKey res fs = [] → ch ∉ PL) :
    ∀ (bs : List Rat) (fs : List (Option (List Rat))) (ch0 : Nat) (c : TS),
      c.resolution = res → bs.length = fs.length → ch0 + bs.length = nch →
      (∀ p ∈ touchesHold fs ch0, p ∈ G ∧ p.2.length = c.iterations.length) →
      (∀ ch ∈ plainsHold fs ch0, ch ∈ PL) →
      SReady res c (touchesHold fs ch0) →
      ∃ s c', holdChannelsS bs fs ch0 c = .ok (s, c') ∧
        ∀ V env, Compat c.iterations env → DReady res c V env (touchesHold fs ch0) → Inv nch PL c V →
          ∃ V', execL s V = .ok V' ∧ V'.time = V.time ∧ V'.hist = V.hist ∧ Inv nch PL c' V' ∧
            (∀ ch, ch < ch0 → V'.cur[ch]? = V.cur[ch]?) ∧
            (∀ j v, (List.zipWith (holdValue env) bs fs)[j]? = some v → V'.cur[ch0 + j]? = some (some v)) ∧
            (∀ ch κ t, ltHold res bs fs ch0 ch κ = some t →
              V'.regs ch κ = some (t.1 + dot t.2.1 (env ++ t.2.2))) ∧
            (∀ ch κ, ltHold res bs fs ch0 ch κ = none → (κ = [] → lpHold bs fs ch0 ch = none) →
              V'.regs ch κ = V.regs ch κ)
  | [], fs, ch0, c, _, _, _, _, _, _ => by
    refine ⟨[], c, by simp [holdChannelsS], ?_⟩
    intro V env _ _ hinv
    refine ⟨V, rfl, rfl, rfl, hinv, fun _ _ => rfl, ?_, ?_, fun _ _ _ _ => rfl⟩
    · intro j v h; simp at h
    · intro ch κ t h; simp [ltHold] at h
  | _ :: _, [], _, _, _, hl, _, _, _, _ => by simp at hl
  | b :: bs, none :: fs, ch0, c, hres, hl, hn, hT, hP, hS => by
    have hl' : bs.length = fs.length := by simpa using hl
    have hch : ch0 < nch := by simp only [List.length_cons] at hn; omega
    have hn' : ch0 + 1 + bs.length = nch := by simp only [List.length_cons] at hn; omega
    have hpl : ch0 ∈ PL := hP ch0 (by simp [plainsHold])
    have d1 := det_setVoltageS c ch0 b
    have hdep1 : ∀ ch κ, (setVoltageS c ch0 b).2.depStates ch κ = c.depStates ch κ := by
      intro ch κ; rw [d1.dep]; rfl
    obtain ⟨s, c', hok, hex⟩ := holdStep res SEP bs fs (ch0 + 1) (setVoltageS c ch0 b).2
      (by rw [d1.res]; exact hres) hl' hn'
      (by intro p hp; rw [d1.its]; exact hT p (by simpa [touchesHold] using hp))
      (by intro ch hc; exact hP ch (by simp [plainsHold, hc]))
      (by
        intro p hp
        have := hS p (by simpa [touchesHold] using hp)
        rw [hdep1, d1.its]; exact this)
    refine ⟨(setVoltageS c ch0 b).1 ++ s, c', by simp only [holdChannelsS, hok], ?_⟩
    intro V env hc hd hinv
    obtain ⟨V1, he1, ht1, hh1, hinv1, hcur1, hcurO1, hregO1⟩ := plainStep c ch0 b V hch hpl hinv
    obtain ⟨V', he2, ht2, hh2, hinv2, hcurL, hcurJ, hpost, hframe⟩ := hex V1 env (by rw [d1.its]; exact hc)
      (by
        intro p hp ds hds
        have hge := touchesHold_ge fs (ch0 + 1) p hp
        rw [hdep1] at hds
        rw [hregO1 p.1 _ (by intro h; omega), d1.its]
        exact hd p (by simpa [touchesHold] using hp) ds hds)
      hinv1
    refine ⟨V', ?_, by rw [ht2, ht1], by rw [hh2, hh1], hinv2, ?_, ?_, ?_, ?_⟩
    · rw [execL_append _ _ _ _ he1]; exact he2
    · intro ch hlt
      rw [hcurL ch (by omega), hcurO1 ch (by omega)]
    · intro j v hj
      cases j with
      | zero =>
        simp only [List.zipWith_cons_cons, List.getElem?_cons_zero, Option.some.injEq, holdValue] at hj
        subst hj
        rw [Nat.add_zero, hcurL ch0 (by omega)]; exact hcur1
      | succ k =>
        simp only [List.zipWith_cons_cons, List.getElem?_cons_succ] at hj
        have := hcurJ k v hj
        rw [show ch0 + (k + 1) = ch0 + 1 + k by omega]; exact this
    · intro ch κ t ht
      simp only [ltHold] at ht
      exact hpost ch κ t ht
    · intro ch κ hlt hlp
      simp only [ltHold] at hlt
      simp only [lpHold] at hlp
      have hk : κ = [] → ch ≠ ch0 ∧ lpHold bs fs (ch0 + 1) ch = none := by
        intro hk
        have := hlp hk
        by_cases hx : ch = ch0
        · simp [hx] at this
        · simp only [hx, if_false] at this; exact ⟨hx, this⟩
      rw [hframe ch κ hlt (fun hk' => (hk hk').2)]
      exact hregO1 ch κ (fun h => (hk h.2).1 h.1)
  | b :: bs, some facs :: fs, ch0, c, hres, hl, hn, hT, hP, hS => by
    have hl' : bs.length = fs.length := by simpa using hl
    have hch : ch0 < nch := by simp only [List.length_cons] at hn; omega
    have hn' : ch0 + 1 + bs.length = nch := by simp only [List.length_cons] at hn; omega
    have hT0 := hT (ch0, facs) (by simp [touchesHold])
    obtain ⟨s1, c1, hok1, hex1⟩ := indexedStep (nch := nch) (PL := PL) res SEP c ch0 b facs hres hT0.1 hT0.2 hch
      (by intro p hp; simp only [List.mem_singleton] at hp; subst hp; exact hS _ (by simp [touchesHold]))
    have d1 := det_setIndexedS hok1
    rw [hres] at d1
    have hdep1 : ∀ ch κ, ch ≠ ch0 → c1.depStates ch κ = c.depStates ch κ := by
      intro ch κ hne; rw [d1.dep]; simp [hne]
    obtain ⟨s, c', hok, hex⟩ := holdStep res SEP bs fs (ch0 + 1) c1
      (by rw [d1.res]; exact hres) hl' hn'
      (by intro p hp; rw [d1.its]; exact hT p (by simp [touchesHold, hp]))
      (by intro ch hc; exact hP ch (by simpa [plainsHold] using hc))
      (by
        intro p hp
        have hge := touchesHold_ge fs (ch0 + 1) p hp
        have := hS p (by simp [touchesHold, hp])
        rw [hdep1 p.1 _ (by omega), d1.its]; exact this)
    refine ⟨s1 ++ s, c', by simp only [holdChannelsS, hok1, hok], ?_⟩
    intro V env hc hd hinv
    obtain ⟨V1, he1, ht1, hh1, hinv1, hcur1, hcurO1, hreg1, hregO1⟩ := hex1 V env hc
      (by intro p hp; simp only [List.mem_singleton] at hp; subst hp; exact hd _ (by simp [touchesHold])) hinv
    obtain ⟨V', he2, ht2, hh2, hinv2, hcurL, hcurJ, hpost, hframe⟩ := hex V1 env (by rw [d1.its]; exact hc)
      (by
        intro p hp ds hds
        have hge := touchesHold_ge fs (ch0 + 1) p hp
        rw [hdep1 p.1 _ (by omega)] at hds
        rw [hregO1 p.1 _ (by intro h; omega), d1.its]
        exact hd p (by simp [touchesHold, hp]) ds hds)
      hinv1
    refine ⟨V', ?_, by rw [ht2, ht1], by rw [hh2, hh1], hinv2, ?_, ?_, ?_, ?_⟩
    · rw [execL_append _ _ _ _ he1]; exact he2
    · intro ch hlt
      rw [hcurL ch (by omega), hcurO1 ch (by omega)]
    · intro j v hj
      cases j with
      | zero =>
        simp only [List.zipWith_cons_cons, List.getElem?_cons_zero, Option.some.injEq, holdValue] at hj
        subst hj
        rw [Nat.add_zero, hcurL ch0 (by omega)]; exact hcur1
      | succ k =>
        simp only [List.zipWith_cons_cons, List.getElem?_cons_succ] at hj
        have := hcurJ k v hj
        rw [show ch0 + (k + 1) = ch0 + 1 + k by omega]; exact this
    · intro ch κ t ht
      simp only [ltHold] at ht
      by_cases hx : ch = ch0 ∧ κ = depKey res facs
      · obtain ⟨rfl, rfl⟩ := hx
        simp only [and_self, if_true, Option.some.injEq] at ht
        subst ht
        rw [hframe ch _ (ltHold_ge res bs fs _ _ _ (by omega)) (fun _ => lpHold_ge bs fs _ _ (by omega))]
        simpa using hreg1
      · rw [if_neg hx] at ht
        exact hpost ch κ t ht
    · intro ch κ hlt hlp
      simp only [ltHold] at hlt
      simp only [lpHold] at hlp
      by_cases hx : ch = ch0 ∧ κ = depKey res facs
      · rw [if_pos hx] at hlt; cases hlt
      · rw [if_neg hx] at hlt
        rw [hframe ch κ hlt hlp]
        exact hregO1 ch κ hx

end QP.C17.Frag
