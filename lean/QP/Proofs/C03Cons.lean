import QP.Proofs.C03Internal
/-!
# C03 helper lemmas, part 8: the outcome of instantiation tracks the visible constraints

`Tracks r c`: if the computation `r` succeeds the judge `c` accepts, and if `r` raises a constraint violation
then so does the judge (no visible entry before the violated one fails to evaluate).
-/
namespace QP.C03
open QP QP.PT

abbrev CV : Err → Prop := fun e => e = .constraintViolation

def Tracks {α : Type} (r : Except Err α) (c : Except Err Unit) : Prop :=
  (∀ a, r = .ok a → c = .ok ()) ∧ (r = .error .constraintViolation → c = .error .constraintViolation)

section TracksLemmas
variable {α β : Type}

theorem tracks_pure (a : α) : Tracks (pure a : Except Err α) (.ok ()) := ⟨fun _ _ => rfl, fun h => (by cases h)⟩
theorem tracks_ok (a : α) : Tracks (Except.ok a : Except Err α) (.ok ()) := tracks_pure a

theorem tracks_error {e : Err} (h : e ≠ .constraintViolation) (c : Except Err Unit) :
    Tracks (Except.error e : Except Err α) c :=
  ⟨fun _ h' => (by cases h'), fun h' => (by cases h'; exact absurd rfl h)⟩

theorem tracks_self (x : Except Err Unit) : Tracks x x :=
  ⟨fun a h => (by cases a; exact h), fun h => h⟩

/-- a step that cannot raise a constraint violation and is not judged -/
theorem tracks_final {x : Except Err α} (h : Avoid CV x) : Tracks x (.ok ()) :=
  ⟨fun _ _ => rfl, fun h' => absurd rfl (avoid_iff.mp h _ h')⟩

theorem tracks_bind {x : Except Err α} {f : α → Except Err β} {c1 c2 : Except Err Unit}
    (hx : Tracks x c1) (hf : ∀ a, x = .ok a → Tracks (f a) c2) : Tracks (x >>= f) (c1 >>= fun _ => c2) := by
  constructor
  · intro b hb
    obtain ⟨a, ha, hb⟩ := bind_ok.mp hb
    rw [hx.1 a ha]
    exact (hf a ha).1 b hb
  · intro h
    rcases bind_err.mp h with h | ⟨a, ha, h⟩
    · rw [hx.2 h]; rfl
    · rw [hx.1 a ha]
      exact (hf a ha).2 h

theorem tracks_step {x : Except Err α} {f : α → Except Err β} {c : Except Err Unit}
    (hx : Avoid CV x) (hf : ∀ a, x = .ok a → Tracks (f a) c) : Tracks (x >>= f) c := by
  constructor
  · intro b hb
    obtain ⟨a, ha, hb⟩ := bind_ok.mp hb
    exact (hf a ha).1 b hb
  · intro h
    rcases bind_err.mp h with h | ⟨a, ha, h⟩
    · exact absurd rfl (avoid_iff.mp hx _ h)
    · exact (hf a ha).2 h

theorem tracks_bind_last {x : Except Err α} {f : α → Except Err β} {c : Except Err Unit}
    (hx : Tracks x c) (hf : ∀ a, x = .ok a → Avoid CV (f a)) : Tracks (x >>= f) c := by
  constructor
  · intro b hb
    obtain ⟨a, ha, _⟩ := bind_ok.mp hb
    exact hx.1 a ha
  · intro h
    rcases bind_err.mp h with h | ⟨a, ha, h⟩
    · exact hx.2 h
    · exact absurd rfl (avoid_iff.mp (hf a ha) _ h)

theorem Tracks.congr {x : Except Err α} {c c' : Except Err Unit} (h : Tracks x c) (hc : c = c') : Tracks x c' :=
  hc ▸ h

end TracksLemmas

theorem eval_noCV (σ : Scope) (e : Expr) : Avoid CV (σ.eval e) :=
  avoid_eval subSc_cv e (fun x _ => look_noCV σ x)

/-! ### the judge on lists -/

theorem bind_unit_ok (x : Except Err Unit) : (x >>= fun _ => (Except.ok () : Except Err Unit)) = x := by
  cases x with
  | error e => rfl
  | ok u => cases u; rfl

@[simp] theorem visOutcome_nil : visOutcome [] = .ok () := rfl

theorem visOutcome_append (l1 l2 : List Vis) : visOutcome (l1 ++ l2) = visOutcome l1 >>= fun _ => visOutcome l2 := by
  unfold visOutcome
  simp only [List.forM_append]

theorem visOutcome_cons (v : Vis) (l : List Vis) : visOutcome (v :: l) = checkVis v >>= fun _ => visOutcome l := by
  unfold visOutcome
  simp only [List.forM_cons]

theorem visOutcome_consVis (σ : Scope) (cons : List Expr) : visOutcome (consVis σ cons) = validateCons cons σ.look := by
  unfold consVis validateCons
  rw [List.forM_eq_forM]
  induction cons with
  | nil => rfl
  | cons c cs ih =>
    simp only [List.map_cons, visOutcome_cons, List.forM_cons, ih]
    refine bind_congr' ?_ (fun _ _ => rfl)
    unfold checkVis Scope.eval
    refine bind_congr' rfl (fun v _ => ?_)
    simp

theorem visOutcome_keyVis (σ : Scope) (xs : List String) : visOutcome (keyVis σ xs) = presence xs σ := by
  unfold keyVis presence
  induction xs with
  | nil => rfl
  | cons x xs ih =>
    simp only [List.map_cons, visOutcome_cons, List.forM_cons, ih]
    rfl

theorem presence_noCV (xs : List String) (σ : Scope) : Avoid CV (presence xs σ) :=
  avoid_presence (fun h => by cases h)

/-- a needed expression: it must evaluate -/
def needOutcome (σ : Scope) (e : Expr) : Except Err Unit := σ.eval e >>= fun _ => pure ()

theorem checkVis_need (σ : Scope) (e : Expr) : checkVis ⟨σ, e, false, none⟩ = needOutcome σ e := by
  unfold checkVis needOutcome
  simp

theorem tracks_need {β : Type} {σ : Scope} {e : Expr} {f : Rat → Except Err β} {c : Except Err Unit}
    (hf : ∀ a, σ.eval e = .ok a → Tracks (f a) c) : Tracks (σ.eval e >>= f) (needOutcome σ e >>= fun _ => c) := by
  unfold needOutcome
  cases h : σ.eval e with
  | error err =>
    simp only [error_bind]
    exact tracks_error (fun hcv => avoid_iff.mp (eval_noCV σ e) _ h hcv) _
  | ok a =>
    simp only [ok_bind, pure_eq_ok]
    exact hf a h

/-! ### steps that cannot raise a constraint violation -/

theorem getMeas_noCV (σ : Scope) (meas : List MeasDecl) (mm : List (MName × Option MName)) :
    Avoid CV (getMeas meas σ.look mm) :=
  avoid_getMeas subSc_cv (fun x _ => look_noCV σ x)

theorem validateCons_nil (look : String → Except Err Rat) : validateCons [] look = .ok () := rfl

theorem bw_table_factor (id entries meas cons σ cm) :
    buildWaveform (.table id entries meas cons) σ cm =
      validateCons cons σ.look >>= fun _ => buildWaveform (.table id entries meas []) σ cm := by
  rw [buildWaveform, buildWaveform, validateCons_nil]
  rfl

theorem bw_point_factor (id chans entries meas cons σ cm) :
    buildWaveform (.point id chans entries meas cons) σ cm =
      validateCons cons σ.look >>= fun _ => buildWaveform (.point id chans entries meas []) σ cm := by
  rw [buildWaveform, buildWaveform, validateCons_nil]
  rfl

theorem bw_func_factor (id ch dur e meas cons σ cm) :
    buildWaveform (.func id ch dur e meas cons) σ cm =
      validateCons cons σ.look >>= fun _ => buildWaveform (.func id ch dur e meas []) σ cm := by
  rw [buildWaveform, buildWaveform, validateCons_nil]
  rfl

theorem mapM_evalPair {σ : Scope} : ∀ {pm : List (String × Expr)} {kv : List (String × Rat)},
    pm.mapM (fun (pe : String × Expr) => (do let v ← σ.eval pe.2; pure (pe.1, v) : Except Err (String × Rat))) = .ok kv →
      pm.mapM (evalPair σ) = some kv
  | [], kv, h => by simp only [List.mapM_nil] at h; cases h; rfl
  | (k, e) :: pm, kv, h => by
      simp only [List.mapM_cons] at h
      obtain ⟨kv1, h1, h⟩ := bind_ok.mp h
      obtain ⟨kvs, h2, h⟩ := bind_ok.mp h
      cases h
      obtain ⟨v, hv, h1⟩ := bind_ok.mp h1
      cases h1
      simp only [List.mapM_cons, evalPair, hv, mapM_evalPair h2]
      rfl

/-- successful eager mapping: the enumeration's dictionary is the one the code builds -/
theorem mappedDict_of_mapValues {pm : List (String × Expr)} {σ σ' : Scope} (h : mapValues pm σ = .ok σ') :
    mappedDict pm σ = some σ' := by
  unfold mapValues at h
  obtain ⟨kv, hkv, h⟩ := bind_ok.mp h
  cases h
  unfold mappedDict
  rw [mapM_evalPair hkv]
  rfl

mutual
theorem am_noCV : ∀ (pt : PT) (σ : Scope) (cm : List (Chan × Option Chan)) (mm : List (MName × Option MName))
    (w? : Option Wf), buildWaveform pt σ cm = .ok w? → Avoid CV (atomicMeas pt σ mm)
  | .const .., σ, _, mm, _, _ => by rw [atomicMeas]; exact getMeas_noCV σ _ mm
  | .table .., σ, _, mm, _, _ => by rw [atomicMeas]; exact getMeas_noCV σ _ mm
  | .point .., σ, _, mm, _, _ => by rw [atomicMeas]; exact getMeas_noCV σ _ mm
  | .func .., σ, _, mm, _, _ => by rw [atomicMeas]; exact getMeas_noCV σ _ mm
  | .seq .., σ, _, mm, _, _ => by rw [atomicMeas]; exact getMeas_noCV σ _ mm
  | .rep .., σ, _, mm, _, _ => by rw [atomicMeas]; exact getMeas_noCV σ _ mm
  | .forLoop .., σ, _, mm, _, _ => by rw [atomicMeas]; exact getMeas_noCV σ _ mm
  | .mapping id body pm mm' cm' cons, σ, cm, mm, w?, h => by
      have hS : SubSc CV := subSc_cv
      rw [buildWaveform] at h
      obtain ⟨σ', hσ', h⟩ := bind_ok.mp h
      obtain ⟨cmU, _, h⟩ := bind_ok.mp h
      rw [atomicMeas, hσ']
      simp only [ok_bind]
      have := am_noCV body σ' cmU
      avoid_auto
      exact this _ _ h
  | .parallel .., _, _, _, _, _ => by
      have hS : SubSc CV := subSc_cv
      rw [atomicMeas]; avoid_auto
  | .atomicMulti id subs dur meas cons, σ, cm, mm, w?, h => by
      have hS : SubSc CV := subSc_cv
      rw [buildWaveform] at h
      obtain ⟨_, _, h⟩ := bind_ok.mp h
      obtain ⟨wfs, hwfs, h⟩ := bind_ok.mp h
      rw [atomicMeas]
      have h1 := getMeas_noCV σ meas mm
      have h2 := aml_noCV subs σ cm mm wfs hwfs
      avoid_auto
  | .arith id body op scalar ptIsLhs, σ, cm, mm, w?, h => by
      rw [buildWaveform] at h
      obtain ⟨inner, hi, _⟩ := bind_ok.mp h
      rw [atomicMeas]
      exact am_noCV body σ cm mm inner hi
  | .arithAtomic id lhs minus rhs meas, σ, cm, mm, w?, h => by
      have hS : SubSc CV := subSc_cv
      rw [buildWaveform] at h
      obtain ⟨l, hl, h⟩ := bind_ok.mp h
      obtain ⟨r, hr, h⟩ := bind_ok.mp h
      rw [atomicMeas]
      have h1 := getMeas_noCV σ meas mm
      have h2 := am_noCV lhs σ cm mm l hl
      have h3 := am_noCV rhs σ cm mm r hr
      avoid_auto
  | .timeReversal .., _, _, _, _, _ => by
      have hS : SubSc CV := subSc_cv
      rw [atomicMeas]; avoid_auto
theorem aml_noCV : ∀ (ps : List PT) (σ : Scope) (cm : List (Chan × Option Chan)) (mm : List (MName × Option MName))
    (ws : List Wf), buildWaveformList ps σ cm = .ok ws → Avoid CV (atomicMeasList ps σ mm)
  | [], _, _, _, _, _ => by rw [atomicMeasList]; exact avoid_ok _
  | p :: ps, σ, cm, mm, ws, h => by
      have hS : SubSc CV := subSc_cv
      rw [buildWaveformList] at h
      obtain ⟨w, hw, h⟩ := bind_ok.mp h
      obtain ⟨ws', hws, _⟩ := bind_ok.mp h
      rw [atomicMeasList]
      have h1 := am_noCV p σ cm mm w hw
      have h2 := aml_noCV ps σ cm mm ws' hws
      avoid_auto
end

end QP.C03
