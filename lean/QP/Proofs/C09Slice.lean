import QP.Proofs.C09Ops
/-! `Node.__setitem__`: after a slice or item assignment every child records its position and the
node as its parent. -/
namespace QP.C09

/-- every element of the child list records its position and `uid` as parent -/
def Links (uid : Nat) (ks : List T) : Prop :=
  ∀ (k : Nat) (d : T), ks[k]? = some d → d.info.pidx = some (k : Int) ∧ d.info.par = some uid

theorem linksOkHere_iff (t : T) : linksOkHere t ↔ Links t.info.uid t.kids := Iff.rfl

/-- renumbering the positions selected by `P` repairs a list that agrees with a linked list elsewhere -/
theorem links_renum (P : Nat → Prop) [DecidablePred P] (uid : Nat) (ks L : List T)
    (hl : Links uid ks) (hpar : ∀ d ∈ L, d.info.par = some uid)
    (hsame : ∀ j, ¬ P j → ∀ d, L[j]? = some d → ks[j]? = some d) :
    Links uid (L.mapIdx (fun j c => if P j then c.withPidx (some (j : Int)) else c)) := by
  intro k d hk
  simp only [List.getElem?_mapIdx, Option.map_eq_some_iff] at hk
  obtain ⟨x, hx, rfl⟩ := hk
  by_cases hp : P k
  · rw [if_pos hp]
    exact ⟨by simp, by simpa using hpar x (List.mem_of_getElem? hx)⟩
  · simp only [hp, if_false]
    exact hl k x (hsame k hp x hx)

theorem coherent_renum (P : Nat → Prop) [DecidablePred P] (L : List T) (h : ∀ d ∈ L, Coherent d) :
    ∀ d ∈ L.mapIdx (fun j c => if P j then c.withPidx (some (j : Int)) else c), Coherent d := by
  intro d hd
  simp only [List.mem_mapIdx] at hd
  obtain ⟨j, hj, rfl⟩ := hd
  by_cases hp : P j
  · simp only [hp, if_true]; exact coherent_withPidx _ _ (h _ (List.getElem_mem hj))
  · simp only [hp, if_false]; exact h _ (List.getElem_mem hj)

theorem assignExt_mem (idxs : List Nat) (vs ks : List T) :
    ∀ d ∈ assignExt idxs vs ks, d ∈ vs ∨ d ∈ ks := by
  induction idxs generalizing vs ks with
  | nil => intro d hd; simp only [assignExt] at hd; exact Or.inr hd
  | cons i is ih =>
    cases vs with
    | nil => intro d hd; simp only [assignExt] at hd; exact Or.inr hd
    | cons v vs =>
      intro d hd
      simp only [assignExt] at hd
      rcases ih vs (ks.set i v) d hd with h | h
      · exact Or.inl (List.mem_cons_of_mem _ h)
      · rcases List.mem_or_eq_of_mem_set h with h | h
        · exact Or.inr h
        · exact Or.inl (by rw [h]; exact List.mem_cons_self)

theorem assignExt_untouched (idxs : List Nat) (vs ks : List T) (j : Nat) (hj : j ∉ idxs) :
    (assignExt idxs vs ks)[j]? = ks[j]? := by
  induction idxs generalizing vs ks with
  | nil => simp [assignExt]
  | cons i is ih =>
    cases vs with
    | nil => simp [assignExt]
    | cons v vs =>
      simp only [assignExt]
      rw [ih vs (ks.set i v) (fun h => hj (List.mem_cons_of_mem _ h))]
      exact List.getElem?_set_ne (fun h => hj (by rw [h]; exact List.mem_cons_self))

theorem adjustIdx_bounds (v : Option Int) (len step : Int) (b : Bool) (hlen : 0 ≤ len) (hs : 0 < step) :
    0 ≤ adjustIdx v len step b ∧ adjustIdx v len step b ≤ len := by
  unfold adjustIdx
  cases v with
  | none => cases b <;> simp <;> omega
  | some x =>
    simp only
    split
    · split <;> (try split) <;> omega
    · split <;> (try split) <;> omega

theorem mem_rangeIdx_one (s : Int) (n j : Nat) (hs : 0 ≤ s) :
    j ∈ rangeIdx s 1 n ↔ s.toNat ≤ j ∧ j < s.toNat + n := by
  simp only [rangeIdx, List.mem_map, List.mem_range]
  constructor
  · rintro ⟨i, hi, rfl⟩; omega
  · rintro ⟨h1, h2⟩; exact ⟨j - s.toNat, by omega, by omega⟩

theorem sliceAssign_ok (uid : Nat) (ks vs : List T) (a b c : Option Int) (r : SliceRes)
    (hl : Links uid ks) (hk : ∀ d ∈ ks, Coherent d) (hv : ∀ d ∈ vs, Coherent d)
    (h : sliceAssign uid ks a b c vs = .ok r) :
    Links uid r.kids ∧ (∀ d ∈ r.kids, Coherent d) := by
  have hparks : ∀ d ∈ ks, d.info.par = some uid := by
    intro d hd
    obtain ⟨k, hk', hkd⟩ := List.getElem_of_mem hd
    exact (hl k d (by rw [List.getElem?_eq_getElem hk', hkd])).2
  have hvs' : ∀ d ∈ vs.map (T.withPar (some uid)), Coherent d ∧ d.info.par = some uid := by
    intro d hd
    simp only [List.mem_map] at hd
    obtain ⟨x, hx, rfl⟩ := hd
    exact ⟨coherent_withPar _ _ (hv x hx), by simp⟩
  unfold sliceAssign at h
  simp only at h
  split at h
  · cases h
  · split at h
    · -- plain slice
      rename_i hstep
      rw [hstep] at h
      have hlen : (0 : Int) ≤ (ks.length : Int) := by omega
      obtain ⟨s0, s1⟩ := adjustIdx_bounds a ks.length 1 true hlen (by omega)
      obtain ⟨e0, e1⟩ := adjustIdx_bounds b ks.length 1 false hlen (by omega)
      generalize adjustIdx a ks.length 1 true = s at *
      generalize adjustIdx b ks.length 1 false = e at *
      have hmemL : ∀ d ∈ List.take s.toNat ks ++ vs.map (T.withPar (some uid)) ++
          List.drop (if e < s then s else e).toNat ks, Coherent d ∧ d.info.par = some uid := by
        intro d hd
        rcases List.mem_append.1 hd with h | h
        · rcases List.mem_append.1 h with h | h
          · exact ⟨hk d (List.mem_of_mem_take h), hparks d (List.mem_of_mem_take h)⟩
          · exact hvs' d h
        · exact ⟨hk d (List.mem_of_mem_drop h), hparks d (List.mem_of_mem_drop h)⟩
      have htake : (List.take s.toNat ks).length = s.toNat := by rw [List.length_take]; omega
      split at h
      · -- lengths differ: renumber from `start`
        cases h
        refine ⟨?_, ?_⟩
        · apply links_renum (fun j => s.toNat ≤ j) uid ks _ hl (fun d hd => (hmemL d hd).2)
          intro j hj d hd
          have hj' : j < s.toNat := by omega
          rw [List.append_assoc, List.getElem?_append_left (by omega), List.getElem?_take_of_lt hj'] at hd
          exact hd
        · exact coherent_renum _ _ (fun d hd => (hmemL d hd).1)
      · -- equal lengths: renumber the assigned positions
        rename_i hlen'
        cases h
        refine ⟨?_, ?_⟩
        · apply links_renum (fun j => j ∈ rangeIdx s 1 (rangeLen s e 1)) uid ks _ hl (fun d hd => (hmemL d hd).2)
          intro j hj d hd
          rw [mem_rangeIdx_one s _ j s0] at hj
          have hn : rangeLen s e 1 = ((if e < s then s else e) - s).toNat := by
            simp only [rangeLen]; split <;> split <;> omega
          have hvl : (vs.map (T.withPar (some uid))).length = ((if e < s then s else e) - s).toNat := by
            rw [← hn]; simpa using hlen'
          by_cases hj' : j < s.toNat
          · rw [List.append_assoc, List.getElem?_append_left (by omega), List.getElem?_take_of_lt hj'] at hd
            exact hd
          · have hge : s.toNat + ((if e < s then s else e) - s).toNat ≤ j := by rw [hn] at hj; omega
            rw [List.getElem?_append_right (by simp only [List.length_append, htake, hvl]; omega)] at hd
            simp only [List.length_append, htake, hvl, List.getElem?_drop] at hd
            rw [← hd]; congr 1
            split <;> omega
        · exact coherent_renum _ _ (fun d hd => (hmemL d hd).1)
    · -- extended slice
      split at h
      · cases h
      · cases h
        have hmemL : ∀ d ∈ assignExt (rangeIdx (adjustIdx a ks.length (c.getD 1) true) (c.getD 1)
              (rangeLen (adjustIdx a ks.length (c.getD 1) true) (adjustIdx b ks.length (c.getD 1) false) (c.getD 1)))
            (vs.map (T.withPar (some uid))) ks, Coherent d ∧ d.info.par = some uid := by
          intro d hd
          rcases assignExt_mem _ _ _ d hd with h | h
          · exact hvs' d h
          · exact ⟨hk d h, hparks d h⟩
        refine ⟨?_, ?_⟩
        · apply links_renum (fun j => j ∈ _) uid ks _ hl (fun d hd => (hmemL d hd).2)
          intro j hj d hd
          rw [assignExt_untouched _ _ _ j hj] at hd
          exact hd
        · exact coherent_renum _ _ (fun d hd => (hmemL d hd).1)

theorem itemAssign_ok (uid : Nat) (ks : List T) (idx : Int) (v : T) (r : SliceRes)
    (hl : Links uid ks) (hk : ∀ d ∈ ks, Coherent d) (hv : Coherent v)
    (h : itemAssign uid ks idx v = .ok r) :
    Links uid r.kids ∧ (∀ d ∈ r.kids, Coherent d) := by
  unfold itemAssign at h
  simp only at h
  generalize (if idx < 0 then idx + (ks.length : Int) else idx) = j at h
  by_cases hb : j < 0 ∨ j ≥ (ks.length : Int)
  · rw [if_pos hb] at h; cases h
  · rw [if_neg hb] at h
    cases h
    simp only
    refine ⟨?_, ?_⟩
    · intro k d hd
      by_cases hkj : j.toNat = k
      · subst hkj
        rw [List.getElem?_set_self (by omega)] at hd
        cases hd
        simp
        omega
      · rw [List.getElem?_set_ne hkj] at hd
        exact hl k d hd
    · intro d hd
      rcases List.mem_or_eq_of_mem_set hd with h | h
      · exact hk d h
      · rw [h]; exact coherent_withPidx _ _ (coherent_withPar _ _ hv)

end QP.C09
