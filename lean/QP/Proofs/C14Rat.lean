import QP.Proofs.C14Int
import Mathlib.Tactic.FieldSimp
import Mathlib.Tactic.LinearCombination
/-!
# C14 — from the integer loop to `approximate_rational` over `Rat`, and the judge
-/
namespace QP.C14

theorem bridge (n alpha d den : Int) (hden : 0 < den) (p q : Int) (hq : 0 < q) :
    (((n:Rat) + (alpha:Rat) / den) - (d:Rat) / den < (p:Rat) / q ↔
        (alpha - d) * q < den * (p - n * q)) ∧
    ((p:Rat) / q < ((n:Rat) + (alpha:Rat) / den) + (d:Rat) / den ↔
        den * (p - n * q) < (alpha + d) * q) := by
  have hden' : (0:Rat) < (den:Rat) := by exact_mod_cast hden
  have hq' : (0:Rat) < (q:Rat) := by exact_mod_cast hq
  have e1 : ((n:Rat) + (alpha:Rat) / den) - (d:Rat) / den = ((n * den + alpha - d : Int) : Rat) / den := by
    push_cast; field_simp
  have e2 : ((n:Rat) + (alpha:Rat) / den) + (d:Rat) / den = ((n * den + alpha + d : Int) : Rat) / den := by
    push_cast; field_simp
  rw [e1, e2, div_lt_div_iff₀ hden' hq', div_lt_div_iff₀ hq' hden']
  constructor
  · constructor
    · intro h
      have h' : (n * den + alpha - d) * q < p * den := by exact_mod_cast h
      linarith
    · intro h
      have h' : (n * den + alpha - d) * q < p * den := by linarith
      exact_mod_cast h'
  · constructor
    · intro h
      have h' : p * den < (n * den + alpha + d) * q := by exact_mod_cast h
      linarith
    · intro h
      have h' : p * den < (n * den + alpha + d) * q := by linarith
      exact_mod_cast h'

/-- what `approximate_rational` returns, stated on the pair it hands to `fraction_type` -/
structure GoodRat (x e : Rat) (P Q : Int) : Prop where
  qpos : 0 < Q
  lo : x - e < (P:Rat) / Q
  hi : (P:Rat) / Q < x + e
  min : ∀ p q : Int, 0 < q → x - e < (p:Rat) / q → (p:Rat) / q < x + e → Q ≤ q

/-- the arithmetic preamble of `approximate_rational` for a non-integer `x` -/
theorem preamble (x e : Rat) (he : 0 < e) (hx1 : (x.den : Int) ≠ 1) :
    let xq : Int := x.den
    let dq : Int := e.den
    let n := Int.fdiv x.num xq
    let den : Int := Int.lcm xq dq
    let alpha := Int.fdiv (Int.fmod x.num xq * den) xq
    let d := Int.fdiv (e.num * den) dq
    0 < den ∧ 0 < alpha ∧ alpha < den ∧ 0 < d ∧
      x = (n:Rat) + (alpha:Rat) / den ∧ e = (d:Rat) / den := by
  intro xq dq n den alpha d
  have hxq : 0 < xq := Int.natCast_pos.mpr x.den_pos
  have hdq : 0 < dq := Int.natCast_pos.mpr e.den_pos
  have hdp : 0 < e.num := Rat.num_pos.mpr he
  have hden : 0 < den := by
    exact Int.natCast_pos.mpr (Int.lcm_pos (m := xq) (n := dq) (by omega) (by omega))
  have hdvd1 : xq ∣ den := Int.dvd_lcm_left xq dq
  have hdvd2 : dq ∣ den := Int.dvd_lcm_right xq dq
  have halpha : alpha * xq = Int.fmod x.num xq * den :=
    Int.fdiv_mul_cancel (Dvd.dvd.mul_left hdvd1 _)
  have hd : d * dq = e.num * den := Int.fdiv_mul_cancel (Dvd.dvd.mul_left hdvd2 _)
  have hsplit := Int.fmod_add_mul_fdiv x.num xq
  have ha0 := Int.fmod_nonneg_of_pos x.num hxq
  have ha1 := Int.fmod_lt_of_pos x.num hxq
  have ha2 : Int.fmod x.num xq ≠ 0 := by
    intro h0
    have h1 : xq ∣ x.num := Int.dvd_of_fmod_eq_zero h0
    have h2 : x.den ∣ x.num.natAbs := Int.natCast_dvd.mp h1
    have h3 := Nat.Coprime.eq_one_of_dvd x.reduced.symm h2
    apply hx1
    show ((x.den : Nat) : Int) = 1
    rw [h3]; rfl
  generalize Int.fmod x.num xq = a0 at *
  have ha0' : 0 < a0 := by omega
  have hxqR : (0:Rat) < (xq:Rat) := by exact_mod_cast hxq
  have hdqR : (0:Rat) < (dq:Rat) := by exact_mod_cast hdq
  have hdenR : (0:Rat) < (den:Rat) := by exact_mod_cast hden
  refine ⟨hden, ?_, ?_, ?_, ?_, ?_⟩
  · have h1 : 0 < alpha * xq := by rw [halpha]; exact Int.mul_pos ha0' hden
    rcases lt_or_ge 0 alpha with h | h
    · exact h
    · have := Int.mul_nonneg (show 0 ≤ -alpha by omega) (Int.le_of_lt hxq)
      linarith
  · have h1 : alpha * xq < den * xq := by
      rw [halpha]
      have := Int.mul_lt_mul_of_pos_right ha1 hden
      linarith
    exact Int.lt_of_mul_lt_mul_right h1 (Int.le_of_lt hxq)
  · have h1 : 0 < d * dq := by rw [hd]; exact Int.mul_pos hdp hden
    rcases lt_or_ge 0 d with h | h
    · exact h
    · have := Int.mul_nonneg (show 0 ≤ -d by omega) (Int.le_of_lt hdq)
      linarith
  · have hx : x = (x.num : Rat) / (xq : Rat) := by
      show x = (x.num : Rat) / (((x.den : Nat) : Int) : Rat)
      rw [Int.cast_natCast]
      exact (Rat.num_div_den x).symm
    have hnum : (x.num : Rat) = (a0 : Rat) + (xq : Rat) * (n : Rat) := by
      have : x.num = a0 + xq * n := by linarith
      exact_mod_cast this
    have halphaR : (alpha : Rat) * xq = a0 * den := by exact_mod_cast halpha
    rw [hx, hnum]
    field_simp
    linear_combination (-1 : Rat) * halphaR
  · have hee : e = (e.num : Rat) / (dq : Rat) := by
      show e = (e.num : Rat) / (((e.den : Nat) : Int) : Rat)
      rw [Int.cast_natCast]
      exact (Rat.num_div_den e).symm
    have hdR : (d : Rat) * dq = e.num * den := by exact_mod_cast hd
    rw [hee]
    field_simp
    linear_combination (-1 : Rat) * hdR

theorem GoodRat.of_good (x e : Rat) (n alpha d den P Q : Int) (hden : 0 < den)
    (hx : x = (n:Rat) + (alpha:Rat) / den) (he : e = (d:Rat) / den)
    (g : Good (alpha - d) (alpha + d) den P Q) : GoodRat x e (P + n * Q) Q := by
  subst hx he
  refine ⟨g.qpos, ?_, ?_, ?_⟩
  · rw [(bridge n alpha d den hden (P + n * Q) Q g.qpos).1]
    have := g.lo; linarith
  · rw [(bridge n alpha d den hden (P + n * Q) Q g.qpos).2]
    have := g.hi; linarith
  · intro p q hq hlo hhi
    rw [(bridge n alpha d den hden p q hq).1] at hlo
    rw [(bridge n alpha d den hden p q hq).2] at hhi
    exact g.min (p - n * q) q hq hlo hhi

theorem approximateRationalPair_spec (x e : Rat) (he : 0 < e) :
    ∃ P Q, approximateRationalPair x e = .ok (P, Q) ∧ GoodRat x e P Q := by
  simp only [approximateRationalPair]
  rw [if_neg (not_le.mpr he)]
  by_cases hx1 : (x.den : Int) = 1
  · rw [if_pos hx1]
    refine ⟨x.num, 1, rfl, ?_⟩
    have hx : x = (x.num : Rat) / ((1 : Int) : Rat) := by
      rw [← hx1, Int.cast_natCast]
      exact (Rat.num_div_den x).symm
    refine ⟨by omega, ?_, ?_, fun p q hq _ _ => by omega⟩
    · rw [← hx]; linarith
    · rw [← hx]; linarith
  · rw [if_neg hx1]
    obtain ⟨hden, ha0, ha1, hd0, hx, hee⟩ := preamble x e he hx1
    generalize Int.fdiv x.num (x.den : Int) = n at *
    generalize ((Int.lcm (x.den : Int) (e.den : Int) : Nat) : Int) = den at *
    generalize Int.fdiv (Int.fmod x.num (x.den : Int) * den) (x.den : Int) = alpha at *
    generalize Int.fdiv (e.num * den) (e.den : Int) = d at *
    split
    · rename_i hlt
      refine ⟨_, _, rfl, ?_⟩
      have hdenR : (0:Rat) < (den:Rat) := by exact_mod_cast hden
      have hfrac : (0:Rat) < (alpha:Rat) / den := div_pos (by exact_mod_cast ha0) hdenR
      have hlt' : (alpha:Rat) / den < (d:Rat) / den :=
        (div_lt_div_iff_of_pos_right hdenR).mpr (by exact_mod_cast hlt)
      have hval : (((0 + n * 1 : Int) : Rat)) / ((1:Int):Rat) = (n:Rat) := by
        push_cast; simp
      refine ⟨by omega, ?_, ?_, fun p q hq _ _ => by omega⟩
      · rw [hval]; linarith
      · rw [hval]; linarith
    · rename_i hge
      obtain ⟨P, Q, hres, g⟩ := approxInt_spec alpha d den hd0 (by omega) ha1
      rw [hres]
      exact ⟨_, _, rfl, GoodRat.of_good x e n alpha d den P Q hden hx hee g⟩

theorem approximateRational_spec (x e : Rat) (he : 0 < e) :
    ∃ r, approximateRational x e = .ok r ∧ IsBestApprox x e r := by
  obtain ⟨P, Q, hpair, g⟩ := approximateRationalPair_spec x e he
  have hQ := g.qpos
  simp only [approximateRational, hpair]
  rw [if_neg (by omega), if_neg (by omega), mul_one]
  refine ⟨_, rfl, ?_⟩
  have hval : mkRat P Q.natAbs = (P:Rat) / (Q:Rat) := by
    rw [Rat.mkRat_eq_div]
    congr 1
    have : ((Q.natAbs : Nat) : Int) = Q := Int.natAbs_of_nonneg (by omega)
    rw [← Int.cast_natCast (R := Rat) Q.natAbs, this]
  refine ⟨by rw [hval]; exact g.lo, by rw [hval]; exact g.hi, ?_⟩
  intro p q hq hlo hhi
  rw [Rat.mkRat_eq_div] at hlo hhi
  have h1 : Q ≤ (q:Int) := g.min p q (by omega) (by simpa using hlo) (by simpa using hhi)
  have h2 : (mkRat P Q.natAbs).den ≤ Q.natAbs := by
    rw [Rat.den_mkRat]
    split
    · omega
    · exact Nat.div_le_self _ _
  omega

theorem hasFractionWithDen_iff (lo hi : Rat) (q : Nat) (hq : 0 < q) :
    hasFractionWithDen lo hi q = true ↔ ∃ p : Int, lo < mkRat p q ∧ mkRat p q < hi := by
  have hqR : (0:Rat) < (q:Rat) := by exact_mod_cast hq
  simp only [hasFractionWithDen, decide_eq_true_eq, Rat.mkRat_eq_div]
  constructor
  · intro h
    refine ⟨(lo * q).floor + 1, ?_, ?_⟩
    · rw [lt_div_iff₀ hqR]
      exact Rat.lt_floor_add_one _
    · rw [div_lt_iff₀ hqR]
      exact h
  · rintro ⟨p, h1, h2⟩
    rw [lt_div_iff₀ hqR] at h1
    rw [div_lt_iff₀ hqR] at h2
    have h3 : ((lo * q).floor : Rat) < (p : Rat) := lt_of_le_of_lt (Rat.floor_le _) h1
    have h4 : (lo * q).floor + 1 ≤ p := by
      have : (lo * q).floor < p := by exact_mod_cast h3
      omega
    have h5 : (((lo * q).floor + 1 : Int) : Rat) ≤ (p : Rat) := by exact_mod_cast h4
    exact lt_of_le_of_lt h5 h2

theorem isBestApproxB_iff (x e r : Rat) : isBestApproxB x e r = true ↔ IsBestApprox x e r := by
  simp only [isBestApproxB, IsBestApprox, Bool.and_eq_true, decide_eq_true_eq, List.all_eq_true,
    List.mem_range, Bool.or_eq_true, beq_iff_eq, Bool.not_eq_true', and_assoc]
  constructor
  · rintro ⟨h1, h2, h3⟩
    refine ⟨h1, h2, ?_⟩
    intro p q hq hlo hhi
    by_contra hlt
    rcases h3 q (by omega) with h0 | hf
    · omega
    · have := (hasFractionWithDen_iff (x - e) (x + e) q hq).mpr ⟨p, hlo, hhi⟩
      rw [this] at hf
      exact Bool.noConfusion hf
  · rintro ⟨h1, h2, h3⟩
    refine ⟨h1, h2, ?_⟩
    intro q hq
    rcases Nat.eq_zero_or_pos q with h0 | hpos
    · exact Or.inl h0
    · right
      cases hf : hasFractionWithDen (x - e) (x + e) q
      · rfl
      · obtain ⟨p, hlo, hhi⟩ := (hasFractionWithDen_iff (x - e) (x + e) q hpos).mp hf
        have := h3 p q hpos hlo hhi
        omega

end QP.C14
