import QP.Proofs.C19Inv
/-! The `upload` step of the driver model keeps the history invariant. -/
namespace QP.C19

theorem maskL_cons_true {α} (y : α) (ys : List α) (ms : List Bool) :
    maskL (y :: ys) (true :: ms) = y :: maskL ys ms := by simp [maskL]
theorem maskL_cons_false {α} (y : α) (ys : List α) (ms : List Bool) :
    maskL (y :: ys) (false :: ms) = maskL ys ms := by simp [maskL]

theorem maskL_length {α} (ys : List α) (ms : List Bool) (h : ys.length = ms.length) :
    (maskL ys ms).length = ms.count true := by
  induction ms generalizing ys with
  | nil => cases ys <;> simp [maskL]
  | cons b ms ih =>
    cases ys with
    | nil => simp at h
    | cons y ys =>
      simp at h
      cases b
      · rw [maskL_cons_false]; simp [ih ys h]
      · rw [maskL_cons_true]; simp [ih ys h]

/-- `a[mask] = start + arange(count)`: unmasked entries stay, the `j`-th masked entry gets `start + j`,
and the `j`-th element of `ys[mask]` is the element of `ys` at the same position -/
theorem assignMask_spec {α} (ms : List Bool) :
    ∀ (xs : List Int) (ys : List α) (start : Nat), xs.length = ms.length → ys.length = ms.length →
    let r := assignMask xs ms ((List.range' start (ms.count true)).map (fun (j : Nat) => (j : Int)))
    r.length = xs.length ∧
    (∀ (k : Nat), ms[k]? = some false → r[k]? = xs[k]?) ∧
    (∀ (k : Nat), ms[k]? = some true → ∃ (j : Nat), j < ms.count true ∧ r[k]? = some ((start + j : Nat) : Int) ∧
        (maskL ys ms)[j]? = ys[k]?) ∧
    (∀ (j : Nat), j < ms.count true → ∃ (k : Nat), ms[k]? = some true ∧ r[k]? = some ((start + j : Nat) : Int)) := by
  induction ms with
  | nil =>
    intro xs ys start hx hy
    cases xs with
    | nil => simp [assignMask]
    | cons x xs => simp at hx
  | cons b ms ih =>
    intro xs ys start hx hy
    cases xs with
    | nil => simp at hx
    | cons x xs =>
      cases ys with
      | nil => simp at hy
      | cons y ys =>
        simp at hx hy
        cases b
        · -- false
          have := ih xs ys start hx hy
          simp only [List.count_cons, Bool.false_eq_true, beq_iff_eq, if_false, Nat.add_zero, assignMask] at this ⊢
          obtain ⟨h1, h2, h3, h4⟩ := this
          refine ⟨by simp [h1], ?_, ?_, ?_⟩
          · intro k hk
            cases k with
            | zero => simp
            | succ k => simp at hk ⊢; exact h2 k hk
          · intro k hk
            cases k with
            | zero => simp at hk
            | succ k =>
              simp at hk
              obtain ⟨j, hj, hr, hm⟩ := h3 k hk
              exact ⟨j, hj, by simpa using hr, by simpa [maskL_cons_false] using hm⟩
          · intro j hj
            obtain ⟨k, hk, hr⟩ := h4 j hj
            exact ⟨k + 1, by simpa using hk, by simpa using hr⟩
        · -- true
          have := ih xs ys (start + 1) hx hy
          obtain ⟨h1, h2, h3, h4⟩ := this
          have hcnt : (true :: ms).count true = ms.count true + 1 := by simp
          rw [hcnt, List.range'_succ]
          simp only [List.map_cons, assignMask]
          refine ⟨by simp [h1], ?_, ?_, ?_⟩
          · intro k hk
            cases k with
            | zero => simp at hk
            | succ k => simp at hk ⊢; exact h2 k hk
          · intro k hk
            cases k with
            | zero => exact ⟨0, by omega, by simp, by simp [maskL_cons_true]⟩
            | succ k =>
              simp at hk
              obtain ⟨j, hj, hr, hm⟩ := h3 k hk
              refine ⟨j + 1, by omega, ?_, by simpa [maskL_cons_true] using hm⟩
              simp only [List.getElem?_cons_succ, hr]
              congr 2; omega
          · intro j hj
            cases j with
            | zero => exact ⟨0, by simp, by simp⟩
            | succ j =>
              obtain ⟨k, hk, hr⟩ := h4 j (by omega)
              refine ⟨k + 1, by simpa using hk, ?_⟩
              simp only [List.getElem?_cons_succ, hr]
              congr 2; omega

/-- the insert loop never trips the guards of `_upload_segment` when the slots are unreferenced, large
enough and pairwise distinct; it writes exactly those slots -/
theorem insertLoop_spec (segs : List (Int × Nat)) (ins : List Int) :
    ∀ (wfs : List Nat) (m : Mem) (w2s : List Int),
    wfs.Nodup →
    (∀ wf, wf ∈ wfs → ∃ (t h : Int) (len c : Nat), ins[wf]? = some t ∧ 0 ≤ t ∧ segs[wf]? = some (h, len) ∧
        m.refs[t.toNat]? = some 0 ∧ m.caps[t.toNat]? = some c ∧ len ≤ c) →
    (∀ wf, wf ∈ wfs → ∀ wf', wf' ∈ wfs → wf ≠ wf' → ins[wf]? ≠ ins[wf']?) →
    m.lens.length = m.refs.length → m.hashes.length = m.refs.length →
    m.contents.length = m.refs.length →
    (∀ wf, wf ∈ wfs → wf < w2s.length) →
    ∃ (m' : Mem) (w2s' : List Int), insertLoop segs ins wfs m w2s = (m', w2s', none) ∧
      m'.caps = m.caps ∧ m'.progs = m.progs ∧
      m'.refs.length = m.refs.length ∧ m'.hashes.length = m.hashes.length ∧
      m'.contents.length = m.contents.length ∧ m'.lens.length = m.lens.length ∧
      w2s'.length = w2s.length ∧
      (∀ (s : Nat), (∀ wf, wf ∈ wfs → ins[wf]? ≠ some (s : Int)) →
        m'.refs[s]? = m.refs[s]? ∧ m'.hashes[s]? = m.hashes[s]? ∧ m'.contents[s]? = m.contents[s]?) ∧
      (∀ wf, wf ∈ wfs → ∀ (t h : Int) (len : Nat), ins[wf]? = some t → segs[wf]? = some (h, len) →
        m'.refs[t.toNat]? = some 1 ∧ m'.hashes[t.toNat]? = some h ∧ m'.contents[t.toNat]? = some h ∧
        w2s'[wf]? = some t) ∧
      (∀ (k : Nat), k ∉ wfs → w2s'[k]? = w2s[k]?) := by
  intro wfs
  induction wfs with
  | nil =>
    intro m w2s _ _ _ _ _ _ _
    refine ⟨m, w2s, rfl, rfl, rfl, rfl, rfl, rfl, rfl, rfl, ?_, ?_, ?_⟩
    · intro s _; exact ⟨rfl, rfl, rfl⟩
    · intro wf hwf; cases hwf
    · intro k _; rfl
  | cons wf rest ih =>
    intro m w2s hnd hslots hdist hL hH hG hW
    rw [List.nodup_cons] at hnd
    obtain ⟨t, h, len, c, hit, ht0, hseg, hr0, hcap, hle⟩ := hslots wf List.mem_cons_self
    have htlt : t.toNat < m.refs.length := getElem?_lt_of_some hr0
    -- the head
    have hup : uploadSegment m t.toNat h len =
        .ok { m with lens := m.lens.set t.toNat len, refs := m.refs.set t.toNat 1,
                     hashes := m.hashes.set t.toNat h, contents := m.contents.set t.toNat h } := by
      unfold uploadSegment
      simp only [hr0, hcap]
      have h1 : ¬ (0 < 0) := by omega
      have h2 : ¬ (c < len) := by omega
      have h3 : t.toNat < m.lens.length ∧ t.toNat < m.hashes.length := by omega
      simp [h2, h3]
    -- the other slots differ from `t`
    have hother : ∀ wf', wf' ∈ rest → ∀ (t' : Int), ins[wf']? = some t' → 0 ≤ t' → t.toNat ≠ t'.toNat := by
      intro wf' hwf' t' hit' ht0' heq
      have hne : wf ≠ wf' := fun e => hnd.1 (e ▸ hwf')
      apply hdist wf List.mem_cons_self wf' (List.mem_cons_of_mem _ hwf') hne
      rw [hit, hit']
      congr 1; omega
    obtain ⟨m', w2s', hloop, hcaps, hprogs, hlr, hlh, hlg, hll, hlw, hsame, hset, hkeep⟩ :=
      ih { m with lens := m.lens.set t.toNat len, refs := m.refs.set t.toNat 1,
                  hashes := m.hashes.set t.toNat h, contents := m.contents.set t.toNat h }
        (w2s.set wf t) hnd.2
        (by
          intro wf' hwf'
          obtain ⟨t', h', len', c', hit', ht0', hseg', hr0', hcap', hle'⟩ :=
            hslots wf' (List.mem_cons_of_mem _ hwf')
          refine ⟨t', h', len', c', hit', ht0', hseg', ?_, hcap', hle'⟩
          have := hother wf' hwf' t' hit' ht0'
          simp only [List.getElem?_set]
          simp [this, hr0'])
        (fun a ha b hb => hdist a (List.mem_cons_of_mem _ ha) b (List.mem_cons_of_mem _ hb))
        (by simp [hL]) (by simp [hH]) (by simp [hG])
        (by intro wf' hwf'; simp; exact hW wf' (List.mem_cons_of_mem _ hwf'))
    refine ⟨m', w2s', ?_, hcaps, hprogs, by simpa using hlr, by simpa using hlh, by simpa using hlg,
      by simpa using hll, by simpa using hlw, ?_, ?_, ?_⟩
    · unfold insertLoop
      simp only [hit, hseg, hup]
      exact hloop
    · intro s hs
      have hst : t.toNat ≠ s := by
        intro e
        apply hs wf List.mem_cons_self
        rw [hit]; congr 1; omega
      obtain ⟨h1, h2, h3⟩ := hsame s (fun wf' hwf' => hs wf' (List.mem_cons_of_mem _ hwf'))
      simp only [List.getElem?_set] at h1 h2 h3
      simp only [hst, if_false] at h1 h2 h3
      exact ⟨h1, h2, h3⟩
    · intro wf' hwf' t' h' len' hit' hseg'
      rcases List.mem_cons.mp hwf' with rfl | hr
      · rw [hit] at hit'; rw [hseg] at hseg'
        cases hit'; cases hseg'
        obtain ⟨h1, h2, h3⟩ := hsame t.toNat (by
          intro wf' hwf'' hc
          have h0' : (0 : Int) ≤ ((t.toNat : Nat) : Int) := by omega
          exact hother wf' hwf'' _ hc h0' (by omega))
        have hk := hkeep wf' hnd.1
        simp only [List.getElem?_set] at h1 h2 h3 hk
        have hwl : wf' < w2s.length := hW wf' List.mem_cons_self
        have hlh' : t.toNat < m.hashes.length := by omega
        have hlg' : t.toNat < m.contents.length := by omega
        simp only [if_true, htlt, hlh', hlg', hwl] at h1 h2 h3 hk
        exact ⟨h1, h2, h3, hk⟩
      · exact hset wf' hr t' h' len' hit' hseg'
    · intro k hk
      have hk1 : k ≠ wf := fun e => hk (e ▸ List.mem_cons_self)
      have hk2 : k ∉ rest := fun e => hk (List.mem_cons_of_mem _ e)
      rw [hkeep k hk2]
      simp only [List.getElem?_set]
      simp [Ne.symm hk1]

theorem IsKnown.elim' {i : Inp} {o : Out} {k : Nat} (h : IsKnown i o k) :
    ∃ (v hh : Int), o.w2s[k]? = some v ∧ i.newHashes[k]? = some hh ∧ 0 ≤ v ∧
      i.hashes[v.toNat]? = some hh ∧ o.amend[k]? = some false ∧ o.insert[k]? = some (-1) := by
  unfold IsKnown at h
  obtain ⟨ha, hi, hm⟩ := h
  split at hm
  · rename_i v hh hv hh'
    exact ⟨v, hh, hv, hh', hm.1, hm.2, ha, hi⟩
  · exact absurd hm id

theorem IsInsert.elim' {i : Inp} {o : Out} {k : Nat} (h : IsInsert i o k) :
    o.w2s[k]? = some (-1) ∧ o.amend[k]? = some false ∧
    ∃ (t : Int) (len c : Nat), o.insert[k]? = some t ∧ i.newLens[k]? = some len ∧ 0 ≤ t ∧
      i.refs[t.toNat]? = some 0 ∧ i.caps[t.toNat]? = some c ∧ len ≤ c := by
  unfold IsInsert at h
  obtain ⟨hw, ha, hm⟩ := h
  refine ⟨hw, ha, ?_⟩
  split at hm
  · rename_i t len ht hl
    obtain ⟨h0, hr, hc⟩ := hm
    split at hc
    · rename_i c hc'
      exact ⟨t, len, c, ht, hl, h0, hr, hc', hc⟩
    · exact absurd hc id
  · exact absurd hm id

/-- the input handed to the decision function by `upload` -/
def inpOf (m : Mem) (total : Int) (segs : List (Int × Nat)) : Inp :=
  ⟨m.hashes, m.refs, m.caps, total, segs.map (fun s => s.1), segs.map (fun s => s.2)⟩

/-- `s` is a slot that the placement overwrites -/
def SlotOf (o : Out) (s : Nat) : Prop := ∃ (k : Nat) (t : Int), o.insert[k]? = some t ∧ 0 ≤ t ∧ t.toNat = s

/-- first half of `upload` after the decision: reference counters of the re-used slots, insert loop -/
theorem stageAB {m : Mem} (hI : Inv m) {total : Int} {segs : List (Int × Nat)} {o : Out}
    (hS : PlaceSafe (inpOf m total segs) o) :
    ∃ (refs1 : List Nat) (m2 : Mem) (w2s2 : List Int),
      updAt m.refs (o.w2s.filter (fun s => decide (0 ≤ s))) (fun r => r + 1) = .ok refs1 ∧
      insertLoop segs o.insert (flatnonzero (o.insert.map (fun t => decide (0 < t))))
        { m with refs := refs1 } o.w2s = (m2, w2s2, none) ∧
      m2.caps = m.caps ∧ m2.progs = m.progs ∧ m2.refs.length = m.hashes.length ∧
      m2.hashes.length = m.hashes.length ∧ m2.contents.length = m.hashes.length ∧
      m2.lens.length = m.hashes.length ∧ w2s2.length = segs.length ∧
      (∀ (s : Nat), ¬ SlotOf o s →
        m2.refs[s]? = (m.refs[s]?).map (fun r => if (s : Int) ∈ o.w2s then r + 1 else r) ∧
        m2.hashes[s]? = m.hashes[s]? ∧ m2.contents[s]? = m.contents[s]?) ∧
      (∀ (k : Nat) (t h : Int) (len : Nat), o.insert[k]? = some t → 0 ≤ t → segs[k]? = some (h, len) →
        m2.refs[t.toNat]? = some 1 ∧ m2.hashes[t.toNat]? = some h ∧ m2.contents[t.toNat]? = some h ∧
        w2s2[k]? = some t) ∧
      (∀ (k : Nat), o.insert[k]? = some (-1) → w2s2[k]? = o.w2s[k]?) := by
  obtain ⟨⟨hlw, hla, hli⟩, hacc, hdist, hdisj, _⟩ := hS
  simp only [inpOf, List.length_map] at hlw hla hli hacc
  -- every entry of w2s is -1 or a valid index
  have hwvalid : ∀ v, v ∈ o.w2s → 0 ≤ v → v.toNat < m.refs.length := by
    intro v hv h0
    obtain ⟨k, hk⟩ := List.getElem?_of_mem hv
    have hkM : k < segs.length := by rw [← hlw]; exact getElem?_lt_of_some hk
    rcases hacc k hkM with hK | hIn | hA
    · obtain ⟨v', hh, hv', _, _, hd, _, _⟩ := hK.elim'
      rw [hk] at hv'; cases hv'
      have := getElem?_lt_of_some hd
      simp only at this
      rw [hI.lenR]; exact this
    · rw [hIn.elim'.1] at hk; cases hk; omega
    · rw [hA.1] at hk; cases hk; omega
  -- stage A
  have hall : (o.w2s.filter (fun s => decide (0 ≤ s))).all (fun k => (normIdx m.refs.length k).isSome) = true := by
    rw [List.all_eq_true]
    intro v hv
    rw [List.mem_filter] at hv
    have h0 : 0 ≤ v := by simpa using hv.2
    simp [normIdx_of_lt h0 (hwvalid v hv.1 h0)]
  have hany : ∀ (s : Nat), ((o.w2s.filter (fun s => decide (0 ≤ s))).any
      (fun k => normIdx m.refs.length k == some s)) = decide ((s : Int) ∈ o.w2s) := by
    intro s
    rw [Bool.eq_iff_iff]
    simp only [List.any_eq_true, List.mem_filter, decide_eq_true_eq, beq_iff_eq]
    constructor
    · rintro ⟨v, ⟨hv, h0⟩, hn⟩
      rw [normIdx_of_lt h0 (hwvalid v hv h0)] at hn
      have : v = (s : Int) := by have := Option.some.inj hn; omega
      rw [← this]; exact hv
    · intro hs
      have h0 : (0 : Int) ≤ (s : Int) := by omega
      exact ⟨(s : Int), ⟨hs, h0⟩, by simpa using normIdx_of_lt h0 (hwvalid _ hs h0)⟩
  have hrefs1 : updAt m.refs (o.w2s.filter (fun s => decide (0 ≤ s))) (fun r => r + 1) =
      .ok (m.refs.mapIdx (fun i r => if (o.w2s.filter (fun s => decide (0 ≤ s))).any
        (fun k => normIdx m.refs.length k == some i) then r + 1 else r)) := by
    simp only [updAt, hall, if_true]
  have hrefs1_get : ∀ (s : Nat), (m.refs.mapIdx (fun i r => if (o.w2s.filter (fun s => decide (0 ≤ s))).any
        (fun k => normIdx m.refs.length k == some i) then r + 1 else r))[s]? =
        (m.refs[s]?).map (fun r => if (s : Int) ∈ o.w2s then r + 1 else r) := by
    intro s
    simp only [List.getElem?_mapIdx, hany s, decide_eq_true_eq]
  -- stage B: facts about the members of the loop list
  have hwfs : ∀ wf, wf ∈ flatnonzero (o.insert.map (fun t => decide (0 < t))) →
      ∃ (t : Int), o.insert[wf]? = some t ∧ 0 < t := by
    intro wf hwf
    rw [mem_flatnonzero, List.getElem?_map] at hwf
    cases ht : o.insert[wf]? with
    | none => simp [ht] at hwf
    | some t => simp [ht] at hwf; exact ⟨t, rfl, hwf⟩
  have hins : ∀ (k : Nat) (t : Int), o.insert[k]? = some t → 0 ≤ t →
      k < segs.length ∧ IsInsert (inpOf m total segs) o k := by
    intro k t hk h0
    have hkM : k < segs.length := by rw [← hli]; exact getElem?_lt_of_some hk
    refine ⟨hkM, ?_⟩
    rcases hacc k hkM with hK | hIn | hA
    · obtain ⟨_, _, _, _, _, _, _, hi⟩ := hK.elim'
      rw [hi] at hk; cases hk; omega
    · exact hIn
    · rw [hA.2.2] at hk; cases hk; omega
  have hslot0 : ∀ (k : Nat) (t : Int), o.insert[k]? = some t → 0 ≤ t → 0 < t := by
    intro k t hk h0
    obtain ⟨_, hIn⟩ := hins k t hk h0
    obtain ⟨_, _, t', len, c, ht', _, _, hr0, _, _⟩ := hIn.elim'
    rw [hk] at ht'; cases ht'
    simp only [inpOf] at hr0
    by_cases ht0 : t = 0
    · subst ht0
      have hc0 := hI.count 0 (by rw [hI.lenR]; exact hI.idle)
      simp at hr0
      rw [hr0] at hc0
      simp at hc0
      omega
    · omega
  obtain ⟨m2, w2s2, hloop, hcaps, hprogs, hlr, hlh, hlg, hll, hlw2, hsame, hset, hkeep⟩ :=
    insertLoop_spec segs o.insert (flatnonzero (o.insert.map (fun t => decide (0 < t))))
      { m with refs := m.refs.mapIdx (fun i r => if (o.w2s.filter (fun s => decide (0 ≤ s))).any
        (fun k => normIdx m.refs.length k == some i) then r + 1 else r) } o.w2s
      ((flatnonzero_sorted _).imp (fun h => Nat.ne_of_lt h))
      (by
        intro wf hwf
        obtain ⟨t, ht, htpos⟩ := hwfs wf hwf
        obtain ⟨hkM, hIn⟩ := hins wf t ht (by omega)
        obtain ⟨_, _, t', len, c, ht', hl', h0, hr0, hc, hle⟩ := hIn.elim'
        rw [ht] at ht'; cases ht'
        simp only [inpOf] at hr0 hc hl'
        obtain ⟨⟨h, len'⟩, hseg⟩ : ∃ x, segs[wf]? = some x := ⟨_, List.getElem?_eq_getElem hkM⟩
        have : len' = len := by
          rw [List.getElem?_map, hseg] at hl'; simpa using hl'
        subst this
        refine ⟨t, h, len', c, ht, h0, hseg, ?_, hc, hle⟩
        show (m.refs.mapIdx _)[t.toNat]? = some 0
        rw [hrefs1_get, hr0]
        have hnot : ¬ (((t.toNat : Nat) : Int) ∈ o.w2s) := by
          have : ((t.toNat : Nat) : Int) = t := by omega
          rw [this]
          exact hdisj t (List.mem_of_getElem? ht) h0
        simp only [Option.map_some, hnot, if_false])
      (by
        intro wf hwf wf' hwf' hne
        obtain ⟨t, ht, htpos⟩ := hwfs wf hwf
        obtain ⟨t', ht', _⟩ := hwfs wf' hwf'
        exact hdist wf (getElem?_lt_of_some ht) wf' (getElem?_lt_of_some ht') hne
          (by simp only [IsSlot, ht]; omega))
      (by show m.lens.length = (m.refs.mapIdx _).length; simp [hI.lenL, hI.lenR])
      (by show m.hashes.length = (m.refs.mapIdx _).length; simp [hI.lenR])
      (by show m.contents.length = (m.refs.mapIdx _).length; simp [hI.lenG, hI.lenR])
      (by
        intro wf hwf
        obtain ⟨t, ht, _⟩ := hwfs wf hwf
        have := getElem?_lt_of_some ht
        omega)
  refine ⟨_, m2, w2s2, hrefs1, hloop, hcaps, hprogs, ?_, ?_, ?_, ?_, ?_, ?_, ?_, ?_⟩
  · rw [hlr]; show (m.refs.mapIdx _).length = _; simp [hI.lenR]
  · rw [hlh]
  · rw [hlg]; exact hI.lenG
  · rw [hll]; exact hI.lenL
  · rw [hlw2, hlw]
  · intro s hs
    obtain ⟨h1, h2, h3⟩ := hsame s (by
      intro wf hwf hc
      apply hs
      exact ⟨wf, (s : Int), hc, by omega, by omega⟩)
    refine ⟨?_, h2, h3⟩
    rw [h1]; exact hrefs1_get s
  · intro k t h len hk h0 hseg
    have hpos := hslot0 k t hk h0
    have hmem : k ∈ flatnonzero (o.insert.map (fun t => decide (0 < t))) := by
      rw [mem_flatnonzero, List.getElem?_map, hk]; simp [hpos]
    exact hset k hmem t h len hk hseg
  · intro k hk
    apply hkeep
    intro hmem
    obtain ⟨t, ht, htpos⟩ := hwfs k hmem
    rw [hk] at ht; cases ht; omega

theorem refCount_append_single (progs : List Prog) (p : Prog) (s : Nat) :
    refCount (progs ++ [p]) s = refCount progs s + (if (s : Int) ∈ p.w2s then 1 else 0) := by
  unfold refCount
  rw [List.countP_append]
  simp [List.countP_cons]

/-- second half of `upload`: whatever `_amend_segments` and the mask assignment produce, if it has the
pointwise shape below the registered program and all older ones are intact -/
theorem final_inv {m : Mem} (hI : Inv m) {total : Int} {segs : List (Int × Nat)} {o : Out}
    (hS : PlaceSafe (inpOf m total segs) o) {name : Nat} (hname : ∀ p, p ∈ m.progs → p.name ≠ name)
    {m2 : Mem} {w2s2 : List Int}
    (hP2 : ∀ (s : Nat), ¬ SlotOf o s →
        m2.refs[s]? = (m.refs[s]?).map (fun r => if (s : Int) ∈ o.w2s then r + 1 else r) ∧
        m2.hashes[s]? = m.hashes[s]? ∧ m2.contents[s]? = m.contents[s]?)
    (hP3 : ∀ (k : Nat) (t h : Int) (len : Nat), o.insert[k]? = some t → 0 ≤ t → segs[k]? = some (h, len) →
        m2.refs[t.toNat]? = some 1 ∧ m2.hashes[t.toNat]? = some h ∧ m2.contents[t.toNat]? = some h ∧
        w2s2[k]? = some t)
    (hP4 : ∀ (k : Nat), o.insert[k]? = some (-1) → w2s2[k]? = o.w2s[k]?)
    {m3 : Mem} {w2s3 : List Int}
    (hprogs3 : m3.progs = m.progs)
    (hlenC : m3.caps.length = m3.hashes.length) (hlenL : m3.lens.length = m3.hashes.length)
    (hlenR : m3.refs.length = m3.hashes.length) (hlenG : m3.contents.length = m3.hashes.length)
    (hge : m.hashes.length ≤ m3.hashes.length)
    (hlow : ∀ (s : Nat), s < m.hashes.length →
        m3.refs[s]? = m2.refs[s]? ∧ m3.hashes[s]? = m2.hashes[s]? ∧ m3.contents[s]? = m2.contents[s]?)
    (hhigh : ∀ (s : Nat), m.hashes.length ≤ s → s < m3.hashes.length →
        m3.refs[s]? = some 1 ∧ m3.contents[s]? = m3.hashes[s]? ∧
        ∃ (k : Nat), o.amend[k]? = some true ∧ w2s3[k]? = some (s : Int))
    (hw3len : w2s3.length = segs.length)
    (hw3f : ∀ (k : Nat), o.amend[k]? = some false → w2s3[k]? = w2s2[k]?)
    (hw3t : ∀ (k : Nat), o.amend[k]? = some true → ∃ (s : Nat), m.hashes.length ≤ s ∧ s < m3.hashes.length ∧
        w2s3[k]? = some (s : Int) ∧ m3.contents[s]? = (segs[k]?).map (fun x => x.1)) :
    Inv { m3 with progs := m3.progs ++ [⟨name, w2s3, segs.map (fun s => s.1)⟩] } := by
  obtain ⟨⟨hlw, hla, hli⟩, hacc, hdist, hdisj, _⟩ := hS
  simp only [inpOf, List.length_map] at hlw hla hli hacc
  -- an overwritten slot was unreferenced
  have hslot_ref : ∀ (s : Nat), SlotOf o s → m.refs[s]? = some 0 ∧ s < m.hashes.length := by
    rintro s ⟨k, t, hk, h0, hts⟩
    have hkM : k < segs.length := by rw [← hli]; exact getElem?_lt_of_some hk
    rcases hacc k hkM with hK | hIn | hA
    · obtain ⟨_, _, _, _, _, _, _, hi⟩ := hK.elim'
      rw [hi] at hk; cases hk; omega
    · obtain ⟨_, _, t', len, c, ht', _, _, hr0, _, _⟩ := hIn.elim'
      rw [hk] at ht'; cases ht'
      simp only at hr0
      rw [hts] at hr0
      refine ⟨hr0, ?_⟩
      have := getElem?_lt_of_some hr0
      rw [hI.lenR] at this; exact this
    · rw [hA.2.2] at hk; cases hk; omega
  -- a slot an old program refers to is not overwritten
  have hold_noslot : ∀ p, p ∈ m.progs → ∀ (k : Nat) (v : Int), p.w2s[k]? = some v → ¬ SlotOf o v.toNat := by
    intro p hp k v hk hslot
    obtain ⟨_, _, r, hr, hr0⟩ := hI.ref_pos hp hk
    rw [(hslot_ref _ hslot).1] at hr
    cases hr; omega
  -- a re-used slot is not overwritten
  have hknown_noslot : ∀ (v : Int), v ∈ o.w2s → 0 ≤ v → ¬ SlotOf o v.toNat := by
    rintro v hv h0 ⟨k, t, hk, ht0, hts⟩
    have : t = v := by omega
    subst this
    exact hdisj t (List.mem_of_getElem? hk) ht0 hv
  -- classification of the new program's entries
  have hclass : ∀ (k : Nat), k < segs.length →
      (∃ (v h : Int), o.w2s[k]? = some v ∧ (segs[k]?).map (fun x => x.1) = some h ∧ 0 ≤ v ∧
          m.hashes[v.toNat]? = some h ∧ w2s3[k]? = some v) ∨
      (∃ (t h : Int) (len : Nat), o.insert[k]? = some t ∧ 0 ≤ t ∧ segs[k]? = some (h, len) ∧
          w2s3[k]? = some t) ∨
      (o.amend[k]? = some true) := by
    intro k hkM
    rcases hacc k hkM with hK | hIn | hA
    · left
      obtain ⟨v, h, hv, hh, h0, hd, ha, hi⟩ := hK.elim'
      simp only at hh hd
      refine ⟨v, h, hv, ?_, h0, hd, ?_⟩
      · rw [List.getElem?_map] at hh; exact hh
      · rw [hw3f k ha, hP4 k hi, hv]
    · right; left
      obtain ⟨_, ha, t, len, c, ht, _, h0, _, _, _⟩ := hIn.elim'
      obtain ⟨⟨h, len'⟩, hseg⟩ : ∃ x, segs[k]? = some x := ⟨_, List.getElem?_eq_getElem hkM⟩
      refine ⟨t, h, len', ht, h0, hseg, ?_⟩
      rw [hw3f k ha]
      exact (hP3 k t h len' ht h0 hseg).2.2.2
    · right; right; exact hA.2.1
  constructor
  · exact hlenC
  · exact hlenL
  · exact hlenR
  · exact hlenG
  · -- bookkeeping hash = instrument content
    intro s hs
    show m3.contents[s]? = m3.hashes[s]?
    by_cases hsn : s < m.hashes.length
    · obtain ⟨_, h2, h3⟩ := hlow s hsn
      rw [h2, h3]
      by_cases hslot : SlotOf o s
      · obtain ⟨k, t, hk, h0, hts⟩ := hslot
        have hkM : k < segs.length := by rw [← hli]; exact getElem?_lt_of_some hk
        obtain ⟨⟨h, len⟩, hseg⟩ : ∃ x, segs[k]? = some x := ⟨_, List.getElem?_eq_getElem hkM⟩
        obtain ⟨_, hh, hg, _⟩ := hP3 k t h len hk h0 hseg
        rw [hts] at hh hg
        rw [hh, hg]
      · obtain ⟨_, hh, hg⟩ := hP2 s hslot
        rw [hh, hg]; exact hI.same s hsn
    · exact (hhigh s (by omega) hs).2.1
  · -- programs
    intro p hp
    show ProgOk _ p
    rw [hprogs3] at hp
    rcases List.mem_append.mp hp with hold | hnew
    · obtain ⟨hlen, hok⟩ := hI.progs p hold
      refine ⟨hlen, ?_⟩
      intro k hk v hv
      obtain ⟨h0, hlt, hc⟩ := hok k hk v hv
      rw [hI.lenG] at hlt
      refine ⟨h0, ?_, ?_⟩
      · show v.toNat < m3.contents.length
        rw [hlenG]; omega
      · show m3.contents[v.toNat]? = _
        rw [(hlow _ hlt).2.2, (hP2 _ (hold_noslot p hold k v hv)).2.2]
        exact hc
    · simp only [List.mem_singleton] at hnew
      subst hnew
      refine ⟨by simp [hw3len], ?_⟩
      intro k hk v hv
      simp only at hk hv ⊢
      rw [hw3len] at hk
      show 0 ≤ v ∧ v.toNat < m3.contents.length ∧ m3.contents[v.toNat]? = (segs.map (fun s => s.1))[k]?
      rw [List.getElem?_map, hlenG]
      rcases hclass k hk with ⟨v', h, hv', hh, h0, hd, hw⟩ | ⟨t, h, len, ht, h0, hseg, hw⟩ | ha
      · rw [hv] at hw; cases hw
        have hlt : v.toNat < m.hashes.length := getElem?_lt_of_some hd
        refine ⟨h0, by omega, ?_⟩
        rw [(hlow _ hlt).2.2, (hP2 _ (hknown_noslot v (List.mem_of_getElem? hv') h0)).2.2,
          hI.same _ hlt, hd, hh]
      · rw [hv] at hw; cases hw
        have hlt : v.toNat < m.hashes.length := (hslot_ref _ ⟨k, v, ht, h0, rfl⟩).2
        refine ⟨h0, by omega, ?_⟩
        rw [(hlow _ hlt).2.2, (hP3 k v h len ht h0 hseg).2.2.1, hseg]
        rfl
      · obtain ⟨s, hs1, hs2, hw, hc⟩ := hw3t k ha
        rw [hv] at hw; cases hw
        refine ⟨by omega, by simpa using hs2, ?_⟩
        simpa using hc
  · -- names
    show List.Pairwise _ (m3.progs ++ _)
    rw [hprogs3, List.pairwise_append]
    refine ⟨hI.names, by simp, ?_⟩
    intro p hp q hq
    simp only [List.mem_singleton] at hq
    subst hq
    exact hname p hp
  · -- reference counts
    intro s hs
    show m3.refs[s]? = some ((if s = 0 then 1 else 0) + refCount (m3.progs ++ _) s)
    rw [hprogs3, refCount_append_single]
    rw [hlenR] at hs
    simp only
    by_cases hsn : s < m.hashes.length
    · rw [(hlow s hsn).1]
      have hc := hI.count s (by rw [hI.lenR]; exact hsn)
      by_cases hslot : SlotOf o s
      · obtain ⟨hr0, _⟩ := hslot_ref s hslot
        obtain ⟨k, t, hk, h0, hts⟩ := hslot
        have hkM : k < segs.length := by rw [← hli]; exact getElem?_lt_of_some hk
        obtain ⟨⟨h, len⟩, hseg⟩ : ∃ x, segs[k]? = some x := ⟨_, List.getElem?_eq_getElem hkM⟩
        obtain ⟨hr, _, _, hw2⟩ := hP3 k t h len hk h0 hseg
        rw [hts] at hr
        rw [hr0] at hc
        have hzero : (if s = 0 then 1 else 0) + refCount m.progs s = 0 := (Option.some.inj hc).symm
        have hmem : (s : Int) ∈ w2s3 := by
          have ha : o.amend[k]? = some false := by
            rcases hacc k hkM with hK | hIn | hA
            · exact hK.1
            · exact hIn.2.1
            · rw [hA.2.2] at hk; cases hk; omega
          have : w2s3[k]? = some t := by rw [hw3f k ha]; exact hw2
          have hts' : (s : Int) = t := by omega
          rw [hts']; exact List.mem_of_getElem? this
        rw [hr]; simp only [hmem, if_true]; exact congrArg some (by omega)
      · rw [(hP2 s hslot).1, hc]
        simp only [Option.map_some]
        by_cases hin : (s : Int) ∈ o.w2s
        · have hmem : (s : Int) ∈ w2s3 := by
            obtain ⟨k, hk⟩ := List.getElem?_of_mem hin
            have hkM : k < segs.length := by rw [← hlw]; exact getElem?_lt_of_some hk
            rcases hclass k hkM with ⟨v', h, hv', hh, h0, hd, hw⟩ | ⟨t, h, len, ht, h0, hseg, hw⟩ | ha
            · rw [hk] at hv'; cases hv'; exact List.mem_of_getElem? hw
            · exfalso
              rcases hacc k hkM with hK | hIn | hA
              · obtain ⟨_, _, _, _, _, _, _, hi⟩ := hK.elim'
                rw [hi] at ht; have := Option.some.inj ht; omega
              · rw [hIn.1] at hk; have := Option.some.inj hk; omega
              · rw [hA.1] at hk; have := Option.some.inj hk; omega
            · exfalso
              rcases hacc k hkM with hK | hIn | hA
              · rw [hK.1] at ha; cases ha
              · rw [hIn.2.1] at ha; cases ha
              · rw [hA.1] at hk; have := Option.some.inj hk; omega
          simp only [hin, hmem, if_true]; exact congrArg some (by omega)
        · have hnmem : ¬ (s : Int) ∈ w2s3 := by
            intro hmem
            obtain ⟨k, hk⟩ := List.getElem?_of_mem hmem
            have hkM : k < segs.length := by rw [← hw3len]; exact getElem?_lt_of_some hk
            rcases hclass k hkM with ⟨v', h, hv', hh, h0, hd, hw⟩ | ⟨t, h, len, ht, h0, hseg, hw⟩ | ha
            · rw [hk] at hw; cases hw
              exact hin (List.mem_of_getElem? hv')
            · rw [hk] at hw; cases hw
              exact hslot ⟨k, (s : Int), ht, h0, by omega⟩
            · obtain ⟨s', hs1, _, hw, _⟩ := hw3t k ha
              rw [hk] at hw; cases hw; omega
          simp only [hin, hnmem, if_false, Nat.add_zero]
    · obtain ⟨hr, _, k, ha, hw⟩ := hhigh s (by omega) hs
      rw [hr]
      have hmem : (s : Int) ∈ w2s3 := List.mem_of_getElem? hw
      have hs0 : s ≠ 0 := by have := hI.idle; omega
      have hzero : refCount m.progs s = 0 := by
        apply refCount_zero
        intro p hp hmem'
        obtain ⟨k', hk'⟩ := List.getElem?_of_mem hmem'
        obtain ⟨_, hlt, _⟩ := hI.ref_pos hp hk'
        omega
      simp only [hmem, hs0, if_true, if_false, hzero]
  · show 0 < m3.hashes.length
    have := hI.idle; omega

/-- after a safe placement decision the rest of `upload` succeeds and keeps the invariant -/
theorem applyPlacement_inv {m : Mem} (hI : Inv m) {total : Int} {segs : List (Int × Nat)} {o : Out}
    (hS : PlaceSafe (inpOf m total segs) o) {name : Nat} (hname : ∀ p, p ∈ m.progs → p.name ≠ name) :
    (applyPlacement m name segs o).2 = .ok ∧ Inv (applyPlacement m name segs o).1 := by
  obtain ⟨refs1, m2, w2s2, hupd, hloop, hcaps, hprogs, hlr, hlh, hlg, hll, hlw2, hP2, hP3, hP4⟩ := stageAB hI hS
  have hla : o.amend.length = segs.length := by
    have := hS.1.2.1
    simpa [inpOf] using this
  unfold applyPlacement
  simp only [hupd, hloop]
  by_cases hany : o.amend.any (fun b => b) = true
  · simp only [hany, if_true, amendSegments]
    have hcnt := maskL_length segs o.amend hla.symm
    obtain ⟨a1, a2, a3, a4⟩ := assignMask_spec o.amend w2s2 segs m2.caps.length (by omega) hla.symm
    rw [← hcnt] at a1 a2 a3 a4
    have hcl : m2.caps.length = m.hashes.length := by rw [hcaps]; exact hI.lenC
    refine ⟨trivial, ?_⟩
    apply final_inv hI hS hname hP2 hP3 hP4 (m3 := { m2 with
        caps := m2.caps ++ (maskL segs o.amend).map (fun s => s.2),
        lens := m2.lens ++ (maskL segs o.amend).map (fun s => s.2),
        refs := m2.refs ++ (maskL segs o.amend).map (fun _ => 1),
        hashes := m2.hashes ++ (maskL segs o.amend).map (fun s => s.1),
        contents := m2.contents ++ (maskL segs o.amend).map (fun s => s.1) })
    · exact hprogs
    · simp; omega
    · simp; omega
    · simp; omega
    · simp; omega
    · simp; omega
    · intro s hs
      refine ⟨?_, ?_, ?_⟩
      · exact List.getElem?_append_left (by omega)
      · exact List.getElem?_append_left (by omega)
      · exact List.getElem?_append_left (by omega)
    · intro s hs1 hs2
      simp only [List.length_append, List.length_map] at hs2
      rw [hlh] at hs2
      refine ⟨?_, ?_, ?_⟩
      · show (m2.refs ++ _)[s]? = some 1
        rw [List.getElem?_append_right (by omega), List.getElem?_map]
        have : s - m2.refs.length < (maskL segs o.amend).length := by omega
        rw [List.getElem?_eq_getElem this]; rfl
      · show (m2.contents ++ _)[s]? = (m2.hashes ++ _)[s]?
        rw [List.getElem?_append_right (by omega), List.getElem?_append_right (by omega), hlg, hlh]
      · obtain ⟨k, hk, hr⟩ := a4 (s - m.hashes.length) (by omega)
        refine ⟨k, hk, ?_⟩
        rw [hr]; congr 2; omega
    · rw [a1]; exact hlw2
    · exact a2
    · intro k hk
      obtain ⟨j, hj, hr, hm⟩ := a3 k hk
      refine ⟨m2.caps.length + j, by omega, ?_, hr, ?_⟩
      · simp only [List.length_append, List.length_map]; omega
      · show (m2.contents ++ _)[m2.caps.length + j]? = _
        rw [List.getElem?_append_right (by omega), List.getElem?_map, hlg, hcl]
        have : m.hashes.length + j - m.hashes.length = j := by omega
        rw [this, hm]
  · simp only [hany]
    have hnone : ∀ (k : Nat), o.amend[k]? ≠ some true := by
      intro k hk
      apply hany
      rw [List.any_eq_true]
      exact ⟨true, List.mem_of_getElem? hk, rfl⟩
    refine ⟨trivial, ?_⟩
    apply final_inv hI hS hname hP2 hP3 hP4 (m3 := m2) (w2s3 := w2s2)
    · exact hprogs
    · rw [hcaps, hlh]; exact hI.lenC
    · rw [hll, hlh]
    · rw [hlr, hlh]
    · rw [hlg, hlh]
    · omega
    · intro s _; exact ⟨rfl, rfl, rfl⟩
    · intro s hs1 hs2; omega
    · exact hlw2
    · intro k _; rfl
    · intro k hk; exact absurd hk (hnone k)

/-- what `upload` does, under the invariant: outcome and resulting state in the three possible cases -/
theorem upload_cases {m : Mem} (hI : Inv m) (total idle : Int) (name : Nat) (force : Bool)
    (segs : List (Int × Nat)) :
    -- refused because the name is taken: nothing changed
    ((step total idle m (.upload name force segs)) = (m, .error .valueError)) ∨
    (∃ m0, Inv m0 ∧ (∀ p, p ∈ m0.progs → p.name ≠ name) ∧
        (m0 = m ∨ freeProgram m name = .ok m0) ∧
        -- the decision refused: the state is the one before the decision
        ((∃ e, findPlace (inpOf m0 total segs) = .error e ∧
            step total idle m (.upload name force segs) = (m0, .error e)) ∨
        -- the decision succeeded: the upload succeeds
         (∃ o, findPlace (inpOf m0 total segs) = .ok o ∧
            step total idle m (.upload name force segs) = applyPlacement m0 name segs o ∧
            (applyPlacement m0 name segs o).2 = .ok ∧ Inv (applyPlacement m0 name segs o).1))) := by
  have key : ∀ m0, Inv m0 → (∀ p, p ∈ m0.progs → p.name ≠ name) →
      ((∃ e, findPlace (inpOf m0 total segs) = .error e ∧
          (match findPlace (inpOf m0 total segs) with
            | .error e => (m0, Outcome.error e)
            | .ok o => applyPlacement m0 name segs o) = (m0, .error e)) ∨
       (∃ o, findPlace (inpOf m0 total segs) = .ok o ∧
          (match findPlace (inpOf m0 total segs) with
            | .error e => (m0, Outcome.error e)
            | .ok o => applyPlacement m0 name segs o) = applyPlacement m0 name segs o ∧
          (applyPlacement m0 name segs o).2 = .ok ∧ Inv (applyPlacement m0 name segs o).1)) := by
    intro m0 hI0 hn0
    cases hfp : findPlace (inpOf m0 total segs) with
    | error e => left; exact ⟨e, rfl, rfl⟩
    | ok o =>
      right
      have := applyPlacement_inv hI0 (findPlace_safe _ _ hfp) hn0
      exact ⟨o, rfl, rfl, this.1, this.2⟩
  unfold step
  by_cases hany : m.progs.any (fun p => p.name == name) = true
  · simp only [hany, if_true]
    cases force with
    | false => left; simp
    | true =>
      right
      simp only [if_true]
      rcases freeProgram_spec hI name with ⟨_, hno⟩ | ⟨m0, hf, hI0, hn0, _⟩
      · exfalso
        rw [List.any_eq_true] at hany
        obtain ⟨p, hp, hpn⟩ := hany
        exact hno p hp (by simpa using hpn)
      · refine ⟨m0, hI0, hn0, Or.inr hf, ?_⟩
        simp only [hf]
        exact key m0 hI0 hn0
  · right
    have hn : ∀ p, p ∈ m.progs → p.name ≠ name := by
      intro p hp hpn
      apply hany
      rw [List.any_eq_true]
      exact ⟨p, hp, by simpa using hpn⟩
    refine ⟨m, hI, hn, Or.inl rfl, ?_⟩
    simp only [hany]
    exact key m hI hn

/-- **one operation keeps the invariant** -/
theorem step_inv {m : Mem} (hI : Inv m) (total idle : Int) (op : Op) : Inv (step total idle m op).1 := by
  cases op with
  | clear => exact inv_init' idle
  | cleanup => exact cleanup_inv hI
  | free name =>
    unfold step
    rcases freeProgram_spec hI name with ⟨he, _⟩ | ⟨m', hf, hI', _⟩
    · simp only [he]; exact hI
    · simp only [hf]; exact hI'
  | remove name =>
    unfold step
    rcases freeProgram_spec hI name with ⟨he, _⟩ | ⟨m', hf, hI', _⟩
    · simp only [he]; exact hI
    · simp only [hf]; exact cleanup_inv hI'
  | upload name force segs =>
    rcases upload_cases hI total idle name force segs with h | ⟨m0, hI0, _, _, ⟨e, _, h⟩ | ⟨o, _, h, _, hi⟩⟩
    · rw [h]; exact hI
    · rw [h]; exact hI0
    · rw [h]; exact hi

theorem run_inv {m : Mem} (hI : Inv m) (total idle : Int) (ops : List Op) : Inv (run total idle m ops) := by
  induction ops generalizing m with
  | nil => exact hI
  | cons op ops ih => exact ih (step_inv hI total idle op)

end QP.C19
