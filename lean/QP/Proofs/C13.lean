import QP.Model.C13
/-! Helper lemmas for C13 (parameter scopes). -/
namespace QP.C13

/-! ### association lists -/

theorem alook_isSome_iff {β : Type} (n : Name) (l : List (Name × β)) :
    (alook n l).isSome ↔ n ∈ akeys l := by
  induction l with
  | nil => simp [alook, akeys]
  | cons kv rest ih =>
    obtain ⟨k, v⟩ := kv
    simp only [alook, akeys, List.map_cons, List.mem_cons]
    split
    · simp [*]
    · rename_i h; simp only [akeys] at ih; simp [ih, h]

theorem alook_eq_none_iff {β : Type} (n : Name) (l : List (Name × β)) :
    alook n l = none ↔ n ∉ akeys l := by
  rw [← alook_isSome_iff]; cases alook n l <;> simp

theorem alook_mem {β : Type} {n : Name} {l : List (Name × β)} {v : β} (h : alook n l = some v) :
    (n, v) ∈ l := by
  induction l with
  | nil => simp [alook] at h
  | cons kv rest ih =>
    obtain ⟨k, w⟩ := kv
    simp only [alook] at h
    split at h
    · rename_i hk; cases h; simp [hk]
    · exact List.mem_cons_of_mem _ (ih h)

theorem alook_upsert (d : Dict) (k : Name) (v : Val) (n : Name) :
    alook n (upsert d k v) = if n = k then some v else alook n d := by
  induction d with
  | nil => simp [upsert, alook]
  | cons kv rest ih =>
    obtain ⟨k', v'⟩ := kv
    simp only [upsert]
    split
    · rename_i h; subst h; simp only [alook]; split <;> rfl
    · rename_i h
      simp only [alook, ih]
      split
      · rename_i h2; subst h2; simp [h]
      · rfl

theorem akeys_upsert_mem (d : Dict) (k : Name) (v : Val) (n : Name) :
    n ∈ akeys (upsert d k v) ↔ n = k ∨ n ∈ akeys d := by
  rw [← alook_isSome_iff, alook_upsert, ← alook_isSome_iff]
  split <;> simp [*]

theorem akeys_upsert_nodup (d : Dict) (k : Name) (v : Val) (h : (akeys d).Nodup) :
    (akeys (upsert d k v)).Nodup := by
  induction d with
  | nil => simp [upsert, akeys]
  | cons kv rest ih =>
    obtain ⟨k', v'⟩ := kv
    simp only [akeys, List.map_cons, List.nodup_cons] at h
    simp only [upsert]
    split
    · rename_i hk; subst hk; simpa [akeys] using h
    · rename_i hk
      have := akeys_upsert_mem rest k v k'
      simp only [akeys] at this ih
      simp only [akeys, List.map_cons, List.nodup_cons, this, not_or]
      exact ⟨⟨hk, h.1⟩, ih h.2⟩

theorem mem_unionKeys (a b : List Name) (n : Name) : n ∈ unionKeys a b ↔ n ∈ a ∨ n ∈ b := by
  simp only [unionKeys, List.mem_append, List.mem_filter, decide_eq_true_eq]
  by_cases h : n ∈ a <;> simp [h]

theorem nodup_unionKeys (a b : List Name) (ha : a.Nodup) (hb : b.Nodup) : (unionKeys a b).Nodup := by
  simp only [unionKeys]
  rw [List.nodup_append]
  refine ⟨ha, hb.filter _, ?_⟩
  intro x hx y hy
  simp only [List.mem_filter, decide_eq_true_eq] at hy
  intro hxy; subst hxy; exact hy.2 hx

theorem mem_insertName (k : Name) (l : List Name) (n : Name) : n ∈ insertName k l ↔ n = k ∨ n ∈ l := by
  simp only [insertName]; split
  · rename_i h; constructor
    · exact Or.inr
    · rintro (rfl | h') <;> assumption
  · simp

theorem nodup_insertName (k : Name) (l : List Name) (h : l.Nodup) : (insertName k l).Nodup := by
  simp only [insertName]; split
  · exact h
  · rename_i hk; exact List.nodup_cons.2 ⟨hk, h⟩

theorem mem_dedup (l : List Name) (n : Name) : n ∈ dedup l ↔ n ∈ l := by
  induction l with
  | nil => simp [dedup]
  | cons x xs ih =>
    simp only [dedup]; split
    · rename_i h; simp only [List.mem_cons, ih]
      constructor
      · exact Or.inr
      · rintro (rfl | h')
        · exact ih.1 h
        · exact h'
    · simp only [List.mem_cons, ih]

theorem nodup_dedup (l : List Name) : (dedup l).Nodup := by
  induction l with
  | nil => simp [dedup]
  | cons x xs ih =>
    simp only [dedup]; split
    · exact ih
    · rename_i h; exact List.nodup_cons.2 ⟨h, ih⟩

theorem akeys_updateVals (vals c : Dict) : akeys (updateVals vals c) = akeys vals := by
  simp [akeys, updateVals, List.map_map, Function.comp_def]

theorem updateVals_id (vals c : Dict) (h : ∀ k, k ∈ akeys vals → k ∉ akeys c) :
    updateVals vals c = vals := by
  induction vals with
  | nil => rfl
  | cons kv rest ih =>
    obtain ⟨k, v⟩ := kv
    simp only [updateVals, List.map_cons]
    have hk : alook k c = none := (alook_eq_none_iff k c).2 (h k (by simp [akeys]))
    simp only [hk]
    congr 1
    exact ih (fun k' hk' => h k' (by simp only [akeys, List.map_cons, List.mem_cons]; exact Or.inr hk'))

/-! ### expressions -/

theorem Expr.eval_congr {ρ ρ' : Name → Option Val} (e : Expr) (h : ∀ v, v ∈ e.vars → ρ v = ρ' v) :
    e.eval ρ = e.eval ρ' := by
  induction e with
  | lit q => rfl
  | var n => exact h n (by simp [Expr.vars])
  | add a b iha ihb | sub a b iha ihb | mul a b iha ihb =>
    simp only [Expr.eval, Expr.vars, List.mem_append] at h ⊢
    rw [iha (fun v hv => h v (Or.inl hv)), ihb (fun v hv => h v (Or.inr hv))]
  | pow a k iha =>
    simp only [Expr.eval, Expr.vars] at h ⊢
    rw [iha h]

theorem Expr.eval_isSome_iff (ρ : Name → Option Val) (e : Expr) :
    (e.eval ρ).isSome ↔ ∀ v, v ∈ e.vars → (ρ v).isSome := by
  induction e with
  | lit q => simp [Expr.eval, Expr.vars]
  | var n => simp [Expr.eval, Expr.vars]
  | add a b iha ihb | sub a b iha ihb | mul a b iha ihb =>
    simp only [Expr.eval, Expr.vars, List.mem_append]
    cases ha : a.eval ρ <;> cases hb : b.eval ρ <;> simp_all <;> grind
  | pow a k iha =>
    simp only [Expr.eval, Expr.vars]
    cases ha : a.eval ρ <;> simp_all

/-! ### threading the memo state through a list of lookups -/

/-- the environment `getAll` builds when `get` answers like `ρ` -/
def envOf (ρ : Name → Option Val) : List Name → Option Dict
  | [] => some []
  | v :: vs =>
    match ρ v with
    | none => none
    | some x => match envOf ρ vs with
      | none => none
      | some env => some ((v, x) :: env)

theorem envOf_some {ρ : Name → Option Val} : ∀ {ns : List Name} {env : Dict}, envOf ρ ns = some env →
    akeys env = ns ∧ ∀ v, v ∈ ns → alook v env = ρ v
  | [], env, h => by simp [envOf] at h; subst h; simp [akeys]
  | v :: vs, env, h => by
    simp only [envOf] at h
    cases hv : ρ v with
    | none => simp [hv] at h
    | some x =>
      cases hvs : envOf ρ vs with
      | none => simp [hv, hvs] at h
      | some env' =>
        simp only [hv, hvs, Option.some.injEq] at h
        subst h
        obtain ⟨hk, hl⟩ := envOf_some hvs
        refine ⟨by simp only [akeys] at hk ⊢; simp [hk], ?_⟩
        intro w hw
        simp only [alook]
        split
        · rename_i hwv; rw [hwv, hv]
        · rename_i hwv
          simp only [List.mem_cons] at hw
          exact hl w (hw.resolve_left hwv)

theorem envOf_isSome_iff (ρ : Name → Option Val) (ns : List Name) :
    (envOf ρ ns).isSome ↔ ∀ v, v ∈ ns → (ρ v).isSome := by
  induction ns with
  | nil => simp [envOf]
  | cons v vs ih =>
    simp only [envOf]
    cases hv : ρ v with
    | none =>
      simp only [Option.isSome_none, Bool.false_eq_true, false_iff]
      intro h; have := h v (by simp); simp [hv] at this
    | some x =>
      cases hvs : envOf ρ vs with
      | none =>
        rw [hvs] at ih
        simp only [Option.isSome_none, Bool.false_eq_true, false_iff] at ih ⊢
        intro h; exact ih (fun w hw => h w (List.mem_cons_of_mem _ hw))
      | some env =>
        rw [hvs] at ih
        simp only [Option.isSome_some, true_iff] at ih ⊢
        intro w hw
        rcases List.mem_cons.1 hw with rfl | hw
        · simp [hv]
        · exact ih w hw

theorem envOf_eq_none_iff (ρ : Name → Option Val) (ns : List Name) :
    envOf ρ ns = none ↔ ∃ v, v ∈ ns ∧ ρ v = none := by
  have := envOf_isSome_iff ρ ns
  cases h : envOf ρ ns with
  | none =>
    simp only [h, Option.isSome_none, Bool.false_eq_true, false_iff] at this
    simp only [true_iff]
    apply Classical.byContradiction
    intro hne
    apply this
    intro v hv
    cases hρ : ρ v with
    | none => exact absurd ⟨v, hv, hρ⟩ hne
    | some x => rfl
  | some env =>
    simp only [h, Option.isSome_some, true_iff] at this
    simp only [reduceCtorEq, false_iff]
    rintro ⟨v, hv, hn⟩
    have := this v hv
    simp [hn] at this

/-- what a method is allowed to assume of, and must guarantee for, a `get` it is handed -/
def GetSpec (get : Caches → Name → Res Val) (P : Caches → Prop) (ρ : Name → Option Val) : Prop :=
  ∀ c n, P c → (get c n).1.toOption = ρ n ∧ P (get c n).2

theorem getAll_spec {get : Caches → Name → Res Val} {P : Caches → Prop} {ρ : Name → Option Val}
    (h : GetSpec get P ρ) : ∀ (ns : List Name) (c : Caches), P c →
      (getAll get c ns).1.toOption = envOf ρ ns ∧ P (getAll get c ns).2
  | [], c, hP => by simp [getAll, envOf, Except.toOption, hP]
  | v :: vs, c, hP => by
    obtain ⟨h1, h2⟩ := h c v hP
    simp only [getAll, envOf]
    cases hr : (get c v).1 with
    | error e =>
      simp only [hr, Except.toOption] at h1 ⊢
      rw [← h1]; exact ⟨rfl, h2⟩
    | ok x =>
      simp only [hr, Except.toOption] at h1 ⊢
      rw [← h1]
      obtain ⟨h3, h4⟩ := getAll_spec h vs (get c v).2 h2
      cases hr' : (getAll get (get c v).2 vs).1 with
      | error e =>
        simp only [hr', Except.toOption] at h3 ⊢
        rw [← h3]; exact ⟨rfl, h4⟩
      | ok env =>
        simp only [hr', Except.toOption] at h3 ⊢
        rw [← h3]; exact ⟨rfl, h4⟩

theorem evalIn_spec {get : Caches → Name → Res Val} {P : Caches → Prop} {ρ : Name → Option Val}
    (h : GetSpec get P ρ) (e : Expr) (c : Caches) (hP : P c) :
    (evalIn get c e).1.toOption = e.eval ρ ∧ P (evalIn get c e).2 := by
  obtain ⟨h1, h2⟩ := getAll_spec h e.vars c hP
  simp only [evalIn]
  cases hr : (getAll get c e.vars).1 with
  | error err =>
    simp only [hr, Except.toOption] at h1 ⊢
    refine ⟨?_, h2⟩
    obtain ⟨v, hv, hn⟩ := (envOf_eq_none_iff ρ e.vars).1 h1.symm
    cases he : e.eval ρ with
    | none => rfl
    | some x =>
      have := (Expr.eval_isSome_iff ρ e).1 (by simp [he]) v hv
      simp [hn] at this
  | ok env =>
    simp only [hr, Except.toOption] at h1 ⊢
    obtain ⟨_, hl⟩ := envOf_some h1.symm
    have hc : e.eval (fun v => alook v env) = e.eval ρ := Expr.eval_congr e hl
    rw [hc]
    cases he : e.eval ρ with
    | none => exact ⟨rfl, h2⟩
    | some x => exact ⟨rfl, h2⟩

theorem calcParameter_spec {get : Caches → Name → Res Val} {P : Caches → Prop} {ρ : Name → Option Val}
    (h : GetSpec get P ρ) (m : List (Name × Expr)) (c : Caches) (n : Name) (hP : P c) :
    (calcParameter get m c n).1.toOption = (match alook n m with | some e => e.eval ρ | none => ρ n) ∧
      P (calcParameter get m c n).2 := by
  cases hm : alook n m with
  | none => simp only [calcParameter, hm]; exact h c n hP
  | some e => simp only [calcParameter, hm]; exact evalIn_spec h e c hP

/-! ### lookup -/

theorem mappedLookup_spec {get : Caches → Name → Res Val} {inner : Scope} {m : List (Name × Expr)}
    (h : GetSpec get (CacheOK inner) (denote inner))
    {ci : Caches} {cache : Dict} {asd : Option Dict} {volc : Option (List Name)} (n : Name)
    (hc : CacheOK (.mapped inner m) (.mapped ci cache asd volc)) :
    (mappedLookup get m ci cache asd volc n).1.toOption = denote (.mapped inner m) n ∧
      CacheOK (.mapped inner m) (mappedLookup get m ci cache asd volc n).2 := by
  simp only [CacheOK] at hc
  obtain ⟨hci, hcache, hasd, hvolc⟩ := hc
  simp only [mappedLookup]
  split
  · rename_i v hv
    refine ⟨by simp [Except.toOption, hcache n v hv], ?_⟩
    simp only [CacheOK]; exact ⟨hci, hcache, hasd, hvolc⟩
  · rename_i hmiss
    obtain ⟨h1, h2⟩ := calcParameter_spec h m ci n hci
    have hden : denote (.mapped inner m) n =
        (match alook n m with | some e => e.eval (denote inner) | none => denote inner n) := by
      cases hm : alook n m <;> simp [denote, hm]
    rw [← hden] at h1
    cases hr : (calcParameter get m ci n).1 with
    | error err =>
      simp only [hr, Except.toOption] at h1 ⊢
      refine ⟨h1, ?_⟩
      simp only [CacheOK]; exact ⟨h2, hcache, hasd, hvolc⟩
    | ok v =>
      simp only [hr, Except.toOption] at h1 ⊢
      cases hasd' : asd with
      | some d =>
        -- the memo is the complete dictionary view: a miss means the name has no value
        obtain ⟨hcd, hd⟩ := hasd d hasd'
        subst hcd
        have := hd.2 n
        rw [hmiss, ← h1] at this
        cases this
      | none =>
        refine ⟨h1, ?_⟩
        simp only [CacheOK]
        refine ⟨h2, ?_, by simp, hvolc⟩
        intro k w hk
        simp only [alook] at hk
        split at hk
        · rename_i hkn; cases hk; rw [hkn]; exact h1.symm
        · exact hcache k w hk

mutual
theorem lookup_spec : ∀ (s : Scope) (c : Caches) (n : Name), CacheOK s c →
    (lookup s c n).1.toOption = denote s n ∧ CacheOK s (lookup s c n).2
  | .dict vals vol, c, n, h => by
    simp only [lookup, denote]
    refine ⟨?_, h⟩
    cases alook n vals <;> rfl
  | .mapped inner m, c, n, h => by
    cases c with
    | mapped ci cache asd volc =>
      simp only [lookup]
      exact mappedLookup_spec (fun c n hc => lookup_spec inner c n hc) n h
    | _ => simp [CacheOK] at h
  | .range inner idx v, c, n, h => by
    cases c with
    | range ci asd =>
      simp only [CacheOK] at h
      simp only [lookup, denote]
      split
      · exact ⟨rfl, by simp only [CacheOK]; exact h⟩
      · obtain ⟨h1, h2⟩ := lookup_spec inner ci n h.1
        exact ⟨h1, by simp only [CacheOK]; exact ⟨h2, h.2⟩⟩
    | _ => simp [CacheOK] at h
  | .joint es, c, n, h => by
    cases c with
    | joint ces asd volc =>
      simp only [CacheOK] at h
      simp only [lookup, denote]
      obtain ⟨h1, h2⟩ := lookupE_spec es ces n h.1
      exact ⟨h1, by simp only [CacheOK]; exact ⟨h2, h.2⟩⟩
    | _ => simp [CacheOK] at h
theorem lookupE_spec : ∀ (es : Entries) (ces : CachesE) (n : Name), CacheOKE es ces →
    (lookupE es ces n).1.toOption = denoteE es n ∧ CacheOKE es (lookupE es ces n).2
  | .nil, ces, n, h => by
    cases ces with
    | nil => simp [lookupE, denoteE, Except.toOption, CacheOKE]
    | _ => simp [CacheOKE] at h
  | .cons k s rest, ces, n, h => by
    cases ces with
    | cons c crest =>
      simp only [CacheOKE] at h
      simp only [lookupE, denoteE]
      split
      · obtain ⟨h1, h2⟩ := lookup_spec s c n h.1
        exact ⟨h1, by simp only [CacheOKE]; exact ⟨h2, h.2⟩⟩
      · obtain ⟨h1, h2⟩ := lookupE_spec rest crest n h.2
        exact ⟨h1, by simp only [CacheOKE]; exact ⟨h.1, h2⟩⟩
    | _ => simp [CacheOKE] at h
end

theorem lookup_getSpec (s : Scope) : GetSpec (lookup s) (CacheOK s) (denote s) :=
  fun c n h => lookup_spec s c n h

/-! ### well-formedness, membership -/

theorem WF_dict (vals : Dict) (vol : List Name) : WF (.dict vals vol) ↔ (akeys vals).Nodup := by
  simp [WF, wfB]

theorem WF_mapped (inner : Scope) (m : List (Name × Expr)) :
    WF (.mapped inner m) ↔ WF inner ∧ (akeys m).Nodup ∧
      ∀ k e, (k, e) ∈ m → ∀ v, v ∈ e.vars → contains inner v = true := by
  simp only [WF, wfB, Bool.and_eq_true, decide_eq_true_eq, List.all_eq_true, and_assoc]
  constructor
  · rintro ⟨h1, h2, h3⟩; exact ⟨h1, h2, fun k e hke v hv => h3 (k, e) hke v hv⟩
  · rintro ⟨h1, h2, h3⟩; exact ⟨h1, h2, fun ke hke v hv => h3 ke.1 ke.2 hke v hv⟩

theorem WF_range (inner : Scope) (idx : Name) (v : Val) : WF (.range inner idx v) ↔ WF inner := by
  simp [WF, wfB]

theorem WF_joint (es : Entries) : WF (.joint es) ↔ WFE es ∧ (keysE es).Nodup := by
  simp [WF, WFE, wfB]

theorem WFE_cons (k : Name) (s : Scope) (rest : Entries) :
    WFE (.cons k s rest) ↔ WF s ∧ contains s k = true ∧ WFE rest := by
  simp [WF, WFE, wfBE, and_assoc]

mutual
theorem contains_iff : ∀ (s : Scope) (n : Name), WF s → (contains s n = true ↔ (denote s n).isSome)
  | .dict vals vol, n, _ => by
    simp only [contains, denote, decide_eq_true_eq]; exact (alook_isSome_iff n vals).symm
  | .mapped inner m, n, h => by
    obtain ⟨hi, _, hv⟩ := (WF_mapped inner m).1 h
    simp only [contains, denote, Bool.or_eq_true, decide_eq_true_eq]
    cases hm : alook n m with
    | none =>
      have : n ∉ akeys m := (alook_eq_none_iff n m).1 hm
      simp only [this, false_or]
      exact contains_iff inner n hi
    | some e =>
      have : n ∈ akeys m := (alook_isSome_iff n m).1 (by simp [hm])
      simp only [this, true_or, true_iff]
      rw [Expr.eval_isSome_iff]
      intro v hve
      exact (contains_iff inner v hi).1 (hv n e (alook_mem hm) v hve)
  | .range inner idx v, n, h => by
    have hi := (WF_range inner idx v).1 h
    simp only [contains, denote, Bool.or_eq_true, decide_eq_true_eq]
    split
    · simp [*]
    · rename_i hne; simp only [hne, false_or]; exact contains_iff inner n hi
  | .joint es, n, h => by
    simp only [contains, denote, decide_eq_true_eq]
    exact containsE_iff es n ((WF_joint es).1 h).1
theorem containsE_iff : ∀ (es : Entries) (n : Name), WFE es → (n ∈ keysE es ↔ (denoteE es n).isSome)
  | .nil, n, _ => by simp [keysE, denoteE]
  | .cons k s rest, n, h => by
    obtain ⟨hs, hk, hr⟩ := (WFE_cons k s rest).1 h
    simp only [keysE, denoteE, List.mem_cons]
    split
    · rename_i hnk; subst hnk
      simp only [true_or, true_iff]
      exact (contains_iff s n hs).1 hk
    · rename_i hnk; simp only [hnk, false_or]; exact containsE_iff rest n hr
end

/-! ### keys, as_dict, items, iter, len -/

/-- a method call that succeeds with a result satisfying `Q` and leaves a consistent memo -/
def OkSpec {α : Type} (s : Scope) (r : Res α) (Q : α → Prop) : Prop :=
  ∃ a, r.1 = .ok a ∧ Q a ∧ CacheOK s r.2

theorem toOption_eq_some {ε α : Type} {r : Except ε α} {a : α} (h : r.toOption = some a) : r = .ok a := by
  cases r with
  | error e => simp [Except.toOption] at h
  | ok b => simp [Except.toOption] at h; rw [h]

theorem IsDictOf.keySet {s : Scope} {d : Dict} (h : IsDictOf s d) : IsKeySet s (akeys d) :=
  ⟨h.1, fun n => by rw [← alook_isSome_iff, h.2 n]⟩

theorem getAll_dict {s : Scope} {c : Caches} {ks : List Name} (hc : CacheOK s c) (hks : IsKeySet s ks) :
    OkSpec s (getAll (lookup s) c ks) (IsDictOf s) := by
  obtain ⟨h1, h2⟩ := getAll_spec (lookup_getSpec s) ks c hc
  have hsome : (envOf (denote s) ks).isSome :=
    (envOf_isSome_iff _ _).2 (fun v hv => (hks.2 v).1 hv)
  cases he : envOf (denote s) ks with
  | none => simp [he] at hsome
  | some d =>
    rw [he] at h1
    obtain ⟨hk, hl⟩ := envOf_some he
    refine ⟨d, toOption_eq_some h1, ⟨by rw [hk]; exact hks.1, ?_⟩, h2⟩
    intro n
    by_cases hn : n ∈ ks
    · exact hl n hn
    · have h0 : alook n d = none := (alook_eq_none_iff n d).2 (by rw [hk]; exact hn)
      have h3 : ¬ (denote s n).isSome := fun h => hn ((hks.2 n).2 h)
      rw [h0]; cases hd : denote s n with
      | none => rfl
      | some x => simp [hd] at h3

theorem rangeAsDict_spec {innerAsDict : Caches → Res Dict} {inner : Scope} {idx : Name} {v : Val}
    (hi : ∀ c, CacheOK inner c → OkSpec inner (innerAsDict c) (IsDictOf inner))
    {ci : Caches} {asd : Option Dict} (hc : CacheOK (.range inner idx v) (.range ci asd)) :
    OkSpec (.range inner idx v) (rangeAsDict innerAsDict idx v ci asd) (IsDictOf (.range inner idx v)) := by
  simp only [CacheOK] at hc
  simp only [rangeAsDict]
  cases hasd : asd with
  | some d =>
    exact ⟨d, rfl, hc.2 d hasd, by simp only [CacheOK]; subst hasd; exact hc⟩
  | none =>
    obtain ⟨d, h1, h2, h3⟩ := hi ci hc.1
    simp only [h1]
    have hd : IsDictOf (.range inner idx v) (upsert d idx v) := by
      refine ⟨akeys_upsert_nodup d idx v h2.1, fun n => ?_⟩
      rw [alook_upsert]; simp only [denote]
      split
      · rfl
      · exact h2.2 n
    refine ⟨_, rfl, hd, ?_⟩
    simp only [CacheOK]
    exact ⟨h3, fun d' hd' => by cases hd'; exact hd⟩

theorem isKeySet_mapped {inner : Scope} {m : List (Name × Expr)} (hwf : WF (.mapped inner m))
    {ks : List Name} (hks : IsKeySet inner ks) : IsKeySet (.mapped inner m) (unionKeys (akeys m) ks) := by
  obtain ⟨hi, hm, _⟩ := (WF_mapped inner m).1 hwf
  refine ⟨nodup_unionKeys _ _ hm hks.1, fun n => ?_⟩
  rw [mem_unionKeys, ← contains_iff _ n hwf, hks.2 n, ← contains_iff inner n hi]
  simp [contains]

theorem mappedKeys_spec {innerKeys : Caches → Res (List Name)} {inner : Scope} {m : List (Name × Expr)}
    (hwf : WF (.mapped inner m))
    (hi : ∀ c, CacheOK inner c → OkSpec inner (innerKeys c) (IsKeySet inner))
    {ci : Caches} {cache : Dict} {asd : Option Dict} {volc : Option (List Name)}
    (hc : CacheOK (.mapped inner m) (.mapped ci cache asd volc)) :
    OkSpec (.mapped inner m) (mappedKeys innerKeys m ci cache asd volc) (IsKeySet (.mapped inner m)) := by
  simp only [CacheOK] at hc
  obtain ⟨ks, h1, h2, h3⟩ := hi ci hc.1
  simp only [mappedKeys, h1]
  refine ⟨_, rfl, isKeySet_mapped hwf h2, ?_⟩
  simp only [CacheOK]; exact ⟨h3, hc.2⟩

theorem mappedAsDict_spec {innerKeys : Caches → Res (List Name)} {inner : Scope} {m : List (Name × Expr)}
    (hwf : WF (.mapped inner m))
    (hi : ∀ c, CacheOK inner c → OkSpec inner (innerKeys c) (IsKeySet inner))
    {c : Caches} (hc : CacheOK (.mapped inner m) c) :
    OkSpec (.mapped inner m) (mappedAsDict (.mapped inner m) innerKeys m c) (IsDictOf (.mapped inner m)) := by
  cases c with
  | mapped ci cache asd volc =>
    cases asd with
    | some d =>
      simp only [mappedAsDict]
      have := hc; simp only [CacheOK] at this
      exact ⟨d, rfl, (this.2.2.1 d rfl).2, hc⟩
    | none =>
      simp only [mappedAsDict]
      obtain ⟨ks, h1, h2, h3⟩ := mappedKeys_spec hwf hi hc
      simp only [h1]
      obtain ⟨d, h4, h5, h6⟩ := getAll_dict h3 h2
      simp only [h4]
      cases hr : (getAll (lookup (.mapped inner m)) (mappedKeys innerKeys m ci cache none volc).2 ks).2 with
      | mapped ci' cache' asd' volc' =>
        rw [hr] at h6
        simp only [CacheOK] at h6
        refine ⟨d, rfl, h5, ?_⟩
        simp only [CacheOK]
        refine ⟨h6.1, fun n v hv => ?_, fun d' hd' => ?_, h6.2.2.2⟩
        · rw [← h5.2 n]; exact hv
        · cases hd'; exact ⟨rfl, h5⟩
      | _ => rw [hr] at h6; simp [CacheOK] at h6
  | _ => simp [CacheOK] at hc

theorem isKeySet_joint {es : Entries} (hwf : WF (.joint es)) : IsKeySet (.joint es) (keysE es) := by
  obtain ⟨h1, h2⟩ := (WF_joint es).1 hwf
  exact ⟨h2, fun n => by simp only [denote]; exact containsE_iff es n h1⟩

mutual
theorem keys_spec : ∀ (s : Scope) (c : Caches), WF s → CacheOK s c → OkSpec s (keys s c) (IsKeySet s)
  | .dict vals vol, c, hwf, hc => by
    simp only [keys]
    refine ⟨_, rfl, ⟨(WF_dict vals vol).1 hwf, fun n => ?_⟩, hc⟩
    simp only [denote]; exact (alook_isSome_iff n vals).symm
  | .mapped inner m, c, hwf, hc => by
    cases c with
    | mapped ci cache asd volc =>
      simp only [keys]
      exact mappedKeys_spec hwf (fun c hc => keys_spec inner c ((WF_mapped inner m).1 hwf).1 hc) hc
    | _ => simp [CacheOK] at hc
  | .range inner idx v, c, hwf, hc => by
    cases c with
    | range ci asd =>
      simp only [keys]
      obtain ⟨d, h1, h2, h3⟩ :=
        rangeAsDict_spec (fun c hc => asDict_spec inner c ((WF_range inner idx v).1 hwf) hc) hc
      simp only [h1]
      exact ⟨_, rfl, h2.keySet, h3⟩
    | _ => simp [CacheOK] at hc
  | .joint es, c, hwf, hc => by
    simp only [keys]
    exact ⟨_, rfl, isKeySet_joint hwf, hc⟩
theorem asDict_spec : ∀ (s : Scope) (c : Caches), WF s → CacheOK s c → OkSpec s (asDict s c) (IsDictOf s)
  | .dict vals vol, c, hwf, hc => by
    simp only [asDict]
    exact ⟨_, rfl, ⟨(WF_dict vals vol).1 hwf, fun n => by simp only [denote]⟩, hc⟩
  | .mapped inner m, c, hwf, hc => by
    simp only [asDict]
    exact mappedAsDict_spec hwf (fun c hc => keys_spec inner c ((WF_mapped inner m).1 hwf).1 hc) hc
  | .range inner idx v, c, hwf, hc => by
    cases c with
    | range ci asd =>
      simp only [asDict]
      exact rangeAsDict_spec (fun c hc => asDict_spec inner c ((WF_range inner idx v).1 hwf) hc) hc
    | _ => simp [CacheOK] at hc
  | .joint es, c, hwf, hc => by
    cases c with
    | joint ces asd volc =>
      cases asd with
      | some d =>
        simp only [asDict]
        have := hc; simp only [CacheOK] at this
        exact ⟨d, rfl, this.2.1 d rfl, hc⟩
      | none =>
        simp only [asDict, jointItems]
        obtain ⟨d, h4, h5, h6⟩ := getAll_dict hc (isKeySet_joint hwf)
        simp only [h4]
        cases hr : (getAll (lookup (.joint es)) (.joint ces none volc) (keysE es)).2 with
        | joint ces' asd' volc' =>
          rw [hr] at h6
          simp only [CacheOK] at h6
          refine ⟨d, rfl, h5, ?_⟩
          simp only [CacheOK]
          exact ⟨h6.1, fun d' hd' => by cases hd'; exact h5, h6.2.2⟩
        | _ => rw [hr] at h6; simp [CacheOK] at h6
    | _ => simp [CacheOK] at hc
end

theorem items_spec (s : Scope) (c : Caches) (hwf : WF s) (hc : CacheOK s c) :
    OkSpec s (items s c) (IsDictOf s) := by
  cases s with
  | dict vals vol => simpa only [items, asDict] using asDict_spec (.dict vals vol) c hwf hc
  | mapped inner m => simpa only [items] using asDict_spec (.mapped inner m) c hwf hc
  | range inner idx v => simpa only [items] using asDict_spec (.range inner idx v) c hwf hc
  | joint es => simp only [items, jointItems]; exact getAll_dict hc (isKeySet_joint hwf)

theorem isKeySet_range {inner : Scope} (idx : Name) (v : Val) (hwf : WF inner) {l : List Name}
    (hl : IsKeySet inner l) :
    IsKeySet (.range inner idx v) (if contains inner idx then l else l ++ [idx]) := by
  have hci := contains_iff inner idx hwf
  split
  · rename_i hc
    refine ⟨hl.1, fun n => ?_⟩
    simp only [denote]
    split
    · rename_i hn; subst hn; simp only [Option.isSome_some, iff_true]; exact (hl.2 n).2 (hci.1 hc)
    · exact hl.2 n
  · rename_i hc
    have hidx : idx ∉ l := fun h => hc (hci.2 ((hl.2 idx).1 h))
    refine ⟨?_, fun n => ?_⟩
    · rw [List.nodup_append]
      refine ⟨hl.1, by simp, ?_⟩
      intro x hx y hy hxy
      simp only [List.mem_singleton] at hy
      subst hy; subst hxy; exact hidx hx
    · simp only [denote, List.mem_append, List.mem_singleton]
      split
      · simp [*]
      · rename_i hn; simp only [hn, or_false]; exact hl.2 n

theorem iter_spec : ∀ (s : Scope) (c : Caches), WF s → CacheOK s c → OkSpec s (iter s c) (IsKeySet s)
  | .dict vals vol, c, hwf, hc => by
    simpa only [iter, keys] using keys_spec (.dict vals vol) c hwf hc
  | .mapped inner m, c, hwf, hc => by
    simpa only [iter] using keys_spec (.mapped inner m) c hwf hc
  | .range inner idx v, c, hwf, hc => by
    cases c with
    | range ci asd =>
      have hwi := (WF_range inner idx v).1 hwf
      simp only [CacheOK] at hc
      obtain ⟨l, h1, h2, h3⟩ := iter_spec inner ci hwi hc.1
      simp only [iter, h1]
      exact ⟨_, rfl, isKeySet_range idx v hwi h2, by simp only [CacheOK]; exact ⟨h3, hc.2⟩⟩
    | _ => simp [CacheOK] at hc
  | .joint es, c, hwf, hc => by
    simpa only [iter, keys] using keys_spec (.joint es) c hwf hc

/-- `k` is the number of names that have a value -/
def IsCard (s : Scope) (k : Nat) : Prop := ∃ l, IsKeySet s l ∧ l.length = k

theorem len_spec : ∀ (s : Scope) (c : Caches), WF s → CacheOK s c → OkSpec s (len s c) (IsCard s)
  | .dict vals vol, c, hwf, hc => by
    obtain ⟨l, h1, h2, h3⟩ := keys_spec (.dict vals vol) c hwf hc
    simp only [keys, Except.ok.injEq] at h1
    simp only [len]
    exact ⟨_, rfl, ⟨l, h2, by rw [← h1]; simp [akeys]⟩, hc⟩
  | .mapped inner m, c, hwf, hc => by
    obtain ⟨l, h1, h2, h3⟩ := keys_spec (.mapped inner m) c hwf hc
    simp only [len, h1]
    exact ⟨_, rfl, ⟨l, h2, rfl⟩, h3⟩
  | .range inner idx v, c, hwf, hc => by
    cases c with
    | range ci asd =>
      have hwi := (WF_range inner idx v).1 hwf
      simp only [CacheOK] at hc
      obtain ⟨k, h1, ⟨l, h2, hk⟩, h3⟩ := len_spec inner ci hwi hc.1
      simp only [len, h1]
      refine ⟨_, rfl, ⟨_, isKeySet_range idx v hwi h2, ?_⟩, by simp only [CacheOK]; exact ⟨h3, hc.2⟩⟩
      split <;> simp [hk]
    | _ => simp [CacheOK] at hc
  | .joint es, c, hwf, hc => by
    simp only [len]
    exact ⟨_, rfl, ⟨_, isKeySet_joint hwf, rfl⟩, hc⟩

/-! ### volatility -/

/-- `collectVol` without the lookups -/
def collectPure (iv : List Name) : List (Name × Expr) → List Name → List Name
  | [], acc => acc
  | (k, e) :: rest, acc =>
    if e.vars.any (fun v => decide (v ∈ iv)) then collectPure iv rest (insertName k acc)
    else collectPure iv rest (acc.filter (fun x => x ≠ k))

theorem collectVol_ok {getSelf : Caches → Name → Res Val} {P : Caches → Prop} {ρ : Name → Option Val}
    (h : GetSpec getSelf P ρ) (iv : List Name) :
    ∀ (m : List (Name × Expr)) (acc : List Name) (c : Caches),
      (∀ k e, (k, e) ∈ m → ∀ v, v ∈ e.vars → (ρ v).isSome) → P c →
      (collectVol getSelf iv m acc c).1 = .ok (collectPure iv m acc) ∧ P (collectVol getSelf iv m acc c).2
  | [], acc, c, _, hP => by simp [collectVol, collectPure, hP]
  | (k, e) :: rest, acc, c, hv, hP => by
    have hrest : ∀ k' e', (k', e') ∈ rest → ∀ v, v ∈ e'.vars → (ρ v).isSome :=
      fun k' e' hm => hv k' e' (List.mem_cons_of_mem _ hm)
    simp only [collectVol, collectPure]
    split
    · have hsub : ∀ v, v ∈ e.vars.filter (fun v => decide (v ∉ iv)) → (ρ v).isSome :=
        fun v hvm => hv k e (by simp) v (List.mem_filter.1 hvm).1
      generalize e.vars.filter (fun v => decide (v ∉ iv)) = ns at hsub ⊢
      obtain ⟨h1, h2⟩ := getAll_spec h ns c hP
      have hsome := (envOf_isSome_iff ρ ns).2 hsub
      cases he : envOf ρ ns with
      | none => rw [he] at hsome; cases hsome
      | some env =>
        rw [he] at h1
        simp only [toOption_eq_some h1]
        exact collectVol_ok h iv rest _ _ hrest h2
    · exact collectVol_ok h iv rest _ _ hrest hP

theorem collectPure_nodup (iv : List Name) : ∀ (m : List (Name × Expr)) (acc : List Name), acc.Nodup →
    (collectPure iv m acc).Nodup
  | [], acc, h => by simpa [collectPure] using h
  | (k, e) :: rest, acc, h => by
    simp only [collectPure]
    split
    · exact collectPure_nodup iv rest _ (nodup_insertName k acc h)
    · exact collectPure_nodup iv rest _ (h.filter _)

theorem collectPure_mem (iv : List Name) (n : Name) : ∀ (m : List (Name × Expr)) (acc : List Name),
    (akeys m).Nodup →
    (n ∈ collectPure iv m acc ↔
      match alook n m with
      | some e => e.vars.any (fun v => decide (v ∈ iv)) = true
      | none => n ∈ acc)
  | [], acc, _ => by simp [collectPure, alook]
  | (k, e) :: rest, acc, h => by
    simp only [akeys, List.map_cons, List.nodup_cons] at h
    have ih := fun acc' => collectPure_mem iv n rest acc' (by simpa [akeys] using h.2)
    simp only [collectPure, alook]
    by_cases hnk : n = k
    · subst hnk
      have hnone : alook n rest = none := (alook_eq_none_iff n rest).2 (by simpa [akeys] using h.1)
      simp only [if_true]
      split
      · rename_i hdep; rw [ih, hnone]; simp [mem_insertName, hdep]
      · rename_i hdep; rw [ih, hnone]; simp [hdep]
    · simp only [hnk, if_false]
      split
      · rw [ih]; cases alook n rest <;> simp [mem_insertName, hnk]
      · rw [ih]; cases alook n rest <;> simp [hnk]

theorem isVolSet_mapped {inner : Scope} {m : List (Name × Expr)} (hm : (akeys m).Nodup) {iv : List Name}
    (hiv : IsVolSet inner iv) : IsVolSet (.mapped inner m) (collectPure iv m iv) := by
  refine ⟨collectPure_nodup iv m iv hiv.1, fun n => ?_⟩
  rw [collectPure_mem iv n m iv hm]
  simp only [DependsVolatile]
  cases alook n m with
  | none => exact hiv.2 n
  | some e =>
    simp only [List.any_eq_true, decide_eq_true_eq]
    constructor
    · rintro ⟨v, hv, hvi⟩; exact ⟨v, hv, (hiv.2 v).1 hvi⟩
    · rintro ⟨v, hv, hd⟩; exact ⟨v, hv, (hiv.2 v).2 hd⟩

theorem mappedVolatile_spec {innerVol : Caches → Res (List Name)} {inner : Scope} {m : List (Name × Expr)}
    (hwf : WF (.mapped inner m))
    (hi : ∀ c, CacheOK inner c → OkSpec inner (innerVol c) (IsVolSet inner))
    {c : Caches} (hc : CacheOK (.mapped inner m) c) :
    OkSpec (.mapped inner m) (mappedVolatile innerVol (lookup (.mapped inner m)) m c)
      (IsVolSet (.mapped inner m)) := by
  obtain ⟨hwi, hm, hvars⟩ := (WF_mapped inner m).1 hwf
  cases c with
  | mapped ci cache asd volc =>
    have hc' := hc; simp only [CacheOK] at hc'
    cases volc with
    | some l => simp only [mappedVolatile]; exact ⟨l, rfl, hc'.2.2.2 l rfl, hc⟩
    | none =>
      obtain ⟨iv, h1, h2, h3⟩ := hi ci hc'.1
      simp only [mappedVolatile, h1]
      split
      · rename_i hempty
        have hnil : iv = [] := by simpa using hempty
        subst hnil
        have hvs : IsVolSet (.mapped inner m) [] := by
          have := isVolSet_mapped hm h2
          have hcp : ∀ (m' : List (Name × Expr)), collectPure [] m' [] = [] := by
            intro m'; induction m' with
            | nil => rfl
            | cons ke rest ih => obtain ⟨k, e⟩ := ke; simp [collectPure, ih]
          rwa [hcp] at this
        refine ⟨[], rfl, hvs, ?_⟩
        simp only [CacheOK]
        exact ⟨h3, hc'.2.1, hc'.2.2.1, fun l hl => by cases hl; exact hvs⟩
      · have hstart : CacheOK (.mapped inner m) (.mapped (innerVol ci).2 cache asd none) := by
          simp only [CacheOK]; exact ⟨h3, hc'.2.1, hc'.2.2.1, by simp⟩
        have hρ : ∀ k e, (k, e) ∈ m → ∀ v, v ∈ e.vars → (denote (.mapped inner m) v).isSome := by
          intro k e hke v hv
          apply (contains_iff _ v hwf).1
          simp only [contains, Bool.or_eq_true]
          exact Or.inr (hvars k e hke v hv)
        obtain ⟨h4, h5⟩ := collectVol_ok (lookup_getSpec (.mapped inner m)) iv m iv _ hρ hstart
        simp only [h4]
        cases hr : (collectVol (lookup (.mapped inner m)) iv m iv (.mapped (innerVol ci).2 cache asd none)).2 with
        | mapped ci' cache' asd' volc' =>
          rw [hr] at h5
          simp only [CacheOK] at h5
          have hvs := isVolSet_mapped hm h2
          refine ⟨_, rfl, hvs, ?_⟩
          simp only [CacheOK]
          exact ⟨h5.1, h5.2.1, h5.2.2.1, fun l hl => by cases hl; exact hvs⟩
        | _ => rw [hr] at h5; simp [CacheOK] at h5
  | _ => simp [CacheOK] at hc

/-- what `volatileE` computes for a `JointScope` lookup with distinct keys -/
def IsVolSetE (es : Entries) (l : List Name) : Prop :=
  (∀ n, n ∈ l → n ∈ keysE es) ∧ l.Nodup ∧ ∀ n, n ∈ l ↔ DependsVolatileE es n

mutual
theorem volatile_spec : ∀ (s : Scope) (c : Caches), WF s → CacheOK s c →
    OkSpec s (volatile s c) (IsVolSet s)
  | .dict vals vol, c, _, hc => by
    simp only [volatile]
    exact ⟨_, rfl, ⟨nodup_dedup vol, fun n => by simp only [DependsVolatile]; exact mem_dedup vol n⟩, hc⟩
  | .mapped inner m, c, hwf, hc => by
    simp only [volatile]
    exact mappedVolatile_spec hwf
      (fun c hc => volatile_spec inner c ((WF_mapped inner m).1 hwf).1 hc) hc
  | .range inner idx v, c, hwf, hc => by
    cases c with
    | range ci asd =>
      simp only [CacheOK] at hc
      obtain ⟨l, h1, h2, h3⟩ := volatile_spec inner ci ((WF_range inner idx v).1 hwf) hc.1
      simp only [volatile, h1]
      refine ⟨_, rfl, ⟨h2.1.filter _, fun n => ?_⟩, by simp only [CacheOK]; exact ⟨h3, hc.2⟩⟩
      simp only [List.mem_filter, decide_eq_true_eq, DependsVolatile, ← h2.2 n]
      exact And.comm
    | _ => simp [CacheOK] at hc
  | .joint es, c, hwf, hc => by
    obtain ⟨hwe, hnd⟩ := (WF_joint es).1 hwf
    cases c with
    | joint ces asd volc =>
      have hc' := hc; simp only [CacheOK] at hc'
      cases volc with
      | some l => simp only [volatile]; exact ⟨l, rfl, hc'.2.2 l rfl, hc⟩
      | none =>
        obtain ⟨l, h1, h2, h3⟩ := volatileE_spec es ces hwe hnd hc'.1
        simp only [volatile, h1]
        have hvs : IsVolSet (.joint es) l := ⟨h2.2.1, fun n => by simp only [DependsVolatile]; exact h2.2.2 n⟩
        refine ⟨l, rfl, hvs, ?_⟩
        simp only [CacheOK]
        exact ⟨h3, hc'.2.1, fun l' hl' => by cases hl'; exact hvs⟩
    | _ => simp [CacheOK] at hc
theorem volatileE_spec : ∀ (es : Entries) (ces : CachesE), WFE es → (keysE es).Nodup → CacheOKE es ces →
    ∃ l, (volatileE es ces).1 = .ok l ∧ IsVolSetE es l ∧ CacheOKE es (volatileE es ces).2
  | .nil, ces, _, _, hc => by
    cases ces with
    | nil => exact ⟨[], rfl, ⟨by simp, by simp, by simp [DependsVolatileE]⟩, hc⟩
    | _ => simp [CacheOKE] at hc
  | .cons k s rest, ces, hwf, hnd, hc => by
    obtain ⟨hws, _, hwr⟩ := (WFE_cons k s rest).1 hwf
    simp only [keysE, List.nodup_cons] at hnd
    cases ces with
    | cons c crest =>
      simp only [CacheOKE] at hc
      obtain ⟨iv, h1, h2, h3⟩ := volatile_spec s c hws hc.1
      obtain ⟨l, h4, h5, h6⟩ := volatileE_spec rest crest hwr hnd.2 hc.2
      simp only [volatileE, h1, h4]
      have hkl : k ∉ l := fun h => hnd.1 (h5.1 k h)
      refine ⟨_, rfl, ⟨?_, ?_, ?_⟩, by simp only [CacheOKE]; exact ⟨h3, h6⟩⟩
      · intro n hn
        simp only [keysE, List.mem_cons]
        split at hn
        · rcases List.mem_cons.1 hn with h | h
          · exact Or.inl h
          · exact Or.inr (h5.1 n h)
        · exact Or.inr (h5.1 n hn)
      · split
        · exact List.nodup_cons.2 ⟨hkl, h5.2.1⟩
        · exact h5.2.1
      · intro n
        simp only [DependsVolatileE]
        by_cases hnk : n = k
        · subst hnk
          simp only [if_true, ← h2.2 n]
          split
          · simp [*]
          · rename_i hniv; simp [hniv, hkl]
        · simp only [hnk, if_false, ← h5.2.2 n]
          split
          · simp [hnk]
          · rfl
    | _ => simp [CacheOKE] at hc
end

/-! ### change_constants -/

mutual
theorem fresh_ok : ∀ (s : Scope), CacheOK s (fresh s)
  | .dict _ _ => by simp [fresh, CacheOK]
  | .mapped inner m => by
    simp only [fresh, CacheOK]
    exact ⟨fresh_ok inner, by simp [alook], by simp, by simp⟩
  | .range inner idx v => by
    simp only [fresh, CacheOK]
    exact ⟨fresh_ok inner, by simp⟩
  | .joint es => by
    simp only [fresh, CacheOK]
    exact ⟨freshE_ok es, by simp, by simp⟩
theorem freshE_ok : ∀ (es : Entries), CacheOKE es (freshE es)
  | .nil => by simp [freshE, CacheOKE]
  | .cons k s rest => by
    simp only [freshE, CacheOKE]
    exact ⟨fresh_ok s, freshE_ok rest⟩
end

mutual
theorem change_spec : ∀ (s : Scope) (c : Caches) (new : Dict), CacheOK s c →
    (changeConstants s c new).scope = rebuild s new ∧
    CacheOK (rebuild s new) (changeConstants s c new).caches ∧
    ((changeConstants s c new).same = true → rebuild s new = s ∧ (changeConstants s c new).caches = c)
  | .dict vals vol, c, new, hc => by
    simp only [changeConstants, rebuild]
    split
    · refine ⟨rfl, by simp [CacheOK], by simp⟩
    · rename_i hany
      have hid : updateVals vals new = vals := by
        apply updateVals_id
        intro k hk hk'
        apply hany
        simp only [List.any_eq_true, decide_eq_true_eq]
        exact ⟨k, hk, hk'⟩
      rw [hid]
      exact ⟨rfl, hc, fun _ => ⟨rfl, rfl⟩⟩
  | .mapped inner m, c, new, hc => by
    cases c with
    | mapped ci cache asd volc =>
      have hc' := hc; simp only [CacheOK] at hc'
      obtain ⟨h1, h2, h3⟩ := change_spec inner ci new hc'.1
      simp only [changeConstants, rebuild]
      split
      · rename_i hsame
        obtain ⟨h4, _⟩ := h3 hsame
        rw [h4]
        exact ⟨rfl, hc, fun _ => ⟨rfl, rfl⟩⟩
      · refine ⟨by rw [h1], ?_, by simp⟩
        simp only [CacheOK]
        exact ⟨h2, by simp [alook], by simp, by simp⟩
    | _ => simp [CacheOK] at hc
  | .range inner idx v, c, new, hc => by
    cases c with
    | range ci asd =>
      simp only [CacheOK] at hc
      obtain ⟨h1, h2, _⟩ := change_spec inner ci new hc.1
      simp only [changeConstants, rebuild]
      refine ⟨by rw [h1], ?_, by simp⟩
      simp only [CacheOK]
      exact ⟨h2, by simp⟩
    | _ => simp [CacheOK] at hc
  | .joint es, c, new, hc => by
    cases c with
    | joint ces asd volc =>
      simp only [CacheOK] at hc
      obtain ⟨h1, h2⟩ := changeE_spec es ces new hc.1
      simp only [changeConstants, rebuild]
      refine ⟨by rw [h1], ?_, by simp⟩
      simp only [CacheOK]
      exact ⟨h2, by simp, by simp⟩
    | _ => simp [CacheOK] at hc
theorem changeE_spec : ∀ (es : Entries) (ces : CachesE) (new : Dict), CacheOKE es ces →
    (changeConstantsE es ces new).es = rebuildE es new ∧
    CacheOKE (rebuildE es new) (changeConstantsE es ces new).caches
  | .nil, ces, new, _ => by simp [changeConstantsE, rebuildE, CacheOKE]
  | .cons k s rest, ces, new, hc => by
    cases ces with
    | cons c crest =>
      simp only [CacheOKE] at hc
      obtain ⟨h1, h2, _⟩ := change_spec s c new hc.1
      obtain ⟨h3, h4⟩ := changeE_spec rest crest new hc.2
      simp only [changeConstantsE, rebuildE]
      refine ⟨by rw [h1, h3], ?_⟩
      simp only [CacheOKE]
      exact ⟨h2, h4⟩
    | _ => simp [CacheOKE] at hc
end

theorem keysE_rebuildE : ∀ (es : Entries) (new : Dict), keysE (rebuildE es new) = keysE es
  | .nil, _ => rfl
  | .cons k s rest, new => by simp [rebuildE, keysE, keysE_rebuildE rest new]

theorem contains_rebuild : ∀ (s : Scope) (new : Dict) (n : Name), contains (rebuild s new) n = contains s n
  | .dict vals vol, new, n => by simp [rebuild, contains, akeys_updateVals]
  | .mapped inner m, new, n => by simp [rebuild, contains, contains_rebuild inner new n]
  | .range inner idx v, new, n => by simp [rebuild, contains, contains_rebuild inner new n]
  | .joint es, new, n => by simp [rebuild, contains, keysE_rebuildE]

mutual
theorem wfB_rebuild : ∀ (s : Scope) (new : Dict), wfB (rebuild s new) = wfB s
  | .dict vals vol, new => by simp [rebuild, wfB, akeys_updateVals]
  | .mapped inner m, new => by simp [rebuild, wfB, wfB_rebuild inner new, contains_rebuild]
  | .range inner idx v, new => by simp [rebuild, wfB, wfB_rebuild inner new]
  | .joint es, new => by simp [rebuild, wfB, wfBE_rebuild es new, keysE_rebuildE]
theorem wfBE_rebuild : ∀ (es : Entries) (new : Dict), wfBE (rebuildE es new) = wfBE es
  | .nil, _ => rfl
  | .cons k s rest, new => by
    simp [rebuildE, wfBE, wfB_rebuild s new, wfBE_rebuild rest new, contains_rebuild]
end

theorem WF_rebuild (s : Scope) (new : Dict) (h : WF s) : WF (rebuild s new) := by
  simp only [WF, wfB_rebuild]; exact h

/-! ### histories -/

theorem WF_specNext (s : Scope) (op : Op) (h : WF s) : WF (specNext s op) := by
  cases op <;> simp only [specNext] <;> first | exact h | exact WF_rebuild s _ h

theorem step_spec (s : Scope) (c : Caches) (op : Op) (hwf : WF s) (hc : CacheOK s c) :
    AnsOK s op (step s c op).1 ∧ (step s c op).2.1 = specNext s op ∧
      CacheOK (specNext s op) (step s c op).2.2 := by
  cases op with
  | get n =>
    obtain ⟨h1, h2⟩ := lookup_spec s c n hc
    exact ⟨h1, rfl, h2⟩
  | has n => exact ⟨contains_iff s n hwf, rfl, hc⟩
  | iter =>
    obtain ⟨l, h1, h2, h3⟩ := iter_spec s c hwf hc
    refine ⟨?_, rfl, h3⟩
    simp only [step, h1, AnsOK]; exact h2
  | len =>
    obtain ⟨l, h1, h2, h3⟩ := len_spec s c hwf hc
    refine ⟨?_, rfl, h3⟩
    simp only [step, h1, AnsOK]; exact h2
  | keys =>
    obtain ⟨l, h1, h2, h3⟩ := keys_spec s c hwf hc
    refine ⟨?_, rfl, h3⟩
    simp only [step, h1, AnsOK]; exact h2
  | items =>
    obtain ⟨l, h1, h2, h3⟩ := items_spec s c hwf hc
    refine ⟨?_, rfl, h3⟩
    simp only [step, h1, AnsOK]; exact h2
  | asdict =>
    obtain ⟨l, h1, h2, h3⟩ := asDict_spec s c hwf hc
    refine ⟨?_, rfl, h3⟩
    simp only [step, h1, AnsOK]; exact h2
  | vol =>
    obtain ⟨l, h1, h2, h3⟩ := volatile_spec s c hwf hc
    refine ⟨?_, rfl, h3⟩
    simp only [step, h1, AnsOK]; exact h2
  | change new =>
    obtain ⟨h1, h2, _⟩ := change_spec s c new hc
    simp only [step, AnsOK, specNext]; exact ⟨trivial, h1, h2⟩

theorem run_spec : ∀ (ops : List Op) (s : Scope) (c : Caches), WF s → CacheOK s c →
    RunOK s ops (run s c ops)
  | [], s, c, _, _ => by simp [run, RunOK]
  | op :: ops, s, c, hwf, hc => by
    obtain ⟨h1, h2, h3⟩ := step_spec s c op hwf hc
    simp only [run, RunOK]
    refine ⟨h1, ?_⟩
    rw [h2]
    exact run_spec ops (specNext s op) _ (WF_specNext s op hwf) h3

/-! ### the executable judges -/

mutual
theorem dependsVolatileB_iff : ∀ (s : Scope) (n : Name), dependsVolatileB s n = true ↔ DependsVolatile s n
  | .dict _ vol, n => by simp [dependsVolatileB, DependsVolatile]
  | .mapped inner m, n => by
    simp only [dependsVolatileB, DependsVolatile]
    split
    · simp only [List.any_eq_true]
      constructor
      · rintro ⟨v, hv, h⟩; exact ⟨v, hv, (dependsVolatileB_iff inner v).1 h⟩
      · rintro ⟨v, hv, h⟩; exact ⟨v, hv, (dependsVolatileB_iff inner v).2 h⟩
    · exact dependsVolatileB_iff inner n
  | .range inner idx _, n => by simp [dependsVolatileB, DependsVolatile, dependsVolatileB_iff inner n]
  | .joint es, n => by simp only [dependsVolatileB, DependsVolatile]; exact dependsVolatileBE_iff es n
theorem dependsVolatileBE_iff : ∀ (es : Entries) (n : Name),
    dependsVolatileBE es n = true ↔ DependsVolatileE es n
  | .nil, _ => by simp [dependsVolatileBE, DependsVolatileE]
  | .cons k s rest, n => by
    simp only [dependsVolatileBE, DependsVolatileE]
    split
    · exact dependsVolatileB_iff s n
    · exact dependsVolatileBE_iff rest n
end

mutual
theorem denote_names : ∀ (s : Scope) (n : Name), (denote s n).isSome → n ∈ names s
  | .dict vals vol, n, h => by
    simp only [denote] at h
    simp only [names, List.mem_append]; exact Or.inl ((alook_isSome_iff n vals).1 h)
  | .mapped inner m, n, h => by
    simp only [denote] at h
    simp only [names, List.mem_append]
    cases hm : alook n m with
    | some e => exact Or.inl ((alook_isSome_iff n m).1 (by simp [hm]))
    | none => rw [hm] at h; exact Or.inr (denote_names inner n h)
  | .range inner idx v, n, h => by
    simp only [denote] at h
    simp only [names, List.mem_cons]
    split at h
    · exact Or.inl (by assumption)
    · exact Or.inr (denote_names inner n h)
  | .joint es, n, h => by
    simp only [denote] at h
    simp only [names]; exact denoteE_names es n h
theorem denoteE_names : ∀ (es : Entries) (n : Name), (denoteE es n).isSome → n ∈ namesE es
  | .nil, n, h => by simp [denoteE] at h
  | .cons k s rest, n, h => by
    simp only [denoteE] at h
    simp only [namesE, List.mem_cons, List.mem_append]
    split at h
    · exact Or.inl (by assumption)
    · exact Or.inr (Or.inr (denoteE_names rest n h))
end

mutual
theorem dv_names : ∀ (s : Scope) (n : Name), DependsVolatile s n → n ∈ names s
  | .dict vals vol, n, h => by
    simp only [DependsVolatile] at h
    simp only [names, List.mem_append]; exact Or.inr h
  | .mapped inner m, n, h => by
    simp only [DependsVolatile] at h
    simp only [names, List.mem_append]
    cases hm : alook n m with
    | some e => exact Or.inl ((alook_isSome_iff n m).1 (by simp [hm]))
    | none => rw [hm] at h; exact Or.inr (dv_names inner n h)
  | .range inner idx v, n, h => by
    simp only [DependsVolatile] at h
    simp only [names, List.mem_cons]
    exact Or.inr (dv_names inner n h.2)
  | .joint es, n, h => by
    simp only [DependsVolatile] at h
    simp only [names]; exact dvE_names es n h
theorem dvE_names : ∀ (es : Entries) (n : Name), DependsVolatileE es n → n ∈ namesE es
  | .nil, n, h => by simp [DependsVolatileE] at h
  | .cons k s rest, n, h => by
    simp only [DependsVolatileE] at h
    simp only [namesE, List.mem_cons, List.mem_append]
    split at h
    · exact Or.inl (by assumption)
    · exact Or.inr (Or.inr (dvE_names rest n h))
end

theorem isKeySetB_iff (s : Scope) (l : List Name) : isKeySetB s l = true ↔ IsKeySet s l := by
  simp only [isKeySetB, IsKeySet, Bool.and_eq_true, decide_eq_true_eq, List.all_eq_true, List.mem_append,
    beq_iff_eq]
  constructor
  · rintro ⟨h1, h2⟩
    refine ⟨h1, fun n => ?_⟩
    by_cases hn : n ∈ l
    · have := h2 n (Or.inl hn); simp only [hn, decide_true] at this; simp [hn, ← this]
    · by_cases hs : (denote s n).isSome
      · have := h2 n (Or.inr (denote_names s n hs)); simp [hn, hs] at this
      · simp [hn, hs]
  · rintro ⟨h1, h2⟩
    refine ⟨h1, fun n _ => ?_⟩
    by_cases hn : n ∈ l
    · simp [hn, (h2 n).1 hn]
    · have : ¬ (denote s n).isSome := fun h => hn ((h2 n).2 h)
      simp only [hn, decide_false]
      cases hd : (denote s n).isSome
      · rfl
      · exact absurd hd this

theorem isVolSetB_iff (s : Scope) (l : List Name) : isVolSetB s l = true ↔ IsVolSet s l := by
  simp only [isVolSetB, IsVolSet, Bool.and_eq_true, decide_eq_true_eq, List.all_eq_true, List.mem_append,
    beq_iff_eq]
  constructor
  · rintro ⟨h1, h2⟩
    refine ⟨h1, fun n => ?_⟩
    rw [← dependsVolatileB_iff]
    by_cases hn : n ∈ l
    · have := h2 n (Or.inl hn); simp only [hn, decide_true] at this; simp [hn, ← this]
    · by_cases hs : dependsVolatileB s n = true
      · have := h2 n (Or.inr (dv_names s n ((dependsVolatileB_iff s n).1 hs))); simp [hn, hs] at this
      · simp [hn, hs]
  · rintro ⟨h1, h2⟩
    refine ⟨h1, fun n _ => ?_⟩
    by_cases hn : n ∈ l
    · simp [hn, (dependsVolatileB_iff s n).2 ((h2 n).1 hn)]
    · have : ¬ dependsVolatileB s n = true := fun h => hn ((h2 n).2 ((dependsVolatileB_iff s n).1 h))
      simp only [hn, decide_false]
      cases hd : dependsVolatileB s n
      · rfl
      · exact absurd hd this

theorem isDictOfB_iff (s : Scope) (d : Dict) : isDictOfB s d = true ↔ IsDictOf s d := by
  simp only [isDictOfB, IsDictOf, Bool.and_eq_true, decide_eq_true_eq, List.all_eq_true, List.mem_append]
  constructor
  · rintro ⟨h1, h2⟩
    refine ⟨h1, fun n => ?_⟩
    by_cases hn : n ∈ akeys d
    · exact h2 n (Or.inl hn)
    · by_cases hs : (denote s n).isSome
      · exact h2 n (Or.inr (denote_names s n hs))
      · rw [(alook_eq_none_iff n d).2 hn]
        cases hd : denote s n with
        | none => rfl
        | some x => simp [hd] at hs
  · rintro ⟨h1, h2⟩
    exact ⟨h1, fun n _ => h2 n⟩

theorem supportList_isKeySet (s : Scope) : IsKeySet s (supportList s) := by
  refine ⟨(nodup_dedup _).filter _, fun n => ?_⟩
  simp only [supportList, List.mem_filter, mem_dedup]
  constructor
  · exact fun h => h.2
  · exact fun h => ⟨denote_names s n h, h⟩

theorem IsKeySet.length_eq {s : Scope} {l l' : List Name} (h : IsKeySet s l) (h' : IsKeySet s l') :
    l.length = l'.length :=
  ((List.perm_ext_iff_of_nodup h.1 h'.1).2 (fun n => by rw [h.2 n, h'.2 n])).length_eq

theorem ansOKB_iff (s : Scope) (op : Op) (a : Ans) : ansOKB s op a = true ↔ AnsOK s op a := by
  cases op with
  | get n => cases a <;> simp [ansOKB, AnsOK]
  | has n =>
    cases a with
    | bool b => simp only [ansOKB, AnsOK, beq_iff_eq]; cases b <;> cases (denote s n).isSome <;> simp
    | _ => simp [ansOKB, AnsOK]
  | iter =>
    cases a with
    | names r => cases r <;> simp [ansOKB, AnsOK, isKeySetB_iff]
    | _ => simp [ansOKB, AnsOK]
  | keys =>
    cases a with
    | names r => cases r <;> simp [ansOKB, AnsOK, isKeySetB_iff]
    | _ => simp [ansOKB, AnsOK]
  | vol =>
    cases a with
    | names r => cases r <;> simp [ansOKB, AnsOK, isVolSetB_iff]
    | _ => simp [ansOKB, AnsOK]
  | items =>
    cases a with
    | dict r => cases r <;> simp [ansOKB, AnsOK, isDictOfB_iff]
    | _ => simp [ansOKB, AnsOK]
  | asdict =>
    cases a with
    | dict r => cases r <;> simp [ansOKB, AnsOK, isDictOfB_iff]
    | _ => simp [ansOKB, AnsOK]
  | change new => cases a <;> simp [ansOKB, AnsOK]
  | len =>
    cases a with
    | len r =>
      cases r with
      | error e => simp [ansOKB, AnsOK]
      | ok k =>
        simp only [ansOKB, AnsOK, decide_eq_true_eq]
        constructor
        · intro h; exact ⟨_, supportList_isKeySet s, h⟩
        · rintro ⟨l, hl, hk⟩; rw [← hk]; exact (supportList_isKeySet s).length_eq hl
    | _ => simp [ansOKB, AnsOK]

/-! ### error classes -/

/-- the exception is a `KeyError` (`ParameterNotProvidedException` or plain) -/
def Err.IsMissing (e : Err) : Prop := e = .parameterMissing ∨ e = .keyError

def GetErr (get : Caches → Name → Res Val) (P : Caches → Prop) : Prop :=
  ∀ c n e, P c → (get c n).1 = .error e → e.IsMissing

theorem getAll_err {get : Caches → Name → Res Val} {P : Caches → Prop} {ρ : Name → Option Val}
    (h : GetSpec get P ρ) (he : GetErr get P) : ∀ (ns : List Name) (c : Caches) (e : Err), P c →
      (getAll get c ns).1 = .error e → e.IsMissing
  | [], c, e, _, hr => by simp [getAll] at hr
  | v :: vs, c, e, hP, hr => by
    simp only [getAll] at hr
    cases hg : (get c v).1 with
    | error e' =>
      simp only [hg, Except.error.injEq] at hr
      subst hr; exact he c v e' hP hg
    | ok x =>
      simp only [hg] at hr
      cases hg' : (getAll get (get c v).2 vs).1 with
      | error e' =>
        simp only [hg', Except.error.injEq] at hr
        subst hr; exact getAll_err h he vs _ e' (h c v hP).2 hg'
      | ok env => simp [hg'] at hr

theorem evalIn_err {get : Caches → Name → Res Val} (c : Caches) (e : Expr) (err : Err)
    {P : Caches → Prop} {ρ : Name → Option Val} (h : GetSpec get P ρ) (he : GetErr get P) (hP : P c)
    (hr : (evalIn get c e).1 = .error err) : err = .parameterMissing := by
  simp only [evalIn] at hr
  cases hg : (getAll get c e.vars).1 with
  | error e' =>
    simp only [hg, Except.error.injEq] at hr
    rcases getAll_err h he e.vars c e' hP hg with h1 | h1 <;> subst h1 <;> simp [convertMissing] at hr <;>
      exact hr.symm
  | ok env =>
    simp only [hg] at hr
    split at hr
    · simp at hr
    · simp only [Except.error.injEq] at hr; exact hr.symm

theorem mappedLookup_err {get : Caches → Name → Res Val} {inner : Scope} {m : List (Name × Expr)}
    (h : GetSpec get (CacheOK inner) (denote inner)) (he : GetErr get (CacheOK inner))
    {ci : Caches} {cache : Dict} {asd : Option Dict} {volc : Option (List Name)} (n : Name) (err : Err)
    (hc : CacheOK (.mapped inner m) (.mapped ci cache asd volc))
    (hr : (mappedLookup get m ci cache asd volc n).1 = .error err) :
    err.IsMissing ∧ (∀ e, alook n m = some e → err = .parameterMissing) := by
  have hspec := (mappedLookup_spec h n hc).1
  rw [hr] at hspec
  simp only [Except.toOption] at hspec
  simp only [CacheOK] at hc
  obtain ⟨hci, hcache, hasd, _⟩ := hc
  simp only [mappedLookup] at hr
  split at hr
  · simp at hr
  · rename_i hmiss
    obtain ⟨h1, _⟩ := calcParameter_spec h m ci n hci
    have hden : denote (.mapped inner m) n =
        (match alook n m with | some e => e.eval (denote inner) | none => denote inner n) := by
      cases hm : alook n m <;> simp [denote, hm]
    rw [← hden, ← hspec] at h1
    cases hcp : (calcParameter get m ci n).1 with
    | ok v => rw [hcp] at h1; simp [Except.toOption] at h1
    | error e' =>
      simp only [hcp, Except.error.injEq] at hr
      subst hr
      simp only [calcParameter] at hcp
      cases hm : alook n m with
      | none =>
        rw [hm] at hcp
        exact ⟨he ci n e' hci hcp, by simp⟩
      | some e =>
        rw [hm] at hcp
        have := evalIn_err ci e e' h he hci hcp
        exact ⟨Or.inl this, fun _ _ => this⟩

mutual
theorem lookup_err : ∀ (s : Scope) (c : Caches) (n : Name) (e : Err), CacheOK s c →
    (lookup s c n).1 = .error e → e.IsMissing
  | .dict vals vol, c, n, e, _, hr => by
    simp only [lookup] at hr
    cases hv : alook n vals with
    | some v => simp [hv] at hr
    | none => simp only [hv, Except.error.injEq] at hr; exact Or.inl hr.symm
  | .mapped inner m, c, n, e, hc, hr => by
    cases c with
    | mapped ci cache asd volc =>
      simp only [lookup] at hr
      exact (mappedLookup_err (lookup_getSpec inner) (fun c n e hc hr => lookup_err inner c n e hc hr)
        n e hc hr).1
    | _ => simp [CacheOK] at hc
  | .range inner idx v, c, n, e, hc, hr => by
    cases c with
    | range ci asd =>
      simp only [CacheOK] at hc
      simp only [lookup] at hr
      split at hr
      · simp at hr
      · exact lookup_err inner ci n e hc.1 hr
    | _ => simp [CacheOK] at hc
  | .joint es, c, n, e, hc, hr => by
    cases c with
    | joint ces asd volc =>
      simp only [CacheOK] at hc
      simp only [lookup] at hr
      exact lookupE_err es ces n e hc.1 hr
    | _ => simp [CacheOK] at hc
theorem lookupE_err : ∀ (es : Entries) (ces : CachesE) (n : Name) (e : Err), CacheOKE es ces →
    (lookupE es ces n).1 = .error e → e.IsMissing
  | .nil, ces, n, e, hc, hr => by
    cases ces with
    | nil => simp only [lookupE, Except.error.injEq] at hr; exact Or.inr hr.symm
    | _ => simp [CacheOKE] at hc
  | .cons k s rest, ces, n, e, hc, hr => by
    cases ces with
    | cons c crest =>
      simp only [CacheOKE] at hc
      simp only [lookupE] at hr
      split at hr
      · exact lookup_err s c n e hc.1 hr
      · exact lookupE_err rest crest n e hc.2 hr
    | _ => simp [CacheOKE] at hc
end

theorem lookupE_absent : ∀ (es : Entries) (ces : CachesE) (n : Name), CacheOKE es ces → n ∉ keysE es →
    (lookupE es ces n).1 = .error .keyError
  | .nil, ces, n, hc, _ => by
    cases ces with
    | nil => simp [lookupE]
    | _ => simp [CacheOKE] at hc
  | .cons k s rest, ces, n, hc, hn => by
    cases ces with
    | cons c crest =>
      simp only [CacheOKE] at hc
      simp only [keysE, List.mem_cons, not_or] at hn
      simp only [lookupE, hn.1, if_false]
      exact lookupE_absent rest crest n hc.2 hn.2
    | _ => simp [CacheOKE] at hc

end QP.C13
