import QP.Proofs.C07Inv
/-!
# C07: the invariants `InvClaim`, constructor by constructor (constant, function, mapping, time reversal, repetition,
sequence, iteration)
-/
namespace QP.C07
open QP.PT


theorem keepsSome_spec {cm : List (Chan × Option Chan)} {cs : List Chan} (h : keepsSome cm cs = true) :
    ∃ c ∈ cs, ∃ o, cm.lookup c = some (some o) := by
  unfold keepsSome at h
  simp only [List.any_eq_true] at h
  obtain ⟨c, hc, hm⟩ := h
  refine ⟨c, hc, ?_⟩
  cases hl : cm.lookup c with
  | none => rw [hl] at hm; cases hm
  | some x => cases x with
    | none => rw [hl] at hm; cases hm
    | some o => exact ⟨o, rfl⟩

theorem foldl_dictSet_keys (o : Chan) (v : Rat) : ∀ (kv d0 : List (Chan × Rat)),
    (kv.foldl (fun d (x : Chan × Rat) => dictSet d x.1 x.2) d0).lookup o = some v →
    (∃ v', d0.lookup o = some v') ∨ o ∈ kv.map (·.1)
  | [], d0, h => Or.inl ⟨v, h⟩
  | x :: rest, d0, h => by
    simp only [List.foldl_cons] at h
    rcases foldl_dictSet_keys o v rest _ h with ⟨v', hv'⟩ | hm
    · rw [dictSet_lookup] at hv'
      by_cases hx : o = x.1
      · right; simp [hx]
      · simp only [hx, if_false] at hv'
        exact Or.inl ⟨v', hv'⟩
    · right; simp only [List.map_cons, List.mem_cons]; exact Or.inr hm

theorem dictOfList_keys (kv : List (Chan × Rat)) (o : Chan) (v : Rat) (h : (dictOfList kv).lookup o = some v) :
    o ∈ kv.map (·.1) := by
  unfold dictOfList at h
  rcases foldl_dictSet_keys o v kv [] h with ⟨v', hv'⟩ | hm
  · simp [List.lookup] at hv'
  · exact hm

theorem foldl_dictSet_lookup_some (o : Chan) : ∀ (kv d0 : List (Chan × Rat)),
    ((∃ v', d0.lookup o = some v') ∨ o ∈ kv.map (·.1)) →
    ∃ v', (kv.foldl (fun d (x : Chan × Rat) => dictSet d x.1 x.2) d0).lookup o = some v'
  | [], d0, h => by
    rcases h with h | h
    · exact h
    · cases h
  | x :: rest, d0, h => by
    simp only [List.foldl_cons]
    apply foldl_dictSet_lookup_some o rest
    by_cases hx : o = x.1
    · left; rw [dictSet_lookup]; simp [hx]
    · rcases h with ⟨v', hv'⟩ | h
      · left; rw [dictSet_lookup]; simp only [hx, if_false]; exact ⟨v', hv'⟩
      · right
        simp only [List.map_cons, List.mem_cons] at h
        rcases h with h | h
        · exact absurd h hx
        · exact h

theorem dictOfList_lookup_some (kv : List (Chan × Rat)) (o : Chan) (v : Rat) (hm : (o, v) ∈ kv) :
    ∃ v', (dictOfList kv).lookup o = some v' := by
  unfold dictOfList
  exact foldl_dictSet_lookup_some o kv [] (Or.inr (List.mem_map.mpr ⟨(o, v), hm, rfl⟩))

theorem not_mem_empty_chanNames (o : Chan) : o ∉ Pulse.empty.chanNames := by
  simp [Pulse.chanNames, Pulse.empty]

theorem inv_const (id dur amps meas) : InvClaim (.const id dur amps meas) := by
  intro σ mm cm P hden hreg
  rw [regular, evalsTo_iff] at hreg
  obtain ⟨d, hd, hd0⟩ := hreg
  have hd0 : (0 : Rat) ≤ d := by simpa using hd0
  rw [denote] at hden
  simp only [hd, ok_bind] at hden
  split at hden
  · rename_i hpos
    simp only [bind_ok_iff] at hden
    obtain ⟨cvs, hcvs, hden⟩ := hden
    obtain ⟨h1, h2⟩ := filterMapM_kept cm σ.eval amps cvs hcvs
    split at hden
    · -- no channel is kept
      rename_i hemp
      simp only [pure_ok_iff] at hden; subst hden
      refine ⟨pulseInv_empty, (fun o ho => absurd ho (not_mem_empty_chanNames o)), ?_⟩
      intro hkeep D hD
      exfalso
      simp only [keeps] at hkeep
      obtain ⟨c, hc, o, ho⟩ := keepsSome_spec hkeep
      obtain ⟨x, hx, rfl⟩ := List.mem_map.mp hc
      obtain ⟨v, _, hm⟩ := h2 x hx o ho
      have h0 : dictOfList cvs = [] := by simpa using hemp
      have hk : ∃ v', (dictOfList cvs).lookup o = some v' := dictOfList_lookup_some cvs o v hm
      rw [h0] at hk
      obtain ⟨_, hk⟩ := hk
      simp [List.lookup] at hk
    · split at hden
      · cases hden
      · rename_i hne hnd
        simp only [bind_ok_iff, pure_ok_iff] at hden
        obtain ⟨ms, _, rfl⟩ := hden
        refine ⟨⟨?_, by simp only; grind, ?_⟩, ?_, ?_⟩
        · intro he
          rw [isEmpty_iff] at he
          simp only [List.map_eq_nil_iff] at he
          rw [he] at hne; simp at hne
        · intro x hx
          simp only [List.mem_map] at hx
          obtain ⟨y, _, rfl⟩ := hx
          refine ⟨?_, by simp [PL.dur]; grind⟩
          intro s hs
          simp only [List.mem_singleton] at hs
          subst hs; exact hpos
        · intro o ho
          simp only [Pulse.chanNames, List.map_map, List.mem_map] at ho
          obtain ⟨y, hy, rfl⟩ := ho
          have hl : (dictOfList cvs).lookup y.1 = some y.2 := by
            have hnd' : hasDup ((dictOfList cvs).map (·.1)) = false := by simpa using hnd
            exact lookup_of_mem_nodup _ hnd' hy
          have hk := dictOfList_keys cvs y.1 y.2 hl
          obtain ⟨z, hz, hz1⟩ := List.mem_map.mp hk
          obtain ⟨x, hx, hxc, _⟩ := h1 z hz
          refine ⟨x.1, (mem_dedup _ _).mpr (List.mem_map.mpr ⟨x, hx, rfl⟩), ?_⟩
          simp only [Function.comp] 
          rw [← hz1]; exact hxc
        · intro _ D hD
          rw [templateDuration, hd] at hD
          cases hD; rfl
  · simp only [pure_ok_iff] at hden; subst hden
    refine ⟨pulseInv_empty, (fun o ho => absurd ho (not_mem_empty_chanNames o)), ?_⟩
    intro _ D hD
    rw [templateDuration, hd] at hD
    cases hD
    show d = 0
    grind

theorem inv_func (id ch0 dur e meas cons) : InvClaim (.func id ch0 dur e meas cons) := by
  intro σ mm cm P hden hreg
  rw [regular, evalsTo_iff] at hreg
  obtain ⟨d, hd, hd0⟩ := hreg
  have hd0 : (0 : Rat) ≤ d := by simpa using hd0
  rw [denote] at hden
  simp only [bind_ok_iff] at hden
  obtain ⟨_, _, oo, hoo, hden⟩ := hden
  rw [chanLookup_ok_iff] at hoo
  cases oo with
  | none =>
    simp only [pure_ok_iff] at hden; subst hden
    refine ⟨pulseInv_empty, (fun o ho => absurd ho (not_mem_empty_chanNames o)), ?_⟩
    intro hkeep
    exfalso
    simp only [keeps] at hkeep
    obtain ⟨c, hc, o, ho⟩ := keepsSome_spec hkeep
    simp only [List.mem_singleton] at hc
    subst hc
    rw [hoo] at ho; cases ho
  | some o =>
    simp only [bind_ok_iff] at hden
    obtain ⟨d', hd', hden⟩ := hden
    rw [hd] at hd'; cases hd'
    split at hden
    · cases hden
    · simp only [bind_ok_iff, pure_ok_iff] at hden
      obtain ⟨a, _, b, _, ms, _, rfl⟩ := hden
      refine ⟨⟨?_, hd0, ?_⟩, ?_, ?_⟩
      · intro he; simp [Pulse.isEmpty] at he
      · intro x hx
        simp only [List.mem_singleton] at hx
        subst hx
        simp only
        split
        · rename_i hpos
          refine ⟨?_, by simp [PL.dur]; grind⟩
          intro s hs
          simp only [List.mem_singleton] at hs
          subst hs; exact hpos
        · refine ⟨plPos_nil, ?_⟩
          simp only [PL.dur]; grind
      · intro o' ho'
        simp only [Pulse.chanNames, List.map_cons, List.map_nil, List.mem_singleton] at ho'
        subst ho'
        exact ⟨ch0, by simp [PT.definedChannels], hoo⟩
      · intro _ D hD
        rw [templateDuration, hd] at hD
        cases hD; rfl

theorem inv_mapping (id body pm mm' cm' cons) (ih : InvClaim body) : InvClaim (.mapping id body pm mm' cm' cons) := by
  intro σ mm cm P hden hreg
  rw [denote] at hden
  simp only [bind_ok_iff] at hden
  obtain ⟨_, _, mmU, _, cmU, hcmU, hden⟩ := hden
  rw [regular] at hreg
  obtain ⟨i1, i2, i3⟩ := ih (.mapped σ pm) mmU cmU P hden hreg
  refine ⟨i1, ?_, ?_⟩
  · intro o ho
    obtain ⟨c, hc, hl⟩ := i2 o ho
    rw [updatedCm_lookup hcmU] at hl
    cases h : cm'.lookup c with
    | none => rw [h] at hl; cases hl
    | some y =>
      cases y with
      | none => rw [h] at hl; cases hl
      | some x =>
        rw [h] at hl
        refine ⟨x, ?_, hl⟩
        simp only [PT.definedChannels]
        rw [mem_dedup]
        exact List.mem_filterMap.mpr ⟨c, hc, by simp [h]⟩
  · intro hkeep D hD
    simp only [keeps, hcmU] at hkeep
    rw [templateDuration] at hD
    exact i3 hkeep D hD

theorem inv_timeReversal (id body) (ih : InvClaim body) : InvClaim (.timeReversal id body) := by
  intro σ mm cm P hden hreg
  rw [denote] at hden
  simp only [bind_ok_iff, pure_ok_iff] at hden
  obtain ⟨b, hb, rfl⟩ := hden
  rw [regular] at hreg
  obtain ⟨i1, i2, i3⟩ := ih σ mm cm b hb hreg
  refine ⟨⟨?_, i1.dur_nonneg, ?_⟩, ?_, ?_⟩
  · intro he
    apply i1.empty_dur
    rw [isEmpty_iff] at he ⊢
    simpa using he
  · intro x hx
    simp only [List.mem_map] at hx
    obtain ⟨y, hy, rfl⟩ := hx
    obtain ⟨h1, h2⟩ := i1.seg y hy
    exact ⟨plPos_reversed h1, by rw [PL_dur_reversed]; exact h2⟩
  · intro o ho
    apply i2 o
    simp only [Pulse.chanNames, List.map_map] at ho ⊢
    exact ho
  · intro hkeep D hD
    rw [templateDuration] at hD
    exact i3 (by simpa [keeps] using hkeep) D hD

theorem inv_rep (id body count meas cons) (ih : InvClaim body) : InvClaim (.rep id body count meas cons) := by
  intro σ mm cm P hden hreg
  rw [denote] at hden
  simp only [bind_ok_iff] at hden
  obtain ⟨_, _, cnt, hcnt, hden⟩ := hden
  simp only [regular, Bool.and_eq_true, evalsTo_iff, hcnt] at hreg
  obtain ⟨⟨v, hv, hint, hnn⟩, hregb⟩ := hreg
  cases hv
  obtain ⟨n, rfl⟩ : ∃ n : Int, cnt = (n : Rat) := ⟨cnt.num, isInt_eq hint⟩
  have hn0 : 0 ≤ n := by
    have : (0 : Rat) ≤ (n : Rat) := by simpa using hnn
    exact Rat.intCast_nonneg.mp this
  rw [checkedInt_intCast] at hden
  simp only at hden
  have hdc : (PT.rep id body count meas cons).definedChannels = body.definedChannels := by
    simp [PT.definedChannels]
  rw [hdc]
  split at hden
  · rename_i hle
    simp only [pure_ok_iff] at hden; subst hden
    refine ⟨pulseInv_empty, (fun o ho => absurd ho (not_mem_empty_chanNames o)), ?_⟩
    intro _ D hD
    rw [templateDuration] at hD
    simp only [hcnt, ok_bind, bind_ok_iff, pure_ok_iff] at hD
    obtain ⟨db, _, rfl⟩ := hD
    have : n = 0 := by omega
    subst this
    show (((0 : Int) : Rat)) * db = 0
    simp
  · rename_i hpos
    simp only [bind_ok_iff] at hden
    obtain ⟨ms, _, b, hb, hden⟩ := hden
    obtain ⟨i1, i2, i3⟩ := ih σ mm cm b hb hregb
    have hcast : ((n.toNat : Nat) : Rat) = (n : Rat) := by
      rw [← Rat.intCast_natCast, Int.toNat_of_nonneg hn0]
    split at hden
    · rename_i hbe
      simp only [pure_ok_iff] at hden; subst hden
      refine ⟨pulseInv_empty, (fun o ho => absurd ho (not_mem_empty_chanNames o)), ?_⟩
      intro hkeep D hD
      rw [templateDuration] at hD
      simp only [hcnt, ok_bind, bind_ok_iff, pure_ok_iff] at hD
      obtain ⟨db, hdb, rfl⟩ := hD
      have := i3 (by simpa [keeps] using hkeep) db hdb
      rw [this, i1.empty_dur hbe]
      show (n : Rat) * 0 = 0
      simp
    · rename_i hbne
      simp only [pure_ok_iff] at hden; subst hden
      refine ⟨⟨?_, ?_, ?_⟩, ?_, ?_⟩
      · intro he
        rw [isEmpty_iff] at he hbne
        simp only [List.map_eq_nil_iff] at he
        exact absurd he hbne
      · have := i1.dur_nonneg
        have h2 : (0 : Rat) ≤ ((n.toNat : Nat) : Rat) := Rat.natCast_nonneg
        simp only
        exact Rat.mul_nonneg this h2
      · intro x hx
        simp only [List.mem_map] at hx
        obtain ⟨y, hy, rfl⟩ := hx
        obtain ⟨h1, h2⟩ := i1.seg y hy
        refine ⟨plPos_replicate _ h1, ?_⟩
        simp only
        rw [PL_dur_replicate, h2, Rat.mul_comm]
      · intro o ho
        apply i2 o
        simp only [Pulse.chanNames, List.map_map] at ho ⊢
        exact ho
      · intro hkeep D hD
        rw [templateDuration] at hD
        simp only [hcnt, ok_bind, bind_ok_iff, pure_ok_iff] at hD
        obtain ⟨db, hdb, rfl⟩ := hD
        have := i3 (by simpa [keeps] using hkeep) db hdb
        rw [this]
        simp only
        rw [hcast, Rat.mul_comm]

theorem inv_list {σ : Scope} {mm cm} : ∀ (subs : List PT) (parts : List Pulse), (∀ p ∈ subs, InvClaim p) →
    denoteList subs σ mm cm = .ok parts → regularAll subs σ = true →
    (∀ q ∈ parts, PulseInv q) ∧
    (∀ q ∈ parts, ∀ o ∈ q.chanNames, ∃ p ∈ subs, ∃ c ∈ p.definedChannels, cm.lookup c = some (some o)) ∧
    (keepsAll subs cm = true → ∀ D, templateDurationSum subs σ = .ok D → D = (parts.map (·.dur)).sum)
  | [], parts, _, h, _ => by
    simp only [denoteList] at h; cases h
    refine ⟨(fun q hq => nomatch hq), (fun q hq => nomatch hq), ?_⟩
    intro _ D hD
    simp only [templateDurationSum] at hD; cases hD; rfl
  | p :: ps, parts, ih, h, hreg => by
    simp only [denoteList, bind_ok_iff, pure_ok_iff] at h
    obtain ⟨a, ha, b, hb, rfl⟩ := h
    simp only [regularAll, Bool.and_eq_true] at hreg
    obtain ⟨i1, i2, i3⟩ := ih p (List.mem_cons_self ..) σ mm cm a ha hreg.1
    obtain ⟨j1, j2, j3⟩ := inv_list ps b (fun q hq => ih q (List.mem_cons_of_mem _ hq)) hb hreg.2
    refine ⟨?_, ?_, ?_⟩
    · intro q hq
      rcases List.mem_cons.mp hq with rfl | hq
      · exact i1
      · exact j1 q hq
    · intro q hq o ho
      rcases List.mem_cons.mp hq with rfl | hq
      · obtain ⟨c, hc, hl⟩ := i2 o ho
        exact ⟨p, List.mem_cons_self .., c, hc, hl⟩
      · obtain ⟨p', hp', c, hc, hl⟩ := j2 q hq o ho
        exact ⟨p', List.mem_cons_of_mem _ hp', c, hc, hl⟩
    · intro hkeep D hD
      simp only [keepsAll, Bool.and_eq_true] at hkeep
      simp only [templateDurationSum, bind_ok_iff, pure_ok_iff] at hD
      obtain ⟨da, hda, db, hdb, rfl⟩ := hD
      rw [i3 hkeep.1 da hda, j3 hkeep.2 db hdb]
      simp

theorem inv_seq (id subs meas cons) (ih : ∀ p ∈ subs, InvClaim p)
    (hsame : sameChannels (PT.firstChannels subs) subs = true) : InvClaim (.seq id subs meas cons) := by
  intro σ mm cm P hden hreg
  rw [denote] at hden
  simp only [bind_ok_iff, pure_ok_iff] at hden
  obtain ⟨_, _, ms, _, parts, hparts, p, happ, rfl⟩ := hden
  rw [regular] at hreg
  obtain ⟨i1, i2, i3⟩ := inv_list subs parts ih hparts hreg
  obtain ⟨j1, j2, j3⟩ := appendAll_inv parts p i1 happ
  refine ⟨pulseInv_withOwn j1 ms, ?_, ?_⟩
  · intro o ho
    rw [withOwn_chanNames] at ho
    obtain ⟨q, hq, hoq⟩ := j3 o ho
    obtain ⟨p', hp', c, hc, hl⟩ := i2 q hq o hoq
    refine ⟨c, ?_, hl⟩
    simp only [PT.definedChannels]
    exact (sameChannels_mem hsame p' hp' c).mp hc
  · intro hkeep D hD
    rw [templateDuration] at hD
    rw [withOwn_dur, j2]
    exact i3 (by simpa [keeps] using hkeep) D hD

theorem mapM_mem_rev {α β} (f : α → Except Err β) : ∀ (l : List α) (r : List β), l.mapM f = .ok r →
    ∀ y ∈ r, ∃ x ∈ l, f x = .ok y
  | [], r, h, y, hy => by
    simp only [List.mapM_nil, pure_ok_iff] at h; subst h; cases hy
  | a :: as, r, h, y, hy => by
    simp only [List.mapM_cons, bind_ok_iff, pure_ok_iff] at h
    obtain ⟨b, hb, bs, hbs, rfl⟩ := h
    rcases List.mem_cons.mp hy with rfl | hy
    · exact ⟨a, List.mem_cons_self .., hb⟩
    · obtain ⟨x, hx, hfx⟩ := mapM_mem_rev f as bs hbs y hy
      exact ⟨x, List.mem_cons_of_mem _ hx, hfx⟩

theorem loop_dur {body : PT} {σ : Scope} {idx : String} {mm cm} (ih : InvClaim body) (hkeep : keeps body cm = true)
    (ai si : Int) :
    ∀ (N : Nat) (parts : List Pulse) (ds : List Rat),
      ((List.range N).map (fun (k : Nat) => ai + si * (k : Int))).mapM
        (fun (i : Int) => denote body (.range σ idx (i : Rat)) mm cm) = .ok parts →
      (∀ k, k < N → regular body (.range σ idx ((ai + si * (k : Int) : Int) : Rat)) = true) →
      (List.range N).mapM (fun (k : Nat) => templateDuration body (.range σ idx ((ai : Rat) + (k : Rat) * (si : Rat)))) = .ok ds →
      sumList ds = (parts.map (·.dur)).sum := by
  intro N
  induction N with
  | zero =>
    intro parts ds hp _ hds
    simp only [List.range_zero, List.map_nil, List.mapM_nil, pure_ok_iff] at hp hds
    subst hp; subst hds; rfl
  | succ N ihN =>
    intro parts ds hp hreg hds
    rw [List.range_succ, List.map_append, List.mapM_append] at hp
    simp only [bind_ok_iff, pure_ok_iff, List.map_cons, List.map_nil] at hp
    obtain ⟨parts1, hp1, last, hl, rfl⟩ := hp
    rw [mapM_singleton] at hl
    obtain ⟨y, hy, rfl⟩ := hl
    rw [List.range_succ, List.mapM_append] at hds
    simp only [bind_ok_iff, pure_ok_iff] at hds
    obtain ⟨ds1, hds1, dl, hdl, rfl⟩ := hds
    rw [mapM_singleton] at hdl
    obtain ⟨d, hd, rfl⟩ := hdl
    have e1 := ihN parts1 ds1 hp1 (fun k hk => hreg k (by omega)) hds1
    rw [← idx_cast] at hd
    have e2 := (ih _ mm cm y hy (hreg N (by omega))).2.2 hkeep d hd
    have hs : ∀ (l : List Rat) (x : Rat), sumList (l ++ [x]) = sumList l + x := by
      intro l x
      induction l with
      | nil => simp [sumList]; grind
      | cons z zs ihz => simp only [List.cons_append, sumList, ihz]; grind
    rw [hs, e1, e2]
    simp
    grind

theorem inv_forLoop (id body idx start stop step meas cons) (ih : InvClaim body) :
    InvClaim (.forLoop id body idx start stop step meas cons) := by
  intro σ mm cm P hden hreg
  obtain ⟨ai, bi, si, parts, p, ms, ha, hb, hs, hsi, hparts, hp, rfl, hall⟩ := forLoop_unfold hden hreg
  have hinv : ∀ q ∈ parts, PulseInv q ∧ ∀ o ∈ q.chanNames, ∃ c ∈ body.definedChannels, cm.lookup c = some (some o) := by
    intro q hq
    obtain ⟨i, hi, hqi⟩ := mapM_mem_rev _ _ _ hparts q hq
    obtain ⟨i1, i2, _⟩ := ih _ mm cm q hqi (hall i hi)
    exact ⟨i1, i2⟩
  obtain ⟨j1, j2, j3⟩ := appendAll_inv parts p (fun q hq => (hinv q hq).1) hp
  refine ⟨pulseInv_withOwn j1 ms, ?_, ?_⟩
  · intro o ho
    rw [withOwn_chanNames] at ho
    obtain ⟨q, hq, hoq⟩ := j3 o ho
    simp only [PT.definedChannels]
    exact (hinv q hq).2 o hoq
  · intro hkeep D hD
    have hkeepb : keeps body cm = true := by simpa [keeps] using hkeep
    rw [withOwn_dur, j2]
    rw [templateDuration] at hD
    simp only [ha, hb, hs, ok_bind] at hD
    unfold forLoopClosedForm at hD
    have hsr : ((si : Rat) = 0) = False := by
      simp only [eq_iff_iff, iff_false]; intro h; exact hsi (Rat.intCast_eq_zero_iff.mp h)
    have hsc : (((bi : Rat) - (ai : Rat)) / (si : Rat)).ceil = stepCount ai bi si := by
      unfold stepCount; rw [Rat.intCast_sub]
    simp only [hsr, if_false, hsc] at hD
    have hlen := rangeLen_eq_stepCount (a := ai) (b := bi) hsi
    rw [pyRange_eq_map] at hparts hall
    split at hD
    · rename_i hle
      simp only [pure_ok_iff] at hD; subst hD
      have h0 : rangeLen ai bi si = 0 := by omega
      rw [h0] at hparts
      simp only [List.range_zero, List.map_nil, List.mapM_nil, pure_ok_iff] at hparts
      subst hparts; rfl
    · rename_i hpos
      simp only [bind_ok_iff, pure_ok_iff] at hD
      obtain ⟨ds, hds, rfl⟩ := hD
      have hN : (max (stepCount ai bi si) 1).toNat = rangeLen ai bi si := by omega
      rw [hN] at hds
      refine loop_dur ih hkeepb ai si (rangeLen ai bi si) parts ds hparts ?_ hds
      intro k hk
      apply hall
      exact List.mem_map.mpr ⟨k, List.mem_range.mpr hk, rfl⟩


end QP.C07
