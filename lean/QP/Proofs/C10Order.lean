import QP.Proofs.C10Final
/-! C10: documents are written children first — every reference in a written document points to a
document written earlier (or already stored). -/
namespace QP.C10
set_option linter.unusedSimpArgs false
set_option linter.unusedVariables false

/-- identifiers of a list of nodes -/
def idsOf (L : List T) : List Id := L.filterMap T.id

theorem mem_idsOf {L : List T} {k : Id} : k ∈ idsOf L ↔ ∃ n ∈ L, n.id = some k := by
  simp only [idsOf, List.mem_filterMap]

theorem idsOf_append (a b : List T) : idsOf (a ++ b) = idsOf a ++ idsOf b := by
  simp only [idsOf, List.filterMap_append]

/-- the named strict descendants of `n` are stored already or among `seen` -/
def StrictOk (st : St) (seen : List Id) (n : T) : Prop :=
  ∀ c ∈ subtermsItems n.items, ∀ k, c.id = some k → st.has k = true ∨ k ∈ seen

def OrdFrom (st : St) : List Id → List T → Prop
  | _, [] => True
  | seen, n :: rest => StrictOk st seen n ∧ OrdFrom st (seen ++ idsOf [n]) rest

theorem ordFrom_mono (st : St) : ∀ (L : List T) (seen seen' : List Id), (∀ k ∈ seen, k ∈ seen') →
    OrdFrom st seen L → OrdFrom st seen' L
  | [], _, _, _, _ => trivial
  | n :: L, seen, seen', hs, h => by
    refine ⟨fun c hc k hk => ?_, ?_⟩
    · rcases h.1 c hc k hk with h' | h'
      · exact Or.inl h'
      · exact Or.inr (hs k h')
    · apply ordFrom_mono st L _ _ _ h.2
      intro k hk
      rcases List.mem_append.mp hk with hk | hk
      · exact List.mem_append_left _ (hs k hk)
      · exact List.mem_append_right _ hk

theorem ordFrom_append (st : St) : ∀ (L1 L2 : List T) (seen : List Id), OrdFrom st seen L1 →
    OrdFrom st (seen ++ idsOf L1) L2 → OrdFrom st seen (L1 ++ L2)
  | [], L2, seen, _, h2 => by simpa [idsOf] using h2
  | n :: L1, L2, seen, h1, h2 => by
    refine ⟨h1.1, ?_⟩
    apply ordFrom_append st L1 L2 _ h1.2
    have : idsOf (n :: L1) = idsOf [n] ++ idsOf L1 := by
      rw [← idsOf_append]; rfl
    rw [this, ← List.append_assoc] at h2
    exact h2

mutual
theorem ord_pendT (st : St) (hcl : ClosedSt st) : (t : T) → Compat st (subterms t) →
    ∀ seen, OrdFrom st seen (pendT st t)
  | .node cls id items, hc, seen => by
    have hci : Compat st (subtermsItems items) :=
      hc.mono (fun c h => by rw [subterms_node]; exact List.mem_append_left _ h)
    cases id with
    | none => simp only [pendT]; exact ord_pendItems st hcl items hci seen
    | some i =>
      by_cases hs : st.has i = true
      · simp only [pendT, hs, if_true]; trivial
      · have hs' : st.has i = false := by simpa using hs
        simp only [pendT, hs', Bool.false_eq_true, if_false]
        apply ordFrom_append st _ _ _ (ord_pendItems st hcl items hci seen)
        refine ⟨?_, trivial⟩
        intro c hcm k hk
        rcases cover_items st hcl items hci c hcm k hk with h | h
        · exact Or.inr (List.mem_append_right _ (mem_idsOf.mpr ⟨c, h, hk⟩))
        · exact Or.inl h
theorem ord_pendItems (st : St) (hcl : ClosedSt st) : (items : List Item) → Compat st (subtermsItems items) →
    ∀ seen, OrdFrom st seen (pendItems st items)
  | [], _, _ => trivial
  | .data _ _ :: rest, hc, seen => by
    simp only [subtermsItems] at hc
    simp only [pendItems]; exact ord_pendItems st hcl rest hc seen
  | .child _ t :: rest, hc, seen => by
    simp only [subtermsItems] at hc
    simp only [pendItems]
    exact ordFrom_append st _ _ _ (ord_pendT st hcl t (hc.mono (fun c h => List.mem_append_left _ h)) seen)
      (ord_pendItems st hcl rest (hc.mono (fun c h => List.mem_append_right _ h)) _)
  | .children _ ts :: rest, hc, seen => by
    simp only [subtermsItems] at hc
    simp only [pendItems]
    exact ordFrom_append st _ _ _ (ord_pendList st hcl ts (hc.mono (fun c h => List.mem_append_left _ h)) seen)
      (ord_pendItems st hcl rest (hc.mono (fun c h => List.mem_append_right _ h)) _)
theorem ord_pendList (st : St) (hcl : ClosedSt st) : (ts : List T) → Compat st (subtermsList ts) →
    ∀ seen, OrdFrom st seen (pendList st ts)
  | [], _, _ => trivial
  | t :: ts, hc, seen => by
    simp only [subtermsList] at hc
    simp only [pendList]
    exact ordFrom_append st _ _ _ (ord_pendT st hcl t (hc.mono (fun c h => List.mem_append_left _ h)) seen)
      (ord_pendList st hcl ts (hc.mono (fun c h => List.mem_append_right _ h)) _)
end

theorem ord_pendRoot (st : St) (hcl : ClosedSt st) (t : T) (hc : Compat st (subterms t)) :
    OrdFrom st [] (pendRoot st t) := by
  cases t with
  | node cls id items =>
    have hci : Compat st (subtermsItems items) :=
      hc.mono (fun c h => by rw [subterms_node]; exact List.mem_append_left _ h)
    simp only [pendRoot, T.items]
    apply ordFrom_append st _ _ _ (ord_pendItems st hcl items hci [])
    refine ⟨?_, trivial⟩
    intro c hcm k hk
    rcases cover_items st hcl items hci c hcm k hk with h | h
    · exact Or.inr (List.mem_append_right _ (mem_idsOf.mpr ⟨c, h, hk⟩))
    · exact Or.inl h

/-! ### children-first lists of written documents -/

/-- every reference of every entry is in `base` or is the key of an earlier entry -/
def CF (base : Id → Prop) : List Id → List (Id × J) → Prop
  | _, [] => True
  | seen, e :: rest => (∀ r ∈ e.2.refs, base r ∨ r ∈ seen) ∧ CF base (seen ++ [e.1]) rest

theorem cf_append (base : Id → Prop) : ∀ (l1 l2 : List (Id × J)) (seen : List Id),
    CF base seen (l1 ++ l2) ↔ CF base seen l1 ∧ CF base (seen ++ l1.map Prod.fst) l2
  | [], l2, seen => by simp [CF]
  | e :: l1, l2, seen => by
    simp only [List.cons_append, CF, cf_append base l1 l2, List.map_cons, and_assoc]
    have : seen ++ [e.1] ++ l1.map Prod.fst = seen ++ e.1 :: l1.map Prod.fst := by simp
    rw [this]

theorem cf_mono {base base' : Id → Prop} (hb : ∀ r, base r → base' r) : ∀ (l : List (Id × J)) (seen seen' : List Id),
    (∀ k ∈ seen, k ∈ seen') → CF base seen l → CF base' seen' l
  | [], _, _, _, _ => trivial
  | e :: l, seen, seen', hs, h => by
    refine ⟨fun r hr => ?_, ?_⟩
    · rcases h.1 r hr with h' | h'
      · exact Or.inl (hb r h')
      · exact Or.inr (hs r h')
    · apply cf_mono hb l _ _ _ h.2
      intro k hk
      rcases List.mem_append.mp hk with hk | hk
      · exact List.mem_append_left _ (hs k hk)
      · exact List.mem_append_right _ hk

/-- the recursive form gives the statement about every position of the list -/
theorem cf_split (base : Id → Prop) : ∀ (pre : List (Id × J)) (e : Id × J) (post : List (Id × J)) (seen : List Id),
    CF base seen (pre ++ e :: post) → ∀ r ∈ e.2.refs, base r ∨ r ∈ seen ++ pre.map Prod.fst
  | [], e, post, seen, h, r, hr => by simpa using h.1 r hr
  | x :: pre, e, post, seen, h, r, hr => by
    have := cf_split base pre e post (seen ++ [x.1]) h.2 r hr
    simpa [List.append_assoc] using this

/-- documents of a transaction -/
def docsOf (txn : Txn) : List (Id × J) := txn.map (fun e => (e.1, e.2.1))

theorem docsOf_keys (txn : Txn) : (docsOf txn).map Prod.fst = txn.map Prod.fst := by
  simp [docsOf, List.map_map, Function.comp_def]

theorem docsOf_append (a b : Txn) : docsOf (a ++ b) = docsOf a ++ docsOf b := by simp [docsOf]

/-- folding the pending nodes into the transaction keeps it children first -/
theorem fold_ins_cf {F : List T} (hu : UniqueIds F) (st : St) : ∀ (L : List T) (seen : List Id) (txn : Txn),
    OrdFrom st seen L → (∀ k ∈ seen, hasKey k txn = true) →
    (∀ j d m, lookup j txn = some (d, m) → m ∈ Univ F ∧ m.id = some j ∧ d = body m) →
    (∀ n ∈ L, n ∈ Univ F ∧ n.wf = true) →
    CF (fun r => st.has r = true) [] (docsOf txn) →
    CF (fun r => st.has r = true) [] (docsOf (L.foldl ins txn))
  | [], _, _, _, _, _, _, h => h
  | n :: L, seen, txn, hord, hseen, hval, hL, hcf => by
    simp only [List.foldl_cons]
    have hn := hL n List.mem_cons_self
    cases hid : n.id with
    | none =>
      have : ins txn n = txn := by simp only [ins, hid]
      rw [this]
      have hids : idsOf [n] = [] := by simp [idsOf, hid]
      have hord2 := hord.2; rw [hids, List.append_nil] at hord2
      exact fold_ins_cf hu st L seen txn hord2 hseen hval (fun m hm => hL m (List.mem_cons_of_mem _ hm)) hcf
    | some i =>
      have hids : idsOf [n] = [i] := by simp [idsOf, hid]
      have hord2 := hord.2; rw [hids] at hord2
      rw [ins_named hid]
      cases hl : lookup i txn with
      | some v =>
        obtain ⟨d, m⟩ := v
        have hv := hval i d m hl
        have hmn : m = n := uniq hu hv.1 hn.1 hv.2.1 hid
        have : put i (body n, n) txn = txn := by
          apply put_self; rw [hl, hv.2.2, hmn]
        rw [this]
        apply fold_ins_cf hu st L (seen ++ [i]) txn hord2 _ hval (fun m hm => hL m (List.mem_cons_of_mem _ hm)) hcf
        intro k hk
        rcases List.mem_append.mp hk with hk | hk
        · exact hseen k hk
        · simp only [List.mem_singleton] at hk; subst hk
          exact (hasKey_true_iff _ _).mpr ⟨_, hl⟩
      | none =>
        rw [put_of_not_has _ hl]
        apply fold_ins_cf hu st L (seen ++ [i]) _ hord2 _ _ (fun m hm => hL m (List.mem_cons_of_mem _ hm))
        · -- children first
          rw [docsOf_append, cf_append]
          refine ⟨hcf, ?_, trivial⟩
          intro r hr
          obtain ⟨c, hc, hcr⟩ := refs_body n hn.2 r hr
          rcases hord.1 c hc r hcr with h | h
          · exact Or.inl h
          · right
            simp only [List.nil_append, docsOf_keys]
            exact (hasKey_iff r txn).mp (hseen r h)
        · intro k hk
          rw [← put_of_not_has (body n, n) hl, hasKey_put]
          rcases List.mem_append.mp hk with hk | hk
          · simp [hseen k hk]
          · simp only [List.mem_singleton] at hk; simp [hk]
        · intro j d m h
          rw [← put_of_not_has (body n, n) hl, lookup_put] at h
          by_cases hji : j = i
          · simp only [hji, if_true, Option.some.injEq, Prod.mk.injEq] at h
            rw [← h.2, ← h.1, hji]; exact ⟨hn.1, hid, rfl⟩
          · simp only [hji, if_false] at h; exact hval j d m h

end QP.C10
