import QP.Model.C15
import QP.Proofs.C14Ops
/-! C15 — the count of a float-valued count expression is the nearest integer of its exact value. -/
namespace QP.C15
open QP.C14

/-- an integer within 1/2 of `q` is what `round` returns -/
theorem roundHalfEven_eq_of_near (q : Rat) (k : Int) (h : |q - (k : Rat)| < 1 / 2) : roundHalfEven q = k := by
  have hs := (roundHalfEven_spec q).1
  rw [abs_lt] at h
  rw [abs_le] at hs
  have h1 : ((roundHalfEven q : Int) : Rat) - (k : Rat) < 1 := by linarith
  have h2 : (k : Rat) - ((roundHalfEven q : Int) : Rat) < 1 := by linarith
  have h1' : ((roundHalfEven q - k : Int) : Rat) < ((1 : Int) : Rat) := by push_cast; linarith
  have h2' : ((k - roundHalfEven q : Int) : Rat) < ((1 : Int) : Rat) := by push_cast; linarith
  have a := Int.cast_lt.mp h1'
  have b := Int.cast_lt.mp h2'
  omega

end QP.C15
