import QP.Proofs.C09Ops2
/-! Local steps of the recursive operations: `reverse_inplace`, `cleanup`, `roll_constant_waveforms`. -/
namespace QP.C09

theorem sumDur_mapIdx (L : List T) (f : Nat → T → T) (hf : ∀ j c, dur (f j c) = dur c) :
    sumDur (L.mapIdx f) = sumDur L := by
  induction L generalizing f with
  | nil => simp
  | cons a as ih =>
    rw [List.mapIdx_cons]
    simp only [sumDur_cons, hf, ih (fun j => f (j + 1)) (fun j c => hf (j + 1) c)]

theorem isEmpty_of_length_eq {α β} {a : List α} {b : List β} (h : a.length = b.length) : a.isEmpty = b.isEmpty := by
  cases a <;> cases b <;> simp_all

theorem revMeas_spec (t : T) (h : Coherent t) :
    Coherent (revMeas t).1 ∧ SameId t (revMeas t).1 ∧ dur (revMeas t).1 = dur t := by
  unfold revMeas
  split
  · exact ⟨h, SameId.refl t, rfl⟩
  · obtain ⟨f1, _, f3, f4⟩ := fillV_spec.1 t h
    refine ⟨coherent_upd _ _ rfl rfl (Or.inl rfl) f1, ⟨by simp [f4], by simp [f4], by simp [f4]⟩, ?_⟩
    rw [dur_upd _ _ rfl rfl]
    simp only [dur, f3, f4]

theorem Wf.reversed_dur (w : Wf) : w.reversed.dur = w.dur := by
  unfold Wf.reversed; split <;> rfl

theorem rev_spec :
    (∀ t, Coherent t → Coherent (revT t).1 ∧ SameId t (revT t).1 ∧ dur (revT t).1 = dur t) ∧
    (∀ ks, (∀ d ∈ ks, Coherent d) → (∀ d ∈ (revL ks).1, Coherent d) ∧ sumDur (revL ks).1 = sumDur ks ∧
        (revL ks).1.map (·.info.par) = ks.map (·.info.par) ∧ (revL ks).1.length = ks.length) := by
  apply T.ind
  · intro i ks ih h
    have hk := h.kids
    simp only [T.kids_mk] at hk
    obtain ⟨k1, k2, k3, k4⟩ := ih hk
    rw [coherent_mk] at h
    obtain ⟨h1, h2, _⟩ := h
    simp only [revT]
    by_cases he : ks.isEmpty
    · simp only [he, if_true]
      have hks : ks = [] := List.isEmpty_iff.1 he
      subst hks
      cases hw : i.wf with
      | none => exact ⟨(coherent_mk _ _).2 ⟨h1, h2, hk⟩, SameId.refl _, rfl⟩
      | some w =>
        simp only
        have hb : bodyDur (T.mk { i with wf := some w.reversed } []) = bodyDur (T.mk i []) := by
          simp [bodyDur_mk, hw, leafDur, Wf.reversed_dur]
        have hc : Coherent (T.mk { i with wf := some w.reversed } []) := by
          rw [coherent_mk]
          refine ⟨?_, ?_, by simp⟩
          · unfold cacheOkHere at h1 ⊢; rw [hb]; exact h1
          · intro k c hk; simp at hk
        obtain ⟨m1, m2, m3⟩ := revMeas_spec _ hc
        refine ⟨m1, ⟨m2.1, m2.2.1, m2.2.2⟩, ?_⟩
        rw [m3]; simp only [dur, hb, T.info_mk]
    · rw [if_neg he]
      -- the reversed and renumbered child list
      have hne : ((revL ks).1.reverse.mapIdx (fun j c => c.withPidx (some (j : Int)))).isEmpty = ks.isEmpty :=
        isEmpty_of_length_eq (by simp [k4])
      have hb : bodyDur (T.mk i ((revL ks).1.reverse.mapIdx (fun j c => c.withPidx (some (j : Int))))) =
          bodyDur (T.mk i ks) := by
        rw [bodyDur_mk, bodyDur_mk, hne]
        simp only [he]
        rw [sumDur_mapIdx _ _ (fun j c => dur_withPidx _ c), sumDur_reverse, k2]
      have hpar : ∀ d ∈ (revL ks).1, d.info.par = some i.uid := by
        intro d hd
        have : d.info.par ∈ (revL ks).1.map (·.info.par) := List.mem_map.2 ⟨d, hd, rfl⟩
        rw [k3] at this
        obtain ⟨x, hx, hxe⟩ := List.mem_map.1 this
        obtain ⟨n, hn, hnx⟩ := List.getElem_of_mem hx
        have := (h2 n x (by simp [List.getElem?_eq_getElem hn, hnx])).2
        rw [← hxe]; simpa using this
      have hc : Coherent (T.mk i ((revL ks).1.reverse.mapIdx (fun j c => c.withPidx (some (j : Int))))) := by
        rw [coherent_mk]
        refine ⟨?_, ?_, ?_⟩
        · unfold cacheOkHere at h1 ⊢; rw [hb]; exact h1
        · intro k c hk
          simp only [T.kids_mk, List.getElem?_mapIdx, Option.map_eq_some_iff] at hk
          obtain ⟨x, hx, rfl⟩ := hk
          simp only [withPidx_info, T.info_mk, true_and]
          exact hpar x (List.mem_reverse.1 (List.mem_of_getElem? hx))
        · intro d hd
          simp only [List.mem_mapIdx] at hd
          obtain ⟨j, hj, rfl⟩ := hd
          exact coherent_withPidx _ _ (k1 _ (List.mem_reverse.1 (List.getElem_mem hj)))
      have hd : dur (T.mk i ((revL ks).1.reverse.mapIdx (fun j c => c.withPidx (some (j : Int))))) = dur (T.mk i ks) := by
        simp only [dur, hb, T.info_mk]
      cases hr : (revL ks).2 with
      | true =>
        simp only [if_true]
        obtain ⟨m1, m2, m3⟩ := revMeas_spec _ hc
        exact ⟨m1, ⟨m2.1, m2.2.1, m2.2.2⟩, by rw [m3, hd]⟩
      | false =>
        simp only [Bool.false_eq_true, if_false]
        exact ⟨hc, ⟨rfl, rfl, rfl⟩, hd⟩
  · intro _; simp [revL]
  · intro c cs ihc ihcs h
    obtain ⟨c1, c2, c3⟩ := ihc (h c List.mem_cons_self)
    obtain ⟨d1, d2, d3, d4⟩ := ihcs (fun d hd => h d (List.mem_cons_of_mem _ hd))
    simp only [revL]
    cases hr : (revL cs).2 with
    | true =>
      simp only [if_true]
      refine ⟨?_, by simp [c3, d2], by simp [c2.2.2, d3], by simp [d4]⟩
      intro d hd
      rcases List.mem_cons.1 hd with h' | h'
      · rw [h']; exact c1
      · exact d1 d h'
    | false =>
      simp only [Bool.false_eq_true, if_false]
      refine ⟨?_, by simp [d2], by simp [d3], by simp [d4]⟩
      intro d hd
      rcases List.mem_cons.1 hd with h' | h'
      · rw [h']; exact h c List.mem_cons_self
      · exact d1 d h'

theorem reverse_ok (next : Nat) (t : T) (h : Coherent t) : LocOk t (reverseLoc next t) := by
  obtain ⟨r1, r2, r3⟩ := rev_spec.1 t h
  exact ⟨r1, r2, r3⟩

/-! ### cleanup -/

theorem cleanup_spec (re mg : Bool) :
    (∀ t, Coherent t → Coherent (cleanupT re mg t).1 ∧ SameId t (cleanupT re mg t).1 ∧
        ((cleanupT re mg t).2 = false → (cleanupT re mg t).1 = t)) ∧
    (∀ ks, (∀ d ∈ ks, Coherent d) → (∀ d ∈ (cleanupL re mg ks).1, Coherent d) ∧
        linkIds (cleanupL re mg ks).1 = linkIds ks ∧ ((cleanupL re mg ks).2 = false → (cleanupL re mg ks).1 = ks)) := by
  apply T.ind
  · intro i ks ih h
    have hk := h.kids
    simp only [T.kids_mk] at hk
    obtain ⟨k1, k2, k3⟩ := ih hk
    simp only [cleanupT]
    generalize hkeep : (if re = true then (cleanupL re mg ks).1.filter (fun c => c.info.wf.isSome || !c.isLeaf)
        else (cleanupL re mg ks).1) = keep
    have hkeepmem : ∀ d ∈ keep, Coherent d := by
      intro d hd
      rw [← hkeep] at hd
      split at hd
      · exact k1 d (List.mem_filter.1 hd).1
      · exact k1 d hd
    generalize hch : (keep.length != (cleanupL re mg ks).1.length) = changed1
    -- the node before the merge step
    have ht1 : (Coherent (T.mk (if ((cleanupL re mg ks).2 || changed1) = true then { i with cache := none } else i)
        (if changed1 = true then keep.mapIdx (fun j c => (c.withPar (some i.uid)).withPidx (some (j : Int)))
         else (cleanupL re mg ks).1)) ∧
        ((((cleanupL re mg ks).2 || changed1) = false) →
          T.mk (if ((cleanupL re mg ks).2 || changed1) = true then { i with cache := none } else i)
            (if changed1 = true then keep.mapIdx (fun j c => (c.withPar (some i.uid)).withPidx (some (j : Int)))
             else (cleanupL re mg ks).1) = T.mk i ks)) ∧
        SameId (T.mk i ks) (T.mk (if ((cleanupL re mg ks).2 || changed1) = true then { i with cache := none } else i)
            (if changed1 = true then keep.mapIdx (fun j c => (c.withPar (some i.uid)).withPidx (some (j : Int)))
             else (cleanupL re mg ks).1)) := by
      refine ⟨?_, by unfold SameId; split <;> simp⟩
      cases changed1 with
      | true =>
        simp only [Bool.or_true, if_true]
        refine ⟨?_, by simp⟩
        apply coherent_of_links _ _ rfl
        · intro k c hk
          simp only [List.getElem?_mapIdx, Option.map_eq_some_iff] at hk
          obtain ⟨x, _, rfl⟩ := hk
          simp
        · intro d hd
          simp only [List.mem_mapIdx] at hd
          obtain ⟨j, hj, rfl⟩ := hd
          exact coherent_withPidx _ _ (coherent_withPar _ _ (hkeepmem _ (List.getElem_mem hj)))
      | false =>
        simp only [Bool.or_false, Bool.false_eq_true, if_false]
        cases hfl : (cleanupL re mg ks).2 with
        | true =>
          simp only [if_true]
          refine ⟨?_, by simp⟩
          apply coherent_of_links _ _ rfl
          · exact linksOkHere_congr (i := i) (i' := i) rfl k2 h.links
          · exact k1
        | false =>
          simp only [Bool.false_eq_true, if_false]
          rw [k3 hfl]
          exact ⟨h, fun _ => rfl⟩
    generalize (T.mk (if ((cleanupL re mg ks).2 || changed1) = true then { i with cache := none } else i)
        (if changed1 = true then keep.mapIdx (fun j c => (c.withPar (some i.uid)).withPidx (some (j : Int)))
         else (cleanupL re mg ks).1)) = t1 at *
    obtain ⟨⟨t1c, t1e⟩, t1s⟩ := ht1
    cases hm : (mg && canMerge t1) with
    | true =>
      simp only [if_true]
      obtain ⟨m1, m2, _⟩ := merge_ok 0 t1 t1c
      refine ⟨m1, ⟨?_, ?_, ?_⟩, by simp⟩
      · rw [m2.1, t1s.1]
      · rw [m2.2.1, t1s.2.1]
      · rw [m2.2.2, t1s.2.2]
    | false =>
      simp only [Bool.false_eq_true, if_false]
      exact ⟨t1c, t1s, t1e⟩
  · intro _; simp [cleanupL, linkIds]
  · intro c cs ihc ihcs h
    obtain ⟨d1, d2, d3⟩ := ihcs (fun d hd => h d (List.mem_cons_of_mem _ hd))
    have hc := h c List.mem_cons_self
    simp only [cleanupL]
    by_cases hl : c.isLeaf
    · rw [if_pos hl]
      simp only [Bool.false_or]
      refine ⟨?_, by simp only [linkIds, List.map_cons] at d2 ⊢; rw [d2], fun hf => by rw [d3 hf]⟩
      intro d hd
      rcases List.mem_cons.1 hd with h' | h'
      · rw [h']; exact hc
      · exact d1 d h'
    · rw [if_neg hl]
      obtain ⟨c1, c2, c3⟩ := ihc hc
      refine ⟨?_, ?_, ?_⟩
      · intro d hd
        rcases List.mem_cons.1 hd with h' | h'
        · rw [h']; exact c1
        · exact d1 d h'
      · simp only [linkIds, List.map_cons] at d2 ⊢; rw [d2, c2.2.1, c2.2.2]
      · intro hf
        simp only [Bool.or_eq_false_iff] at hf
        rw [c3 hf.1, d3 hf.2]


theorem cleanup_ok (re mg : Bool) (next : Nat) (t : T) (h : Coherent t) : LocOk t (cleanupLoc re mg next t) := by
  unfold cleanupLoc
  split
  · exact locOk_err t _ next h
  · obtain ⟨c1, c2, c3⟩ := (cleanup_spec re mg).1 t h
    cases hf : (cleanupT re mg t).2 with
    | true => exact ⟨c1, c2, by simp [okLoc, hf, UpdOk]⟩
    | false =>
      refine ⟨c1, c2, ?_⟩
      simp only [okLoc, hf, Bool.false_eq_true, if_false, UpdOk]
      rw [c3 hf]

/-! ### roll_constant_waveforms -/

theorem smallestFactorGe_dvd (n m : Nat) : smallestFactorGe n m ∣ n := by
  unfold smallestFactorGe
  cases hh : ((List.range (n + 1)).filter (fun f => m ≤ f && n % f == 0)).head? with
  | none => exact Nat.dvd_refl n
  | some f =>
    have hm := List.mem_of_mem_head? (by rw [hh]; exact rfl : f ∈ _)
    have := (List.mem_filter.1 hm).2
    simp only [Bool.and_eq_true, decide_eq_true_eq, beq_iff_eq] at this
    exact Nat.dvd_of_mod_eq_zero this.2

theorem rollLeaf_spec (minq quantum : Nat) (sr : Rat) (hsr : 0 < sr) (i : Info) (w : Wf)
    (hw : i.wf = some w) :
    (rollLeaf minq quantum sr i w).uid = i.uid ∧ (rollLeaf minq quantum sr i w).pidx = i.pidx ∧
    (rollLeaf minq quantum sr i w).par = i.par ∧
    (rollLeaf minq quantum sr i w = i ∨
      ((rollLeaf minq quantum sr i w).cache = none ∧
        leafDur (rollLeaf minq quantum sr i w).wf * ((rollLeaf minq quantum sr i w).rep : Rat) =
          leafDur i.wf * (i.rep : Rat))) := by
  unfold rollLeaf
  simp only
  generalize hwq : (w.dur * sr / (quantum : Rat)).floor = wq
  split
  · exact ⟨rfl, rfl, rfl, Or.inl rfl⟩
  · rename_i hdiv
    split
    · exact ⟨rfl, rfl, rfl, Or.inl rfl⟩
    · rename_i hbig
      split
      · exact ⟨rfl, rfl, rfl, Or.inl rfl⟩
      · split
        · exact ⟨rfl, rfl, rfl, Or.inl rfl⟩
        · refine ⟨rfl, rfl, rfl, Or.inr ⟨rfl, ?_⟩⟩
          simp only [leafDur, hw]
          have hdiv' : w.dur * sr = (wq : Rat) * (quantum : Rat) := Classical.not_not.1 hdiv
          have hwq0 : 0 ≤ wq := by omega
          have hdvd : ((smallestFactorGe wq.toNat minq : Nat) : Int) ∣ wq := by
            have := smallestFactorGe_dvd wq.toNat minq
            have h2 : ((smallestFactorGe wq.toNat minq : Nat) : Int) ∣ ((wq.toNat : Nat) : Int) := Int.natCast_dvd_natCast.2 this
            rwa [Int.toNat_of_nonneg hwq0] at h2
          have hk : ((smallestFactorGe wq.toNat minq : Nat) : Int) * (wq / ((smallestFactorGe wq.toNat minq : Nat) : Int)) = wq :=
            Int.mul_ediv_cancel' hdvd
          generalize (smallestFactorGe wq.toNat minq) = nq at *
          generalize wq / (nq : Int) = k at *
          have hkr : (nq : Rat) * (k : Rat) = (wq : Rat) := by
            have := congrArg (fun z : Int => (z : Rat)) hk
            simp only [Rat.intCast_mul, Rat.intCast_natCast] at this
            exact this
          have hsr' : sr ≠ 0 := by intro h0; rw [h0] at hsr; exact absurd hsr (by decide)
          rw [Rat.intCast_mul]
          grind

theorem noMixedB_mk (i : Info) (ks : List T) :
    noMixedB (.mk i ks) = ((i.wf.isNone || ks.isEmpty) && noMixedB.noMixedLB ks) := by
  simp [noMixedB]

theorem roll_spec (minq quantum : Nat) (sr : Rat) (hsr : 0 < sr) :
    (∀ t, noMixedB t = true → Coherent t →
        Coherent (rollT minq quantum sr t) ∧ SameId t (rollT minq quantum sr t) ∧
        dur (rollT minq quantum sr t) = dur t) ∧
    (∀ ks, noMixedB.noMixedLB ks = true → (∀ d ∈ ks, Coherent d) →
        (∀ d ∈ rollL minq quantum sr ks, Coherent d) ∧ sumDur (rollL minq quantum sr ks) = sumDur ks ∧
        linkIds (rollL minq quantum sr ks) = linkIds ks ∧ (rollL minq quantum sr ks).length = ks.length) := by
  apply T.ind
  · intro i ks ih hm h
    rw [noMixedB_mk, Bool.and_eq_true] at hm
    obtain ⟨hm1, hm2⟩ := hm
    obtain ⟨k1, k2, k3, k4⟩ := ih hm2 h.kids
    rw [coherent_mk] at h
    obtain ⟨h1, h2, h3⟩ := h
    simp only [rollT]
    have e1 : ({ i with meas := [] } : Info).uid = i.uid := rfl
    have e2 : ({ i with meas := [] } : Info).wf = i.wf := rfl
    have e3 : ({ i with meas := [] } : Info).cache = i.cache := rfl
    have e4 : ({ i with meas := [] } : Info).pidx = i.pidx := rfl
    have e5 : ({ i with meas := [] } : Info).par = i.par := rfl
    have e6 : ({ i with meas := [] } : Info).rep = i.rep := rfl
    generalize ({ i with meas := [] } : Info) = i' at *
    cases hw0 : i.wf with
    | none =>
      have hw : i'.wf = none := by rw [e2, hw0]
      try simp only
      have hb : bodyDur (T.mk i' (rollL minq quantum sr ks)) = bodyDur (T.mk i ks) := by
        rw [bodyDur_mk, bodyDur_mk, isEmpty_of_length_eq k4, k2, e2]
      refine ⟨?_, ⟨e1, e4, e5⟩, by simp only [dur, hb, T.info_mk, e6]⟩
      rw [coherent_mk]
      refine ⟨?_, linksOkHere_congr e1 k3 h2, k1⟩
      unfold cacheOkHere at h1 ⊢; rw [hb]; simpa [e3] using h1
    | some w =>
      have hw : i'.wf = some w := by rw [e2, hw0]
      try simp only
      have hks : ks = [] := by
        rw [← e2, hw] at hm1; simpa using hm1
      subst hks
      obtain ⟨r1, r2, r3, r4⟩ := rollLeaf_spec minq quantum sr hsr i' w hw
      refine ⟨?_, ⟨by simp [r1, e1], by simp [r2, e4], by simp [r3, e5]⟩, ?_⟩
      · rcases r4 with r4 | r4
        · rw [r4]
          rw [coherent_mk]
          refine ⟨?_, by intro k c hk; simp at hk, by simp⟩
          unfold cacheOkHere at h1 ⊢
          have : bodyDur (T.mk i' []) = bodyDur (T.mk i []) := by simp [bodyDur_mk, e2]
          rw [this]; simpa [e3] using h1
        · exact coherent_of_links _ _ r4.1 (by intro k c hk; simp at hk) (by simp)
      · rcases r4 with r4 | r4
        · rw [r4]; simp [dur, bodyDur_mk, e2, e6]
        · simp only [dur, bodyDur_mk, List.isEmpty_nil, if_true, T.info_mk]
          rw [r4.2, e2, e6]
  · intro _ _; simp [rollL, linkIds]
  · intro c cs ihc ihcs hm h
    simp only [noMixedB.noMixedLB, Bool.and_eq_true] at hm
    obtain ⟨c1, c2, c3⟩ := ihc hm.1 (h c List.mem_cons_self)
    obtain ⟨d1, d2, d3, d4⟩ := ihcs hm.2 (fun d hd => h d (List.mem_cons_of_mem _ hd))
    simp only [rollL]
    refine ⟨?_, by simp [c3, d2], ?_, by simp [d4]⟩
    · intro d hd
      rcases List.mem_cons.1 hd with h' | h'
      · rw [h']; exact c1
      · exact d1 d h'
    · simp only [linkIds, List.map_cons] at d3 ⊢; rw [d3, c2.2.1, c2.2.2]

theorem roll_ok (minq quantum : Int) (sr : Rat) (next : Nat) (t : T) (h : Coherent t) :
    LocOk t (rollLoc minq quantum sr next t) := by
  unfold rollLoc
  split
  · exact locOk_err t _ next h
  · rename_i hc
    simp only [not_or, Rat.not_le, Bool.not_eq_false, Bool.not_eq_eq_eq_not, Bool.not_true] at hc
    obtain ⟨r1, r2, r3⟩ := (roll_spec minq.toNat quantum.toNat sr hc.2.2.1).1 t (by simpa using hc.2.2.2) h
    exact ⟨r1, r2, r3⟩

end QP.C09
