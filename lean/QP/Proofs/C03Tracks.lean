import QP.Proofs.C03Cons
/-!
# C03 helper lemmas, part 9: `build_waveform` / `_internal_create_program` track the visible entries
(structural induction over all templates)
-/
namespace QP.C03
open QP QP.PT

theorem visOutcome_needVis_nil (σ : Scope) : visOutcome (needVis σ []) = .ok () := rfl

theorem visOutcome_needVis_cons (σ : Scope) (e : Expr) (es : List Expr) :
    visOutcome (needVis σ (e :: es)) = needOutcome σ e >>= fun _ => visOutcome (needVis σ es) := by
  unfold needVis
  simp only [List.map_cons, visOutcome_cons, checkVis_need]

theorem needOutcome_noCV (σ : Scope) (e : Expr) : Avoid CV (needOutcome σ e) :=
  avoid_bind (eval_noCV σ e) (fun _ _ => avoid_pure _)

/-- all needed expressions evaluate if each of them does -/
theorem visOutcome_needVis_ok {σ : Scope} {es : List Expr} (h : ∀ e ∈ es, ∃ v, σ.eval e = .ok v) :
    visOutcome (needVis σ es) = .ok () := by
  induction es with
  | nil => rfl
  | cons e es ih =>
    rw [visOutcome_needVis_cons]
    obtain ⟨v, hv⟩ := h e (by simp)
    simp only [needOutcome, hv, ok_bind, pure_eq_ok]
    exact ih (fun e' he' => h e' (by simp [he']))

theorem tracks_of_ok_imp {α : Type} {r : Except Err α} {c : Except Err Unit} (hr : Avoid CV r)
    (h : ∀ a, r = .ok a → c = .ok ()) : Tracks r c :=
  ⟨h, fun h' => absurd rfl (avoid_iff.mp hr _ h')⟩

/-- instantiated table entries: every entry expression evaluated -/
theorem instEntries_ok {σ : Scope} {es : List TEntry} {ws : List WEntry} (h : instEntries σ es = .ok ws) :
    ∀ e ∈ es, (∃ v, σ.eval e.t = .ok v) ∧ (∃ v, σ.eval e.v = .ok v) := by
  intro e he
  obtain ⟨w, hw⟩ := mapM_ok_mem h e he
  obtain ⟨t, ht, hw⟩ := bind_ok.mp hw
  obtain ⟨v, hv, _⟩ := bind_ok.mp hw
  exact ⟨⟨t, ht⟩, ⟨v, hv⟩⟩

theorem tableInstantiate_ok {σ : Scope} {entries : List (Chan × List TEntry)} {r}
    (h : tableInstantiate σ entries = .ok r) : ∀ e ∈ tableExprs entries, ∃ v, σ.eval e = .ok v := by
  unfold tableInstantiate at h
  obtain ⟨inst, hinst, _⟩ := bind_ok.mp h
  intro e he
  unfold tableExprs at he
  obtain ⟨ce, hce, he⟩ := List.mem_flatMap.mp he
  obtain ⟨te, hte, he⟩ := List.mem_flatMap.mp he
  obtain ⟨x, hx⟩ := mapM_ok_mem hinst ce hce
  obtain ⟨ws, hws, _⟩ := bind_ok.mp hx
  have := instEntries_ok hws te hte
  simp only [List.mem_cons, List.not_mem_nil, or_false] at he
  rcases he with rfl | rfl
  · exact this.1
  · exact this.2

theorem mapValues_ok {σ σ' : Scope} {pm : List (String × Expr)} (h : mapValues pm σ = .ok σ') :
    ∀ e ∈ pm.map (·.2), ∃ v, σ.eval e = .ok v := by
  unfold mapValues at h
  obtain ⟨kv, hkv, _⟩ := bind_ok.mp h
  intro e he
  obtain ⟨ke, hke, rfl⟩ := List.mem_map.mp he
  obtain ⟨x, hx⟩ := mapM_ok_mem hkv ke hke
  obtain ⟨k, e⟩ := ke
  obtain ⟨v, hv, _⟩ := bind_ok.mp hx
  exact ⟨v, hv⟩

mutual
theorem bw_tracks : ∀ (pt : PT) (σ : Scope) (cm : List (Chan × Option Chan)),
    Tracks (buildWaveform pt σ cm) (visOutcome (visibleA pt σ))
  | .const id dur amps meas, σ, cm => by
      rw [visibleA]
      refine tracks_of_ok_imp (bw_const_avoid subSc_cv (good_cv _ σ) id dur amps meas cm (fun _ h => h)) (fun w h => ?_)
      rw [buildWaveform] at h
      obtain ⟨d, hd, _⟩ := bind_ok.mp h
      exact visOutcome_needVis_ok (fun e he => by simp at he; subst he; exact ⟨d, hd⟩)
  | .table id entries meas cons, σ, cm => by
      rw [visibleA, visOutcome_append, visOutcome_consVis, bw_table_factor]
      refine tracks_bind (tracks_self _) (fun _ _ => ?_)
      refine tracks_of_ok_imp (bw_table_avoid subSc_cv (good_cv _ σ) id entries meas [] cm (Or.inl rfl) (fun _ h => h))
        (fun w h => ?_)
      rw [buildWaveform] at h
      obtain ⟨_, _, h⟩ := bind_ok.mp h
      obtain ⟨inst, hinst, _⟩ := bind_ok.mp h
      exact visOutcome_needVis_ok (tableInstantiate_ok hinst)
  | .point id chans entries meas cons, σ, cm => by
      rw [visibleA, visOutcome_consVis, bw_point_factor]
      exact tracks_bind_last (tracks_self _) (fun _ _ =>
        bw_point_avoid subSc_cv (good_cv _ σ) id chans entries meas [] cm (Or.inl rfl) (fun _ h => h))
  | .func id ch dur e meas cons, σ, cm => by
      rw [visibleA, visOutcome_consVis, bw_func_factor]
      exact tracks_bind_last (tracks_self _) (fun _ _ =>
        bw_func_avoid' eclass_cv (good_cv (dur.vars ++ e.vars) σ) id ch dur e meas [] cm (Or.inl rfl)
          (fun x hx => by simp [hx]) (fun x hx _ => by simp [hx]) (fun x hx => by simp [consVars] at hx))
  | .seq .., _, _ => by rw [buildWaveform]; exact tracks_error (by simp) _
  | .rep .., _, _ => by rw [buildWaveform]; exact tracks_error (by simp) _
  | .forLoop .., _, _ => by rw [buildWaveform]; exact tracks_error (by simp) _
  | .mapping id body pm mm' cm' cons, σ, cm => by
      have hS : SubSc CV := subSc_cv
      rw [buildWaveform, mapParameterValues_eq, visibleA, visOutcome_append, visOutcome_append, visOutcome_append,
        visOutcome_consVis, visOutcome_keyVis]
      simp only [bind_assoc]
      refine tracks_bind (tracks_self _) (fun _ _ => ?_)
      refine tracks_bind (tracks_self _) (fun _ _ => ?_)
      cases hm : mapValues pm σ with
      | error e =>
        simp only [error_bind]
        exact tracks_error (fun hcv => avoid_iff.mp (avoid_mapValues subSc_cv (good_cv (kvVars pm) σ) (fun _ h => h)) _ hm hcv) _
      | ok σ' =>
        simp only [ok_bind, mappedDict_of_mapValues hm, visOutcome_needVis_ok (mapValues_ok hm)]
        refine tracks_step (clean_avoid hS (updatedCm_clean _ _)) (fun cmU _ => ?_)
        exact bw_tracks body σ' cmU
  | .parallel id body over, σ, cm => by
      have hS : SubSc CV := subSc_cv
      rw [buildWaveform, visibleA]
      refine tracks_bind_last (bw_tracks body σ cm) (fun inner _ => ?_)
      have ho : Avoid CV (overwrittenValues over σ cm) :=
        avoid_overwrittenValues hS (good_cv (kvVars over) σ) cm (fun _ h => h)
      avoid_auto
  | .atomicMulti id subs dur meas cons, σ, cm => by
      have hS : SubSc CV := subSc_cv
      rw [buildWaveform, visibleA, visOutcome_append, visOutcome_consVis]
      refine tracks_bind (tracks_self _) (fun _ _ => ?_)
      refine tracks_bind_last (bwl_tracks subs σ cm) (fun wfs _ => ?_)
      have hd : ∀ de, Avoid CV (σ.eval de) := fun de => eval_noCV σ de
      avoid_auto
      exact hd _
  | .arith id body op scalar ptIsLhs, σ, cm => by
      have hS : SubSc CV := subSc_cv
      rw [buildWaveform, visibleA]
      refine tracks_bind_last (bw_tracks body σ cm) (fun inner _ => ?_)
      have ha : Avoid CV (arithTransformation body.definedChannels op scalar ptIsLhs σ cm) :=
        avoid_arithTransformation eclass_cv (good_cv (scalarVars scalar) σ) _ op ptIsLhs cm (fun _ h => h)
      avoid_auto
  | .arithAtomic id lhs minus rhs meas, σ, cm => by
      have hS : SubSc CV := subSc_cv
      rw [buildWaveform, visibleA, visOutcome_append]
      refine tracks_bind (bw_tracks lhs σ cm) (fun l _ => ?_)
      refine tracks_bind_last (bw_tracks rhs σ cm) (fun r _ => ?_)
      avoid_auto
  | .timeReversal id body, σ, cm => by
      rw [buildWaveform, visibleA]
      exact tracks_bind_last (bw_tracks body σ cm) (fun inner _ => avoid_pure _)
theorem bwl_tracks : ∀ (ps : List PT) (σ : Scope) (cm : List (Chan × Option Chan)),
    Tracks (buildWaveformList ps σ cm) (visOutcome (visibleAList ps σ))
  | [], _, _ => by rw [buildWaveformList, visibleAList]; exact tracks_ok _
  | p :: ps, σ, cm => by
      rw [buildWaveformList, visibleAList, visOutcome_append]
      refine tracks_bind (bw_tracks p σ cm) (fun w _ => ?_)
      exact tracks_bind_last (bwl_tracks ps σ cm) (fun ws _ => avoid_pure _)
end

theorem atomItems_tracks (pt : PT) (σ : Scope) (mm cm trafo single) :
    Tracks (atomItems pt ⟨σ, mm, cm, trafo, single⟩) (visOutcome (visibleA pt σ)) := by
  have hS : SubSc CV := subSc_cv
  unfold atomItems
  dsimp only
  refine tracks_bind_last (bw_tracks pt σ cm) (fun w? hw => ?_)
  have hm := am_noCV pt σ cm mm w? hw
  avoid_auto

theorem wrapSingle_tracks {id : Option String} {ctx : Ctx} {k : Ctx → Except Err (List Item)} {c : Except Err Unit}
    (h1 : Tracks (k ctx) c) (h2 : Tracks (k { ctx with trafo := [] }) c) : Tracks (wrapSingle id ctx k) c := by
  have hS : SubSc CV := subSc_cv
  unfold wrapSingle
  split
  · split
    · refine tracks_bind_last h2 (fun items _ => ?_)
      avoid_auto
    · exact h1
  · exact h1

theorem tracks_flatMapM {α β : Type} {l : List α} {f : α → Except Err (List β)} {g : α → List Vis}
    (h : ∀ a ∈ l, Tracks (f a) (visOutcome (g a))) : Tracks (l.flatMapM f) (visOutcome (l.flatMap g)) := by
  induction l with
  | nil => simp only [List.flatMapM_nil, List.flatMap_nil]; exact tracks_ok _
  | cons a l ih =>
    simp only [List.flatMapM_cons, List.flatMap_cons, visOutcome_append]
    refine tracks_bind (h a (by simp)) (fun _ _ => ?_)
    exact tracks_bind_last (ih (fun b hb => h b (by simp [hb]))) (fun _ _ => avoid_pure _)

mutual
theorem int_tracks : ∀ (pt : PT) (σ : Scope) (mm : List (MName × Option MName)) (cm : List (Chan × Option Chan))
    (trafo : Chain) (single : List String),
    Tracks (internal pt ⟨σ, mm, cm, trafo, single⟩) (visOutcome (visible pt σ))
  | .const id dur amps meas, σ, mm, cm, trafo, single => by
      rw [internal, visible]; exact atomItems_tracks _ σ mm cm trafo single
  | .table id entries meas cons, σ, mm, cm, trafo, single => by
      rw [internal, visible]; exact atomItems_tracks _ σ mm cm trafo single
  | .point id chans entries meas cons, σ, mm, cm, trafo, single => by
      rw [internal, visible]; exact atomItems_tracks _ σ mm cm trafo single
  | .func id ch dur e meas cons, σ, mm, cm, trafo, single => by
      rw [internal, visible]; exact atomItems_tracks _ σ mm cm trafo single
  | .atomicMulti id subs dur meas cons, σ, mm, cm, trafo, single => by
      rw [internal, visible]; exact atomItems_tracks _ σ mm cm trafo single
  | .arithAtomic id lhs minus rhs meas, σ, mm, cm, trafo, single => by
      rw [internal, visible]; exact atomItems_tracks _ σ mm cm trafo single
  | .seq id subs meas cons, σ, mm, cm, trafo, single => by
      rw [internal, visible, visOutcome_append, visOutcome_consVis]
      dsimp only
      refine tracks_bind (tracks_self _) (fun _ _ => ?_)
      refine tracks_step (getMeas_noCV σ meas mm) (fun ms _ => ?_)
      exact tracks_bind_last (intl_tracks subs σ mm cm trafo single) (fun _ _ => avoid_pure _)
  | .rep id body count meas cons, σ, mm, cm, trafo, single => by
      rw [internal, visible, visOutcome_append, visOutcome_append, visOutcome_consVis, visOutcome_needVis_cons,
        visOutcome_needVis_nil]
      dsimp only
      simp only [bind_assoc, bind_unit_ok]
      refine tracks_bind (tracks_self _) (fun _ _ => ?_)
      refine tracks_need (fun c hc => ?_)
      simp only [hc]
      cases hn : checkedInt c with
      | none => exact tracks_error (by simp) _
      | some n =>
        dsimp only
        split
        · exact tracks_ok _
        · refine tracks_step (getMeas_noCV σ meas mm) (fun ms _ => ?_)
          refine tracks_bind_last (wrapSingle_tracks (int_tracks body σ mm cm trafo single)
            (int_tracks body σ mm cm [] single)) (fun _ _ => avoid_pure _)
  | .forLoop id body idx start stop step meas cons, σ, mm, cm, trafo, single => by
      rw [internal, visible, visOutcome_append, visOutcome_append, visOutcome_consVis, visOutcome_needVis_cons,
        visOutcome_needVis_cons, visOutcome_needVis_cons, visOutcome_needVis_nil]
      dsimp only
      simp only [bind_assoc, bind_unit_ok]
      refine tracks_bind (tracks_self _) (fun _ _ => ?_)
      refine tracks_need (fun a ha => ?_)
      simp only [intOrErr]
      cases hna : checkedInt a with
      | none => simp only [error_bind]; exact tracks_error (by simp) _
      | some na =>
        simp only [ok_bind]
        refine tracks_need (fun b hb => ?_)
        cases hnb : checkedInt b with
        | none => simp only [error_bind]; exact tracks_error (by simp) _
        | some nb =>
          simp only [ok_bind]
          refine tracks_need (fun s hs => ?_)
          cases hns : checkedInt s with
          | none => simp only [error_bind]; exact tracks_error (by simp) _
          | some ns =>
            simp only [ok_bind, ha, hb, hs, hna, hnb, hns]
            split
            · exact tracks_error (by simp) _
            · refine tracks_step (getMeas_noCV σ meas mm) (fun ms _ => ?_)
              refine tracks_bind_last (tracks_flatMapM (fun i _ => ?_)) (fun _ _ => avoid_pure _)
              exact wrapSingle_tracks (int_tracks body _ mm cm trafo single) (int_tracks body _ mm cm [] single)
  | .mapping id body pm mm' cm' cons, σ, mm, cm, trafo, single => by
      have hS : SubSc CV := subSc_cv
      rw [internal, visible, visOutcome_append, visOutcome_consVis]
      dsimp only
      refine tracks_bind (tracks_self _) (fun _ _ => ?_)
      refine tracks_step (clean_avoid hS (updatedMm_clean _ _)) (fun mmU _ => ?_)
      refine tracks_step (clean_avoid hS (updatedCm_clean _ _)) (fun cmU _ => ?_)
      exact wrapSingle_tracks (int_tracks body _ mmU cmU trafo single) (int_tracks body _ mmU cmU [] single)
  | .parallel id body over, σ, mm, cm, trafo, single => by
      have hS : SubSc CV := subSc_cv
      rw [internal, visible]
      dsimp only
      refine tracks_step (avoid_overwrittenValues hS (good_cv (kvVars over) σ) cm (fun _ h => h)) (fun ov _ => ?_)
      exact wrapSingle_tracks (int_tracks body σ mm cm _ single) (int_tracks body σ mm cm [] single)
  | .arith id body op scalar ptIsLhs, σ, mm, cm, trafo, single => by
      rw [internal, visible]
      dsimp only
      refine tracks_step (avoid_arithTransformation eclass_cv (good_cv (scalarVars scalar) σ) _ op ptIsLhs cm
        (fun _ h => h)) (fun T _ => ?_)
      exact wrapSingle_tracks (int_tracks body σ mm cm _ single) (int_tracks body σ mm cm [] single)
  | .timeReversal id body, σ, mm, cm, trafo, single => by
      have hS : SubSc CV := subSc_cv
      rw [internal, visible]
      refine tracks_bind_last (int_tracks body σ mm cm trafo single) (fun items _ => ?_)
      avoid_auto
theorem intl_tracks : ∀ (ps : List PT) (σ : Scope) (mm : List (MName × Option MName)) (cm : List (Chan × Option Chan))
    (trafo : Chain) (single : List String),
    Tracks (internalList ps ⟨σ, mm, cm, trafo, single⟩) (visOutcome (visibleList ps σ))
  | [], _, _, _, _, _ => by rw [internalList, visibleList]; exact tracks_ok _
  | p :: ps, σ, mm, cm, trafo, single => by
      rw [internalList, visibleList, visOutcome_append]
      refine tracks_bind (wrapSingle_tracks (int_tracks p σ mm cm trafo single) (int_tracks p σ mm cm [] single))
        (fun _ _ => ?_)
      exact tracks_bind_last (intl_tracks ps σ mm cm trafo single) (fun _ _ => avoid_pure _)
end

theorem mem_visibleConstraints {pt : PT} {σ : Scope} {se : Scope × Expr} :
    se ∈ visibleConstraints pt σ ↔
      ∃ v ∈ visible pt σ, v.key = none ∧ v.isCons = true ∧ (v.scope, v.expr) = se := by
  unfold visibleConstraints consOf
  simp only [List.mem_map, List.mem_filter, Vis.isConstraint, Bool.and_eq_true, Option.isNone_iff_eq_none]
  constructor
  · rintro ⟨v, ⟨hv, hc, hk⟩, rfl⟩; exact ⟨v, hv, hk, hc, rfl⟩
  · rintro ⟨v, hv, hk, hc, rfl⟩; exact ⟨v, ⟨hv, hc, hk⟩, rfl⟩

/-! ### the judge entry by entry -/

theorem checkVis_ok_iff (v : Vis) : checkVis v = .ok () ↔ v.Fine := by
  unfold checkVis Vis.Fine
  split
  · unfold presentKey
    split
    · rename_i h; simpa using h
    · rename_i h; simpa using h
  · constructor
    · intro h
      obtain ⟨x, hx, h⟩ := bind_ok.mp h
      refine ⟨x, hx, fun hc hx0 => ?_⟩
      simp [hc, hx0] at h
    · rintro ⟨x, hx, hc⟩
      rw [hx]
      simp only [ok_bind]
      split
      · rename_i hbad
        exact absurd hbad.2 (hc hbad.1)
      · rfl

theorem checkVis_cv_iff (v : Vis) :
    checkVis v = .error .constraintViolation ↔
      v.key = none ∧ v.isCons = true ∧ v.scope.eval v.expr = .ok 0 := by
  unfold checkVis
  split
  · rename_i x hk
    constructor
    · intro h
      exact absurd rfl (avoid_iff.mp (presence_noCV [x] v.scope) _ (by
        unfold presence
        simp only [List.forM_cons, List.forM_nil, h]
        rfl))
    · rintro ⟨h, _⟩
      rw [h] at hk
      cases hk
  · rename_i hk
    constructor
    · intro h
      rcases bind_err.mp h with h | ⟨x, hx, h⟩
      · exact absurd rfl (avoid_iff.mp (eval_noCV v.scope v.expr) _ h)
      · split at h
        · rename_i hc
          exact ⟨hk, hc.1, by rw [hx, hc.2]⟩
        · cases h
    · rintro ⟨_, hc, hv⟩
      rw [hv]
      simp [hc]

theorem checkVis_noCV_of_not_constraint {v : Vis} (h : v.isConstraint = false) : Avoid CV (checkVis v) := by
  refine avoid_iff.mpr (fun e he hcv => ?_)
  cases hcv
  obtain ⟨hk, hc, _⟩ := (checkVis_cv_iff v).mp he
  simp [Vis.isConstraint, hk, hc] at h

theorem checkVis_of_constraint {v : Vis} (h : v.isConstraint = true) : checkVis v = checkOne (v.scope, v.expr) := by
  simp only [Vis.isConstraint, Bool.and_eq_true, Option.isNone_iff_eq_none] at h
  unfold checkVis checkOne
  rw [h.2]
  simp [h.1]

end QP.C03
