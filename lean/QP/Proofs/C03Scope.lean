import QP.Proofs.C03Basic
/-!
# C03 helper lemmas, part 2: scopes

* `Scope.forceExcept` — `forceAll` generalised by a set of shadowed keys, the form that is stable under
  `MappedScope` / `RangeScope` construction.
* `Good E N σ` — unary invariant: looking up any name of `N` and iterating the scope never fails with an error
  of class `E`.
* `Rel N σ σ'` — binary invariant: both scopes answer equally on `N` and iterating them gives the same outcome.
-/
namespace QP.C03
open QP QP.PT

def voidR (x : Except Err Rat) : Except Err Unit := x >>= fun _ => pure ()

/-- iterate the scope, keys in `g` are known to be fine -/
def Scope.forceExcept (g : String → Bool) (σ : Scope) : Except Err Unit :=
  forM σ.keys (fun k => if g k then pure () else voidR (σ.look k))

theorem forceAll_eq (σ : Scope) : σ.forceAll = Scope.forceExcept (fun _ => false) σ := by
  unfold Scope.forceAll Scope.forceExcept voidR
  simp

theorem voidR_ok {x : Except Err Rat} {v : Rat} (h : x = .ok v) : voidR x = .ok () := by
  subst h; rfl

theorem avoid_voidR {E : Err → Prop} {x : Except Err Rat} (h : Avoid E x) : Avoid E (voidR x) :=
  avoid_bind h (fun _ _ => avoid_pure _)

theorem lookup_mem {α : Type} {m : List (String × α)} {k : String} {e : α} (h : m.lookup k = some e) : (k, e) ∈ m := by
  induction m with
  | nil => simp at h
  | cons p m ih =>
    obtain ⟨k', e'⟩ := p
    simp only [List.lookup_cons] at h
    by_cases hk : k = k'
    · subst hk
      simp at h
      subst h
      simp
    · have : (k == k') = false := by simpa using hk
      rw [this] at h
      exact List.mem_cons_of_mem _ (ih h)

theorem lookup_isSome_of_mem_keys {α : Type} {m : List (String × α)} {k : String} (h : k ∈ m.map (·.1)) :
    ∃ e, m.lookup k = some e := by
  induction m with
  | nil => simp at h
  | cons p m ih =>
    obtain ⟨k', e'⟩ := p
    simp only [List.lookup_cons]
    by_cases hk : k = k'
    · subst hk; exact ⟨e', by simp⟩
    · have hb : (k == k') = false := by simpa using hk
      rw [hb]
      simp only [List.map_cons, List.mem_cons] at h
      rcases h with h | h
      · exact absurd h hk
      · exact ih h

theorem lookup_none_of_not_mem_keys {α : Type} {m : List (String × α)} {k : String} (h : k ∉ m.map (·.1)) :
    m.lookup k = none := by
  induction m with
  | nil => rfl
  | cons p m ih =>
    obtain ⟨k', e'⟩ := p
    simp only [List.map_cons, List.mem_cons, not_or] at h
    simp only [List.lookup_cons]
    have hb : (k == k') = false := by simpa using h.1
    rw [hb]
    exact ih h.2

theorem kvVars_mem {m : List (String × Expr)} {k : String} {e : Expr} (h : (k, e) ∈ m) {x : String} (hx : x ∈ e.vars) :
    x ∈ kvVars m := by
  unfold kvVars
  exact List.mem_flatMap.mpr ⟨(k, e), h, hx⟩

/-! ## looking up never produces a constraint violation -/

theorem look_dict_key {kv : List (String × Rat)} {k : String} (h : k ∈ kv.map (·.1)) :
    ∃ v, (Scope.dict kv).look k = .ok v := by
  obtain ⟨v, hv⟩ := lookup_isSome_of_mem_keys h
  exact ⟨v, by simp [Scope.look, hv]⟩

theorem look_noCV : ∀ (σ : Scope) (x : String), Avoid (fun e => e = .constraintViolation) (σ.look x)
  | .dict kv, x => by
      unfold Scope.look
      split
      · exact avoid_ok _
      · exact avoid_error (by simp)
  | .mapped inner m, x => by
      unfold Scope.look
      split
      · exact avoid_eval subSc_cv _ (fun y _ => look_noCV inner y)
      · exact look_noCV inner x
  | .range inner idx v, x => by
      unfold Scope.look
      split
      · exact avoid_ok _
      · exact look_noCV inner x

/-! ## the unary invariant -/

structure Good (E : Err → Prop) (N : List String) (σ : Scope) : Prop where
  look : ∀ x ∈ N, Avoid E (σ.look x)
  force : ∀ g, Avoid E (Scope.forceExcept g σ)
  /-- the names are keys of the scope (only matters if `E` contains `parameterMissing`) -/
  keys : E .parameterMissing → ∀ x ∈ N, x ∈ σ.keys

theorem Good.mono {E : Err → Prop} {N N' : List String} {σ : Scope} (h : Good E N σ) (hN : ∀ x ∈ N', x ∈ N) :
    Good E N' σ := ⟨fun x hx => h.look x (hN x hx), h.force, fun hE x hx => h.keys hE x (hN x hx)⟩

theorem Good.forceAll {E : Err → Prop} {N : List String} {σ : Scope} (h : Good E N σ) : Avoid E σ.forceAll := by
  rw [forceAll_eq]; exact h.force _

theorem Good.eval {E : Err → Prop} (hE : SubSc E) {N : List String} {σ : Scope} (h : Good E N σ) {e : Expr}
    (he : ∀ x ∈ e.vars, x ∈ N) : Avoid E (σ.eval e) :=
  avoid_eval hE e (fun x hx => h.look x (he x hx))

theorem good_dict {E : Err → Prop} {N : List String} {kv : List (String × Rat)}
    (h : ∀ x ∈ N, x ∈ kv.map (·.1)) : Good E N (.dict kv) := by
  constructor
  · intro x hx
    obtain ⟨v, hv⟩ := look_dict_key (h x hx)
    rw [hv]; exact avoid_ok _
  · intro g
    unfold Scope.forceExcept
    apply avoid_forM
    intro k hk
    split
    · exact avoid_pure _
    · obtain ⟨v, hv⟩ := look_dict_key (kv := kv) (by simpa [Scope.keys] using hk)
      rw [hv]; exact avoid_ok _
  · intro _ x hx
    exact h x hx

theorem good_range {E : Err → Prop} {N N' : List String} {σ : Scope} {idx : String} {v : Rat}
    (h : Good E N σ) (hN : ∀ x ∈ N', x ≠ idx → x ∈ N) : Good E N' (.range σ idx v) := by
  constructor
  · intro x hx
    unfold Scope.look
    split
    · exact avoid_ok _
    · rename_i hne
      exact h.look x (hN x hx hne)
  · intro g
    have key : Scope.forceExcept g (.range σ idx v) = Scope.forceExcept (fun k => g k || k == idx) σ := by
      unfold Scope.forceExcept
      simp only [Scope.keys, List.forM_cons]
      have h1 : (if g idx = true then (pure () : Except Err Unit) else voidR ((Scope.range σ idx v).look idx)) = .ok () := by
        split
        · rfl
        · simp [Scope.look, voidR]
      rw [h1]
      simp only [ok_bind]
      apply forM_congr'
      intro k _
      by_cases hg : g k = true
      · simp [hg]
      · by_cases hk : k = idx
        · subst hk
          simp [hg, Scope.look, voidR]
        · simp [hg, hk, Scope.look]
    rw [key]
    exact h.force _
  · intro hE x hx
    by_cases hne : x = idx
    · simp [Scope.keys, hne]
    · simp [Scope.keys, h.keys hE x (hN x hx hne)]

/-- iterating a mapped scope: first the mapped names, then the inner scope with the mapped names shadowed -/
theorem forceExcept_mapped (g : String → Bool) (σ : Scope) (m : List (String × Expr)) :
    Scope.forceExcept g (.mapped σ m) =
      (forM (m.map (·.1)) (fun k => if g k then pure () else voidR ((Scope.mapped σ m).look k))) >>= fun _ =>
        Scope.forceExcept (fun k => g k || (m.lookup k).isSome) σ := by
  unfold Scope.forceExcept
  simp only [Scope.keys, List.forM_append]
  cases hfirst : forM (m.map (·.1)) (fun k => if g k then pure () else voidR ((Scope.mapped σ m).look k)) with
  | error e => rfl
  | ok u =>
    simp only [ok_bind]
    apply forM_congr'
    intro k _
    by_cases hg : g k = true
    · simp [hg]
    · have hlk : ∀ o, m.lookup k = o →
          (if g k = true then (pure () : Except Err Unit) else voidR ((Scope.mapped σ m).look k)) =
            if (g k || o.isSome) = true then pure () else voidR (σ.look k) := by
        intro o ho
        cases o with
        | none => simp [hg, ho, Scope.look]
        | some e =>
          have hk : k ∈ m.map (·.1) := List.mem_map.mpr ⟨(k, e), lookup_mem ho, rfl⟩
          have := forM_ok_mem hfirst k hk
          simp only [hg] at this
          simp [hg]
          simpa using this
      exact hlk _ rfl

theorem good_mapped {E : Err → Prop} (hE : SubSc E) {N N' : List String} {σ : Scope} {m : List (String × Expr)}
    (h : Good E N σ) (hm : ∀ x ∈ kvVars m, x ∈ N) (hN : ∀ x ∈ N', x ∈ m.map (·.1) ∨ x ∈ N) :
    Good E N' (.mapped σ m) := by
  have hlookm : ∀ k, k ∈ m.map (·.1) → Avoid E ((Scope.mapped σ m).look k) := by
    intro k hk
    obtain ⟨e, he⟩ := lookup_isSome_of_mem_keys hk
    simp only [Scope.look, he]
    exact avoid_eval hE e (fun x hx => h.look x (hm x (kvVars_mem (lookup_mem he) hx)))
  constructor
  · intro x hx
    by_cases hk : x ∈ m.map (·.1)
    · exact hlookm x hk
    · simp only [Scope.look, lookup_none_of_not_mem_keys hk]
      rcases hN x hx with h' | h'
      · exact absurd h' hk
      · exact h.look x h'
  · intro g
    rw [forceExcept_mapped]
    refine avoid_bind ?_ (fun _ _ => h.force _)
    apply avoid_forM
    intro k hk
    split
    · exact avoid_pure _
    · exact avoid_voidR (hlookm k hk)
  · intro hE x hx
    simp only [Scope.keys, List.mem_append]
    rcases hN x hx with h' | h'
    · exact Or.inl h'
    · exact Or.inr (h.keys hE x h')

/-! ## the binary invariant -/

structure Rel (N : List String) (σ σ' : Scope) : Prop where
  look : ∀ x ∈ N, σ.look x = σ'.look x
  force : ∀ g, Scope.forceExcept g σ = Scope.forceExcept g σ'
  keys : ∀ x ∈ N, (x ∈ σ.keys ↔ x ∈ σ'.keys)

theorem Rel.mono {N N' : List String} {σ σ' : Scope} (h : Rel N σ σ') (hN : ∀ x ∈ N', x ∈ N) : Rel N' σ σ' :=
  ⟨fun x hx => h.look x (hN x hx), h.force, fun x hx => h.keys x (hN x hx)⟩

theorem Rel.forceAll {N : List String} {σ σ' : Scope} (h : Rel N σ σ') : σ.forceAll = σ'.forceAll := by
  rw [forceAll_eq, forceAll_eq]; exact h.force _

theorem Rel.eval {N : List String} {σ σ' : Scope} (h : Rel N σ σ') {e : Expr} (he : ∀ x ∈ e.vars, x ∈ N) :
    σ.eval e = σ'.eval e :=
  eval_congr e (fun x hx => h.look x (he x hx))

theorem rel_refl (N : List String) (σ : Scope) : Rel N σ σ := ⟨fun _ _ => rfl, fun _ => rfl, fun _ _ => Iff.rfl⟩

theorem forceExcept_dict (g : String → Bool) (kv : List (String × Rat)) : Scope.forceExcept g (.dict kv) = .ok () := by
  unfold Scope.forceExcept
  apply forM_ok_of_mem
  intro k hk
  split
  · rfl
  · obtain ⟨v, hv⟩ := look_dict_key (kv := kv) (by simpa [Scope.keys] using hk)
    rw [hv]; rfl

theorem contains_keys_eq_lookup {α : Type} (m : List (String × α)) (x : String) :
    (m.map (·.1)).contains x = (m.lookup x).isSome := by
  induction m with
  | nil => rfl
  | cons p m ih =>
    obtain ⟨k, v⟩ := p
    simp only [List.map_cons, List.contains_cons, List.lookup_cons, ih]
    by_cases hk : x = k
    · subst hk; simp
    · have : (x == k) = false := by simpa using hk
      simp [this]

theorem rel_dict {N : List String} {kv kv' : List (String × Rat)} (h : ∀ x ∈ N, kv.lookup x = kv'.lookup x) :
    Rel N (.dict kv) (.dict kv') := by
  constructor
  · intro x hx
    simp only [Scope.look, h x hx]
  · intro g
    rw [forceExcept_dict, forceExcept_dict]
  · intro x hx
    have h1 := contains_keys_eq_lookup kv x
    have h2 := contains_keys_eq_lookup kv' x
    rw [h x hx] at h1
    simp only [Scope.keys]
    rw [← List.contains_iff_mem, ← List.contains_iff_mem, h1, h2]

theorem rel_range {N N' : List String} {σ σ' : Scope} {idx : String} {v : Rat}
    (h : Rel N σ σ') (hN : ∀ x ∈ N', x ≠ idx → x ∈ N) : Rel N' (.range σ idx v) (.range σ' idx v) := by
  have key : ∀ (τ : Scope) g, Scope.forceExcept g (.range τ idx v) = Scope.forceExcept (fun k => g k || k == idx) τ := by
    intro τ g
    unfold Scope.forceExcept
    simp only [Scope.keys, List.forM_cons]
    have h1 : (if g idx = true then (pure () : Except Err Unit) else voidR ((Scope.range τ idx v).look idx)) = .ok () := by
      split
      · rfl
      · simp [Scope.look, voidR]
    rw [h1]
    simp only [ok_bind]
    apply forM_congr'
    intro k _
    by_cases hg : g k = true
    · simp [hg]
    · by_cases hk : k = idx
      · subst hk
        simp [hg, Scope.look, voidR]
      · simp [hg, hk, Scope.look]
  constructor
  · intro x hx
    unfold Scope.look
    split
    · rfl
    · rename_i hne
      exact h.look x (hN x hx hne)
  · intro g
    rw [key, key]
    exact h.force _
  · intro x hx
    by_cases hne : x = idx
    · simp [Scope.keys, hne]
    · simp only [Scope.keys, List.mem_cons, hne, false_or]
      exact h.keys x (hN x hx hne)

theorem rel_mapped {N N' : List String} {σ σ' : Scope} {m : List (String × Expr)}
    (h : Rel N σ σ') (hm : ∀ x ∈ kvVars m, x ∈ N) (hN : ∀ x ∈ N', x ∈ m.map (·.1) ∨ x ∈ N) :
    Rel N' (.mapped σ m) (.mapped σ' m) := by
  have hlookm : ∀ k, k ∈ m.map (·.1) → (Scope.mapped σ m).look k = (Scope.mapped σ' m).look k := by
    intro k hk
    obtain ⟨e, he⟩ := lookup_isSome_of_mem_keys hk
    simp only [Scope.look, he]
    exact eval_congr e (fun x hx => h.look x (hm x (kvVars_mem (lookup_mem he) hx)))
  constructor
  · intro x hx
    by_cases hk : x ∈ m.map (·.1)
    · exact hlookm x hk
    · simp only [Scope.look, lookup_none_of_not_mem_keys hk]
      rcases hN x hx with h' | h'
      · exact absurd h' hk
      · exact h.look x h'
  · intro g
    rw [forceExcept_mapped, forceExcept_mapped]
    refine bind_congr' ?_ (fun _ _ => h.force _)
    apply forM_congr'
    intro k hk
    rw [hlookm k hk]
  · intro x hx
    simp only [Scope.keys, List.mem_append]
    rcases hN x hx with h' | h'
    · simp [h']
    · rw [h.keys x h']

end QP.C03
