import QP.Proofs.C10Fill
/-! C10: the decoder applied to the document of a well-formed node rebuilds the node, provided the
store holds the documents of its named descendants. -/
namespace QP.C10
set_option linter.unusedSimpArgs false
set_option linter.unusedVariables false

/-! ### facts about the fourteen classes (checked by evaluation) -/

theorem ofTypeName_typeName (cls : Cls) : Cls.ofTypeName cls.typeName = some cls := by
  cases cls <;> decide
theorem typeName_ne_reference (cls : Cls) : cls.typeName ≠ "reference" := by
  cases cls <;> decide
theorem schema_keys_nodup (cls : Cls) : (specKeys (schema cls)).Nodup := by
  cases cls <;> decide
theorem schema_keys_plain (cls : Cls) :
    ∀ k ∈ specKeys (schema cls), k ≠ typeKey ∧ k ≠ idKey ∧ k ≠ "#amplitudes" := by
  cases cls <;> decide
theorem idKey_ne_typeKey : idKey ≠ typeKey := by decide

theorem find_spec_of_mem : ∀ (sps : List Spec), (specKeys sps).Nodup → ∀ sp ∈ sps,
    sps.find? (fun s => s.key = sp.key) = some sp
  | [], _, sp, h => by simp at h
  | s :: sps, hn, sp, h => by
    simp only [specKeys, List.map_cons, List.nodup_cons] at hn
    rcases List.mem_cons.mp h with e | e
    · subst e; simp [List.find?]
    · have hne : s.key ≠ sp.key := by
        intro e'; apply hn.1; rw [e']; exact List.mem_map.mpr ⟨sp, e, rfl⟩
      simp only [List.find?, hne, decide_false]
      exact find_spec_of_mem sps hn.2 sp e

theorem kindOf_mem {cls : Cls} {sp : Spec} (h : sp ∈ schema cls) : kindOf cls sp.key = some sp.kind := by
  unfold kindOf
  rw [find_spec_of_mem (schema cls) (schema_keys_nodup cls) sp h]; rfl

theorem emitted_ok (cls : Cls) : EmOk (emitted cls) (schema cls) := by
  intro sp hsp it hk hem
  cases it with
  | data k j =>
    have hk' : k = sp.key := hk
    subst hk'
    simp only [emitted, kindOf_mem hsp] at hem
    cases hkind : sp.kind with
    | omitDefault d =>
      simp only [hkind, decide_eq_false_iff_not, Decidable.not_not, ne_eq] at hem
      exact ⟨d, rfl, by rw [hem]⟩
    | req => simp [hkind] at hem
    | dflt d => simp [hkind] at hem
    | absent => simp [hkind] at hem
  | child k t => simp [emitted] at hem
  | children k ts => simp [emitted] at hem

/-! ### documents -/

def KeysOk (kvs : List (String × J)) : Prop := ∀ kv ∈ kvs, kv.1 ≠ typeKey ∧ kv.1 ≠ idKey

theorem lookup_none_of_keysOk_type {kvs : List (String × J)} (h : KeysOk kvs) : lookup typeKey kvs = none := by
  rw [lookup_eq_none_iff]; intro hm
  obtain ⟨kv, hkv, e⟩ := List.mem_map.mp hm
  exact (h kv hkv).1 e

theorem lookup_none_of_keysOk_id {kvs : List (String × J)} (h : KeysOk kvs) : lookup idKey kvs = none := by
  rw [lookup_eq_none_iff]; intro hm
  obtain ⟨kv, hkv, e⟩ := List.mem_map.mp hm
  exact (h kv hkv).2 e

theorem lookup_type_hdr (cls : Cls) (id : Option Id) (kvs : List (String × J)) :
    lookup typeKey (hdr cls id ++ kvs) = some (.str cls.typeName) := by
  cases id with
  | none => simp [hdr, lookup_cons]
  | some i => simp [hdr, lookup_cons, idKey_ne_typeKey]

theorem idOf_hdr (cls : Cls) (id : Option Id) {kvs : List (String × J)} (h : KeysOk kvs) :
    idOf (hdr cls id ++ kvs) = id := by
  cases id with
  | none =>
    have : lookup idKey (hdr cls none ++ kvs) = none := by
      simp [hdr, lookup_cons, Ne.symm idKey_ne_typeKey, lookup_none_of_keysOk_id h]
    simp [idOf, this]
  | some i => simp [idOf, hdr, lookup_cons]

theorem stripHdr_hdr (cls : Cls) (id : Option Id) {kvs : List (String × J)} (h : KeysOk kvs) :
    stripHdr (hdr cls id ++ kvs) = kvs := by
  have hk : kvs.filter (fun kv => decide (kv.1 ≠ typeKey) && decide (kv.1 ≠ idKey)) = kvs := by
    apply List.filter_eq_self.mpr
    intro kv hkv; simp [(h kv hkv).1, (h kv hkv).2]
  cases id with
  | none => simp [stripHdr, hdr, List.filter_cons, hk]; exact fun a b hab => h (a, b) hab
  | some i => simp [stripHdr, hdr, List.filter_cons, hk]; exact fun a b hab => h (a, b) hab

theorem bodyItems_keys (cls : Cls) : ∀ (items : List Item), ∀ kv ∈ bodyItems cls items, kv.1 ∈ itemKeys items
  | [], kv, h => by simp [bodyItems] at h
  | .data k j :: rest, kv, h => by
    simp only [bodyItems] at h
    by_cases he : emitted cls (.data k j) = true
    · simp only [he, if_true, List.mem_cons] at h
      rcases h with e | e
      · subst e; simp [itemKeys, Item.key]
      · have := bodyItems_keys cls rest kv e
        simp only [itemKeys, List.map_cons, List.mem_cons]; exact Or.inr this
    · simp only [he, if_false] at h
      have := bodyItems_keys cls rest kv h
      simp only [itemKeys, List.map_cons, List.mem_cons]; exact Or.inr this
  | .child k t :: rest, kv, h => by
    simp only [bodyItems, List.mem_cons] at h
    rcases h with e | e
    · subst e; simp [itemKeys, Item.key]
    · have := bodyItems_keys cls rest kv e
      simp only [itemKeys, List.map_cons, List.mem_cons]; exact Or.inr this
  | .children k ts :: rest, kv, h => by
    simp only [bodyItems, List.mem_cons] at h
    rcases h with e | e
    · subst e; simp [itemKeys, Item.key]
    · have := bodyItems_keys cls rest kv e
      simp only [itemKeys, List.map_cons, List.mem_cons]; exact Or.inr this

theorem bodyItems_keysOk {cls : Cls} {items : List Item} (hal : alignedB (schema cls) items = true) :
    KeysOk (bodyItems cls items) := by
  intro kv hkv
  obtain ⟨it, hit, e⟩ := List.mem_map.mp (bodyItems_keys cls items kv hkv)
  have := schema_keys_plain cls _ (aligned_keys_subset _ _ hal it hit)
  rw [e] at this
  exact ⟨this.1, this.2.1⟩

/-! ### the decoder, one step -/

theorem decT_ref {f : Nat} {s : Store} {i : Id} {d : J} (h : lookup i s = some d) :
    decT (f + 1) s (ref i) = decT f s d := by
  unfold ref
  simp only [decT]
  simp [lookup_cons, idKey_ne_typeKey, h]

theorem decT_node (f : Nat) (s : Store) (cls : Cls) (id : Option Id) {kvs : List (String × J)} (h : KeysOk kvs) :
    decT (f + 1) s (.obj (hdr cls id ++ kvs)) =
      (mapMExcept (decValue (decT f s)) kvs).bind (construct cls id) := by
  simp only [decT, lookup_type_hdr]
  simp only [typeName_ne_reference, if_false, ofTypeName_typeName, stripHdr_hdr cls id h, idOf_hdr cls id h]
  rfl

/-! ### class level: constructing from what was written -/

theorem legacy_id (cls : Cls) (kw : List Item) (h : ∀ it ∈ kw, it.key ≠ "#amplitudes") : legacy cls kw = kw := by
  unfold legacy
  cases cls <;> try rfl
  show List.map _ kw = kw
  conv => rhs; rw [← List.map_id kw]
  apply List.map_congr_left
  intro it hit
  have := h it hit
  split
  · exact absurd rfl this
  · rfl

theorem ctorCheck_of_ok {cls : Cls} {items : List Item} (h : ctorOk cls items = true) :
    ctorCheck cls items = .ok () := by
  unfold ctorOk at h
  cases hc : ctorCheck cls items with
  | ok u => rfl
  | error e => simp [hc] at h

theorem construct_filter (cls : Cls) (id : Option Id) (items : List Item)
    (hal : alignedB (schema cls) items = true) (hc : ctorOk cls items = true) :
    construct cls id (items.filter (emitted cls)) = .ok (.node cls id items) := by
  have hkeys : ∀ it ∈ items.filter (emitted cls), it.key ∈ specKeys (schema cls) :=
    fun it hit => aligned_keys_subset _ _ hal it (List.mem_filter.mp hit).1
  have hleg : legacy cls (items.filter (emitted cls)) = items.filter (emitted cls) :=
    legacy_id cls _ (fun it hit => (schema_keys_plain cls _ (hkeys it hit)).2.2)
  have hany : (items.filter (emitted cls)).any
      (fun it => !(schema cls).any (fun sp => decide (sp.key = it.key))) = false := by
    rw [List.any_eq_false]
    intro it hit
    obtain ⟨sp, hsp, e⟩ := List.mem_map.mp (hkeys it hit)
    have : (schema cls).any (fun sp => decide (sp.key = it.key)) = true :=
      List.any_eq_true.mpr ⟨sp, hsp, by simp [e]⟩
    simp [this]
  have hfill := fill_filter (emitted cls) (schema cls) items (schema_keys_nodup cls) (emitted_ok cls) hal
  unfold construct
  simp only [hleg, hany, hfill, ctorCheck_of_ok hc, Bool.false_eq_true, if_false, bind, Except.bind, pure,
    Except.pure]

end QP.C10
