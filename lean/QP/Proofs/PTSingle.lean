import QP.Model.PT
import QP.Proofs.PTTop3
import QP.Proofs.PTTop3W
import QP.Props.C05
/-! `to_single_waveform`: correctness of the default compilation (`single = []`) plus C05's invariance under
collapsing gives correctness for every `to_single_waveform` set. -/
namespace QP.PT
open QP.C05 (allLeaves allLeavesList tidy nonnegW itemsNodes rootOf)

mutual
theorem allLeaves_chan (c : Chan) : ∀ l : Loop,
    allLeaves (fun x => x.channels.contains c) l = l.leafChannels.all (fun cs => cs.contains c)
  | .mk _ none _ [] => by simp [allLeaves, Loop.leafChannels]
  | .mk _ (some w) _ [] => by simp [allLeaves, Loop.leafChannels]
  | .mk _ _ _ (x :: xs) => by
      simp only [allLeaves, Loop.leafChannels]
      exact allLeavesList_chan c (x :: xs)
theorem allLeavesList_chan (c : Chan) : ∀ ls : List Loop,
    allLeavesList (fun x => x.channels.contains c) ls = (Loop.leafChannelsList ls).all (fun cs => cs.contains c)
  | [] => by simp [allLeavesList, Loop.leafChannelsList]
  | x :: xs => by
      simp only [allLeavesList, Loop.leafChannelsList, List.all_append]
      rw [allLeaves_chan c x, allLeavesList_chan c xs]
end

mutual
theorem nonneg_of_allPos : ∀ l : Loop, l.allPosB = true → allLeaves nonnegW l = true
  | .mk _ none _ [], h => by simp [Loop.allPosB] at h
  | .mk _ (some w) _ [], h => by
      simp only [Loop.allPosB, Bool.and_eq_true, decide_eq_true_eq] at h
      simp only [allLeaves, nonnegW, decide_eq_true_eq]
      exact le_of_lt h.2
  | .mk _ _ _ (x :: xs), h => by
      simp only [Loop.allPosB, Bool.and_eq_true] at h
      simp only [allLeaves]
      exact nonnegList_of_allPos (x :: xs) h.2
theorem nonnegList_of_allPos : ∀ ls : List Loop, Loop.allPosListB ls = true → allLeavesList nonnegW ls = true
  | [], _ => by simp [allLeavesList]
  | x :: xs, h => by
      simp only [Loop.allPosListB, Bool.and_eq_true] at h
      simp only [allLeavesList, Bool.and_eq_true]
      exact ⟨nonneg_of_allPos x h.1, nonnegList_of_allPos xs h.2⟩
end

theorem allLeaves_rootOf (p : Wf → Bool) (I : List Item) (h : itemsNodes I ≠ []) :
    allLeaves p (rootOf I) = allLeavesList p (itemsNodes I) := by
  obtain ⟨x, xs, hx⟩ := List.exists_cons_of_ne_nil h
  simp only [rootOf, hx, allLeaves]

theorem toProgram_some {I : List Item} {prog : Loop} (h : toProgram I = some prog) :
    itemsNodes I ≠ [] ∧ prog = rootOf I := by
  rw [QP.C05.toProgram_eq] at h
  by_cases he : (itemsNodes I).isEmpty = true
  · simp [he] at h
  · simp only [he, Bool.false_eq_true, if_false, Option.some.injEq] at h
    exact ⟨by simpa using he, h.symm⟩

theorem topCtx_single {pt : PT} {params : List (String × Rat)} {mm : Option (List (MName × Option MName))}
    {cm : List (Chan × Option Chan)} {S : List String} {ctx : Ctx}
    (h : topCtx pt params mm cm S = .ok ctx) :
    topCtx pt params mm cm [] = .ok { ctx with single := [] } ∧ ctx.single = S ∧ ctx.trafo = [] := by
  unfold topCtx at h ⊢
  by_cases hd : hasDup (cm.filterMap (·.2)) = true
  · simp [hd] at h
  · simp only [hd, Bool.false_eq_true, if_false, Except.ok.injEq] at h ⊢
    subst h
    exact ⟨rfl, rfl, rfl⟩

/-- **compile correctness for every `to_single_waveform` set**: stage-3 template outside PF-11 and outside C05's
exclusion class (`cleanW`), per channel `c` of the denoted pulse; `tidy c` are C05's output-checkable side
conditions on collapsed sequence waveforms (vacuous where nothing is collapsed). -/
theorem createProgram_single {pt : PT} (hs : Stage3 pt) (params : List (String × Rat))
    (mm : Option (List (MName × Option MName))) (cm : List (Chan × Option Chan)) (S : List String)
    (prog0 progS : Loop) (P : Pulse)
    (hpf : inPF11 pt (topCm pt cm) = false)
    (h0 : createProgram pt params mm cm [] = .ok (some prog0)) (hpos : prog0.allPos)
    (hS : createProgram pt params mm cm S = .ok (some progS))
    (hden : denoteTop pt params mm cm = .ok P)
    (hclean : QP.C05.cleanW S false false pt = true)
    (c : Chan) (pl : PL) (hc : P.chans.lookup c = some pl)
    (ht0 : allLeaves (tidy c) prog0 = true) (htS : allLeaves (tidy c) progS = true) :
    progS.duration = P.dur ∧ progS.windows.Perm P.windows ∧
    allLeaves (fun x => x.channels.contains c) progS = true ∧
    ∀ t, 0 ≤ t → t < P.dur → progS.sample c t = PL.at pl t := by
  obtain ⟨hdur, hsample, hwin, hch, _⟩ := createProgram_relT hs params mm cm prog0 P hpf h0 hden hpos
  simp only [createProgram, bind_ok, pure_ok] at h0 hS
  obtain ⟨ctx0', hctx0, J, hJ, hp0⟩ := h0
  obtain ⟨ctx, hctx, I, hI, hpS⟩ := hS
  obtain ⟨hctx0', hsingle, htrafo⟩ := topCtx_single hctx
  rw [hctx0] at hctx0'
  cases hctx0'
  obtain ⟨hneJ, rfl⟩ := toProgram_some hp0
  obtain ⟨hneI, rfl⟩ := toProgram_some hpS
  have hI' : compile pt { ctx with single := S } = .ok I := by
    have : ({ ctx with single := S } : Ctx) = ctx := by cases ctx; simp_all
    rw [this]; exact hI
  have hnn : QP.C05.nnI J := by
    unfold QP.C05.nnI
    rw [← allLeaves_rootOf _ J hneJ]
    exact nonneg_of_allPos _ hpos
  have hcl : QP.C05.cleanW (S ++ []) (!ctx.trafo.isEmpty) false pt = true := by
    simpa [htrafo] using hclean
  have htI : QP.C05.tidyI c I := by
    unfold QP.C05.tidyI; rw [← allLeaves_rootOf _ I hneI]; exact htS
  have htJ : QP.C05.tidyI c J := by
    unfold QP.C05.tidyI; rw [← allLeaves_rootOf _ J hneJ]; exact ht0
  have hobs := QP.Props.C05.collapse_invariant_partial pt ctx S [] J I J c hJ hnn hI' hJ hcl htI htJ
  rw [hpS, hp0] at hobs
  simp only [QP.Props.C05.ObsRel] at hobs
  obtain ⟨o1, o2, o3, o4⟩ := hobs
  have hpres0 : allLeaves (fun x => x.channels.contains c) (rootOf J) = true := by
    rw [allLeaves_chan]
    simp only [List.all_eq_true]
    intro cs hcs
    have : c ∈ P.chanNames := by simpa [Pulse.chanNames] using mem_keys_of_lookup _ _ _ hc
    simpa using (hch cs hcs c).mpr this
  have hpresS : allLeaves (fun x => x.channels.contains c) (rootOf I) = true := by
    rw [o3, hpres0]; rfl
  refine ⟨by rw [o1, hdur], o2.trans hwin, hpresS, ?_⟩
  intro t h0 h1
  have := o4 hpresS t h0 (by rw [o1, hdur]; exact h1)
  rw [hpres0] at this
  simp only [if_true, QP.C05.Chain.chanF_nil, Option.some.injEq] at this
  rw [this]
  exact hsample c pl hc t h0 h1

/-- durations and windows for every `to_single_waveform` set, all composite constructors (incl. time reversal) -/
theorem createProgram_single_W {pt : PT} (hs : Stage3R pt) (params : List (String × Rat))
    (mm : Option (List (MName × Option MName))) (cm : List (Chan × Option Chan)) (S : List String)
    (prog0 progS : Loop) (P : Pulse)
    (h0 : createProgram pt params mm cm [] = .ok (some prog0)) (hnn0 : allLeaves nonnegW prog0 = true)
    (hS : createProgram pt params mm cm S = .ok (some progS))
    (hden : denoteTop pt params mm cm = .ok P)
    (hclean : QP.C05.cleanW S false false pt = true)
    (c : Chan) (ht0 : allLeaves (tidy c) prog0 = true) (htS : allLeaves (tidy c) progS = true) :
    progS.duration = P.dur ∧ progS.windows.Perm P.windows := by
  obtain ⟨hdur, hwin⟩ := createProgram_relWT_basic hs.basic params mm cm (some prog0) P h0 hden
  simp only [createProgram, bind_ok, pure_ok] at h0 hS
  obtain ⟨ctx0', hctx0, J, hJ, hp0⟩ := h0
  obtain ⟨ctx, hctx, I, hI, hpS⟩ := hS
  obtain ⟨hctx0', hsingle, htrafo⟩ := topCtx_single hctx
  rw [hctx0] at hctx0'
  cases hctx0'
  obtain ⟨hneJ, rfl⟩ := toProgram_some hp0
  obtain ⟨hneI, rfl⟩ := toProgram_some hpS
  have hI' : compile pt { ctx with single := S } = .ok I := by
    have : ({ ctx with single := S } : Ctx) = ctx := by cases ctx; simp_all
    rw [this]; exact hI
  have hnn : QP.C05.nnI J := by
    unfold QP.C05.nnI
    rw [← allLeaves_rootOf _ J hneJ]
    exact hnn0
  have hcl : QP.C05.cleanW (S ++ []) (!ctx.trafo.isEmpty) false pt = true := by
    simpa [htrafo] using hclean
  have htI : QP.C05.tidyI c I := by
    unfold QP.C05.tidyI; rw [← allLeaves_rootOf _ I hneI]; exact htS
  have htJ : QP.C05.tidyI c J := by
    unfold QP.C05.tidyI; rw [← allLeaves_rootOf _ J hneJ]; exact ht0
  have hobs := QP.Props.C05.collapse_invariant_partial pt ctx S [] J I J c hJ hnn hI' hJ hcl htI htJ
  rw [hpS, hp0] at hobs
  simp only [QP.Props.C05.ObsRel] at hobs
  obtain ⟨o1, o2, _, _⟩ := hobs
  exact ⟨by rw [o1, hdur], o2.trans hwin⟩

end QP.PT
