import QP.Model.PT
import QP.Proofs.PTCompile
/-! Atoms: the constant pulse template satisfies `AtomOK`. -/
namespace QP.PT

/-! ### constant waveforms built by `ConstantWaveform.from_mapping` -/

theorem channelsAll_map_const (d : Rat) (cvs : List (Chan × Rat)) :
    Wf.channelsAll (cvs.map (fun (x : Chan × Rat) => Wf.const d x.1 x.2)) = cvs.map (·.1) := by
  induction cvs with
  | nil => simp [Wf.channelsAll]
  | cons x xs ih => simp [Wf.channelsAll, Wf.channels, ih]

theorem constDictAll_map_const (d : Rat) (cvs : List (Chan × Rat)) :
    Wf.constDictAll (cvs.map (fun (x : Chan × Rat) => Wf.const d x.1 x.2)) = some cvs := by
  induction cvs with
  | nil => simp [Wf.constDictAll]
  | cons x xs ih => simp [Wf.constDictAll, Wf.constDict, ih]

theorem sampleMulti_map_const (d : Rat) (cvs : List (Chan × Rat)) (c : Chan) (t : Rat) :
    Wf.sampleMulti (cvs.map (fun (x : Chan × Rat) => Wf.const d x.1 x.2)) c t = cvs.lookup c := by
  induction cvs with
  | nil => simp [Wf.sampleMulti]
  | cons x xs ih =>
    obtain ⟨k, v⟩ := x
    simp only [List.map_cons, Wf.sampleMulti, Wf.channels, List.lookup_cons]
    by_cases hk : c == k
    · have : c = k := by simpa using hk
      subst this
      simp [Wf.sample]
    · have : ¬ c = k := by simpa using hk
      simp [hk, ih, this]

/-- what `constFromMapping` builds -/
theorem constFromMapping_spec {d : Rat} {cvs : List (Chan × Rat)} {w : Wf}
    (h : constFromMapping d cvs = .ok w) :
    w.duration = d ∧ w.constDict = some cvs ∧ w.channels = cvs.map (·.1) ∧
      ∀ c v t, cvs.lookup c = some v → w.sample c t = some v := by
  unfold constFromMapping at h
  match cvs, h with
  | [], h => simp at h
  | [(ch, v)], h =>
    simp only [Except.ok.injEq] at h
    subst h
    refine ⟨by simp [Wf.duration], by simp [Wf.constDict], by simp [Wf.channels], ?_⟩
    intro c v' t hl
    simp only [List.lookup_cons, List.lookup_nil] at hl
    by_cases hk : c == ch
    · simp only [hk] at hl
      cases hl
      simp [Wf.sample]
    · simp [hk] at hl
  | x :: y :: rest, h =>
    simp only at h
    unfold mkMulti at h
    simp only [List.map_cons] at h
    split at h
    · simp at h
    · split at h
      · simp only [Except.ok.injEq] at h
        subst h
        refine ⟨by simp [Wf.duration, Wf.firstDuration], ?_, ?_, ?_⟩
        · have := constDictAll_map_const d (x :: y :: rest)
          simpa [Wf.constDict] using this
        · have := channelsAll_map_const d (x :: y :: rest)
          simpa [Wf.channels] using this
        · intro c v t hl
          have := sampleMulti_map_const d (x :: y :: rest) c t
          simp only [List.map_cons] at this
          simp only [Wf.sample]
          rw [this, hl]
      · simp at h

/-! ### the constant pulse template -/

theorem leaf_sample (w : Wf) (c : Chan) (t : Rat) (hd : 0 < w.duration) (h0 : 0 ≤ t) (ht : t < w.duration) :
    (leaf w).sample c t = w.sample c t := by
  have hfl := floor_div_eq t w.duration 0 hd (by simpa using h0) (by simpa using ht)
  simp only [leaf, Loop.sample, Loop.bodyDuration]
  have hnd : ¬ w.duration ≤ 0 := not_le.mpr hd
  simp [hnd, hfl]

theorem leaf_duration (w : Wf) : (leaf w).duration = w.duration := by
  simp [leaf, Loop.duration, Loop.bodyDuration]

theorem leaf_windows (w : Wf) : (leaf w).windows = [] := by
  simp [leaf, Loop.windows, Loop.windowsList, repeatWindows]

/-- one leaf (with the windows of the atom in front of it) against a pulse -/
theorem rel_single_leaf (w : Wf) (ms : List Window) (d : Rat) (hd : 0 < d) (hw : w.duration = d)
    (chans : List (Chan × PL)) (hne : chans ≠ []) (hch : ∀ x, x ∈ w.channels ↔ x ∈ chans.map (·.1))
    (hpl : ∀ c pl, chans.lookup c = some pl →
      PL.dur pl = d ∧ pl.pos ∧ ∀ t, 0 ≤ t → t < d → w.sample c t = PL.at pl t) :
    Rel ((if ms.isEmpty then [] else [Item.measure ms]) ++ [Item.node (leaf w)])
      { dur := d, chans := chans, windows := ms } := by
  have hn : nodesOf (if ms.isEmpty then [] else [Item.measure ms]) = [] := by
    by_cases hm : ms.isEmpty <;> simp [hm, nodesOf]
  refine ⟨?_, ?_, ?_, ?_, ?_, ?_, ?_, ?_⟩
  · by_cases hm : ms.isEmpty
    · simp only [hm, if_true, List.nil_append]; exact Blocks.node _ Blocks.nil
    · simp only [hm]; exact Blocks.meas ms _ Blocks.nil
  · rw [nodesOf_append, hn]
    simp only [nodesOf, List.nil_append]
    constructor
    · intro h; simp at h
    · intro h; exact absurd h hne
  · rw [nodesOf_append, hn]
    simp [nodesOf, Loop.durationList, leaf_duration, hw]
  · intro c pl hc; exact (hpl c pl hc).1
  · intro c pl hc; exact (hpl c pl hc).2.1
  · intro c pl hc t ht0 ht
    rw [nodesOf_append, hn]
    simp only [List.nil_append, nodesOf, Loop.sampleList, leaf_duration, hw]
    simp only at ht
    simp only [ht, if_true]
    rw [leaf_sample w c t (by rw [hw]; exact hd) ht0 (by rw [hw]; exact ht)]
    exact (hpl c pl hc).2.2 t ht0 ht
  · rw [itemsWindows_append]
    by_cases hm : ms.isEmpty
    · have : ms = [] := by simpa using hm
      subst this
      simp [itemsWindows, nodesOf, leaf_windows]
    · simp [hm, itemsWindows, nodesOf, leaf_windows, map_shiftW_zero]
  · intro cs hcs x
    rw [nodesOf_append, hn] at hcs
    simp only [List.nil_append, nodesOf, Loop.leafChannelsList, leaf, Loop.leafChannels, List.append_nil,
      List.mem_singleton] at hcs
    subst hcs
    simpa [Pulse.chanNames] using hch x

theorem atomOK_const (id : Option String) (dur : Expr) (amps : List (Chan × Expr)) (meas : List MeasDecl) :
    AtomOK (.const id dur amps meas) := by
  intro σ mm cm items P h1 h2 _
  simp only [atomItems, ctx0, buildWaveform, bind_ok] at h1
  obtain ⟨w?, ⟨d, hd, hw⟩, h1⟩ := h1
  simp only [denote, bind_ok] at h2
  obtain ⟨d', hd', h2⟩ := h2
  rw [hd] at hd'; cases hd'
  by_cases hpos : d > 0
  · simp only [hpos, if_true, bind_ok] at hw h2
    obtain ⟨cvs, hcvs, hw⟩ := hw
    obtain ⟨cvs', hcvs', h2⟩ := h2
    rw [hcvs] at hcvs'; cases hcvs'
    by_cases hemp : (dictOfList cvs).isEmpty
    · simp only [hemp, if_true, pure_ok] at hw h2
      subst hw; subst h2
      simp only [pure_ok] at h1
      subst h1
      exact Rel.nil
    · have hemp' : (dictOfList cvs).isEmpty = false := by simpa using hemp
      simp only [hemp', Bool.false_eq_true, if_false, bind_ok, pure_ok] at hw h2
      obtain ⟨w, hw, rfl⟩ := hw
      obtain ⟨hdw, hcd⟩ := constFromMapping_spec hw
      by_cases hdup : hasDup ((dictOfList cvs).map (·.1))
      · simp [hdup] at h2
      · have hdup' : hasDup ((dictOfList cvs).map (·.1)) = false := by simpa using hdup
        simp only [hdup', Bool.false_eq_true, if_false, bind_ok, pure_ok] at h2
        obtain ⟨ms, hms, rfl⟩ := h2
        simp only [bind_ok, pure_ok] at h1
        obtain ⟨ms', hms', h1⟩ := h1
        rw [hms] at hms'; cases hms'
        have hlook : ∀ c, (((dictOfList cvs).map (fun (x : Chan × Rat) =>
              (x.1, ([{ len := d, v0 := x.2, v1 := x.2 }] : PL)))).lookup c)
            = ((dictOfList cvs).lookup c).map (fun v => ([{ len := d, v0 := v, v1 := v }] : PL)) := by
          intro c
          exact lookup_map_snd (dictOfList cvs) (fun _ v => ([{ len := d, v0 := v, v1 := v }] : PL)) c
        have hne : dictOfList cvs ≠ [] := by simpa using hemp
        obtain ⟨hcd, hchans, hs⟩ := hcd
        simp only [List.isEmpty_nil, if_true, pure_bind, hcd, hdw, hw] at h1
        have h1' : items = (if ms.isEmpty then [] else [Item.measure ms]) ++ [Item.node (leaf w)] := by
          simp only [bind, Except.bind, pure, Except.pure, Except.ok.injEq] at h1
          exact h1.symm
        subst h1'
        apply rel_single_leaf w ms d hpos hdw
        · simpa using hne
        · intro x
          rw [hchans]
          simp [List.map_map, Function.comp_def]
        · intro c pl hc
          simp only [hlook] at hc
          cases hcl : (dictOfList cvs).lookup c with
          | none => simp [hcl] at hc
          | some v =>
            simp only [hcl, Option.map_some, Option.some.injEq] at hc
            subst hc
            refine ⟨by simp [PL.dur], ?_, ?_⟩
            · intro s hs'
              simp only [List.mem_singleton] at hs'
              subst hs'
              exact hpos
            · intro t _ ht
              rw [hs c v t hcl]
              simp [PL.at, ht, Seg.valueAt]
  · simp only [hpos, if_false, pure_ok] at hw h2
    subst hw; subst h2
    simp only [pure_ok] at h1
    subst h1
    exact Rel.nil

end QP.PT
