import QP.Proofs.C19Place
/-! The history invariant of the driver model: initial state, `cleanup`, `free_program`. -/
namespace QP.C19

theorem inv_init' (idle : Int) : Inv (Mem.init idle) := by
  constructor
  · rfl
  · rfl
  · rfl
  · rfl
  · intro s hs
    simp [Mem.init] at hs ⊢
  · intro p hp; simp [Mem.init] at hp
  · simp [Mem.init]
  · intro s hs
    simp [Mem.init] at hs
    subst hs
    simp [Mem.init, refCount]
  · simp [Mem.init]

theorem refCount_pos {progs : List Prog} {p : Prog} {s : Nat} (hp : p ∈ progs) (hs : (s : Int) ∈ p.w2s) :
    0 < refCount progs s := by
  unfold refCount
  rw [List.countP_pos_iff]
  exact ⟨p, hp, by simpa using hs⟩

theorem refCount_zero {progs : List Prog} {s : Nat} (h : ∀ p, p ∈ progs → (s : Int) ∉ p.w2s) :
    refCount progs s = 0 := by
  unfold refCount
  rw [List.countP_eq_zero]
  intro p hp
  simpa using h p hp

/-- a slot that an uploaded program refers to carries a positive reference count -/
theorem Inv.ref_pos {m : Mem} (h : Inv m) {p : Prog} (hp : p ∈ m.progs) {k : Nat} {v : Int}
    (hk : p.w2s[k]? = some v) : 0 ≤ v ∧ v.toNat < m.hashes.length ∧
      ∃ r, m.refs[v.toNat]? = some r ∧ 0 < r := by
  obtain ⟨_, hok⟩ := h.progs p hp
  obtain ⟨h0, hlt, _⟩ := hok k (getElem?_lt_of_some hk) v hk
  rw [h.lenG] at hlt
  refine ⟨h0, hlt, ?_⟩
  have hc := h.count v.toNat (by rw [h.lenR]; exact hlt)
  refine ⟨_, hc, ?_⟩
  have : (v.toNat : Int) ∈ p.w2s := by
    have : ((v.toNat : Nat) : Int) = v := by omega
    rw [this]; exact List.mem_of_getElem? hk
  have := refCount_pos hp this
  omega

theorem cleanup_inv {m : Mem} (h : Inv m) : Inv (cleanup m) := by
  have hle : firstFree m.refs ≤ m.hashes.length := by
    have := firstFree_le m.refs; rw [h.lenR] at this; exact this
  have hpos : 0 < firstFree m.refs := by
    have h0 := h.count 0 (by rw [h.lenR]; exact h.idle)
    exact firstFree_spec h0 (by simp; omega)
  unfold cleanup
  constructor
  · simp [h.lenC]
  · simp [h.lenL]
  · simp [h.lenR]
  · simp [h.lenG]
  · intro s hs
    simp only [List.length_take] at hs
    have hs1 : s < firstFree m.refs := by omega
    have hs2 : s < m.hashes.length := by omega
    simp only [List.getElem?_take]
    simp [hs1, h.same s hs2]
  · intro p hp
    obtain ⟨hlen, hok⟩ := h.progs p hp
    refine ⟨hlen, ?_⟩
    intro k hk v hv
    obtain ⟨h0, hlt, hc⟩ := hok k hk v hv
    obtain ⟨_, _, r, hr, hr0⟩ := h.ref_pos hp hv
    have hff := firstFree_spec hr hr0
    refine ⟨h0, ?_, ?_⟩
    · simp; omega
    · simp only [List.getElem?_take]; simp [hff, hc]
  · exact h.names
  · intro s hs
    simp only [List.length_take] at hs
    have hs1 : s < firstFree m.refs := by omega
    have hs2 : s < m.refs.length := by omega
    simp only [List.getElem?_take]
    simp only [hs1, if_true]
    exact h.count s hs2
  · simp; omega

theorem countP_filter_name {progs : List Prog} (hn : progs.Pairwise (fun p q => p.name ≠ q.name))
    {p : Prog} (hp : p ∈ progs) (f : Prog → Bool) :
    (progs.filter (fun q => q.name != p.name)).countP f + (if f p then 1 else 0) = progs.countP f := by
  induction progs with
  | nil => cases hp
  | cons a t ih =>
    rw [List.pairwise_cons] at hn
    rcases List.mem_cons.mp hp with rfl | hpt
    · have hkeep : t.filter (fun q => q.name != p.name) = t := by
        rw [List.filter_eq_self]
        intro q hq
        have := hn.1 q hq
        simp; exact fun h => this h.symm
      simp [hkeep, List.countP_cons]
    · have hne : a.name ≠ p.name := hn.1 p hpt
      have := ih hn.2 hpt
      simp [hne, List.countP_cons]
      omega

theorem progOk_normIdx {m : Mem} {p : Prog} (h : ProgOk m p) (hG : m.contents.length = m.refs.length)
    {v : Int} (hv : v ∈ p.w2s) : normIdx m.refs.length v = some v.toNat ∧ 0 ≤ v := by
  obtain ⟨k, hk⟩ := List.getElem?_of_mem hv
  obtain ⟨h0, hlt, _⟩ := h.2 k (getElem?_lt_of_some hk) v hk
  rw [hG] at hlt
  exact ⟨normIdx_of_lt h0 hlt, h0⟩

theorem freeProgram_spec {m : Mem} (h : Inv m) (name : Nat) :
    (freeProgram m name = .error .keyError ∧ ∀ p, p ∈ m.progs → p.name ≠ name) ∨
    (∃ m', freeProgram m name = .ok m' ∧ Inv m' ∧ (∀ p, p ∈ m'.progs → p.name ≠ name) ∧
       m'.hashes = m.hashes ∧ m'.caps = m.caps ∧ m'.contents = m.contents) := by
  unfold freeProgram
  cases hfind : m.progs.find? (fun p => p.name == name) with
  | none =>
    left
    refine ⟨rfl, ?_⟩
    intro p hp hpn
    have := List.find?_eq_none.mp hfind p hp
    simp [hpn] at this
  | some p =>
    right
    have hp : p ∈ m.progs := List.mem_of_find?_eq_some hfind
    have hpn : p.name = name := by
      have := List.find?_some hfind
      simpa using this
    have hGR : m.contents.length = m.refs.length := by rw [h.lenG, h.lenR]
    have hall : p.w2s.all (fun k => (normIdx m.refs.length k).isSome) = true := by
      rw [List.all_eq_true]
      intro v hv
      simp [(progOk_normIdx (h.progs p hp) hGR hv).1]
    simp only [updAt, hall, if_true]
    refine ⟨_, rfl, ?_, ?_, rfl, rfl, rfl⟩
    · constructor
      · exact h.lenC
      · exact h.lenL
      · simp [h.lenR]
      · exact h.lenG
      · exact h.same
      · intro q hq
        have hq' : q ∈ m.progs := (List.mem_filter.mp hq).1
        exact h.progs q hq'
      · exact List.Pairwise.filter _ h.names
      · intro s hs
        simp only [List.length_mapIdx] at hs
        have hc := h.count s hs
        simp only [List.getElem?_mapIdx, hc, Option.map_some]
        have hcnt := countP_filter_name h.names hp (fun q => q.w2s.contains (s : Int))
        rw [hpn] at hcnt
        have hiff : (p.w2s.any fun k => normIdx m.refs.length k == some s) = p.w2s.contains (s : Int) := by
          rw [Bool.eq_iff_iff]
          simp only [List.any_eq_true, List.contains_iff_mem, beq_iff_eq]
          constructor
          · rintro ⟨v, hv, hvs⟩
            obtain ⟨hn, h0⟩ := progOk_normIdx (h.progs p hp) hGR hv
            rw [hn] at hvs
            have : v = (s : Int) := by
              have := Option.some.inj hvs
              omega
            rw [← this]; exact hv
          · intro hs'
            refine ⟨(s : Int), hs', ?_⟩
            have := (progOk_normIdx (h.progs p hp) hGR hs').1
            simpa using this
        rw [hiff]
        unfold refCount at hc ⊢
        by_cases hcs : p.w2s.contains (s : Int) = true
        · simp only [hcs, if_true] at hcnt ⊢
          unfold decU32
          have : ¬ ((if s = 0 then 1 else 0) + List.countP (fun p => p.w2s.contains (s : Int)) m.progs = 0) := by
            omega
          simp only [this, if_false]
          congr 1
          omega
        · simp only [hcs] at hcnt ⊢
          simp only [Bool.false_eq_true, if_false] at hcnt ⊢
          congr 1
          omega
      · exact h.idle
    · intro q hq
      have := (List.mem_filter.mp hq).2
      simpa using this

end QP.C19
