import QP.Model.C20
/-! Helper lemmas for C20: rounding (`rne`), absolute value. -/
namespace QP.C20

theorem rabs_le_iff {x b : Rat} : rabs x ≤ b ↔ -b ≤ x ∧ x ≤ b := by
  unfold rabs; split <;> grind

theorem lt_rabs_iff {x b : Rat} : b < rabs x ↔ x < -b ∨ b < x := by
  unfold rabs; split <;> grind

theorem rabs_nonneg (x : Rat) : 0 ≤ rabs x := by
  unfold rabs; split <;> grind

/-- `rne x` is `⌊x⌋` or `⌊x⌋ + 1` -/
theorem rne_cases (x : Rat) :
    (rne x = x.floor ∧ x - (x.floor : Rat) ≤ 1 / 2) ∨ (rne x = x.floor + 1 ∧ 1 / 2 ≤ x - (x.floor : Rat)) := by
  unfold rne
  simp only
  split
  · left; grind
  · split
    · right; grind
    · split
      · left; grind
      · right; grind

theorem rne_lower (x : Rat) : x - 1 / 2 ≤ (rne x : Rat) := by
  have hf := Rat.floor_le x
  have hl := Rat.lt_floor_add_one x
  rcases rne_cases x with ⟨h, hd⟩ | ⟨h, hd⟩
  · rw [h]; grind
  · rw [h]; simp only [Rat.intCast_add] at *; grind

theorem rne_upper (x : Rat) : (rne x : Rat) ≤ x + 1 / 2 := by
  have hf := Rat.floor_le x
  have hl := Rat.lt_floor_add_one x
  rcases rne_cases x with ⟨h, hd⟩ | ⟨h, hd⟩
  · rw [h]; grind
  · rw [h]; simp only [Rat.intCast_add] at *; grind

theorem rne_intCast (n : Int) : rne (n : Rat) = n := by
  unfold rne
  have h : (n : Rat) - (n : Rat) < 1 / 2 := by grind
  simp [Rat.floor_intCast, h]

theorem rne_mono {x y : Rat} (h : x ≤ y) : rne x ≤ rne y := by
  have hfl := Rat.floor_monotone h
  have hx1 := Rat.floor_le x
  have hx2 := Rat.lt_floor_add_one x
  have hy1 := Rat.floor_le y
  have hy2 := Rat.lt_floor_add_one y
  by_cases hlt : x.floor < y.floor
  · rcases rne_cases x with ⟨hx, _⟩ | ⟨hx, _⟩ <;> rcases rne_cases y with ⟨hy, _⟩ | ⟨hy, _⟩ <;> omega
  · have heq : x.floor = y.floor := by omega
    unfold rne
    simp only [heq]
    split <;> split <;> (try split) <;> (try split) <;> (try split) <;> (try omega) <;> grind

end QP.C20
