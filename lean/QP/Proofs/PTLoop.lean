import QP.Model.PT
import Mathlib.Tactic.Ring
import Mathlib.Tactic.Linarith
/-! Loop level lemmas: durations, pieces, the unrolled play sequence. -/
namespace QP.PT

theorem sumList_append (xs ys : List Rat) : sumList (xs ++ ys) = sumList xs + sumList ys := by
  induction xs with
  | nil => simp [sumList]
  | cons x xs ih => simp [sumList, ih]; ring

theorem sumList_replicate_flatten (n : Nat) (xs : List Rat) :
    sumList ((List.replicate n xs).flatten) = sumList xs * n := by
  induction n with
  | zero => simp [sumList]
  | succ n ih =>
    simp [List.replicate_succ, sumList_append, ih]
    ring

theorem sumList_replicate (n : Nat) (x : Rat) : sumList (List.replicate n x) = x * n := by
  induction n with
  | zero => simp [sumList]
  | succ n ih =>
    simp only [List.replicate_succ, sumList, ih]
    push_cast
    ring

theorem sumList_map_replicate (n : Nat) (w : Wf) :
    sumList ((List.replicate n w).map Wf.duration) = w.duration * n := by
  rw [List.map_replicate, sumList_replicate]

mutual
theorem Loop.duration_eq_piecesSum : ∀ l : Loop, l.duration = l.piecesSum
  | .mk rep wf meas cs => by
      cases cs with
      | nil => cases wf <;> simp [Loop.duration, Loop.bodyDuration, Loop.piecesSum]
      | cons c cs' =>
        simp only [Loop.duration, Loop.bodyDuration, Loop.piecesSum]
        rw [Loop.durationList_eq_piecesSumList (c :: cs')]
theorem Loop.durationList_eq_piecesSumList : ∀ cs : List Loop, Loop.durationList cs = Loop.piecesSumList cs
  | [] => by simp [Loop.durationList, Loop.piecesSumList]
  | c :: cs => by
      simp only [Loop.durationList, Loop.piecesSumList]
      rw [Loop.duration_eq_piecesSum c, Loop.durationList_eq_piecesSumList cs]
end

mutual
theorem Loop.duration_eq_play : ∀ l : Loop, l.duration = sumList (l.play.map Wf.duration)
  | .mk rep wf meas cs => by
      cases cs with
      | nil =>
        cases wf with
        | none => simp [Loop.duration, Loop.bodyDuration, Loop.play, sumList]
        | some w =>
          simp only [Loop.duration, Loop.bodyDuration, Loop.play]
          rw [sumList_map_replicate]
      | cons c cs' =>
        simp only [Loop.duration, Loop.bodyDuration, Loop.play]
        rw [Loop.durationList_eq_play (c :: cs'), List.map_flatten, List.map_replicate,
          sumList_replicate_flatten]
theorem Loop.durationList_eq_play : ∀ cs : List Loop,
    Loop.durationList cs = sumList ((Loop.playList cs).map Wf.duration)
  | [] => by simp [Loop.durationList, Loop.playList, sumList]
  | c :: cs => by
      simp only [Loop.durationList, Loop.playList, List.map_append, sumList_append]
      rw [Loop.duration_eq_play c, Loop.durationList_eq_play cs]
end

end QP.PT
