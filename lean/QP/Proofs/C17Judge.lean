import QP.Model.C17
/-! The executable judge decides the specification predicate; the fragment excludes the finding classes. -/
namespace QP.C17.Judge
open QP.C17

theorem valsMatchB_iff (tol : Rat) : ∀ (a b : List (Option Rat)), valsMatchB tol a b = true ↔ valsMatch tol a b
  | [], [] => by simp [valsMatchB, valsMatch]
  | [], _ :: _ => by simp [valsMatchB, valsMatch]
  | none :: _, _ => by simp [valsMatchB, valsMatch]
  | some _ :: _, [] => by simp [valsMatchB, valsMatch]
  | some _ :: _, none :: _ => by simp [valsMatchB, valsMatch]
  | some a :: as, some b :: bs => by
    simp only [valsMatchB, valsMatch, Bool.and_eq_true, decide_eq_true_eq, valsMatchB_iff tol as bs]

theorem stairsMatchB_iff (tol : Rat) : ∀ (a b : History), stairsMatchB tol a b = true ↔ StairsMatch tol a b
  | [], [] => by simp [stairsMatchB, StairsMatch]
  | [], _ :: _ => by simp [stairsMatchB, StairsMatch]
  | _ :: _, [] => by simp [stairsMatchB, StairsMatch]
  | (t, v) :: r, (t', v') :: r' => by
    simp only [stairsMatchB, StairsMatch, Bool.and_eq_true, decide_eq_true_eq, valsMatchB_iff,
      stairsMatchB_iff tol r r', and_assoc]

theorem sweepHold_flag (res : Rat) : ∀ (bs : List Rat) (fs : List (Option (List Rat))) (ch : Nat) (s : Sweep),
    (sweepHold res bs fs ch s).flagged = s.flagged
  | [], _, _, _ => by simp [sweepHold]
  | _ :: _, [], _, _ => by simp [sweepHold]
  | _ :: bs, none :: fs, ch, s => by simp only [sweepHold]; rw [sweepHold_flag res bs fs]
  | _ :: bs, some _ :: fs, ch, s => by simp only [sweepHold]; rw [sweepHold_flag res bs fs]

mutual
theorem sweep_flag (res : Rat) (nch : Nat) : (n : Node) → ∀ (s : Sweep), hasRep n = false →
    (sweep res nch n s).flagged = s.flagged
  | .hold bases factors _, s, _ => by simp only [sweep]; exact sweepHold_flag res _ _ _ _
  | .rep _ _, _, h => by simp [hasRep] at h
  | .iter body length, s, h => by
    simp only [hasRep] at h
    simp only [sweep]
    split
    · simp only
      rw [sweepList_flag res nch body _ h]
      simp only
      rw [sweepList_flag res nch body _ h]
    · simp only
      rw [sweepList_flag res nch body _ h]
theorem sweepList_flag (res : Rat) (nch : Nat) : (ns : List Node) → ∀ (s : Sweep), hasRepList ns = false →
    (sweepList res nch ns s).flagged = s.flagged
  | [], _, _ => rfl
  | n :: ns, s, h => by
    simp only [hasRepList, Bool.or_eq_false_iff] at h
    simp only [sweepList]
    rw [sweepList_flag res nch ns _ h.2, sweep_flag res nch n s h.1]
end

/-- the proved fragment lies outside every known-finding class -/
theorem fragment_outside (res : Rat) (nch : Nat) (prog : List Node) (h : inFragment res nch prog = true) :
    inPF22 res nch prog = false ∧ inDepthClash res prog = false ∧ inZeroKey res prog = false ∧
      resCollision res prog = false := by
  simp only [inFragment, Bool.and_eq_true, Bool.not_eq_true'] at h
  obtain ⟨⟨⟨hn, _⟩, hk⟩, hs⟩ := h
  refine ⟨hn, ?_, ?_, ?_⟩
  · simp only [inDepthClash, keyInj, List.all_eq_true] at hk ⊢
    rw [Bool.eq_false_iff]
    intro hc
    simp only [List.any_eq_true, Bool.and_eq_true, beq_iff_eq, bne_iff_ne] at hc
    obtain ⟨p, hp, q, hq, ⟨h1, h2⟩, h3⟩ := hc
    have := hk p hp q hq
    simp only [h1, h2, beq_self_eq_true, Bool.and_self, Bool.not_true, Bool.false_or, beq_iff_eq] at this
    exact h3 (by rw [this])
  · simp only [inZeroKey, hs]; rfl
  · simp only [resCollision, keyInj, List.all_eq_true] at hk ⊢
    rw [Bool.eq_false_iff]
    intro hc
    simp only [List.any_eq_true, Bool.and_eq_true, beq_iff_eq, bne_iff_ne] at hc
    obtain ⟨p, hp, q, hq, ⟨⟨h1, h2⟩, _⟩, h3⟩ := hc
    have := hk p hp q hq
    simp only [h1, h2, beq_self_eq_true, Bool.and_self, Bool.not_true, Bool.false_or, beq_iff_eq] at this
    exact h3 this

mutual
theorem wf_factorDepth (nch : Nat) : (n : Node) → ∀ d, wellFormed nch d n = true → factorDepthOK d n = true
  | .hold _ _ _, d, h => by
    simp only [wellFormed, Bool.and_eq_true] at h
    simpa only [factorDepthOK] using h.2
  | .rep body _, d, h => by
    simp only [wellFormed, Bool.and_eq_true] at h
    simpa only [factorDepthOK] using wf_factorDepthL nch body d h.2
  | .iter body _, d, h => by
    simp only [wellFormed, Bool.and_eq_true] at h
    simpa only [factorDepthOK] using wf_factorDepthL nch body (d + 1) h.2
theorem wf_factorDepthL (nch : Nat) : (ns : List Node) → ∀ d, wellFormedList nch d ns = true →
    factorDepthOKList d ns = true
  | [], _, _ => rfl
  | n :: ns, d, h => by
    simp only [wellFormedList, Bool.and_eq_true] at h
    simp only [factorDepthOKList, Bool.and_eq_true]
    exact ⟨wf_factorDepth nch n d h.1, wf_factorDepthL nch ns d h.2⟩
end

theorem fragment_not_indexreuse (res : Rat) (nch : Nat) (prog : List Node) (h : inFragment res nch prog = true) :
    inIndexReuse prog = false := by
  simp only [inFragment, Bool.and_eq_true] at h
  simp [inIndexReuse, wf_factorDepthL nch prog 0 h.1.1.2]

/-- every builder-shaped program without repetition nodes and with faithful, separated keys is in the fragment -/
theorem norep_in_fragment (res : Rat) (nch : Nat) (prog : List Node) (hn : hasRepList prog = false)
    (hw : wellFormedList nch 0 prog = true) (hk : keyInj res (touchesList prog) = true)
    (hs : separated res (touchesList prog) (plainsList prog) = true) : inFragment res nch prog = true := by
  have : inPF22 res nch prog = false := by
    simp only [inPF22]; rw [sweepList_flag res nch prog _ hn]; rfl
  simp [inFragment, this, hw, hk, hs]

end QP.C17.Judge
