import QP.Model.PT
import QP.Proofs.PTLoop
import Mathlib.Tactic.Ring
import Mathlib.Tactic.Linarith
/-! The program builder as algebra over item lists: what a list of `measure | node` items does to the
loop it is applied to. -/
namespace QP.PT

/-! ### Except -/

theorem bind_ok {α β} {x : Except Err α} {f : α → Except Err β} {b : β} :
    (x >>= f) = .ok b ↔ ∃ a, x = .ok a ∧ f a = .ok b := by
  cases x with
  | error e => simp [bind, Except.bind]
  | ok a => simp [bind, Except.bind]

/-! ### windows -/

theorem shiftW_zero (w : Window) : shiftW 0 w = w := by
  simp [shiftW]

theorem shiftW_shiftW (a b : Rat) (w : Window) : shiftW a (shiftW b w) = shiftW (b + a) w := by
  simp [shiftW]; ring

theorem map_shiftW_zero (ws : List Window) : ws.map (shiftW 0) = ws := by
  induction ws with
  | nil => rfl
  | cons w ws ih => simp [shiftW_zero, ih]

theorem map_shiftW_shiftW (a b : Rat) (ws : List Window) :
    (ws.map (shiftW b)).map (shiftW a) = ws.map (shiftW (b + a)) := by
  simp [List.map_map, Function.comp_def, shiftW_shiftW]

/-! ### item lists -/

def nodesOf : List Item → List Loop
  | [] => []
  | .measure _ :: r => nodesOf r
  | .node l :: r => l :: nodesOf r

/-- the windows `measure` items leave on the loop they are applied to (`off` = its body duration so far) -/
def measW : List Item → Rat → List Window
  | [], _ => []
  | .measure ms :: r, off => ms.map (shiftW off) ++ measW r off
  | .node l :: r, off => measW r (off + l.duration)

/-- all windows an item list contributes to one execution of the enclosing body, in item order -/
def itemsWindows : List Item → Rat → List Window
  | [], _ => []
  | .measure ms :: r, off => ms.map (shiftW off) ++ itemsWindows r off
  | .node l :: r, off => l.windows.map (shiftW off) ++ itemsWindows r (off + l.duration)

theorem nodesOf_append (a b : List Item) : nodesOf (a ++ b) = nodesOf a ++ nodesOf b := by
  induction a with
  | nil => rfl
  | cons x xs ih => cases x <;> simp [nodesOf, ih]

theorem durationList_append (a b : List Loop) :
    Loop.durationList (a ++ b) = Loop.durationList a + Loop.durationList b := by
  induction a with
  | nil => simp [Loop.durationList]
  | cons x xs ih => simp [Loop.durationList, ih]; ring

theorem bodyDuration_none (r : Nat) (m : List Window) (cs : List Loop) :
    Loop.bodyDuration (.mk r none m cs) = Loop.durationList cs := by
  cases cs <;> simp [Loop.bodyDuration, Loop.durationList]

theorem duration_none (r : Nat) (m : List Window) (cs : List Loop) :
    Loop.duration (.mk r none m cs) = Loop.durationList cs * r := by
  simp [Loop.duration, bodyDuration_none]

/-- what applying an item list does to a loop without waveform -/
theorem applyItems_eq (items : List Item) : ∀ (r : Nat) (m : List Window) (cs : List Loop),
    (Loop.mk r none m cs).applyItems items =
      Loop.mk r none (m ++ measW items (Loop.durationList cs)) (cs ++ nodesOf items) := by
  induction items with
  | nil => intro r m cs; simp [Loop.applyItems, measW, nodesOf]
  | cons x xs ih =>
    intro r m cs
    cases x with
    | measure ms =>
      simp only [Loop.applyItems, List.foldl_cons, Loop.applyItem, Loop.rep, Loop.wf, Loop.meas, Loop.children]
      have := ih r (m ++ ms.map (shiftW (Loop.bodyDuration (.mk r none m cs)))) cs
      simp only [Loop.applyItems] at this
      rw [this, bodyDuration_none]
      simp [measW, nodesOf]
    | node l =>
      simp only [Loop.applyItems, List.foldl_cons, Loop.applyItem, Loop.rep, Loop.wf, Loop.meas, Loop.children]
      have := ih r m (cs ++ [l])
      simp only [Loop.applyItems] at this
      rw [this, durationList_append]
      simp [measW, nodesOf, Loop.durationList]

theorem itemsWindows_append (a b : List Item) (off : Rat) :
    itemsWindows (a ++ b) off = itemsWindows a off ++ itemsWindows b (off + Loop.durationList (nodesOf a)) := by
  induction a generalizing off with
  | nil => simp [itemsWindows, nodesOf, Loop.durationList]
  | cons x xs ih =>
    cases x with
    | measure ms => simp [itemsWindows, nodesOf, ih]
    | node l =>
      simp only [List.cons_append, itemsWindows, nodesOf, Loop.durationList, ih, List.append_assoc]
      congr 3
      ring

theorem itemsWindows_shift (a : List Item) (off : Rat) :
    itemsWindows a off = (itemsWindows a 0).map (shiftW off) := by
  induction a generalizing off with
  | nil => simp [itemsWindows]
  | cons x xs ih =>
    cases x with
    | measure ms =>
      simp only [itemsWindows, List.map_append, map_shiftW_shiftW]
      rw [ih off]
      simp
    | node l =>
      simp only [itemsWindows, List.map_append, map_shiftW_shiftW]
      rw [ih (off + l.duration), ih (0 + l.duration), map_shiftW_shiftW]
      have : (0 : Rat) + l.duration + off = off + l.duration := by ring
      rw [this]
      simp

/-- the windows stored on the loop plus the windows of its children are the item windows, reordered -/
theorem measW_windowsList_perm (items : List Item) (off : Rat) :
    (measW items off ++ Loop.windowsList (nodesOf items) off).Perm (itemsWindows items off) := by
  induction items generalizing off with
  | nil => simp [measW, nodesOf, Loop.windowsList, itemsWindows]
  | cons x xs ih =>
    cases x with
    | measure ms =>
      simp only [measW, nodesOf, itemsWindows, List.append_assoc]
      exact List.Perm.append_left _ (ih off)
    | node l =>
      simp only [measW, nodesOf, itemsWindows, Loop.windowsList]
      have := ih (off + l.duration)
      refine List.Perm.trans ?_ (List.Perm.append_left _ this)
      rw [← List.append_assoc, ← List.append_assoc]
      exact List.Perm.append_right _ List.perm_append_comm

end QP.PT
