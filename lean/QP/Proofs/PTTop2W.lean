import QP.Model.PT
import QP.Proofs.PTTop2
import QP.Proofs.PTTopW
/-! Durations and windows for stage 2 plus time reversal (no positivity assumption). -/
namespace QP.PT

theorem atomOKW_of_buildOK {pt : PT} (hb : BuildOK pt) : AtomOKW pt := by
  intro σ mm cm items P h1 h2
  rcases atomItems_shape h1 with ⟨hw, rfl⟩ | ⟨w, ms, w', hw, hms, hdur', rfl⟩
  · have := hb σ mm cm none P hw h2
    simp only at this
    subst this
    exact RelW.nil
  · obtain ⟨hne, hdur, _, _, hwin⟩ := hb σ mm cm (some w) P hw h2
    have hP : P = { dur := P.dur, chans := P.chans, windows := ms } := by
      rw [← hwin ms hms]
    rw [hP]
    exact relW_single_leaf w' ms P.dur (by rw [hdur', hdur]) P.chans hne

/-- stage 2 plus time reversal (for durations and windows) -/
inductive Stage2R : PT → Prop
  | atom {pt} : AtomTree pt → Stage2R pt
  | seq {id subs meas cons} : (∀ p ∈ subs, Stage2R p) → Stage2R (.seq id subs meas cons)
  | rep {id body count meas cons} : Stage2R body → Stage2R (.rep id body count meas cons)
  | forLoop {id body idx start stop step meas cons} : Stage2R body →
      Stage2R (.forLoop id body idx start stop step meas cons)
  | mapping {id body pm mm cm cons} : Stage2R body → Stage2R (.mapping id body pm mm cm cons)
  | timeReversal {id body} : Stage2R body → Stage2R (.timeReversal id body)

theorem Stage2R.basic {pt : PT} (h : Stage2R pt) : BasicW pt := by
  induction h with
  | atom ha =>
    have hb := atomOKW_of_buildOK ha.buildOK
    cases ha with
    | const => exact BasicW.const hb
    | func => exact BasicW.func hb
    | table => exact BasicW.table hb
    | point => exact BasicW.point hb
    | atomicMulti _ => exact BasicW.atomicMulti hb
  | seq _ ih => exact BasicW.seq ih
  | rep _ ih => exact BasicW.rep ih
  | forLoop _ ih => exact BasicW.forLoop ih
  | mapping _ ih => exact BasicW.mapping ih
  | timeReversal _ ih => exact BasicW.timeReversal ih

theorem createProgram_relW_basic {pt : PT} (hb : BasicW pt) (params : List (String × Rat))
    (mm : Option (List (MName × Option MName))) (cm : List (Chan × Option Chan)) (prog? : Option Loop) (P : Pulse)
    (h1 : createProgram pt params mm cm [] = .ok prog?) (h2 : denoteTop pt params mm cm = .ok P) :
    match prog? with
    | some prog => prog.duration = P.dur ∧ prog.windows.Perm P.windows
    | none => P.dur = 0 ∧ P.windows = [] := by
  simp only [createProgram, bind_ok, pure_ok] at h1
  obtain ⟨ctx, hctx, items, hitems, hprog⟩ := h1
  simp only [denoteTop, bind_ok] at h2
  obtain ⟨ctx', hctx', h2⟩ := h2
  rw [hctx] at hctx'; cases hctx'
  obtain ⟨hsingle, htrafo⟩ := topCtx_ok hctx
  have hctx0 : ctx = ctx0 ctx.scope ctx.mm ctx.cm := by
    cases ctx; simp only [ctx0] at *; simp [hsingle, htrafo]
  unfold compile at hitems
  rw [wrapSingle_nil _ _ _ hsingle, hctx0] at hitems
  have hr := compile_relW hb ctx.scope ctx.mm ctx.cm items P hitems h2
  cases prog? with
  | some prog => exact hr.program hprog
  | none => exact hr.program_none hprog

end QP.PT
