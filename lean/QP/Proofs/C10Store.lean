import QP.Proofs.C10Enc
/-! C10: invariants of a `PulseStorage` session that stores nodes of a forest with unique identifiers. -/
namespace QP.C10
set_option linter.unusedSimpArgs false
set_option linter.unusedVariables false

/-- `commit`: every entry of the transaction is `put` -/
theorem fold_put_lookup {α β : Type} (g : α → β) : ∀ (txn : List (Id × α)) (b : List (Id × β)) (j : Id),
    (txn.map Prod.fst).Nodup →
    lookup j (txn.foldl (fun b e => put e.1 (g e.2) b) b) =
      (lookup j txn).elim (lookup j b) (fun v => some (g v))
  | [], b, j, _ => rfl
  | (k, v) :: txn, b, j, hn => by
    simp only [List.map_cons, List.nodup_cons] at hn
    simp only [List.foldl_cons]
    rw [fold_put_lookup g txn (put k (g v) b) j hn.2]
    by_cases hjk : k = j
    · subst hjk
      have : lookup k txn = none := (lookup_eq_none_iff k txn).mpr hn.1
      simp [this, lookup_put_same, Option.elim]
    · have hjk' : j ≠ k := fun e => hjk e.symm
      simp only [lookup_cons, hjk, if_false, lookup_put_ne _ _ hjk']

theorem commit_temp (st : St) (txn : Txn) (hn : (txn.map Prod.fst).Nodup) (j : Id) :
    lookup j (commit st txn).temp = (lookup j txn).elim (lookup j st.temp) (fun v => some v.2) := by
  simp only [commit]
  exact fold_put_lookup (fun v : J × T => v.2) txn st.temp j hn

theorem commit_backend (st : St) (txn : Txn) (hn : (txn.map Prod.fst).Nodup) (j : Id) :
    lookup j (commit st txn).backend = (lookup j txn).elim (lookup j st.backend) (fun v => some v.1) := by
  simp only [commit]
  exact fold_put_lookup (fun v : J × T => v.1) txn st.backend j hn

/-! ### the session invariant -/

structure Inv (F : List T) (st : St) : Prop where
  temp_in : ∀ i o, lookup i st.temp = some o → o ∈ Univ F ∧ o.id = some i
  backend_eq : ∀ i, lookup i st.backend = (lookup i st.temp).map body
  closed : ClosedSt st

theorem Inv.has_iff {F : List T} {st : St} (h : Inv F st) (j : Id) :
    st.has j = true ↔ ∃ o, lookup j st.temp = some o := by
  simp only [St.has, hasKey, h.backend_eq j]
  cases lookup j st.temp <;> simp

theorem Inv.compat {F : List T} {st : St} (h : Inv F st) (hu : UniqueIds F) {L : List T}
    (hL : ∀ c ∈ L, c ∈ Univ F) : Compat st L := by
  intro c hc i hi hs
  obtain ⟨o, ho⟩ := (h.has_iff i).mp hs
  have := h.temp_in i o ho
  rw [ho, uniq hu this.1 (hL c hc) this.2 hi]

theorem inv_empty (F : List T) : Inv F {} :=
  { temp_in := fun i o h => by simp at h
    backend_eq := fun i => rfl
    closed := fun i o h => by simp at h }

/-- the outcome of `storage[i] = t` for a root of the forest -/
theorem setitem_inv {F : List T} (hu : UniqueIds F) {st : St} (hinv : Inv F st) {t : T} (ht : t ∈ F)
    {i : Id} (hid : t.id = some i) :
    ∃ st' log, setitem st i t = .ok (st', log) ∧ Inv F st' ∧ lookup i st'.temp = some t ∧
      (∀ j o, lookup j st.temp = some o → lookup j st'.temp = some o) := by
  have htU : t ∈ Univ F := mem_univ_of_root ht (self_mem_subterms t)
  unfold setitem
  simp only [hid, ne_eq, not_true_eq_false, if_false]
  cases hl : lookup i st.temp with
  | some o =>
    have := hinv.temp_in i o hl
    have hot : o = t := uniq hu this.1 htU this.2 hid
    subst hot
    simp only [if_true]
    exact ⟨st, [], rfl, hinv, hl, fun j o h => h⟩
  | none =>
    have hb : hasKey i st.backend = false := by
      simp only [hasKey, hinv.backend_eq i, hl]; rfl
    simp only [hb, Bool.false_eq_true, if_false]
    have hsubU : ∀ c ∈ subterms t, c ∈ Univ F := fun c hc => mem_univ_of_root ht hc
    have hcompat : Compat st (subterms t) := hinv.compat hu hsubU
    rw [overwrite_spec hu st i t hid hcompat hsubU]
    -- the transaction
    have hLsub : ∀ n ∈ pendRoot st t, n ∈ subterms t := by
      intro n hn
      simp only [pendRoot, List.mem_append, List.mem_singleton] at hn
      rcases hn with h | h
      · cases t with
        | node cls id items =>
          rw [subterms_node]; exact List.mem_append_left _ (pendItems_sub st items n h).1
      · subst h; exact self_mem_subterms _
    have hnodup : (((pendRoot st t).foldl ins []).map Prod.fst).Nodup :=
      fold_ins_nodup _ [] (by simp)
    have htxn : ∀ j d n, lookup j ((pendRoot st t).foldl ins []) = some (d, n) →
        n ∈ pendRoot st t ∧ n.id = some j ∧ d = body n := by
      intro j d n h
      rcases fold_ins_lookup _ [] j d n h with h' | h'
      · simp at h'
      · exact h'
    refine ⟨_, _, rfl, ?_, ?_, ?_⟩
    · -- invariant
      refine ⟨?_, ?_, ?_⟩
      · intro j o h
        rw [commit_temp st _ hnodup j] at h
        cases hlj : lookup j ((pendRoot st t).foldl ins []) with
        | none => simp only [hlj, Option.elim] at h; exact hinv.temp_in j o h
        | some v =>
          simp only [hlj, Option.elim, Option.some.injEq] at h
          obtain ⟨d, n⟩ := v
          have := htxn j d n hlj
          subst h
          exact ⟨hsubU _ (hLsub _ this.1), this.2.1⟩
      · intro j
        rw [commit_temp st _ hnodup j, commit_backend st _ hnodup j]
        cases hlj : lookup j ((pendRoot st t).foldl ins []) with
        | none => simp only [hlj, Option.elim]; exact hinv.backend_eq j
        | some v =>
          obtain ⟨d, n⟩ := v
          have := htxn j d n hlj
          simp only [hlj, Option.elim, Option.map_some, this.2.2]
      · -- closed
        have hhas' : ∀ k, (hasKey k ((pendRoot st t).foldl ins []) = true ∨ st.has k = true) →
            (commit st ((pendRoot st t).foldl ins [])).has k = true := by
          intro k hk
          simp only [St.has, hasKey, Bool.or_eq_true, Option.isSome_iff_exists]
          left
          rw [commit_temp st _ hnodup k]
          rcases hk with hk | hk
          · obtain ⟨v, hv⟩ := (hasKey_true_iff _ _).mp hk
            exact ⟨v.2, by simp only [hv, Option.elim]⟩
          · obtain ⟨o, ho⟩ := (hinv.has_iff k).mp hk
            cases hlk : lookup k ((pendRoot st t).foldl ins []) with
            | none => exact ⟨o, by simp only [ho, Option.elim]⟩
            | some v => exact ⟨v.2, by simp only [Option.elim]⟩
        intro j o h c hc k hk
        rw [commit_temp st _ hnodup j] at h
        cases hlj : lookup j ((pendRoot st t).foldl ins []) with
        | none =>
          simp only [hlj, Option.elim] at h
          exact hhas' k (Or.inr (hinv.closed j o h c hc k hk))
        | some v =>
          obtain ⟨d, n⟩ := v
          simp only [hlj, Option.elim, Option.some.injEq] at h
          have hn := htxn j d n hlj
          subst h
          have hct : c ∈ subterms t := subterms_trans t _ (hLsub _ hn.1) c hc
          apply hhas' k
          cases t with
          | node cls id items =>
            rw [subterms_node] at hct
            rcases List.mem_append.mp hct with hci | hci
            · have hci' : Compat st (subtermsItems items) :=
                hcompat.mono (fun c h => by rw [subterms_node]; exact List.mem_append_left _ h)
              rcases cover_items st hinv.closed items hci' c hci k hk with h' | h'
              · left
                exact fold_ins_has _ [] c (by simp only [pendRoot, T.items]; exact List.mem_append_left _ h') k hk
              · exact Or.inr h'
            · simp only [List.mem_singleton] at hci
              left
              exact fold_ins_has _ [] c (by simp only [pendRoot, hci]; simp) k hk
    · -- the root is in the temporary storage
      rw [commit_temp st _ hnodup i]
      have hh : hasKey i ((pendRoot st t).foldl ins []) = true :=
        fold_ins_has _ [] t (by simp [pendRoot]) i hid
      obtain ⟨v, hv⟩ := (hasKey_true_iff _ _).mp hh
      obtain ⟨d, n⟩ := v
      have := htxn i d n hv
      have hnt : n = t := uniq hu (hsubU _ (hLsub _ this.1)) htU this.2.1 hid
      simp only [hv, hnt, Option.elim]
    · -- monotone
      intro j o h
      rw [commit_temp st _ hnodup j]
      cases hlj : lookup j ((pendRoot st t).foldl ins []) with
      | none => simp only [h, Option.elim]
      | some v =>
        obtain ⟨d, n⟩ := v
        have hn := htxn j d n hlj
        have ho := hinv.temp_in j o h
        have : n = o := uniq hu (hsubU _ (hLsub _ hn.1)) ho.1 hn.2.1 ho.2
        simp only [this, Option.elim]

/-- storing a list of roots of the forest one after the other -/
theorem storeAll_inv {F : List T} (hu : UniqueIds F) : ∀ (ts : List T) (st : St), Inv F st →
    (∀ r ∈ ts, r ∈ F ∧ r.named = true) →
    ∃ st' log, storeAll st ts = .ok (st', log) ∧ Inv F st' ∧
      (∀ r ∈ ts, ∀ i, r.id = some i → lookup i st'.temp = some r) ∧
      (∀ j o, lookup j st.temp = some o → lookup j st'.temp = some o)
  | [], st, hinv, _ => ⟨st, [], rfl, hinv, fun r h => by simp at h, fun j o h => h⟩
  | t :: ts, st, hinv, hts => by
    have ht := hts t List.mem_cons_self
    obtain ⟨i, hi⟩ : ∃ i, t.id = some i := by
      have := ht.2; simp only [T.named] at this
      exact Option.isSome_iff_exists.mp this
    obtain ⟨st1, log1, h1, hinv1, hroot1, hmono1⟩ := setitem_inv hu hinv ht.1 hi
    obtain ⟨st2, log2, h2, hinv2, hroots2, hmono2⟩ :=
      storeAll_inv hu ts st1 hinv1 (fun r hr => hts r (List.mem_cons_of_mem _ hr))
    refine ⟨st2, log1 ++ log2, ?_, hinv2, ?_, fun j o h => hmono2 j o (hmono1 j o h)⟩
    · simp only [storeAll, hi, h1, h2, bind, Except.bind, pure, Except.pure]
    · intro r hr k hk
      rcases List.mem_cons.mp hr with e | e
      · subst e
        have : k = i := by rw [hi] at hk; exact (Option.some.inj hk).symm
        subst this
        exact hmono2 _ _ hroot1
      · exact hroots2 r e k hk

end QP.C10
