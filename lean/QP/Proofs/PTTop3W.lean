import QP.Model.PT
import QP.Proofs.PTTop2W
import QP.Proofs.PTCompileWT
import QP.Proofs.PTArithAtomicW
/-! Durations and windows for ALL composite constructors over the proved atoms (no positivity assumption, no
PF-11 exclusion). -/
namespace QP.PT

theorem atomOKWT_of_buildOK {pt : PT} (hb : BuildOK pt) : AtomOKWT pt := by
  intro σ mm cm T items P h1 h2
  rcases QP.C05.atomItems_ok pt (ctxT σ mm cm T) items h1 with ⟨hw, rfl⟩ | ⟨w, ms, wT, wF, hw, hms, hwT, hwF, rfl⟩
  · have := hb σ mm cm none P hw h2
    simp only at this
    subst this
    exact RelW.nil
  · simp only [ctxT] at hw hms hwT
    obtain ⟨hne, hdur, _, _, hwin⟩ := hb σ mm cm (some w) P hw h2
    have hcw := QP.C05.noRep_cst w (QP.C05.buildWaveform_noRep pt _ _ w hw)
    obtain ⟨a1, a2, _, _⟩ := QP.C05.collapseWf_spec w wT _ hcw hwT
    obtain ⟨b1, _, _, _⟩ := QP.C05.foldConst_spec wT wF a2 hwF
    have hP : P = { dur := P.dur, chans := P.chans, windows := ms } := by
      rw [← hwin ms hms]
    rw [hP]
    unfold QP.C05.leafItems
    exact relW_single_leaf wF ms P.dur (by rw [b1, a1, hdur]) P.chans hne

/-- every composite constructor over the proved atoms (incl. `ArithmeticAtomicPT` of proved atoms): sequence, repetition, iteration, mapping, time reversal,
parallel channels, arithmetic with a scalar -/
inductive Stage3R : PT → Prop
  | atom {pt} : AtomTreeW pt → Stage3R pt
  | seq {id subs meas cons} : (∀ p ∈ subs, Stage3R p) → Stage3R (.seq id subs meas cons)
  | rep {id body count meas cons} : Stage3R body → Stage3R (.rep id body count meas cons)
  | forLoop {id body idx start stop step meas cons} : Stage3R body →
      Stage3R (.forLoop id body idx start stop step meas cons)
  | mapping {id body pm mm cm cons} : Stage3R body → Stage3R (.mapping id body pm mm cm cons)
  | timeReversal {id body} : Stage3R body → Stage3R (.timeReversal id body)
  | parallel {id body over} : Stage3R body → Stage3R (.parallel id body over)
  | arith {id body op scalar lhs} : Stage3R body → Stage3R (.arith id body op scalar lhs)

theorem Stage3R.basic {pt : PT} (h : Stage3R pt) : BasicWT pt := by
  induction h with
  | atom ha =>
    have hb := atomOKWT_of_buildOKW ha.buildOKW
    cases ha with
    | base ha' =>
      cases ha' with
      | const => exact BasicWT.const hb
      | func => exact BasicWT.func hb
      | table => exact BasicWT.table hb
      | point => exact BasicWT.point hb
      | atomicMulti _ => exact BasicWT.atomicMulti hb
    | arithAtomic _ _ => exact BasicWT.arithAtomic hb
  | seq _ ih => exact BasicWT.seq ih
  | rep _ ih => exact BasicWT.rep ih
  | forLoop _ ih => exact BasicWT.forLoop ih
  | mapping _ ih => exact BasicWT.mapping ih
  | timeReversal _ ih => exact BasicWT.timeReversal ih
  | parallel _ ih => exact BasicWT.parallel ih
  | arith _ ih => exact BasicWT.arith ih

theorem Stage2R.stage3R {pt : PT} (h : Stage2R pt) : Stage3R pt := by
  induction h with
  | atom ha => exact Stage3R.atom (AtomTreeW.base ha)
  | seq _ ih => exact Stage3R.seq ih
  | rep _ ih => exact Stage3R.rep ih
  | forLoop _ ih => exact Stage3R.forLoop ih
  | mapping _ ih => exact Stage3R.mapping ih
  | timeReversal _ ih => exact Stage3R.timeReversal ih

theorem createProgram_relWT_basic {pt : PT} (hb : BasicWT pt) (params : List (String × Rat))
    (mm : Option (List (MName × Option MName))) (cm : List (Chan × Option Chan)) (prog? : Option Loop) (P : Pulse)
    (h1 : createProgram pt params mm cm [] = .ok prog?) (h2 : denoteTop pt params mm cm = .ok P) :
    match prog? with
    | some prog => prog.duration = P.dur ∧ prog.windows.Perm P.windows
    | none => P.dur = 0 ∧ P.windows = [] := by
  simp only [createProgram, bind_ok, pure_ok] at h1
  obtain ⟨ctx, hctx, items, hitems, hprog⟩ := h1
  simp only [denoteTop, bind_ok] at h2
  obtain ⟨ctx', hctx', h2⟩ := h2
  rw [hctx] at hctx'; cases hctx'
  obtain ⟨hsingle, htrafo⟩ := topCtx_ok hctx
  have hctx0 : ctx = ctxT ctx.scope ctx.mm ctx.cm [] := by
    cases ctx; simp only [ctxT] at *; simp [hsingle, htrafo]
  unfold compile at hitems
  rw [wrapSingle_nil _ _ _ hsingle, hctx0] at hitems
  have hr := compile_relWT hb ctx.scope ctx.mm ctx.cm [] items P hitems h2
  cases prog? with
  | some prog => exact hr.program hprog
  | none => exact hr.program_none hprog

end QP.PT
