import QP.Proofs.C08e
/-! C08: `unsafe_get_subset_for_channels` / `get_subset_for_channels` restrict a waveform. -/
namespace QP.C08
open Wf

theorem leaf_subset (w : Wf) (c : Chan) (hc : channels w = [c]) (hw : wf w = true) (chs : List Chan)
    (hne : chs ≠ []) (hsub : ∀ k ∈ chs, k ∈ channels w) : SubsetAlike w w chs := by
  refine ⟨hw, rfl, ?_, fun _ _ _ _ _ => rfl⟩
  intro k
  rw [hc]
  constructor
  · intro hk
    simp at hk; subst hk
    cases chs with
    | nil => exact absurd rfl hne
    | cons x xs =>
      have := hsub x (by simp)
      rw [hc] at this; simp at this; subst this; simp
  · intro hk; have := hsub k hk; rwa [hc] at this

theorem subset_aux : ∀ w : Wf, SubsetIH w := by
  intro w
  induction w using Wf.induct with
  | table ch es =>
    intro hw chs s hne hsub h
    simp only [unsafeSubset] at h
    injection h with h; subst h
    exact leaf_subset _ ch (by simp [channels]) hw chs hne hsub
  | const d a ch =>
    intro hw chs s hne hsub h
    simp only [unsafeSubset] at h
    injection h with h; subst h
    exact leaf_subset _ ch (by simp [channels]) hw chs hne hsub
  | func sl ic d ch =>
    intro hw chs s hne hsub h
    simp only [unsafeSubset] at h
    injection h with h; subst h
    exact leaf_subset _ ch (by simp [channels]) hw chs hne hsub
  | seq ws ih =>
    intro hw chs s hne hsub h
    have hw' := hw
    simp [wf] at hw'
    simp only [channels] at hsub
    simp only [unsafeSubset] at h
    cases hss : subsetSeq ws chs with
    | error e => simp [hss] at h
    | ok subs =>
      simp only [hss] at h
      have hR : Restricted chs subs ws := by
        apply subsetSeq_restricted chs hne ws subs _ hss
        intro w hwm
        refine ⟨ih w hwm, wfL_mem hw'.1.2 w hwm, ?_⟩
        intro c hc
        exact (sameChans_mem ws _ hw'.2 w hwm c).mpr (hsub c hc)
      have hwsubs := hR.wf
      have hcsubs := hR.chans
      -- the plain sequence of the restricted members exists
      have hmk : mkSeq subs = .ok (.seq subs) := by
        cases hR with
        | nil => simp at hw'
        | @cons s0 w0 ss' ws' hs0 hr' =>
          simp only [mkSeq]
          have : ss'.all (fun x => sameSet (channels x) (channels s0)) = true := by
            rw [List.all_eq_true]
            intro x hx
            rw [sameSet_iff]
            intro k
            rw [hcsubs x (by simp [hx]) k, hcsubs s0 (by simp) k]
          simp [this]
      have hsa := smart_seq subs (.seq subs) s hwsubs hmk h
      have hhead : ∀ k, k ∈ channels (.seq subs) ↔ k ∈ chs := by
        intro k
        cases hR with
        | nil => simp at hw'
        | @cons s0 w0 ss' ws' hs0 hr' => simp only [channels, chanHead]; exact hs0.2.2.1 k
      refine ⟨wf_fromSequence subs s hwsubs h, ?_, ?_, ?_⟩
      · rw [hsa.1]; simp only [duration]; exact hR.durSum
      · intro k; rw [hsa.2.1 k]; exact hhead k
      · intro k hk t h0 hle
        simp only [duration] at hle
        rw [hsa.2.2 k ((hhead k).mpr hk) t h0 (by simp only [duration]; rw [hR.durSum]; exact hle)]
        simp only [sample]
        exact hR.sample k hk t
  | multi ws ih =>
    intro hw chs s hne hsub h
    have hw' := hw
    simp [wf] at hw'
    have hwl := wfL_mem hw'.1.1.2
    have hD := sameDur_mem ws _ hw'.1.2
    have hdis := hw'.2
    simp only [channels] at hsub
    simp only [unsafeSubset] at h
    cases hsm : subsetMulti ws chs with
    | error e => simp [hsm] at h
    | ok xs =>
      simp only [hsm] at h
      obtain ⟨r1, r2⟩ := subsetMulti_rel chs ws xs (fun w hwm => ⟨ih w hwm, hwl w hwm⟩) hsm
      -- every requested channel lives in exactly one member, which is relevant
      have hfind : ∀ k, k ∈ chs → ∃ w ∈ ws, k ∈ channels w ∧ ∃ x ∈ xs, MRel chs x w := by
        intro k hk
        obtain ⟨w, hwm, hkw⟩ := (mem_chanUnion ws k).mp (hsub k hk)
        obtain ⟨x, hx, hr⟩ := r2 w hwm ⟨k, hk, hkw⟩
        exact ⟨w, hwm, hkw, x, hx, hr⟩
      match xs, h with
      | [], h => exact absurd h (by simp)
      | [x], h =>
        dsimp only at h
        split at h
        · rename_i hall
          injection h with h; subst h
          obtain ⟨w, hwm, hrel, hm⟩ := r1 x (by simp)
          have hcw : ∀ k, k ∈ chs → k ∈ channels w := by
            have := (List.all_eq_true.mp hall) w (by
              simp only [List.mem_filter]
              exact ⟨hwm, by simpa using (inter_isEmpty_iff chs w).mpr hrel⟩)
            exact (subsetOf_iff _ _).mp this
          refine ⟨hm.1, by rw [hm.2.1]; simp only [duration]; exact hD w hwm, ?_, ?_⟩
          · intro k; rw [hm.2.2.1 k]; exact ⟨fun a => a.1, fun a => ⟨a, hcw k a⟩⟩
          · intro k hk t h0 hle
            simp only [duration] at hle
            rw [hm.2.2.2 k hk (hcw k hk) t h0 (by rw [hD w hwm]; exact hle)]
            simp only [sample]
            exact ((disjoint_first ws [] hdis w hwm k (hcw k hk)).2 t).symm
        · cases h
      | x0 :: x1 :: xr, h =>
        dsimp only at h
        simp only [fromParallel] at h
        generalize hxs : (x0 :: x1 :: xr) = xs at *
        obtain ⟨hse, hfne, hdis2⟩ := mkMulti_ok _ s h
        subst hse
        have hxw : ∀ x ∈ xs, wf x = true ∧ duration x = durHead ws := by
          intro x hx
          obtain ⟨w, hwm, _, hm⟩ := r1 x hx
          exact ⟨hm.1, by rw [hm.2.1]; exact hD w hwm⟩
        have hparts : ∀ y ∈ flattenMulti xs, wf y = true ∧ duration y = durHead ws := by
          intro y hy
          obtain ⟨x, hx, hyx⟩ := (flattenMulti_mem xs y).mp hy
          obtain ⟨hwx, hdx⟩ := hxw x hx
          cases x <;> simp [parts] at hyx
          all_goals try (subst hyx; exact ⟨hwx, hdx⟩)
          case multi ys =>
            simp [wf] at hwx
            refine ⟨wfL_mem hwx.1.1.2 y hyx, ?_⟩
            rw [← hdx]; simp only [duration]
            exact sameDur_mem ys _ hwx.1.2 y hyx
        have hLne : sortByChannels (flattenMulti xs) ≠ [] := by
          intro e
          cases hf : flattenMulti xs with
          | nil => exact hfne hf
          | cons y ys =>
            have := (mem_sortByChannels (flattenMulti xs) y).mpr (by rw [hf]; simp)
            rw [e] at this; cases this
        -- a requested channel is sampled through a part of the restricted member
        have hpart : ∀ k, k ∈ chs → ∃ w ∈ ws, k ∈ channels w ∧ ∃ y ∈ sortByChannels (flattenMulti xs),
            k ∈ channels y ∧ ∀ t, 0 ≤ t → t ≤ durHead ws → sample y k t = sample w k t := by
          intro k hk
          obtain ⟨w, hwm, hkw, x, hx, hm⟩ := hfind k hk
          have hkx : k ∈ channels x := (hm.2.2.1 k).mpr ⟨hk, hkw⟩
          obtain ⟨y, hyx, hky⟩ := (parts_chan x k).mp hkx
          refine ⟨w, hwm, hkw, y, (mem_sortByChannels _ y).mpr ((flattenMulti_mem xs y).mpr ⟨x, hx, hyx⟩), hky, ?_⟩
          intro t h0 hle
          rw [← hm.2.2.2 k hk hkw t h0 (by rw [hD w hwm]; exact hle)]
          have hwx := hm.1
          cases x <;> simp [parts] at hyx
          all_goals try (subst hyx; rfl)
          case multi ys =>
            simp [wf] at hwx
            simp only [sample]
            exact ((disjoint_first ys [] hwx.2 y hyx k hky).2 t).symm
        refine ⟨?_, ?_, ?_, ?_⟩
        · exact wf_multi_of _ (durHead ws) hLne
            (fun y hy => (hparts y ((mem_sortByChannels _ y).mp hy)).1)
            (fun y hy => (hparts y ((mem_sortByChannels _ y).mp hy)).2) hdis2
        · simp only [duration]
          exact durHead_of_all _ _ hLne (fun y hy => (hparts y ((mem_sortByChannels _ y).mp hy)).2)
        · intro k
          simp only [channels]
          rw [mem_chanUnion]
          constructor
          · rintro ⟨y, hy, hky⟩
            rw [mem_sortByChannels] at hy
            obtain ⟨x, hx, hyx⟩ := (flattenMulti_mem xs y).mp hy
            obtain ⟨w, _, _, hm⟩ := r1 x hx
            exact ((hm.2.2.1 k).mp ((parts_chan x k).mpr ⟨y, hyx, hky⟩)).1
          · intro hk
            obtain ⟨_, _, _, y, hy, hky, _⟩ := hpart k hk
            exact ⟨y, hy, hky⟩
        · intro k hk t h0 hle
          simp only [duration] at hle
          obtain ⟨w, hwm, hkw, y, hy, hky, hs⟩ := hpart k hk
          simp only [sample]
          rw [(disjoint_first _ [] hdis2 y hy k hky).2 t, hs t h0 hle]
          exact ((disjoint_first ws [] hdis w hwm k hkw).2 t).symm
  | rep b n ih =>
    intro hw chs s hne hsub h
    have hw' := hw
    simp [wf] at hw'
    simp only [channels] at hsub
    simp only [unsafeSubset] at h
    cases hb : unsafeSubset b chs with
    | error e => simp [hb] at h
    | ok b' =>
      simp only [hb] at h
      have hsa := ih hw'.1 chs b' hne hsub hb
      have hn1 : ¬ ((n : Int) < 1) := by omega
      have hmk : mkRep b' (n : Int) = .ok (.rep b' n) := by simp [mkRep, hn1]
      have hal := smart_rep b' n (.rep b' n) s hsa.1 hmk h
      refine ⟨wf_fromRepetition b' n hw'.2 s hsa.1 h, ?_, ?_, ?_⟩
      · rw [hal.1]; simp only [duration, hsa.2.1]
      · intro k; rw [hal.2.1 k]; simp only [channels]; exact hsa.2.2.1 k
      · intro k hk t h0 hle
        simp only [duration] at hle
        rw [hal.2.2 k (by simp only [channels]; exact (hsa.2.2.1 k).mpr hk) t h0
          (by simp only [duration, hsa.2.1]; exact hle)]
        simp only [sample, hsa.2.1]
        exact repSample_congr _ _ _ (fun t' a b'' => hsa.2.2.2 k hk t' a b'') n t
  | trans i tr ih =>
    intro hw chs s hne hsub h
    simp only [unsafeSubset] at h
    injection h with h; subst h
    refine ⟨?_, by simp [duration], by intro k; simp only [channels]; exact mem_sortChans chs k,
      fun _ _ _ _ _ => by simp [sample]⟩
    rw [show wf (Wf.subset (.trans i tr) (sortChans chs)) =
      (wf (.trans i tr) && subsetOf (sortChans chs) (channels (.trans i tr))) from by simp only [wf]]
    rw [hw, Bool.true_and, subsetOf_iff]
    intro c hc; exact hsub c ((mem_sortChans chs c).mp hc)
  | subset i cs ih =>
    intro hw chs s hne hsub h
    have hw' := hw
    simp [wf] at hw'
    simp only [channels] at hsub
    have hcs := (subsetOf_iff _ _).mp hw'.2
    simp only [unsafeSubset] at h
    have hsubi : subsetOf chs (channels i) = true := (subsetOf_iff _ _).mpr (fun c hc => hcs c (hsub c hc))
    simp only [hsubi, Bool.not_true, Bool.false_eq_true, if_false] at h
    split at h
    · rename_i hsame
      injection h with h; subst h
      have hs := (sameSet_iff _ _).mp hsame
      exact ⟨hw'.1, by simp [duration], fun k => (hs k).symm, fun _ _ _ _ _ => by simp [sample]⟩
    · have := ih hw'.1 chs s hne (fun c hc => hcs c (hsub c hc)) h
      exact ⟨this.1, by simpa [duration] using this.2.1, this.2.2.1,
        fun k hk t h0 hle => by simpa [sample] using this.2.2.2 k hk t h0 (by simpa [duration] using hle)⟩
  | arith l op r ihl ihr =>
    intro hw chs s hne hsub h
    simp only [unsafeSubset] at h
    injection h with h; subst h
    refine ⟨?_, by simp [duration], by intro k; simp only [channels]; exact mem_sortChans chs k,
      fun _ _ _ _ _ => by simp [sample]⟩
    rw [show wf (Wf.subset (.arith l op r) (sortChans chs)) =
      (wf (.arith l op r) && subsetOf (sortChans chs) (channels (.arith l op r))) from by simp only [wf]]
    rw [hw, Bool.true_and, subsetOf_iff]
    intro c hc; exact hsub c ((mem_sortChans chs c).mp hc)
  | functor i fs ih =>
    intro hw chs s hne hsub h
    have hw' := hw
    simp [wf] at hw'
    simp only [channels] at hsub
    simp only [unsafeSubset] at h
    cases hi : unsafeSubset i chs with
    | error e => simp [hi] at h
    | ok i' =>
      simp only [hi] at h
      cases hr : restrictFunctors fs chs with
      | none => simp [hr] at h
      | some fs' =>
        simp only [hr] at h
        have hsa := ih hw'.1 chs i' hne hsub hi
        obtain ⟨f1, f2⟩ := restrictFunctors_spec fs chs fs' hr
        have hkeys : sameSet (dkeys fs') (channels i') = true := by
          rw [sameSet_iff]
          intro k
          rw [hsa.2.2.1 k]
          constructor
          · intro hk
            by_cases hc : k ∈ chs
            · exact hc
            · have := keys_of_lookup fs' k hk
              rw [f2 k hc] at this; simp at this
          · intro hk
            have := f1 k hk
            cases hl : fs'.lookup k with
            | none => rw [hl] at this; rw [← this.1] at this; simp at this
            | some v => exact lookup_some_keys fs' k v hl
        have hmk : mkFunctor i' fs' = .ok (.functor i' fs') := by simp [mkFunctor, hkeys]
        have hal := smart_functor i' fs' (.functor i' fs') s hsa.1 hmk h
        refine ⟨wf_fromFunctor i' fs' s hsa.1 h, ?_, ?_, ?_⟩
        · rw [hal.1]; simp only [duration]; exact hsa.2.1
        · intro k; rw [hal.2.1 k]; simp only [channels]; exact hsa.2.2.1 k
        · intro k hk t h0 hle
          simp only [duration] at hle
          rw [hal.2.2 k (by simp only [channels]; exact (hsa.2.2.1 k).mpr hk) t h0
            (by simp only [duration, hsa.2.1]; exact hle)]
          simp only [sample, (f1 k hk).1, hsa.2.2.2 k hk t h0 hle]
  | reversed i ih =>
    intro hw chs s hne hsub h
    have hw' := hw
    simp [wf] at hw'
    simp only [channels] at hsub
    simp only [unsafeSubset] at h
    cases hi : unsafeSubset i chs with
    | error e => simp [hi] at h
    | ok i' =>
      simp [hi] at h
      subst h
      have hsa := ih hw' chs i' hne hsub hi
      have hal := smart_reverse i' hsa.1
      refine ⟨wf_fromToReverse i' hsa.1, ?_, ?_, ?_⟩
      · rw [hal.1]; simp only [duration]; exact hsa.2.1
      · intro k; rw [hal.2.1 k]; simp only [channels]; exact hsa.2.2.1 k
      · intro k hk t h0 hle
        simp only [duration] at hle
        rw [hal.2.2 k (by simp only [channels]; exact (hsa.2.2.1 k).mpr hk) t h0
          (by simp only [duration, hsa.2.1]; exact hle)]
        simp only [sample, hsa.2.1]
        exact hsa.2.2.2 k hk (duration i - t) (by grind) (by grind)

/-- `get_subset_for_channels(chs)` on a well-formed waveform -/
theorem getSubset_alike (w : Wf) (hw : wf w = true) (chs : List Chan) (s : Wf) (hne : chs ≠ [])
    (h : getSubset w chs = .ok s) : SubsetAlike s w chs := by
  simp only [getSubset] at h
  split at h
  · cases h
  · rename_i hsub
    have hsub' : ∀ c ∈ chs, c ∈ channels w := (subsetOf_iff _ _).mp (by simpa using hsub)
    split at h
    · rename_i hsame
      injection h with h; subst h
      exact ⟨hw, rfl, fun k => ((sameSet_iff _ _).mp hsame k).symm, fun _ _ _ _ _ => rfl⟩
    · exact subset_aux w hw chs s hne hsub' h

end QP.C08
