import QP.Model.C18
/-! Helper lemmas for C18: association lists, the judge, slot lemmas. -/
namespace QP.C18

section AList
variable {κ β : Type} [DecidableEq κ]

@[simp] theorem aget_nil (k : κ) : aget k ([] : List (κ × β)) = none := rfl

theorem aget_cons (k : κ) (kv : κ × β) (l : List (κ × β)) :
    aget k (kv :: l) = if kv.1 = k then some kv.2 else aget k l := rfl

theorem aget_adel_self (k : κ) (l : List (κ × β)) : aget k (adel k l) = none := by
  induction l with
  | nil => rfl
  | cons kv l ih =>
    simp only [adel] at ih
    by_cases h : kv.1 = k
    · simp [adel, List.filter_cons, h, ih]
    · simp [adel, List.filter_cons, h, aget_cons, ih]

theorem aget_adel_ne {k k' : κ} (h : k' ≠ k) (l : List (κ × β)) : aget k' (adel k l) = aget k' l := by
  induction l with
  | nil => rfl
  | cons kv l ih =>
    obtain ⟨a, b⟩ := kv
    simp only [adel] at ih ⊢
    rw [List.filter_cons]
    by_cases h1 : a = k
    · subst h1
      have h' : ¬ a = k' := fun e => h e.symm
      simp [aget_cons, h', ih]
    · by_cases h2 : a = k'
      · subst h2; simp [h1, aget_cons]
      · simp [h1, aget_cons, h2, ih]

theorem aget_aput_self (k : κ) (v : β) (l : List (κ × β)) : aget k (aput k v l) = some v := by
  simp [aput, aget_cons]

theorem aget_aput_ne {k k' : κ} (h : k' ≠ k) (v : β) (l : List (κ × β)) : aget k' (aput k v l) = aget k' l := by
  simp [aput, aget_cons, Ne.symm h, aget_adel_ne h]

theorem aget_mem {k : κ} {v : β} {l : List (κ × β)} (h : aget k l = some v) : (k, v) ∈ l := by
  induction l with
  | nil => simp at h
  | cons kv l ih =>
    rw [aget_cons] at h
    by_cases h1 : kv.1 = k
    · simp [h1] at h
      have : kv = (k, v) := by cases kv; simp_all
      simp [this]
    · simp [h1] at h
      exact List.mem_cons_of_mem _ (ih h)

theorem allGet_iff [DecidableEq β] (l : List (κ × β)) (P : κ → β → Bool) :
    allGet l P = true ↔ ∀ k v, aget k l = some v → P k v = true := by
  unfold allGet
  rw [List.all_eq_true]
  constructor
  · intro h k v hk
    have := h (k, v) (aget_mem hk)
    simpa [hk] using this
  · intro h kv _
    by_cases hk : aget kv.1 l = some kv.2
    · simp [hk, h _ _ hk]
    · simp [hk]

end AList

theorem allIdx_iff {α : Type} (l : List α) (P : Nat → α → Bool) :
    allIdx l P = true ↔ ∀ i x, l[i]? = some x → P i x = true := by
  unfold allIdx
  rw [List.all_eq_true]
  constructor
  · intro h i x hx
    exact h (x, i) (List.mem_zipIdx_iff_getElem?.2 hx)
  · intro h xi hxi
    exact h xi.2 xi.1 (List.mem_zipIdx_iff_getElem?.1 hxi)

theorem mem_dedup {α : Type} (same : α → α → Bool) {x : α} {l : List α} (h : x ∈ dedup same l) : x ∈ l := by
  induction l with
  | nil => simp [dedup] at h
  | cons y l ih =>
    simp only [dedup, List.mem_cons, List.mem_filter] at h
    rcases h with h | ⟨h, _⟩
    · simp [h]
    · exact List.mem_cons_of_mem _ (ih h)

/-! ## the judge decides the invariant -/

theorem wfChanB_iff (s : State) : wfChanB s = true ↔
    ∀ c outs, aget c s.chanMap = some outs → ∀ o ∈ outs, inRange s o = true := by
  simp only [wfChanB, allGet_iff, List.all_eq_true]

theorem wfMeasB_iff (s : State) : wfMeasB s = true ↔
    ∀ μ ms, aget μ s.measMap = some ms → ∀ m ∈ ms, knownMask s m = true := by
  simp only [wfMeasB, allGet_iff, List.all_eq_true]

theorem regAwgsB_iff (s : State) : regAwgsB s = true ↔
    ∀ n r, aget n s.registered = some r → (∀ a ∈ r.awgs, Participates s r.channels a) ∧
      (∀ c ∈ r.channels, ∀ o ∈ wired s.chanMap c, o.awg ∈ r.awgs) := by
  simp only [regAwgsB, allGet_iff, decide_eq_true_iff]

theorem regDacsB_iff (s : State) : regDacsB s = true ↔
    ∀ n r, aget n s.registered = some r → (∀ d ∈ r.dacs, ParticipatesD s r.meas d) ∧
      (∀ x ∈ r.meas, ∀ m ∈ wiredM s.measMap x.1, m.dac ∈ r.dacs) := by
  simp only [regDacsB, allGet_iff, decide_eq_true_iff]

theorem awgHeldB_iff (s : State) : awgHeldB s = true ↔
    ∀ a g, s.awgs[a]? = some g → ∀ n u, aget n g.progs = some u →
      ∃ r, aget n s.registered = some r ∧ (Participates s r.channels a ∧ UploadOK s r a g u) := by
  simp only [awgHeldB, allIdx_iff, allGet_iff, decide_eq_true_iff]

theorem awgHoldsB_iff (s : State) : awgHoldsB s = true ↔
    ∀ a g, s.awgs[a]? = some g → ∀ n r, aget n s.registered = some r →
      Participates s r.channels a → (aget n g.progs).isSome = true := by
  simp only [awgHoldsB, allIdx_iff, allGet_iff, decide_eq_true_iff]

theorem dacHeldB_iff (s : State) : dacHeldB s = true ↔
    ∀ d g, s.dacs[d]? = some g → ∀ n w, aget n g.progs = some w →
      ∃ r, aget n s.registered = some r ∧ (ParticipatesD s r.meas d ∧ MasksOK s r d w) := by
  simp only [dacHeldB, allIdx_iff, allGet_iff, decide_eq_true_iff]

theorem dacHoldsB_iff (s : State) : dacHoldsB s = true ↔
    ∀ d g, s.dacs[d]? = some g → ∀ n r, aget n s.registered = some r →
      ParticipatesD s r.meas d → (aget n g.progs).isSome = true := by
  simp only [dacHoldsB, allIdx_iff, allGet_iff, decide_eq_true_iff]

theorem healthyAB_iff (s : State) : healthyAB s = true ↔ ∀ g ∈ s.awgs, g.fault = 0 := by
  simp only [healthyAB, List.all_eq_true, decide_eq_true_iff]

theorem healthyDB_iff (s : State) : healthyDB s = true ↔ ∀ g ∈ s.dacs, g.fault = 0 := by
  simp only [healthyDB, List.all_eq_true, decide_eq_true_iff]

theorem invB_iff' (s : State) : invB s = true ↔ Inv s := by
  simp only [invB, Bool.and_eq_true, wfChanB_iff, wfMeasB_iff, regAwgsB_iff, regDacsB_iff, awgHeldB_iff,
    awgHoldsB_iff, dacHeldB_iff, dacHoldsB_iff, healthyAB_iff, healthyDB_iff]
  constructor
  · rintro ⟨⟨⟨⟨⟨⟨⟨⟨⟨h1, h2⟩, h3⟩, h4⟩, h5⟩, h6⟩, h7⟩, h8⟩, h9⟩, h10⟩
    exact ⟨h1, h2, h3, h4, h5, h6, h7, h8, h9, h10⟩
  · rintro ⟨h1, h2, h3, h4, h5, h6, h7, h8, h9, h10⟩
    exact ⟨⟨⟨⟨⟨⟨⟨⟨⟨h1, h2⟩, h3⟩, h4⟩, h5⟩, h6⟩, h7⟩, h8⟩, h9⟩, h10⟩

theorem judge_ok_iff (s : State) : judge s = "ok" ↔ invB s = true := by
  unfold judge invB
  cases wfChanB s <;> cases wfMeasB s <;> cases regAwgsB s <;> cases regDacsB s <;> cases awgHeldB s <;>
    cases awgHoldsB s <;> cases dacHeldB s <;> cases dacHoldsB s <;> cases healthyAB s <;> cases healthyDB s <;> simp

/-! ## congruence: the invariant's clauses read the wiring maps and the device sizes only -/

theorem uploadOK_congr {s s' : State} {r : Reg} {a : AwgId} {g g' : Awg} {u : Upload}
    (hcm : s'.chanMap = s.chanMap) (h1 : g'.nch = g.nch) (h2 : g'.nmk = g.nmk) :
    UploadOK s' r a g' u ↔ UploadOK s r a g u := by
  unfold UploadOK PlaybackSlotOK MarkerSlotOK
  rw [hcm, h1, h2]

theorem masksOK_congr {s s' : State} {r : Reg} {d : DacId} {w : List (Mask × Windows)}
    (hmm : s'.measMap = s.measMap) : MasksOK s' r d w ↔ MasksOK s r d w := by
  unfold MasksOK
  rw [hmm]

theorem participates_congr {s s' : State} {chans : List Chan} {a : AwgId}
    (hcm : s'.chanMap = s.chanMap) : Participates s' chans a ↔ Participates s chans a := by
  unfold Participates
  rw [hcm]

theorem participatesD_congr {s s' : State} {meas : List (MName × Windows)} {d : DacId}
    (hmm : s'.measMap = s.measMap) : ParticipatesD s' meas d ↔ ParticipatesD s meas d := by
  unfold ParticipatesD
  rw [hmm]

/-- frame rule: an operation that touches only the entries of one program name `n` (new record `rnew`,
`none` = removed) and leaves the wiring alone preserves the invariant, provided the entries for `n` are
right on every device. -/
theorem inv_update (s s' : State) (n : Name) (rnew : Option Reg) (hI : Inv s)
    (hcm : s'.chanMap = s.chanMap) (hmm : s'.measMap = s.measMap)
    (hregn : aget n s'.registered = rnew)
    (hreg : ∀ n', n' ≠ n → aget n' s'.registered = aget n' s.registered)
    (hrecA : ∀ r, rnew = some r → (∀ a ∈ r.awgs, Participates s r.channels a) ∧
        (∀ c ∈ r.channels, ∀ o ∈ wired s.chanMap c, o.awg ∈ r.awgs))
    (hrecD : ∀ r, rnew = some r → (∀ d ∈ r.dacs, ParticipatesD s r.meas d) ∧
        (∀ x ∈ r.meas, ∀ m ∈ wiredM s.measMap x.1, m.dac ∈ r.dacs))
    (hfwdA : ∀ (a : AwgId) (g : Awg), s.awgs[a]? = some g → ∃ g', s'.awgs[a]? = some g')
    (hlenD : s'.dacs.length = s.dacs.length)
    (hhA : ∀ g' ∈ s'.awgs, g'.fault = 0) (hhD : ∀ g' ∈ s'.dacs, g'.fault = 0)
    (hawg : ∀ (a : AwgId) (g' : Awg), s'.awgs[a]? = some g' → ∃ g, s.awgs[a]? = some g ∧ g'.nch = g.nch ∧ g'.nmk = g.nmk ∧
        (∀ n', n' ≠ n → aget n' g'.progs = aget n' g.progs) ∧
        (∀ u, aget n g'.progs = some u → ∃ r, rnew = some r ∧ Participates s r.channels a ∧ UploadOK s r a g u) ∧
        (∀ r, rnew = some r → Participates s r.channels a → (aget n g'.progs).isSome = true))
    (hdac : ∀ (d : DacId) (g' : Dac), s'.dacs[d]? = some g' → ∃ g, s.dacs[d]? = some g ∧
        (∀ n', n' ≠ n → aget n' g'.progs = aget n' g.progs) ∧
        (∀ w, aget n g'.progs = some w → ∃ r, rnew = some r ∧ ParticipatesD s r.meas d ∧ MasksOK s r d w) ∧
        (∀ r, rnew = some r → ParticipatesD s r.meas d → (aget n g'.progs).isSome = true)) :
    Inv s' := by
  have regEq : ∀ n' r, aget n' s'.registered = some r →
      (n' = n ∧ rnew = some r) ∨ (n' ≠ n ∧ aget n' s.registered = some r) := by
    intro n' r h
    by_cases e : n' = n
    · subst e; left; exact ⟨rfl, by rw [← hregn, h]⟩
    · right; exact ⟨e, by rw [← hreg n' e, h]⟩
  refine ⟨?_, ?_, ?_, ?_, ?_, ?_, ?_, ?_, hhA, hhD⟩
  · -- wfChan
    intro c outs hc o ho
    rw [hcm] at hc
    have := hI.wfChan c outs hc o ho
    unfold inRange at this ⊢
    cases hg : s.awgs[o.awg]? with
    | none => simp [hg] at this
    | some g =>
      obtain ⟨g', hg'⟩ := hfwdA _ _ hg
      obtain ⟨g2, hg2, e1, e2, _⟩ := hawg _ _ hg'
      have : g2 = g := by rw [hg] at hg2; exact (Option.some.inj hg2).symm
      subst this
      rw [hg] at this
      rw [hg']
      cases hk : o.kind <;> simp_all [Awg.size]
  · -- wfMeas
    intro μ ms hμ m hm
    rw [hmm] at hμ
    have := hI.wfMeas μ ms hμ m hm
    simpa [knownMask, hlenD] using this
  · -- regAwgs
    intro n' r h
    rcases regEq n' r h with ⟨_, e⟩ | ⟨_, e⟩
    · obtain ⟨h1, h2⟩ := hrecA r e
      exact ⟨fun a ha => (participates_congr hcm).2 (h1 a ha), by rw [hcm]; exact h2⟩
    · obtain ⟨h1, h2⟩ := hI.regAwgs n' r e
      exact ⟨fun a ha => (participates_congr hcm).2 (h1 a ha), by rw [hcm]; exact h2⟩
  · -- regDacs
    intro n' r h
    rcases regEq n' r h with ⟨_, e⟩ | ⟨_, e⟩
    · obtain ⟨h1, h2⟩ := hrecD r e
      exact ⟨fun a ha => (participatesD_congr hmm).2 (h1 a ha), by rw [hmm]; exact h2⟩
    · obtain ⟨h1, h2⟩ := hI.regDacs n' r e
      exact ⟨fun a ha => (participatesD_congr hmm).2 (h1 a ha), by rw [hmm]; exact h2⟩
  · -- awgHeld
    intro a g' hg' n' u hu
    obtain ⟨g, hg, e1, e2, hother, hheld, _⟩ := hawg a g' hg'
    by_cases e : n' = n
    · subst e
      obtain ⟨r, hr, hp, hu'⟩ := hheld u hu
      exact ⟨r, by rw [hregn, hr], (participates_congr hcm).2 hp, (uploadOK_congr hcm e1 e2).2 hu'⟩
    · rw [hother n' e] at hu
      obtain ⟨r, hr, hp, hu'⟩ := hI.awgHeld a g hg n' u hu
      exact ⟨r, by rw [hreg n' e, hr], (participates_congr hcm).2 hp, (uploadOK_congr hcm e1 e2).2 hu'⟩
  · -- awgHolds
    intro a g' hg' n' r hr hp
    obtain ⟨g, hg, _, _, hother, _, hholds⟩ := hawg a g' hg'
    have hp' := (participates_congr hcm).1 hp
    rcases regEq n' r hr with ⟨e, er⟩ | ⟨e, er⟩
    · subst e; exact hholds r er hp'
    · rw [hother n' e]; exact hI.awgHolds a g hg n' r er hp'
  · -- dacHeld
    intro d g' hg' n' w hw
    obtain ⟨g, hg, hother, hheld, _⟩ := hdac d g' hg'
    by_cases e : n' = n
    · subst e
      obtain ⟨r, hr, hp, hw'⟩ := hheld w hw
      exact ⟨r, by rw [hregn, hr], (participatesD_congr hmm).2 hp, (masksOK_congr hmm).2 hw'⟩
    · rw [hother n' e] at hw
      obtain ⟨r, hr, hp, hw'⟩ := hI.dacHeld d g hg n' w hw
      exact ⟨r, by rw [hreg n' e, hr], (participatesD_congr hmm).2 hp, (masksOK_congr hmm).2 hw'⟩
  · -- dacHolds
    intro d g' hg' n' r hr hp
    obtain ⟨g, hg, hother, _, hholds⟩ := hdac d g' hg'
    have hp' := (participatesD_congr hmm).1 hp
    rcases regEq n' r hr with ⟨e, er⟩ | ⟨e, er⟩
    · subst e; exact hholds r er hp'
    · rw [hother n' e]; exact hI.dacHolds d g hg n' r er hp'

end QP.C18
