import QP.Model.PT
import QP.Proofs.PTExist
import QP.Proofs.PTCompile
/-! Existence of the denotation, builder side: sequences, repetitions, iterations and mappings of atoms that denote
something whenever they compile denote something whenever they compile — provided all played waveforms define the
same channel set (what sequencing demands of its parts) and have positive duration. -/
namespace QP.PT

/-- every leaf of the nodes defines exactly the channels `S` -/
def ptUniform (S : List Chan) (nodes : List Loop) : Prop :=
  ∀ cs ∈ Loop.leafChannelsList nodes, ∀ x, x ∈ cs ↔ x ∈ S

def CompileEx (pt : PT) : Prop :=
  ∀ σ mm cm items S, internal pt (ctx0 σ mm cm) = .ok items → Loop.allPosList (nodesOf items) →
    ptUniform S (nodesOf items) → ∃ P, denote pt σ mm cm = .ok P

/-- atoms that are correct and denote something whenever they compile, composed by the builder -/
inductive BasicE : PT → Prop
  | const {id dur amps meas} : AtomOK (.const id dur amps meas) → AtomEx (.const id dur amps meas) →
      BasicE (.const id dur amps meas)
  | table {id entries meas cons} : AtomOK (.table id entries meas cons) → AtomEx (.table id entries meas cons) →
      BasicE (.table id entries meas cons)
  | point {id chans entries meas cons} : AtomOK (.point id chans entries meas cons) →
      AtomEx (.point id chans entries meas cons) → BasicE (.point id chans entries meas cons)
  | func {id ch dur e meas cons} : AtomOK (.func id ch dur e meas cons) → AtomEx (.func id ch dur e meas cons) →
      BasicE (.func id ch dur e meas cons)
  | seq {id subs meas cons} : (∀ p ∈ subs, BasicE p) → BasicE (.seq id subs meas cons)
  | rep {id body count meas cons} : BasicE body → BasicE (.rep id body count meas cons)
  | forLoop {id body idx start stop step meas cons} : BasicE body →
      BasicE (.forLoop id body idx start stop step meas cons)
  | mapping {id body pm mm cm cons} : BasicE body → BasicE (.mapping id body pm mm cm cons)

theorem BasicE.basic {pt : PT} (h : BasicE pt) : Basic pt := by
  induction h with
  | const h _ => exact Basic.const h
  | table h _ => exact Basic.table h
  | point h _ => exact Basic.point h
  | func h _ => exact Basic.func h
  | seq _ ih => exact Basic.seq ih
  | rep _ ih => exact Basic.rep ih
  | forLoop _ ih => exact Basic.forLoop ih
  | mapping _ ih => exact Basic.mapping ih

mutual
theorem ptLeaf_ne : ∀ l : Loop, l.allPosB = true → l.leafChannels ≠ []
  | .mk _ none _ [], h => by simp [Loop.allPosB] at h
  | .mk _ (some w) _ [], _ => by simp [Loop.leafChannels]
  | .mk _ _ _ (x :: xs), h => by
      simp only [Loop.allPosB, Bool.and_eq_true] at h
      simp only [Loop.leafChannels]
      exact ptLeafList_ne (x :: xs) h.2 (by simp)
theorem ptLeafList_ne : ∀ cs : List Loop, Loop.allPosListB cs = true → cs ≠ [] → Loop.leafChannelsList cs ≠ []
  | [], _, h => absurd rfl h
  | x :: xs, h, _ => by
      simp only [Loop.allPosListB, Bool.and_eq_true] at h
      simp only [Loop.leafChannelsList, ne_eq, List.append_eq_nil_iff, not_and]
      intro h0
      exact absurd h0 (ptLeaf_ne x h.1)
end

/-- two parts whose leaves all define the same channels can be sequenced -/
theorem ptAppend_ex {a b : List Item} {Pa Pb : Pulse} {S : List Chan} (ha : Rel a Pa) (hb : Rel b Pb)
    (hpa : Loop.allPosList (nodesOf a)) (hpb : Loop.allPosList (nodesOf b))
    (hua : ptUniform S (nodesOf a)) (hub : ptUniform S (nodesOf b)) : ∃ P, Pa.append Pb = .ok P := by
  unfold Pulse.append
  rcases Bool.eq_false_or_eq_true Pa.isEmpty with h1 | h1
  · exact ⟨Pb, by simp [h1]⟩
  · rcases Bool.eq_false_or_eq_true Pb.isEmpty with h2 | h2
    · exact ⟨Pa, by simp [h1, h2]⟩
    · have hna : nodesOf a ≠ [] := by
        intro h0
        have := ha.empty.mp h0
        simp [Pulse.isEmpty, this] at h1
      have hnb : nodesOf b ≠ [] := by
        intro h0
        have := hb.empty.mp h0
        simp [Pulse.isEmpty, this] at h2
      obtain ⟨ca, cas, hca⟩ := List.exists_cons_of_ne_nil (ptLeafList_ne _ hpa hna)
      obtain ⟨cb, cbs, hcb⟩ := List.exists_cons_of_ne_nil (ptLeafList_ne _ hpb hnb)
      have hma : ca ∈ Loop.leafChannelsList (nodesOf a) := by rw [hca]; simp
      have hmb : cb ∈ Loop.leafChannelsList (nodesOf b) := by rw [hcb]; simp
      have hsame : sameSet Pa.chanNames Pb.chanNames = true := by
        simp only [sameSet, Bool.and_eq_true, List.all_eq_true, List.contains_iff_mem]
        constructor
        · intro x hx
          have := (ha.chans ca hma x).mpr hx
          have := (hua ca hma x).mp this
          have := (hub cb hmb x).mpr this
          exact (hb.chans cb hmb x).mp this
        · intro x hx
          have := (hb.chans cb hmb x).mpr hx
          have := (hub cb hmb x).mp this
          have := (hua ca hma x).mpr this
          exact (ha.chans ca hma x).mp this
      simp only [h1, h2, hsame, Bool.false_eq_true, if_false, Bool.not_true]
      exact ⟨_, rfl⟩

theorem ptUniform_append {S : List Chan} {a b : List Loop} (h : ptUniform S (a ++ b)) :
    ptUniform S a ∧ ptUniform S b := by
  constructor
  · intro cs hcs; exact h cs (by rw [leafChannelsList_append]; exact List.mem_append_left _ hcs)
  · intro cs hcs; exact h cs (by rw [leafChannelsList_append]; exact List.mem_append_right _ hcs)

theorem list_ex (subs : List PT) (ihe : ∀ p ∈ subs, CompileEx p) (ihb : ∀ p ∈ subs, CompileOK p) (σ : Scope)
    (mm : List (MName × Option MName)) (cm : List (Chan × Option Chan)) (S : List Chan) :
    ∀ its, internalList subs (ctx0 σ mm cm) = .ok its → Loop.allPosList (nodesOf its) →
      ptUniform S (nodesOf its) →
      ∃ parts p, denoteList subs σ mm cm = .ok parts ∧ Pulse.appendAll parts = .ok p := by
  induction subs with
  | nil =>
    intro its _ _ _
    exact ⟨[], Pulse.empty, rfl, rfl⟩
  | cons q qs ihq =>
    intro its h1 hpos hu
    simp only [internalList, bind_ok, pure_ok] at h1
    obtain ⟨a, ha, b, hb, rfl⟩ := h1
    rw [wrapSingle_nil _ _ _ rfl] at ha
    rw [nodesOf_append, allPosList_append] at hpos
    rw [nodesOf_append] at hu
    obtain ⟨hua, hub⟩ := ptUniform_append hu
    obtain ⟨Pa, hPa⟩ := ihe q (by simp) σ mm cm a S ha hpos.1 hua
    obtain ⟨parts, r, hparts, hr⟩ := ihq (fun p hp => ihe p (by simp [hp])) (fun p hp => ihb p (by simp [hp]))
      b hb hpos.2 hub
    have hrela := ihb q (by simp) σ mm cm a Pa ha hPa hpos.1
    have hrelb := list_rel qs (fun p hp => ihb p (by simp [hp])) σ mm cm b parts r hb hparts hr hpos.2
    obtain ⟨P, hP⟩ := ptAppend_ex hrela hrelb hpos.1 hpos.2 hua hub
    refine ⟨Pa :: parts, P, ?_, ?_⟩
    · simp only [denoteList]
      exact bind_ok.mpr ⟨Pa, hPa, bind_ok.mpr ⟨parts, hparts, rfl⟩⟩
    · simp only [Pulse.appendAll]
      exact bind_ok.mpr ⟨r, hr, hP⟩

theorem range_ex (body : PT) (ihe : CompileEx body) (ihb : CompileOK body) (σ : Scope) (idx : String)
    (mm : List (MName × Option MName)) (cm : List (Chan × Option Chan)) (S : List Chan) (rng : List Int) :
    ∀ its,
      rng.flatMapM (fun (i : Int) => wrapSingle body.ident
        { ctx0 σ mm cm with scope := .range σ idx (i : Rat) } (internal body)) = .ok its →
      Loop.allPosList (nodesOf its) → ptUniform S (nodesOf its) →
      ∃ parts p, rng.mapM (fun (i : Int) => denote body (.range σ idx (i : Rat)) mm cm) = .ok parts ∧
        Pulse.appendAll parts = .ok p := by
  induction rng with
  | nil =>
    intro its _ _ _
    exact ⟨[], Pulse.empty, rfl, rfl⟩
  | cons i is ihr =>
    intro its h1 hpos hu
    simp only [List.flatMapM_cons, bind_ok, pure_ok] at h1
    obtain ⟨a, ha, b, hb, rfl⟩ := h1
    rw [wrapSingle_nil _ _ _ rfl] at ha
    rw [nodesOf_append, allPosList_append] at hpos
    rw [nodesOf_append] at hu
    obtain ⟨hua, hub⟩ := ptUniform_append hu
    obtain ⟨Pa, hPa⟩ := ihe (.range σ idx (i : Rat)) mm cm a S ha hpos.1 hua
    obtain ⟨parts, r, hparts, hr⟩ := ihr b hb hpos.2 hub
    have hrela := ihb (.range σ idx (i : Rat)) mm cm a Pa ha hPa hpos.1
    have hrelb := range_rel body ihb σ idx mm cm is b parts r hb hparts hr hpos.2
    obtain ⟨P, hP⟩ := ptAppend_ex hrela hrelb hpos.1 hpos.2 hua hub
    refine ⟨Pa :: parts, P, ?_, ?_⟩
    · simp only [List.mapM_cons]
      exact bind_ok.mpr ⟨Pa, hPa, bind_ok.mpr ⟨parts, hparts, rfl⟩⟩
    · simp only [Pulse.appendAll]
      exact bind_ok.mpr ⟨r, hr, hP⟩

theorem compile_ex {pt : PT} (hb : BasicE pt) : CompileEx pt := by
  induction hb with
  | const _ h => intro σ mm cm items S h1 _ _; simp only [internal] at h1; exact h σ mm cm items h1
  | table _ h => intro σ mm cm items S h1 _ _; simp only [internal] at h1; exact h σ mm cm items h1
  | point _ h => intro σ mm cm items S h1 _ _; simp only [internal] at h1; exact h σ mm cm items h1
  | func _ h => intro σ mm cm items S h1 _ _; simp only [internal] at h1; exact h σ mm cm items h1
  | @seq id subs meas cons hsub ih =>
    intro σ mm cm items S h1 hpos hu
    simp only [internal, ctx0, bind_ok, pure_ok] at h1
    obtain ⟨u, hu', ms, hms, its, hits, rfl⟩ := h1
    rw [nodesOf_guardRun] at hpos hu
    obtain ⟨parts, p, hparts, hp⟩ := list_ex subs ih (fun q hq => compile_rel (hsub q hq).basic) σ mm cm S its
      hits hpos hu
    simp only [denote]
    exact ptBindEx hu' (ptBindEx hms (ptBindEx hparts (ptBindEx hp ⟨_, rfl⟩)))
  | @rep id body count meas cons hbody ih =>
    intro σ mm cm items S h1 hpos hu
    simp only [internal, ctx0, bind_ok] at h1
    obtain ⟨u, hu', c, hc, h1⟩ := h1
    simp only [denote]
    apply ptBindEx hu'
    apply ptBindEx hc
    cases hn : checkedInt c with
    | none => simp [hn] at h1
    | some n =>
      simp only [hn] at h1 ⊢
      by_cases hle : n ≤ 0
      · simp only [hle, if_true]
        exact ⟨_, rfl⟩
      · simp only [hle, if_false, bind_ok, pure_ok] at h1
        simp only [hle, if_false]
        obtain ⟨ms, hms, its, hits, rfl⟩ := h1
        rw [wrapSingle_nil _ _ _ rfl] at hits
        have hfacts : Loop.allPosList (nodesOf its) ∧ ptUniform S (nodesOf its) := by
          rcases allPos_of_tryAppend hpos with he | hL
          · rw [applyItems_eq] at he
            simp only [Loop.isEmpty, Loop.wf, Loop.children, List.nil_append, Option.isNone_none,
              Bool.true_and, List.isEmpty_iff] at he
            rw [he]
            exact ⟨allPosList_nil, by intro cs hcs; simp [Loop.leafChannelsList] at hcs⟩
          · rw [applyItems_eq] at hL hu
            simp only [List.nil_append] at hL hu
            cases hcs : nodesOf its with
            | nil => exact ⟨allPosList_nil, by intro cs hcs; simp [Loop.leafChannelsList] at hcs⟩
            | cons c0 cs0 =>
              rw [hcs] at hL hu
              simp only [Loop.allPos, Loop.allPosB, Bool.and_eq_true] at hL
              refine ⟨hL.2, ?_⟩
              have hne : (Loop.mk n.toNat none (measW its 0 ++ []) (c0 :: cs0)).isEmpty = false := by
                simp [Loop.isEmpty, Loop.wf, Loop.children]
              simp only [Loop.durationList, tryAppend] at hu
              intro cs hcs
              apply hu cs
              simp only [List.append_nil] at hne
              simp only [hne, Bool.false_eq_true, if_false, nodesOf, Loop.leafChannelsList, Loop.leafChannels,
                List.append_nil]
              exact hcs
        obtain ⟨b, hbd⟩ := ih σ mm cm its S hits hfacts.1 hfacts.2
        apply ptBindEx hms
        apply ptBindEx hbd
        split <;> exact ⟨_, rfl⟩
  | @forLoop id body idx start stop step meas cons hbody ih =>
    intro σ mm cm items S h1 hpos hu
    simp only [internal, ctx0, bind_ok] at h1
    obtain ⟨u, hu', a, ha, ai, hai, b, hb, bi, hbi, s, hs, si, hsi, h1⟩ := h1
    simp only [denote]
    apply ptBindEx hu'
    apply ptBindEx ha
    apply ptBindEx hai
    apply ptBindEx hb
    apply ptBindEx hbi
    apply ptBindEx hs
    apply ptBindEx hsi
    by_cases hz : si = 0
    · simp [hz] at h1
    · simp only [hz, if_false, bind_ok, pure_ok] at h1
      simp only [hz, if_false]
      obtain ⟨ms, hms, its, hits, rfl⟩ := h1
      rw [nodesOf_guardRun] at hpos hu
      obtain ⟨parts, p, hparts, hp⟩ := range_ex body ih (compile_rel hbody.basic) σ idx mm cm S (pyRange ai bi si)
        its hits hpos hu
      exact ptBindEx hms (ptBindEx hparts (ptBindEx hp ⟨_, rfl⟩))
  | @mapping id body pm mm' cm' cons hbody ih =>
    intro σ mm cm items S h1 hpos hu
    simp only [internal, ctx0, bind_ok] at h1
    obtain ⟨u, hu', mmU, hmm, cmU, hcm, h1⟩ := h1
    rw [wrapSingle_nil _ _ _ rfl] at h1
    simp only [denote]
    apply ptBindEx hu'
    apply ptBindEx hmm
    apply ptBindEx hcm
    exact ih (.mapped σ pm) mmU cmU items S h1 hpos hu

end QP.PT
