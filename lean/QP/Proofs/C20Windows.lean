import QP.Proofs.C20Code
/-! Helper lemmas for C20: `time_windows_to_samples`, `shrink_overlapping_windows`. -/
namespace QP.C20

/-! ### time windows to samples -/

theorem isMonotone_sorted : ∀ {xs : List Rat}, isMonotone xs = true → Sorted xs
  | [], _ => by simp [Sorted]
  | [a], _ => by simp [Sorted]
  | a :: b :: rest, h => by
    simp only [isMonotone, Bool.and_eq_true, decide_eq_true_eq] at h
    have ih : Sorted (b :: rest) := isMonotone_sorted h.2
    unfold Sorted at *
    rw [List.pairwise_cons]
    refine ⟨?_, ih⟩
    rw [List.pairwise_cons] at ih
    intro c hc
    rcases List.mem_cons.mp hc with rfl | hc
    · exact h.1
    · exact le_trans h.1 (ih.1 c hc)

theorem sorted_isMonotone : ∀ {xs : List Rat}, Sorted xs → isMonotone xs = true
  | [], _ => rfl
  | [a], _ => rfl
  | a :: b :: rest, h => by
    unfold Sorted at h
    rw [List.pairwise_cons] at h
    simp only [isMonotone, Bool.and_eq_true, decide_eq_true_eq]
    exact ⟨h.1 b (by simp), sorted_isMonotone h.2⟩

/-- comparison used by the model of `argsort(begins)` -/
def leKey {β} (a b : Rat × β) : Bool := decide (a.1 ≤ b.1)

theorem sortByBegin_def {β} (ws : List (Rat × β)) : sortByBegin ws = ws.mergeSort leKey := rfl

theorem leKey_trans {β} (a b c : Rat × β) (h1 : leKey a b = true) (h2 : leKey b c = true) : leKey a c = true := by
  simp only [leKey, decide_eq_true_eq] at *
  exact le_trans h1 h2

theorem leKey_total {β} (a b : Rat × β) : (leKey a b || leKey b a) = true := by
  simp only [leKey, Bool.or_eq_true, decide_eq_true_eq]
  exact le_total _ _

theorem sortByBegin_sorted {β} (ws : List (Rat × β)) : Sorted ((sortByBegin ws).map (·.1)) := by
  have := List.pairwise_mergeSort (le := leKey) leKey_trans leKey_total ws
  unfold Sorted
  rw [List.pairwise_map, sortByBegin_def]
  exact this.imp (by intro a b h; simpa [leKey] using h)

theorem sortByBegin_perm {β} (ws : List (Rat × β)) : (sortByBegin ws).Perm ws :=
  List.mergeSort_perm ws _

theorem sortByBegin_of_sorted {β} {ws : List (Rat × β)} (h : Sorted (ws.map (·.1))) : sortByBegin ws = ws := by
  rw [sortByBegin_def]
  apply List.mergeSort_of_pairwise
  unfold Sorted at h
  rw [List.pairwise_map] at h
  exact h.imp (by intro a b h; simpa [leKey] using h)

/-- sorting commutes with attaching the converted window to each begin -/
theorem sortByBegin_map_conv (sr : Rat) (ws : List TWin) :
    (sortByBegin (ws.map (fun w => (w.1, conv sr w)))).map (·.2) = (sortByBegin ws).map (conv sr) := by
  rw [sortByBegin_def, sortByBegin_def]
  rw [← List.map_mergeSort (r := leKey) (s := leKey) (f := fun w : TWin => (w.1, conv sr w))
    (by intros; rfl)]
  rw [List.map_map]
  rfl

theorem conv_begin_mono {sr : Rat} (hsr : 0 ≤ sr) {a b : TWin} (h : a.1 ≤ b.1) :
    (conv sr a).1 ≤ (conv sr b).1 := by
  unfold conv
  exact rne_mono (mul_le_mul_of_nonneg_right h hsr)

end QP.C20

/-! ### shrinking overlapping windows -/
namespace QP.C20

/-- the loop of the numba variant: ends are kept, every begin is at least the previous end,
later windows begin after earlier ones end -/
theorem shrinkNumbaLoop_spec : ∀ (ws : List NWin) (e : Nat) (s s' : Bool) (out : List NWin),
    shrinkNumbaLoop e s ws = .ok (s', out) →
      out.map NWin.stop = ws.map NWin.stop ∧ (∀ b ∈ out, e ≤ b.1) ∧
      out.Pairwise (fun a b => a.stop ≤ b.1)
  | [], e, s, s', out, h => by
    simp only [shrinkNumbaLoop, Except.ok.injEq, Prod.mk.injEq] at h
    obtain ⟨_, rfl⟩ := h
    simp
  | w :: ws, e, s, s', out, h => by
    unfold shrinkNumbaLoop at h
    split at h
    · rename_i hlt
      simp only at h
      split at h
      · rename_i hov
        split at h
        · cases h
        · rename_i s2 out2 hrec
          cases h
          obtain ⟨h1, h2, h3⟩ := shrinkNumbaLoop_spec ws _ _ _ _ hrec
          have hstop : NWin.stop (w.1 + (e - w.1), w.2 - (e - w.1)) = w.stop := by
            simp only [NWin.stop]; omega
          rw [hstop] at h2
          refine ⟨by simp [h1, hstop], ?_, ?_⟩
          · intro b hb
            rcases List.mem_cons.mp hb with rfl | hb
            · simp only; omega
            · have := h2 b hb
              simp only [NWin.stop] at this; omega
          · rw [List.pairwise_cons]
            exact ⟨fun b hb => by rw [hstop]; exact h2 b hb, h3⟩
      · cases h
    · rename_i hge
      split at h
      · cases h
      · rename_i s2 out2 hrec
        cases h
        obtain ⟨h1, h2, h3⟩ := shrinkNumbaLoop_spec ws _ _ _ _ hrec
        refine ⟨by simp [h1], ?_, ?_⟩
        · intro b hb
          rcases List.mem_cons.mp hb with rfl | hb
          · omega
          · have := h2 b hb
            simp only [NWin.stop] at this; omega
        · rw [List.pairwise_cons]
          exact ⟨h2, h3⟩

theorem shrinkNumba_spec {ws out : List NWin} {s : Bool} (h : shrinkNumba ws = .ok (s, out)) :
    ShrinkSpec ws out := by
  cases ws with
  | nil =>
    simp only [shrinkNumba, Except.ok.injEq, Prod.mk.injEq] at h
    obtain ⟨_, rfl⟩ := h
    simp [ShrinkSpec]
  | cons w ws =>
    simp only [shrinkNumba] at h
    split at h
    · cases h
    · rename_i s2 out2 hrec
      cases h
      obtain ⟨h1, h2, h3⟩ := shrinkNumbaLoop_spec ws _ _ _ _ hrec
      exact ⟨by simp [h1], by rw [List.pairwise_cons]; exact ⟨h2, h3⟩⟩

/-- the three parts of the numpy computation, continued from a previous end -/
def badFrom (e : Nat) (ws : List NWin) : Bool :=
  ((overlapsFrom e ws).zip ws).any (fun p => decide (0 < p.1 ∧ p.2.2 ≤ p.1))
def flagFrom (e : Nat) (ws : List NWin) : Bool := (overlapsFrom e ws).any (fun o => decide (0 < o))
def outFrom (e : Nat) (ws : List NWin) : List NWin := applyOverlaps (overlapsFrom e ws) ws

theorem badFrom_cons (e : Nat) (w : NWin) (ws : List NWin) :
    badFrom e (w :: ws) = (decide (0 < e - w.1 ∧ w.2 ≤ e - w.1) || badFrom w.stop ws) := by
  simp [badFrom, overlapsFrom]
theorem flagFrom_cons (e : Nat) (w : NWin) (ws : List NWin) :
    flagFrom e (w :: ws) = (decide (0 < e - w.1) || flagFrom w.stop ws) := by
  simp [flagFrom, overlapsFrom]
theorem outFrom_cons (e : Nat) (w : NWin) (ws : List NWin) :
    outFrom e (w :: ws) = (w.1 + (e - w.1), w.2 - (e - w.1)) :: outFrom w.stop ws := by
  simp [outFrom, overlapsFrom, applyOverlaps]

theorem shrinkNumbaLoop_eq : ∀ (ws : List NWin) (e : Nat) (s : Bool),
    shrinkNumbaLoop e s ws =
      if badFrom e ws then .error .valueError else .ok (s || flagFrom e ws, outFrom e ws)
  | [], e, s => by simp [shrinkNumbaLoop, badFrom, flagFrom, outFrom, overlapsFrom, applyOverlaps]
  | w :: ws, e, s => by
    have ih1 := shrinkNumbaLoop_eq ws w.stop true
    have ih2 := shrinkNumbaLoop_eq ws w.stop s
    unfold shrinkNumbaLoop
    rw [badFrom_cons, flagFrom_cons, outFrom_cons]
    by_cases hlt : w.1 < e
    · simp only [hlt, if_true]
      by_cases hov : e - w.1 < w.2
      · have hstop : NWin.stop (w.1 + (e - w.1), w.2 - (e - w.1)) = w.stop := by
          simp only [NWin.stop]; omega
        have hpos : 0 < e - w.1 := by omega
        have hnb : ¬ (w.2 ≤ e - w.1) := by omega
        simp only [hov, if_true, hstop, ih1, hpos, hnb, and_false, decide_false, Bool.false_or,
          decide_true, Bool.true_or, Bool.or_true]
        cases badFrom w.stop ws <;> simp
      · have hpos : 0 < e - w.1 := by omega
        have hb : w.2 ≤ e - w.1 := by omega
        simp [hov, hpos, hb]
    · have hz : e - w.1 = 0 := by omega
      simp only [hlt, if_false, ih2, hz, Nat.lt_irrefl, false_and, decide_false, Bool.false_or,
        Nat.add_zero, Nat.sub_zero]
      cases badFrom w.stop ws <;> simp

theorem applyOverlaps_zero : ∀ (ov : List Nat) (ws : List NWin), ov.length = ws.length →
    ov.any (fun o => decide (0 < o)) = false → applyOverlaps ov ws = ws
  | [], [], _, _ => rfl
  | [], _ :: _, h, _ => by simp at h
  | _ :: _, [], h, _ => by simp at h
  | o :: ov, w :: ws, h, hz => by
    simp only [List.any_cons, Bool.or_eq_false_iff, decide_eq_false_iff_not] at hz
    have : o = 0 := by omega
    subst this
    simp only [applyOverlaps, List.zipWith_cons_cons, Nat.add_zero, Nat.sub_zero]
    congr 1
    exact applyOverlaps_zero ov ws (by simpa using h) hz.2

theorem overlapsFrom_length : ∀ (e : Nat) (ws : List NWin), (overlapsFrom e ws).length = ws.length
  | _, [] => rfl
  | e, w :: ws => by simp [overlapsFrom, overlapsFrom_length]

/-- the two variants of `shrink_overlapping_windows` are the same function (with PF-20 repaired) -/
theorem shrinkNumpy_eq_numba (ws : List NWin) : shrinkNumpy ws = shrinkNumba ws := by
  cases ws with
  | nil => simp [shrinkNumpy, shrinkNumba, overlaps]
  | cons w ws =>
    simp only [shrinkNumba]
    rw [shrinkNumbaLoop_eq ws w.stop false]
    unfold shrinkNumpy
    simp only [overlaps, List.zip_cons_cons, List.any_cons, Nat.lt_irrefl, false_and, decide_false,
      Bool.false_or]
    change (if badFrom w.stop ws = true then _ else if flagFrom w.stop ws = true then
      Except.ok (true, applyOverlaps (0 :: overlapsFrom w.stop ws) (w :: ws)) else _) = _
    cases hb : badFrom w.stop ws
    · cases hf : flagFrom w.stop ws
      · have := applyOverlaps_zero (overlapsFrom w.stop ws) ws (overlapsFrom_length _ _) hf
        simp [outFrom, this]
      · simp [outFrom, applyOverlaps]
    · simp

end QP.C20
