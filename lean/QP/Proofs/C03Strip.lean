import QP.Proofs.C03Tracks
/-!
# C03 helper lemmas, part 10: constraints only gate

`stripCons pt` is `pt` without any parameter constraint.  `Det r' r c`: whenever the constraint-free computation
`r'` succeeds with `a`, the computation `r` is "validate `c`, then return `a`".
-/
namespace QP.C03
open QP QP.PT

mutual
def stripCons : PT → PT
  | .const id dur amps meas => .const id dur amps meas
  | .table id entries meas _ => .table id entries meas []
  | .point id chans entries meas _ => .point id chans entries meas []
  | .func id ch dur e meas _ => .func id ch dur e meas []
  | .seq id subs meas _ => .seq id (stripConsList subs) meas []
  | .rep id body count meas _ => .rep id (stripCons body) count meas []
  | .forLoop id body idx a b s meas _ => .forLoop id (stripCons body) idx a b s meas []
  | .mapping id body pm mm cm _ => .mapping id (stripCons body) pm mm cm []
  | .parallel id body over => .parallel id (stripCons body) over
  | .atomicMulti id subs dur meas _ => .atomicMulti id (stripConsList subs) dur meas []
  | .arith id body op sc l => .arith id (stripCons body) op sc l
  | .arithAtomic id lhs m rhs meas => .arithAtomic id (stripCons lhs) m (stripCons rhs) meas
  | .timeReversal id body => .timeReversal id (stripCons body)
def stripConsList : List PT → List PT
  | [] => []
  | p :: ps => stripCons p :: stripConsList ps
end

theorem ident_strip (pt : PT) : (stripCons pt).ident = pt.ident := by
  cases pt <;> simp [stripCons, PT.ident]

mutual
theorem definedChannels_strip : ∀ (pt : PT), (stripCons pt).definedChannels = pt.definedChannels
  | .const .. => by simp [stripCons]
  | .table .. => by simp [stripCons, PT.definedChannels]
  | .point .. => by simp [stripCons, PT.definedChannels]
  | .func .. => by simp [stripCons, PT.definedChannels]
  | .seq _ subs _ _ => by
      simp only [stripCons, PT.definedChannels]
      cases subs with
      | nil => rfl
      | cons p ps => simp only [stripConsList, PT.firstChannels]; exact definedChannels_strip p
  | .rep _ body _ _ _ => by simp only [stripCons, PT.definedChannels]; exact definedChannels_strip body
  | .forLoop _ body _ _ _ _ _ _ => by simp only [stripCons, PT.definedChannels]; exact definedChannels_strip body
  | .mapping _ body _ _ _ _ => by simp only [stripCons, PT.definedChannels, definedChannels_strip body]
  | .parallel _ body _ => by simp only [stripCons, PT.definedChannels, definedChannels_strip body]
  | .atomicMulti _ subs _ _ _ => by simp only [stripCons, PT.definedChannels, allChannels_strip subs]
  | .arith _ body _ _ _ => by simp only [stripCons, PT.definedChannels]; exact definedChannels_strip body
  | .arithAtomic _ lhs _ rhs _ => by
      simp only [stripCons, PT.definedChannels, definedChannels_strip lhs, definedChannels_strip rhs]
  | .timeReversal _ body => by simp only [stripCons, PT.definedChannels]; exact definedChannels_strip body
theorem allChannels_strip : ∀ (ps : List PT), PT.allChannels (stripConsList ps) = PT.allChannels ps
  | [] => rfl
  | p :: ps => by simp only [stripConsList, PT.allChannels, definedChannels_strip p, allChannels_strip ps]
end

mutual
theorem measurementNames_strip : ∀ (pt : PT), (stripCons pt).measurementNames = pt.measurementNames
  | .const .. => by simp [stripCons]
  | .table .. => by simp [stripCons, PT.measurementNames]
  | .point .. => by simp [stripCons, PT.measurementNames]
  | .func .. => by simp [stripCons, PT.measurementNames]
  | .seq _ subs _ _ => by simp only [stripCons, PT.measurementNames, measurementNamesList_strip subs]
  | .rep _ body _ _ _ => by simp only [stripCons, PT.measurementNames, measurementNames_strip body]
  | .forLoop _ body _ _ _ _ _ _ => by simp only [stripCons, PT.measurementNames, measurementNames_strip body]
  | .mapping .. => by simp only [stripCons, PT.measurementNames]
  | .parallel _ body _ => by simp only [stripCons, PT.measurementNames]; exact measurementNames_strip body
  | .atomicMulti _ subs _ _ _ => by simp only [stripCons, PT.measurementNames, measurementNamesList_strip subs]
  | .arith _ body _ _ _ => by simp only [stripCons, PT.measurementNames]; exact measurementNames_strip body
  | .arithAtomic _ lhs _ rhs _ => by
      simp only [stripCons, PT.measurementNames, measurementNames_strip lhs, measurementNames_strip rhs]
  | .timeReversal _ body => by simp only [stripCons, PT.measurementNames]; exact measurementNames_strip body
theorem measurementNamesList_strip : ∀ (ps : List PT),
    PT.measurementNamesList (stripConsList ps) = PT.measurementNamesList ps
  | [] => rfl
  | p :: ps => by
      simp only [stripConsList, PT.measurementNamesList, measurementNames_strip p, measurementNamesList_strip ps]
end

/-! ### the relation -/

def Det {α : Type} (r' r : Except Err α) (c : Except Err Unit) : Prop :=
  ∀ a, r' = .ok a → r = c >>= fun _ => .ok a

section DetLemmas
variable {α β : Type}

theorem det_refl (x : Except Err α) : Det x x (.ok ()) := fun a h => by rw [h]; rfl

theorem det_of_eq {x' x : Except Err α} (h : x' = x) : Det x' x (.ok ()) := h ▸ det_refl x'

theorem det_bind {x' x : Except Err α} {f' f : α → Except Err β} {c1 c2 : Except Err Unit}
    (h1 : Det x' x c1) (h2 : ∀ a, x' = .ok a → c1 = .ok () → Det (f' a) (f a) c2) :
    Det (x' >>= f') (x >>= f) (c1 >>= fun _ => c2) := by
  intro b hb
  obtain ⟨a, ha, hb⟩ := bind_ok.mp hb
  rw [h1 a ha]
  cases hc : c1 with
  | error e => rfl
  | ok u =>
    cases u
    simp only [ok_bind]
    exact h2 a ha hc b hb

theorem det_step {x : Except Err α} {f' f : α → Except Err β} {c : Except Err Unit}
    (h : ∀ a, x = .ok a → Det (f' a) (f a) c) : Det (x >>= f') (x >>= f) c := by
  intro b hb
  obtain ⟨a, ha, hb⟩ := bind_ok.mp hb
  rw [ha]
  simp only [ok_bind]
  exact h a ha b hb

theorem det_bind_last {x' x : Except Err α} {f' f : α → Except Err β} {c : Except Err Unit}
    (h1 : Det x' x c) (h2 : ∀ a, x' = .ok a → c = .ok () → Det (f' a) (f a) (.ok ())) :
    Det (x' >>= f') (x >>= f) c := by
  have := det_bind h1 h2
  rwa [bind_unit_ok] at this

theorem det_cons (cons : List Expr) (look : String → Except Err Rat) :
    Det (validateCons [] look) (validateCons cons look) (validateCons cons look) := by
  intro a _
  cases a
  exact (bind_unit_ok _).symm

theorem Det.congr {x' x : Except Err α} {c c' : Except Err Unit} (h : Det x' x c) (hc : c = c') : Det x' x c' :=
  hc ▸ h

/-- the judged computation in full: what `r` is when the constraint-free run succeeds -/
theorem Det.eq {x' x : Except Err α} {c : Except Err Unit} (h : Det x' x c) {a : α} (ha : x' = .ok a) :
    x = c >>= fun _ => .ok a := h a ha

end DetLemmas

theorem det_flatMapM {α β : Type} {l : List α} {f' f : α → Except Err (List β)} {g : α → List Vis}
    (h : ∀ a ∈ l, Det (f' a) (f a) (visOutcome (g a))) :
    Det (l.flatMapM f') (l.flatMapM f) (visOutcome (l.flatMap g)) := by
  induction l with
  | nil => simp only [List.flatMapM_nil, List.flatMap_nil, visOutcome_nil]; exact det_refl _
  | cons a l ih =>
    simp only [List.flatMapM_cons, List.flatMap_cons, visOutcome_append]
    refine det_bind (h a (by simp)) (fun _ _ _ => ?_)
    exact det_bind_last (ih (fun b hb => h b (by simp [hb]))) (fun _ _ _ => det_refl _)

theorem wrapSingle_det {id : Option String} {ctx : Ctx} {k' k : Ctx → Except Err (List Item)} {c : Except Err Unit}
    (h1 : Det (k' ctx) (k ctx) c) (h2 : Det (k' { ctx with trafo := [] }) (k { ctx with trafo := [] }) c) :
    Det (wrapSingle id ctx k') (wrapSingle id ctx k) c := by
  unfold wrapSingle
  split
  · split
    · exact det_bind_last h2 (fun _ _ _ => det_refl _)
    · exact h1
  · exact h1

theorem det_unit_self (x : Except Err Unit) : Det x x x := by
  intro a ha
  cases a
  rw [ha]
  rfl

theorem consVars_nil : consVars [] = [] := rfl
theorem presence_nil (σ : Scope) : presence [] σ = .ok () := rfl

theorem det_same_of_ok {α : Type} {x : Except Err α} {c : Except Err Unit} (h : ∀ a, x = .ok a → c = .ok ()) :
    Det x x c := by
  intro a ha
  rw [h a ha, ha]
  rfl

theorem det_gate_bind {α : Type} {y' y : Except Err α} {v c2 : Except Err Unit} (h : Det y' y c2) :
    Det y' (v >>= fun _ => y) (v >>= fun _ => c2) := by
  intro a ha
  rw [h a ha]
  cases v <;> rfl

theorem det_gate {α : Type} {x : Except Err α} {v : Except Err Unit} : Det x (v >>= fun _ => x) v := by
  have := det_gate_bind (v := v) (det_refl x)
  rwa [bind_unit_ok] at this

mutual
theorem bw_det : ∀ (pt : PT) (σ : Scope) (cm : List (Chan × Option Chan)),
    Det (buildWaveform (stripCons pt) σ cm) (buildWaveform pt σ cm) (visOutcome (visibleA pt σ))
  | .const id dur amps meas, σ, cm => by
      rw [stripCons]
      exact det_same_of_ok (fun a ha => (bw_tracks (.const id dur amps meas) σ cm).1 a ha)
  | .table id entries meas cons, σ, cm => by
      rw [stripCons, visibleA, visOutcome_append, visOutcome_consVis, bw_table_factor id entries meas cons]
      refine det_gate_bind (det_same_of_ok (fun a ha => ?_))
      have := (bw_tracks (.table id entries meas []) σ cm).1 a ha
      rw [visibleA, visOutcome_append, visOutcome_consVis, validateCons_nil, ok_bind] at this
      exact this
  | .point id chans entries meas cons, σ, cm => by
      rw [stripCons, visibleA, visOutcome_consVis, bw_point_factor id chans entries meas cons]
      exact det_gate
  | .func id ch dur e meas cons, σ, cm => by
      rw [stripCons, visibleA, visOutcome_consVis, bw_func_factor id ch dur e meas cons]
      exact det_gate
  | .seq .., _, _ => by
      intro a ha; rw [stripCons, buildWaveform] at ha; cases ha
  | .rep .., _, _ => by
      intro a ha; rw [stripCons, buildWaveform] at ha; cases ha
  | .forLoop .., _, _ => by
      intro a ha; rw [stripCons, buildWaveform] at ha; cases ha
  | .mapping id body pm mm' cm' cons, σ, cm => by
      rw [stripCons, buildWaveform, buildWaveform, mapParameterValues_eq, mapParameterValues_eq, validateCons_nil,
        visibleA, visOutcome_append, visOutcome_append, visOutcome_append, visOutcome_consVis, visOutcome_keyVis,
        presence_append, presence_append, consVars_nil, presence_nil]
      simp only [ok_bind, bind_assoc]
      refine det_bind (det_unit_self _) (fun _ _ _ => ?_)
      refine det_gate_bind (det_gate_bind (det_step (fun σ' hσ' => ?_)))
      rw [mappedDict_of_mapValues hσ', visOutcome_needVis_ok (mapValues_ok hσ'), ok_bind]
      exact det_step (fun cmU _ => bw_det body σ' cmU)
  | .parallel id body over, σ, cm => by
      rw [stripCons, buildWaveform, buildWaveform, visibleA]
      exact det_bind_last (bw_det body σ cm) (fun _ _ _ => det_refl _)
  | .atomicMulti id subs dur meas cons, σ, cm => by
      rw [stripCons, buildWaveform, buildWaveform, visibleA, visOutcome_append, visOutcome_consVis]
      refine det_bind (det_cons cons σ.look) (fun _ _ _ => ?_)
      exact det_bind_last (bwl_det subs σ cm) (fun _ _ _ => det_refl _)
  | .arith id body op scalar ptIsLhs, σ, cm => by
      rw [stripCons, buildWaveform, buildWaveform, visibleA, definedChannels_strip]
      exact det_bind_last (bw_det body σ cm) (fun _ _ _ => det_refl _)
  | .arithAtomic id lhs minus rhs meas, σ, cm => by
      rw [stripCons, buildWaveform, buildWaveform, visibleA, visOutcome_append]
      refine det_bind (bw_det lhs σ cm) (fun _ _ _ => ?_)
      exact det_bind_last (bw_det rhs σ cm) (fun _ _ _ => det_refl _)
  | .timeReversal id body, σ, cm => by
      rw [stripCons, buildWaveform, buildWaveform, visibleA]
      exact det_bind_last (bw_det body σ cm) (fun _ _ _ => det_refl _)
theorem bwl_det : ∀ (ps : List PT) (σ : Scope) (cm : List (Chan × Option Chan)),
    Det (buildWaveformList (stripConsList ps) σ cm) (buildWaveformList ps σ cm) (visOutcome (visibleAList ps σ))
  | [], _, _ => by rw [stripConsList, visibleAList]; exact det_refl _
  | p :: ps, σ, cm => by
      rw [stripConsList, buildWaveformList, buildWaveformList, visibleAList, visOutcome_append]
      refine det_bind (bw_det p σ cm) (fun _ _ _ => ?_)
      exact det_bind_last (bwl_det ps σ cm) (fun _ _ _ => det_refl _)
end

theorem visOutcome_append_ok {l1 l2 : List Vis} (h : visOutcome (l1 ++ l2) = .ok ()) :
    visOutcome l1 = .ok () ∧ visOutcome l2 = .ok () := by
  rw [visOutcome_append] at h
  obtain ⟨u, hu, h⟩ := bind_ok.mp h
  cases u
  exact ⟨hu, h⟩

mutual
/-- once the visible constraints hold, measuring an atomic template re-validates nothing new -/
theorem am_strip : ∀ (pt : PT) (σ : Scope) (mm : List (MName × Option MName)),
    visOutcome (visibleA pt σ) = .ok () → atomicMeas pt σ mm = atomicMeas (stripCons pt) σ mm
  | .const .., _, _, _ => by rw [stripCons]
  | .table .., _, _, _ => by rw [stripCons, atomicMeas, atomicMeas]
  | .point .., _, _, _ => by rw [stripCons, atomicMeas, atomicMeas]
  | .func .., _, _, _ => by rw [stripCons, atomicMeas, atomicMeas]
  | .seq .., _, _, _ => by rw [stripCons, atomicMeas, atomicMeas]
  | .rep .., _, _, _ => by rw [stripCons, atomicMeas, atomicMeas]
  | .forLoop .., _, _, _ => by rw [stripCons, atomicMeas, atomicMeas]
  | .mapping id body pm mm' cm' cons, σ, mm, h => by
      rw [visibleA] at h
      obtain ⟨h12, h3⟩ := visOutcome_append_ok h
      obtain ⟨h1, _⟩ := visOutcome_append_ok h12
      obtain ⟨h0, h1⟩ := visOutcome_append_ok h1
      rw [visOutcome_consVis] at h1
      rw [visOutcome_keyVis] at h0
      have h0' : presence (kvVars pm) σ = .ok () := by
        rw [presence_append] at h0
        obtain ⟨u, hu, _⟩ := bind_ok.mp h0
        cases u; exact hu
      rw [stripCons, atomicMeas, atomicMeas, mapParameterValues_eq, mapParameterValues_eq, validateCons_nil, h1, h0,
        consVars_nil, List.append_nil, h0']
      simp only [ok_bind]
      refine bind_congr' rfl (fun σ' hσ' => ?_)
      rw [mappedDict_of_mapValues hσ'] at h3
      refine bind_congr' rfl (fun mmU _ => ?_)
      exact am_strip body σ' mmU h3
  | .parallel .., _, _, _ => by rw [stripCons, atomicMeas, atomicMeas]
  | .atomicMulti id subs dur meas cons, σ, mm, h => by
      rw [visibleA] at h
      rw [stripCons, atomicMeas, atomicMeas, aml_strip subs σ mm (visOutcome_append_ok h).2]
  | .arith id body op scalar ptIsLhs, σ, mm, h => by
      rw [visibleA] at h
      rw [stripCons, atomicMeas, atomicMeas]
      exact am_strip body σ mm h
  | .arithAtomic id lhs minus rhs meas, σ, mm, h => by
      rw [visibleA] at h
      obtain ⟨hl, hr⟩ := visOutcome_append_ok h
      rw [stripCons, atomicMeas, atomicMeas, am_strip lhs σ mm hl, am_strip rhs σ mm hr]
  | .timeReversal .., _, _, _ => by rw [stripCons, atomicMeas, atomicMeas]
theorem aml_strip : ∀ (ps : List PT) (σ : Scope) (mm : List (MName × Option MName)),
    visOutcome (visibleAList ps σ) = .ok () → atomicMeasList ps σ mm = atomicMeasList (stripConsList ps) σ mm
  | [], _, _, _ => by rw [stripConsList]
  | p :: ps, σ, mm, h => by
      rw [visibleAList] at h
      obtain ⟨h1, h2⟩ := visOutcome_append_ok h
      rw [stripConsList, atomicMeasList, atomicMeasList, am_strip p σ mm h1, aml_strip ps σ mm h2]
end

theorem atomItems_det (pt : PT) (σ : Scope) (mm cm trafo single) :
    Det (atomItems (stripCons pt) ⟨σ, mm, cm, trafo, single⟩) (atomItems pt ⟨σ, mm, cm, trafo, single⟩)
      (visOutcome (visibleA pt σ)) := by
  unfold atomItems
  dsimp only
  refine det_bind_last (bw_det pt σ cm) (fun w? _ hc => ?_)
  rw [am_strip pt σ mm hc]
  exact det_refl _

theorem det_error {α : Type} {e : Err} {x : Except Err α} {c : Except Err Unit} :
    Det (Except.error e : Except Err α) x c := fun _ h => by cases h

mutual
theorem int_det : ∀ (pt : PT) (σ : Scope) (mm : List (MName × Option MName)) (cm : List (Chan × Option Chan))
    (trafo : Chain) (single : List String),
    Det (internal (stripCons pt) ⟨σ, mm, cm, trafo, single⟩) (internal pt ⟨σ, mm, cm, trafo, single⟩)
      (visOutcome (visible pt σ))
  | .const id dur amps meas, σ, mm, cm, trafo, single => by
      have := atomItems_det (.const id dur amps meas) σ mm cm trafo single
      rw [stripCons] at this
      rw [stripCons, internal, visible]; exact this
  | .table id entries meas cons, σ, mm, cm, trafo, single => by
      have := atomItems_det (.table id entries meas cons) σ mm cm trafo single
      rw [stripCons] at this
      rw [stripCons, internal, internal, visible]; exact this
  | .point id chans entries meas cons, σ, mm, cm, trafo, single => by
      have := atomItems_det (.point id chans entries meas cons) σ mm cm trafo single
      rw [stripCons] at this
      rw [stripCons, internal, internal, visible]; exact this
  | .func id ch dur e meas cons, σ, mm, cm, trafo, single => by
      have := atomItems_det (.func id ch dur e meas cons) σ mm cm trafo single
      rw [stripCons] at this
      rw [stripCons, internal, internal, visible]; exact this
  | .atomicMulti id subs dur meas cons, σ, mm, cm, trafo, single => by
      have := atomItems_det (.atomicMulti id subs dur meas cons) σ mm cm trafo single
      rw [stripCons] at this
      rw [stripCons, internal, internal, visible]; exact this
  | .arithAtomic id lhs minus rhs meas, σ, mm, cm, trafo, single => by
      have := atomItems_det (.arithAtomic id lhs minus rhs meas) σ mm cm trafo single
      rw [stripCons] at this
      rw [stripCons, internal, internal, visible]; exact this
  | .seq id subs meas cons, σ, mm, cm, trafo, single => by
      rw [stripCons, internal, internal, visible, visOutcome_append, visOutcome_consVis]
      dsimp only
      refine det_bind (det_cons cons σ.look) (fun _ _ _ => ?_)
      refine det_step (fun ms _ => ?_)
      exact det_bind_last (intl_det subs σ mm cm trafo single) (fun _ _ _ => det_refl _)
  | .rep id body count meas cons, σ, mm, cm, trafo, single => by
      rw [stripCons, internal, internal, visible, visOutcome_append, visOutcome_append, visOutcome_consVis,
        visOutcome_needVis_cons, visOutcome_needVis_nil]
      dsimp only
      simp only [bind_assoc, bind_unit_ok]
      refine det_bind (det_cons cons σ.look) (fun _ _ _ => ?_)
      refine det_step (fun c hc => ?_)
      simp only [needOutcome, hc, ok_bind, pure_eq_ok]
      cases hn : checkedInt c with
      | none => exact det_error
      | some n =>
        dsimp only
        split
        · exact det_refl _
        · refine det_step (fun ms _ => ?_)
          rw [ident_strip]
          exact det_bind_last (wrapSingle_det (int_det body σ mm cm trafo single) (int_det body σ mm cm [] single))
            (fun _ _ _ => det_refl _)
  | .forLoop id body idx start stop step meas cons, σ, mm, cm, trafo, single => by
      rw [stripCons, internal, internal, visible, visOutcome_append, visOutcome_append, visOutcome_consVis,
        visOutcome_needVis_cons, visOutcome_needVis_cons, visOutcome_needVis_cons, visOutcome_needVis_nil]
      dsimp only
      simp only [bind_assoc, bind_unit_ok]
      refine det_bind (det_cons cons σ.look) (fun _ _ _ => ?_)
      refine det_step (fun a ha => ?_)
      simp only [intOrErr]
      cases hna : checkedInt a with
      | none => simp only [error_bind]; exact det_error
      | some na =>
        simp only [ok_bind]
        refine det_step (fun b hb => ?_)
        cases hnb : checkedInt b with
        | none => simp only [error_bind]; exact det_error
        | some nb =>
          simp only [ok_bind]
          refine det_step (fun s hs => ?_)
          cases hns : checkedInt s with
          | none => simp only [error_bind]; exact det_error
          | some ns =>
            simp only [ok_bind, needOutcome, ha, hb, hs, hna, hnb, hns, pure_eq_ok]
            split
            · exact det_error
            · refine det_step (fun ms _ => ?_)
              rw [ident_strip]
              refine det_bind_last (det_flatMapM (fun i _ => ?_)) (fun _ _ _ => det_refl _)
              exact wrapSingle_det (int_det body _ mm cm trafo single) (int_det body _ mm cm [] single)
  | .mapping id body pm mm' cm' cons, σ, mm, cm, trafo, single => by
      rw [stripCons, internal, internal, visible, visOutcome_append, visOutcome_consVis]
      dsimp only
      refine det_bind (det_cons cons σ.look) (fun _ _ _ => ?_)
      refine det_step (fun mmU _ => det_step (fun cmU _ => ?_))
      rw [ident_strip]
      exact wrapSingle_det (int_det body _ mmU cmU trafo single) (int_det body _ mmU cmU [] single)
  | .parallel id body over, σ, mm, cm, trafo, single => by
      rw [stripCons, internal, internal, visible]
      dsimp only
      refine det_step (fun ov _ => ?_)
      rw [ident_strip]
      exact wrapSingle_det (int_det body σ mm cm _ single) (int_det body σ mm cm [] single)
  | .arith id body op scalar ptIsLhs, σ, mm, cm, trafo, single => by
      rw [stripCons, internal, internal, visible, definedChannels_strip]
      dsimp only
      refine det_step (fun T _ => ?_)
      rw [ident_strip]
      exact wrapSingle_det (int_det body σ mm cm _ single) (int_det body σ mm cm [] single)
  | .timeReversal id body, σ, mm, cm, trafo, single => by
      rw [stripCons, internal, internal, visible]
      exact det_bind_last (int_det body σ mm cm trafo single) (fun _ _ _ => det_refl _)
theorem intl_det : ∀ (ps : List PT) (σ : Scope) (mm : List (MName × Option MName)) (cm : List (Chan × Option Chan))
    (trafo : Chain) (single : List String),
    Det (internalList (stripConsList ps) ⟨σ, mm, cm, trafo, single⟩) (internalList ps ⟨σ, mm, cm, trafo, single⟩)
      (visOutcome (visibleList ps σ))
  | [], _, _, _, _, _ => by rw [stripConsList, visibleList]; exact det_refl _
  | p :: ps, σ, mm, cm, trafo, single => by
      rw [stripConsList, internalList, internalList, visibleList, visOutcome_append, ident_strip]
      refine det_bind (wrapSingle_det (int_det p σ mm cm trafo single) (int_det p σ mm cm [] single)) (fun _ _ _ => ?_)
      exact det_bind_last (intl_det ps σ mm cm trafo single) (fun _ _ _ => det_refl _)
end

theorem compile_det (pt : PT) (σ : Scope) (mm : List (MName × Option MName)) (cm : List (Chan × Option Chan))
    (trafo : Chain) (single : List String) :
    Det (compile (stripCons pt) ⟨σ, mm, cm, trafo, single⟩) (compile pt ⟨σ, mm, cm, trafo, single⟩)
      (visOutcome (visible pt σ)) := by
  unfold compile
  rw [ident_strip]
  exact wrapSingle_det (int_det pt σ mm cm trafo single) (int_det pt σ mm cm [] single)

theorem createProgram_det (pt : PT) (kv : List (String × Rat)) (mm : Option (List (MName × Option MName)))
    (cmUser : List (Chan × Option Chan)) (single : List String) :
    Det (createProgram (stripCons pt) kv mm cmUser single) (createProgram pt kv mm cmUser single)
      (visOutcome (visible pt (.dict kv))) := by
  unfold createProgram topCtx
  rw [measurementNames_strip, definedChannels_strip]
  dsimp only
  split
  · exact det_error
  · simp only [ok_bind]
    exact det_bind_last (compile_det pt (.dict kv) _ _ [] single) (fun _ _ _ => det_refl _)

end QP.C03
