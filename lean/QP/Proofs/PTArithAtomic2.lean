import QP.Model.PT
import QP.Proofs.PTArithAtomic
/-! `BuildOKP` for `ArithmeticAtomicPulseTemplate`. -/
namespace QP.PT

theorem aaNegWf_duration {r w : Wf} (h : negWf r = .ok w) : w.duration = r.duration := by
  unfold negWf at h
  split at h
  · exact (constFromMapping_spec h).1
  · simp only [Except.ok.injEq] at h
    subst h
    simp [Wf.duration]

theorem aaFromOperator_duration {l r w : Wf} {minus : Bool} (h : fromOperator l minus r = .ok w) :
    w.duration = l.duration ∧ l.duration = r.duration := by
  unfold fromOperator at h
  split at h
  · split at h
    · cases h
    · rename_i hne
      exact ⟨(constFromMapping_spec h).1, by simpa using hne⟩
  · split at h
    · cases h
    · rename_i hne
      simp only [Except.ok.injEq] at h
      subst h
      exact ⟨by simp [Wf.duration], by simpa using hne⟩

/-- what an `ArithmeticWaveform` plays on a channel, from what its operands play -/
def aaSample (minus : Bool) (lc rc : Bool) (a b : Option Rat) : Option Rat :=
  if lc then
    if rc then
      match a, b with
      | some x, some y => some (if minus then x - y else x + y)
      | _, _ => none
    else a
  else if rc then b.map (sgnV minus)
  else none

theorem arith_sample (l r : Wf) (minus : Bool) (c : Chan) (t : Rat) :
    (Wf.arith l minus r).sample c t =
      aaSample minus (l.channels.contains c) (r.channels.contains c) (l.sample c t) (r.sample c t) := by
  simp only [Wf.sample, aaSample]
  rfl

theorem wfRel_contains {w : Wf} {P : Pulse} (h : WfRel w P) (c : Chan) :
    w.channels.contains c = (P.chans.lookup c).isSome := by
  rw [h.chans, QP.C05.lookup_isSome_iff]
  rfl

/-- the combination of what the operands play is the combined function -/
theorem aa_spec (minus : Bool) {l r : Wf} {Pl Pr : Pulse} (hl : WfRel l Pl) (hr : WfRel r Pr)
    (hd : Pl.dur = Pr.dur) (c : Chan) (pl : PL) (hc : (aaChansP minus Pl Pr).lookup c = some pl) :
    PL.dur pl = Pl.dur ∧ pl.pos ∧ ∀ t, 0 ≤ t → t < Pl.dur →
      aaSample minus (l.channels.contains c) (r.channels.contains c) (l.sample c t) (r.sample c t) = PL.at pl t := by
  rw [aaChansP_lookup] at hc
  rw [wfRel_contains hl, wfRel_contains hr]
  cases hpl : Pl.chans.lookup c with
  | none =>
    cases hpr : Pr.chans.lookup c with
    | none => simp [aaPickP, hpl, hpr] at hc
    | some q =>
      simp only [aaPickP, hpl, hpr, Option.some.injEq] at hc
      subst hc
      obtain ⟨f1, f2, f3⟩ := sgnP_facts minus q (hr.plPos c q hpr)
      refine ⟨by rw [f1, hr.plDur c q hpr, hd], f2, ?_⟩
      intro t h0 h1
      simp only [aaSample, Option.isSome_none, Bool.false_eq_true, if_false, Option.isSome_some, if_true]
      rw [f3, hr.sample c q hpr t h0 (by rw [← hd]; exact h1)]
  | some p =>
    cases hpr : Pr.chans.lookup c with
    | none =>
      simp only [aaPickP, hpl, hpr, Option.some.injEq] at hc
      subst hc
      refine ⟨hl.plDur c _ hpl, hl.plPos c _ hpl, ?_⟩
      intro t h0 h1
      simp only [aaSample, Option.isSome_none, Bool.false_eq_true, if_false, Option.isSome_some, if_true]
      exact hl.sample c _ hpl t h0 h1
    | some q =>
      simp only [aaPickP, hpl, hpr, Option.some.injEq] at hc
      subst hc
      have hdp := hl.plDur c p hpl
      have hdq := hr.plDur c q hpr
      obtain ⟨z1, z2, z3⟩ := ptZip_facts (sgOfP minus) p q (hl.plPos c p hpl) (hr.plPos c q hpr) (by rw [hdp, hdq, hd])
      refine ⟨by rw [z1, hdp], z2, ?_⟩
      intro t h0 h1
      obtain ⟨va, vb, e1, e2, e3⟩ := z3 t h0 (by rw [hdp]; exact h1)
      simp only [aaSample, Option.isSome_some, if_true]
      rw [hl.sample c p hpl t h0 h1, hr.sample c q hpr t h0 (by rw [← hd]; exact h1), e1, e2, e3]
      simp only [Option.some.injEq]
      exact congrFun (congrFun (aaF_eq minus) va) vb

theorem hasDup_aa (minus : Bool) (Pl Pr : Pulse) (h1 : hasDup Pl.chanNames = false) (h2 : hasDup Pr.chanNames = false) :
    hasDup ((aaChansP minus Pl Pr).map (·.1)) = false := by
  rw [aaChansP_names, ptHasDup_iff]
  rw [ptHasDup_iff] at h1 h2
  rw [List.nodup_append]
  refine ⟨h1, h2.filter _, ?_⟩
  intro a ha b hb hab
  subst hab
  simp only [List.mem_filter] at hb
  have : Pl.chanNames.contains a = true := by simpa using ha
  simp only [this, Bool.not_true, Bool.false_eq_true, and_false] at hb

/-- a flat constant waveform plays its dictionary -/
theorem flat_const_facts {w : Wf} {P : Pulse} (h : WfRel w P) (hc : Collapsible w) {cv : List (Chan × Rat)}
    (hcv : w.constDict = some cv) :
    cv.map (·.1) = P.chanNames ∧ ∀ c v t, cv.lookup c = some v → w.sample c t = some v := by
  rcases hc with hn | hf
  · rw [hn] at hcv; cases hcv
  · obtain ⟨hch, hs⟩ := constDict_sound_flat hf hcv
    exact ⟨by rw [← hch, h.chans], hs⟩

theorem ptLookup_some_iff {β : Type} (l : List (String × β)) (c : String) :
    (∃ v, l.lookup c = some v) ↔ c ∈ l.map (·.1) := by
  rw [← ptLookup_isSome]
  cases l.lookup c <;> simp

theorem buildOKP_arithAtomic (id : Option String) (lhs : PT) (minus : Bool) (rhs : PT) (meas : List MeasDecl)
    (hl : BuildOKP lhs) (hr : BuildOKP rhs) : BuildOKP (.arithAtomic id lhs minus rhs meas) := by
  intro σ mm cm w? P h1 h2
  rw [buildWaveform] at h1
  obtain ⟨wl, hwl, h1⟩ := bind_ok.mp h1
  obtain ⟨wr, hwr, h1⟩ := bind_ok.mp h1
  rw [denote] at h2
  obtain ⟨Pl, hPl, h2⟩ := bind_ok.mp h2
  obtain ⟨Pr, hPr, h2⟩ := bind_ok.mp h2
  have il := hl σ mm cm wl Pl hwl hPl
  have ir := hr σ mm cm wr Pr hwr hPr
  dsimp only at h1 h2
  cases wr with
  | none =>
    simp only at ir
    subst ir
    cases wl with
    | none =>
      simp only at il
      subst il
      simp only [pure_ok] at h1
      subst h1
      simp only [Pulse.isEmpty, Pulse.empty, List.isEmpty_nil, Bool.and_self, if_true, pure_ok] at h2
      exact h2.symm
    | some l =>
      simp only [pure_ok] at h1
      subst h1
      intro hpos
      obtain ⟨hnd, hrel, hcol, _⟩ := il hpos
      have he : Pl.isEmpty = false := by simpa [Pulse.isEmpty] using hrel.ne
      simp only [he, Bool.false_and, Bool.false_eq_true, if_false] at h2
      obtain ⟨ms, hms, h2⟩ := bind_ok.mp h2
      simp only [Pulse.isEmpty, Pulse.empty, List.isEmpty_nil, if_true, pure_ok] at h2
      subst h2
      refine ⟨hnd, ⟨hrel.dur, hrel.ne, hrel.chans, hrel.plDur, hrel.plPos, hrel.sample⟩, hcol, ?_⟩
      intro ms' hms'
      rw [hms] at hms'; cases hms'; rfl
  | some r =>
    cases wl with
    | none =>
      simp only at il
      subst il
      have hwd : ∃ w, w? = some w ∧ w.duration = r.duration ∧
          ((minus = false ∧ w = r) ∨ (minus = true ∧ negWf r = .ok w)) := by
        cases minus with
        | true =>
          simp only [if_true] at h1
          obtain ⟨w, hw, h1⟩ := bind_ok.mp h1
          exact ⟨w, (pure_ok.mp h1).symm, aaNegWf_duration hw, Or.inr ⟨rfl, hw⟩⟩
        | false =>
          simp only [Bool.false_eq_true, if_false, pure_ok] at h1
          exact ⟨r, h1.symm, rfl, Or.inl ⟨rfl, rfl⟩⟩
      obtain ⟨w, rfl, hwd, hcase⟩ := hwd
      intro hpos
      obtain ⟨hnd, hrel, hcol, _⟩ := ir (by rw [← hwd]; exact hpos)
      simp only [Pulse.isEmpty, Pulse.empty, List.isEmpty_nil, Bool.true_and] at h2
      have her' : Pr.chans.isEmpty = false := by simpa using hrel.ne
      simp only [her', Bool.false_eq_true, if_false] at h2
      obtain ⟨ms, hms, h2⟩ := bind_ok.mp h2
      simp only [if_true, pure_ok] at h2
      subst h2
      have hlook : ∀ c, ((Pr.chans.map (fun (x : Chan × PL) => match x with
            | (c, pl) => (c, if minus = true then PL.mapV (fun v => -v) pl else pl))).lookup c)
          = (Pr.chans.lookup c).map (sgnP minus) := by
        intro c
        exact QP.C05.lookup_map_gen Pr.chans _ (fun _ pl => sgnP minus pl) (by intro x; rfl) c
      -- what the waveform plays
      have hw : w.channels = r.channels ∧ Collapsible w ∧
          ∀ c pl, Pr.chans.lookup c = some pl → ∀ t, w.sample c t = (r.sample c t).map (sgnV minus) := by
        rcases hcase with ⟨hm, rfl⟩ | ⟨hm, hneg⟩
        · subst hm
          refine ⟨rfl, hcol, ?_⟩
          intro c pl _ t
          have : sgnV false = (fun v => v) := by funext v; simp [sgnV]
          rw [this]; simp
        · subst hm
          unfold negWf at hneg
          cases hcd : r.constDict with
          | none =>
            simp only [hcd, Except.ok.injEq] at hneg
            subst hneg
            refine ⟨rfl, Or.inl rfl, ?_⟩
            intro c pl _ t
            have : sgnV true = fun v => -v := by funext v; simp [sgnV]
            simp only [Wf.sample, this]
          | some cv =>
            simp only [hcd] at hneg
            obtain ⟨hkeys, hs⟩ := flat_const_facts hrel hcol hcd
            obtain ⟨_, _, hch', hs'⟩ := constFromMapping_spec hneg
            refine ⟨?_, Or.inr (constFromMapping_flat hneg), ?_⟩
            · rw [hch', hrel.chans, ← hkeys]
              simp [List.map_map, Function.comp_def]
            · intro c pl hc t
              have hmem : c ∈ cv.map (·.1) := by
                rw [hkeys]; simpa [Pulse.chanNames] using mem_keys_of_lookup _ _ _ hc
              obtain ⟨v, hv⟩ := lookup_some_of_mem_keys cv c hmem
              have hv' : (cv.map (fun (x : Chan × Rat) => match x with | (c, v) => (c, -v))).lookup c = some (-v) := by
                rw [QP.C05.lookup_map_gen cv _ (fun _ v => -v) (by intro x; rfl) c, hv]; rfl
              rw [hs' c (-v) t hv', hs c v t hv]
              simp [sgnV]
      obtain ⟨hwc, hwcol, hws⟩ := hw
      have hnames : Pulse.chanNames { dur := Pr.dur, chans := Pr.chans.map (fun (x : Chan × PL) => match x with
            | (c, pl) => (c, if minus = true then PL.mapV (fun v => -v) pl else pl)), windows := ms } = Pr.chanNames := by
        simp only [Pulse.chanNames, List.map_map]
        apply List.map_congr_left
        intro x _; rfl
      refine ⟨by rw [hnames]; exact hnd, ⟨by rw [hwd]; exact hrel.dur, ?_, by rw [hnames, hwc]; exact hrel.chans,
        ?_, ?_, ?_⟩, hwcol, ?_⟩
      · simp only [ne_eq, List.map_eq_nil_iff]; exact hrel.ne
      · intro c pl hc
        simp only [hlook] at hc
        cases hq : Pr.chans.lookup c with
        | none => simp [hq] at hc
        | some q =>
          simp only [hq, Option.map_some, Option.some.injEq] at hc
          subst hc
          rw [(sgnP_facts minus q (hrel.plPos c q hq)).1]; exact hrel.plDur c q hq
      · intro c pl hc
        simp only [hlook] at hc
        cases hq : Pr.chans.lookup c with
        | none => simp [hq] at hc
        | some q =>
          simp only [hq, Option.map_some, Option.some.injEq] at hc
          subst hc
          exact (sgnP_facts minus q (hrel.plPos c q hq)).2.1
      · intro c pl hc t h0 h1
        simp only [hlook] at hc
        cases hq : Pr.chans.lookup c with
        | none => simp [hq] at hc
        | some q =>
          simp only [hq, Option.map_some, Option.some.injEq] at hc
          subst hc
          rw [hws c q hq t, (sgnP_facts minus q (hrel.plPos c q hq)).2.2 t, hrel.sample c q hq t h0 h1]
      · intro ms' hms'
        rw [hms] at hms'; cases hms'; rfl
    | some l =>
      obtain ⟨w, hw, h1⟩ := bind_ok.mp h1
      cases pure_ok.mp h1
      obtain ⟨hwd, hlr⟩ := aaFromOperator_duration hw
      intro hpos
      obtain ⟨hndl, hrell, hcoll, _⟩ := il (by rw [← hwd]; exact hpos)
      obtain ⟨hndr, hrelr, hcolr, _⟩ := ir (by rw [← hlr, ← hwd]; exact hpos)
      have hel : Pl.isEmpty = false := by simpa [Pulse.isEmpty] using hrell.ne
      have her : Pr.isEmpty = false := by simpa [Pulse.isEmpty] using hrelr.ne
      simp only [hel, her, Bool.false_and, Bool.false_eq_true, if_false] at h2
      obtain ⟨ms, hms, h2⟩ := bind_ok.mp h2
      have hdd' : Pl.dur = Pr.dur := by rw [← hrell.dur, ← hrelr.dur, hlr]
      have hdd : ¬ (Pl.dur ≠ Pr.dur) := by simp [hdd']
      simp only [hdd, if_false, pure_ok] at h2
      have hP : P = { dur := Pl.dur, chans := aaChansP minus Pl Pr, windows := ms } := by
        rw [← h2]
        simp only [Pulse.mk.injEq, true_and, and_true]
        unfold aaChansP sgnP
        rw [← aaF_eq]
        congr 1
        apply List.map_congr_left
        intro x _
        cases Pr.chans.lookup x.1 <;> rfl
      subst hP
      have hnames : Pulse.chanNames { dur := Pl.dur, chans := aaChansP minus Pl Pr, windows := ms }
          = Pl.chanNames ++ Pr.chanNames.filter (fun k => !Pl.chanNames.contains k) := aaChansP_names minus Pl Pr
      have hne : aaChansP minus Pl Pr ≠ [] := by
        obtain ⟨x, xs, hx⟩ := List.exists_cons_of_ne_nil hrell.ne
        simp [aaChansP, hx]
      -- what the waveform plays
      have hwf : w.channels = l.channels ++ r.channels.filter (fun c => !l.channels.contains c) ∧ Collapsible w ∧
          ∀ c pl, (aaChansP minus Pl Pr).lookup c = some pl → ∀ t,
            w.sample c t =
              aaSample minus (l.channels.contains c) (r.channels.contains c) (l.sample c t) (r.sample c t) := by
        unfold fromOperator at hw
        cases hcl : l.constDict with
        | none =>
          simp only [hcl] at hw
          split at hw
          · cases hw
          · simp only [Except.ok.injEq] at hw
            subst hw
            exact ⟨rfl, Or.inl rfl, fun c pl _ t => arith_sample l r minus c t⟩
        | some cvl =>
          cases hcr : r.constDict with
          | none =>
            simp only [hcl, hcr] at hw
            split at hw
            · cases hw
            · simp only [Except.ok.injEq] at hw
              subst hw
              exact ⟨rfl, Or.inl rfl, fun c pl _ t => arith_sample l r minus c t⟩
          | some cvr =>
            simp only [hcl, hcr] at hw
            split at hw
            · cases hw
            · change constFromMapping l.duration (cvMerge minus cvl cvr) = .ok w at hw
              obtain ⟨hkl, hsl⟩ := flat_const_facts hrell hcoll hcl
              obtain ⟨hkr, hsr⟩ := flat_const_facts hrelr hcolr hcr
              have hndr' : (cvr.map (·.1)).Nodup := by rw [hkr]; exact (ptHasDup_iff _).mp hndr
              obtain ⟨_, _, hch', hs'⟩ := constFromMapping_spec hw
              refine ⟨?_, Or.inr (constFromMapping_flat hw), ?_⟩
              · rw [hch', cvMerge_keys minus cvr cvl hndr', hkl, hkr, hrell.chans, hrelr.chans]
              · intro c pl hc t
                rw [aaChansP_lookup] at hc
                have hml := cvMerge_lookup minus cvr cvl hndr' c
                rw [wfRel_contains hrell, wfRel_contains hrelr]
                -- presence in the dictionaries = presence in the pulses
                have pl_iff : (Pl.chans.lookup c).isSome = (cvl.lookup c).isSome := by
                  rw [QP.C05.lookup_isSome_iff, QP.C05.lookup_isSome_iff]
                  show Pl.chanNames.contains c = _
                  rw [← hkl]
                have pr_iff : (Pr.chans.lookup c).isSome = (cvr.lookup c).isSome := by
                  rw [QP.C05.lookup_isSome_iff, QP.C05.lookup_isSome_iff]
                  show Pr.chanNames.contains c = _
                  rw [← hkr]
                rw [pl_iff, pr_iff]
                cases ha : cvl.lookup c with
                | none =>
                  cases hb : cvr.lookup c with
                  | none =>
                    rw [ha] at pl_iff; rw [hb] at pr_iff
                    cases h1 : Pl.chans.lookup c <;> cases h2 : Pr.chans.lookup c <;>
                      simp [h1, h2, aaPickP] at hc pl_iff pr_iff
                  | some b =>
                    rw [ha, hb] at hml
                    simp only [cvCombine] at hml
                    rw [hs' c _ t hml, hsr c b t hb]
                    simp [aaSample, sgnV]
                | some a =>
                  cases hb : cvr.lookup c with
                  | none =>
                    rw [ha, hb] at hml
                    simp only [cvCombine] at hml
                    rw [hs' c _ t hml, hsl c a t ha]
                    simp [aaSample]
                  | some b =>
                    rw [ha, hb] at hml
                    simp only [cvCombine] at hml
                    rw [hs' c _ t hml, hsl c a t ha, hsr c b t hb]
                    simp [aaSample]
      obtain ⟨hwc, hwcol, hws⟩ := hwf
      refine ⟨by rw [hnames, ← aaChansP_names minus Pl Pr]; exact hasDup_aa minus Pl Pr hndl hndr,
        ⟨by rw [hwd]; exact hrell.dur, hne, by rw [hnames, hwc, hrell.chans, hrelr.chans], ?_, ?_, ?_⟩, hwcol, ?_⟩
      · intro c pl hc
        exact (aa_spec minus hrell hrelr hdd' c pl hc).1
      · intro c pl hc
        exact (aa_spec minus hrell hrelr hdd' c pl hc).2.1
      · intro c pl hc t h0 h1
        rw [hws c pl hc t]
        exact (aa_spec minus hrell hrelr hdd' c pl hc).2.2 t h0 h1
      · intro ms' hms'
        rw [hms] at hms'; cases hms'; rfl

end QP.PT
