import QP.Proofs.C06
/-!
Termination of `flatten_and_balance` (model: `flattenLoop`).

`Flat d done rest R` is the fuel-free big-step semantics of the `while` loop: from the state
`(done, rest)` the loop ends with result `R`.  `Flat.fuel` ties it to `flattenLoop` (some fuel suffices,
more fuel does not change the result); the rest of the file shows `∃ R, Flat d done rest R` for every
state, following the paper argument of DESIGN.md §4/C06:

* a list is processed element by element (`Flat.seq`);
* a balanced element never triggers a recursive call; once it is deep enough, every step lowers
  `U` (`balanced_deep_terminates`), before that it is encapsulated (`balanced_terminates`);
* an unbalanced element `c` is encapsulated `k` times, then the recursive calls descend through the
  `k` wrappers down to `c`'s own children (structural induction), and every level comes back balanced.
-/
namespace QP.C06

/-! ### one iteration of the loop, by case -/

theorem fl_nil (n : Nat) (d : Int) (done : List Loop) : flattenLoop n d done [] = .ok done := by
  cases n <;> rfl

theorem fl_enc {n : Nat} {d : Int} {done rest : List Loop} {c : Loop} (h : (depth c : Int) < d - 1) :
    flattenLoop (n + 1) d done (c :: rest) = flattenLoop n d done (encapsulate c :: rest) := by
  conv => lhs; unfold flattenLoop
  simp [h]

theorem fl_rec_ok {n : Nat} {d : Int} {done rest : List Loop} {r : Nat} {v m : Bool} {w : Option Wf} {cs cs' : List Loop}
    (h1 : ¬ (depth (.mk r v m w cs) : Int) < d - 1) (h2 : isBalanced (.mk r v m w cs) = false)
    (h3 : flattenLoop n (d - 1) [] cs = .ok cs') :
    flattenLoop (n + 1) d done (.mk r v m w cs :: rest) = flattenLoop n d done (.mk r v m w cs' :: rest) := by
  conv => lhs; unfold flattenLoop
  simp [h1, h2, h3]

theorem fl_rec_err {n : Nat} {d : Int} {done rest : List Loop} {r : Nat} {v m : Bool} {w : Option Wf} {cs : List Loop} {e : Err}
    (h1 : ¬ (depth (.mk r v m w cs) : Int) < d - 1) (h2 : isBalanced (.mk r v m w cs) = false)
    (h3 : flattenLoop n (d - 1) [] cs = .error e) :
    flattenLoop (n + 1) d done (.mk r v m w cs :: rest) = .error e := by
  conv => lhs; unfold flattenLoop
  simp [h1, h2, h3]

theorem fl_adv {n : Nat} {d : Int} {done rest : List Loop} {c : Loop} (_h1 : ¬ (depth c : Int) < d - 1)
    (h2 : isBalanced c = true) (h3 : (depth c : Int) = d - 1) :
    flattenLoop (n + 1) d done (c :: rest) = flattenLoop n d (done ++ [c]) rest := by
  conv => lhs; unfold flattenLoop
  simp [h2, h3]

theorem fl_merge_ok {n : Nat} {d : Int} {done rest : List Loop} {c c' : Loop} (h1 : ¬ (depth c : Int) < d - 1)
    (h2 : isBalanced c = true) (h3 : ¬ (depth c : Int) = d - 1) (h4 : hasSingleMergeable c = true)
    (h5 : mergeSingleChild c = .ok c') :
    flattenLoop (n + 1) d done (c :: rest) = flattenLoop n d done (c' :: rest) := by
  conv => lhs; unfold flattenLoop
  simp [h1, h2, h3, h4, h5]

theorem fl_merge_err {n : Nat} {d : Int} {done rest : List Loop} {c : Loop} {e : Err} (h1 : ¬ (depth c : Int) < d - 1)
    (h2 : isBalanced c = true) (h3 : ¬ (depth c : Int) = d - 1) (h4 : hasSingleMergeable c = true)
    (h5 : mergeSingleChild c = .error e) :
    flattenLoop (n + 1) d done (c :: rest) = .error e := by
  conv => lhs; unfold flattenLoop
  simp [h1, h2, h3, h4, h5]

theorem fl_unroll {n : Nat} {d : Int} {done rest : List Loop} {c : Loop} (h1 : ¬ (depth c : Int) < d - 1)
    (h2 : isBalanced c = true) (h3 : ¬ (depth c : Int) = d - 1) (h4 : hasSingleMergeable c = false)
    (h5 : c.isLeaf = false) :
    flattenLoop (n + 1) d done (c :: rest) = flattenLoop n d done (unrolled c ++ rest) := by
  conv => lhs; unfold flattenLoop
  simp [h1, h2, h3, h4, h5]

theorem fl_leaf {n : Nat} {d : Int} {done rest : List Loop} {c : Loop} (h1 : ¬ (depth c : Int) < d - 1)
    (h2 : isBalanced c = true) (h3 : ¬ (depth c : Int) = d - 1) (h4 : hasSingleMergeable c = false)
    (h5 : c.isLeaf = true) :
    flattenLoop (n + 1) d done (c :: rest) = flattenLoop n d (done ++ [c]) rest := by
  conv => lhs; unfold flattenLoop
  simp [h1, h2, h3, h4, h5]

/-! ### fuel-free semantics -/

inductive Flat : Int → List Loop → List Loop → Except Err (List Loop) → Prop
  | nil (d : Int) (done : List Loop) : Flat d done [] (.ok done)
  | enc {d done c rest R} : (depth c : Int) < d - 1 → Flat d done (encapsulate c :: rest) R → Flat d done (c :: rest) R
  | recOk {d done r v m w cs rest cs' R} : ¬ (depth (.mk r v m w cs) : Int) < d - 1 →
      isBalanced (.mk r v m w cs) = false → Flat (d - 1) [] cs (.ok cs') →
      Flat d done (.mk r v m w cs' :: rest) R → Flat d done (.mk r v m w cs :: rest) R
  | recErr {d done r v m w cs rest e} : ¬ (depth (.mk r v m w cs) : Int) < d - 1 →
      isBalanced (.mk r v m w cs) = false → Flat (d - 1) [] cs (.error e) →
      Flat d done (.mk r v m w cs :: rest) (.error e)
  | adv {d done c rest R} : ¬ (depth c : Int) < d - 1 → isBalanced c = true → (depth c : Int) = d - 1 →
      Flat d (done ++ [c]) rest R → Flat d done (c :: rest) R
  | mergeOk {d done c c' rest R} : ¬ (depth c : Int) < d - 1 → isBalanced c = true → ¬ (depth c : Int) = d - 1 →
      hasSingleMergeable c = true → mergeSingleChild c = .ok c' → Flat d done (c' :: rest) R → Flat d done (c :: rest) R
  | mergeErr {d done c rest e} : ¬ (depth c : Int) < d - 1 → isBalanced c = true → ¬ (depth c : Int) = d - 1 →
      hasSingleMergeable c = true → mergeSingleChild c = .error e → Flat d done (c :: rest) (.error e)
  | unroll {d done c rest R} : ¬ (depth c : Int) < d - 1 → isBalanced c = true → ¬ (depth c : Int) = d - 1 →
      hasSingleMergeable c = false → c.isLeaf = false → Flat d done (unrolled c ++ rest) R → Flat d done (c :: rest) R
  | leaf {d done c rest R} : ¬ (depth c : Int) < d - 1 → isBalanced c = true → ¬ (depth c : Int) = d - 1 →
      hasSingleMergeable c = false → c.isLeaf = true → Flat d (done ++ [c]) rest R → Flat d done (c :: rest) R

/-- some fuel suffices and more fuel gives the same result -/
theorem Flat.fuel {d : Int} {done rest : List Loop} {R : Except Err (List Loop)} (h : Flat d done rest R) :
    ∃ n, ∀ m, n ≤ m → flattenLoop m d done rest = R := by
  induction h with
  | nil d done => exact ⟨0, fun m _ => fl_nil m d done⟩
  | enc h1 _ ih =>
    obtain ⟨n, hn⟩ := ih
    refine ⟨n + 1, fun m hm => ?_⟩
    obtain ⟨m', rfl⟩ : ∃ m', m = m' + 1 := ⟨m - 1, by omega⟩
    rw [fl_enc h1]; exact hn m' (by omega)
  | recOk h1 h2 _ _ ih1 ih2 =>
    obtain ⟨n1, hn1⟩ := ih1
    obtain ⟨n2, hn2⟩ := ih2
    refine ⟨max n1 n2 + 1, fun m hm => ?_⟩
    obtain ⟨m', rfl⟩ : ∃ m', m = m' + 1 := ⟨m - 1, by omega⟩
    rw [fl_rec_ok h1 h2 (hn1 m' (by omega))]; exact hn2 m' (by omega)
  | recErr h1 h2 _ ih1 =>
    obtain ⟨n1, hn1⟩ := ih1
    refine ⟨n1 + 1, fun m hm => ?_⟩
    obtain ⟨m', rfl⟩ : ∃ m', m = m' + 1 := ⟨m - 1, by omega⟩
    rw [fl_rec_err h1 h2 (hn1 m' (by omega))]
  | adv h1 h2 h3 _ ih =>
    obtain ⟨n, hn⟩ := ih
    refine ⟨n + 1, fun m hm => ?_⟩
    obtain ⟨m', rfl⟩ : ∃ m', m = m' + 1 := ⟨m - 1, by omega⟩
    rw [fl_adv h1 h2 h3]; exact hn m' (by omega)
  | mergeOk h1 h2 h3 h4 h5 _ ih =>
    obtain ⟨n, hn⟩ := ih
    refine ⟨n + 1, fun m hm => ?_⟩
    obtain ⟨m', rfl⟩ : ∃ m', m = m' + 1 := ⟨m - 1, by omega⟩
    rw [fl_merge_ok h1 h2 h3 h4 h5]; exact hn m' (by omega)
  | mergeErr h1 h2 h3 h4 h5 =>
    refine ⟨1, fun m hm => ?_⟩
    obtain ⟨m', rfl⟩ : ∃ m', m = m' + 1 := ⟨m - 1, by omega⟩
    rw [fl_merge_err h1 h2 h3 h4 h5]
  | unroll h1 h2 h3 h4 h5 _ ih =>
    obtain ⟨n, hn⟩ := ih
    refine ⟨n + 1, fun m hm => ?_⟩
    obtain ⟨m', rfl⟩ : ∃ m', m = m' + 1 := ⟨m - 1, by omega⟩
    rw [fl_unroll h1 h2 h3 h4 h5]; exact hn m' (by omega)
  | leaf h1 h2 h3 h4 h5 _ ih =>
    obtain ⟨n, hn⟩ := ih
    refine ⟨n + 1, fun m hm => ?_⟩
    obtain ⟨m', rfl⟩ : ∃ m', m = m' + 1 := ⟨m - 1, by omega⟩
    rw [fl_leaf h1 h2 h3 h4 h5]; exact hn m' (by omega)

theorem mergeSingleChild_error (c : Loop) (e : Err) (h : mergeSingleChild c = .error e) : e = .assertion := by
  unfold mergeSingleChild at h
  split at h
  · split at h
    · simp at h; exact h.symm
    · split at h
      · simp at h; exact h.symm
      · simp at h
  · simp at h; exact h.symm

/-- the loop never "ends" by running out of fuel -/
theorem Flat.not_fuel {d : Int} {done rest : List Loop} {R : Except Err (List Loop)} (h : Flat d done rest R) :
    R ≠ .error .fuel := by
  induction h with
  | nil => simp
  | recErr _ _ _ ih => exact ih
  | mergeErr _ _ _ _ h5 => rw [mergeSingleChild_error _ _ h5]; simp
  | enc _ _ ih => exact ih
  | recOk _ _ _ _ _ ih => exact ih
  | adv _ _ _ _ ih => exact ih
  | mergeOk _ _ _ _ _ _ ih => exact ih
  | unroll _ _ _ _ _ _ ih => exact ih
  | leaf _ _ _ _ _ _ ih => exact ih

/-- the elements of the work list are processed one after the other -/
theorem Flat.seq {d : Int} {pre xs : List Loop} {X : Except Err (List Loop)} (h : Flat d pre xs X) (ys : List Loop)
    (hys : ∀ o, X = .ok o → ∃ R, Flat d o ys R) : ∃ R, Flat d pre (xs ++ ys) R := by
  induction h with
  | nil d done => exact hys done rfl
  | enc h1 _ ih => obtain ⟨R, hR⟩ := ih hys; exact ⟨R, Flat.enc h1 hR⟩
  | recOk h1 h2 hin _ _ ih2 => obtain ⟨R, hR⟩ := ih2 hys; exact ⟨R, Flat.recOk h1 h2 hin hR⟩
  | recErr h1 h2 hin _ => exact ⟨_, Flat.recErr h1 h2 hin⟩
  | adv h1 h2 h3 _ ih => obtain ⟨R, hR⟩ := ih hys; exact ⟨R, Flat.adv h1 h2 h3 hR⟩
  | mergeOk h1 h2 h3 h4 h5 _ ih => obtain ⟨R, hR⟩ := ih hys; exact ⟨R, Flat.mergeOk h1 h2 h3 h4 h5 hR⟩
  | mergeErr h1 h2 h3 h4 h5 => exact ⟨_, Flat.mergeErr h1 h2 h3 h4 h5⟩
  | unroll h1 h2 h3 h4 h5 _ ih =>
    obtain ⟨R, hR⟩ := ih hys
    refine ⟨R, Flat.unroll h1 h2 h3 h4 h5 ?_⟩
    simpa [List.append_assoc] using hR
  | leaf h1 h2 h3 h4 h5 _ ih => obtain ⟨R, hR⟩ := ih hys; exact ⟨R, Flat.leaf h1 h2 h3 h4 h5 hR⟩

/-! ### balance and depth -/

theorem allBalL_iff (k : Nat) : ∀ cs, allBalL k cs = true ↔ ∀ x ∈ cs, depth x = k ∧ isBalanced x = true
  | [] => by simp [allBalL]
  | c :: cs => by simp [allBalL, allBalL_iff k cs]

theorem maxDepthL_of_all (k : Nat) : ∀ cs, cs ≠ [] → (∀ x ∈ cs, depth x = k) → maxDepthL cs = k
  | [], h, _ => absurd rfl h
  | [c], _, h => by simp [maxDepthL, h c (by simp)]
  | c :: c' :: cs, _, h => by
    have := maxDepthL_of_all k (c' :: cs) (by simp) (fun x hx => h x (by simp [hx]))
    rw [maxDepthL, this, h c (by simp)]; simp

/-- in a balanced inner node every child is balanced and exactly one level shallower -/
theorem balanced_children {r : Nat} {v m : Bool} {w : Option Wf} {cs : List Loop} (hne : cs ≠ [])
    (h : isBalanced (.mk r v m w cs) = true) :
    ∀ x ∈ cs, depth x + 1 = depth (.mk r v m w cs) ∧ isBalanced x = true := by
  rw [isBalanced, allBalL_iff] at h
  have hmax := maxDepthL_of_all (headDepth cs) cs hne (fun x hx => (h x hx).1)
  intro x hx
  have hemp : cs.isEmpty = false := by cases cs <;> simp_all
  simp only [depth, hemp, hmax]
  exact ⟨by have := (h x hx).1; simp; omega, (h x hx).2⟩

/-- a node all of whose children are balanced and equally deep is balanced -/
theorem balanced_of_children {r : Nat} {v m : Bool} {w : Option Wf} {cs : List Loop} (k : Nat)
    (h : ∀ x ∈ cs, depth x = k ∧ isBalanced x = true) : isBalanced (.mk r v m w cs) = true := by
  rw [isBalanced, allBalL_iff]
  cases cs with
  | nil => simp
  | cons c cs' =>
    intro x hx
    simp only [headDepth]
    exact ⟨by rw [(h x hx).1, (h c (by simp)).1], (h x hx).2⟩

theorem encapsulate_balanced (c : Loop) : isBalanced (encapsulate c) = isBalanced c := by
  cases c with
  | mk r v m w cs => simp [encapsulate, isBalanced, allBalL, headDepth]

theorem encapsulate_depth (c : Loop) : depth (encapsulate c) = depth c + 1 := by
  cases c with
  | mk r v m w cs => simp [encapsulate, depth, maxDepthL]; omega

/-! ### the measure -/

mutual
def U : Loop → Nat
  | .mk r _ _ _ cs => 1 + (r + 1) * UL cs
def UL : List Loop → Nat
  | [] => 0
  | c :: cs => U c + UL cs
end

theorem U_pos (c : Loop) : 1 ≤ U c := by
  cases c; simp [U]

theorem UL_append (xs ys : List Loop) : UL (xs ++ ys) = UL xs + UL ys := by
  induction xs with
  | nil => simp [UL]
  | cons a as ih => simp [UL, ih]; omega

theorem UL_repeatL (n : Nat) (cs : List Loop) : UL (repeatL n cs) = n * UL cs := by
  induction n with
  | zero => simp [repeatL, UL]
  | succ n ih => rw [repeatL, UL_append, ih, Nat.succ_mul]; omega

theorem UL_unrolled_lt (c : Loop) : UL (unrolled c) < U c := by
  cases c with
  | mk r v m w cs => rw [unrolled, UL_repeatL, U, Nat.succ_mul]; omega

theorem merge_facts (c c' : Loop) (h : mergeSingleChild c = .ok c') (hb : isBalanced c = true) :
    isBalanced c' = true ∧ depth c = depth c' + 1 ∧ U c' < U c := by
  unfold mergeSingleChild at h
  split at h
  · rename_i r v m w cr cv cm cw ccs
    split at h
    · simp at h
    · split at h
      · simp at h
      · simp only [Except.ok.injEq] at h
        subst h
        have hc := balanced_children (cs := [.mk cr cv cm cw ccs]) (by simp) hb (.mk cr cv cm cw ccs) (by simp)
        refine ⟨?_, ?_, ?_⟩
        · have := hc.2; simpa [isBalanced] using this
        · have := hc.1
          have e : depth (.mk (r * cr) (v || cv) (m || cm) cw ccs) = depth (.mk cr cv cm cw ccs) := by simp [depth]
          omega
        · simp only [U, UL]
          have : (r * cr + 1) * UL ccs ≤ (r + 1) * ((cr + 1) * UL ccs) := by
            rw [← Nat.mul_assoc]
            apply Nat.mul_le_mul_right
            have : (r + 1) * (cr + 1) = r * cr + r + cr + 1 := by
              rw [Nat.add_mul, Nat.mul_add, Nat.mul_add]; omega
            omega
          have h2 : (r + 1) * (1 + (cr + 1) * UL ccs + 0) = (r + 1) + (r + 1) * ((cr + 1) * UL ccs) := by
            simp only [Nat.add_zero, Nat.mul_add, Nat.mul_one]
          omega
  · simp at h

/-! ### termination -/

theorem mem_repeatL {α : Type} (n : Nat) (xs : List α) (x : α) (h : x ∈ repeatL n xs) : x ∈ xs := by
  induction n with
  | zero => simp [repeatL] at h
  | succ n ih =>
    simp only [repeatL, List.mem_append] at h
    rcases h with h | h
    · exact h
    · exact ih h

/-- balanced elements that are deep enough: no recursive call, every step lowers `UL` -/
theorem balanced_deep_terminates (d : Int) : ∀ (N : Nat) (xs done : List Loop),
    (∀ x ∈ xs, isBalanced x = true ∧ d - 1 ≤ (depth x : Int)) → UL xs ≤ N → ∃ R, Flat d done xs R := by
  intro N
  induction N with
  | zero =>
    intro xs done _ hU
    cases xs with
    | nil => exact ⟨_, Flat.nil d done⟩
    | cons c rest => have := U_pos c; simp [UL] at hU; omega
  | succ N ih =>
    intro xs done hall hU
    cases xs with
    | nil => exact ⟨_, Flat.nil d done⟩
    | cons c rest =>
      have ⟨hb, hd⟩ := hall c (by simp)
      have hrest : ∀ x ∈ rest, isBalanced x = true ∧ d - 1 ≤ (depth x : Int) := fun x hx => hall x (by simp [hx])
      have hUc := U_pos c
      simp only [UL] at hU
      have h1 : ¬ (depth c : Int) < d - 1 := by omega
      by_cases h3 : (depth c : Int) = d - 1
      · obtain ⟨R, hR⟩ := ih rest (done ++ [c]) hrest (by omega)
        exact ⟨R, Flat.adv h1 hb h3 hR⟩
      · by_cases h4 : hasSingleMergeable c = true
        · cases hm : mergeSingleChild c with
          | error e => exact ⟨_, Flat.mergeErr h1 hb h3 h4 hm⟩
          | ok c' =>
            have ⟨hb', hd', hU'⟩ := merge_facts c c' hm hb
            obtain ⟨R, hR⟩ := ih (c' :: rest) done (by
              intro x hx
              simp only [List.mem_cons] at hx
              rcases hx with hx | hx
              · subst hx; exact ⟨hb', by omega⟩
              · exact hrest x hx) (by simp only [UL]; omega)
            exact ⟨R, Flat.mergeOk h1 hb h3 h4 hm hR⟩
        · have h4' : hasSingleMergeable c = false := by simpa using h4
          by_cases h5 : c.isLeaf = true
          · obtain ⟨R, hR⟩ := ih rest (done ++ [c]) hrest (by omega)
            exact ⟨R, Flat.leaf h1 hb h3 h4' h5 hR⟩
          · have h5' : c.isLeaf = false := by simpa using h5
            have hlt := UL_unrolled_lt c
            obtain ⟨R, hR⟩ := ih (unrolled c ++ rest) done (by
              intro x hx
              simp only [List.mem_append] at hx
              rcases hx with hx | hx
              · cases c with
                | mk r v m w cs =>
                  have hne : cs ≠ [] := by intro h; subst h; simp [Loop.isLeaf] at h5'
                  have := balanced_children hne hb x (mem_repeatL r cs x hx)
                  exact ⟨this.2, by omega⟩
              · exact hrest x hx) (by rw [UL_append]; omega)
            exact ⟨R, Flat.unroll h1 hb h3 h4' h5' hR⟩

/-- a balanced element terminates at every target depth: it is encapsulated until deep enough -/
theorem balanced_terminates (d : Int) : ∀ (k : Nat) (c : Loop) (done : List Loop), isBalanced c = true →
    (d - 1 - (depth c : Int)).toNat ≤ k → ∃ R, Flat d done [c] R := by
  intro k
  induction k with
  | zero =>
    intro c done hb hk
    exact balanced_deep_terminates d (UL [c]) [c] done (by intro x hx; simp at hx; subst hx; exact ⟨hb, by omega⟩) (Nat.le_refl _)
  | succ k ih =>
    intro c done hb hk
    by_cases h1 : (depth c : Int) < d - 1
    · obtain ⟨R, hR⟩ := ih (encapsulate c) done (by rw [encapsulate_balanced]; exact hb)
        (by rw [encapsulate_depth]; push_cast; omega)
      exact ⟨R, Flat.enc h1 hR⟩
    · exact balanced_deep_terminates d (UL [c]) [c] done (by intro x hx; simp at hx; subst hx; exact ⟨hb, by omega⟩) (Nat.le_refl _)

/-- after the recursive call on its children an unbalanced node is balanced, hence terminates -/
theorem rec_step {d : Int} {r : Nat} {v m : Bool} {w : Option Wf} {cs : List Loop}
    (h1 : ¬ (depth (.mk r v m w cs) : Int) < d - 1) (h2 : isBalanced (.mk r v m w cs) = false)
    (hin : ∃ X, Flat (d - 1) [] cs X) (done : List Loop) : ∃ R, Flat d done [.mk r v m w cs] R := by
  obtain ⟨X, hX⟩ := hin
  cases X with
  | error e => exact ⟨_, Flat.recErr h1 h2 hX⟩
  | ok cs' =>
    obtain ⟨n, hn⟩ := hX.fuel
    have hpost := flattenLoop_post n (d - 1) [] cs cs' (by simp) (hn n (Nat.le_refl _))
    have hb' : isBalanced (.mk r v m w cs') = true :=
      balanced_of_children (max (d - 1 - 1) 0).toNat (fun x hx => by
        have := hpost x hx
        exact ⟨by have := this.2; omega, this.1⟩)
    obtain ⟨R, hR⟩ := balanced_terminates d _ (.mk r v m w cs') done hb' (Nat.le_refl _)
    exact ⟨R, Flat.recOk h1 h2 hX hR⟩

def encN : Nat → Loop → Loop
  | 0, c => c
  | k + 1, c => encapsulate (encN k c)

theorem encN_balanced (k : Nat) (c : Loop) : isBalanced (encN k c) = isBalanced c := by
  induction k with
  | zero => rfl
  | succ k ih => rw [encN, encapsulate_balanced, ih]

/-- an unbalanced node under `k` wrappers, deep enough: the recursive calls descend through the wrappers -/
theorem unbalanced_wrapped (c : Loop) (hc : isBalanced c = false) (hch : ∀ d, ∃ X, Flat d [] c.children X) :
    ∀ (k : Nat) (d : Int) (done : List Loop), d - 1 ≤ (depth (encN k c) : Int) → ∃ R, Flat d done [encN k c] R := by
  intro k
  induction k with
  | zero =>
    intro d done hd
    cases c with
    | mk r v m w cs => exact rec_step (by simp only [encN] at hd; omega) hc (hch (d - 1)) done
  | succ k ih =>
    intro d done hd
    have hbk : isBalanced (encN k c) = false := by rw [encN_balanced]; exact hc
    have hdk : (depth (encN (k + 1) c) : Int) = depth (encN k c) + 1 := by rw [encN, encapsulate_depth]; push_cast; rfl
    have hbk1 : isBalanced (encN (k + 1) c) = false := by rw [encN_balanced]; exact hc
    have hin : ∃ X, Flat (d - 1) [] [encN k c] X := ih (d - 1) [] (by omega)
    revert hd hdk hbk1
    rw [encN]
    cases hx : encN k c with
    | mk r' v' m' w' cs' =>
      intro hd hdk hbk1
      rw [hx] at hin
      simp only [encapsulate] at hd hbk1 ⊢
      exact rec_step (by omega) hbk1 hin done

theorem term1 (c : Loop) (hch : ∀ d, ∃ X, Flat d [] c.children X) (d : Int) (done : List Loop) : ∃ R, Flat d done [c] R := by
  by_cases hb : isBalanced c = true
  · exact balanced_terminates d _ c done hb (Nat.le_refl _)
  · have hb' : isBalanced c = false := by simpa using hb
    have key : ∀ (j k : Nat), (d - 1 - (depth (encN k c) : Int)).toNat ≤ j → ∃ R, Flat d done [encN k c] R := by
      intro j
      induction j with
      | zero => intro k hk; exact unbalanced_wrapped c hb' hch k d done (by omega)
      | succ j ih =>
        intro k hk
        by_cases h1 : (depth (encN k c) : Int) < d - 1
        · obtain ⟨R, hR⟩ := ih (k + 1) (by rw [encN, encapsulate_depth]; push_cast; omega)
          exact ⟨R, Flat.enc h1 hR⟩
        · exact unbalanced_wrapped c hb' hch k d done (by omega)
    exact key _ 0 (Nat.le_refl _)

mutual
theorem term_loop : ∀ (c : Loop) (d : Int) (done : List Loop), ∃ R, Flat d done [c] R
  | .mk r v m w cs, d, done => term1 (.mk r v m w cs) (fun d' => term_list cs d' []) d done
theorem term_list : ∀ (cs : List Loop) (d : Int) (done : List Loop), ∃ R, Flat d done cs R
  | [], d, done => ⟨_, Flat.nil d done⟩
  | c :: cs, d, done => by
    obtain ⟨X, hX⟩ := term_loop c d done
    have := hX.seq cs (fun o _ => term_list cs d o)
    simpa using this
end

/-- for every state of the loop there is a fuel from which on the result is stable and not "out of fuel" -/
theorem flattenLoop_terminates (d : Int) (done rest : List Loop) :
    ∃ n R, R ≠ .error .fuel ∧ ∀ m, n ≤ m → flattenLoop m d done rest = R := by
  obtain ⟨R, hR⟩ := term_list rest d done
  obtain ⟨n, hn⟩ := hR.fuel
  exact ⟨n, R, hR.not_fuel, hn⟩

theorem merge_ok_of_mergeable (c : Loop) (hv : noInnerWf c = true) (h : hasSingleMergeable c = true) :
    ∃ c', mergeSingleChild c = .ok c' := by
  unfold hasSingleMergeable at h
  split at h
  · rename_i r v m w cr cv x1 x2 x3
    have ⟨hw, _⟩ := noInnerWf_mk hv
    have hw' : w = none := by simpa using hw
    subst hw'
    unfold mergeSingleChild
    simp only [Option.isSome_none, Bool.false_eq_true, if_false]
    split
    · rename_i hbad
      exfalso
      simp only [Bool.and_eq_true, Bool.not_eq_true'] at hbad
      simp only [Bool.or_eq_true, Bool.not_eq_true'] at h
      rcases h with h | h
      · rw [h] at hbad; simp at hbad
      · rw [h] at hbad; simp at hbad
    · exact ⟨_, rfl⟩
  · simp at h

/-- on trees whose inner nodes carry no waveform the only way the model's loop can fail is by running out of fuel -/
theorem flattenLoop_error_is_fuel : ∀ (n : Nat) (d : Int) (done rest : List Loop) (e : Err),
    noInnerWfL rest = true → flattenLoop n d done rest = .error e → e = .fuel := by
  intro n
  induction n with
  | zero =>
    intro d done rest e _ h
    cases rest with
    | nil => simp [flattenLoop] at h
    | cons c rest => simp [flattenLoop] at h; exact h.symm
  | succ n ih =>
    intro d done rest e hv h
    cases rest with
    | nil => simp [flattenLoop] at h
    | cons c rest =>
      simp only [noInnerWfL, Bool.and_eq_true] at hv
      by_cases h1 : (depth c : Int) < d - 1
      · rw [fl_enc h1] at h
        exact ih d done _ e (by simp [noInnerWfL, noInnerWf_encapsulate c hv.1, hv.2]) h
      · by_cases h2 : isBalanced c = true
        · by_cases h3 : (depth c : Int) = d - 1
          · rw [fl_adv h1 h2 h3] at h
            exact ih d _ rest e hv.2 h
          · by_cases h4 : hasSingleMergeable c = true
            · obtain ⟨c', hc'⟩ := merge_ok_of_mergeable c hv.1 h4
              rw [fl_merge_ok h1 h2 h3 h4 hc'] at h
              exact ih d done _ e (by simp [noInnerWfL, noInnerWf_merge c c' hv.1 hc', hv.2]) h
            · have h4' : hasSingleMergeable c = false := by simpa using h4
              by_cases h5 : c.isLeaf = true
              · rw [fl_leaf h1 h2 h3 h4' h5] at h
                exact ih d _ rest e hv.2 h
              · have h5' : c.isLeaf = false := by simpa using h5
                rw [fl_unroll h1 h2 h3 h4' h5'] at h
                exact ih d done _ e (by simp [noInnerWfL_append, noInnerWfL_unrolled c hv.1, hv.2]) h
        · have h2' : isBalanced c = false := by simpa using h2
          cases c with
          | mk r v m w cs =>
            have ⟨hw, hcs⟩ := noInnerWf_mk hv.1
            cases hin : flattenLoop n (d - 1) [] cs with
            | error e' =>
              rw [fl_rec_err h1 h2' hin] at h
              simp only [Except.error.injEq] at h
              subst h
              exact ih (d - 1) [] cs e' hcs hin
            | ok cs' =>
              rw [fl_rec_ok h1 h2' hin] at h
              have hcs' := (flattenLoop_play_wf n (d - 1) [] cs cs' rfl hcs hin).2
              have hne : cs.isEmpty = false := by
                cases cs with
                | nil => simp [isBalanced, allBalL] at h2'
                | cons _ _ => rfl
              have hw' : w = none := by simp_all
              exact ih d done _ e (by simp [noInnerWfL, noInnerWf, hw', hcs', hv.2]) h

end QP.C06
