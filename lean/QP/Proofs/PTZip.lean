import QP.Model.PT
import QP.Proofs.PTSample
import Mathlib.Tactic.FieldSimp
import Mathlib.Tactic.Linarith
import Mathlib.Tactic.Ring
/-! `PL.zipWith` (pointwise `lhs ± rhs` of two piecewise linear functions with breakpoint refinement): duration,
positivity and the value at every time. -/
namespace QP.PT

/-- `a + sg·b` -/
def ptLin (sg : Rat) (a b : Rat) : Rat := a + sg * b

theorem ptLin_valueAt (sg : Rat) (a b : Seg) (L t : Rat) (hL : L ≠ 0) (ha : a.len = L) (hb : b.len = L) :
    ({ len := L, v0 := ptLin sg a.v0 b.v0, v1 := ptLin sg a.v1 b.v1, amb := a.amb || b.amb } : Seg).valueAt t
      = ptLin sg (a.valueAt t) (b.valueAt t) := by
  simp only [Seg.valueAt, ptLin, ha, hb]
  field_simp
  ring

/-- the rest of a piece after cutting off `x` at its front -/
theorem PL.at_cut (b : Seg) (bs : PL) (x t : Rat) (hx0 : 0 < x) (hx : x < b.len) (ht : x ≤ t) :
    PL.at (b :: bs) t =
      PL.at ({ len := b.len - x, v0 := b.valueAt x, v1 := b.v1, amb := false } :: bs) (t - x) := by
  simp only [PL.at]
  by_cases h : t < b.len
  · have h' : t - x < b.len - x := by linarith
    simp only [h, h', if_true, Option.some.injEq, Seg.valueAt]
    have h1 : b.len ≠ 0 := by linarith
    have h2 : b.len - x ≠ 0 := by linarith
    field_simp
    ring
  · have h' : ¬ t - x < b.len - x := by linarith
    simp only [h, h', if_false]
    congr 1
    ring

theorem ptZip_facts (sg : Rat) : ∀ (a b : PL), a.pos → b.pos → PL.dur a = PL.dur b →
    PL.dur (PL.zipWith (ptLin sg) a b) = PL.dur a ∧ (PL.zipWith (ptLin sg) a b).pos ∧
    ∀ t, 0 ≤ t → t < PL.dur a → ∃ va vb, PL.at a t = some va ∧ PL.at b t = some vb ∧
      PL.at (PL.zipWith (ptLin sg) a b) t = some (ptLin sg va vb) := by
  intro a b
  fun_induction PL.zipWith (ptLin sg) a b with
  | case1 b =>
    intro _ _ _
    refine ⟨rfl, fun s hs => by simp at hs, ?_⟩
    intro t h0 h1
    simp [PL.dur] at h1
    linarith
  | case2 a hne =>
    intro ha hb hd
    cases a with
    | nil => exact absurd rfl hne
    | cons s r =>
      have h1 := ha s (List.mem_cons_self ..)
      have h2 := PL.dur_nonneg r (fun x hx => ha x (List.mem_cons_of_mem _ hx))
      simp only [PL.dur] at hd
      linarith
  | case3 a as b bs heq ih =>
    intro ha hb hd
    have ha' : PL.pos as := fun x hx => ha x (List.mem_cons_of_mem _ hx)
    have hb' : PL.pos bs := fun x hx => hb x (List.mem_cons_of_mem _ hx)
    have hal := ha a (List.mem_cons_self ..)
    simp only [PL.dur] at hd
    obtain ⟨i1, i2, i3⟩ := ih ha' hb' (by linarith)
    refine ⟨by simp only [PL.dur, i1], ?_, ?_⟩
    · intro s hs
      rcases List.mem_cons.mp hs with rfl | hs
      · exact hal
      · exact i2 s hs
    · intro t h0 h1
      simp only [PL.dur] at h1
      simp only [PL.at]
      by_cases hlt : t < a.len
      · have hltb : t < b.len := by rw [← heq]; exact hlt
        simp only [hlt, hltb, if_true]
        refine ⟨_, _, rfl, rfl, ?_⟩
        congr 1
        exact ptLin_valueAt sg a b a.len t (ne_of_gt hal) rfl heq.symm
      · have hltb : ¬ t < b.len := by rw [← heq]; exact hlt
        simp only [hlt, hltb, if_false]
        obtain ⟨va, vb, e1, e2, e3⟩ := i3 (t - a.len) (by linarith) (by linarith)
        refine ⟨va, vb, e1, by rw [← heq]; exact e2, e3⟩
  | case4 a as b bs hne hlt bm ih =>
    intro ha hb hd
    have ha' : PL.pos as := fun x hx => ha x (List.mem_cons_of_mem _ hx)
    have hal := ha a (List.mem_cons_self ..)
    have hbl := hb b (List.mem_cons_self ..)
    have hb' : PL.pos ({ len := b.len - a.len, v0 := bm, v1 := b.v1, amb := false } :: bs) := by
      intro x hx
      rcases List.mem_cons.mp hx with rfl | hx
      · simp only; linarith
      · exact hb x (List.mem_cons_of_mem _ hx)
    simp only [PL.dur] at hd
    obtain ⟨i1, i2, i3⟩ := ih ha' hb' (by simp only [PL.dur]; linarith)
    refine ⟨by simp only [PL.dur, i1], ?_, ?_⟩
    · intro s hs
      rcases List.mem_cons.mp hs with rfl | hs
      · exact hal
      · exact i2 s hs
    · intro t h0 h1
      simp only [PL.dur] at h1
      by_cases hta : t < a.len
      · have htb : t < b.len := by linarith
        refine ⟨a.valueAt t, b.valueAt t, by simp [PL.at, hta], by simp [PL.at, htb], ?_⟩
        simp only [PL.at, hta, if_true, Option.some.injEq]
        simp only [Seg.valueAt, ptLin, bm]
        have h1' : a.len ≠ 0 := ne_of_gt hal
        have h2' : b.len ≠ 0 := ne_of_gt hbl
        field_simp
        ring
      · have hge : a.len ≤ t := not_lt.mp hta
        obtain ⟨va, vb, e1, e2, e3⟩ := i3 (t - a.len) (by linarith) (by linarith)
        refine ⟨va, vb, by simp only [PL.at, hta, if_false]; exact e1, ?_, by simp only [PL.at, hta, if_false]; exact e3⟩
        rw [PL.at_cut b bs a.len t hal hlt hge]
        exact e2
  | case5 a as b bs hne hnlt am ih =>
    intro ha hb hd
    have hb' : PL.pos bs := fun x hx => hb x (List.mem_cons_of_mem _ hx)
    have hal := ha a (List.mem_cons_self ..)
    have hbl := hb b (List.mem_cons_self ..)
    have hlt : b.len < a.len := lt_of_le_of_ne (not_lt.mp hnlt) (Ne.symm hne)
    have ha' : PL.pos ({ len := a.len - b.len, v0 := am, v1 := a.v1, amb := false } :: as) := by
      intro x hx
      rcases List.mem_cons.mp hx with rfl | hx
      · simp only; linarith
      · exact ha x (List.mem_cons_of_mem _ hx)
    simp only [PL.dur] at hd
    obtain ⟨i1, i2, i3⟩ := ih ha' hb' (by simp only [PL.dur]; linarith)
    refine ⟨by simp only [PL.dur] at i1 ⊢; linarith, ?_, ?_⟩
    · intro s hs
      rcases List.mem_cons.mp hs with rfl | hs
      · exact hbl
      · exact i2 s hs
    · intro t h0 h1
      simp only [PL.dur] at h1
      by_cases htb : t < b.len
      · have hta : t < a.len := by linarith
        refine ⟨a.valueAt t, b.valueAt t, by simp [PL.at, hta], by simp [PL.at, htb], ?_⟩
        simp only [PL.at, htb, if_true, Option.some.injEq]
        simp only [Seg.valueAt, ptLin, am]
        have h1' : a.len ≠ 0 := ne_of_gt hal
        have h2' : b.len ≠ 0 := ne_of_gt hbl
        field_simp
        ring
      · have hge : b.len ≤ t := not_lt.mp htb
        obtain ⟨va, vb, e1, e2, e3⟩ := i3 (t - b.len) (by linarith) (by simp only [PL.dur]; linarith)
        refine ⟨va, vb, ?_, by simp only [PL.at, htb, if_false]; exact e2, by simp only [PL.at, htb, if_false]; exact e3⟩
        rw [PL.at_cut a as b.len t hbl hlt hge]
        exact e1

end QP.PT
