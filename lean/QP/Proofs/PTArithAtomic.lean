import QP.Model.PT
import QP.Proofs.PTZip
import QP.Proofs.PTDict
import QP.Proofs.PTPush
import QP.Proofs.PTBuildAtoms
/-! `ArithmeticAtomicPulseTemplate.build_waveform` (`lhs ± rhs`: `ArithmeticWaveform.from_operator` with its constant
shortcut, `Waveform.__neg__` when only the right operand plays) against the pointwise combination of the denoted
piecewise linear functions.  Stated for waveforms of positive duration (`BuildOKP`), which is what an appended leaf
needs. -/
namespace QP.PT

/-- `BuildOK` for waveforms of positive duration, with the channel names of the pulse being distinct -/
def BuildOKP (pt : PT) : Prop :=
  ∀ σ mm cm w? P, buildWaveform pt σ cm = .ok w? → denote pt σ mm cm = .ok P →
    match w? with
    | none => P = Pulse.empty
    | some w => 0 < w.duration → hasDup P.chanNames = false ∧ WfRel w P ∧ Collapsible w ∧
        ∀ ms, atomicMeas pt σ mm = .ok ms → P.windows = ms

/-- the channel names of a denoted pulse are distinct -/
def DenoteND (pt : PT) : Prop := ∀ σ mm cm P, denote pt σ mm cm = .ok P → hasDup P.chanNames = false

theorem BuildOK.toP {pt : PT} (h : BuildOK pt) (hnd : DenoteND pt) : BuildOKP pt := by
  intro σ mm cm w? P h1 h2
  have := h σ mm cm w? P h1 h2
  cases w? with
  | none => exact this
  | some w =>
    intro hpos
    obtain ⟨hrel, hcol⟩ := this.2.2.2.1 hpos
    exact ⟨hnd σ mm cm P h2, hrel, hcol, this.2.2.2.2⟩

/-! ### the specification side -/

def sgnP (minus : Bool) (pl : PL) : PL := if minus then pl.mapV (fun v => -v) else pl
def sgnV (minus : Bool) (v : Rat) : Rat := if minus then -v else v

theorem PL.at_mapV_neg (p : PL) : ∀ t, PL.at (p.mapV (fun v => -v)) t = (PL.at p t).map (fun v => -v) := by
  induction p with
  | nil => intro t; rfl
  | cons s r ih =>
    intro t
    have ih' := ih (t - s.len)
    simp only [PL.mapV, List.map_cons, PL.at] at ih' ⊢
    by_cases hlt : t < s.len
    · simp only [hlt, if_true, Option.map_some, Option.some.injEq, Seg.valueAt]
      ring
    · simp only [hlt, if_false]
      exact ih'

theorem sgnP_facts (minus : Bool) (pl : PL) (hp : pl.pos) :
    PL.dur (sgnP minus pl) = PL.dur pl ∧ (sgnP minus pl).pos ∧
      ∀ t, PL.at (sgnP minus pl) t = (PL.at pl t).map (sgnV minus) := by
  cases minus with
  | false =>
    refine ⟨rfl, hp, ?_⟩
    intro t
    simp only [sgnP, sgnV, Bool.false_eq_true, if_false]
    cases PL.at pl t <;> rfl
  | true =>
    refine ⟨PL.dur_mapV _ _, PL.pos_mapV _ hp, ?_⟩
    intro t
    simp only [sgnP, sgnV, if_true]
    exact PL.at_mapV_neg pl t

def sgOfP (minus : Bool) : Rat := if minus then -1 else 1

theorem aaF_eq (minus : Bool) : (fun (a b : Rat) => if minus then a - b else a + b) = ptLin (sgOfP minus) := by
  funext a b
  cases minus <;> simp [ptLin, sgOfP] <;> ring

/-- the channels of `lhs ± rhs` as `denote` writes them -/
def aaChansP (minus : Bool) (l r : Pulse) : List (Chan × PL) :=
  l.chans.map (fun (x : Chan × PL) => (x.1, match r.chans.lookup x.1 with
      | some q => PL.zipWith (ptLin (sgOfP minus)) x.2 q
      | none => x.2)) ++
  (r.chans.filter (fun (x : Chan × PL) => (l.chans.lookup x.1).isNone)).map (fun (x : Chan × PL) => (x.1, sgnP minus x.2))

def aaPickP (minus : Bool) (l r : Option PL) : Option PL :=
  match l, r with
  | some p, some q => some (PL.zipWith (ptLin (sgOfP minus)) p q)
  | some p, none => some p
  | none, some q => some (sgnP minus q)
  | none, none => none

theorem aaChansP_lookup (minus : Bool) (l r : Pulse) (c : Chan) :
    (aaChansP minus l r).lookup c = aaPickP minus (l.chans.lookup c) (r.chans.lookup c) := by
  unfold aaChansP
  rw [QP.C05.lookup_append',
    QP.C05.lookup_map_gen l.chans _ (fun k pl => match r.chans.lookup k with
      | some q => PL.zipWith (ptLin (sgOfP minus)) pl q
      | none => pl) (by intro x; rfl) c,
    QP.C05.lookup_map_gen _ _ (fun _ pl => sgnP minus pl) (by intro x; rfl) c,
    QP.C05.lookup_filter_gen r.chans _ (fun k => (l.chans.lookup k).isNone) (by intro x; rfl) c]
  cases hl : l.chans.lookup c <;> cases hr : r.chans.lookup c <;> simp [aaPickP]

theorem aaChansP_names (minus : Bool) (l r : Pulse) :
    (aaChansP minus l r).map (·.1) = l.chanNames ++ r.chanNames.filter (fun k => !l.chanNames.contains k) := by
  unfold aaChansP Pulse.chanNames
  simp only [List.map_append, List.map_map, Function.comp_def]
  congr 1
  rw [List.filter_map]
  congr 1
  apply List.filter_congr
  intro x _
  simp only [Function.comp]
  have := QP.C05.lookup_isSome_iff l.chans x.1
  cases h : l.chans.lookup x.1 with
  | none => simp [h] at this; simp [this]
  | some v => simp [h] at this; simp [this]

end QP.PT
