import QP.Proofs.C20Code
/-! Helper lemmas for C20: `average_windows`. -/
namespace QP.C20

/-- does the sample at time `t` belong to the window `[b, e)` -/
def inWin (b e : Rat) (p : Rat × Rat) : Bool := decide (b ≤ p.1) && decide (p.1 < e)

theorem averageSpecOne_def (time values : List Rat) (w : Rat × Rat) :
    averageSpecOne time values w =
      (let sel := (time.zip values).filter (inWin w.1 w.2)
       if sel.isEmpty then none else some ((sel.map (·.2)).sum / (sel.length : Rat))) := rfl

/-! ### the numba sweep -/

/-- what one sample does to one window in the specification -/
def Acc.step (t v : Rat) (a : Acc) : Acc := if a.b ≤ t ∧ t < a.e then a.add v else a

/-- a window after all samples have been offered to it -/
def absorb (samples : List (Rat × Rat)) (a : Acc) : Acc := samples.foldl (fun a s => a.step s.1 s.2) a

@[simp] theorem Acc.step_b (t v : Rat) (a : Acc) : (a.step t v).b = a.b := by
  unfold Acc.step Acc.add; split <;> rfl
@[simp] theorem Acc.step_e (t v : Rat) (a : Acc) : (a.step t v).e = a.e := by
  unfold Acc.step Acc.add; split <;> rfl

theorem absorb_cons (t v : Rat) (ss : List (Rat × Rat)) (a : Acc) :
    absorb ((t, v) :: ss) a = absorb ss (a.step t v) := rfl

/-- a window that has ended before every remaining sample does not change any more -/
theorem absorb_noop : ∀ (ss : List (Rat × Rat)) (a : Acc), (∀ s ∈ ss, a.e ≤ s.1) → absorb ss a = a
  | [], _, _ => rfl
  | (t, v) :: ss, a, h => by
    rw [absorb_cons]
    have : a.step t v = a := by
      unfold Acc.step
      have := h (t, v) List.mem_cons_self
      simp only at this
      rw [if_neg]
      intro hh; exact absurd hh.2 (not_lt.mpr this)
    rw [this]
    exact absorb_noop ss a (fun s hs => h s (List.mem_cons_of_mem _ hs))

/-- `dropFinished` splits off exactly the prefix of finished windows when ends are sorted -/
theorem dropFinished_spec (t : Rat) : ∀ (rem : List Acc), Sorted (rem.map (·.e)) →
    rem = (rem.take (dropFinished t rem).1.length) ++ (dropFinished t rem).2 ∧
    (dropFinished t rem).1 = (rem.take (dropFinished t rem).1.length).map Acc.finalize ∧
    (∀ a ∈ rem.take (dropFinished t rem).1.length, a.e ≤ t) ∧
    (∀ a ∈ (dropFinished t rem).2, t < a.e)
  | [], _ => by simp [dropFinished]
  | a :: as, hs => by
    unfold Sorted at hs
    rw [List.map_cons, List.pairwise_cons] at hs
    unfold dropFinished
    split
    · rename_i hle
      obtain ⟨h1, h2, h3, h4⟩ := dropFinished_spec t as hs.2
      simp only [List.length_cons, List.take_succ_cons, List.cons_append, List.map_cons]
      refine ⟨by rw [← h1], by rw [← h2], ?_, h4⟩
      intro x hx
      rcases List.mem_cons.mp hx with rfl | hx
      · exact hle
      · exact h3 x hx
    · rename_i hnle
      simp only [List.length_nil, List.take_zero, List.nil_append, List.map_nil, true_and]
      refine ⟨by simp, ?_⟩
      intro x hx
      rcases List.mem_cons.mp hx with rfl | hx
      · exact not_le.mp hnle
      · exact lt_of_lt_of_le (not_le.mp hnle) (hs.1 x.e (List.mem_map.mpr ⟨x, hx, rfl⟩))

/-- `addWhile` offers the sample to every open window when begins are sorted -/
theorem addWhile_spec (t v : Rat) : ∀ (rem : List Acc), Sorted (rem.map (·.b)) → (∀ a ∈ rem, t < a.e) →
    addWhile t v rem = rem.map (Acc.step t v)
  | [], _, _ => rfl
  | a :: as, hs, he => by
    unfold Sorted at hs
    rw [List.map_cons, List.pairwise_cons] at hs
    unfold addWhile
    split
    · rename_i hle
      rw [addWhile_spec t v as hs.2 (fun x hx => he x (List.mem_cons_of_mem _ hx))]
      simp [Acc.step, hle, he a List.mem_cons_self]
    · rename_i hnle
      rw [List.map_cons]
      have h0 : a.step t v = a := by
        unfold Acc.step; rw [if_neg]; intro hh; exact hnle hh.1
      rw [h0]
      congr 1
      have : as.map (Acc.step t v) = as.map id := List.map_congr_left (fun x hx => by
        have hb : a.b ≤ x.b := hs.1 x.b (List.mem_map.mpr ⟨x, hx, rfl⟩)
        unfold Acc.step; rw [if_neg]; · rfl
        intro hh; exact hnle (le_trans hb hh.1))
      rw [this, List.map_id]

theorem sorted_map_step_b (t v : Rat) (rem : List Acc) :
    (rem.map (Acc.step t v)).map (·.b) = rem.map (·.b) := by
  rw [List.map_map]; apply List.map_congr_left; intro a _; simp
theorem sorted_map_step_e (t v : Rat) (rem : List Acc) :
    (rem.map (Acc.step t v)).map (·.e) = rem.map (·.e) := by
  rw [List.map_map]; apply List.map_congr_left; intro a _; simp

theorem Sorted.of_append_right {xs ys : List Rat} (h : Sorted (xs ++ ys)) : Sorted ys := by
  unfold Sorted at *; exact (List.pairwise_append.mp h).2.1

/-- with sorted sample times and windows sorted by begin and by end, the sweep of the numba variant
gives every window exactly the samples inside it -/
theorem numbaSweep_sorted : ∀ (samples : List (Rat × Rat)) (rem : List Acc),
    Sorted (samples.map (·.1)) → Sorted (rem.map (·.b)) → Sorted (rem.map (·.e)) →
    numbaSweep samples rem = rem.map (fun a => (absorb samples a).finalize)
  | [], rem, _, _, _ => by simp [numbaSweep, absorb]
  | (t, v) :: ss, rem, ht, hb, he => by
    unfold Sorted at ht
    rw [List.map_cons, List.pairwise_cons] at ht
    obtain ⟨h1, h2, h3, h4⟩ := dropFinished_spec t rem he
    unfold numbaSweep
    simp only
    generalize hk : (dropFinished t rem).1.length = k at h1 h2 h3
    generalize hr : (dropFinished t rem).2 = r2 at h1 h4
    have hb2 : Sorted (r2.map (·.b)) := by
      have : Sorted ((rem.take k).map (·.b) ++ r2.map (·.b)) := by rw [← List.map_append, ← h1]; exact hb
      exact this.of_append_right
    have he2 : Sorted (r2.map (·.e)) := by
      have : Sorted ((rem.take k).map (·.e) ++ r2.map (·.e)) := by rw [← List.map_append, ← h1]; exact he
      exact this.of_append_right
    rw [addWhile_spec t v r2 hb2 h4]
    rw [numbaSweep_sorted ss (r2.map (Acc.step t v)) ht.2
      (by rw [sorted_map_step_b]; exact hb2) (by rw [sorted_map_step_e]; exact he2)]
    rw [h2]
    conv => rhs; rw [h1]
    rw [List.map_append, List.map_map]
    congr 1
    · apply List.map_congr_left
      intro a ha
      rw [absorb_noop]
      intro s hs
      rcases List.mem_cons.mp hs with rfl | hs
      · exact h3 a ha
      · exact le_trans (h3 a ha) (ht.1 s.1 (List.mem_map.mpr ⟨s, hs, rfl⟩))

end QP.C20

namespace QP.C20

/-- closed form of `absorb`: sum and count of the samples inside the window are added -/
theorem absorb_closed : ∀ (ss : List (Rat × Rat)) (a : Acc),
    absorb ss a = ⟨a.b, a.e, a.sum + ((ss.filter (inWin a.b a.e)).map (·.2)).sum,
                   a.cnt + (ss.filter (inWin a.b a.e)).length⟩
  | [], a => by simp [absorb]
  | (t, v) :: ss, a => by
    rw [absorb_cons, absorb_closed ss (a.step t v)]
    simp only [Acc.step_b, Acc.step_e]
    unfold Acc.step
    by_cases h : a.b ≤ t ∧ t < a.e
    · have hw : inWin a.b a.e (t, v) = true := by simp [inWin, h.1, h.2]
      simp only [h, and_self, if_true, Acc.add, List.filter_cons, hw, List.map_cons, List.sum_cons,
        List.length_cons, Acc.mk.injEq, true_and]
      constructor
      · ring
      · omega
    · have hw : inWin a.b a.e (t, v) = false := by
        simp only [inWin, Bool.and_eq_false_iff, decide_eq_false_iff_not]
        by_cases hb : a.b ≤ t
        · right; intro ht; exact h ⟨hb, ht⟩
        · left; exact hb
      simp [h, hw]

theorem numba_one (samples : List (Rat × Rat)) (w : Rat × Rat) :
    (absorb samples ⟨w.1, w.2, 0, 0⟩).finalize =
      (let sel := samples.filter (inWin w.1 w.2)
       if sel.isEmpty then none else some ((sel.map (·.2)).sum / (sel.length : Rat))) := by
  rw [absorb_closed]
  simp only [Acc.finalize, zero_add]
  cases h : samples.filter (inWin w.1 w.2) with
  | nil => simp
  | cons p ps => simp

/-! ### the numpy variant -/

theorem searchsorted_le_length : ∀ (ts : List Rat) (x : Rat), searchsorted ts x ≤ ts.length
  | [], _ => by simp [searchsorted]
  | t :: ts, x => by
    unfold searchsorted
    split
    · have := searchsorted_le_length ts x; simp; omega
    · simp

theorem filter_none_of_ge {b e : Rat} : ∀ {ss : List (Rat × Rat)}, (∀ p ∈ ss, e ≤ p.1) →
    ss.filter (inWin b e) = []
  | [], _ => rfl
  | p :: ps, h => by
    have hp : inWin b e p = false := by
      simp only [inWin, Bool.and_eq_false_iff, decide_eq_false_iff_not]
      right; exact not_lt.mpr (h p List.mem_cons_self)
    rw [List.filter_cons, hp]
    simp only [Bool.false_eq_true, if_false]
    exact filter_none_of_ge (fun q hq => h q (List.mem_cons_of_mem _ hq))

/-- all samples are at or after the begin: the window is a prefix -/
theorem filter_eq_take {b e : Rat} : ∀ (ss : List (Rat × Rat)), Sorted (ss.map (·.1)) →
    (∀ p ∈ ss, b ≤ p.1) → ss.filter (inWin b e) = ss.take (searchsorted (ss.map (·.1)) e)
  | [], _, _ => by simp [searchsorted]
  | p :: ps, hs, hb => by
    unfold Sorted at hs
    rw [List.map_cons, List.pairwise_cons] at hs
    rw [List.map_cons]
    unfold searchsorted
    by_cases hlt : p.1 < e
    · have hp : inWin b e p = true := by simp [inWin, hlt, hb p List.mem_cons_self]
      simp only [hlt, if_true, List.filter_cons, hp, List.take_succ_cons]
      rw [filter_eq_take ps hs.2 (fun q hq => hb q (List.mem_cons_of_mem _ hq))]
    · simp only [hlt, if_false, List.take_zero]
      apply filter_none_of_ge
      intro q hq
      rcases List.mem_cons.mp hq with rfl | hq
      · exact not_lt.mp hlt
      · exact le_trans (not_lt.mp hlt) (hs.1 q.1 (List.mem_map.mpr ⟨q, hq, rfl⟩))

/-- on sorted sample times the samples inside a window are the slice between the two
`searchsorted` positions -/
theorem filter_eq_slice {b e : Rat} : ∀ (ss : List (Rat × Rat)), Sorted (ss.map (·.1)) →
    ss.filter (inWin b e) =
      (ss.drop (searchsorted (ss.map (·.1)) b)).take
        (searchsorted (ss.map (·.1)) e - searchsorted (ss.map (·.1)) b)
  | [], _ => by simp [searchsorted]
  | p :: ps, hs => by
    have hs' := hs
    unfold Sorted at hs
    rw [List.map_cons, List.pairwise_cons] at hs
    by_cases hb : p.1 < b
    · have hp : inWin b e p = false := by
        simp only [inWin, Bool.and_eq_false_iff, decide_eq_false_iff_not]
        left; exact not_le.mpr hb
      rw [List.filter_cons, hp]
      simp only [Bool.false_eq_true, if_false, List.map_cons]
      by_cases he : p.1 < e
      · simp only [searchsorted, hb, he, if_true, List.drop_succ_cons, Nat.add_sub_add_right]
        exact filter_eq_slice ps hs.2
      · simp only [searchsorted, hb, he, if_true, if_false, Nat.zero_sub, List.take_zero]
        apply filter_none_of_ge
        intro q hq
        exact le_trans (not_lt.mp he) (hs.1 q.1 (List.mem_map.mpr ⟨q, hq, rfl⟩))
    · have hall : ∀ q ∈ p :: ps, b ≤ q.1 := by
        intro q hq
        rcases List.mem_cons.mp hq with rfl | hq
        · exact not_lt.mp hb
        · exact le_trans (not_lt.mp hb) (hs.1 q.1 (List.mem_map.mpr ⟨q, hq, rfl⟩))
      rw [filter_eq_take (p :: ps) hs' hall]
      simp [searchsorted, hb]

theorem accLoop_eq (values : List Rat) : ∀ (k start : Nat) (acc : Rat),
    accLoop values start k acc = acc + ((values.drop start).take k).sum
  | 0, _, acc => by simp [accLoop]
  | k + 1, start, acc => by
    rw [accLoop, accLoop_eq values k (start + 1)]
    by_cases h : start < values.length
    · have : values.drop start = values[start] :: values.drop (start + 1) := List.drop_eq_getElem_cons h
      rw [this, List.take_succ_cons, List.sum_cons]
      simp [List.getD_eq_getElem?_getD, h]
      ring
    · have h1 : values.drop start = [] := List.drop_eq_nil_of_le (by omega)
      have h2 : values.drop (start + 1) = [] := List.drop_eq_nil_of_le (by omega)
      simp [h1, h2, List.getD_eq_getElem?_getD, List.getElem?_eq_none (Nat.le_of_not_lt h)]

theorem averageNumpyOne_eq_spec {time values : List Rat} (hlen : values.length = time.length)
    (ht : Sorted time) (w : Rat × Rat) :
    averageNumpyOne time values w = averageSpecOne time values w := by
  have hfst : (time.zip values).map (·.1) = time := List.map_fst_zip (by omega)
  have hsnd : (time.zip values).map (·.2) = values := List.map_snd_zip (by omega)
  rw [averageSpecOne_def]
  have hsl := filter_eq_slice (b := w.1) (e := w.2) (time.zip values) (by rw [hfst]; exact ht)
  rw [hfst] at hsl
  have hle := searchsorted_le_length time w.2
  simp only [hsl]
  unfold averageNumpyOne
  simp only
  generalize searchsorted time w.1 = s at *
  generalize searchsorted time w.2 = e at *
  have hlen2 : (((time.zip values).drop s).take (e - s)).length = e - s := by
    simp [List.length_take, List.length_drop, List.length_zip]; omega
  have hmap : (((time.zip values).drop s).take (e - s)).map (·.2) = (values.drop s).take (e - s) := by
    rw [List.map_take, List.map_drop, hsnd]
  by_cases hse : s < e
  · have hne : (((time.zip values).drop s).take (e - s)).isEmpty = false := by
      rw [List.isEmpty_eq_false_iff_exists_mem]
      have : 0 < (((time.zip values).drop s).take (e - s)).length := by omega
      exact ⟨_, List.getElem_mem this⟩
    simp only [hse, if_true, hne, Bool.false_eq_true, if_false, hlen2, hmap, accLoop_eq, zero_add]
  · have hemp : (((time.zip values).drop s).take (e - s)) = [] := by
      have : e - s = 0 := by omega
      rw [this]; simp
    simp [hse, hemp]

end QP.C20
