import QP.Proofs.C07Main
import QP.Proofs.C07Point
import QP.Proofs.C07AAtomic
/-!
# C07: the induction over all supported templates
-/
namespace QP.C07
open QP.PT

/-! ### the induction -/

mutual
theorem claim : ∀ (pt : PT), supported pt = true → Claim pt
  | .const id dur amps meas, h => by
      simp only [supported, Bool.not_eq_true'] at h
      exact claim_const id dur amps meas h
  | .func id ch dur e meas cons, h => by
      simp only [supported] at h
      exact claim_func id ch dur e meas cons h
  | .seq id subs meas cons, h => by
      simp only [supported, Bool.and_eq_true] at h
      exact claim_seq id subs meas cons (claimAll subs h.1) h.2
  | .rep id body count meas cons, h => by
      simp only [supported] at h
      exact claim_rep id body count meas cons (claim body h)
  | .forLoop id body idx start stop step meas cons, h => by
      simp only [supported] at h
      exact claim_forLoop id body idx start stop step meas cons (claim body h)
  | .mapping id body pm mm' cm' cons, h => by
      simp only [supported, Bool.and_eq_true, Bool.not_eq_true'] at h
      exact claim_mapping id body pm mm' cm' cons (claim body h.1.1.1) h.1.1.2 h.1.2 h.2
  | .table id entries meas cons, _ => claim_table id entries meas cons
  | .timeReversal id body, h => by
      simp only [supported] at h
      exact claim_timeReversal id body (claim body h)
  | .point id chans entries meas cons, _ => claim_point id chans entries meas cons
  | .parallel id body over, h => by
      simp only [supported, Bool.and_eq_true, Bool.not_eq_true'] at h
      exact claim_parallel id body over (claim body h.1) (invClaim body h.1) h.2
  | .atomicMulti id subs dur meas cons, h => by
      simp only [supported, Bool.and_eq_true, Bool.not_eq_true'] at h
      exact claim_atomicMulti id subs dur meas cons
        (fun p hp => ⟨claimAll subs h.1 p hp, invClaimAll subs h.1 p hp⟩) h.2.1
  | .arith id body op scalar ptIsLhs, h => by
      simp only [supported, Bool.and_eq_true, Bool.not_eq_true'] at h
      refine claim_arith id body op scalar ptIsLhs (claim body h.1.1) (invClaim body h.1.1) (presClaim body h.1.1) ?_
      have h2 := h.2
      cases scalar with
      | uniform e => exact True.intro
      | perChan m =>
        simp only [Bool.and_eq_true, Bool.not_eq_true', List.all_eq_true] at h2
        exact ⟨h2.1, fun x hx => by simpa using h2.2 x hx⟩
  | .arithAtomic id lhs minus rhs meas, h => by
      simp only [supported, Bool.and_eq_true] at h
      exact claim_arithAtomic id lhs minus rhs meas (claim lhs h.1) (claim rhs h.2)
        (invClaim lhs h.1) (invClaim rhs h.2)
theorem claimAll : ∀ (subs : List PT), supportedAll subs = true → ∀ p ∈ subs, Claim p
  | [], _ => fun p hp => nomatch hp
  | q :: qs, h => by
      simp only [supportedAll, Bool.and_eq_true] at h
      intro p hp
      rcases List.mem_cons.mp hp with hpq | hp
      · rw [hpq]; exact claim q h.1
      · exact claimAll qs h.2 p hp
end

end QP.C07
