import QP.Proofs.C07Main
import QP.Proofs.C07Point
/-!
# C07: the induction over all supported templates
-/
namespace QP.C07
open QP.PT

/-! ### the induction -/

mutual
theorem claim : ∀ (pt : PT), supported pt = true → Claim pt
  | .const id dur amps meas, h => by
      simp only [supported, Bool.not_eq_true'] at h
      exact claim_const id dur amps meas h
  | .func id ch dur e meas cons, h => by
      simp only [supported] at h
      exact claim_func id ch dur e meas cons h
  | .seq id subs meas cons, h => by
      simp only [supported, Bool.and_eq_true] at h
      exact claim_seq id subs meas cons (claimAll subs h.1) h.2
  | .rep id body count meas cons, h => by
      simp only [supported] at h
      exact claim_rep id body count meas cons (claim body h)
  | .forLoop id body idx start stop step meas cons, h => by
      simp only [supported] at h
      exact claim_forLoop id body idx start stop step meas cons (claim body h)
  | .mapping id body pm mm' cm' cons, h => by
      simp only [supported, Bool.and_eq_true, Bool.not_eq_true'] at h
      exact claim_mapping id body pm mm' cm' cons (claim body h.1.1.1) h.1.1.2 h.1.2 h.2
  | .table id entries meas cons, _ => claim_table id entries meas cons
  | .timeReversal id body, h => by
      simp only [supported] at h
      exact claim_timeReversal id body (claim body h)
  | .point id chans entries meas cons, _ => claim_point id chans entries meas cons
  | .parallel .., h | .atomicMulti .., h | .arith .., h | .arithAtomic .., h => by
      simp [supported] at h
theorem claimAll : ∀ (subs : List PT), supportedAll subs = true → ∀ p ∈ subs, Claim p
  | [], _ => fun p hp => nomatch hp
  | q :: qs, h => by
      simp only [supportedAll, Bool.and_eq_true] at h
      intro p hp
      rcases List.mem_cons.mp hp with hpq | hp
      · rw [hpq]; exact claim q h.1
      · exact claimAll qs h.2 p hp
end

end QP.C07
