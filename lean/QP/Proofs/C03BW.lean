import QP.Proofs.C03Atom
/-!
# C03 helper lemmas, part 6: `build_waveform` and `get_measurement_windows` of every class
(structural induction over all templates)
-/
namespace QP.C03
open QP QP.PT
variable {E : Err → Prop}

theorem good_mapValues {N : List String} {pm : List (String × Expr)} {σ σ' : Scope}
    (h : mapValues pm σ = .ok σ') (hN : ∀ x ∈ N, x ∈ pm.map (·.1)) : Good E N σ' := by
  obtain ⟨kv, rfl, hk⟩ := mapValues_keys h
  exact good_dict (fun x hx => hk ▸ hN x hx)

mutual
theorem bw_avoid (hE : EClass E) (hcv : ¬ E .constraintViolation) :
    ∀ (pt : PT) (σ : Scope) (cm : List (Chan × Option Chan)), WF pt → NoReservedT pt →
      Good E (parameterNames pt) σ → Avoid E (buildWaveform pt σ cm)
  | .const id dur amps meas, σ, cm, _, _, hG => bw_const_avoid hE.sub hG id dur amps meas cm (fun _ h => h)
  | .table id entries meas cons, σ, cm, _, _, hG =>
      bw_table_avoid hE.sub hG id entries meas cons cm (Or.inr hcv) (fun _ h => h)
  | .point id chans entries meas cons, σ, cm, _, _, hG =>
      bw_point_avoid hE.sub hG id chans entries meas cons cm (Or.inr hcv) (fun _ h => h)
  | .func id ch dur e meas cons, σ, cm, _, hT, hG =>
      bw_func_avoid hE hG id ch dur e meas cons cm (Or.inr hcv) (by simpa [NoReservedT] using hT) (fun _ h => h)
  | .seq .., _, _, _, _, _ => by
      have hS := hE.sub
      rw [buildWaveform]; avoid_auto
  | .rep .., _, _, _, _, _ => by
      have hS := hE.sub
      rw [buildWaveform]; avoid_auto
  | .forLoop .., _, _, _, _, _ => by
      have hS := hE.sub
      rw [buildWaveform]; avoid_auto
  | .mapping id body pm mm' cm' cons, σ, cm, hW, hT, hG => by
      have hS := hE.sub
      rw [buildWaveform, mapParameterValues_eq]
      simp only [WF] at hW
      simp only [NoReservedT] at hT
      have hc : Avoid E (validateCons cons σ.look) :=
        avoid_validateCons hS (Or.inr hcv) (fun x hx => hG.look x (by simp [parameterNames, hx]))
      have hm : Avoid E (mapValues pm σ) := avoid_mapValues hS hG (fun x hx => by simp [parameterNames, hx])
      have hp : Avoid E (presence (kvVars pm ++ consVars cons) σ) :=
        avoid_presence (fun hE x hx => hG.keys hE x (by simpa [parameterNames] using hx))
      refine avoid_bind (avoid_bind hp (fun _ _ => avoid_bind hc (fun _ _ => hm))) (fun σ' hσ' => ?_)
      have hσ'' : mapValues pm σ = .ok σ' := by
        obtain ⟨u, _, h⟩ := bind_ok.mp hσ'
        obtain ⟨u', _, h⟩ := bind_ok.mp h
        exact h
      refine avoid_bind (clean_avoid hS (updatedCm_clean _ _)) (fun cmU _ => ?_)
      exact bw_avoid hE hcv body σ' cmU hW.2 hT (good_mapValues hσ'' hW.1)
  | .parallel id body over, σ, cm, hW, hT, hG => by
      have hS := hE.sub
      rw [buildWaveform]
      simp only [WF] at hW
      simp only [NoReservedT] at hT
      have hb := bw_avoid hE hcv body σ cm hW hT.2 (hG.mono (fun x hx => by simp [parameterNames, hx]))
      have ho : Avoid E (overwrittenValues over σ cm) := avoid_overwrittenValues hS hG cm (fun x hx => by
        have : x ≠ "t" := fun hxt => hT.1 (hxt ▸ hx)
        simp [parameterNames, noT, hx, this])
      avoid_auto
  | .atomicMulti id subs dur meas cons, σ, cm, hW, hT, hG => by
      have hS := hE.sub
      rw [buildWaveform]
      simp only [WF] at hW
      simp only [NoReservedT] at hT
      have hc : Avoid E (validateCons cons σ.look) :=
        avoid_validateCons hS (Or.inr hcv) (fun x hx => hG.look x (by simp [parameterNames, hx]))
      have hl := bwl_avoid hE hcv subs σ cm hW hT (hG.mono (fun x hx => by simp [parameterNames, hx]))
      have hd : ∀ de, dur = some de → Avoid E (σ.eval de) := fun de hde =>
        hG.eval hS (fun x hx => by subst hde; simp [parameterNames, optVars, hx])
      avoid_auto
      exact hd _ rfl
  | .arith id body op scalar ptIsLhs, σ, cm, hW, hT, hG => by
      have hS := hE.sub
      rw [buildWaveform]
      simp only [WF] at hW
      simp only [NoReservedT] at hT
      have hb := bw_avoid hE hcv body σ cm hW hT.2 (hG.mono (fun x hx => by simp [parameterNames, hx]))
      have ha : Avoid E (arithTransformation body.definedChannels op scalar ptIsLhs σ cm) :=
        avoid_arithTransformation hE hG _ op ptIsLhs cm (fun x hx => by
          have : x ≠ "t" := fun hxt => hT.1 (hxt ▸ hx)
          simp [parameterNames, noT, hx, this])
      avoid_auto
  | .arithAtomic id lhs minus rhs meas, σ, cm, hW, hT, hG => by
      have hS := hE.sub
      rw [buildWaveform]
      simp only [WF] at hW
      simp only [NoReservedT] at hT
      have hl := bw_avoid hE hcv lhs σ cm hW.1 hT.1 (hG.mono (fun x hx => by simp [parameterNames, hx]))
      have hr := bw_avoid hE hcv rhs σ cm hW.2 hT.2 (hG.mono (fun x hx => by simp [parameterNames, hx]))
      avoid_auto
  | .timeReversal id body, σ, cm, hW, hT, hG => by
      have hS := hE.sub
      rw [buildWaveform]
      simp only [WF] at hW
      simp only [NoReservedT] at hT
      have hb := bw_avoid hE hcv body σ cm hW hT (hG.mono (fun x hx => by simp [parameterNames, hx]))
      avoid_auto
theorem bwl_avoid (hE : EClass E) (hcv : ¬ E .constraintViolation) :
    ∀ (ps : List PT) (σ : Scope) (cm : List (Chan × Option Chan)), WFList ps → NoReservedTList ps →
      Good E (parameterNamesList ps) σ → Avoid E (buildWaveformList ps σ cm)
  | [], _, _, _, _, _ => by rw [buildWaveformList]; exact avoid_ok _
  | p :: ps, σ, cm, hW, hT, hG => by
      have hS := hE.sub
      rw [buildWaveformList]
      simp only [WFList] at hW
      simp only [NoReservedTList] at hT
      have h1 := bw_avoid hE hcv p σ cm hW.1 hT.1 (hG.mono (fun x hx => by simp [parameterNamesList, hx]))
      have h2 := bwl_avoid hE hcv ps σ cm hW.2 hT.2 (hG.mono (fun x hx => by simp [parameterNamesList, hx]))
      avoid_auto
end

mutual
theorem am_avoid (hE : EClass E) (hcv : ¬ E .constraintViolation) :
    ∀ (pt : PT) (σ : Scope) (mm : List (MName × Option MName)), WF pt → NoReservedT pt →
      Good E (parameterNames pt) σ → Avoid E (atomicMeas pt σ mm)
  | .const id dur amps meas, σ, mm, _, _, hG => by
      rw [atomicMeas]
      exact avoid_getMeas hE.sub (fun x hx => hG.look x (by simp [parameterNames, hx]))
  | .table id entries meas cons, σ, mm, _, _, hG => by
      rw [atomicMeas]
      exact avoid_getMeas hE.sub (fun x hx => hG.look x (by simp [parameterNames, hx]))
  | .point id chans entries meas cons, σ, mm, _, _, hG => by
      rw [atomicMeas]
      exact avoid_getMeas hE.sub (fun x hx => hG.look x (by simp [parameterNames, hx]))
  | .func id ch dur e meas cons, σ, mm, _, _, hG => by
      rw [atomicMeas]
      exact avoid_getMeas hE.sub (fun x hx => hG.look x (by simp [parameterNames, hx]))
  | .seq id subs meas cons, σ, mm, _, _, hG => by
      rw [atomicMeas]
      exact avoid_getMeas hE.sub (fun x hx => hG.look x (by simp [parameterNames, hx]))
  | .rep id body count meas cons, σ, mm, _, _, hG => by
      rw [atomicMeas]
      exact avoid_getMeas hE.sub (fun x hx => hG.look x (by simp [parameterNames, hx]))
  | .forLoop id body idx a b st meas cons, σ, mm, _, _, hG => by
      rw [atomicMeas]
      exact avoid_getMeas hE.sub (fun x hx => hG.look x (by simp [parameterNames, hx]))
  | .mapping id body pm mm' cm' cons, σ, mm, hW, hT, hG => by
      have hS := hE.sub
      rw [atomicMeas, mapParameterValues_eq]
      simp only [WF] at hW
      simp only [NoReservedT] at hT
      have hc : Avoid E (validateCons cons σ.look) :=
        avoid_validateCons hS (Or.inr hcv) (fun x hx => hG.look x (by simp [parameterNames, hx]))
      have hm : Avoid E (mapValues pm σ) := avoid_mapValues hS hG (fun x hx => by simp [parameterNames, hx])
      have hp : Avoid E (presence (kvVars pm ++ consVars cons) σ) :=
        avoid_presence (fun hE x hx => hG.keys hE x (by simpa [parameterNames] using hx))
      refine avoid_bind (avoid_bind hp (fun _ _ => avoid_bind hc (fun _ _ => hm))) (fun σ' hσ' => ?_)
      have hσ'' : mapValues pm σ = .ok σ' := by
        obtain ⟨u, _, h⟩ := bind_ok.mp hσ'
        obtain ⟨u', _, h⟩ := bind_ok.mp h
        exact h
      refine avoid_bind (clean_avoid hS (updatedMm_clean _ _)) (fun mmU _ => ?_)
      exact am_avoid hE hcv body σ' mmU hW.2 hT (good_mapValues hσ'' hW.1)
  | .parallel .., _, _, _, _, _ => by
      have hS := hE.sub
      rw [atomicMeas]; avoid_auto
  | .atomicMulti id subs dur meas cons, σ, mm, hW, hT, hG => by
      have hS := hE.sub
      rw [atomicMeas]
      simp only [WF] at hW
      simp only [NoReservedT] at hT
      have hg : Avoid E (getMeas meas σ.look mm) :=
        avoid_getMeas hS (fun x hx => hG.look x (by simp [parameterNames, hx]))
      have hl := aml_avoid hE hcv subs σ mm hW hT (hG.mono (fun x hx => by simp [parameterNames, hx]))
      avoid_auto
  | .arith id body op scalar ptIsLhs, σ, mm, hW, hT, hG => by
      rw [atomicMeas]
      simp only [WF] at hW
      simp only [NoReservedT] at hT
      exact am_avoid hE hcv body σ mm hW hT.2 (hG.mono (fun x hx => by simp [parameterNames, hx]))
  | .arithAtomic id lhs minus rhs meas, σ, mm, hW, hT, hG => by
      have hS := hE.sub
      rw [atomicMeas]
      simp only [WF] at hW
      simp only [NoReservedT] at hT
      have hg : Avoid E (getMeas meas σ.look mm) :=
        avoid_getMeas hS (fun x hx => hG.look x (by simp [parameterNames, hx]))
      have hl := am_avoid hE hcv lhs σ mm hW.1 hT.1 (hG.mono (fun x hx => by simp [parameterNames, hx]))
      have hr := am_avoid hE hcv rhs σ mm hW.2 hT.2 (hG.mono (fun x hx => by simp [parameterNames, hx]))
      avoid_auto
  | .timeReversal .., _, _, _, _, _ => by
      have hS := hE.sub
      rw [atomicMeas]; avoid_auto
theorem aml_avoid (hE : EClass E) (hcv : ¬ E .constraintViolation) :
    ∀ (ps : List PT) (σ : Scope) (mm : List (MName × Option MName)), WFList ps → NoReservedTList ps →
      Good E (parameterNamesList ps) σ → Avoid E (atomicMeasList ps σ mm)
  | [], _, _, _, _, _ => by rw [atomicMeasList]; exact avoid_ok _
  | p :: ps, σ, mm, hW, hT, hG => by
      have hS := hE.sub
      rw [atomicMeasList]
      simp only [WFList] at hW
      simp only [NoReservedTList] at hT
      have h1 := am_avoid hE hcv p σ mm hW.1 hT.1 (hG.mono (fun x hx => by simp [parameterNamesList, hx]))
      have h2 := aml_avoid hE hcv ps σ mm hW.2 hT.2 (hG.mono (fun x hx => by simp [parameterNamesList, hx]))
      avoid_auto
end

/-! ### congruence -/

theorem mapParameterValues_congr {N : List String} {σ σ' : Scope} (hR : Rel N σ σ') {pm : List (String × Expr)}
    {cons : List Expr} (hp : ∀ x ∈ kvVars pm, x ∈ N) (hc : ∀ x ∈ consVars cons, x ∈ N) :
    mapParameterValues pm cons σ = mapParameterValues pm cons σ' := by
  rw [mapParameterValues_eq, mapParameterValues_eq, validateCons_congr (fun x hx => hR.look x (hc x hx)),
    mapValues_congr hR hp,
    presence_congr (fun x hx => hR.keys x (by
      rcases List.mem_append.mp hx with h | h
      · exact hp x h
      · exact hc x h))]

mutual
theorem bw_congr : ∀ (pt : PT) (σ σ' : Scope) (cm : List (Chan × Option Chan)), WF pt → NoReservedT pt →
      Rel (parameterNames pt) σ σ' → buildWaveform pt σ cm = buildWaveform pt σ' cm
  | .const id dur amps meas, σ, σ', cm, _, _, hR => bw_const_congr hR id dur amps meas cm (fun _ h => h)
  | .table id entries meas cons, σ, σ', cm, _, _, hR => bw_table_congr hR id entries meas cons cm (fun _ h => h)
  | .point id chans entries meas cons, σ, σ', cm, _, _, hR =>
      bw_point_congr hR id chans entries meas cons cm (fun _ h => h)
  | .func id ch dur e meas cons, σ, σ', cm, _, hT, hR =>
      bw_func_congr hR id ch dur e meas cons cm (by simpa [NoReservedT] using hT) (fun _ h => h)
  | .seq .., _, _, _, _, _, _ => by rw [buildWaveform, buildWaveform]
  | .rep .., _, _, _, _, _, _ => by rw [buildWaveform, buildWaveform]
  | .forLoop .., _, _, _, _, _, _ => by rw [buildWaveform, buildWaveform]
  | .mapping id body pm mm' cm' cons, σ, σ', cm, hW, hT, hR => by
      rw [buildWaveform, buildWaveform,
        mapParameterValues_congr hR (fun x hx => by simp [parameterNames, hx]) (fun x hx => by simp [parameterNames, hx])]
  | .parallel id body over, σ, σ', cm, hW, hT, hR => by
      rw [buildWaveform, buildWaveform]
      simp only [WF] at hW
      simp only [NoReservedT] at hT
      have hb := bw_congr body σ σ' cm hW hT.2 (hR.mono (fun x hx => by simp [parameterNames, hx]))
      have ho : overwrittenValues over σ cm = overwrittenValues over σ' cm :=
        overwrittenValues_congr hR cm (fun x hx => by
          have : x ≠ "t" := fun hxt => hT.1 (hxt ▸ hx)
          simp [parameterNames, noT, hx, this])
      rw [hb, ho]
  | .atomicMulti id subs dur meas cons, σ, σ', cm, hW, hT, hR => by
      rw [buildWaveform, buildWaveform]
      simp only [WF] at hW
      simp only [NoReservedT] at hT
      have hc : validateCons cons σ.look = validateCons cons σ'.look :=
        validateCons_congr (fun x hx => hR.look x (by simp [parameterNames, hx]))
      have hl := bwl_congr subs σ σ' cm hW hT (hR.mono (fun x hx => by simp [parameterNames, hx]))
      have hd : ∀ de, dur = some de → σ.eval de = σ'.eval de := fun de hde =>
        hR.eval (fun x hx => by subst hde; simp [parameterNames, optVars, hx])
      rw [hc, hl]
      congr_auto
      exact hd _ rfl
  | .arith id body op scalar ptIsLhs, σ, σ', cm, hW, hT, hR => by
      rw [buildWaveform, buildWaveform]
      simp only [WF] at hW
      simp only [NoReservedT] at hT
      have hb := bw_congr body σ σ' cm hW hT.2 (hR.mono (fun x hx => by simp [parameterNames, hx]))
      have ha : arithTransformation body.definedChannels op scalar ptIsLhs σ cm =
          arithTransformation body.definedChannels op scalar ptIsLhs σ' cm :=
        arithTransformation_congr hR _ op ptIsLhs cm (fun x hx => by
          have : x ≠ "t" := fun hxt => hT.1 (hxt ▸ hx)
          simp [parameterNames, noT, hx, this])
      rw [hb, ha]
  | .arithAtomic id lhs minus rhs meas, σ, σ', cm, hW, hT, hR => by
      rw [buildWaveform, buildWaveform]
      simp only [WF] at hW
      simp only [NoReservedT] at hT
      have hl := bw_congr lhs σ σ' cm hW.1 hT.1 (hR.mono (fun x hx => by simp [parameterNames, hx]))
      have hr := bw_congr rhs σ σ' cm hW.2 hT.2 (hR.mono (fun x hx => by simp [parameterNames, hx]))
      rw [hl, hr]
  | .timeReversal id body, σ, σ', cm, hW, hT, hR => by
      rw [buildWaveform, buildWaveform]
      simp only [WF] at hW
      simp only [NoReservedT] at hT
      rw [bw_congr body σ σ' cm hW hT (hR.mono (fun x hx => by simp [parameterNames, hx]))]
theorem bwl_congr : ∀ (ps : List PT) (σ σ' : Scope) (cm : List (Chan × Option Chan)), WFList ps →
      NoReservedTList ps → Rel (parameterNamesList ps) σ σ' → buildWaveformList ps σ cm = buildWaveformList ps σ' cm
  | [], _, _, _, _, _, _ => by rw [buildWaveformList, buildWaveformList]
  | p :: ps, σ, σ', cm, hW, hT, hR => by
      rw [buildWaveformList, buildWaveformList]
      simp only [WFList] at hW
      simp only [NoReservedTList] at hT
      rw [bw_congr p σ σ' cm hW.1 hT.1 (hR.mono (fun x hx => by simp [parameterNamesList, hx])),
        bwl_congr ps σ σ' cm hW.2 hT.2 (hR.mono (fun x hx => by simp [parameterNamesList, hx]))]
end

mutual
theorem am_congr : ∀ (pt : PT) (σ σ' : Scope) (mm : List (MName × Option MName)), WF pt → NoReservedT pt →
      Rel (parameterNames pt) σ σ' → atomicMeas pt σ mm = atomicMeas pt σ' mm
  | .const id dur amps meas, σ, σ', mm, _, _, hR => by
      rw [atomicMeas, atomicMeas]
      exact getMeas_congr (fun x hx => hR.look x (by simp [parameterNames, hx]))
  | .table id entries meas cons, σ, σ', mm, _, _, hR => by
      rw [atomicMeas, atomicMeas]
      exact getMeas_congr (fun x hx => hR.look x (by simp [parameterNames, hx]))
  | .point id chans entries meas cons, σ, σ', mm, _, _, hR => by
      rw [atomicMeas, atomicMeas]
      exact getMeas_congr (fun x hx => hR.look x (by simp [parameterNames, hx]))
  | .func id ch dur e meas cons, σ, σ', mm, _, _, hR => by
      rw [atomicMeas, atomicMeas]
      exact getMeas_congr (fun x hx => hR.look x (by simp [parameterNames, hx]))
  | .seq id subs meas cons, σ, σ', mm, _, _, hR => by
      rw [atomicMeas, atomicMeas]
      exact getMeas_congr (fun x hx => hR.look x (by simp [parameterNames, hx]))
  | .rep id body count meas cons, σ, σ', mm, _, _, hR => by
      rw [atomicMeas, atomicMeas]
      exact getMeas_congr (fun x hx => hR.look x (by simp [parameterNames, hx]))
  | .forLoop id body idx a b st meas cons, σ, σ', mm, _, _, hR => by
      rw [atomicMeas, atomicMeas]
      exact getMeas_congr (fun x hx => hR.look x (by simp [parameterNames, hx]))
  | .mapping id body pm mm' cm' cons, σ, σ', mm, hW, hT, hR => by
      rw [atomicMeas, atomicMeas,
        mapParameterValues_congr hR (fun x hx => by simp [parameterNames, hx]) (fun x hx => by simp [parameterNames, hx])]
  | .parallel .., _, _, _, _, _, _ => by rw [atomicMeas, atomicMeas]
  | .atomicMulti id subs dur meas cons, σ, σ', mm, hW, hT, hR => by
      rw [atomicMeas, atomicMeas]
      simp only [WF] at hW
      simp only [NoReservedT] at hT
      have hg : getMeas meas σ.look mm = getMeas meas σ'.look mm :=
        getMeas_congr (fun x hx => hR.look x (by simp [parameterNames, hx]))
      rw [hg, aml_congr subs σ σ' mm hW hT (hR.mono (fun x hx => by simp [parameterNames, hx]))]
  | .arith id body op scalar ptIsLhs, σ, σ', mm, hW, hT, hR => by
      rw [atomicMeas, atomicMeas]
      simp only [WF] at hW
      simp only [NoReservedT] at hT
      exact am_congr body σ σ' mm hW hT.2 (hR.mono (fun x hx => by simp [parameterNames, hx]))
  | .arithAtomic id lhs minus rhs meas, σ, σ', mm, hW, hT, hR => by
      rw [atomicMeas, atomicMeas]
      simp only [WF] at hW
      simp only [NoReservedT] at hT
      have hg : getMeas meas σ.look mm = getMeas meas σ'.look mm :=
        getMeas_congr (fun x hx => hR.look x (by simp [parameterNames, hx]))
      rw [hg, am_congr lhs σ σ' mm hW.1 hT.1 (hR.mono (fun x hx => by simp [parameterNames, hx])),
        am_congr rhs σ σ' mm hW.2 hT.2 (hR.mono (fun x hx => by simp [parameterNames, hx]))]
  | .timeReversal .., _, _, _, _, _, _ => by rw [atomicMeas, atomicMeas]
theorem aml_congr : ∀ (ps : List PT) (σ σ' : Scope) (mm : List (MName × Option MName)), WFList ps →
      NoReservedTList ps → Rel (parameterNamesList ps) σ σ' → atomicMeasList ps σ mm = atomicMeasList ps σ' mm
  | [], _, _, _, _, _, _ => by rw [atomicMeasList, atomicMeasList]
  | p :: ps, σ, σ', mm, hW, hT, hR => by
      rw [atomicMeasList, atomicMeasList]
      simp only [WFList] at hW
      simp only [NoReservedTList] at hT
      rw [am_congr p σ σ' mm hW.1 hT.1 (hR.mono (fun x hx => by simp [parameterNamesList, hx])),
        aml_congr ps σ σ' mm hW.2 hT.2 (hR.mono (fun x hx => by simp [parameterNamesList, hx]))]
end

end QP.C03
