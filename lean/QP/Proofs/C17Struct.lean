import QP.Proofs.C17VM
/-! The translator in structured form: `addNode` appends `flat s` for a structured command list `s`
computed by `trS1` from the command-free part of the translation state. -/
namespace QP.C17.Struct
open QP.C17 QP.C17.VMS

/-- the translation state without the command list -/
structure TS where
  labelNum : Nat
  iterations : List Nat
  activeDep : Nat → Option Key
  depStates : Nat → Key → Option DepState
  plainVoltage : Nat → Option Rat
  resolution : Rat

def core (st : TState) : TS :=
  ⟨st.labelNum, st.iterations, st.activeDep, st.depStates, st.plainVoltage, st.resolution⟩

def TS.withCmds (c : TS) (cmds : List Cmd) : TState :=
  ⟨c.labelNum, cmds, c.iterations, c.activeDep, c.depStates, c.plainVoltage, c.resolution⟩

theorem withCmds_core (st : TState) : (core st).withCmds st.commands = st := rfl

def TS.init (res : Rat) : TS := ⟨0, [], fun _ => none, fun _ _ => none, fun _ => none, res⟩

def depLookupS (c : TS) (ds : List (Nat × List Rat)) : List (Option DepState) :=
  ds.map (fun p => c.depStates p.1 (depKey c.resolution p.2))

def setVoltageS (c : TS) (ch : Nat) (v : Rat) : List SCmd × TS :=
  if c.activeDep ch ≠ some [] ∨ c.plainVoltage ch ≠ some v then
    ([.prim (.set ch v [])],
      { c with activeDep := upd c.activeDep ch [], plainVoltage := upd c.plainVoltage ch v })
  else ([], c)

def setIndexedS (c : TS) (ch : Nat) (base : Rat) (fs : List Rat) : Except Err (List SCmd × TS) :=
  let key := depKey c.resolution fs
  let new : DepState := ⟨base, c.iterations⟩
  match c.depStates ch key with
  | none =>
    if c.iterations.all (fun i => i = 0) then
      .ok ([.prim (.set ch base key)],
        { c with activeDep := upd c.activeDep ch key, depStates := upd2 c.depStates ch key new })
    else .error .assertion
  | some cur =>
    match reqInc new cur fs with
    | .error e => .error e
    | .ok inc =>
      .ok (if inc ≠ 0 ∨ c.activeDep ch ≠ some key then [.prim (.inc ch inc key)] else [],
        { c with activeDep := upd c.activeDep ch key, depStates := upd2 c.depStates ch key new })

def holdChannelsS : List Rat → List (Option (List Rat)) → Nat → TS → Except Err (List SCmd × TS)
  | b :: bs, none :: fs, ch, c =>
    match holdChannelsS bs fs (ch + 1) (setVoltageS c ch b).2 with
    | .error e => .error e
    | .ok (s, c') => .ok ((setVoltageS c ch b).1 ++ s, c')
  | b :: bs, some facs :: fs, ch, c =>
    match setIndexedS c ch b facs with
    | .error e => .error e
    | .ok (s1, c1) =>
      match holdChannelsS bs fs (ch + 1) c1 with
      | .error e => .error e
      | .ok (s, c') => .ok (s1 ++ s, c')
  | _, _, _, c => .ok ([], c)

mutual
def trS1 : Node → TS → Except Err (List SCmd × TS)
  | .hold bases factors dur, c =>
    match holdChannelsS bases factors 0 c with
    | .error e => .error e
    | .ok (s, c') => .ok (s ++ [.prim (.wait dur)], c')
  | .rep body count, c =>
    let ds := depsList body
    let pre := depLookupS c ds
    let lbl := c.labelNum
    let c1 := { c with labelNum := c.labelNum + 1 }
    match trSL body c1 with
    | .error e => .error e
    | .ok (s1, c3) =>
      let post := depLookupS c3 ds
      if sameSet pre post then .ok ([.loop lbl count s1], c3)
      else
        match trSL body c3 with
        | .error e => .error e
        | .ok (s2, c5) => .ok (s1 ++ [.loop lbl ((count : Int) - 1) s2], c5)
  | .iter body length, c =>
    let c1 := { c with iterations := c.iterations ++ [0] }
    match trSL body c1 with
    | .error e => .error e
    | .ok (s1, c2) =>
      if length > 1 then
        let c3 := { c2 with iterations := c2.iterations.dropLast ++ [length - 1] }
        let lbl := c3.labelNum
        let c4 := { c3 with labelNum := c3.labelNum + 1 }
        match trSL body c4 with
        | .error e => .error e
        | .ok (s2, c6) =>
          .ok (s1 ++ [.loop lbl ((length : Int) - 1) s2], { c6 with iterations := c6.iterations.dropLast })
      else .ok (s1, { c2 with iterations := c2.iterations.dropLast })
def trSL : List Node → TS → Except Err (List SCmd × TS)
  | [], c => .ok ([], c)
  | n :: ns, c =>
    match trS1 n c with
    | .error e => .error e
    | .ok (s1, c1) =>
      match trSL ns c1 with
      | .error e => .error e
      | .ok (s2, c2) => .ok (s1 ++ s2, c2)
end

/-! ### flattening -/

theorem flat_append (a b : List SCmd) : flat (a ++ b) = flat a ++ flat b := by
  induction a with
  | nil => simp [flat]
  | cons c r ih => simp [flat, ih]

theorem flat_prim (d : DCmd) : flat [.prim d] = [d.toCmd] := by simp [flat, flat1]

theorem flat_loop (i : Nat) (n : Int) (b : List SCmd) :
    flat [.loop i n b] = .label i n :: (flat b ++ [.jmp i]) := by simp [flat, flat1]

/-- the result of a structured translation step lifted to a `TState` with commands `cmds` -/
def lift (cmds : List Cmd) (r : Except Err (List SCmd × TS)) : Except Err TState :=
  match r with
  | .error e => .error e
  | .ok (s, c) => .ok (c.withCmds (cmds ++ flat s))

theorem setVoltage_eq (c : TS) (cmds : List Cmd) (ch : Nat) (v : Rat) :
    setVoltage (c.withCmds cmds) ch v =
      (setVoltageS c ch v).2.withCmds (cmds ++ flat (setVoltageS c ch v).1) := by
  by_cases h : (c.activeDep ch ≠ some [] ∨ c.plainVoltage ch ≠ some v)
  · simp only [setVoltage, setVoltageS, TS.withCmds, TState.emit, h, if_true, flat_prim, DCmd.toCmd]
  · simp only [setVoltage, setVoltageS, TS.withCmds, TState.emit, h, if_false, flat, List.append_nil]

theorem setIndexed_eq (c : TS) (cmds : List Cmd) (ch : Nat) (b : Rat) (fs : List Rat) :
    setIndexedVoltage (c.withCmds cmds) ch b fs = lift cmds (setIndexedS c ch b fs) := by
  simp only [setIndexedVoltage, setIndexedS, TS.withCmds, TState.emit]
  cases hds : c.depStates ch (depKey c.resolution fs) with
  | none =>
    simp only
    by_cases hz : (c.iterations.all fun i => decide (i = 0)) = true
    · simp only [hz, if_true, lift, flat_prim, DCmd.toCmd, TS.withCmds]
    · simp only [hz, if_false, lift]; rfl
  | some cur =>
    simp only
    cases hri : reqInc ⟨b, c.iterations⟩ cur fs with
    | error e => simp only [lift]
    | ok inc =>
      simp only [lift, TS.withCmds]
      by_cases hi : (inc ≠ 0 ∨ c.activeDep ch ≠ some (depKey c.resolution fs))
      · simp only [hi, if_true, flat_prim, DCmd.toCmd]
      · simp only [hi, if_false, flat, List.append_nil]

theorem holdChannels_eq : ∀ (bs : List Rat) (fs : List (Option (List Rat))) (ch : Nat) (c : TS) (cmds : List Cmd),
    addHoldChannels bs fs ch (c.withCmds cmds) = lift cmds (holdChannelsS bs fs ch c)
  | [], _, _, _, _ => by simp [addHoldChannels, holdChannelsS, lift, flat]
  | _ :: _, [], _, _, _ => by simp [addHoldChannels, holdChannelsS, lift, flat]
  | b :: bs, none :: fs, ch, c, cmds => by
    simp only [addHoldChannels, holdChannelsS]
    rw [setVoltage_eq, holdChannels_eq bs fs (ch + 1)]
    simp only [lift]
    split <;> simp_all [flat_append]
  | b :: bs, some facs :: fs, ch, c, cmds => by
    simp only [addHoldChannels, holdChannelsS]
    rw [setIndexed_eq]
    cases h : setIndexedS c ch b facs with
    | error e => simp [lift]
    | ok r =>
      obtain ⟨s1, c1⟩ := r
      simp only [lift]
      rw [holdChannels_eq bs fs (ch + 1)]
      simp only [lift]
      split <;> simp_all [flat_append]

theorem depLookup_eq (st : TState) (ds : List (Nat × List Rat)) :
    depLookup st ds = depLookupS (core st) ds := rfl

theorem lift_error (cmds : List Cmd) (e : Err) : lift cmds (.error e) = .error e := rfl
theorem lift_ok (cmds : List Cmd) (s : List SCmd) (c : TS) :
    lift cmds (.ok (s, c)) = .ok (c.withCmds (cmds ++ flat s)) := rfl

theorem holdChannels_eq' (bs : List Rat) (fs : List (Option (List Rat))) (ch : Nat) (st : TState) :
    addHoldChannels bs fs ch st = lift st.commands (holdChannelsS bs fs ch (core st)) :=
  holdChannels_eq bs fs ch (core st) st.commands

mutual
theorem addNode_eq : (n : Node) → ∀ (st : TState),
    addNode n st = lift st.commands (trS1 n (core st))
  | .hold bases factors dur, st => by
    simp only [addNode, trS1]
    rw [holdChannels_eq']
    cases holdChannelsS bases factors 0 (core st) with
    | error e => simp only [lift_error]
    | ok r =>
      obtain ⟨s, c'⟩ := r
      simp only [lift_ok, TState.emit, TS.withCmds, flat_append, flat_prim, DCmd.toCmd, List.append_assoc]
  | .rep body count, st => by
    simp only [addNode, trS1]
    rw [addNodes_eq body]
    have hcore : core (({ st with labelNum := st.labelNum + 1 } : TState).emit (.label st.labelNum count))
        = ⟨(core st).labelNum + 1, (core st).iterations, (core st).activeDep, (core st).depStates,
            (core st).plainVoltage, (core st).resolution⟩ := rfl
    have hcmds : (({ st with labelNum := st.labelNum + 1 } : TState).emit (.label st.labelNum count)).commands
        = st.commands ++ [.label st.labelNum count] := rfl
    rw [hcore, hcmds]
    generalize trSL body ⟨(core st).labelNum + 1, (core st).iterations, (core st).activeDep, (core st).depStates,
            (core st).plainVoltage, (core st).resolution⟩ = r
    cases r with
    | error e => simp only [lift_error]
    | ok r =>
      obtain ⟨s1, c3⟩ := r
      simp only [lift_ok]
      have hd1 : depLookup st (depsList body) = depLookupS (core st) (depsList body) := rfl
      have hd2 : depLookup (c3.withCmds (st.commands ++ [Cmd.label st.labelNum ↑count] ++ flat s1)) (depsList body)
          = depLookupS c3 (depsList body) := rfl
      rw [hd1, hd2]
      by_cases hs : sameSet (depLookupS (core st) (depsList body)) (depLookupS c3 (depsList body)) = true
      · simp only [hs, if_true, lift_ok]
        simp only [TState.emit, TS.withCmds, flat_loop, List.append_assoc, List.cons_append, List.nil_append, core]
      · simp only [hs, Bool.false_eq_true, if_false]
        rw [addNodes_eq body]
        have herase : (st.commands ++ [Cmd.label st.labelNum ↑count] ++ flat s1).eraseIdx st.commands.length
            = st.commands ++ flat s1 := by
          rw [List.append_assoc, List.eraseIdx_append_of_length_le (by omega)]
          simp
        have hcore2 : core ({ c3.withCmds (st.commands ++ [Cmd.label st.labelNum ↑count] ++ flat s1) with
              commands := (c3.withCmds (st.commands ++ [Cmd.label st.labelNum ↑count] ++ flat s1)).commands.eraseIdx
                  st.commands.length ++ [Cmd.label st.labelNum ((count : Int) - 1)] } : TState) = c3 := rfl
        have hcmds2 : ({ c3.withCmds (st.commands ++ [Cmd.label st.labelNum ↑count] ++ flat s1) with
              commands := (c3.withCmds (st.commands ++ [Cmd.label st.labelNum ↑count] ++ flat s1)).commands.eraseIdx
                  st.commands.length ++ [Cmd.label st.labelNum ((count : Int) - 1)] } : TState).commands
            = st.commands ++ flat s1 ++ [Cmd.label st.labelNum ((count : Int) - 1)] := by
          show (st.commands ++ [Cmd.label st.labelNum ↑count] ++ flat s1).eraseIdx st.commands.length ++ _ = _
          rw [herase]
        rw [hcore2, hcmds2]
        cases trSL body c3 with
        | error e => simp only [lift_error]
        | ok r2 =>
          obtain ⟨s2, c5⟩ := r2
          simp only [lift_ok, TState.emit, TS.withCmds, flat_append, flat_loop, List.append_assoc,
            List.cons_append, List.nil_append, core]
  | .iter body length, st => by
    simp only [addNode, trS1]
    rw [addNodes_eq body]
    have hcore : core ({ st with iterations := st.iterations ++ [0] } : TState)
        = ⟨(core st).labelNum, (core st).iterations ++ [0], (core st).activeDep, (core st).depStates,
            (core st).plainVoltage, (core st).resolution⟩ := rfl
    have hcmds : ({ st with iterations := st.iterations ++ [0] } : TState).commands = st.commands := rfl
    rw [hcore, hcmds]
    generalize trSL body ⟨(core st).labelNum, (core st).iterations ++ [0], (core st).activeDep, (core st).depStates,
            (core st).plainVoltage, (core st).resolution⟩ = r
    cases r with
    | error e => simp only [lift_error]
    | ok r =>
      obtain ⟨s1, c2⟩ := r
      simp only [lift_ok]
      by_cases hl : length > 1
      · simp only [hl, if_true]
        rw [addNodes_eq body]
        have hcore2 : core (({ ({ c2.withCmds (st.commands ++ flat s1) with
              iterations := (c2.withCmds (st.commands ++ flat s1)).iterations.dropLast ++ [length - 1] } : TState) with
              labelNum := (c2.withCmds (st.commands ++ flat s1)).labelNum + 1 } : TState).emit
                (.label (c2.withCmds (st.commands ++ flat s1)).labelNum ((length : Int) - 1)))
            = ⟨c2.labelNum + 1, c2.iterations.dropLast ++ [length - 1], c2.activeDep, c2.depStates,
                c2.plainVoltage, c2.resolution⟩ := rfl
        have hcmds2 : (({ ({ c2.withCmds (st.commands ++ flat s1) with
              iterations := (c2.withCmds (st.commands ++ flat s1)).iterations.dropLast ++ [length - 1] } : TState) with
              labelNum := (c2.withCmds (st.commands ++ flat s1)).labelNum + 1 } : TState).emit
                (.label (c2.withCmds (st.commands ++ flat s1)).labelNum ((length : Int) - 1))).commands
            = st.commands ++ flat s1 ++ [.label c2.labelNum ((length : Int) - 1)] := rfl
        rw [hcore2, hcmds2]
        generalize trSL body ⟨c2.labelNum + 1, c2.iterations.dropLast ++ [length - 1], c2.activeDep, c2.depStates,
                c2.plainVoltage, c2.resolution⟩ = r2
        cases r2 with
        | error e => simp only [lift_error]
        | ok r2 =>
          obtain ⟨s2, c6⟩ := r2
          simp only [lift_ok, TState.emit, TS.withCmds, flat_append, flat_loop, List.append_assoc,
            List.cons_append, List.nil_append]
      · simp only [hl, if_false, lift_ok, TS.withCmds]
theorem addNodes_eq : (ns : List Node) → ∀ (st : TState),
    addNodes ns st = lift st.commands (trSL ns (core st))
  | [], st => by simp only [addNodes, trSL, lift_ok, flat, List.append_nil]; rfl
  | n :: ns, st => by
    simp only [addNodes, trSL]
    rw [addNode_eq n]
    cases trS1 n (core st) with
    | error e => simp only [lift_error]
    | ok r =>
      obtain ⟨s1, c1⟩ := r
      simp only [lift_ok]
      rw [addNodes_eq ns]
      have hc : core (c1.withCmds (st.commands ++ flat s1)) = c1 := rfl
      rw [hc]
      cases trSL ns c1 with
      | error e => simp only [lift_error]
      | ok r2 =>
        obtain ⟨s2, c2⟩ := r2
        simp only [lift_ok, TS.withCmds, flat_append, List.append_assoc]
end

/-- `translate` in structured form -/
theorem translate_eq (res : Rat) (prog : List Node) :
    translate res prog =
      match trSL prog (TS.init res) with
      | .error e => .error e
      | .ok (s, _) => .ok (flat s) := by
  have h := addNodes_eq prog (TState.init res)
  have h0 : core (TState.init res) = TS.init res := rfl
  rw [h0] at h
  simp only [translate, h, lift]
  cases trSL prog (TS.init res) with
  | error e => rfl
  | ok r => obtain ⟨s, c⟩ := r; simp [TS.withCmds, TState.init]

end QP.C17.Struct
