import QP.Model.PT
import QP.Proofs.PTRelA
/-! `RelA` is preserved by time reversal (`LoopBuilder.time_reversed` / `Loop.reverse_inplace` against the reversed
pulse). -/
namespace QP.PT

theorem PL.atL_amb (p : PL) (f : Seg → Bool) : ∀ t, PL.atL (p.map (fun r => { r with amb := f r })) t = PL.atL p t := by
  induction p with
  | nil => intro t; rfl
  | cons s r ih =>
    intro t
    simp only [List.map_cons, PL.atL, Seg.valueAt]
    rw [ih]

theorem PL.atL_reversed (p : PL) (t : Rat) : PL.atL p.reversed t = PL.atL (PL.revAmb p) t := by
  rw [PL.reversed_eq]
  unfold PL.revAmb
  cases h : p.reverse.map Seg.swap with
  | nil => rfl
  | cons s rest =>
    simp only [List.map_cons, PL.atL, Seg.valueAt]

theorem PL.dur_reversed (p : PL) : PL.dur p.reversed = PL.dur p := by
  rw [← PL.dur_revAmb p, PL.reversed_eq]
  unfold PL.revAmb
  cases h : p.reverse.map Seg.swap with
  | nil => rfl
  | cons s rest => simp only [List.map_cons, PL.dur]

theorem PL.lens_reversed (p : PL) : p.reversed.map (·.len) = (PL.revAmb p).map (·.len) := by
  rw [PL.reversed_eq]
  unfold PL.revAmb
  cases h : p.reverse.map Seg.swap with
  | nil => rfl
  | cons s rest => simp [List.map_map, Function.comp_def]

theorem PL.pos_reversed {p : PL} (hp : p.pos) : p.reversed.pos := by
  have h2 := PL.pos_revAmb hp
  intro x hx
  have : x.len ∈ p.reversed.map (·.len) := List.mem_map.mpr ⟨x, hx, rfl⟩
  rw [PL.lens_reversed] at this
  obtain ⟨y, hy, hxy⟩ := List.mem_map.mp this
  rw [← hxy]
  exact h2 y hy

theorem allPosListB_append (a b : List Loop) :
    Loop.allPosListB (a ++ b) = (Loop.allPosListB a && Loop.allPosListB b) := by
  induction a with
  | nil => simp [Loop.allPosListB]
  | cons x xs ih => simp [Loop.allPosListB, ih, Bool.and_assoc]

mutual
theorem reverse_allPosB : ∀ l : Loop, l.reverseInplace.allPosB = l.allPosB
  | .mk rep none meas [] => by simp [Loop.reverseInplace, Loop.allPosB]
  | .mk rep (some w) meas [] => by simp [Loop.reverseInplace, Loop.allPosB, reversedWf_duration]
  | .mk rep wf meas (x :: xs) => by
      obtain ⟨y, ys, hR⟩ := revList_ne x xs
      have ih := reverse_allPosListB (x :: xs)
      simp only [Loop.reverseInplace, reverseList_eq, List.append_nil]
      rw [hR] at ih ⊢
      simp only [Loop.allPosB]
      rw [ih]
theorem reverse_allPosListB : ∀ cs : List Loop,
    Loop.allPosListB (cs.map Loop.reverseInplace).reverse = Loop.allPosListB cs
  | [] => rfl
  | x :: xs => by
      simp only [List.map_cons, List.reverse_cons, allPosListB_append, Loop.allPosListB, Bool.and_true]
      rw [reverse_allPosListB xs, reverse_allPosB x, Bool.and_comm]
end

/-- `LoopBuilder.time_reversed` against the reversed pulse -/
theorem RelA.reversed {its : List Item} {b : Pulse} (h : RelA its b) (hpos : Loop.allPosList (nodesOf its)) :
    RelA (match toProgram its with | none => [] | some root => [Item.node root.reverseInplace])
      { dur := b.dur, chans := b.chans.map (fun (x : Chan × PL) => (x.1, x.2.reversed)),
        windows := b.windows.map (mirrorW b.dur) } := by
  unfold toProgram
  simp only [rootLoop, applyItems_eq, List.nil_append, Loop.durationList]
  have hlook : ∀ c, ((b.chans.map (fun (x : Chan × PL) => (x.1, x.2.reversed))).lookup c)
      = (b.chans.lookup c).map (fun pl => pl.reversed) := by
    intro c
    exact lookup_map_snd b.chans (fun _ pl => pl.reversed) c
  rcases Bool.eq_false_or_eq_true (Loop.mk 1 none (measW its 0) (nodesOf its)).isEmpty with he | he
  · simp only [he, if_true]
    have hn : nodesOf its = [] := by
      simpa [Loop.isEmpty, Loop.wf, Loop.children] using he
    have hits : its = [] := h.blocks.eq_nil hn
    have hch := h.empty.mp hn
    subst hits
    have hd : b.dur = 0 := by rw [← h.dur]; simp [nodesOf, Loop.durationList]
    refine ⟨Blocks.nil, ?_, ?_, ?_, ?_, ?_, ?_⟩
    · simp [nodesOf, hch]
    · simp [nodesOf, Loop.durationList, hd]
    · intro c pl hc; simp [hch] at hc
    · intro c pl hc; simp [hch] at hc
    · intro c pl hc; simp [hch] at hc
    · intro c pl hc; simp [hch] at hc
  · simp only [he, Bool.false_eq_true, if_false]
    have hne : nodesOf its ≠ [] := by
      intro h0
      simp [Loop.isEmpty, Loop.wf, Loop.children, h0] at he
    have hd : 0 < b.dur := by rw [← h.dur]; exact Loop.allPosList_duration_pos _ hpos hne
    have hrootdur : (Loop.mk 1 none (measW its 0) (nodesOf its)).duration = b.dur := by
      rw [duration_none, h.dur]; simp
    obtain ⟨c0, cs0, hcs⟩ := List.exists_cons_of_ne_nil hne
    have hrootpos : (Loop.mk 1 none (measW its 0) (nodesOf its)).allPosB = true := by
      rw [hcs] at hpos ⊢
      simp only [Loop.allPosB, Bool.and_eq_true, decide_eq_true_eq]
      exact ⟨by omega, hpos⟩
    have hnd : ¬ b.dur ≤ 0 := not_le.mpr hd
    -- the root loop plays its children once
    have hrootS : ∀ c t, 0 ≤ t → t < b.dur →
        (Loop.mk 1 none (measW its 0) (nodesOf its)).sample c t = Loop.sampleList (nodesOf its) c t := by
      intro c t h0 h1
      have hfl := floor_div_eq t b.dur 0 hd (by simpa using h0) (by simpa using h1)
      rw [hcs]
      simp only [Loop.sample]
      rw [← hcs, bodyDuration_none, h.dur]
      simp only [hnd, if_false, hfl]
      simp
    have hrootL : ∀ c τ, 0 < τ → τ ≤ b.dur →
        (Loop.mk 1 none (measW its 0) (nodesOf its)).sampleL c τ = Loop.sampleListL (nodesOf its) c τ := by
      intro c τ h0 h1
      have hce := ceil_sub_one_eq τ b.dur 0 hd (by simpa using h0) (by simpa using h1)
      rw [hcs]
      simp only [Loop.sampleL]
      rw [← hcs, bodyDuration_none, h.dur]
      simp only [hnd, if_false, hce]
      simp
    refine ⟨Blocks.node _ Blocks.nil, ?_, ?_, ?_, ?_, ?_, ?_⟩
    · simp only [nodesOf]
      constructor
      · intro h0; simp at h0
      · intro h0
        simp only [List.map_eq_nil_iff] at h0
        exact absurd (h.empty.mpr h0) hne
    · simp only [nodesOf, Loop.durationList, reverse_duration, hrootdur]; ring
    · intro c pl hc
      simp only [hlook] at hc
      cases hcb : b.chans.lookup c with
      | none => simp [hcb] at hc
      | some plb =>
        simp only [hcb, Option.map_some, Option.some.injEq] at hc
        subst hc
        rw [PL.dur_reversed, h.plDur c plb hcb]
    · intro c pl hc
      simp only [hlook] at hc
      cases hcb : b.chans.lookup c with
      | none => simp [hcb] at hc
      | some plb =>
        simp only [hcb, Option.map_some, Option.some.injEq] at hc
        subst hc
        exact PL.pos_reversed (h.plPos c plb hcb)
    · intro c pl hc t ht0 ht
      simp only [hlook] at hc
      cases hcb : b.chans.lookup c with
      | none => simp [hcb] at hc
      | some plb =>
        simp only [hcb, Option.map_some, Option.some.injEq] at hc
        subst hc
        simp only at ht
        have hpl := h.plDur c plb hcb
        have hpp := h.plPos c plb hcb
        simp only [nodesOf]
        rw [sampleList_singleton _ _ _ (by rw [reverse_duration, hrootdur]; exact ht)]
        rw [rev_sample c _ hrootpos t ht0 (by rw [hrootdur]; exact ht), hrootdur]
        rw [hrootL c (b.dur - t) (by linarith) (by linarith)]
        obtain ⟨v, hv, hor⟩ := h.sampleL c plb hcb (b.dur - t) (by linarith) (by linarith)
        refine ⟨v, hv, ?_⟩
        rw [PL.adm_none_reversed]
        rcases hor with h1 | ⟨h1, h2⟩
        · have hat : PL.at (PL.revAmb plb) t = some v := by
            rw [PL.at_revAmb plb hpp t ht0 (by rw [hpl]; exact ht), hpl]; exact h1
          obtain ⟨rest, hrest⟩ := adm_head (PL.revAmb plb) none t v hat
          rw [hrest]; simp
        · obtain ⟨v', hv', hmem⟩ := PL.adm_revAmb plb hpp none (b.dur - t) (by linarith) (by rw [hpl]; exact h1)
          rw [h2] at hv'
          cases hv'
          rw [hpl] at hmem
          have e : b.dur - (b.dur - t) = t := by ring
          rw [e] at hmem
          exact hmem
    · intro c pl hc τ ht0 ht
      simp only [hlook] at hc
      cases hcb : b.chans.lookup c with
      | none => simp [hcb] at hc
      | some plb =>
        simp only [hcb, Option.map_some, Option.some.injEq] at hc
        subst hc
        simp only at ht ⊢
        have hpl := h.plDur c plb hcb
        have hpp := h.plPos c plb hcb
        simp only [nodesOf]
        rw [sampleListL_singleton _ _ _ (by rw [reverse_duration, hrootdur]; exact ht)]
        rw [rev_sampleL c _ hrootpos τ ht0 (by rw [hrootdur]; exact ht), hrootdur]
        rw [hrootS c (b.dur - τ) (by linarith) (by linarith)]
        obtain ⟨v, hv, hmem⟩ := h.sampleR c plb hcb (b.dur - τ) (by linarith) (by linarith)
        refine ⟨v, hv, ?_⟩
        rcases PL.adm_cases plb hpp none (b.dur - τ) v (by linarith) hmem with h1 | ⟨_, h2⟩ | ⟨h1, h2⟩
        · left
          rw [PL.atL_reversed, PL.atL_revAmb plb hpp τ ht0 (by rw [hpl]; exact ht), hpl]
          exact h1
        · cases h2
        · right
          refine ⟨by linarith, ?_⟩
          rw [PL.at_reversed, PL.at_revAmb plb hpp τ (le_of_lt ht0) (by rw [hpl]; linarith), hpl]
          exact h2

end QP.PT
