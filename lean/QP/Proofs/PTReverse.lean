import QP.Model.PT
import QP.Proofs.PTRel
import Mathlib.Tactic.Ring
import Mathlib.Tactic.Linarith
/-! `Loop.reverse_inplace` (PF-03 repaired): durations are kept and the windows are mirrored about the duration. -/
namespace QP.PT

/-- mirror a window about `D` -/
def mirrorW (D : Rat) (w : Window) : Window := (w.1, D - (w.2.1 + w.2.2), w.2.2)

theorem reversedWf_duration (w : Wf) : w.reversedWf.duration = w.duration := by
  cases w <;> simp [Wf.reversedWf, Wf.duration]

theorem reverseList_eq (cs : List Loop) : ∀ acc, Loop.reverseList cs acc = (cs.map Loop.reverseInplace).reverse ++ acc := by
  induction cs with
  | nil => intro acc; simp [Loop.reverseList]
  | cons c cs ih => intro acc; simp [Loop.reverseList, ih]

theorem durationList_reverse (cs : List Loop) : Loop.durationList cs.reverse = Loop.durationList cs := by
  induction cs with
  | nil => rfl
  | cons c cs ih =>
    simp only [List.reverse_cons, durationList_append, Loop.durationList, ih]
    ring

theorem bodyDuration_ne_nil (r : Nat) (wf : Option Wf) (m : List Window) (cs : List Loop) (h : cs ≠ []) :
    Loop.bodyDuration (.mk r wf m cs) = Loop.durationList cs := by
  cases cs with
  | nil => exact absurd rfl h
  | cons c cs => simp [Loop.bodyDuration]

mutual
theorem reverse_duration : ∀ l : Loop, l.reverseInplace.duration = l.duration
  | .mk rep wf meas [] => by
      cases wf with
      | none => simp [Loop.reverseInplace, Loop.duration, Loop.bodyDuration]
      | some w => simp [Loop.reverseInplace, Loop.duration, Loop.bodyDuration, reversedWf_duration]
  | .mk rep wf meas (c :: cs) => by
      have ih := reverse_durationList (c :: cs)
      simp only [Loop.reverseInplace, reverseList_eq, List.append_nil, Loop.duration]
      rw [bodyDuration_ne_nil _ _ _ _ (by simp), bodyDuration_ne_nil _ _ _ _ (by simp),
        durationList_reverse, ih]
theorem reverse_durationList : ∀ cs : List Loop,
    Loop.durationList (cs.map Loop.reverseInplace) = Loop.durationList cs
  | [] => rfl
  | c :: cs => by
      simp only [List.map_cons, Loop.durationList]
      rw [reverse_duration c, reverse_durationList cs]
end

theorem reverse_bodyDuration (l : Loop) : l.reverseInplace.bodyDuration = l.bodyDuration := by
  obtain ⟨rep, wf, meas, cs⟩ := l
  cases cs with
  | nil =>
    cases wf with
    | none => simp [Loop.reverseInplace, Loop.bodyDuration]
    | some w => simp [Loop.reverseInplace, Loop.bodyDuration, reversedWf_duration]
  | cons c cs =>
    simp only [Loop.reverseInplace, reverseList_eq, List.append_nil]
    rw [bodyDuration_ne_nil _ _ _ _ (by simp), bodyDuration_ne_nil _ _ _ _ (by simp),
      durationList_reverse, reverse_durationList]

/-! ### windows -/

theorem mirrorW_shift (D off : Rat) (w : Window) : mirrorW (D + off) (shiftW off w) = mirrorW D w := by
  simp [mirrorW, shiftW]; ring

theorem shift_mirrorW (D off : Rat) (w : Window) : shiftW off (mirrorW D w) = mirrorW (D + off) w := by
  simp [mirrorW, shiftW]; ring

theorem windowsList_shift (cs : List Loop) (off : Rat) :
    Loop.windowsList cs off = (Loop.windowsList cs 0).map (shiftW off) := by
  induction cs generalizing off with
  | nil => simp [Loop.windowsList]
  | cons c cs ih =>
    simp only [Loop.windowsList, List.map_append, map_shiftW_shiftW]
    rw [ih (off + c.duration), ih (0 + c.duration), map_shiftW_shiftW]
    have : (0 : Rat) + c.duration + off = off + c.duration := by ring
    rw [this]
    simp

theorem windowsList_append (a b : List Loop) (off : Rat) :
    Loop.windowsList (a ++ b) off = Loop.windowsList a off ++ Loop.windowsList b (off + Loop.durationList a) := by
  induction a generalizing off with
  | nil => simp [Loop.windowsList, Loop.durationList]
  | cons x xs ih =>
    simp only [List.cons_append, Loop.windowsList, Loop.durationList, ih, List.append_assoc]
    congr 3
    ring

/-- the windows of a list of loops played in reverse order, each reversed, are the mirrored windows -/
theorem windowsList_reverse (cs : List Loop)
    (ih : ∀ c ∈ cs, c.reverseInplace.windows.Perm (c.windows.map (mirrorW c.duration))) :
    (Loop.windowsList (cs.map Loop.reverseInplace).reverse 0).Perm
      ((Loop.windowsList cs 0).map (mirrorW (Loop.durationList cs))) := by
  induction cs with
  | nil => simp [Loop.windowsList]
  | cons c cs ihl =>
    have hA := ihl (fun x hx => ih x (by simp [hx]))
    have hc := ih c (by simp)
    simp only [List.map_cons, List.reverse_cons, windowsList_append, zero_add, durationList_reverse,
      reverse_durationList, Loop.windowsList, Loop.durationList, List.append_nil, List.map_append]
    rw [windowsList_shift cs c.duration]
    simp only [map_shiftW_zero, List.map_map]
    have h1 : (mirrorW (c.duration + Loop.durationList cs) ∘ shiftW c.duration) = mirrorW (Loop.durationList cs) := by
      funext w
      simp only [Function.comp]
      rw [show c.duration + Loop.durationList cs = Loop.durationList cs + c.duration by ring, mirrorW_shift]
    rw [h1]
    have h2 : (c.windows.map (mirrorW (c.duration + Loop.durationList cs)))
        = (c.windows.map (mirrorW c.duration)).map (shiftW (Loop.durationList cs)) := by
      simp only [List.map_map]
      congr 1
      funext w
      simp only [Function.comp, shift_mirrorW]
    rw [h2]
    refine List.Perm.trans ?_ List.perm_append_comm
    exact List.Perm.append hA (List.Perm.map _ hc)

theorem repeatWindows_succ_left (ws : List Window) (n : Nat) (d : Rat) :
    repeatWindows ws (n + 1) d = ws ++ (repeatWindows ws n d).map (shiftW d) := by
  simp only [repeatWindows, List.range_succ_eq_map, List.flatMap_cons, List.flatMap_map, List.map_flatMap]
  congr 1
  · simp [map_shiftW_zero]
  · congr 1
    funext k
    simp only [Function.comp, map_shiftW_shiftW]
    congr 2
    push_cast
    ring

theorem repeatWindows_succ_right (ws : List Window) (n : Nat) (d : Rat) :
    repeatWindows ws (n + 1) d = repeatWindows ws n d ++ ws.map (shiftW (n * d)) := by
  simp [repeatWindows, List.range_succ, List.flatMap_append]

/-- repeating mirrored windows = mirroring the repeated windows about the total duration -/
theorem repeat_mirror (ws : List Window) (n : Nat) (d : Rat) :
    (repeatWindows (ws.map (mirrorW d)) n d).Perm ((repeatWindows ws n d).map (mirrorW (d * n))) := by
  induction n with
  | zero => simp [repeatWindows]
  | succ n ih =>
    rw [repeatWindows_succ_left, repeatWindows_succ_right, List.map_append]
    have h1 : (repeatWindows ws n d).map (mirrorW (d * ((n + 1 : Nat) : Rat)))
        = ((repeatWindows ws n d).map (mirrorW (d * n))).map (shiftW d) := by
      simp only [List.map_map]
      congr 1
      funext w
      simp only [Function.comp, shift_mirrorW]
      congr 1
      push_cast; ring
    have h2 : (ws.map (shiftW (n * d))).map (mirrorW (d * ((n + 1 : Nat) : Rat))) = ws.map (mirrorW d) := by
      simp only [List.map_map]
      congr 1
      funext w
      simp only [Function.comp]
      rw [show d * ((n + 1 : Nat) : Rat) = d + (n : Rat) * d by push_cast; ring, mirrorW_shift]
    rw [h1, h2]
    refine List.Perm.trans ?_ List.perm_append_comm
    exact List.Perm.append (List.Perm.refl _) (List.Perm.map _ ih)

mutual
/-- **`reverse_inplace` mirrors every window of a program about its duration** (PF-03 repaired) -/
theorem reverse_windows : ∀ l : Loop, l.reverseInplace.windows.Perm (l.windows.map (mirrorW l.duration))
  | .mk rep wf meas [] => by
      simp only [Loop.reverseInplace, Loop.windows, Loop.windowsList, List.append_nil, Loop.duration]
      have hb : Loop.bodyDuration (.mk rep (wf.map Wf.reversedWf)
          (meas.map (fun (w : Window) => (w.1, Loop.bodyDuration (.mk rep wf meas []) - (w.2.1 + w.2.2), w.2.2))) [])
          = Loop.bodyDuration (.mk rep wf meas []) := by
        cases wf <;> simp [Loop.bodyDuration, reversedWf_duration]
      rw [hb]
      exact repeat_mirror meas rep _
  | .mk rep wf meas (c :: cs) => by
      have ihl := reverse_windowsList (c :: cs)
      simp only [Loop.reverseInplace, reverseList_eq, List.append_nil, Loop.windows, Loop.duration]
      rw [bodyDuration_ne_nil _ _ _ _ (by simp), bodyDuration_ne_nil _ _ _ _ (by simp),
        durationList_reverse, reverse_durationList]
      refine List.Perm.trans ?_ (repeat_mirror _ rep _)
      apply repeatWindows_perm
      rw [List.map_append]
      exact List.Perm.append (List.Perm.refl _) (windowsList_reverse (c :: cs) ihl)
theorem reverse_windowsList : ∀ cs : List Loop,
    ∀ c ∈ cs, c.reverseInplace.windows.Perm (c.windows.map (mirrorW c.duration))
  | [] => by intro c hc; simp at hc
  | x :: xs => by
      intro c hc
      rcases List.mem_cons.mp hc with h | h
      · rw [h]; exact reverse_windows x
      · exact reverse_windowsList xs c h
end

end QP.PT
