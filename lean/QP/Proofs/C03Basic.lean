import QP.Model.C03
/-!
# C03 helper lemmas, part 1: the `Except Err` monad, error tracking (`Avoid`), monadic list functions,
expression evaluation, scopes.
-/
namespace QP.C03
open QP QP.PT

/-! ## `Except Err` -/

section ExceptLemmas
variable {α β : Type}

@[simp] theorem ok_bind (a : α) (f : α → Except Err β) : (Except.ok a >>= f) = f a := rfl
@[simp] theorem error_bind (e : Err) (f : α → Except Err β) : ((Except.error e : Except Err α) >>= f) = .error e := rfl
@[simp] theorem pure_eq_ok (a : α) : (pure a : Except Err α) = .ok a := rfl
@[simp] theorem map_ok (g : α → β) (a : α) : g <$> (Except.ok a : Except Err α) = .ok (g a) := rfl
@[simp] theorem map_error (g : α → β) (e : Err) : g <$> (Except.error e : Except Err α) = .error e := rfl

theorem bind_ok {x : Except Err α} {f : α → Except Err β} {r : β} :
    (x >>= f) = .ok r ↔ ∃ a, x = .ok a ∧ f a = .ok r := by
  cases x <;> simp

theorem bind_err {x : Except Err α} {f : α → Except Err β} {e : Err} :
    (x >>= f) = .error e ↔ x = .error e ∨ ∃ a, x = .ok a ∧ f a = .error e := by
  cases x <;> simp

theorem map_eq_ok {x : Except Err α} {g : α → β} {r : β} :
    g <$> x = .ok r ↔ ∃ a, x = .ok a ∧ g a = r := by
  cases x <;> simp

theorem map_eq_err {x : Except Err α} {g : α → β} {e : Err} :
    g <$> x = .error e ↔ x = .error e := by
  cases x <;> simp

theorem bind_congr' {x x' : Except Err α} {f f' : α → Except Err β}
    (hx : x = x') (hf : ∀ a, x = .ok a → f a = f' a) : (x >>= f) = (x' >>= f') := by
  subst hx
  cases x with
  | error e => rfl
  | ok a => exact hf a rfl

end ExceptLemmas

/-! ## error tracking -/

/-- the computation does not fail with an error of class `E` -/
def Avoid {α : Type} (E : Err → Prop) (x : Except Err α) : Prop := ∀ e, x = .error e → ¬ E e

/-- the three error classes that come from scopes and constraints -/
def Sc (e : Err) : Prop := e = .constraintViolation ∨ e = .parameterMissing ∨ e = .exprVarMissing

/-- never fails with a scope / constraint error (scope independent helper functions) -/
abbrev Clean {α : Type} (x : Except Err α) : Prop := Avoid Sc x

/-- `E` contains scope / constraint errors only -/
def SubSc (E : Err → Prop) : Prop := ∀ e, E e → Sc e

section AvoidLemmas
variable {α β : Type} {E : Err → Prop}

theorem avoid_ok (a : α) : Avoid E (Except.ok a : Except Err α) := by
  intro e h; cases h

theorem avoid_pure (a : α) : Avoid E (pure a : Except Err α) := avoid_ok a

theorem avoid_error {e : Err} (h : ¬ E e) : Avoid E (Except.error e : Except Err α) := by
  intro e' h'; cases h'; exact h

theorem avoid_bind {x : Except Err α} {f : α → Except Err β}
    (hx : Avoid E x) (hf : ∀ a, x = .ok a → Avoid E (f a)) : Avoid E (x >>= f) := by
  intro e h
  rcases bind_err.mp h with h | ⟨a, ha, h⟩
  · exact hx e h
  · exact hf a ha e h

theorem avoid_map {x : Except Err α} {g : α → β} (hx : Avoid E x) : Avoid E (g <$> x) := by
  intro e h
  exact hx e (map_eq_err.mp h)

theorem Avoid.mono {E' : Err → Prop} {x : Except Err α} (h : Avoid E x) (hE : ∀ e, E' e → E e) : Avoid E' x :=
  fun e he he' => h e he (hE e he')

theorem clean_avoid {x : Except Err α} (hE : SubSc E) (h : Clean x) : Avoid E x := h.mono hE

theorem subSc_not {e : Err} (hE : SubSc E) (h : ¬ Sc e) : ¬ E e := fun he => h (hE e he)

theorem avoid_of_eq_ok {x : Except Err α} {a : α} (h : x = .ok a) : Avoid E x := by
  subst h; exact avoid_ok a

end AvoidLemmas

theorem avoid_iff {α : Type} {E : Err → Prop} {x : Except Err α} : Avoid E x ↔ ∀ e, x = .error e → ¬ E e := Iff.rfl

attribute [irreducible] Avoid

theorem subSc_cv : SubSc (fun e => e = .constraintViolation) := fun _ h => Or.inl h
theorem subSc_miss : SubSc (fun e => e = .parameterMissing ∨ e = .exprVarMissing) := fun _ h => Or.inr h

/-! ## monadic list functions -/

section ListLemmas
variable {α β : Type} {E : Err → Prop}

theorem avoid_mapM {l : List α} {f : α → Except Err β} (h : ∀ a ∈ l, Avoid E (f a)) : Avoid E (l.mapM f) := by
  induction l with
  | nil => simp only [List.mapM_nil]; exact avoid_pure _
  | cons a l ih =>
    simp only [List.mapM_cons]
    refine avoid_bind (h a (by simp)) (fun _ _ => avoid_bind (ih (fun b hb => h b (by simp [hb]))) (fun _ _ => avoid_pure _))

theorem avoid_filterMapM {l : List α} {f : α → Except Err (Option β)} (h : ∀ a ∈ l, Avoid E (f a)) :
    Avoid E (l.filterMapM f) := by
  induction l with
  | nil => simp only [List.filterMapM_nil]; exact avoid_pure _
  | cons a l ih =>
    simp only [List.filterMapM_cons]
    refine avoid_bind (h a (by simp)) (fun o _ => ?_)
    cases o with
    | none => exact ih (fun b hb => h b (by simp [hb]))
    | some b => exact avoid_bind (ih (fun b hb => h b (by simp [hb]))) (fun _ _ => avoid_pure _)

theorem avoid_flatMapM {l : List α} {f : α → Except Err (List β)} (h : ∀ a ∈ l, Avoid E (f a)) :
    Avoid E (l.flatMapM f) := by
  induction l with
  | nil => simp only [List.flatMapM_nil]; exact avoid_pure _
  | cons a l ih =>
    simp only [List.flatMapM_cons]
    refine avoid_bind (h a (by simp)) (fun _ _ => avoid_bind (ih (fun b hb => h b (by simp [hb]))) (fun _ _ => avoid_pure _))

theorem avoid_forM {l : List α} {f : α → Except Err Unit} (h : ∀ a ∈ l, Avoid E (f a)) : Avoid E (forM l f) := by
  induction l with
  | nil => simp only [List.forM_nil]; exact avoid_pure _
  | cons a l ih =>
    simp only [List.forM_cons]
    exact avoid_bind (h a (by simp)) (fun _ _ => ih (fun b hb => h b (by simp [hb])))

theorem avoid_foldlM {l : List α} {f : β → α → Except Err β} {b : β} (h : ∀ a ∈ l, ∀ b, Avoid E (f b a)) :
    Avoid E (l.foldlM f b) := by
  induction l generalizing b with
  | nil => simp only [List.foldlM_nil]; exact avoid_pure _
  | cons a l ih =>
    simp only [List.foldlM_cons]
    exact avoid_bind (h a (by simp) b) (fun _ _ => ih (fun a' ha' => h a' (by simp [ha'])))

theorem mapM_congr' {l : List α} {f g : α → Except Err β} (h : ∀ a ∈ l, f a = g a) : l.mapM f = l.mapM g := by
  induction l with
  | nil => rfl
  | cons a l ih =>
    simp only [List.mapM_cons]
    rw [h a (by simp), ih (fun b hb => h b (by simp [hb]))]

theorem filterMapM_congr' {l : List α} {f g : α → Except Err (Option β)} (h : ∀ a ∈ l, f a = g a) :
    l.filterMapM f = l.filterMapM g := by
  induction l with
  | nil => rfl
  | cons a l ih =>
    simp only [List.filterMapM_cons]
    rw [h a (by simp), ih (fun b hb => h b (by simp [hb]))]

theorem flatMapM_congr' {l : List α} {f g : α → Except Err (List β)} (h : ∀ a ∈ l, f a = g a) :
    l.flatMapM f = l.flatMapM g := by
  induction l with
  | nil => rfl
  | cons a l ih =>
    simp only [List.flatMapM_cons]
    rw [h a (by simp), ih (fun b hb => h b (by simp [hb]))]

theorem forM_congr' {l : List α} {f g : α → Except Err Unit} (h : ∀ a ∈ l, f a = g a) : forM l f = forM l g := by
  induction l with
  | nil => rfl
  | cons a l ih =>
    simp only [List.forM_cons]
    rw [h a (by simp), ih (fun b hb => h b (by simp [hb]))]

theorem foldlM_congr' {l : List α} {f g : β → α → Except Err β} {b : β} (h : ∀ a ∈ l, ∀ b, f b a = g b a) :
    l.foldlM f b = l.foldlM g b := by
  induction l generalizing b with
  | nil => rfl
  | cons a l ih =>
    simp only [List.foldlM_cons]
    rw [h a (by simp) b]
    exact bind_congr' rfl (fun b' _ => ih (fun a' ha' => h a' (by simp [ha'])))

/-- a successful `mapM` succeeded on every element -/
theorem mapM_ok_mem {l : List α} {f : α → Except Err β} {r : List β} (h : l.mapM f = .ok r) :
    ∀ a ∈ l, ∃ b, f a = .ok b := by
  induction l generalizing r with
  | nil => intro a ha; cases ha
  | cons a l ih =>
    simp only [List.mapM_cons] at h
    obtain ⟨b, hb, h⟩ := bind_ok.mp h
    obtain ⟨bs, hbs, _⟩ := bind_ok.mp h
    intro a' ha'
    rcases List.mem_cons.mp ha' with rfl | ha'
    · exact ⟨b, hb⟩
    · exact ih hbs a' ha'

theorem forM_ok_mem {l : List α} {f : α → Except Err Unit} (h : forM l f = .ok ()) :
    ∀ a ∈ l, f a = .ok () := by
  induction l with
  | nil => intro a ha; cases ha
  | cons a l ih =>
    simp only [List.forM_cons] at h
    obtain ⟨u, hu, h⟩ := bind_ok.mp h
    intro a' ha'
    rcases List.mem_cons.mp ha' with rfl | ha'
    · exact hu
    · exact ih h a' ha'

theorem forM_ok_of_mem {l : List α} {f : α → Except Err Unit} (h : ∀ a ∈ l, f a = .ok ()) : forM l f = .ok () := by
  induction l with
  | nil => rfl
  | cons a l ih =>
    simp only [List.forM_cons]
    rw [h a (by simp)]
    exact ih (fun b hb => h b (by simp [hb]))

end ListLemmas

/-! ## expressions -/

theorem ratPow_clean (b : Rat) (n : Int) : Clean (ratPow b n) := by
  unfold ratPow
  split
  · exact avoid_ok _
  · split
    · exact avoid_error (by simp [Sc])
    · exact avoid_ok _

theorem eval_congr {look look' : String → Except Err Rat} :
    ∀ (e : Expr), (∀ x ∈ e.vars, look x = look' x) → e.eval look = e.eval look'
  | .lit _, _ => rfl
  | .var x, h => h x (by simp [Expr.vars])
  | .add a b, h => by
      simp only [Expr.eval]
      rw [eval_congr a (fun x hx => h x (by simp [Expr.vars, hx])), eval_congr b (fun x hx => h x (by simp [Expr.vars, hx]))]
  | .mul a b, h => by
      simp only [Expr.eval]
      rw [eval_congr a (fun x hx => h x (by simp [Expr.vars, hx])), eval_congr b (fun x hx => h x (by simp [Expr.vars, hx]))]
  | .max a b, h => by
      simp only [Expr.eval]
      rw [eval_congr a (fun x hx => h x (by simp [Expr.vars, hx])), eval_congr b (fun x hx => h x (by simp [Expr.vars, hx]))]
  | .min a b, h => by
      simp only [Expr.eval]
      rw [eval_congr a (fun x hx => h x (by simp [Expr.vars, hx])), eval_congr b (fun x hx => h x (by simp [Expr.vars, hx]))]
  | .cmp c a b, h => by
      simp only [Expr.eval]
      rw [eval_congr a (fun x hx => h x (by simp [Expr.vars, hx])), eval_congr b (fun x hx => h x (by simp [Expr.vars, hx]))]
  | .pow a n, h => by
      simp only [Expr.eval]
      rw [eval_congr a (fun x hx => h x (by simp [Expr.vars, hx]))]
  | .floor a, h => by
      simp only [Expr.eval]
      rw [eval_congr a (fun x hx => h x (by simp [Expr.vars, hx]))]
  | .ceil a, h => by
      simp only [Expr.eval]
      rw [eval_congr a (fun x hx => h x (by simp [Expr.vars, hx]))]
  | .abs a, h => by
      simp only [Expr.eval]
      rw [eval_congr a (fun x hx => h x (by simp [Expr.vars, hx]))]
  | .unsupported, _ => rfl

theorem avoid_eval {E : Err → Prop} (hE : SubSc E) {look : String → Except Err Rat} :
    ∀ (e : Expr), (∀ x ∈ e.vars, Avoid E (look x)) → Avoid E (e.eval look)
  | .lit _, _ => avoid_ok _
  | .var x, h => h x (by simp [Expr.vars])
  | .add a b, h => by
      simp only [Expr.eval]
      exact avoid_bind (avoid_eval hE a (fun x hx => h x (by simp [Expr.vars, hx])))
        (fun _ _ => avoid_bind (avoid_eval hE b (fun x hx => h x (by simp [Expr.vars, hx]))) (fun _ _ => avoid_pure _))
  | .mul a b, h => by
      simp only [Expr.eval]
      exact avoid_bind (avoid_eval hE a (fun x hx => h x (by simp [Expr.vars, hx])))
        (fun _ _ => avoid_bind (avoid_eval hE b (fun x hx => h x (by simp [Expr.vars, hx]))) (fun _ _ => avoid_pure _))
  | .max a b, h => by
      simp only [Expr.eval]
      exact avoid_bind (avoid_eval hE a (fun x hx => h x (by simp [Expr.vars, hx])))
        (fun _ _ => avoid_bind (avoid_eval hE b (fun x hx => h x (by simp [Expr.vars, hx]))) (fun _ _ => avoid_pure _))
  | .min a b, h => by
      simp only [Expr.eval]
      exact avoid_bind (avoid_eval hE a (fun x hx => h x (by simp [Expr.vars, hx])))
        (fun _ _ => avoid_bind (avoid_eval hE b (fun x hx => h x (by simp [Expr.vars, hx]))) (fun _ _ => avoid_pure _))
  | .cmp c a b, h => by
      simp only [Expr.eval]
      exact avoid_bind (avoid_eval hE a (fun x hx => h x (by simp [Expr.vars, hx])))
        (fun _ _ => avoid_bind (avoid_eval hE b (fun x hx => h x (by simp [Expr.vars, hx]))) (fun _ _ => avoid_pure _))
  | .pow a n, h => by
      simp only [Expr.eval]
      exact avoid_bind (avoid_eval hE a (fun x hx => h x (by simp [Expr.vars, hx])))
        (fun _ _ => clean_avoid hE (ratPow_clean _ _))
  | .floor a, h => by
      simp only [Expr.eval]
      exact avoid_bind (avoid_eval hE a (fun x hx => h x (by simp [Expr.vars, hx]))) (fun _ _ => avoid_pure _)
  | .ceil a, h => by
      simp only [Expr.eval]
      exact avoid_bind (avoid_eval hE a (fun x hx => h x (by simp [Expr.vars, hx]))) (fun _ _ => avoid_pure _)
  | .abs a, h => by
      simp only [Expr.eval]
      exact avoid_bind (avoid_eval hE a (fun x hx => h x (by simp [Expr.vars, hx]))) (fun _ _ => avoid_pure _)
  | .unsupported, _ => avoid_error (subSc_not hE (by simp [Sc]))

end QP.C03
