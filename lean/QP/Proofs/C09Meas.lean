import QP.Proofs.C09Ops3
/-! Local steps of `add_measurements` and `get_measurement_windows(drop=True)`: they only read
durations (filling caches) and rewrite measurement lists. -/
namespace QP.C09

theorem addMeas_ok (ms : List Meas) (next : Nat) (t : T) (h : Coherent t) : LocOk t (addMeasLoc ms next t) := by
  obtain ⟨f1, _, f3, f4⟩ := fillV_spec.1 t h
  refine ⟨coherent_upd _ _ rfl rfl (Or.inl rfl) f1,
    ⟨by simp [addMeasLoc, okLoc, f4], by simp [addMeasLoc, okLoc, f4], by simp [addMeasLoc, okLoc, f4]⟩, ?_⟩
  simp only [addMeasLoc, okLoc, UpdOk]
  rw [dur_upd _ _ rfl rfl]
  simp only [dur, f3, f4]

theorem fill_keeps (t : T) (h : Coherent t) :
    Coherent (fillV t).1 ∧ SameId t (fillV t).1 ∧ dur (fillV t).1 = dur t := by
  obtain ⟨f1, _, f3, f4⟩ := fillV_spec.1 t h
  exact ⟨f1, ⟨by simp [f4], by simp [f4], by simp [f4]⟩, by simp only [dur, f3, f4]⟩

theorem drop_spec :
    (∀ t, Coherent t → Coherent (dropT t) ∧ SameId t (dropT t) ∧ dur (dropT t) = dur t) ∧
    (∀ ks, (∀ d ∈ ks, Coherent d) → (∀ d ∈ dropL ks, Coherent d) ∧ sumDur (dropL ks) = sumDur ks ∧
        linkIds (dropL ks) = linkIds ks ∧ (dropL ks).length = ks.length) := by
  apply T.ind
  · intro i ks ih h
    obtain ⟨k1, k2, k3, k4⟩ := ih h.kids
    have h0 : Coherent (T.mk { i with meas := [] } ks) :=
      coherent_upd (fun i => { i with meas := [] }) (T.mk i ks) rfl rfl (Or.inl rfl) h
    have d0 : dur (T.mk { i with meas := [] } ks) = dur (T.mk i ks) :=
      dur_upd (fun i => { i with meas := [] }) (T.mk i ks) rfl rfl
    simp only [dropT]
    by_cases he : ks.isEmpty
    · rw [if_pos he]
      obtain ⟨f1, f2, f3⟩ := fill_keeps _ h0
      exact ⟨f1, ⟨f2.1, f2.2.1, f2.2.2⟩, by rw [f3, d0]⟩
    · rw [if_neg he]
      rw [coherent_mk] at h
      obtain ⟨h1, h2, _⟩ := h
      have hb : bodyDur (T.mk { i with meas := [] } (dropL ks)) = bodyDur (T.mk i ks) := by
        rw [bodyDur_mk, bodyDur_mk, isEmpty_of_length_eq k4, k2]
      refine ⟨?_, ⟨rfl, rfl, rfl⟩, by simp only [dur, hb, T.info_mk]⟩
      rw [coherent_mk]
      refine ⟨?_, linksOkHere_congr rfl k3 h2, k1⟩
      unfold cacheOkHere at h1 ⊢; rw [hb]; exact h1
  · intro _; simp [dropL, linkIds]
  · intro c cs ihc ihcs h
    obtain ⟨c1, c2, c3⟩ := ihc (h c List.mem_cons_self)
    obtain ⟨d1, d2, d3, d4⟩ := ihcs (fun d hd => h d (List.mem_cons_of_mem _ hd))
    obtain ⟨f1, f2, f3⟩ := fill_keeps _ c1
    simp only [dropL]
    refine ⟨?_, by simp [f3, c3, d2], ?_, by simp [d4]⟩
    · intro d hd
      rcases List.mem_cons.1 hd with h' | h'
      · rw [h']; exact f1
      · exact d1 d h'
    · simp only [linkIds, List.map_cons] at d3 ⊢
      rw [d3, f2.2.1, f2.2.2, c2.2.1, c2.2.2]

theorem dropMeas_ok (next : Nat) (t : T) (h : Coherent t) : LocOk t (dropMeasLoc next t) := by
  obtain ⟨r1, r2, r3⟩ := drop_spec.1 t h
  exact ⟨r1, r2, r3⟩

end QP.C09
