import QP.Proofs.C09Slice
/-! Local steps of the operations that go through `Node.__setitem__`. -/
namespace QP.C09

/-- a node with an emptied cache and a correctly linked list of coherent children is coherent -/
theorem coherent_of_links (i : Info) (ks : List T) (hc : i.cache = none)
    (hl : Links i.uid ks) (hk : ∀ d ∈ ks, Coherent d) : Coherent (.mk i ks) := by
  rw [coherent_mk]
  exact ⟨Or.inl hc, hl, hk⟩

theorem Coherent.links {t : T} (h : Coherent t) : Links t.info.uid t.kids := ((coherent_iff t).1 h).2.1
theorem Coherent.kids {t : T} (h : Coherent t) : ∀ d ∈ t.kids, Coherent d := ((coherent_iff t).1 h).2.2

theorem coherentL_mem {vs : List T} (h : CoherentL vs) : ∀ d ∈ vs, Coherent d := (coherentL_iff vs).1 h

theorem setSlice_ok (a b c : Option Int) (vs : List T) (next : Nat) (t : T) (h : Coherent t)
    (hv : ∀ d ∈ vs, Coherent d) : LocOk t (setSliceLoc a b c vs next t) := by
  unfold setSliceLoc
  cases hs : sliceAssign t.info.uid t.kids a b c vs with
  | error e => exact locOk_err t e next h
  | ok r =>
    obtain ⟨r1, r2⟩ := sliceAssign_ok _ _ _ _ _ _ r h.links h.kids hv hs
    exact ⟨coherent_of_links _ _ rfl r1 r2, ⟨rfl, rfl, rfl⟩, trivial⟩

theorem setItem_ok (idx : Int) (v : T) (next : Nat) (t : T) (h : Coherent t) (hv : Coherent v) :
    LocOk t (setItemLoc idx v next t) := by
  unfold setItemLoc
  cases hs : itemAssign t.info.uid t.kids idx v with
  | error e => exact locOk_err t e next h
  | ok r =>
    obtain ⟨r1, r2⟩ := itemAssign_ok _ _ _ _ r h.links h.kids hv hs
    exact ⟨coherent_of_links _ _ rfl r1 r2, ⟨rfl, rfl, rfl⟩, trivial⟩

theorem unroll_ok (k next : Nat) (t : T) (h : Coherent t) : LocOk t (unrollLoc k next t) := by
  unfold unrollLoc
  cases hk : t.kids[k]? with
  | none => exact locOk_err t _ next h
  | some c =>
    simp only
    split
    · exact locOk_err t _ next h
    · cases hp : c.info.pidx with
      | none => exact locOk_err t _ next h
      | some i =>
        simp only
        cases hs : sliceAssign t.info.uid t.kids (some i) (some (i + 1)) none
            (copyMany (some t.info.uid) c.kids c.info.rep.toNat next).1 with
        | error e => exact locOk_err t e next h
        | ok r =>
          obtain ⟨r1, r2⟩ := sliceAssign_ok _ _ _ _ _ _ r h.links h.kids (copyMany_coherent _ _ _ _) hs
          exact ⟨coherent_of_links _ _ rfl r1 r2, ⟨rfl, rfl, rfl⟩, trivial⟩

theorem unrollChildren_ok (next : Nat) (t : T) (h : Coherent t) : LocOk t (unrollChildrenLoc next t) := by
  unfold unrollChildrenLoc
  simp only
  by_cases hleaf : t.isLeaf = true
  · rw [if_pos hleaf]; exact locOk_err t _ next h
  rw [if_neg hleaf]
  cases hs : sliceAssign t.info.uid t.kids none none none
      (copyMany (some t.info.uid) t.kids t.info.rep.toNat next).1 with
  | error e => exact locOk_err t e next h
  | ok r =>
    obtain ⟨r1, r2⟩ := sliceAssign_ok _ _ _ _ _ _ r h.links h.kids (copyMany_coherent _ _ _ _) hs
    exact ⟨coherent_of_links _ _ rfl r1 r2, ⟨rfl, rfl, rfl⟩, trivial⟩

theorem merge_ok (next : Nat) (t : T) (h : Coherent t) : LocOk t (mergeLoc next t) := by
  unfold mergeLoc
  split
  · rename_i c hc
    simp only
    split
    · exact locOk_err t _ next h
    · split
      · exact locOk_err t _ next h
      · have hcc : Coherent c := h.kids c (by rw [hc]; simp)
        cases hs : sliceAssign t.info.uid t.kids none none none c.kids with
        | error e => exact locOk_err t e next h
        | ok r =>
          obtain ⟨r1, r2⟩ := sliceAssign_ok _ _ _ _ _ _ r h.links h.kids hcc.kids hs
          exact ⟨coherent_of_links _ _ rfl r1 r2, ⟨rfl, rfl, rfl⟩, trivial⟩
  · exact locOk_err t _ next h

theorem split_ok (idx : Option Int) (next : Nat) (t : T) (h : Coherent t) : LocOk t (splitLoc idx next t) := by
  unfold splitLoc
  simp only
  split
  · exact locOk_err t _ next h
  · rename_i ci _
    cases hk : t.kids[(if ci < 0 then ci + (t.kids.length : Int) else ci).toNat]? with
    | none => exact locOk_err t _ next h
    | some c =>
      simp only
      generalize (if ci < 0 then ci + (t.kids.length : Int) else ci).toNat = j at *
      have hl1 : Links t.info.uid (t.kids.set j (c.upd (fun i => { i with rep := i.rep - 1, vol := false }))) := by
        intro k d hd
        by_cases hjk : j = k
        · subst hjk
          have hlt : j < t.kids.length := by
            rcases Nat.lt_or_ge j t.kids.length with h | h
            · exact h
            · rw [List.getElem?_eq_none h] at hk; cases hk
          rw [List.getElem?_set_self hlt] at hd
          cases hd
          simpa using h.links j c hk
        · rw [List.getElem?_set_ne hjk] at hd
          exact h.links k d hd
      have hk1 : ∀ d ∈ t.kids.set j (c.upd (fun i => { i with rep := i.rep - 1, vol := false })), Coherent d := by
        intro d hd
        rcases List.mem_or_eq_of_mem_set hd with h' | h'
        · exact h.kids d h'
        · rw [h']; exact coherent_upd _ c rfl rfl (Or.inl rfl) (h.kids c (List.mem_of_getElem? hk))
      have hnew : ∀ d ∈ [(copyT (some t.info.uid) none c next).1.upd (fun i => { i with rep := 1, vol := false })],
          Coherent d := by
        intro d hd
        simp only [List.mem_singleton] at hd
        rw [hd]
        exact coherent_upd _ _ rfl rfl (Or.inl rfl) (copyT_coherent _ _ _ _)
      cases hs : sliceAssign t.info.uid (t.kids.set j (c.upd (fun i => { i with rep := i.rep - 1, vol := false })))
          (some (ci + 1)) (some (ci + 1)) none
          [(copyT (some t.info.uid) none c next).1.upd (fun i => { i with rep := 1, vol := false })] with
      | error e => exact locOk_err t e next h
      | ok r =>
        obtain ⟨r1, r2⟩ := sliceAssign_ok _ _ _ _ _ _ r hl1 hk1 hnew hs
        exact ⟨coherent_of_links _ _ rfl r1 r2, ⟨rfl, rfl, rfl⟩, trivial⟩

end QP.C09
