import QP.Proofs.C07Lemmas
import QP.Proofs.C07Range
import QP.Proofs.C07Affine
import QP.Proofs.C07Table
/-!
# C07: the closed forms agree with the denoted pulse (induction over the supported fragment)
-/
namespace QP.C07
open QP.PT

/-- what is shown for one template: for every kept channel, whenever the closed form evaluates, the integral is
the integral of the denoted piecewise linear function, and the initial / final value is its first / last value
unless the path runs through a documented class (`pathTags`) -/
def Claim (pt : PT) : Prop :=
  ∀ σ mm cm P c o, denote pt σ mm cm = .ok P → regular pt σ = true → InjOn cm pt.definedChannels →
    c ∈ pt.definedChannels → cm.lookup c = some (some o) → keeps pt cm = true →
    (∀ r, integralOf pt σ c = .ok r → r = plIntegral (pulseVal P o)) ∧
    (∀ e, pathTags e pt σ mm cm c = .ok [] → ∀ v v', plEnd e (pulseVal P o) = some v →
      endOf e pt σ c = .ok v' → v' = v)

theorem evalsTo_iff {σ : Scope} {e : Expr} {p : Rat → Bool} :
    evalsTo σ e p = true ↔ ∃ v, σ.eval e = .ok v ∧ p v = true := by
  unfold evalsTo
  cases σ.eval e <;> simp

theorem claim_rep (id body count meas cons) (ih : Claim body) : Claim (.rep id body count meas cons) := by
  intro σ mm cm P c o hden hreg hinj hc hcm hkeep
  rw [denote] at hden
  simp only [bind_ok_iff] at hden
  obtain ⟨_, _, cnt, hcnt, hden⟩ := hden
  simp only [regular, Bool.and_eq_true, evalsTo_iff, hcnt] at hreg
  obtain ⟨⟨v, hv, hint, hnn⟩, hregb⟩ := hreg
  cases hv
  obtain ⟨n, rfl⟩ : ∃ n : Int, cnt = (n : Rat) := ⟨cnt.num, isInt_eq hint⟩
  have hn0 : 0 ≤ n := by
    have : (0 : Rat) ≤ (n : Rat) := by simpa using hnn
    exact Rat.intCast_nonneg.mp this
  rw [checkedInt_intCast] at hden
  simp only at hden
  have hdc : (PT.rep id body count meas cons).definedChannels = body.definedChannels := by
    simp [PT.definedChannels]
  rw [hdc] at hinj hc
  -- the denoted pulse on channel `o`
  have hval : ∃ b, (0 < n → denote body σ mm cm = .ok b) ∧ (n ≤ 0 → b = Pulse.empty) ∧
      pulseVal P o = PL.replicate n.toNat (pulseVal b o) := by
    split at hden
    · rename_i hle
      simp only [pure_ok_iff] at hden; subst hden
      have : n = 0 := by omega
      subst this
      exact ⟨Pulse.empty, by omega, fun _ => rfl, by simp [pulseVal_empty, PL_replicate_zero]⟩
    · rename_i hpos
      simp only [bind_ok_iff] at hden
      obtain ⟨ms, _, b, hb, hden⟩ := hden
      refine ⟨b, fun _ => hb, by omega, ?_⟩
      split at hden
      · rename_i hbe
        simp only [pure_ok_iff] at hden; subst hden
        rw [pulseVal_of_isEmpty hbe, PL_replicate_nil, pulseVal_empty]
      · simp only [pure_ok_iff] at hden; subst hden
        simp only [pulseVal]
        rw [lookup_map_snd b.chans (fun pl => PL.replicate n.toNat pl) o]
        cases hl : b.chans.lookup o with
        | none => simp [PL_replicate_nil]
        | some pl => simp
  obtain ⟨b, hb, hb0, hval⟩ := hval
  constructor
  · intro r hr
    rw [integralOf] at hr
    simp only [bind_ok_iff, hcnt] at hr
    obtain ⟨_, hc', v, hv, hr⟩ := hr
    cases hc'
    simp only [pure_ok_iff] at hr
    subst hr
    rw [hval, plIntegral_replicate]
    by_cases hpos : 0 < n
    · have ihb := (ih σ mm cm b c o (hb hpos) hregb hinj hc hcm (by simpa [keeps] using hkeep)).1 v hv
      rw [← ihb]
      have h1 : ((n.toNat : Nat) : Int) = n := Int.toNat_of_nonneg hn0
      have : ((n.toNat : Nat) : Rat) = (n : Rat) := by
        rw [← Rat.intCast_natCast, h1]
      rw [this]
    · have : n = 0 := by omega
      subst this
      simp
  · intro e htags v v' hv hv'
    rw [hval] at hv
    rw [pathTags] at htags
    rw [endOf] at hv'
    by_cases hpos : 0 < n
    · rw [plEnd_replicate e _ _ (by omega)] at hv
      exact (ih σ mm cm b c o (hb hpos) hregb hinj hc hcm (by simpa [keeps] using hkeep)).2 e htags v v' hv hv'
    · have : n = 0 := by omega
      subst this
      rw [Int.toNat_zero, PL_replicate_zero, plEnd_nil] at hv
      cases hv

theorem innerChan_spec {body : PT} {cm' : List (Chan × Option Chan)} {ch c : Chan}
    (hall : body.definedChannels.all (fun c => (cm'.lookup c).isSome) = true)
    (h : innerChan body cm' ch = some c) : c ∈ body.definedChannels ∧ cm'.lookup c = some (some ch) := by
  unfold innerChan at h
  have hm := List.mem_of_find?_eq_some h
  have hp := List.find?_some h
  refine ⟨hm, ?_⟩
  have hs := (List.all_eq_true.mp hall) c hm
  cases hl : cm'.lookup c with
  | none => rw [hl] at hs; cases hs
  | some x =>
    rw [hl] at hp
    have : x = some ch := by simpa using hp
    rw [this]

theorem claim_mapping (id body pm mm' cm' cons) (ih : Claim body)
    (hall : body.definedChannels.all (fun c => (cm'.lookup c).isSome) = true)
    (hnd : hasDup (body.definedChannels.filterMap
      (fun c => match cm'.lookup c with | some (some o) => some o | _ => none)) = false)
    (hnd' : hasDup body.definedChannels = false) :
    Claim (.mapping id body pm mm' cm' cons) := by
  intro σ mm cm P ch o hden hreg hinj hc hcm hkeep
  rw [denote] at hden
  simp only [bind_ok_iff] at hden
  obtain ⟨_, _, mmU, hmm, cmU, hcmU, hden⟩ := hden
  rw [regular] at hreg
  simp only [PT.definedChannels] at hinj hc
  have hlk := updatedCm_lookup hcmU
  have hkeepU : keeps body cmU = true := by
    simp only [keeps, hcmU] at hkeep; exact hkeep
  -- injectivity of the updated channel mapping on the body's channels
  have hinjU : InjOn cmU body.definedChannels := by
    intro c1 c2 o' h1 h2 l1 l2
    rw [hlk] at l1 l2
    have key : ∀ c, c ∈ body.definedChannels → (match cm'.lookup c with
        | none => none | some none => some none | some (some x) => cm.lookup x) = some (some o') →
        ∃ x, cm'.lookup c = some (some x) ∧ cm.lookup x = some (some o') := by
      intro c _ hl
      cases h : cm'.lookup c with
      | none => rw [h] at hl; cases hl
      | some y =>
        cases y with
        | none => rw [h] at hl; cases hl
        | some x => rw [h] at hl; exact ⟨x, rfl, hl⟩
    obtain ⟨x1, hx1, hy1⟩ := key c1 h1 l1
    obtain ⟨x2, hx2, hy2⟩ := key c2 h2 l2
    have m1 : x1 ∈ dedup (body.definedChannels.filterMap
        (fun c => match cm'.lookup c with | some (some o) => some o | _ => none)) := by
      rw [mem_dedup]; exact List.mem_filterMap.mpr ⟨c1, h1, by simp [hx1]⟩
    have m2 : x2 ∈ dedup (body.definedChannels.filterMap
        (fun c => match cm'.lookup c with | some (some o) => some o | _ => none)) := by
      rw [mem_dedup]; exact List.mem_filterMap.mpr ⟨c2, h2, by simp [hx2]⟩
    have hx : x1 = x2 := hinj x1 x2 o' m1 m2 hy1 hy2
    rw [← hx] at hx2
    exact filterMap_inj_of_not_hasDup hnd h1 h2 hnd' (x := x1) (by simp [hx1]) (by simp [hx2])
  have inner : ∀ c, innerChan body cm' ch = some c → c ∈ body.definedChannels ∧ cmU.lookup c = some (some o) := by
    intro c hic
    obtain ⟨hm, hl⟩ := innerChan_spec hall hic
    refine ⟨hm, ?_⟩
    rw [hlk, hl]; exact hcm
  constructor
  · intro r hr
    rw [integralOf] at hr
    simp only [bind_ok_iff, keyOf_ok_iff] at hr
    obtain ⟨c, hic, hr⟩ := hr
    obtain ⟨hm, hl⟩ := inner c hic
    exact (ih (.mapped σ pm) mmU cmU P c o hden hreg hinjU hm hl hkeepU).1 r hr
  · intro e htags v v' hv hv'
    rw [pathTags] at htags
    rw [endOf] at hv'
    simp only [bind_ok_iff, keyOf_ok_iff] at htags hv'
    obtain ⟨c, hic, hv'⟩ := hv'
    obtain ⟨c2, hic2, mmU2, hmm2, cmU2, hcmU2, htags⟩ := htags
    rw [hic] at hic2; cases hic2
    rw [hmm] at hmm2; cases hmm2
    rw [hcmU] at hcmU2; cases hcmU2
    obtain ⟨hm, hl⟩ := inner c hic
    exact (ih (.mapped σ pm) mmU cmU P c o hden hreg hinjU hm hl hkeepU).2 e htags v v' hv hv'

/-! ### sequences -/

theorem chanEmpty_false_iff {a : Pulse} {cm : List (Chan × Option Chan)} {c o : Chan}
    (hcm : cm.lookup c = some (some o)) :
    chanEmpty (.ok a) cm c = false ↔ pulseVal a o ≠ [] := by
  unfold chanEmpty
  simp only [hcm]
  cases pulseVal a o <;> simp

theorem tags_nil_iff {t : Bool} {rest : Except Err (List Tag)} :
    (rest >>= fun r => pure ((if t then [Tag.emptyPart] else []) ++ r)) = .ok [] ↔ t = false ∧ rest = .ok [] := by
  simp only [bind_ok_iff, pure_ok_iff]
  constructor
  · rintro ⟨r, hr, h⟩
    cases t
    · simp at h; subst h; exact ⟨rfl, hr⟩
    · simp at h
  · rintro ⟨rfl, hr⟩; exact ⟨[], hr, by simp⟩

theorem seq_integral {subs : List PT} {σ mm cm} {c o : Chan} (hcm : cm.lookup c = some (some o))
    (ih : ∀ p ∈ subs, Claim p) :
    ∀ parts, denoteList subs σ mm cm = .ok parts → regularAll subs σ = true →
      (∀ p ∈ subs, c ∈ p.definedChannels ∧ InjOn cm p.definedChannels ∧ keeps p cm = true) →
      ∀ r, integralSum subs σ c = .ok r → r = plIntegral (parts.map (fun p => pulseVal p o)).flatten := by
  induction subs with
  | nil =>
    intro parts hd _ _ r hr
    simp only [denoteList] at hd; cases hd
    simp only [integralSum] at hr; cases hr
    simp [plIntegral]
  | cons p ps ihl =>
    intro parts hd hreg hch r hr
    simp only [denoteList, bind_ok_iff, pure_ok_iff] at hd
    obtain ⟨a, ha, b, hb, rfl⟩ := hd
    simp only [regularAll, Bool.and_eq_true] at hreg
    simp only [integralSum, bind_ok_iff, pure_ok_iff] at hr
    obtain ⟨ra, hra, rb, hrb, rfl⟩ := hr
    have h1 := (ih p (List.mem_cons_self ..) σ mm cm a c o ha hreg.1 (hch p (List.mem_cons_self ..)).2.1
      (hch p (List.mem_cons_self ..)).1 hcm (hch p (List.mem_cons_self ..)).2.2).1 ra hra
    have h2 := ihl (fun q hq => ih q (List.mem_cons_of_mem _ hq)) b hb hreg.2
      (fun q hq => hch q (List.mem_cons_of_mem _ hq)) rb hrb
    simp only [List.map_cons, List.flatten_cons, plIntegral_append, ← h1, ← h2]

theorem seq_ends {σ mm cm} {c o : Chan} (hcm : cm.lookup c = some (some o)) (e : End) :
    ∀ (subs : List PT), (∀ p ∈ subs, Claim p) →
    ∀ parts, denoteList subs σ mm cm = .ok parts → regularAll subs σ = true →
      (∀ p ∈ subs, c ∈ p.definedChannels ∧ InjOn cm p.definedChannels ∧ keeps p cm = true) →
      pathTagsEnd e subs σ mm cm c = .ok [] →
      (subs ≠ [] → e = .last → (parts.map (fun p => pulseVal p o)).flatten ≠ []) ∧
      ∀ v v', plEnd e (parts.map (fun p => pulseVal p o)).flatten = some v → endOfEnd e subs σ c = .ok v' → v' = v
  | [], _, parts, hd, _, _, _ => by
    simp only [denoteList] at hd; cases hd
    refine ⟨fun h => absurd rfl h, ?_⟩
    intro v v' hv
    simp [plEnd_nil] at hv
  | [p], ih, parts, hd, hreg, hch, htags => by
    simp only [denoteList, bind_ok_iff, pure_ok_iff] at hd
    obtain ⟨a, ha, b, hb, rfl⟩ := hd
    cases hb
    simp only [regularAll, Bool.and_eq_true] at hreg
    rw [pathTagsEnd, ha, tags_nil_iff, chanEmpty_false_iff hcm] at htags
    simp only [List.map_cons, List.map_nil, List.flatten_cons, List.flatten_nil, List.append_nil]
    refine ⟨fun _ _ => htags.1, ?_⟩
    intro v v' hv hv'
    rw [endOfEnd] at hv'
    exact (ih p (List.mem_cons_self ..) σ mm cm a c o ha hreg.1 (hch p (List.mem_cons_self ..)).2.1
      (hch p (List.mem_cons_self ..)).1 hcm (hch p (List.mem_cons_self ..)).2.2).2 e htags.2 v v' hv hv'
  | p :: q :: more, ih, parts, hd, hreg, hch, htags => by
    simp only [denoteList, bind_ok_iff, pure_ok_iff] at hd
    obtain ⟨a, ha, b, hb, rfl⟩ := hd
    have hb' : denoteList (q :: more) σ mm cm = .ok b := by
      simp only [denoteList, bind_ok_iff, pure_ok_iff]; exact hb
    simp only [regularAll, Bool.and_eq_true] at hreg
    have hreg' : regularAll (q :: more) σ = true := by
      simp only [regularAll, Bool.and_eq_true]; exact hreg.2
    simp only [List.map_cons, List.flatten_cons]
    cases e with
    | first =>
      rw [pathTagsEnd] at htags
      rw [ha, tags_nil_iff, chanEmpty_false_iff hcm] at htags
      refine ⟨fun _ h => End.noConfusion h, ?_⟩
      intro v v' hv hv'
      rw [endOfEnd] at hv'
      rw [plEnd_first_append_of_ne_nil _ _ htags.1] at hv
      exact (ih p (List.mem_cons_self ..) σ mm cm a c o ha hreg.1 (hch p (List.mem_cons_self ..)).2.1
        (hch p (List.mem_cons_self ..)).1 hcm (hch p (List.mem_cons_self ..)).2.2).2 .first htags.2 v v' hv hv'
    | last =>
      rw [pathTagsEnd] at htags
      have hrec := seq_ends hcm .last (q :: more) (fun r hr => ih r (List.mem_cons_of_mem _ hr)) b hb' hreg'
        (fun r hr => hch r (List.mem_cons_of_mem _ hr)) htags
      have hne := hrec.1 (by simp) rfl
      refine ⟨fun _ _ => by simp [hne], ?_⟩
      intro v v' hv hv'
      rw [endOfEnd] at hv'
      rw [plEnd_last_append_of_ne_nil _ _ hne] at hv
      exact hrec.2 v v' hv hv'

theorem sameChannels_mem {cs : List Chan} {subs : List PT} (h : sameChannels cs subs = true) :
    ∀ p ∈ subs, ∀ x, x ∈ p.definedChannels ↔ x ∈ cs := by
  induction subs with
  | nil => intro p hp; cases hp
  | cons q qs ih =>
    simp only [sameChannels, Bool.and_eq_true] at h
    intro p hp x
    rcases List.mem_cons.mp hp with rfl | hp
    · exact sameSet_mem h.1 x
    · exact ih h.2 p hp x

theorem keepsAll_mem {subs : List PT} {cm} (h : keepsAll subs cm = true) : ∀ p ∈ subs, keeps p cm = true := by
  induction subs with
  | nil => intro p hp; cases hp
  | cons q qs ih =>
    simp only [keepsAll, Bool.and_eq_true] at h
    intro p hp
    rcases List.mem_cons.mp hp with rfl | hp
    · exact h.1
    · exact ih h.2 p hp

theorem claim_seq (id subs meas cons) (ih : ∀ p ∈ subs, Claim p)
    (hsame : sameChannels (PT.firstChannels subs) subs = true) : Claim (.seq id subs meas cons) := by
  intro σ mm cm P c o hden hreg hinj hc hcm hkeep
  rw [denote] at hden
  simp only [bind_ok_iff, pure_ok_iff] at hden
  obtain ⟨_, _, ms, _, parts, hparts, p, happ, rfl⟩ := hden
  rw [regular] at hreg
  simp only [PT.definedChannels] at hinj hc
  have hmem := sameChannels_mem hsame
  have hch : ∀ q ∈ subs, c ∈ q.definedChannels ∧ InjOn cm q.definedChannels ∧ keeps q cm = true := by
    intro q hq
    refine ⟨(hmem q hq c).mpr hc, ?_, keepsAll_mem (by simpa [keeps] using hkeep) q hq⟩
    intro c1 c2 o' h1 h2
    exact hinj c1 c2 o' ((hmem q hq c1).mp h1) ((hmem q hq c2).mp h2)
  have hval : pulseVal (p.withOwn ms) o = (parts.map (fun q => pulseVal q o)).flatten := by
    rw [pulseVal_withOwn, pulseVal_appendAll happ]
  rw [hval]
  constructor
  · intro r hr
    rw [integralOf] at hr
    split at hr
    · cases hr
    · exact seq_integral hcm ih parts hparts hreg hch r hr
  · intro e htags v v' hv hv'
    rw [pathTags] at htags
    rw [endOf] at hv'
    exact (seq_ends hcm e subs ih parts hparts hreg hch htags).2 v v' hv hv'

/-! ### iterations -/

theorem forLoop_unfold {id body idx start stop step meas cons σ mm cm P}
    (hden : denote (.forLoop id body idx start stop step meas cons) σ mm cm = .ok P)
    (hreg : regular (.forLoop id body idx start stop step meas cons) σ = true) :
    ∃ (ai bi si : Int) (parts : List Pulse) (p : Pulse) (ms : List Window),
      σ.eval start = .ok (ai : Rat) ∧ σ.eval stop = .ok (bi : Rat) ∧ σ.eval step = .ok (si : Rat) ∧ si ≠ 0 ∧
      (pyRange ai bi si).mapM (fun (i : Int) => denote body (.range σ idx (i : Rat)) mm cm) = .ok parts ∧
      Pulse.appendAll parts = .ok p ∧ P = p.withOwn ms ∧
      ∀ i ∈ pyRange ai bi si, regular body (.range σ idx (i : Rat)) = true := by
  rw [regular] at hreg
  cases ha : σ.eval start with
  | error e => simp [ha] at hreg
  | ok a =>
  cases hb : σ.eval stop with
  | error e => simp [ha, hb] at hreg
  | ok b =>
  cases hs : σ.eval step with
  | error e => simp [ha, hb, hs] at hreg
  | ok s =>
  simp only [ha, hb, hs, Bool.and_eq_true, decide_eq_true_eq, List.all_eq_true] at hreg
  obtain ⟨⟨⟨⟨ia, ib⟩, is⟩, hs0⟩, hall⟩ := hreg
  obtain ⟨ai, rfl⟩ : ∃ n : Int, a = (n : Rat) := ⟨a.num, isInt_eq ia⟩
  obtain ⟨bi, rfl⟩ : ∃ n : Int, b = (n : Rat) := ⟨b.num, isInt_eq ib⟩
  obtain ⟨si, rfl⟩ : ∃ n : Int, s = (n : Rat) := ⟨s.num, isInt_eq is⟩
  simp only [Rat.num_intCast] at hall
  have hsi : si ≠ 0 := by
    intro h; apply hs0; rw [h]; rfl
  rw [denote] at hden
  have hcore : ∃ (ms : List Window) (parts : List Pulse) (p : Pulse),
      (pyRange ai bi si).mapM (fun (i : Int) => denote body (.range σ idx (i : Rat)) mm cm) = .ok parts ∧
      Pulse.appendAll parts = .ok p ∧ P = p.withOwn ms := by
    first
    | (simp only [ha, hb, hs, checkedInt_intCast, ok_bind, bind_ok_iff] at hden
       obtain ⟨_, _, a1, h1, b1, h2, s1, h3, hden⟩ := hden
       simp only [pure_ok_iff] at h1 h2 h3
       subst h1 h2 h3
       rw [if_neg hsi] at hden
       simp only [bind_ok_iff, pure_ok_iff] at hden
       obtain ⟨ms, _, parts, hparts, p, hp, hP⟩ := hden
       exact ⟨ms, parts, p, hparts, hp, hP.symm⟩)
    | (-- the variant of `QP.PT.denote` that casts the range parameters with `intOrErr`
       simp only [ha, hb, hs, intOrErr, checkedInt_intCast, ok_bind, bind_ok_iff] at hden
       obtain ⟨_, _, hden⟩ := hden
       rw [if_neg hsi] at hden
       simp only [bind_ok_iff, pure_ok_iff] at hden
       obtain ⟨ms, _, parts, hparts, p, hp, hP⟩ := hden
       exact ⟨ms, parts, p, hparts, hp, hP.symm⟩)
  obtain ⟨ms, parts, p, hparts, hp, hP⟩ := hcore
  exact ⟨ai, bi, si, parts, p, ms, rfl, rfl, rfl, hsi, hparts, hp, hP, hall⟩
theorem idx_cast (ai si : Int) (k : Nat) :
    (((ai + si * (k : Int) : Int)) : Rat) = (ai : Rat) + (k : Rat) * (si : Rat) := by
  simp only [Rat.intCast_add, Rat.intCast_mul, Rat.intCast_natCast]
  rw [Rat.mul_comm]

theorem mapM_singleton {α β} (f : α → Except Err β) (x : α) (ys : List β) :
    [x].mapM f = .ok ys ↔ ∃ y, f x = .ok y ∧ ys = [y] := by
  simp only [List.mapM_cons, List.mapM_nil, bind_ok_iff, pure_ok_iff]
  constructor
  · rintro ⟨y, hy, _, rfl, rfl⟩; exact ⟨y, hy, rfl⟩
  · rintro ⟨y, hy, rfl⟩; exact ⟨y, hy, [], rfl, rfl⟩

theorem loop_integral {body : PT} {σ : Scope} {idx : String} {mm cm} {c o : Chan}
    (hcm : cm.lookup c = some (some o)) (ih : Claim body) (hkeep : keeps body cm = true)
    (hinj : InjOn cm body.definedChannels)
    (hc : c ∈ body.definedChannels) (ai si : Int) :
    ∀ (N : Nat) (parts : List Pulse),
      ((List.range N).map (fun (k : Nat) => ai + si * (k : Int))).mapM
        (fun (i : Int) => denote body (.range σ idx (i : Rat)) mm cm) = .ok parts →
      (∀ k, k < N → regular body (.range σ idx ((ai + si * (k : Int) : Int) : Rat)) = true) →
      ∀ r, sumRange (fun (k : Nat) => integralOf body (.range σ idx ((ai : Rat) + (k : Rat) * (si : Rat))) c) N = .ok r →
        r = plIntegral (parts.map (fun p => pulseVal p o)).flatten := by
  intro N
  induction N with
  | zero =>
    intro parts hp _ r hr
    simp only [List.range_zero, List.map_nil, List.mapM_nil, pure_ok_iff] at hp; subst hp
    simp only [sumRange] at hr; cases hr
    simp [plIntegral]
  | succ N ihN =>
    intro parts hp hreg r hr
    rw [List.range_succ, List.map_append, List.mapM_append] at hp
    simp only [bind_ok_iff, pure_ok_iff, List.map_cons, List.map_nil] at hp
    obtain ⟨parts1, hp1, last, hl, rfl⟩ := hp
    rw [mapM_singleton] at hl
    obtain ⟨y, hy, rfl⟩ := hl
    simp only [sumRange, bind_ok_iff, pure_ok_iff] at hr
    obtain ⟨r1, hr1, r2, hr2, rfl⟩ := hr
    have e1 := ihN parts1 hp1 (fun k hk => hreg k (by omega)) r1 hr1
    rw [← idx_cast] at hr2
    have e2 := (ih _ mm cm y c o hy (hreg N (by omega)) hinj hc hcm hkeep).1 r2 hr2
    simp only [List.map_append, List.flatten_append, List.map_cons, List.map_nil, List.flatten_cons,
      List.flatten_nil, List.append_nil, plIntegral_append, ← e1, ← e2]
theorem tags3_nil_iff {p : Prop} [Decidable p] {t : Bool} {rest : Except Err (List Tag)} :
    (rest >>= fun r => pure ((if p then [] else [Tag.pf09]) ++ (if t then [Tag.emptyPart] else []) ++ r)) = .ok [] ↔
      p ∧ t = false ∧ rest = .ok [] := by
  simp only [bind_ok_iff, pure_ok_iff]
  constructor
  · rintro ⟨r, hr, h⟩
    by_cases hp : p <;> cases t <;> simp [hp] at h
    subst h; exact ⟨hp, rfl, hr⟩
  · rintro ⟨hp, rfl, hr⟩; exact ⟨[], hr, by simp [hp]⟩

theorem claim_forLoop (id body idx start stop step meas cons) (ih : Claim body) :
    Claim (.forLoop id body idx start stop step meas cons) := by
  intro σ mm cm P c o hden hreg hinj hc hcm hkeep
  obtain ⟨ai, bi, si, parts, p, ms, ha, hb, hs, hsi, hparts, hp, rfl, hall⟩ := forLoop_unfold hden hreg
  simp only [PT.definedChannels] at hinj hc
  have hkeepb : keeps body cm = true := by simpa [keeps] using hkeep
  have hval : pulseVal (p.withOwn ms) o = (parts.map (fun q => pulseVal q o)).flatten := by
    rw [pulseVal_withOwn, pulseVal_appendAll hp]
  rw [hval]
  have hsr : ((si : Rat) = 0) = False := by
    simp only [eq_iff_iff, iff_false]; intro h; exact hsi (Rat.intCast_eq_zero_iff.mp h)
  constructor
  · intro r hr
    rw [integralOf] at hr
    simp only [ha, hb, hs, ok_bind, hsr, if_false] at hr
    have hsc : (((bi : Rat) - (ai : Rat)) / (si : Rat)).ceil = stepCount ai bi si := by
      unfold stepCount; rw [Rat.intCast_sub]
    rw [hsc] at hr
    have hlen := rangeLen_eq_stepCount (a := ai) (b := bi) hsi
    rw [pyRange_eq_map] at hparts hall
    split at hr
    · rename_i hle
      simp only [pure_ok_iff] at hr; subst hr
      have h0 : rangeLen ai bi si = 0 := by omega
      rw [h0] at hparts
      simp only [List.range_zero, List.map_nil, List.mapM_nil, pure_ok_iff] at hparts
      subst hparts
      simp [plIntegral]
    · rename_i hpos
      have hN : ((if stepCount ai bi si ≤ 1 then 1 else stepCount ai bi si) - 1 + 1).toNat = rangeLen ai bi si := by
        split <;> omega
      rw [hN] at hr
      refine loop_integral hcm ih hkeepb hinj hc ai si (rangeLen ai bi si) parts hparts ?_ r hr
      intro k hk
      apply hall
      exact List.mem_map.mpr ⟨k, List.mem_range.mpr hk, rfl⟩
  · intro e htags v v' hv hv'
    cases e with
    | first =>
      rw [endOf] at hv'
      simp only [ha, ok_bind] at hv'
      rw [pathTags] at htags
      simp only [ha, hb, hs, ok_bind, hsr, if_false, Rat.num_intCast] at htags
      cases hr : pyRange ai bi si with
      | nil =>
        rw [hr] at hparts
        simp only [List.mapM_nil, pure_ok_iff] at hparts; subst hparts
        simp [plEnd_nil] at hv
      | cons i0 rest =>
        have hi0 : i0 = ai := by
          have h1 := pyRange_head? ai bi si
          rw [hr] at h1
          simp only [List.head?_cons] at h1
          split at h1
          · cases h1
          · cases h1; rfl
        subst hi0
        rw [hr] at htags hparts
        simp only [List.mapM_cons, bind_ok_iff, pure_ok_iff] at hparts
        obtain ⟨part0, h0, ps, _, rfl⟩ := hparts
        simp only at htags
        rw [h0, tags_nil_iff, chanEmpty_false_iff hcm] at htags
        simp only [List.map_cons, List.flatten_cons] at hv
        rw [plEnd_first_append_of_ne_nil _ _ htags.1] at hv
        have hreg0 := hall i0 (by rw [hr]; exact List.mem_cons_self ..)
        exact (ih _ mm cm part0 c o h0 hreg0 hinj hc hcm hkeepb).2 .first htags.2 v v' hv hv'
    | last =>
      rw [endOf] at hv'
      simp only [ha, hb, hs, ok_bind, hsr, if_false] at hv'
      rw [pathTags] at htags
      simp only [ha, hb, hs, ok_bind, hsr, if_false, Rat.num_intCast] at htags
      cases hr : (pyRange ai bi si).getLast? with
      | none =>
        have : pyRange ai bi si = [] := List.getLast?_eq_none_iff.mp hr
        rw [this] at hparts
        simp only [List.mapM_nil, pure_ok_iff] at hparts; subst hparts
        simp [plEnd_nil] at hv
      | some iLast =>
        obtain ⟨init, hinit⟩ := List.getLast?_eq_some_iff.mp hr
        rw [hr] at htags
        simp only at htags
        rw [hinit, List.mapM_append] at hparts
        simp only [bind_ok_iff, pure_ok_iff] at hparts
        obtain ⟨pi, _, pl, hpl, rfl⟩ := hparts
        rw [mapM_singleton] at hpl
        obtain ⟨y, hy, rfl⟩ := hpl
        rw [hy, tags3_nil_iff, chanEmpty_false_iff hcm] at htags
        obtain ⟨hidx, hne, htl⟩ := htags
        simp only [List.map_append, List.flatten_append, List.map_cons, List.map_nil, List.flatten_cons,
          List.flatten_nil, List.append_nil] at hv
        rw [plEnd_last_append_of_ne_nil _ _ hne] at hv
        rw [hidx] at hv' htl
        have hregl := hall iLast (by rw [hinit]; simp)
        exact (ih _ mm cm y c o hy hregl hinj hc hcm hkeepb).2 .last htl v v' hv hv'

/-! ### atoms -/

/-- the pulse a constant template denotes on a kept channel: one constant piece (nothing for `d ≤ 0`) -/
theorem const_pulseVal (id dur amps meas) (hnd : hasDup (amps.map (·.1)) = false) {σ mm cm P} {c o : Chan} {e : Expr}
    {d : Rat} (hden : denote (.const id dur amps meas) σ mm cm = .ok P)
    (hinj : InjOn cm (dedup (amps.map (·.1)))) (he : amps.lookup c = some e) (hcm : cm.lookup c = some (some o))
    (hd : σ.eval dur = .ok d) :
    ∀ v, σ.eval e = .ok v → (d > 0 → pulseVal P o = [{ len := d, v0 := v, v1 := v }]) ∧
      (¬ d > 0 → pulseVal P o = []) := by
  have hmem := mem_of_lookup amps c e he
  have hc : c ∈ amps.map (·.1) := List.mem_map.mpr ⟨(c, e), hmem, rfl⟩
  rw [denote] at hden
  simp only [hd, ok_bind] at hden
  intro v hv
  split at hden
  · rename_i hpos
    refine ⟨fun _ => ?_, fun h => absurd hpos h⟩
    simp only [bind_ok_iff] at hden
    obtain ⟨cvs, hcvs, hden⟩ := hden
    obtain ⟨h1, h2⟩ := filterMapM_kept cm σ.eval amps cvs hcvs
    obtain ⟨v2, hv2, hm2⟩ := h2 (c, e) hmem o hcm
    rw [hv] at hv2; cases hv2
    have hlk : (dictOfList cvs).lookup o = some v := by
      apply dictOfList_lookup cvs o v _ hm2
      intro y hy hyo
      obtain ⟨x, hx, hxc, hxe⟩ := h1 y hy
      rw [hyo] at hxc
      have hxc' : x.1 = c := hinj x.1 c o ((mem_dedup _ _).mpr (List.mem_map.mpr ⟨x, hx, rfl⟩))
        ((mem_dedup _ _).mpr hc) hxc hcm
      have hx' : (c, x.2) ∈ amps := by rw [← hxc']; exact hx
      have := unique_of_not_hasDup amps hnd hx' hmem
      rw [this, hv] at hxe
      cases hxe; rfl
    split at hden
    · rename_i hemp
      have : dictOfList cvs = [] := by simpa using hemp
      rw [this] at hlk; simp [List.lookup] at hlk
    · split at hden
      · cases hden
      · simp only [bind_ok_iff, pure_ok_iff] at hden
        obtain ⟨ms, _, rfl⟩ := hden
        simp only [pulseVal]
        rw [lookup_map_snd (dictOfList cvs) (fun v => [({ len := d, v0 := v, v1 := v } : Seg)]) o, hlk]
        rfl
  · rename_i hneg
    refine ⟨fun h => absurd h hneg, fun _ => ?_⟩
    simp only [pure_ok_iff] at hden; subst hden
    exact pulseVal_empty o

theorem claim_const (id dur amps meas) (hnd : hasDup (amps.map (·.1)) = false) :
    Claim (.const id dur amps meas) := by
  intro σ mm cm P c o hden hreg hinj hc hcm hkeep
  simp only [PT.definedChannels] at hinj hc
  rw [mem_dedup] at hc
  obtain ⟨e, he⟩ := lookup_isSome_of_mem_keys amps c hc
  rw [regular, evalsTo_iff] at hreg
  obtain ⟨d, hd, hd0⟩ := hreg
  have hd0 : (0 : Rat) ≤ d := by simpa using hd0
  have key := const_pulseVal id dur amps meas hnd hden hinj he hcm hd
  constructor
  · intro r hr
    rw [integralOf] at hr
    simp only [he, keyOf, ok_bind, hd, bind_ok_iff, pure_ok_iff] at hr
    obtain ⟨v, hv, rfl⟩ := hr
    obtain ⟨k1, k2⟩ := key v hv
    by_cases hpos : d > 0
    · rw [k1 hpos]; simp [plIntegral]; grind
    · rw [k2 hpos]
      have : d = 0 := by grind
      subst this; simp [plIntegral]
  · intro en _ v v' hv hv'
    rw [endOf] at hv'
    simp only [he, keyOf, ok_bind] at hv'
    obtain ⟨k1, k2⟩ := key v' hv'
    by_cases hpos : d > 0
    · rw [k1 hpos] at hv
      cases en <;> simp [plEnd, plLast] at hv <;> exact hv
    · rw [k2 hpos, plEnd_nil] at hv; cases hv

theorem funcAt_eq (σ : Scope) (e : Expr) (t : Rat) :
    funcAt σ e t = e.eval (envT (fun x => match σ.look x with
      | .ok v => .ok v
      | .error .parameterMissing => .error .valueError
      | .error err => .error err) t) := rfl

theorem pulseVal_singleton (d : Rat) (o : Chan) (pl : PL) (ms : List Window) :
    pulseVal { dur := d, chans := [(o, pl)], windows := ms } o = pl := by
  simp [pulseVal, List.lookup]

theorem claim_func (id ch0 dur e meas cons) (haff : e.affineIn "t" = true) :
    Claim (.func id ch0 dur e meas cons) := by
  intro σ mm cm P c o hden hreg hinj hc hcm hkeep
  simp only [PT.definedChannels, List.mem_singleton] at hc
  subst hc
  rw [regular, evalsTo_iff] at hreg
  obtain ⟨d, hd, hd0⟩ := hreg
  have hd0 : (0 : Rat) ≤ d := by simpa using hd0
  rw [denote] at hden
  have hcl : chanLookup cm c = .ok (some o) := chanLookup_ok_iff.mpr hcm
  simp only [bind_ok_iff] at hden
  obtain ⟨_, _, oo, hoo, hden⟩ := hden
  rw [hcl] at hoo; cases hoo
  simp only [bind_ok_iff] at hden
  obtain ⟨d', hd', hden⟩ := hden
  rw [hd] at hd'; cases hd'
  simp only [haff, Bool.not_true, Bool.false_eq_true, if_false, bind_ok_iff, pure_ok_iff] at hden
  obtain ⟨a, ha, b, hb, ms, _, rfl⟩ := hden
  have ha' : funcAt σ e 0 = .ok a := ha
  have hb' : funcAt σ e 1 = .ok b := hb
  rw [pulseVal_singleton]
  constructor
  · intro r hr
    rw [integralOf] at hr
    simp only [ne_eq, not_true_eq_false, if_false, haff, Bool.not_true, Bool.false_eq_true, hd, ha', hb', ok_bind,
      pure_ok_iff] at hr
    subst hr
    split
    · simp [plIntegral]; grind
    · have : d = 0 := by grind
      subst this; simp [plIntegral]; grind
  · intro en _ v v' hv hv'
    split at hv
    · cases en with
      | first =>
        rw [endOf] at hv'
        simp only [ne_eq, not_true_eq_false, if_false] at hv'
        simp only [plEnd] at hv; cases hv
        rw [ha'] at hv'; cases hv'; rfl
      | last =>
        rw [endOf] at hv'
        simp only [ne_eq, not_true_eq_false, if_false, hd, ok_bind] at hv'
        simp only [plEnd, plLast] at hv; cases hv
        rw [funcAt_eq] at ha' hb' hv'
        exact eval_affine _ e haff d a b v' ha' hb' hv'
    · rw [plEnd_nil] at hv; cases hv


/-! ### tables -/

theorem regular_table_spec {id entries meas cons} {σ : Scope} (h : regular (.table id entries meas cons) σ = true)
    {c : Chan} {es : List TEntry} (hl : entries.lookup c = some es) {ws : List WEntry}
    (hws : instEntries σ es = .ok ws) : sortedTimes ws = true ∧ ∀ w ∈ ws, 0 ≤ w.t := by
  rw [regular] at h
  have := (List.all_eq_true.mp h) (c, es) (mem_of_lookup entries c es hl)
  simp only [hws, Bool.and_eq_true, List.all_eq_true, decide_eq_true_eq] at this
  exact this

theorem claim_table (id entries meas cons) : Claim (.table id entries meas cons) := by
  intro σ mm cm P c o hden hreg hinj hc hcm hkeep
  simp only [PT.definedChannels] at hc
  rw [mem_dedup] at hc
  obtain ⟨es, he⟩ := lookup_isSome_of_mem_keys entries c hc
  obtain ⟨inst, hinst, hemp, hval⟩ := table_pulseVal hden
  constructor
  · intro r hr
    rw [integralOf] at hr
    simp only [he, keyOf, ok_bind, bind_ok_iff] at hr
    obtain ⟨ws, hws, hr⟩ := hr
    obtain ⟨hsorted, hnonneg⟩ := regular_table_spec hreg he hws
    cases ws with
    | nil => simp at hr
    | cons w rest =>
      cases hlast : lastEntry? (w :: rest) with
      | none => rw [hlast] at hr; simp at hr
      | some l =>
        rw [hlast] at hr
        simp only [bind_ok_iff, pure_ok_iff] at hr
        obtain ⟨D, hD, rfl⟩ := hr
        obtain ⟨ws', hws', _, hle, h0, h1⟩ := tableInstantiate_spec hinst id meas cons D hD c es he
        rw [hws] at hws'; cases hws'
        have hlt : lastT (w :: rest) = l.t := by rw [lastT_eq, hlast]
        rw [hlt] at hle
        -- the closed form: pre entry, entries, post entry
        have hcf : sequenceIntegral (({ t := 0, v := w.v, interp := .hold } : WEntry) :: (w :: rest) ++
            [{ t := D, v := l.v, interp := .hold }]) =
            sequenceIntegral (frontPad (w :: rest)) + l.v * (D - l.t) := by
          have hl' : lastEntry? (({ t := 0, v := w.v, interp := .hold } : WEntry) :: w :: rest) = some l := by
            rw [lastEntry?_cons_cons]; exact hlast
          have := sequenceIntegral_append_singleton _ l { t := D, v := l.v, interp := .hold } hl'
          rw [List.cons_append] at this ⊢
          rw [this, sequenceIntegral_frontPad w rest (hnonneg w (List.mem_cons_self ..))]
          simp [interpIntegral]
        rw [hcf]
        by_cases hD0 : D = 0
        · rw [hemp (h0 hD0), pulseVal_empty]
          have hall : ∀ x ∈ w :: rest, x.t = 0 := by
            intro x hx
            have h1 := hnonneg x hx
            have h2 := sorted_le_lastT _ hsorted x hx
            rw [hlt] at h2
            grind
          have hl0 : l.t = 0 := by
            have : l ∈ w :: rest := by
              rw [lastEntry?_eq_getLast?] at hlast
              exact List.mem_of_getLast? hlast
            exact hall l this
          have hfp : sequenceIntegral (frontPad (w :: rest)) = 0 := by
            apply sequenceIntegral_zero
            intro x hx
            simp only [frontPad] at hx
            split at hx
            · rcases List.mem_cons.mp hx with rfl | hx
              · rfl
              · exact hall x hx
            · exact hall x hx
          rw [hfp, hD0, hl0]; simp [plIntegral]; grind
        · obtain ⟨hv, hs⟩ := hval c o _ (h1 hD0) hcm
          rw [hv, plIntegral_entriesToPL _ hs]
          have hlf : lastEntry? (frontPad (w :: rest)) = some l := by rw [lastEntry?_frontPad]; exact hlast
          unfold backPad
          rw [hlf]
          simp only
          split
          · rw [sequenceIntegral_append_singleton _ l _ hlf]
            simp [interpIntegral]
          · have : l.t = D := by grind
            rw [this]; grind
  · intro e htags v v' hv hv'
    rw [pathTags] at htags
    simp only [hinst, he, keyOf, ok_bind, bind_ok_iff] at htags
    obtain ⟨orig, horig, htags⟩ := htags
    cases hl : inst.lookup c with
    | none => rw [hl] at htags; simp at htags
    | some ws =>
      rw [hl] at htags
      simp only [pure_ok_iff] at htags
      obtain ⟨hpv, _⟩ := hval c o ws hl hcm
      rw [hpv] at hv
      rw [endOf] at hv'
      simp only [he, keyOf, ok_bind] at hv'
      cases e with
      | first =>
        simp only at hv'
        cases es with
        | nil => simp at hv'
        | cons x r =>
          simp only at hv'
          obtain ⟨w, rest, rfl, hwv, _⟩ := instEntries_first x r orig horig
          simp only [tableTags] at htags
          split at htags
          · rename_i hq
            have : plEnd .first (entriesToPL ws) = some w.v := by simpa using hq
            rw [this] at hv; cases hv
            rw [hwv] at hv'; cases hv'; rfl
          · cases htags
      | last =>
        simp only at hv'
        cases hg : es.getLast? with
        | none => rw [hg] at hv'; simp at hv'
        | some x =>
          rw [hg] at hv'
          simp only at hv'
          obtain ⟨w, hw1, _, hw3⟩ := instEntries_last es orig horig x hg
          simp only [tableTags, hw1] at htags
          split at htags
          · rename_i hq
            have : plEnd .last (entriesToPL ws) = some w.v := by simpa using hq
            rw [this] at hv; cases hv
            rw [hw3] at hv'; cases hv'; rfl
          · cases htags

/-! ### time reversal (integral only) -/

theorem plIntegral_map_swap (l : PL) :
    plIntegral (l.map (fun s => { s with v0 := s.v1, v1 := s.v0 })) = plIntegral l := by
  induction l with
  | nil => rfl
  | cons s r ih => simp only [List.map_cons, plIntegral, ih]; grind

theorem plIntegral_map_amb (l : PL) (b : Bool) :
    plIntegral (l.map (fun s => { s with amb := b })) = plIntegral l := by
  induction l with
  | nil => rfl
  | cons s r ih => simp only [List.map_cons, plIntegral, ih]

theorem plIntegral_reverse (l : PL) : plIntegral l.reverse = plIntegral l := by
  induction l with
  | nil => rfl
  | cons s r ih =>
    rw [List.reverse_cons, plIntegral_append, ih]
    simp [plIntegral]; grind

theorem plIntegral_reversed (p : PL) : plIntegral p.reversed = plIntegral p := by
  unfold PL.reversed
  have h := plIntegral_map_swap p.reverse
  rw [plIntegral_reverse] at h
  generalize p.reverse.map (fun s => { s with v0 := s.v1, v1 := s.v0 }) = q at h
  cases q with
  | nil => simpa using h
  | cons s rest =>
    simp only
    rw [← h]
    simp only [plIntegral, plIntegral_map_amb]

theorem claim_timeReversal (id body) (ih : Claim body) : Claim (.timeReversal id body) := by
  intro σ mm cm P c o hden hreg hinj hc hcm hkeep
  rw [denote] at hden
  simp only [bind_ok_iff, pure_ok_iff] at hden
  obtain ⟨b, hb, rfl⟩ := hden
  rw [regular] at hreg
  simp only [PT.definedChannels] at hinj hc
  constructor
  · intro r hr
    rw [integralOf] at hr
    have := (ih σ mm cm b c o hb hreg hinj hc hcm (by simpa [keeps] using hkeep)).1 r hr
    rw [this]
    simp only [pulseVal]
    rw [lookup_map_snd b.chans (fun pl => PL.reversed pl) o]
    cases b.chans.lookup o with
    | none => rfl
    | some pl => simp [plIntegral_reversed]
  · intro e _ v v' _ hv'
    rw [endOf] at hv'
    cases hv'

end QP.C07
