import QP.Proofs.C05Ctor
/-!
# C05 helper lemmas, program level: `to_waveform`, `new_subprogram`, the builder items
-/
namespace QP.C05
open QP.PT

/-! ## predicates on program trees -/

mutual
/-- every played waveform satisfies `p` (a loop with children ignores its own waveform, as `Loop` does) -/
def allLeaves (p : Wf → Bool) : Loop → Bool
  | .mk _ wf _ cs => match cs with
      | [] => (match wf with | some w => p w | none => true)
      | c :: cs' => allLeavesList p (c :: cs')
def allLeavesList (p : Wf → Bool) : List Loop → Bool
  | [] => true
  | c :: cs => allLeaves p c && allLeavesList p cs
end

mutual
/-- every repetition count is at least one and no loop is empty (what `LoopBuilder` produces) -/
def posReps : Loop → Bool
  | .mk rep wf _ cs => decide (1 ≤ rep) && (match cs with
      | [] => wf.isSome
      | c :: cs' => posRepsList (c :: cs'))
def posRepsList : List Loop → Bool
  | [] => true
  | c :: cs => posReps c && posRepsList cs
end

/-! ## durations -/

theorem bodyDuration_children (rep : Nat) (wf : Option Wf) (meas : List Window) (c : Loop) (cs : List Loop) :
    (Loop.mk rep wf meas (c :: cs)).bodyDuration = Loop.durationList (c :: cs) := by
  simp [Loop.bodyDuration]

theorem bodyDuration_none (rep : Nat) (meas : List Window) (cs : List Loop) :
    (Loop.mk rep none meas cs).bodyDuration = Loop.durationList cs := by
  cases cs with
  | nil => simp [Loop.bodyDuration, Loop.durationList]
  | cons c cs => exact bodyDuration_children _ _ _ _ _

theorem durationList_append : ∀ xs ys : List Loop,
    Loop.durationList (xs ++ ys) = Loop.durationList xs + Loop.durationList ys
  | [], ys => by simp only [List.nil_append, Loop.durationList]; grind
  | x :: xs, ys => by
      simp only [List.cons_append, Loop.durationList, durationList_append xs ys]; grind

/-! ## sampling -/

theorem sampleList_nav (c : Chan) : ∀ (cs : List Loop) (t : Rat),
    Loop.sampleList cs c t = nav (cs.map (fun x => (x.duration, x.sample c))) t
  | [], t => by simp [Loop.sampleList, nav]
  | x :: r, t => by
      rw [Loop.sampleList]
      simp only [List.map_cons, nav, sampleList_nav c r]

/-- one pass through the body of a loop -/
def bodySample : Loop → Chan → Rat → Option Rat
  | .mk _ wf _ [], c, t => (match wf with | some w => w.sample c t | none => none)
  | .mk _ _ _ (c' :: cs'), c, t => Loop.sampleList (c' :: cs') c t

/-- inside its range a loop plays its body at the time reduced by whole body durations -/
theorem sample_mk (l : Loop) (c : Chan) (t : Rat) (h0 : 0 ≤ t) (h1 : t < l.duration) :
    0 < l.bodyDuration ∧ 0 ≤ t - ((t / l.bodyDuration).floor : Rat) * l.bodyDuration ∧
    t - ((t / l.bodyDuration).floor : Rat) * l.bodyDuration < l.bodyDuration ∧
    l.sample c t = bodySample l c (t - ((t / l.bodyDuration).floor : Rat) * l.bodyDuration) := by
  obtain ⟨rep, wf, meas, cs⟩ := l
  generalize hd_def : (Loop.mk rep wf meas cs).bodyDuration = d
  have hdur : (Loop.mk rep wf meas cs).duration = d * rep := by rw [Loop.duration, hd_def]
  rw [hdur] at h1
  have hd : 0 < d := by
    apply Rat.not_le.mp
    intro hle
    have hr : (0 : Rat) ≤ (rep : Rat) := by exact_mod_cast Nat.zero_le rep
    have := Rat.mul_nonneg (by grind : (0 : Rat) ≤ -d) hr
    grind
  obtain ⟨k0, k1, r0, r1⟩ := floor_range t d rep hd h0 h1
  refine ⟨hd, r0, r1, ?_⟩
  rw [Loop.sample]
  have hd' : ¬ d ≤ 0 := by grind
  have hk : ¬ ((t / d).floor < 0 ∨ (rep : Int) ≤ (t / d).floor) := by omega
  simp only [hd_def, hd', if_false, hk]
  cases cs with
  | nil => cases wf <;> rfl
  | cons c' cs' => rfl


/-! ## `to_waveform` -/

/-- `to_waveform(l) = w`: what the proofs need -/
structure TW (l : Loop) (w : Wf) : Prop where
  dur : w.duration = l.duration
  cst : cst w = true
  rest : ∀ c, tidy c w = true →
    allLeaves (tidy c) l = true ∧
    w.channels.contains c = allLeaves (fun x => x.channels.contains c) l ∧
    (w.channels.contains c = true → ∀ t, 0 ≤ t → t < l.duration → w.sample c t = l.sample c t)

def TWList : List Loop → List Wf → Prop
  | [], [] => True
  | c :: cs, w :: ws => TW c w ∧ TWList cs ws
  | _, _ => False

theorem rep_wrap (l : Loop) (s w : Wf) (hrep : 1 ≤ l.rep)
    (hw : (if l.rep > 1 then fromRepetitionCount s l.rep else pure s) = .ok w)
    (hdur : s.duration = l.bodyDuration) (hc : cst s = true)
    (hbody : ∀ c, tidy c s = true →
      allLeaves (tidy c) l = true ∧
      s.channels.contains c = allLeaves (fun x => x.channels.contains c) l ∧
      (s.channels.contains c = true → ∀ t', 0 ≤ t' → t' < l.bodyDuration → s.sample c t' = bodySample l c t')) :
    TW l w := by
  have hld : l.duration = l.bodyDuration * l.rep := by
    obtain ⟨rep, wf, meas, cs⟩ := l
    rw [Loop.duration]; rfl
  by_cases h1 : l.rep > 1
  · simp only [h1, if_true] at hw
    obtain ⟨d1, d2, d3, d4, d5⟩ := fromRepetitionCount_spec s w l.rep hc hrep hw
    refine ⟨by rw [d1, hdur, hld], d2, ?_⟩
    intro c ht
    obtain ⟨b1, b2, b3⟩ := hbody c (d4 c ht)
    refine ⟨b1, by rw [d3 c, b2], ?_⟩
    intro hp t h0 ht1
    obtain ⟨s1, s2, s3, s4⟩ := sample_mk l c t h0 ht1
    rw [s4, d5 c t (by rw [hdur]; exact s1) h0 (by rw [hdur, ← hld]; exact ht1) hp, hdur]
    exact b3 (by rw [← d3 c]; exact hp) _ s2 s3
  · have hr1 : l.rep = 1 := by omega
    simp only [h1, if_false] at hw
    have hw' : s = w := by cases hw; rfl
    subst hw'
    refine ⟨by rw [hdur, hld, hr1]; simp, hc, ?_⟩
    intro c ht
    obtain ⟨b1, b2, b3⟩ := hbody c ht
    refine ⟨b1, b2, ?_⟩
    intro hp t h0 ht1
    obtain ⟨s1, s2, s3, s4⟩ := sample_mk l c t h0 ht1
    have ht1' : t < l.bodyDuration * ((1 : Nat) : Rat) := by rw [← hr1, ← hld]; exact ht1
    obtain ⟨k0, k1, _, _⟩ := floor_range t l.bodyDuration 1 s1 h0 ht1'
    have hk : (t / l.bodyDuration).floor = 0 := by omega
    rw [s4, hk]
    have : t - ((0 : Int) : Rat) * l.bodyDuration = t := by
      have : ((0 : Int) : Rat) = 0 := rfl
      rw [this]; grind
    rw [this]
    have ht2 : t < l.bodyDuration := by
      have : ((1 : Nat) : Rat) = 1 := rfl
      rw [this] at ht1'; grind
    exact b3 hp t h0 ht2


theorem TWList_sum : ∀ (cs : List Loop) (ws : List Wf), TWList cs ws → Wf.sumDuration ws = Loop.durationList cs
  | [], [], _ => by simp [Wf.sumDuration, Loop.durationList]
  | c :: cs, w :: ws, h => by
      simp only [Wf.sumDuration, Loop.durationList, h.1.dur, TWList_sum cs ws h.2]
  | [], _ :: _, h => by cases h
  | _ :: _, [], h => by cases h

theorem TWList_cst : ∀ (cs : List Loop) (ws : List Wf), TWList cs ws → ∀ x ∈ ws, cst x = true
  | [], [], _, x, hx => by simp at hx
  | c :: cs, w :: ws, h, x, hx => by
      rcases List.mem_cons.mp hx with rfl | hx
      · exact h.1.cst
      · exact TWList_cst cs ws h.2 x hx
  | [], _ :: _, h, _, _ => by cases h
  | _ :: _, [], h, _, _ => by cases h

theorem TWList_leaves (c : Chan) : ∀ (cs : List Loop) (ws : List Wf), TWList cs ws →
    (∀ x ∈ ws, tidy c x = true) →
    allLeavesList (tidy c) cs = true ∧
    ws.all (fun x => x.channels.contains c) = allLeavesList (fun x => x.channels.contains c) cs
  | [], [], _, _ => ⟨rfl, rfl⟩
  | l :: cs, w :: ws, h, ht => by
      obtain ⟨a1, a2, _⟩ := h.1.rest c (ht w (by simp))
      obtain ⟨b1, b2⟩ := TWList_leaves c cs ws h.2 (fun x hx => ht x (by simp [hx]))
      simp only [allLeavesList, List.all_cons, a1, b1, a2, b2, Bool.and_self]
      exact ⟨trivial, trivial⟩
  | [], _ :: _, h, _ => by cases h
  | _ :: _, [], h, _ => by cases h

theorem TWList_nav (c : Chan) : ∀ (cs : List Loop) (ws : List Wf), TWList cs ws →
    (∀ x ∈ ws, tidy c x = true ∧ x.channels.contains c = true) → ∀ t, 0 ≤ t →
    nav (ws.map (fun x => (x.duration, x.sample c))) t = Loop.sampleList cs c t
  | [], [], _, _, t, _ => by simp [nav, Loop.sampleList]
  | l :: cs, w :: ws, h, hx, t, h0 => by
      obtain ⟨hw1, hw2⟩ := hx w (by simp)
      obtain ⟨_, _, a3⟩ := h.1.rest c hw1
      rw [Loop.sampleList]
      simp only [List.map_cons, nav, h.1.dur]
      by_cases h1 : t < l.duration
      · simp only [h1, if_true]
        exact a3 hw2 t h0 h1
      · simp only [h1, if_false]
        exact TWList_nav c cs ws h.2 (fun x hx' => hx x (by simp [hx'])) _ (by grind)
  | [], _ :: _, h, _, _, _ => by cases h
  | _ :: _, [], h, _, _, _ => by cases h

mutual
/-- `to_waveform` of a program plays what the program plays -/
theorem toWaveform_TW : ∀ (l : Loop) (w : Wf), l.toWaveform = .ok w → posReps l = true →
    allLeaves cst l = true → TW l w
  | .mk a wf meas [], w, h, hp, hl => by
      cases wf with
      | none => rw [Loop.toWaveform] at h; cases h
      | some x =>
        rw [Loop.toWaveform] at h
        simp only [posReps, Bool.and_eq_true, decide_eq_true_eq] at hp
        simp only [allLeaves] at hl
        apply rep_wrap (Loop.mk a (some x) meas []) x w hp.1
        · by_cases ha : a = 1
          · subst ha
            simp only [Loop.rep]
            simp only [if_true] at h
            cases h
            rfl
          · have : a > 1 := by omega
            simpa [ha, this, Loop.rep] using h
        · simp [Loop.bodyDuration]
        · exact hl
        · intro c ht
          exact ⟨by simpa [allLeaves] using ht, by simp [allLeaves], fun _ t' _ _ => rfl⟩
  | .mk a wf meas [ch], w, h, hp, hl => by
      rw [Loop.toWaveform] at h
      simp only [posReps, posRepsList, Bool.and_eq_true, decide_eq_true_eq, Bool.and_true] at hp
      simp only [allLeaves, allLeavesList, Bool.and_true] at hl
      cases hs : ch.toWaveform with
      | error e => simp [hs, bind, Except.bind] at h
      | ok s =>
        have ih := toWaveform_TW ch s hs hp.2 hl
        simp only [hs, bind, Except.bind] at h
        apply rep_wrap (Loop.mk a wf meas [ch]) s w hp.1 h
        · rw [bodyDuration_children, Loop.durationList, Loop.durationList, ih.dur]; grind
        · exact ih.cst
        · intro c ht
          obtain ⟨a1, a2, a3⟩ := ih.rest c ht
          refine ⟨by simpa [allLeaves, allLeavesList] using a1,
            by simp only [allLeaves, allLeavesList, Bool.and_true]; exact a2, ?_⟩
          intro hpres t' h0 h1
          have hd : (Loop.mk a wf meas [ch]).bodyDuration = ch.duration := by
            rw [bodyDuration_children, Loop.durationList, Loop.durationList]; grind
          rw [hd] at h1
          simp only [bodySample, Loop.sampleList, h1, if_true]
          exact a3 hpres t' h0 h1
  | .mk a wf meas (c1 :: c2 :: cs), w, h, hp, hl => by
      rw [Loop.toWaveform.eq_4 _ _ _ _ _ (by simp)] at h
      simp only [posReps, Bool.and_eq_true, decide_eq_true_eq] at hp
      simp only [allLeaves] at hl
      cases hws : Loop.toWaveformList (c1 :: c2 :: cs) with
      | error e => simp [hws, bind, Except.bind] at h
      | ok ws =>
        have ihl := toWaveformList_TW (c1 :: c2 :: cs) ws hws hp.2 hl
        simp only [hws, bind, Except.bind] at h
        cases hs : fromSequence ws with
        | error e => simp [hs] at h
        | ok s =>
          simp only [hs] at h
          -- ws has at least two elements
          match ws, ihl, hs with
          | w1 :: w2 :: wr, ihl, hs =>
            obtain ⟨q1, q2, q3⟩ := fromSequence_spec w1 w2 wr s (TWList_cst _ _ ihl) hs
            apply rep_wrap (Loop.mk a wf meas (c1 :: c2 :: cs)) s w hp.1 h
            · rw [bodyDuration_children, q1, TWList_sum _ _ ihl]
            · exact q2
            · intro c ht
              obtain ⟨r1, r2, r3⟩ := q3 c ht
              obtain ⟨l1, l2⟩ := TWList_leaves c _ _ ihl r1
              refine ⟨by simpa [allLeaves] using l1, by simp only [allLeaves]; rw [r2, l2], ?_⟩
              intro hpres t' h0 h1
              rw [bodyDuration_children, ← TWList_sum _ _ ihl] at h1
              rw [r3 hpres t' h0 h1]
              simp only [bodySample]
              apply TWList_nav c _ _ ihl _ t' h0
              intro x hx
              refine ⟨r1 x hx, ?_⟩
              rw [r2] at hpres
              exact (List.all_eq_true.mp hpres) x hx
          | [], ihl, _ => cases ihl
          | [_], ihl, _ => exact absurd ihl.2 (by simp [TWList])
theorem toWaveformList_TW : ∀ (cs : List Loop) (ws : List Wf), Loop.toWaveformList cs = .ok ws →
    posRepsList cs = true → allLeavesList cst cs = true → TWList cs ws
  | [], ws, h, _, _ => by
      rw [Loop.toWaveformList] at h
      cases h
      trivial
  | c :: cs, ws, h, hp, hl => by
      rw [Loop.toWaveformList] at h
      simp only [posRepsList, Bool.and_eq_true] at hp
      simp only [allLeavesList, Bool.and_eq_true] at hl
      cases hw : c.toWaveform with
      | error e => simp [hw, bind, Except.bind] at h
      | ok w =>
        cases hws : Loop.toWaveformList cs with
        | error e => simp [hw, hws, bind, Except.bind] at h
        | ok ws' =>
          simp only [hw, hws, bind, Except.bind, pure, Except.pure, Except.ok.injEq] at h
          subst h
          exact ⟨toWaveform_TW c w hw hp.1 hl.1, toWaveformList_TW cs ws' hws hp.2 hl.2⟩
end


end QP.C05
