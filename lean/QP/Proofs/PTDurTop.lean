import QP.Model.PT
import QP.Proofs.PTDur
import QP.Proofs.PTTop3W
/-! `pt.duration` evaluated at the parameters = duration of the program `create_program` returns. -/
namespace QP.PT

theorem topCtx_scope {pt : PT} {params : List (String × Rat)} {mm : Option (List (MName × Option MName))}
    {cm : List (Chan × Option Chan)} {single : List String} {ctx : Ctx}
    (h : topCtx pt params mm cm single = .ok ctx) : ctx.scope = .dict params := by
  unfold topCtx at h
  by_cases hd : hasDup (cm.filterMap (·.2)) = true
  · simp [hd] at h
  · simp only [hd, Bool.false_eq_true, if_false, Except.ok.injEq] at h
    rw [← h]

theorem templateDuration_program {pt : PT} (hs : Stage3R pt) (params : List (String × Rat))
    (mm : Option (List (MName × Option MName))) (cm : List (Chan × Option Chan)) (prog? : Option Loop) (P : Pulse)
    (d : Rat) (hl : Live pt (.dict params) (topCm pt cm))
    (h1 : createProgram pt params mm cm [] = .ok prog?) (h2 : denoteTop pt params mm cm = .ok P)
    (h3 : templateDuration pt (.dict params) = .ok d) :
    d = (match prog? with | some prog => prog.duration | none => 0) := by
  have hW := createProgram_relWT_basic hs.basic params mm cm prog? P h1 h2
  simp only [denoteTop, bind_ok] at h2
  obtain ⟨ctx, hctx, h2⟩ := h2
  rw [topCtx_scope hctx, topCtx_cm hctx] at h2
  have hd := (live_dur hl ctx.mm d P h3 h2).1
  cases prog? with
  | some prog => simp only at hW ⊢; rw [hd, hW.1]
  | none => simp only at hW ⊢; rw [hd, hW.1]

end QP.PT
