import QP.Proofs.C03BW
/-!
# C03 helper lemmas, part 7: `_internal_create_program` / `_create_program` of every class
-/
namespace QP.C03
open QP QP.PT
variable {E : Err → Prop}

theorem wrapSingle_avoid (hS : SubSc E) {id : Option String} {ctx : Ctx} {k : Ctx → Except Err (List Item)}
    (h1 : Avoid E (k ctx)) (h2 : Avoid E (k { ctx with trafo := [] })) : Avoid E (wrapSingle id ctx k) := by
  unfold wrapSingle
  avoid_auto

theorem atomItems_avoid (hE : EClass E) (hcv : ¬ E .constraintViolation) (pt : PT) (σ : Scope) (mm cm trafo single)
    (hW : WF pt) (hT : NoReservedT pt) (hG : Good E (parameterNames pt) σ) :
    Avoid E (atomItems pt ⟨σ, mm, cm, trafo, single⟩) := by
  have hS := hE.sub
  unfold atomItems
  have hb := bw_avoid hE hcv pt σ cm hW hT hG
  have hm := am_avoid hE hcv pt σ mm hW hT hG
  avoid_auto

mutual
theorem int_avoid (hE : EClass E) (hcv : ¬ E .constraintViolation) :
    ∀ (pt : PT) (σ : Scope) (mm : List (MName × Option MName)) (cm : List (Chan × Option Chan)) (trafo : Chain)
      (single : List String), WF pt → NoReservedT pt → Good E (parameterNames pt) σ →
      Avoid E (internal pt ⟨σ, mm, cm, trafo, single⟩)
  | .const id dur amps meas, σ, mm, cm, trafo, single, hW, hT, hG => by
      rw [internal]; exact atomItems_avoid hE hcv _ σ mm cm trafo single hW hT hG
  | .table id entries meas cons, σ, mm, cm, trafo, single, hW, hT, hG => by
      rw [internal]; exact atomItems_avoid hE hcv _ σ mm cm trafo single hW hT hG
  | .point id chans entries meas cons, σ, mm, cm, trafo, single, hW, hT, hG => by
      rw [internal]; exact atomItems_avoid hE hcv _ σ mm cm trafo single hW hT hG
  | .func id ch dur e meas cons, σ, mm, cm, trafo, single, hW, hT, hG => by
      rw [internal]; exact atomItems_avoid hE hcv _ σ mm cm trafo single hW hT hG
  | .atomicMulti id subs dur meas cons, σ, mm, cm, trafo, single, hW, hT, hG => by
      rw [internal]; exact atomItems_avoid hE hcv _ σ mm cm trafo single hW hT hG
  | .arithAtomic id lhs minus rhs meas, σ, mm, cm, trafo, single, hW, hT, hG => by
      rw [internal]; exact atomItems_avoid hE hcv _ σ mm cm trafo single hW hT hG
  | .seq id subs meas cons, σ, mm, cm, trafo, single, hW, hT, hG => by
      have hS := hE.sub
      rw [internal]
      dsimp only
      simp only [WF] at hW
      simp only [NoReservedT] at hT
      have hc : Avoid E (validateCons cons σ.look) :=
        avoid_validateCons hS (Or.inr hcv) (fun x hx => hG.look x (by simp [parameterNames, hx]))
      have hm : Avoid E (getMeas meas σ.look mm) :=
        avoid_getMeas hS (fun x hx => hG.look x (by simp [parameterNames, hx]))
      have hl := intl_avoid hE hcv subs σ mm cm trafo single hW hT (hG.mono (fun x hx => by simp [parameterNames, hx]))
      avoid_auto
  | .rep id body count meas cons, σ, mm, cm, trafo, single, hW, hT, hG => by
      have hS := hE.sub
      rw [internal]
      dsimp only
      simp only [WF] at hW
      simp only [NoReservedT] at hT
      have hc : Avoid E (validateCons cons σ.look) :=
        avoid_validateCons hS (Or.inr hcv) (fun x hx => hG.look x (by simp [parameterNames, hx]))
      have hn : Avoid E (σ.eval count) := hG.eval hS (fun x hx => by simp [parameterNames, hx])
      have hm : Avoid E (getMeas meas σ.look mm) :=
        avoid_getMeas hS (fun x hx => hG.look x (by simp [parameterNames, hx]))
      have hGb : Good E (parameterNames body) σ := hG.mono (fun x hx => by simp [parameterNames, hx])
      have hw : Avoid E (wrapSingle body.ident ⟨σ, mm, cm, trafo, single⟩ (internal body)) :=
        wrapSingle_avoid hS (int_avoid hE hcv body σ mm cm trafo single hW hT hGb)
          (int_avoid hE hcv body σ mm cm [] single hW hT hGb)
      avoid_auto
  | .forLoop id body idx start stop step meas cons, σ, mm, cm, trafo, single, hW, hT, hG => by
      have hS := hE.sub
      rw [internal]
      dsimp only
      simp only [WF] at hW
      simp only [NoReservedT] at hT
      have hc : Avoid E (validateCons cons σ.look) :=
        avoid_validateCons hS (Or.inr hcv) (fun x hx => hG.look x (by simp [parameterNames, hx]))
      have h1 : Avoid E (σ.eval start) := hG.eval hS (fun x hx => by simp [parameterNames, hx])
      have h2 : Avoid E (σ.eval stop) := hG.eval hS (fun x hx => by simp [parameterNames, hx])
      have h3 : Avoid E (σ.eval step) := hG.eval hS (fun x hx => by simp [parameterNames, hx])
      have hm : Avoid E (getMeas meas σ.look mm) :=
        avoid_getMeas hS (fun x hx => hG.look x (by simp [parameterNames, hx]))
      have hw : ∀ (i : Int), Avoid E (wrapSingle body.ident ⟨.range σ idx (i : Rat), mm, cm, trafo, single⟩ (internal body)) := by
        intro i
        have hGb : Good E (parameterNames body) (.range σ idx (i : Rat)) :=
          good_range hG (fun x hx hne => by simp [parameterNames, hx, hne])
        exact wrapSingle_avoid hS (int_avoid hE hcv body _ mm cm trafo single hW hT hGb)
          (int_avoid hE hcv body _ mm cm [] single hW hT hGb)
      avoid_auto
      exact hw _
  | .mapping id body pm mm' cm' cons, σ, mm, cm, trafo, single, hW, hT, hG => by
      have hS := hE.sub
      rw [internal]
      dsimp only
      simp only [WF] at hW
      simp only [NoReservedT] at hT
      have hc : Avoid E (validateCons cons σ.look) :=
        avoid_validateCons hS (Or.inr hcv) (fun x hx => hG.look x (by simp [parameterNames, hx]))
      have hGb : Good E (parameterNames body) (.mapped σ pm) :=
        good_mapped hS hG (fun x hx => by simp [parameterNames, hx]) (fun x hx => Or.inl (hW.1 x hx))
      have hw : ∀ mmU cmU, Avoid E (wrapSingle body.ident ⟨.mapped σ pm, mmU, cmU, trafo, single⟩ (internal body)) :=
        fun mmU cmU => wrapSingle_avoid hS (int_avoid hE hcv body _ mmU cmU trafo single hW.2 hT hGb)
          (int_avoid hE hcv body _ mmU cmU [] single hW.2 hT hGb)
      avoid_auto
      exact hw _ _
  | .parallel id body over, σ, mm, cm, trafo, single, hW, hT, hG => by
      have hS := hE.sub
      rw [internal]
      dsimp only
      simp only [WF] at hW
      simp only [NoReservedT] at hT
      have ho : Avoid E (overwrittenValues over σ cm) := avoid_overwrittenValues hS hG cm (fun x hx => by
        have : x ≠ "t" := fun hxt => hT.1 (hxt ▸ hx)
        simp [parameterNames, noT, hx, this])
      have hGb : Good E (parameterNames body) σ := hG.mono (fun x hx => by simp [parameterNames, hx])
      have hw : ∀ T, Avoid E (wrapSingle body.ident ⟨σ, mm, cm, T, single⟩ (internal body)) :=
        fun T => wrapSingle_avoid hS (int_avoid hE hcv body σ mm cm T single hW hT.2 hGb)
          (int_avoid hE hcv body σ mm cm [] single hW hT.2 hGb)
      avoid_auto
      exact hw _
  | .arith id body op scalar ptIsLhs, σ, mm, cm, trafo, single, hW, hT, hG => by
      have hS := hE.sub
      rw [internal]
      dsimp only
      simp only [WF] at hW
      simp only [NoReservedT] at hT
      have ha : Avoid E (arithTransformation body.definedChannels op scalar ptIsLhs σ cm) :=
        avoid_arithTransformation hE hG _ op ptIsLhs cm (fun x hx => by
          have : x ≠ "t" := fun hxt => hT.1 (hxt ▸ hx)
          simp [parameterNames, noT, hx, this])
      have hGb : Good E (parameterNames body) σ := hG.mono (fun x hx => by simp [parameterNames, hx])
      have hw : ∀ T, Avoid E (wrapSingle body.ident ⟨σ, mm, cm, T, single⟩ (internal body)) :=
        fun T => wrapSingle_avoid hS (int_avoid hE hcv body σ mm cm T single hW hT.2 hGb)
          (int_avoid hE hcv body σ mm cm [] single hW hT.2 hGb)
      avoid_auto
      exact hw _
  | .timeReversal id body, σ, mm, cm, trafo, single, hW, hT, hG => by
      have hS := hE.sub
      rw [internal]
      simp only [WF] at hW
      simp only [NoReservedT] at hT
      have hb := int_avoid hE hcv body σ mm cm trafo single hW hT (hG.mono (fun x hx => by simp [parameterNames, hx]))
      avoid_auto
theorem intl_avoid (hE : EClass E) (hcv : ¬ E .constraintViolation) :
    ∀ (ps : List PT) (σ : Scope) (mm : List (MName × Option MName)) (cm : List (Chan × Option Chan)) (trafo : Chain)
      (single : List String), WFList ps → NoReservedTList ps → Good E (parameterNamesList ps) σ →
      Avoid E (internalList ps ⟨σ, mm, cm, trafo, single⟩)
  | [], _, _, _, _, _, _, _, _ => by rw [internalList]; exact avoid_ok _
  | p :: ps, σ, mm, cm, trafo, single, hW, hT, hG => by
      have hS := hE.sub
      rw [internalList]
      simp only [WFList] at hW
      simp only [NoReservedTList] at hT
      have hGp : Good E (parameterNames p) σ := hG.mono (fun x hx => by simp [parameterNamesList, hx])
      have h1 : Avoid E (wrapSingle p.ident ⟨σ, mm, cm, trafo, single⟩ (internal p)) :=
        wrapSingle_avoid hS (int_avoid hE hcv p σ mm cm trafo single hW.1 hT.1 hGp)
          (int_avoid hE hcv p σ mm cm [] single hW.1 hT.1 hGp)
      have h2 := intl_avoid hE hcv ps σ mm cm trafo single hW.2 hT.2 (hG.mono (fun x hx => by simp [parameterNamesList, hx]))
      avoid_auto
end

/-! ### congruence -/

theorem wrapSingle_congr {id : Option String} {σ σ' : Scope} {mm cm trafo single} {k : Ctx → Except Err (List Item)}
    (h : ∀ T, k ⟨σ, mm, cm, T, single⟩ = k ⟨σ', mm, cm, T, single⟩) :
    wrapSingle id ⟨σ, mm, cm, trafo, single⟩ k = wrapSingle id ⟨σ', mm, cm, trafo, single⟩ k := by
  unfold wrapSingle
  dsimp only
  rw [h trafo, h []]

theorem atomItems_congr (pt : PT) (σ σ' : Scope) (mm cm trafo single)
    (hW : WF pt) (hT : NoReservedT pt) (hR : Rel (parameterNames pt) σ σ') :
    atomItems pt ⟨σ, mm, cm, trafo, single⟩ = atomItems pt ⟨σ', mm, cm, trafo, single⟩ := by
  unfold atomItems
  dsimp only
  rw [bw_congr pt σ σ' cm hW hT hR, am_congr pt σ σ' mm hW hT hR]

mutual
theorem int_congr :
    ∀ (pt : PT) (σ σ' : Scope) (mm : List (MName × Option MName)) (cm : List (Chan × Option Chan)) (trafo : Chain)
      (single : List String), WF pt → NoReservedT pt → Rel (parameterNames pt) σ σ' →
      internal pt ⟨σ, mm, cm, trafo, single⟩ = internal pt ⟨σ', mm, cm, trafo, single⟩
  | .const id dur amps meas, σ, σ', mm, cm, trafo, single, hW, hT, hR => by
      rw [internal, internal]; exact atomItems_congr _ σ σ' mm cm trafo single hW hT hR
  | .table id entries meas cons, σ, σ', mm, cm, trafo, single, hW, hT, hR => by
      rw [internal, internal]; exact atomItems_congr _ σ σ' mm cm trafo single hW hT hR
  | .point id chans entries meas cons, σ, σ', mm, cm, trafo, single, hW, hT, hR => by
      rw [internal, internal]; exact atomItems_congr _ σ σ' mm cm trafo single hW hT hR
  | .func id ch dur e meas cons, σ, σ', mm, cm, trafo, single, hW, hT, hR => by
      rw [internal, internal]; exact atomItems_congr _ σ σ' mm cm trafo single hW hT hR
  | .atomicMulti id subs dur meas cons, σ, σ', mm, cm, trafo, single, hW, hT, hR => by
      rw [internal, internal]; exact atomItems_congr _ σ σ' mm cm trafo single hW hT hR
  | .arithAtomic id lhs minus rhs meas, σ, σ', mm, cm, trafo, single, hW, hT, hR => by
      rw [internal, internal]; exact atomItems_congr _ σ σ' mm cm trafo single hW hT hR
  | .seq id subs meas cons, σ, σ', mm, cm, trafo, single, hW, hT, hR => by
      rw [internal, internal]
      dsimp only
      simp only [WF] at hW
      simp only [NoReservedT] at hT
      have hc : validateCons cons σ.look = validateCons cons σ'.look :=
        validateCons_congr (fun x hx => hR.look x (by simp [parameterNames, hx]))
      have hm : getMeas meas σ.look mm = getMeas meas σ'.look mm :=
        getMeas_congr (fun x hx => hR.look x (by simp [parameterNames, hx]))
      rw [hc, hm, intl_congr subs σ σ' mm cm trafo single hW hT (hR.mono (fun x hx => by simp [parameterNames, hx]))]
  | .rep id body count meas cons, σ, σ', mm, cm, trafo, single, hW, hT, hR => by
      rw [internal, internal]
      dsimp only
      simp only [WF] at hW
      simp only [NoReservedT] at hT
      have hc : validateCons cons σ.look = validateCons cons σ'.look :=
        validateCons_congr (fun x hx => hR.look x (by simp [parameterNames, hx]))
      have hn : σ.eval count = σ'.eval count := hR.eval (fun x hx => by simp [parameterNames, hx])
      have hm : getMeas meas σ.look mm = getMeas meas σ'.look mm :=
        getMeas_congr (fun x hx => hR.look x (by simp [parameterNames, hx]))
      have hRb : Rel (parameterNames body) σ σ' := hR.mono (fun x hx => by simp [parameterNames, hx])
      have hw : wrapSingle body.ident ⟨σ, mm, cm, trafo, single⟩ (internal body) =
          wrapSingle body.ident ⟨σ', mm, cm, trafo, single⟩ (internal body) :=
        wrapSingle_congr (fun T => int_congr body σ σ' mm cm T single hW hT hRb)
      rw [hc, hn, hm, hw]
  | .forLoop id body idx start stop step meas cons, σ, σ', mm, cm, trafo, single, hW, hT, hR => by
      rw [internal, internal]
      dsimp only
      simp only [WF] at hW
      simp only [NoReservedT] at hT
      have hc : validateCons cons σ.look = validateCons cons σ'.look :=
        validateCons_congr (fun x hx => hR.look x (by simp [parameterNames, hx]))
      have h1 : σ.eval start = σ'.eval start := hR.eval (fun x hx => by simp [parameterNames, hx])
      have h2 : σ.eval stop = σ'.eval stop := hR.eval (fun x hx => by simp [parameterNames, hx])
      have h3 : σ.eval step = σ'.eval step := hR.eval (fun x hx => by simp [parameterNames, hx])
      have hm : getMeas meas σ.look mm = getMeas meas σ'.look mm :=
        getMeas_congr (fun x hx => hR.look x (by simp [parameterNames, hx]))
      have hw : ∀ (i : Int), wrapSingle body.ident ⟨.range σ idx (i : Rat), mm, cm, trafo, single⟩ (internal body) =
          wrapSingle body.ident ⟨.range σ' idx (i : Rat), mm, cm, trafo, single⟩ (internal body) := by
        intro i
        have hRb : Rel (parameterNames body) (.range σ idx (i : Rat)) (.range σ' idx (i : Rat)) :=
          rel_range hR (fun x hx hne => by simp [parameterNames, hx, hne])
        exact wrapSingle_congr (fun T => int_congr body _ _ mm cm T single hW hT hRb)
      rw [hc, h1, h2, h3, hm]
      congr_auto
      all_goals exact hw _
  | .mapping id body pm mm' cm' cons, σ, σ', mm, cm, trafo, single, hW, hT, hR => by
      rw [internal, internal]
      dsimp only
      simp only [WF] at hW
      simp only [NoReservedT] at hT
      have hc : validateCons cons σ.look = validateCons cons σ'.look :=
        validateCons_congr (fun x hx => hR.look x (by simp [parameterNames, hx]))
      have hRb : Rel (parameterNames body) (.mapped σ pm) (.mapped σ' pm) :=
        rel_mapped hR (fun x hx => by simp [parameterNames, hx]) (fun x hx => Or.inl (hW.1 x hx))
      have hw : ∀ mmU cmU, wrapSingle body.ident ⟨.mapped σ pm, mmU, cmU, trafo, single⟩ (internal body) =
          wrapSingle body.ident ⟨.mapped σ' pm, mmU, cmU, trafo, single⟩ (internal body) :=
        fun mmU cmU => wrapSingle_congr (fun T => int_congr body _ _ mmU cmU T single hW.2 hT hRb)
      rw [hc]
      congr_auto
      all_goals exact hw _ _
  | .parallel id body over, σ, σ', mm, cm, trafo, single, hW, hT, hR => by
      rw [internal, internal]
      dsimp only
      simp only [WF] at hW
      simp only [NoReservedT] at hT
      have ho : overwrittenValues over σ cm = overwrittenValues over σ' cm :=
        overwrittenValues_congr hR cm (fun x hx => by
          have : x ≠ "t" := fun hxt => hT.1 (hxt ▸ hx)
          simp [parameterNames, noT, hx, this])
      have hRb : Rel (parameterNames body) σ σ' := hR.mono (fun x hx => by simp [parameterNames, hx])
      have hw : ∀ T, wrapSingle body.ident ⟨σ, mm, cm, T, single⟩ (internal body) =
          wrapSingle body.ident ⟨σ', mm, cm, T, single⟩ (internal body) :=
        fun T => wrapSingle_congr (fun T' => int_congr body σ σ' mm cm T' single hW hT.2 hRb)
      rw [ho]
      congr_auto
      all_goals exact hw _
  | .arith id body op scalar ptIsLhs, σ, σ', mm, cm, trafo, single, hW, hT, hR => by
      rw [internal, internal]
      dsimp only
      simp only [WF] at hW
      simp only [NoReservedT] at hT
      have ha : arithTransformation body.definedChannels op scalar ptIsLhs σ cm =
          arithTransformation body.definedChannels op scalar ptIsLhs σ' cm :=
        arithTransformation_congr hR _ op ptIsLhs cm (fun x hx => by
          have : x ≠ "t" := fun hxt => hT.1 (hxt ▸ hx)
          simp [parameterNames, noT, hx, this])
      have hRb : Rel (parameterNames body) σ σ' := hR.mono (fun x hx => by simp [parameterNames, hx])
      have hw : ∀ T, wrapSingle body.ident ⟨σ, mm, cm, T, single⟩ (internal body) =
          wrapSingle body.ident ⟨σ', mm, cm, T, single⟩ (internal body) :=
        fun T => wrapSingle_congr (fun T' => int_congr body σ σ' mm cm T' single hW hT.2 hRb)
      rw [ha]
      congr_auto
      all_goals exact hw _
  | .timeReversal id body, σ, σ', mm, cm, trafo, single, hW, hT, hR => by
      rw [internal, internal]
      simp only [WF] at hW
      simp only [NoReservedT] at hT
      rw [int_congr body σ σ' mm cm trafo single hW hT (hR.mono (fun x hx => by simp [parameterNames, hx]))]
theorem intl_congr :
    ∀ (ps : List PT) (σ σ' : Scope) (mm : List (MName × Option MName)) (cm : List (Chan × Option Chan)) (trafo : Chain)
      (single : List String), WFList ps → NoReservedTList ps → Rel (parameterNamesList ps) σ σ' →
      internalList ps ⟨σ, mm, cm, trafo, single⟩ = internalList ps ⟨σ', mm, cm, trafo, single⟩
  | [], _, _, _, _, _, _, _, _, _ => by rw [internalList, internalList]
  | p :: ps, σ, σ', mm, cm, trafo, single, hW, hT, hR => by
      rw [internalList, internalList]
      simp only [WFList] at hW
      simp only [NoReservedTList] at hT
      have hRp : Rel (parameterNames p) σ σ' := hR.mono (fun x hx => by simp [parameterNamesList, hx])
      have h1 : wrapSingle p.ident ⟨σ, mm, cm, trafo, single⟩ (internal p) =
          wrapSingle p.ident ⟨σ', mm, cm, trafo, single⟩ (internal p) :=
        wrapSingle_congr (fun T => int_congr p σ σ' mm cm T single hW.1 hT.1 hRp)
      rw [h1, intl_congr ps σ σ' mm cm trafo single hW.2 hT.2 (hR.mono (fun x hx => by simp [parameterNamesList, hx]))]
end

end QP.C03
