import QP.Model.PT
import QP.Proofs.PTMulti
import QP.Proofs.C05Wf
/-! Dictionaries as association lists: `dictSet`, and the channel-wise merge `ArithmeticWaveform.from_operator`
performs on two constant waveforms. -/
namespace QP.PT

theorem ptHasDup_iff : ∀ l : List String, hasDup l = false ↔ l.Nodup
  | [] => by simp [hasDup]
  | x :: xs => by
      simp only [hasDup, Bool.or_eq_false_iff, List.nodup_cons, ptHasDup_iff xs]
      constructor
      · rintro ⟨h1, h2⟩; exact ⟨by simpa using h1, h2⟩
      · rintro ⟨h1, h2⟩; exact ⟨by simpa using h1, h2⟩

theorem ptLookup_isSome {β : Type} (l : List (String × β)) (c : String) :
    (l.lookup c).isSome = true ↔ c ∈ l.map (·.1) := by
  rw [QP.C05.lookup_isSome_iff]; simp

theorem ptLookup_dictSet (d : List (Chan × Rat)) (k : Chan) (v : Rat) (c : Chan) :
    (dictSet d k v).lookup c = if c = k then some v else d.lookup c := by
  unfold dictSet
  split
  · rename_i hs
    have e : d.map (fun (x : Chan × Rat) => match x with | (c, x) => if c = k then (c, v) else (c, x))
        = d.map (fun (x : Chan × Rat) => (x.1, (fun (a : Chan) (b : Rat) => if a = k then v else b) x.1 x.2)) := by
      apply List.map_congr_left
      intro x _
      obtain ⟨a, b⟩ := x
      by_cases h : a = k <;> simp [h]
    rw [e, lookup_map_snd d (fun (a : Chan) (b : Rat) => if a = k then v else b) c]
    by_cases hc : c = k
    · subst hc
      obtain ⟨w, hw⟩ := Option.isSome_iff_exists.mp hs
      simp [hw]
    · simp only [hc, if_false]
      cases d.lookup c <;> rfl
  · rename_i hs
    rw [lookup_append]
    have hn : d.lookup k = none := by
      cases h : d.lookup k with
      | none => rfl
      | some w => simp [h] at hs
    by_cases hc : c = k
    · subst hc; simp [hn]
    · have : (c == k) = false := by simpa using hc
      simp only [hc, if_false, List.lookup_cons, this, List.lookup_nil]
      cases d.lookup c <;> rfl

theorem ptKeys_dictSet (d : List (Chan × Rat)) (k : Chan) (v : Rat) :
    (dictSet d k v).map (·.1) = if k ∈ d.map (·.1) then d.map (·.1) else d.map (·.1) ++ [k] := by
  unfold dictSet
  by_cases hs : (d.lookup k).isSome = true
  · have hm := (ptLookup_isSome d k).mp hs
    simp only [hs, if_true, hm]
    simp only [List.map_map]
    apply List.map_congr_left
    intro x _
    obtain ⟨a, b⟩ := x
    by_cases h : a = k <;> simp [h]
  · have hm : ¬ k ∈ d.map (·.1) := fun h => hs ((ptLookup_isSome d k).mpr h)
    simp only [hs, hm, if_false]
    simp

/-- the merge of `from_operator` on the constant dictionaries -/
def cvMerge (minus : Bool) (acc r : List (Chan × Rat)) : List (Chan × Rat) :=
  r.foldl (fun d (p : Chan × Rat) => match d.lookup p.1 with
    | some lv => dictSet d p.1 (if minus then lv - p.2 else lv + p.2)
    | none => dictSet d p.1 (if minus then -p.2 else p.2)) acc

def cvCombine (minus : Bool) (a b : Option Rat) : Option Rat :=
  match a, b with
  | some x, some y => some (if minus then x - y else x + y)
  | some x, none => some x
  | none, some y => some (if minus then -y else y)
  | none, none => none

theorem cvMerge_lookup (minus : Bool) : ∀ (r acc : List (Chan × Rat)), (r.map (·.1)).Nodup → ∀ c,
    (cvMerge minus acc r).lookup c = cvCombine minus (acc.lookup c) (r.lookup c) := by
  intro r
  induction r with
  | nil => intro acc _ c; simp only [cvMerge, List.foldl_nil, List.lookup_nil, cvCombine]; cases acc.lookup c <;> rfl
  | cons p rs ih =>
    intro acc hnd c
    obtain ⟨k, v⟩ := p
    simp only [List.map_cons, List.nodup_cons] at hnd
    have hk : rs.lookup k = none := lookup_none_of_not_mem rs k hnd.1
    simp only [cvMerge, List.foldl_cons]
    have ih' := ih (match acc.lookup k with
      | some lv => dictSet acc k (if minus then lv - v else lv + v)
      | none => dictSet acc k (if minus then -v else v)) hnd.2 c
    simp only [cvMerge] at ih'
    rw [ih']
    simp only [List.lookup_cons]
    by_cases hc : c = k
    · subst hc
      simp only [beq_self_eq_true, hk]
      cases ha : acc.lookup c with
      | none => simp [ptLookup_dictSet, cvCombine]
      | some lv => simp [ptLookup_dictSet, cvCombine]
    · have hb : (c == k) = false := by simpa using hc
      simp only [hb]
      cases ha : acc.lookup k with
      | none => simp only [ptLookup_dictSet, hc, if_false]
      | some lv => simp only [ptLookup_dictSet, hc, if_false]

theorem cvMerge_keys (minus : Bool) : ∀ (r acc : List (Chan × Rat)), (r.map (·.1)).Nodup →
    (cvMerge minus acc r).map (·.1) =
      acc.map (·.1) ++ (r.map (·.1)).filter (fun k => !(acc.map (·.1)).contains k) := by
  intro r
  induction r with
  | nil => intro acc _; simp [cvMerge]
  | cons p rs ih =>
    intro acc hnd
    obtain ⟨k, v⟩ := p
    simp only [List.map_cons, List.nodup_cons] at hnd
    simp only [cvMerge, List.foldl_cons]
    have ih' := ih (match acc.lookup k with
      | some lv => dictSet acc k (if minus then lv - v else lv + v)
      | none => dictSet acc k (if minus then -v else v)) hnd.2
    simp only [cvMerge] at ih'
    rw [ih']
    have hkeys : ((match acc.lookup k with
      | some lv => dictSet acc k (if minus then lv - v else lv + v)
      | none => dictSet acc k (if minus then -v else v)) : List (Chan × Rat)).map (·.1)
        = if k ∈ acc.map (·.1) then acc.map (·.1) else acc.map (·.1) ++ [k] := by
      cases acc.lookup k <;> exact ptKeys_dictSet _ _ _
    rw [hkeys]
    simp only [List.map_cons, List.filter_cons]
    by_cases hm : k ∈ acc.map (·.1)
    · have : (acc.map (·.1)).contains k = true := by simpa using hm
      simp [hm, this]
    · have hc : (acc.map (·.1)).contains k = false := by simpa using hm
      simp only [hm, if_false, hc, Bool.not_false, if_true, List.append_assoc, List.singleton_append]
      congr 2
      apply List.filter_congr
      intro x hx
      have hxk : x ≠ k := by
        intro h; subst h; exact hnd.1 hx
      simp [hxk]

end QP.PT
