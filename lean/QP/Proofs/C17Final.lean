import QP.Proofs.C17Main
import QP.Proofs.C17Labels
/-! Assembly of the fragment theorem: from `inFragment` to the VM run of the translated commands. -/
namespace QP.C17.Frag
open QP.C17 QP.C17.VMS QP.C17.Struct

theorem global_of_fragment {res : Rat} {nch : Nat} {prog : List Node}
    (hk : keyInj res (touchesList prog) = true)
    (hs : separated res (touchesList prog) (plainsList prog) = true) :
    Global res nch (touchesList prog) (plainsList prog) := by
  refine ⟨?_, ?_⟩
  · intro ch fs fs' h1 h2 hkey
    simp only [keyInj, List.all_eq_true] at hk
    have := hk (ch, fs) h1 (ch, fs') h2
    simp only [beq_self_eq_true, Bool.true_and, Bool.or_eq_true, Bool.not_eq_true', beq_eq_false_iff_ne,
      beq_iff_eq] at this
    rcases this with h | h
    · exact absurd hkey h
    · exact h
  · intro ch fs h1 hkey hpl
    simp only [separated, List.all_eq_true] at hs
    have := hs (ch, fs) h1
    simp only [hkey, beq_self_eq_true, Bool.true_and, Bool.not_eq_true', List.contains_eq_mem,
      decide_eq_false_iff_not] at this
    exact this hpl

theorem fragment_run {res : Rat} {nch : Nat} {prog : List Node} (h : inFragment res nch prog = true) :
    ∃ cmds, translate res prog = .ok cmds ∧
      ∃ fuel0, ∀ fuel, fuel0 ≤ fuel →
        run fuel nch cmds = .ok (asHistory (unrollStairs prog).1, (unrollStairs prog).2) := by
  simp only [inFragment, Bool.and_eq_true, Bool.not_eq_true'] at h
  obtain ⟨⟨⟨hn, hw⟩, hk⟩, hs⟩ := h
  have glob := global_of_fragment (nch := nch) hk hs
  obtain ⟨s, c', hok, hex⟩ := mainL glob prog (TS.init res) Sweep.init (by simpa [TS.init] using hw) rfl
    (fun _ hp => hp) (fun _ hp => hp) (by intro p _; simp [TS.init])
    ⟨rfl, fun _ => rfl, fun _ _ => rfl, fun _ => rfl⟩ (by simpa [inPF22] using hn)
  refine ⟨flat s, by rw [translate_eq, hok], ?_⟩
  have hl := (trSL_labels prog _ _ _ hok).2.1
  obtain ⟨fuel0, hrun⟩ := run_flat s hl nch
  obtain ⟨V', he, _, hh, ht, _, _⟩ := hex (VM.init nch) [] (by simp [TS.init, Compat])
    (by intro p _ ds hds; simp [TS.init] at hds)
    ⟨by intro ch κ h; simp [TS.init] at h, by intro ch v h; simp [TS.init] at h,
     by intro ch v h; simp [TS.init] at h, by simp [VM.init]⟩
  refine ⟨fuel0, fun fuel hf => ?_⟩
  rw [hrun fuel hf, he]
  simp only [hh, ht, VM.init, List.nil_append, unrollStairs, timed]
  congr 2
  grind

end QP.C17.Frag
