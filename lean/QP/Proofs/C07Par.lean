import QP.Proofs.C07Pres
/-!
# C07: parallel channel templates and atomic multi channel templates (cases of the induction)
-/
namespace QP.C07
open QP.PT


/-- the value a kept channel gets in the dictionary of kept `(channel, value)` pairs -/
theorem kept_dict_lookup {amps : List (Chan × Expr)} (ev : Expr → Except Err Rat)
    (hnd : hasDup (amps.map (·.1)) = false) {cm : List (Chan × Option Chan)} {cvs : List (Chan × Rat)}
    (hcvs : amps.filterMapM (fun (x : Chan × Expr) => do
        let o ← chanLookup cm x.1
        match o with
        | none => pure none
        | some o => do let v ← ev x.2; pure (some (o, v))) = .ok cvs)
    (hinj : ∀ x ∈ amps, ∀ c o, cm.lookup x.1 = some (some o) → cm.lookup c = some (some o) → c ∈ amps.map (·.1) → x.1 = c)
    {c o : Chan} {e : Expr} {v : Rat} (he : amps.lookup c = some e) (hcm : cm.lookup c = some (some o))
    (hv : ev e = .ok v) : (dictOfList cvs).lookup o = some v := by
  have hmem := mem_of_lookup amps c e he
  have hc : c ∈ amps.map (·.1) := List.mem_map.mpr ⟨(c, e), hmem, rfl⟩
  obtain ⟨h1, h2⟩ := filterMapM_kept cm ev amps cvs hcvs
  obtain ⟨v2, hv2, hm2⟩ := h2 (c, e) hmem o hcm
  rw [hv] at hv2; cases hv2
  apply dictOfList_lookup cvs o v _ hm2
  intro y hy hyo
  obtain ⟨x, hx, hxc, hxe⟩ := h1 y hy
  rw [hyo] at hxc
  have hxc' : x.1 = c := hinj x hx c o hxc hcm hc
  have hx' : (c, x.2) ∈ amps := by rw [← hxc']; exact hx
  have := unique_of_not_hasDup amps hnd hx' hmem
  rw [this, hv] at hxe
  cases hxe; rfl

theorem lookup_append' {β} (a b : List (String × β)) (k : String) :
    (a ++ b).lookup k = match a.lookup k with | some v => some v | none => b.lookup k := by
  induction a with
  | nil => rfl
  | cons x rest ih =>
    simp only [List.cons_append, List.lookup]
    cases k == x.1 <;> simp [ih]

theorem lookup_filter_map {β γ} (m : List (String × β)) (p : String → Bool) (g : β → γ) (k : String) :
    ((m.filter (fun x => p x.1)).map (fun x => (x.1, g x.2))).lookup k =
      if p k then (m.lookup k).map g else none := by
  induction m with
  | nil => simp [List.lookup]
  | cons x rest ih =>
    simp only [List.filter_cons]
    by_cases hp : p x.1 = true
    · simp only [hp, if_true, List.map_cons, List.lookup]
      cases hk : k == x.1
      · simp only; exact ih
      · have : k = x.1 := by simpa using hk
        simp [this, hp]
    · simp only [hp, Bool.false_eq_true, if_false, List.lookup]
      cases hk : k == x.1
      · simp only; exact ih
      · have : k = x.1 := by simpa using hk
        rw [ih, this]
        simp [hp]

/-- what a `ParallelChannelTransformation` makes of one channel -/
def ovPick (ov : List (Chan × Rat)) (d : Rat) (k : Chan) (pl : PL) : PL :=
  match ov.lookup k with
  | some v => constPL d v
  | none => pl

theorem applyTrafoPL_parallel' (m : List (Chan × Rat)) (dur : Rat) (chans : List (Chan × PL)) :
    applyTrafoPL (.parallel m) dur chans =
      chans.map (fun x => (x.1, ovPick m dur x.1 x.2)) ++
      (m.filter (fun x => (chans.lookup x.1).isNone)).map (fun x => (x.1, constPL dur x.2)) := by
  rw [applyTrafoPL_parallel]
  congr 1

/-- one channel of a pulse with overwritten channels -/
theorem parallel_pulseVal (ov : List (Chan × Rat)) (d : Rat) (chans : List (Chan × PL)) (o : Chan) :
    ((applyTrafoPL (.parallel ov) d chans).lookup o).getD [] = ovPick ov d o ((chans.lookup o).getD []) := by
  rw [applyTrafoPL_parallel', lookup_append']
  rw [lookup_map_key chans (ovPick ov d) o]
  rw [lookup_filter_map ov (fun k => (chans.lookup k).isNone) (constPL d) o]
  unfold ovPick
  cases hc : chans.lookup o <;> cases ho : ov.lookup o <;> simp

theorem plIntegral_constPL {d : Rat} (h : 0 ≤ d) (v : Rat) : plIntegral (constPL d v) = v * d := by
  unfold constPL
  split
  · simp [plIntegral]; grind
  · have : d = 0 := by grind
    subst this; simp [plIntegral]

theorem plEnd_constPL (e : End) (d v w : Rat) (h : plEnd e (constPL d v) = some w) : w = v := by
  unfold constPL at h
  split at h
  · cases e <;> simp [plEnd, plLast] at h <;> exact h.symm
  · rw [plEnd_nil] at h; cases h

theorem claim_parallel (id body over) (ih : Claim body) (hinv : InvClaim body) (hnd : hasDup (over.map (·.1)) = false) :
    Claim (.parallel id body over) := by
  intro σ mm cm P c o hden hreg hinj hc hcm hkeep
  rw [denote] at hden
  simp only [bind_ok_iff] at hden
  obtain ⟨ov, hov, b, hb, hden⟩ := hden
  rw [regular] at hreg
  have hkeepb : keeps body cm = true := by simpa [keeps] using hkeep
  obtain ⟨i1, _, i3⟩ := hinv σ mm cm b hb hreg
  obtain ⟨o1, _, cs, hcs, hovd⟩ := overwrittenValues_spec hov
  simp only [PT.definedChannels] at hinj hc
  have hmemdc : ∀ x, x ∈ body.definedChannels ∨ x ∈ over.map (·.1) →
      x ∈ dedup (body.definedChannels ++ over.map (·.1)) := fun x hx => (mem_dedup _ _).mpr (List.mem_append.mpr hx)
  -- the denoted pulse on channel `o`
  have hval : pulseVal P o = if b.isEmpty then [] else ovPick ov b.dur o (pulseVal b o) := by
    split at hden
    · rename_i he
      simp only [pure_ok_iff] at hden; subst hden
      simp [he, pulseVal_empty]
    · rename_i he
      simp only [pure_ok_iff] at hden; subst hden
      simp only [he, Bool.false_eq_true, if_false, pulseVal]
      exact parallel_pulseVal ov b.dur b.chans o
  cases hoc : over.lookup c with
  | some e =>
    -- an overwritten channel
    have hovl : ∀ v, σ.eval e = .ok v → ov.lookup o = some v := by
      intro v hv
      rw [hovd]
      refine kept_dict_lookup σ.eval hnd hcs ?_ hoc hcm hv
      intro x hx c' o' h1 h2 hc'
      exact hinj x.1 c' o' (hmemdc _ (Or.inr (List.mem_map.mpr ⟨x, hx, rfl⟩))) (hmemdc _ (Or.inr hc')) h1 h2
    constructor
    · intro r hr
      rw [integralOf] at hr
      simp only [hoc, bind_ok_iff, pure_ok_iff] at hr
      obtain ⟨v, hv, D, hD, rfl⟩ := hr
      have hDb : D = b.dur := i3 hkeepb D hD
      rw [hval]
      split
      · rename_i he
        rw [hDb, i1.empty_dur he]; simp [plIntegral]
      · simp only [ovPick, hovl v hv]
        rw [plIntegral_constPL i1.dur_nonneg, hDb]
    · intro en _ v v' hv hv'
      simp only [endOf, hoc] at hv'
      split at hv'
      · cases hv'
      · rw [hval] at hv
        split at hv
        · rw [plEnd_nil] at hv; cases hv
        · simp only [ovPick, hovl v' hv'] at hv
          exact (plEnd_constPL en _ _ _ hv).symm
  | none =>
    have hcb : c ∈ body.definedChannels := by
      rcases List.mem_append.mp ((mem_dedup _ _).mp hc) with h | h
      · exact h
      · obtain ⟨e, he⟩ := lookup_isSome_of_mem_keys over c h
        rw [he] at hoc; cases hoc
    have hinjb : InjOn cm body.definedChannels := fun c1 c2 o' h1 h2 =>
      hinj c1 c2 o' (hmemdc _ (Or.inl h1)) (hmemdc _ (Or.inl h2))
    have hovn : ov.lookup o = none := by
      cases hl : ov.lookup o with
      | none => rfl
      | some v =>
        obtain ⟨x, hx, hxc⟩ := o1 o v hl
        have : x.1 = c := hinj x.1 c o (hmemdc _ (Or.inr (List.mem_map.mpr ⟨x, hx, rfl⟩))) hc hxc hcm
        obtain ⟨e, he⟩ := lookup_isSome_of_mem_keys over x.1 (List.mem_map.mpr ⟨x, hx, rfl⟩)
        rw [this, hoc] at he; cases he
    have hval' : pulseVal P o = pulseVal b o := by
      rw [hval]
      split
      · rename_i he; rw [pulseVal_of_isEmpty he]
      · simp only [ovPick, hovn]
    rw [hval']
    have ihb := ih σ mm cm b c o hb hreg hinjb hcb hcm hkeepb
    constructor
    · intro r hr
      rw [integralOf] at hr
      simp only [hoc] at hr
      exact ihb.1 r hr
    · intro en htags v v' hv hv'
      rw [pathTags] at htags
      simp only [hoc] at htags
      simp only [endOf, hoc] at hv'
      split at hv'
      · cases hv'
      · exact ihb.2 en htags v v' hv hv'

/-! ### atomic multi channel templates -/

/-- the sub-template whose entry `dict.update` leaves in place: the last one that defines the channel -/
def pickSub : List PT → Chan → Option PT
  | [], _ => none
  | p :: ps, ch =>
      if (PT.allChannels ps).contains ch then pickSub ps ch
      else if p.definedChannels.contains ch then some p else none

theorem integralMulti_pick (σ : Scope) (ch : Chan) : ∀ subs, integralMulti subs σ ch =
    match pickSub subs ch with | some p => integralOf p σ ch | none => .error .keyError
  | [] => rfl
  | p :: ps => by
    simp only [integralMulti, pickSub]
    split
    · exact integralMulti_pick σ ch ps
    · split <;> rfl

theorem endOfMulti_pick (e : End) (σ : Scope) (ch : Chan) : ∀ subs, endOfMulti e subs σ ch =
    match pickSub subs ch with | some p => endOf e p σ ch | none => .error .keyError
  | [] => rfl
  | p :: ps => by
    simp only [endOfMulti, pickSub]
    split
    · exact endOfMulti_pick e σ ch ps
    · split <;> rfl

theorem pathTagsMulti_pick (e : End) (σ : Scope) (mm cm) (ch : Chan) : ∀ subs, pathTagsMulti e subs σ mm cm ch =
    match pickSub subs ch with | some p => pathTags e p σ mm cm ch | none => .ok []
  | [] => rfl
  | p :: ps => by
    simp only [pathTagsMulti, pickSub]
    split
    · exact pathTagsMulti_pick e σ mm cm ch ps
    · split <;> rfl

theorem pickSub_spec {ch : Chan} : ∀ {subs : List PT} {p : PT}, pickSub subs ch = some p → p ∈ subs ∧ ch ∈ p.definedChannels
  | [], p, h => by simp [pickSub] at h
  | x :: xs, p, h => by
    simp only [pickSub] at h
    split at h
    · obtain ⟨h1, h2⟩ := pickSub_spec h
      exact ⟨List.mem_cons_of_mem _ h1, h2⟩
    · split at h
      · rename_i hc
        cases h
        exact ⟨List.mem_cons_self .., by simpa using hc⟩
      · cases h

theorem pickSub_some {ch : Chan} : ∀ {subs : List PT}, ch ∈ PT.allChannels subs → ∃ p, pickSub subs ch = some p
  | [], h => by simp [PT.allChannels] at h
  | x :: xs, h => by
    simp only [pickSub]
    split
    · rename_i hc
      exact pickSub_some (List.contains_iff_mem.mp hc)
    · rename_i hc
      simp only [PT.allChannels, List.mem_append] at h
      rcases h with h | h
      · exact ⟨x, by simp [h]⟩
      · exact absurd (List.contains_iff_mem.mpr h) hc

theorem hasDup_append {a b : List String} (h : hasDup (a ++ b) = false) :
    hasDup b = false ∧ ∀ c ∈ a, c ∉ b := by
  induction a with
  | nil => exact ⟨h, fun c hc => nomatch hc⟩
  | cons x xs ih =>
    simp only [List.cons_append, hasDup, Bool.or_eq_false_iff] at h
    obtain ⟨i1, i2⟩ := ih h.2
    refine ⟨i1, ?_⟩
    intro c hc hcb
    rcases List.mem_cons.mp hc with rfl | hc
    · have : c ∉ xs ++ b := by simpa using h.1
      exact this (List.mem_append.mpr (Or.inr hcb))
    · exact i2 c hc hcb

/-- disjoint channel sets: a channel belongs to one sub-template only -/
theorem sub_unique {c : Chan} : ∀ {subs : List PT}, hasDup (PT.allChannels subs) = false →
    ∀ {p p' : PT}, p ∈ subs → p' ∈ subs → c ∈ p.definedChannels → c ∈ p'.definedChannels → p = p'
  | [], _, p, p', hp, _, _, _ => nomatch hp
  | x :: xs, h, p, p', hp, hp', hc, hc' => by
    simp only [PT.allChannels] at h
    obtain ⟨h1, h2⟩ := hasDup_append h
    have hin : ∀ q ∈ xs, c ∈ q.definedChannels → c ∈ PT.allChannels xs := by
      intro q hq hcq
      clear h h1 h2 hp hp'
      induction xs with
      | nil => cases hq
      | cons y ys ihy =>
        simp only [PT.allChannels, List.mem_append]
        rcases List.mem_cons.mp hq with rfl | hq
        · exact Or.inl hcq
        · exact Or.inr (ihy hq)
    rcases List.mem_cons.mp hp with e1 | hp1
    · rcases List.mem_cons.mp hp' with e2 | hp2
      · rw [e1, e2]
      · rw [e1] at hc
        exact absurd (hin p' hp2 hc') (h2 c hc)
    · rcases List.mem_cons.mp hp' with e2 | hp2
      · rw [e2] at hc'
        exact absurd (hin p hp1 hc) (h2 c hc')
      · exact sub_unique h1 hp1 hp2 hc hc'

theorem mem_allChannels_of {c : Chan} {p : PT} : ∀ {subs : List PT}, p ∈ subs → c ∈ p.definedChannels →
    c ∈ PT.allChannels subs
  | [], h, _ => nomatch h
  | y :: ys, h, hc => by
    simp only [PT.allChannels, List.mem_append]
    rcases List.mem_cons.mp h with rfl | h
    · exact Or.inl hc
    · exact Or.inr (mem_allChannels_of h hc)

theorem claim_atomicMulti (id subs dur meas cons) (ih : ∀ p ∈ subs, Claim p ∧ InvClaim p)
    (hnd : hasDup (PT.allChannels subs) = false) : Claim (.atomicMulti id subs dur meas cons) := by
  intro σ mm cm P c o hden hreg hinj hc hcm hkeep
  simp only [regular, Bool.and_eq_true] at hreg
  obtain ⟨⟨hregs, _⟩, _⟩ := hreg
  simp only [keeps] at hkeep
  simp only [PT.definedChannels] at hinj hc
  have hcall : c ∈ PT.allChannels subs := (mem_dedup _ _).mp hc
  obtain ⟨p, hpick⟩ := pickSub_some hcall
  obtain ⟨hp, hcp⟩ := pickSub_spec hpick
  obtain ⟨parts, hparts, hcases⟩ := denote_atomicMulti hden
  obtain ⟨q, hq, hpq⟩ := denoteList_mem subs parts hparts p hp
  have hin : ∀ p' ∈ subs, ∀ x ∈ p'.definedChannels, x ∈ dedup (PT.allChannels subs) :=
    fun p' hp' x hx => (mem_dedup _ _).mpr (mem_allChannels_of hp' hx)
  have hinjp : InjOn cm p.definedChannels := fun c1 c2 o' h1 h2 => hinj c1 c2 o' (hin p hp c1 h1) (hin p hp c2 h2)
  have ihp := (ih p hp).1 σ mm cm q c o hpq (regularAll_mem hregs p hp) hinjp hcp hcm (keepsAll_mem hkeep p hp)
  -- the channel of the whole pulse is the channel of the part of `p`
  have hval : pulseVal P o = pulseVal q o := by
    rcases hcases with ⟨hnil, rfl⟩ | ⟨p0, rest, ms, hfil, hndm, _, rfl⟩
    · rw [pulseVal_empty]
      have hqe : q.isEmpty = true := by
        cases he : q.isEmpty with
        | true => rfl
        | false =>
          have : q ∈ parts.filter (fun p => !p.isEmpty) := List.mem_filter.mpr ⟨hq, by simp [he]⟩
          rw [hnil] at this; cases this
      rw [pulseVal_of_isEmpty hqe]
    · cases hql : q.chans.lookup o with
      | some pl =>
        have hqne : q.isEmpty = false := isEmpty_false_of_mem (mem_keys_of_lookup q.chans o pl hql)
        have hqf : q ∈ p0 :: rest := by rw [← hfil]; exact List.mem_filter.mpr ⟨hq, by simp [hqne]⟩
        have hmem : (o, pl) ∈ mergeChans (p0 :: rest) := by
          simp only [mergeChans, List.mem_flatMap]
          exact ⟨q, hqf, mem_of_lookup q.chans o pl hql⟩
        simp only [pulseVal, hql]
        rw [lookup_of_mem_nodup _ hndm hmem]
      | none =>
        simp only [pulseVal, hql]
        cases hPl : (mergeChans (p0 :: rest)).lookup o with
        | none => rfl
        | some pl' =>
          exfalso
          have hm := mem_of_lookup _ o pl' hPl
          simp only [mergeChans, List.mem_flatMap] at hm
          obtain ⟨q', hq', hoq'⟩ := hm
          have hq'p : q' ∈ parts := (List.mem_filter.mp (by rw [hfil]; exact hq')).1
          obtain ⟨p', hp', hp'q⟩ := denoteList_mem_rev subs parts hparts q' hq'p
          obtain ⟨_, hch, _⟩ := (ih p' hp').2 σ mm cm q' hp'q (regularAll_mem hregs p' hp')
          obtain ⟨c', hc', hl'⟩ := hch o (List.mem_map.mpr ⟨(o, pl'), hoq', rfl⟩)
          have hcc : c' = c := hinj c' c o (hin p' hp' c' hc') hc hl' hcm
          subst hcc
          have hpp : p' = p := sub_unique hnd hp' hp hc' hcp
          subst hpp
          rw [hp'q] at hpq; cases hpq
          obtain ⟨v, hv⟩ := lookup_isSome_of_mem_keys q.chans o (List.mem_map.mpr ⟨(o, pl'), hoq', rfl⟩)
          rw [hv] at hql; cases hql
  rw [hval]
  constructor
  · intro r hr
    rw [integralOf, integralMulti_pick, hpick] at hr
    exact ihp.1 r hr
  · intro e htags v v' hv hv'
    rw [pathTags, pathTagsMulti_pick, hpick] at htags
    simp only [endOf] at hv'
    split at hv'
    · cases hv'
    · rw [endOfMulti_pick, hpick] at hv'
      exact ihp.2 e htags v v' hv hv'


end QP.C07
