import QP.Proofs.C07Point
/-!
# C07: invariants of denoted pulses

Every pulse `QP.PT.denote` produces has a non-negative duration, duration 0 if it is empty, and on every channel pieces
of positive length that add up to the duration (`PulseInv`); `InvClaim` adds that its channels are images of defined
channels and that the template's duration expression evaluates to the duration of the pulse (when every atomic leaf
keeps a channel).  Here: the definitions and the lemmas about segment lists and sequencing.
-/
namespace QP.C07
open QP.PT


/-- every piece has positive length -/
def plPos (pl : PL) : Prop := ∀ s ∈ pl, 0 < s.len

/-- what every denoted pulse satisfies: an empty pulse has duration 0, durations are not negative, every channel
consists of pieces of positive length that add up to the duration of the pulse -/
structure PulseInv (P : Pulse) : Prop where
  empty_dur : P.isEmpty = true → P.dur = 0
  dur_nonneg : 0 ≤ P.dur
  seg : ∀ x ∈ P.chans, plPos x.2 ∧ PL.dur x.2 = P.dur

theorem pulseInv_empty : PulseInv Pulse.empty :=
  ⟨fun _ => rfl, Rat.le_refl, fun x hx => nomatch hx⟩

theorem PL_dur_append (p q : PL) : PL.dur (p ++ q) = PL.dur p + PL.dur q := by
  induction p with
  | nil => simp [PL.dur, Rat.zero_add]
  | cons s r ih => simp only [List.cons_append, PL.dur, ih]; grind

theorem plPos_append {p q : PL} (hp : plPos p) (hq : plPos q) : plPos (p ++ q) := by
  intro s hs
  rcases List.mem_append.mp hs with h | h
  · exact hp s h
  · exact hq s h

theorem plPos_nil : plPos [] := fun s hs => nomatch hs

theorem PL_dur_nonneg {p : PL} (hp : plPos p) : 0 ≤ PL.dur p := by
  induction p with
  | nil => exact Rat.le_refl
  | cons s r ih =>
    have h1 := hp s (List.mem_cons_self ..)
    have h2 := ih (fun x hx => hp x (List.mem_cons_of_mem _ hx))
    simp only [PL.dur]; grind

theorem PL_dur_replicate (n : Nat) (p : PL) : PL.dur (PL.replicate n p) = (n : Rat) * PL.dur p := by
  induction n with
  | zero => simp [PL_replicate_zero, PL.dur]
  | succ n ih =>
    rw [PL_replicate_succ, PL_dur_append, ih]
    have : ((n + 1 : Nat) : Rat) = (n : Rat) + 1 := by simp
    rw [this]; grind

theorem plPos_replicate (n : Nat) {p : PL} (hp : plPos p) : plPos (PL.replicate n p) := by
  induction n with
  | zero => rw [PL_replicate_zero]; exact plPos_nil
  | succ n ih => rw [PL_replicate_succ]; exact plPos_append hp ih

theorem PL_dur_mapV (f : Rat → Rat) (p : PL) : PL.dur (p.mapV f) = PL.dur p := by
  induction p with
  | nil => rfl
  | cons s r ih =>
    have : PL.mapV f (s :: r) = { s with v0 := f s.v0, v1 := f s.v1 } :: PL.mapV f r := rfl
    rw [this]; simp only [PL.dur, ih]

theorem plPos_mapV (f : Rat → Rat) {p : PL} (hp : plPos p) : plPos (p.mapV f) := by
  intro s hs
  simp only [PL.mapV, List.mem_map] at hs
  obtain ⟨s', hs', rfl⟩ := hs
  exact hp s' hs'

theorem PL_dur_reverse (p : PL) : PL.dur p.reverse = PL.dur p := by
  induction p with
  | nil => rfl
  | cons s r ih => rw [List.reverse_cons, PL_dur_append, ih]; simp [PL.dur]; grind

theorem PL_dur_map_len (p : PL) (g : Seg → Seg) (hg : ∀ s, (g s).len = s.len) : PL.dur (p.map g) = PL.dur p := by
  induction p with
  | nil => rfl
  | cons s r ih => simp only [List.map_cons, PL.dur, ih, hg]

theorem PL_dur_reversed (p : PL) : PL.dur p.reversed = PL.dur p := by
  unfold PL.reversed
  have h := PL_dur_map_len p.reverse (fun s => { s with v0 := s.v1, v1 := s.v0 }) (fun _ => rfl)
  rw [PL_dur_reverse] at h
  generalize p.reverse.map (fun s => { s with v0 := s.v1, v1 := s.v0 }) = q at h
  cases q with
  | nil => simpa using h
  | cons s rest =>
    simp only
    rw [← h]
    simp only [PL.dur]
    rw [PL_dur_map_len rest (fun r => { r with amb := true }) (fun _ => rfl)]

theorem plPos_reversed {p : PL} (hp : plPos p) : plPos p.reversed := by
  unfold PL.reversed
  have h : plPos (p.reverse.map (fun s => { s with v0 := s.v1, v1 := s.v0 })) := by
    intro s hs
    simp only [List.mem_map, List.mem_reverse] at hs
    obtain ⟨s', hs', rfl⟩ := hs
    exact hp s' hs'
  generalize p.reverse.map (fun s => { s with v0 := s.v1, v1 := s.v0 }) = q at h
  cases q with
  | nil => exact plPos_nil
  | cons s rest =>
    intro x hx
    simp only [List.mem_cons, List.mem_map] at hx
    rcases hx with rfl | ⟨y, hy, rfl⟩
    · exact h s (List.mem_cons_self ..)
    · exact h y (List.mem_cons_of_mem _ hy)

theorem plPos_entriesToPL : ∀ (ws : List WEntry), plPos (entriesToPL ws)
  | [] => plPos_nil
  | [_] => plPos_nil
  | e1 :: e2 :: rest => by
    rw [entriesToPL]
    apply plPos_append _ (plPos_entriesToPL (e2 :: rest))
    intro s hs
    split at hs
    · rename_i hlt
      simp only [List.mem_singleton] at hs
      subst hs
      cases e2.interp <;> simp <;> grind
    · cases hs

theorem PL_dur_entriesToPL : ∀ (ws : List WEntry), sortedTimes ws = true →
    PL.dur (entriesToPL ws) = lastT ws - (match ws with | w :: _ => w.t | [] => 0)
  | [], _ => by simp [entriesToPL, PL.dur, lastT]; grind
  | [w], _ => by simp [entriesToPL, PL.dur, lastT]; grind
  | e1 :: e2 :: rest, h => by
    simp only [sortedTimes, Bool.and_eq_true, decide_eq_true_eq] at h
    have ih := PL_dur_entriesToPL (e2 :: rest) h.2
    have hl : lastT (e1 :: e2 :: rest) = lastT (e2 :: rest) := rfl
    rw [entriesToPL, PL_dur_append, ih, hl]
    simp only
    by_cases hlt : e1.t < e2.t
    · simp only [hlt, if_true]
      cases e2.interp <;> simp [PL.dur] <;> grind
    · simp only [hlt, if_false, PL.dur]
      have : e1.t = e2.t := by grind
      grind
theorem zipWith_inv (f : Rat → Rat → Rat) : ∀ (a b : PL), plPos a → plPos b → PL.dur a = PL.dur b →
    plPos (PL.zipWith f a b) ∧ PL.dur (PL.zipWith f a b) = PL.dur a := by
  intro a b
  fun_induction PL.zipWith f a b with
  | case1 b => intro _ _ _; exact ⟨plPos_nil, rfl⟩
  | case2 a hne =>
    intro ha _ hd
    refine ⟨plPos_nil, ?_⟩
    cases a with
    | nil => rfl
    | cons s r =>
      have h1 := ha s (List.mem_cons_self ..)
      have h2 := PL_dur_nonneg (fun x hx => ha x (List.mem_cons_of_mem _ hx) : plPos r)
      simp only [PL.dur] at hd ⊢
      grind
  | case3 a as b bs heq ih =>
    intro ha hb hd
    have ha' : plPos as := fun x hx => ha x (List.mem_cons_of_mem _ hx)
    have hb' : plPos bs := fun x hx => hb x (List.mem_cons_of_mem _ hx)
    simp only [PL.dur] at hd
    obtain ⟨i1, i2⟩ := ih ha' hb' (by grind)
    refine ⟨?_, ?_⟩
    · intro s hs
      rcases List.mem_cons.mp hs with rfl | hs
      · exact ha a (List.mem_cons_self ..)
      · exact i1 s hs
    · simp only [PL.dur, i2]
  | case4 a as b bs hne hlt bm ih =>
    intro ha hb hd
    have ha' : plPos as := fun x hx => ha x (List.mem_cons_of_mem _ hx)
    have hb' : plPos ({ len := b.len - a.len, v0 := bm, v1 := b.v1, amb := false } :: bs) := by
      intro x hx
      rcases List.mem_cons.mp hx with rfl | hx
      · simp only; grind
      · exact hb x (List.mem_cons_of_mem _ hx)
    simp only [PL.dur] at hd
    obtain ⟨i1, i2⟩ := ih ha' hb' (by simp only [PL.dur]; grind)
    refine ⟨?_, ?_⟩
    · intro s hs
      rcases List.mem_cons.mp hs with rfl | hs
      · exact ha a (List.mem_cons_self ..)
      · exact i1 s hs
    · simp only [PL.dur, i2]
  | case5 a as b bs hne hnlt am ih =>
    intro ha hb hd
    have hb' : plPos bs := fun x hx => hb x (List.mem_cons_of_mem _ hx)
    have ha' : plPos ({ len := a.len - b.len, v0 := am, v1 := a.v1, amb := false } :: as) := by
      intro x hx
      rcases List.mem_cons.mp hx with rfl | hx
      · simp only; grind
      · exact ha x (List.mem_cons_of_mem _ hx)
    simp only [PL.dur] at hd
    obtain ⟨i1, i2⟩ := ih ha' hb' (by simp only [PL.dur]; grind)
    refine ⟨?_, ?_⟩
    · intro s hs
      rcases List.mem_cons.mp hs with rfl | hs
      · exact hb b (List.mem_cons_self ..)
      · exact i1 s hs
    · simp only [PL.dur, i2]; grind

/-! ### pulses -/

theorem isEmpty_iff (p : Pulse) : p.isEmpty = true ↔ p.chans = [] := by
  unfold Pulse.isEmpty; simp

theorem append_inv {p q r : Pulse} (hp : PulseInv p) (hq : PulseInv q) (h : p.append q = .ok r) :
    PulseInv r ∧ r.dur = p.dur + q.dur ∧ (∀ o ∈ r.chanNames, o ∈ p.chanNames ∨ o ∈ q.chanNames) := by
  unfold Pulse.append at h
  split at h
  · rename_i he
    cases h
    refine ⟨hq, by rw [hp.empty_dur he]; grind, fun o ho => Or.inr ho⟩
  · split at h
    · rename_i he
      cases h
      refine ⟨hp, by rw [hq.empty_dur he]; grind, fun o ho => Or.inl ho⟩
    · split at h
      · cases h
      · rename_i hpe hqe hs
        cases h
        have hs' : sameSet p.chanNames q.chanNames = true := by simpa using hs
        refine ⟨⟨?_, ?_, ?_⟩, rfl, ?_⟩
        · intro he
          rw [isEmpty_iff] at he hpe
          simp only [List.map_eq_nil_iff] at he
          exact absurd he hpe
        · have := hp.dur_nonneg; have := hq.dur_nonneg; simp only; grind
        · intro x hx
          simp only [List.mem_map] at hx
          obtain ⟨y, hy, rfl⟩ := hx
          obtain ⟨h1, h2⟩ := hp.seg y hy
          have hmem : y.1 ∈ q.chanNames := (sameSet_mem hs' y.1).mp (List.mem_map.mpr ⟨y, hy, rfl⟩)
          obtain ⟨ql, hql⟩ := lookup_isSome_of_mem_keys q.chans y.1 hmem
          obtain ⟨h3, h4⟩ := hq.seg (y.1, ql) (mem_of_lookup q.chans y.1 ql hql)
          simp only [hql, Option.getD_some]
          exact ⟨plPos_append h1 h3, by rw [PL_dur_append, h2, h4]⟩
        · intro o ho
          left
          simp only [Pulse.chanNames, List.map_map] at ho ⊢
          exact ho

theorem appendAll_inv : ∀ (ps : List Pulse) (r : Pulse), (∀ p ∈ ps, PulseInv p) → Pulse.appendAll ps = .ok r →
    PulseInv r ∧ r.dur = (ps.map (·.dur)).sum ∧ (∀ o ∈ r.chanNames, ∃ p ∈ ps, o ∈ p.chanNames)
  | [], r, _, h => by
    simp only [Pulse.appendAll] at h; cases h
    exact ⟨pulseInv_empty, rfl, fun o ho => nomatch ho⟩
  | p :: ps, r, hall, h => by
    simp only [Pulse.appendAll, bind_ok_iff] at h
    obtain ⟨r', hr', happ⟩ := h
    obtain ⟨i1, i2, i3⟩ := appendAll_inv ps r' (fun q hq => hall q (List.mem_cons_of_mem _ hq)) hr'
    obtain ⟨j1, j2, j3⟩ := append_inv (hall p (List.mem_cons_self ..)) i1 happ
    refine ⟨j1, by rw [j2, i2]; simp, ?_⟩
    intro o ho
    rcases j3 o ho with h | h
    · exact ⟨p, List.mem_cons_self .., h⟩
    · obtain ⟨q, hq, hoq⟩ := i3 o h
      exact ⟨q, List.mem_cons_of_mem _ hq, hoq⟩

theorem pulseInv_withOwn {p : Pulse} (hp : PulseInv p) (ms : List Window) : PulseInv (p.withOwn ms) := by
  unfold Pulse.withOwn; split
  · exact hp
  · exact ⟨hp.empty_dur, hp.dur_nonneg, hp.seg⟩

theorem withOwn_dur (p : Pulse) (ms : List Window) : (p.withOwn ms).dur = p.dur := by
  unfold Pulse.withOwn; split <;> rfl

theorem withOwn_chanNames (p : Pulse) (ms : List Window) : (p.withOwn ms).chanNames = p.chanNames := by
  unfold Pulse.withOwn; split <;> rfl

/-- the three invariants of one template -/
def InvClaim (pt : PT) : Prop :=
  ∀ σ mm cm P, denote pt σ mm cm = .ok P → regular pt σ = true →
    PulseInv P ∧ (∀ o ∈ P.chanNames, ∃ c ∈ pt.definedChannels, cm.lookup c = some (some o)) ∧
    (keeps pt cm = true → ∀ D, templateDuration pt σ = .ok D → D = P.dur)


end QP.C07
