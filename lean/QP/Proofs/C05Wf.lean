import QP.Model.C05
/-!
# C05 helper lemmas, waveform level

* dictionaries (`List.lookup`), `Trafo.apply` / `Chain.apply` against the channel-wise `chanF`
* `Wf.pv` (presence + value of one channel), `.trafo` waveforms
* the smart constructors `constFromMapping`, `fromTransformation`, `fromRepetitionCount`, `fromSequence`
-/
namespace QP.C05
open QP.PT

/-! ## dictionaries -/

theorem lookup_map_val {α β γ} [BEq α] [LawfulBEq α] (l : List (α × β)) (f : α → β → γ) (c : α) :
    (l.map (fun (p : α × β) => (p.1, f p.1 p.2))).lookup c = (l.lookup c).map (f c) := by
  induction l with
  | nil => simp
  | cons x xs ih =>
    obtain ⟨a, b⟩ := x
    simp only [List.map_cons, List.lookup_cons]
    by_cases h : c == a
    · have : c = a := by simpa using h
      subst this
      simp
    · simp [h, ih]

theorem lookup_isSome_iff {α β} [BEq α] [LawfulBEq α] (l : List (α × β)) (c : α) :
    (l.lookup c).isSome = (l.map (·.1)).contains c := by
  induction l with
  | nil => simp
  | cons x xs ih =>
    obtain ⟨a, b⟩ := x
    simp only [List.lookup_cons, List.map_cons, List.contains_cons]
    by_cases h : c == a
    · simp [h]
    · simp [h, ih]

theorem lookup_append' {α β} [BEq α] (l₁ l₂ : List (α × β)) (c : α) :
    (l₁ ++ l₂).lookup c = match l₁.lookup c with
      | some v => some v
      | none => l₂.lookup c := by
  induction l₁ with
  | nil => simp
  | cons x xs ih =>
    obtain ⟨a, b⟩ := x
    simp only [List.cons_append, List.lookup_cons]
    by_cases h : c == a
    · simp [h]
    · simp [h, ih]

theorem lookup_filter_key {α β} [BEq α] [LawfulBEq α] (l : List (α × β)) (p : α → Bool) (c : α) :
    (l.filter (fun x => p x.1)).lookup c = if p c then l.lookup c else none := by
  induction l with
  | nil => simp
  | cons x xs ih =>
    obtain ⟨a, b⟩ := x
    by_cases hp : p a
    · simp only [List.filter_cons, hp, if_true, List.lookup_cons]
      by_cases h : c == a
      · have : c = a := by simpa using h
        subst this
        simp [hp]
      · simp [h, ih]
    · simp only [List.filter_cons, hp, List.lookup_cons]
      by_cases h : c == a
      · have : c = a := by simpa using h
        subst this
        simp [hp, ih]
      · simp [h, ih]

/-! ## transformations, channel by channel -/

/-- presence of a channel after a transformation -/
def Trafo.presF (T : Trafo) (c : Chan) (b : Bool) : Bool :=
  match T with
  | .parallel m => b || (m.lookup c).isSome
  | _ => b

def Chain.presF (T : Chain) (c : Chan) (b : Bool) : Bool := T.foldl (fun y t => Trafo.presF t c y) b

theorem Trafo.chanF_isSome (T : Trafo) (c : Chan) (x : Option (Option Rat)) :
    (Trafo.chanF T c x).isSome = Trafo.presF T c x.isSome := by
  cases T with
  | offset m => simp only [Trafo.chanF, Trafo.presF]; split <;> simp
  | scaling m => simp only [Trafo.chanF, Trafo.presF]; split <;> simp
  | parallel m =>
    simp only [Trafo.chanF, Trafo.presF]
    split
    · rename_i o h; simp [h]
    · rename_i h; simp [h]

theorem Chain.chanF_isSome (T : Chain) (c : Chan) (x : Option (Option Rat)) :
    (Chain.chanF T c x).isSome = Chain.presF T c x.isSome := by
  induction T generalizing x with
  | nil => rfl
  | cons t ts ih =>
    simp only [Chain.chanF, Chain.presF, List.foldl_cons]
    have := ih (Trafo.chanF t c x)
    simp only [Chain.chanF, Chain.presF] at this
    rw [this, Trafo.chanF_isSome]

theorem Chain.chanF_append (T₁ T₂ : Chain) (c : Chan) (x : Option (Option Rat)) :
    Chain.chanF (T₁ ++ T₂) c x = Chain.chanF T₂ c (Chain.chanF T₁ c x) := by
  simp [Chain.chanF, List.foldl_append]

theorem Chain.chanF_nil (c : Chan) (x : Option (Option Rat)) : Chain.chanF [] c x = x := rfl

theorem lookup_offset (m : List (Chan × Rat)) (data : List (Chan × Option Rat)) (c : Chan) :
    ((Trafo.offset m).apply data).lookup c = Trafo.chanF (.offset m) c (data.lookup c) := by
  induction data with
  | nil => simp only [Trafo.apply, Trafo.chanF, List.map_nil, List.lookup_nil]; split <;> rfl
  | cons x xs ih =>
    obtain ⟨a, b⟩ := x
    simp only [Trafo.apply, Trafo.chanF, List.map_cons, List.lookup_cons] at ih ⊢
    by_cases h : c == a
    · have hc : c = a := by simpa using h
      subst hc
      cases hm : m.lookup c <;> simp
    · cases hm : m.lookup a <;> simp [List.lookup_cons, h, ih]

theorem lookup_scaling (m : List (Chan × Rat)) (data : List (Chan × Option Rat)) (c : Chan) :
    ((Trafo.scaling m).apply data).lookup c = Trafo.chanF (.scaling m) c (data.lookup c) := by
  induction data with
  | nil => simp only [Trafo.apply, Trafo.chanF, List.map_nil, List.lookup_nil]; split <;> rfl
  | cons x xs ih =>
    obtain ⟨a, b⟩ := x
    simp only [Trafo.apply, Trafo.chanF, List.map_cons, List.lookup_cons] at ih ⊢
    by_cases h : c == a
    · have hc : c = a := by simpa using h
      subst hc
      cases hm : m.lookup c <;> simp
    · cases hm : m.lookup a <;> simp [List.lookup_cons, h, ih]

theorem lookup_map_gen {β γ} (data : List (Chan × β)) (f : Chan × β → Chan × γ) (g : Chan → β → γ)
    (hf : ∀ x, f x = (x.1, g x.1 x.2)) (c : Chan) :
    (data.map f).lookup c = (data.lookup c).map (g c) := by
  have : f = fun p => (p.1, g p.1 p.2) := funext hf
  rw [this, lookup_map_val]

theorem lookup_filter_gen {β} (m : List (Chan × β)) (p' : Chan × β → Bool) (p : Chan → Bool)
    (hp : ∀ x, p' x = p x.1) (c : Chan) :
    (m.filter p').lookup c = if p c then m.lookup c else none := by
  have : p' = fun x => p x.1 := funext hp
  rw [this, lookup_filter_key]

theorem lookup_parallel (m : List (Chan × Rat)) (data : List (Chan × Option Rat)) (c : Chan) :
    ((Trafo.parallel m).apply data).lookup c = Trafo.chanF (.parallel m) c (data.lookup c) := by
  simp only [Trafo.apply, Trafo.chanF]
  rw [lookup_append',
    lookup_map_gen data _ (fun c v => match m.lookup c with | some o => some o | none => v)
      (by intro x; cases h : List.lookup x.1 m <;> simp only [h]) c,
    lookup_map_gen _ _ (fun _ o => some o) (by intro x; rfl) c,
    lookup_filter_gen m _ (fun c => (List.lookup c data).isNone) (by intro x; rfl) c]
  cases hd : data.lookup c with
  | none => cases hm : m.lookup c <;> simp
  | some v => cases hm : m.lookup c <;> simp

/-- `Transformation.__call__` on a dictionary is the channel-wise function -/
theorem Trafo.lookup_apply (T : Trafo) (data : List (Chan × Option Rat)) (c : Chan) :
    (T.apply data).lookup c = Trafo.chanF T c (data.lookup c) := by
  cases T with
  | offset m => exact lookup_offset m data c
  | scaling m => exact lookup_scaling m data c
  | parallel m => exact lookup_parallel m data c

theorem Chain.lookup_apply (T : Chain) (data : List (Chan × Option Rat)) (c : Chan) :
    (Chain.apply T data).lookup c = Chain.chanF T c (data.lookup c) := by
  induction T generalizing data with
  | nil => rfl
  | cons t ts ih =>
    simp only [Chain.apply, Chain.chanF, List.foldl_cons]
    have := ih (t.apply data)
    simp only [Chain.apply, Chain.chanF] at this
    rw [this, Trafo.lookup_apply]

theorem Trafo.outChans_contains (T : Trafo) (cs : List Chan) (c : Chan) :
    (T.outChans cs).contains c = Trafo.presF T c (cs.contains c) := by
  cases T with
  | offset m => rfl
  | scaling m => rfl
  | parallel m =>
    simp only [Trafo.outChans, Trafo.presF, List.contains_append, lookup_isSome_iff]
    by_cases h : cs.contains c
    · have hc : c ∈ cs := by simpa using h
      simp [hc]
    · simp only [h, Bool.false_or]
      rw [Bool.eq_iff_iff]
      simp only [List.contains_iff_mem, List.mem_filter, List.mem_map]
      constructor
      · rintro ⟨h1, _⟩; exact h1
      · intro h1
        refine ⟨h1, ?_⟩
        simpa using h

theorem Chain.outChans_contains (T : Chain) (cs : List Chan) (c : Chan) :
    (Chain.outChans T cs).contains c = Chain.presF T c (cs.contains c) := by
  induction T generalizing cs with
  | nil => rfl
  | cons t ts ih =>
    simp only [Chain.outChans, Chain.presF, List.foldl_cons]
    have := ih (t.outChans cs)
    simp only [Chain.outChans, Chain.presF] at this
    rw [this, Trafo.outChans_contains]

/-! ## presence and value of one channel of a waveform -/

/-- `none`: the waveform does not define `c`; `some v`: it does and samples `v` (`none` = NaN) at `t` -/
def pv (w : Wf) (c : Chan) (t : Rat) : Option (Option Rat) :=
  if w.channels.contains c then some (w.sample c t) else none

theorem pv_isSome (w : Wf) (c : Chan) (t : Rat) : (pv w c t).isSome = w.channels.contains c := by
  unfold pv; split <;> simp_all

theorem sampleAll_lookup (w : Wf) (cs : List Chan) (t : Rat) (c : Chan) :
    (Wf.sampleAll w cs t).lookup c = if cs.contains c then some (w.sample c t) else none := by
  induction cs with
  | nil => simp [Wf.sampleAll]
  | cons a as ih =>
    simp only [Wf.sampleAll, List.lookup_cons, List.contains_cons]
    by_cases h : c == a
    · have : c = a := by simpa using h
      subst this
      simp
    · simp [h, ih]

theorem opt_eq_of_isSome_join {α} (x : Option (Option α)) :
    x = if x.isSome then some x.join else none := by
  cases x with
  | none => rfl
  | some y => simp

/-- a `TransformingWaveform` applies the chain channel by channel -/
theorem pv_trafo (w : Wf) (T : Chain) (c : Chan) (t : Rat) :
    pv (.trafo w T) c t = Chain.chanF T c (pv w c t) := by
  have hs : (Wf.trafo w T).sample c t = (Chain.chanF T c (pv w c t)).join := by
    rw [Wf.sample]
    rw [Chain.lookup_apply, sampleAll_lookup]
    unfold pv
    cases Chain.chanF T c (if w.channels.contains c then some (w.sample c t) else none) with
    | none => rfl
    | some v => rfl
  have hc : (Wf.trafo w T).channels.contains c = (Chain.chanF T c (pv w c t)).isSome := by
    rw [Chain.chanF_isSome, pv_isSome]
    simp only [Wf.channels]
    exact Chain.outChans_contains T w.channels c
  show (if (Wf.trafo w T).channels.contains c then some ((Wf.trafo w T).sample c t) else none) = _
  rw [hc, hs]
  exact (opt_eq_of_isSome_join _).symm

theorem duration_trafo (w : Wf) (T : Chain) : (Wf.trafo w T).duration = w.duration := by
  simp [Wf.duration]

end QP.C05
