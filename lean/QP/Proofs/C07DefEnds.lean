import QP.Proofs.C07Def
/-!
# C07: definedness of `initial_values` / `final_values` under `positive`, where the class provides them
-/
namespace QP.C07
open QP.PT

def EndDefClaim (e : End) (pt : PT) : Prop :=
  ∀ σ mm cm P, denote pt σ mm cm = .ok P → regular pt σ = true → positive pt σ = true → keeps pt cm = true →
    provides e pt = true → InjOn cm pt.definedChannels → ∀ c o, c ∈ pt.definedChannels → cm.lookup c = some (some o) →
      ∃ v, endOf e pt σ c = .ok v

/-- an expression affine in `t` that evaluates at one time evaluates at every time -/
theorem eval_affine_ok (g : String → Except Err Rat) (t t' : Rat) :
    ∀ e : Expr, e.affineIn "t" = true → ∀ v, e.eval (envT g t) = .ok v → ∃ v', e.eval (envT g t') = .ok v' := by
  intro e
  have free : ∀ e : Expr, e.freeOf "t" = true → ∀ v, e.eval (envT g t) = .ok v → ∃ v', e.eval (envT g t') = .ok v' := by
    intro e h v hv
    exact ⟨v, by rw [eval_freeOf g t' t e h]; exact hv⟩
  induction e with
  | lit q => intro _ v hv; exact ⟨v, hv⟩
  | var y =>
    intro _ v hv
    simp only [Expr.eval, envT] at hv ⊢
    by_cases hy : y = "t"
    · simp only [hy, if_true]; exact ⟨_, rfl⟩
    · simp only [hy, if_false] at hv ⊢; exact ⟨v, hv⟩
  | add a b iha ihb =>
    intro h v hv
    simp only [Expr.affineIn, Bool.and_eq_true] at h
    simp only [Expr.eval, bind_ok_iff, pure_ok_iff] at hv ⊢
    obtain ⟨a0, ha0, b0, hb0, rfl⟩ := hv
    obtain ⟨a1, ha1⟩ := iha h.1 a0 ha0
    obtain ⟨b1, hb1⟩ := ihb h.2 b0 hb0
    exact ⟨_, a1, ha1, b1, hb1, rfl⟩
  | mul a b iha ihb =>
    intro h v hv
    simp only [Expr.affineIn, Bool.or_eq_true, Bool.and_eq_true] at h
    simp only [Expr.eval, bind_ok_iff, pure_ok_iff] at hv ⊢
    obtain ⟨a0, ha0, b0, hb0, rfl⟩ := hv
    rcases h with ⟨hf, hb⟩ | ⟨ha, hf⟩
    · obtain ⟨a1, ha1⟩ := free a hf a0 ha0
      obtain ⟨b1, hb1⟩ := ihb hb b0 hb0
      exact ⟨_, a1, ha1, b1, hb1, rfl⟩
    · obtain ⟨a1, ha1⟩ := iha ha a0 ha0
      obtain ⟨b1, hb1⟩ := free b hf b0 hb0
      exact ⟨_, a1, ha1, b1, hb1, rfl⟩
  | pow a n _ => intro h v hv; exact free _ (by simpa [Expr.affineIn] using h) v hv
  | max a b _ _ => intro h v hv; exact free _ (by simpa [Expr.affineIn] using h) v hv
  | min a b _ _ => intro h v hv; exact free _ (by simpa [Expr.affineIn] using h) v hv
  | floor a _ => intro h v hv; exact free _ (by simpa [Expr.affineIn] using h) v hv
  | ceil a _ => intro h v hv; exact free _ (by simpa [Expr.affineIn] using h) v hv
  | abs a _ => intro h v hv; exact free _ (by simpa [Expr.affineIn] using h) v hv
  | cmp c a b _ _ => intro h v hv; exact free _ (by simpa [Expr.affineIn] using h) v hv
  | unsupported => intro h v hv; exact free _ (by simpa [Expr.affineIn] using h) v hv

/-! ### atoms -/

theorem instEntries_nonempty {σ : Scope} {es : List TEntry} {ws : List WEntry} (h : instEntries σ es = .ok ws)
    (hne : ws ≠ []) : ∃ e, es.getLast? = some e := by
  cases es with
  | nil => simp only [instEntries, List.mapM_nil, pure_ok_iff] at h; exact absurd h.symm hne
  | cons x r => exact ⟨_, List.getLast?_eq_some_getLast (by simp)⟩

theorem edef_const (e : End) (id dur amps meas) : EndDefClaim e (.const id dur amps meas) := by
  intro σ mm cm P hden hreg hpos hkeep _ hinj c o hc hcm
  rw [positive, evalsTo_iff] at hpos
  obtain ⟨d, hd, hd0⟩ := hpos
  have hd0 : (0 : Rat) < d := by simpa using hd0
  simp only [PT.definedChannels] at hc
  rw [mem_dedup] at hc
  obtain ⟨x, he⟩ := lookup_isSome_of_mem_keys amps c hc
  rw [denote] at hden
  simp only [hd, ok_bind, hd0, if_true, bind_ok_iff] at hden
  obtain ⟨cvs, hcvs, _⟩ := hden
  obtain ⟨_, h2⟩ := filterMapM_kept cm σ.eval amps cvs hcvs
  obtain ⟨v, hv, _⟩ := h2 (c, x) (mem_of_lookup amps c x he) o hcm
  refine ⟨v, ?_⟩
  rw [endOf]
  simp only [he, keyOf, ok_bind]
  exact hv

theorem edef_func (e : End) (id ch0 dur x meas cons) (haff : x.affineIn "t" = true) :
    EndDefClaim e (.func id ch0 dur x meas cons) := by
  intro σ mm cm P hden hreg hpos hkeep _ hinj c o hc hcm
  rw [positive, evalsTo_iff] at hpos
  obtain ⟨d, hd, _⟩ := hpos
  simp only [PT.definedChannels, List.mem_singleton] at hc
  subst hc
  rw [denote] at hden
  have hcl : chanLookup cm c = .ok (some o) := chanLookup_ok_iff.mpr hcm
  simp only [bind_ok_iff] at hden
  obtain ⟨_, _, oo, hoo, hden⟩ := hden
  rw [hcl] at hoo; cases hoo
  simp only [bind_ok_iff] at hden
  obtain ⟨d', hd', hden⟩ := hden
  simp only [haff, Bool.not_true, Bool.false_eq_true, if_false, bind_ok_iff, pure_ok_iff] at hden
  obtain ⟨a, ha, _⟩ := hden
  have ha' : funcAt σ x 0 = .ok a := ha
  cases e with
  | first =>
    rw [endOf]
    simp only [ne_eq, not_true_eq_false, if_false]
    exact ⟨a, ha'⟩
  | last =>
    rw [endOf]
    simp only [ne_eq, not_true_eq_false, if_false, hd, ok_bind]
    rw [funcAt_eq] at ha' ⊢
    exact eval_affine_ok _ 0 d x haff a ha'

theorem edef_table (e : End) (id entries meas cons) : EndDefClaim e (.table id entries meas cons) := by
  intro σ mm cm P hden hreg hpos hkeep _ hinj c o hc hcm
  obtain ⟨inst, hinst, _, _⟩ := table_chan hden
  simp only [positive] at hpos
  cases hD : templateDuration (.table id entries meas cons) σ with
  | error err => rw [hD] at hpos; cases hpos
  | ok D =>
    simp only [PT.definedChannels] at hc
    rw [mem_dedup] at hc
    obtain ⟨es, he⟩ := lookup_isSome_of_mem_keys entries c hc
    obtain ⟨ws, hws, hwsne, _⟩ := tableInstantiate_spec hinst id meas cons D hD c es he
    rw [endOf]
    simp only [he, keyOf, ok_bind]
    cases e with
    | first =>
      cases es with
      | nil => simp only [instEntries, List.mapM_nil, pure_ok_iff] at hws; exact absurd hws.symm hwsne
      | cons x r =>
        obtain ⟨w, _, _, hv, _⟩ := instEntries_first x r ws hws
        exact ⟨w.v, hv⟩
    | last =>
      obtain ⟨x, hx⟩ := instEntries_nonempty hws hwsne
      obtain ⟨w, _, _, hv⟩ := instEntries_last es ws hws x hx
      simp only [hx]
      exact ⟨w.v, hv⟩

theorem edef_point (e : End) (id chans entries meas cons) : EndDefClaim e (.point id chans entries meas cons) := by
  intro σ mm cm P hden hreg hpos hkeep _ hinj c o hc hcm
  simp only [PT.definedChannels] at hc
  rw [mem_dedup] at hc
  have hi : chans.idxOf c < chans.length := List.idxOf_lt_length_of_mem hc
  have hcont : chans.contains c = true := by simpa using hc
  rw [regular] at hreg
  have := (List.all_eq_true.mp hreg) _ (List.mem_range.mpr hi)
  cases hws : instPoint σ (chans.idxOf c) entries with
  | error err => rw [hws] at this; cases this
  | ok ws =>
    simp only [positive] at hpos
    simp only [endOf, hcont, Bool.not_true, Bool.false_eq_true, if_false]
    cases e with
    | first =>
      cases entries with
      | nil => simp at hpos
      | cons x r =>
        obtain ⟨w, _, _, hv, _⟩ := instPoint_first x r ws hws
        exact ⟨w.v, hv⟩
    | last =>
      cases hlast : entries.getLast? with
      | none => rw [hlast] at hpos; cases hpos
      | some x =>
        obtain ⟨w, _, _, hv⟩ := instPoint_last entries ws hws x hlast
        exact ⟨w.v, hv⟩

/-! ### recursive cases -/

theorem edef_rep (e : End) (id body count meas cons) (ih : EndDefClaim e body) :
    EndDefClaim e (.rep id body count meas cons) := by
  intro σ mm cm P hden hreg hpos hkeep hprov hinj c o hc hcm
  rw [denote] at hden
  simp only [bind_ok_iff] at hden
  obtain ⟨_, _, cnt, hcnt, hden⟩ := hden
  simp only [regular, Bool.and_eq_true, evalsTo_iff, hcnt] at hreg
  obtain ⟨⟨v, hv, hint, hnn⟩, hregb⟩ := hreg
  cases hv
  simp only [positive, Bool.and_eq_true, evalsTo_iff, hcnt] at hpos
  obtain ⟨⟨v, hv, hv0⟩, hposb⟩ := hpos
  cases hv
  obtain ⟨n, rfl⟩ : ∃ n : Int, cnt = (n : Rat) := ⟨cnt.num, isInt_eq hint⟩
  have hv0 : (0 : Rat) < (n : Rat) := by simpa using hv0
  have hn0 : 0 < n := Rat.intCast_pos.mp hv0
  rw [checkedInt_intCast] at hden
  simp only at hden
  have hnle : ¬ n ≤ 0 := by omega
  simp only [hnle, if_false, bind_ok_iff] at hden
  obtain ⟨ms, _, b, hb, _⟩ := hden
  simp only [keeps] at hkeep
  simp only [provides] at hprov
  simp only [PT.definedChannels] at hinj hc
  obtain ⟨r, hr⟩ := ih σ mm cm b hb hregb hposb hkeep hprov hinj c o hc hcm
  exact ⟨r, by rw [endOf]; exact hr⟩

theorem endOfEnd_ok (e : End) {σ : Scope} {c : Chan} : ∀ (subs : List PT), subs ≠ [] → providesEnd e subs = true →
    (∀ p ∈ subs, provides e p = true → ∃ v, endOf e p σ c = .ok v) → ∃ v, endOfEnd e subs σ c = .ok v
  | [], h, _, _ => absurd rfl h
  | [p], _, hp, h => by
    simp only [providesEnd] at hp
    simp only [endOfEnd]
    exact h p (List.mem_cons_self ..) hp
  | p :: q :: rest, _, hp, h => by
    cases e with
    | first =>
      simp only [providesEnd] at hp
      simp only [endOfEnd]
      exact h p (List.mem_cons_self ..) hp
    | last =>
      simp only [providesEnd] at hp
      simp only [endOfEnd]
      exact endOfEnd_ok .last (q :: rest) (by simp) hp (fun x hx => h x (List.mem_cons_of_mem _ hx))

theorem edef_seq (e : End) (id subs meas cons) (ih : ∀ p ∈ subs, EndDefClaim e p)
    (hsame : sameChannels (PT.firstChannels subs) subs = true) : EndDefClaim e (.seq id subs meas cons) := by
  intro σ mm cm P hden hreg hpos hkeep hprov hinj c o hc hcm
  rw [denote] at hden
  simp only [bind_ok_iff] at hden
  obtain ⟨_, _, ms, _, parts, hparts, _⟩ := hden
  simp only [regular] at hreg
  simp only [positive, Bool.and_eq_true] at hpos
  obtain ⟨hne, hpos⟩ := hpos
  have hne : subs ≠ [] := by intro h0; subst h0; simp at hne
  simp only [keeps] at hkeep
  simp only [provides] at hprov
  simp only [PT.definedChannels] at hinj hc
  rw [endOf]
  apply endOfEnd_ok e subs hne hprov
  intro p hp hpp
  obtain ⟨q, _, hq⟩ := denoteList_mem subs parts hparts p hp
  have hiff := sameChannels_mem hsame p hp
  have hinjp : InjOn cm p.definedChannels := fun c1 c2 o' h1 h2 =>
    hinj c1 c2 o' ((hiff c1).mp h1) ((hiff c2).mp h2)
  exact ih p hp σ mm cm q hq (regularAll_mem hreg p hp) (positiveAll_mem hpos p hp) (keepsAll_mem hkeep p hp) hpp
    hinjp c o ((hiff c).mpr hc) hcm

theorem edef_forLoop (e : End) (id body idx start stop step meas cons) (ih : EndDefClaim e body) :
    EndDefClaim e (.forLoop id body idx start stop step meas cons) := by
  intro σ mm cm P hden hreg hpos hkeep hprov hinj c o hc hcm
  obtain ⟨ai, bi, si, parts, p, ms, ha, hb, hs, hsi, hparts, hp, rfl, hall⟩ := forLoop_unfold hden hreg
  simp only [positive, ha, hb, hs, Rat.num_intCast, Bool.and_eq_true, List.all_eq_true] at hpos
  obtain ⟨hne, hposall⟩ := hpos
  have hkeepb : keeps body cm = true := by simpa [keeps] using hkeep
  simp only [provides] at hprov
  simp only [PT.definedChannels] at hinj hc
  have hsr : ((si : Rat) = 0) = False := by
    simp only [eq_iff_iff, iff_false]; intro h; exact hsi (Rat.intCast_eq_zero_iff.mp h)
  have hlen := rangeLen_eq_stepCount (a := ai) (b := bi) hsi
  have hlen0 : 0 < rangeLen ai bi si := by
    rw [← pyRange_length]
    cases hr : pyRange ai bi si with
    | nil => rw [hr] at hne; simp at hne
    | cons _ _ => simp
  have hidx : ∀ k, k < rangeLen ai bi si →
      ∃ v, endOf e body (.range σ idx ((ai : Rat) + (k : Rat) * (si : Rat))) c = .ok v := by
    intro k hk
    have hmem : ai + si * (k : Int) ∈ pyRange ai bi si := by
      rw [pyRange_eq_map]; exact List.mem_map.mpr ⟨k, List.mem_range.mpr hk, rfl⟩
    obtain ⟨q, _, hq⟩ := mapM_mem _ _ parts hparts _ hmem
    have := ih _ mm cm q hq (hall _ hmem) (hposall _ hmem) hkeepb hprov hinj c o hc hcm
    rw [idx_cast] at this
    exact this
  cases e with
  | first =>
    rw [endOf]
    simp only [ha, ok_bind]
    have := hidx 0 hlen0
    simpa [Rat.add_zero, Rat.zero_mul] using this
  | last =>
    rw [endOf]
    simp only [ha, hb, hs, ok_bind, hsr, if_false]
    have hfc : (((bi : Rat) - (ai : Rat)) / (si : Rat)).floor = floorCount ai bi si := by
      unfold floorCount; rw [Rat.intCast_sub]
    rw [hfc]
    have hle := floorCount_le_stepCount (a := ai) (b := bi) hsi
    generalize hk : (if floorCount ai bi si - 1 ≤ 0 then (0 : Int) else floorCount ai bi si - 1) = k
    have hk0 : 0 ≤ k := by rw [← hk]; split <;> omega
    have hklt : k.toNat < rangeLen ai bi si := by rw [← hk]; split <;> omega
    have hcast : (k : Rat) = ((k.toNat : Nat) : Rat) := by
      rw [← Rat.intCast_natCast, Int.toNat_of_nonneg hk0]
    rw [hcast]
    exact hidx k.toNat hklt

theorem edef_mapping (e : End) (id body pm mm' cm' cons) (ih : EndDefClaim e body)
    (hall : body.definedChannels.all (fun c => (cm'.lookup c).isSome) = true)
    (hnd : hasDup (body.definedChannels.filterMap
      (fun c => match cm'.lookup c with | some (some o) => some o | _ => none)) = false)
    (hnd' : hasDup body.definedChannels = false) :
    EndDefClaim e (.mapping id body pm mm' cm' cons) := by
  intro σ mm cm P hden hreg hpos hkeep hprov hinj ch o hc hcm
  rw [denote] at hden
  simp only [bind_ok_iff] at hden
  obtain ⟨_, _, mmU, hmm, cmU, hcmU, hden⟩ := hden
  rw [regular] at hreg
  rw [positive] at hpos
  simp only [provides] at hprov
  have hkeepU : keeps body cmU = true := by
    simp only [keeps, hcmU] at hkeep; exact hkeep
  simp only [PT.definedChannels] at hinj hc
  have hlk := updatedCm_lookup hcmU
  have hinjU := mapping_injU hcmU hinj hnd hnd'
  rw [mem_dedup] at hc
  obtain ⟨c0, hc0, hc0'⟩ := List.mem_filterMap.mp hc
  have hc0l : cm'.lookup c0 = some (some ch) := by
    cases h : cm'.lookup c0 with
    | none => rw [h] at hc0'; cases hc0'
    | some y =>
      cases y with
      | none => rw [h] at hc0'; cases hc0'
      | some x => rw [h] at hc0'; cases hc0'; rfl
  have hsome : (innerChan body cm' ch).isSome = true := by
    unfold innerChan
    rw [List.find?_isSome]
    exact ⟨c0, hc0, by simp [hc0l]⟩
  obtain ⟨c, hic⟩ := Option.isSome_iff_exists.mp hsome
  obtain ⟨hm, hl⟩ := innerChan_spec hall hic
  have hlU : cmU.lookup c = some (some o) := by rw [hlk, hl]; exact hcm
  obtain ⟨r, hr⟩ := ih (.mapped σ pm) mmU cmU P hden hreg hpos hkeepU hprov hinjU c o hm hlU
  refine ⟨r, ?_⟩
  rw [endOf]
  simp only [hic, keyOf, ok_bind]
  exact hr

theorem edef_parallel (e : End) (id body over) (ih : EndDefClaim e body) : EndDefClaim e (.parallel id body over) := by
  intro σ mm cm P hden hreg hpos hkeep hprov hinj c o hc hcm
  rw [denote] at hden
  simp only [bind_ok_iff] at hden
  obtain ⟨ov, hov, b, hb, _⟩ := hden
  rw [regular] at hreg
  rw [positive] at hpos
  simp only [provides] at hprov
  have hkeepb : keeps body cm = true := by simpa [keeps] using hkeep
  simp only [PT.definedChannels] at hinj hc
  have hmemdc : ∀ x, x ∈ body.definedChannels ∨ x ∈ over.map (·.1) →
      x ∈ dedup (body.definedChannels ++ over.map (·.1)) := fun x hx => (mem_dedup _ _).mpr (List.mem_append.mpr hx)
  obtain ⟨_, _, cs, hcs, _⟩ := overwrittenValues_spec hov
  rw [endOf]
  simp only [hprov, Bool.not_true, Bool.false_eq_true, if_false]
  cases hoc : over.lookup c with
  | some x =>
    obtain ⟨_, h2⟩ := filterMapM_kept cm σ.eval over cs hcs
    obtain ⟨v, hv, _⟩ := h2 (c, x) (mem_of_lookup over c x hoc) o hcm
    exact ⟨v, hv⟩
  | none =>
    simp only
    have hcb : c ∈ body.definedChannels := by
      rcases List.mem_append.mp ((mem_dedup _ _).mp hc) with h | h
      · exact h
      · obtain ⟨x, hx⟩ := lookup_isSome_of_mem_keys over c h
        rw [hx] at hoc; cases hoc
    have hinjb : InjOn cm body.definedChannels := fun c1 c2 o' h1 h2 =>
      hinj c1 c2 o' (hmemdc _ (Or.inl h1)) (hmemdc _ (Or.inl h2))
    exact ih σ mm cm b hb hreg hpos hkeepb hprov hinjb c o hcb hcm

theorem providesAll_mem {e : End} {subs : List PT} (h : providesAll e subs = true) : ∀ p ∈ subs, provides e p = true := by
  induction subs with
  | nil => intro p hp; cases hp
  | cons y ys ihy =>
    intro p hp
    simp only [providesAll, Bool.and_eq_true] at h
    rcases List.mem_cons.mp hp with rfl | hp
    · exact h.1
    · exact ihy h.2 p hp

theorem edef_atomicMulti (e : End) (id subs dur meas cons) (ih : ∀ p ∈ subs, EndDefClaim e p) :
    EndDefClaim e (.atomicMulti id subs dur meas cons) := by
  intro σ mm cm P hden hreg hpos hkeep hprov hinj c o hc hcm
  obtain ⟨parts, hparts, _⟩ := denote_atomicMulti hden
  simp only [regular, Bool.and_eq_true] at hreg
  obtain ⟨⟨hregall, _⟩, _⟩ := hreg
  simp only [positive] at hpos
  simp only [keeps] at hkeep
  simp only [provides] at hprov
  simp only [PT.definedChannels] at hinj hc
  rw [mem_dedup] at hc
  obtain ⟨p, hpick⟩ := pickSub_some hc
  obtain ⟨hp, hcp⟩ := pickSub_spec hpick
  have hinjp : InjOn cm p.definedChannels := fun c1 c2 o' h1 h2 =>
    hinj c1 c2 o' ((mem_dedup _ _).mpr (mem_allChannels_of hp h1)) ((mem_dedup _ _).mpr (mem_allChannels_of hp h2))
  obtain ⟨q, _, hq⟩ := denoteList_mem subs parts hparts p hp
  obtain ⟨r, hr⟩ := ih p hp σ mm cm q hq (regularAll_mem hregall p hp) (positiveAll_mem hpos p hp)
    (keepsAll_mem hkeep p hp) (providesAll_mem hprov p hp) hinjp c o hcp hcm
  refine ⟨r, ?_⟩
  rw [endOf]
  simp only [hprov, Bool.not_true, Bool.false_eq_true, if_false]
  rw [endOfMulti_pick, hpick]
  exact hr

theorem edef_arith (e : End) (id body op scalar ptIsLhs) (ih : EndDefClaim e body) (hdef : DefClaim body)
    (hinv : InvClaim body) (hwf : scalarWf body scalar) :
    EndDefClaim e (.arith id body op scalar ptIsLhs) := by
  intro σ mm cm P hden hreg hpos hkeep hprov hinj c o hc hcm
  rw [denote] at hden
  simp only [bind_ok_iff] at hden
  obtain ⟨b, hb, hden⟩ := hden
  rw [regular] at hreg
  rw [positive] at hpos
  simp only [provides] at hprov
  have hkeepb : keeps body cm = true := by simpa [keeps] using hkeep
  obtain ⟨⟨D, hD, hD0⟩, _⟩ := hdef σ mm cm b hb hreg hpos hkeepb
  simp only [PT.definedChannels] at hinj hc
  obtain ⟨i1, _, i3⟩ := hinv σ mm cm b hb hreg
  have hbne : b.isEmpty = false := by
    cases hbe : b.isEmpty with
    | false => rfl
    | true =>
      have h0 := i1.empty_dur hbe
      have := i3 hkeepb D hD
      rw [this, h0] at hD0
      exact absurd hD0 (by grind)
  simp only [hbne, Bool.false_eq_true, if_false, bind_ok_iff, pure_ok_iff] at hden
  obtain ⟨T, hT, _⟩ := hden
  rw [arithTransformation_eq, bind_ok_iff] at hT
  obtain ⟨sv, hsv, hT⟩ := hT
  have hlook := arithSv_lookup hsv hc hcm hinj hwf
  obtain ⟨I, hI⟩ := ih σ mm cm b hb hreg hpos hkeepb hprov hinj c o hc hcm
  have hcont : body.definedChannels.contains c = true := by simpa using hc
  have hnd : ¬ (op = .div ∧ ptIsLhs = false) := by
    rintro ⟨rfl, rfl⟩
    simp [arithTail] at hT
  have hnz : op = .div → ∀ s, sv.lookup o = some s → s ≠ 0 := by
    rintro rfl s hs h0
    cases ptIsLhs with
    | false => exact hnd ⟨rfl, rfl⟩
    | true =>
      simp only [arithTail, if_true] at hT
      split at hT
      · cases hT
      · rename_i hany
        apply hany
        rw [List.any_eq_true]
        exact ⟨(o, s), mem_of_lookup sv o s hs, by simp [h0]⟩
  rw [endOf]
  simp only [hcont, if_true, hI, ok_bind]
  cases hso : scalarOn body scalar c with
  | none =>
    simp only [pure, Except.pure, ok_bind]
    exact arithCombine_ok op ptIsLhs I none hnd (fun _ v hv => by cases hv)
  | some ex =>
    rw [hso] at hlook
    obtain ⟨s, hs, hsl⟩ := hlook
    have hev := evalKw_ok_eval hs
    simp only [hev, ok_bind, pure, Except.pure]
    refine arithCombine_ok _ ptIsLhs I _ hnd (fun hop v hv => ?_)
    cases hv
    exact hnz hop s hsl

theorem edef_arithAtomic (e : End) (id lhs minus rhs meas) (ihl : EndDefClaim e lhs) (ihr : EndDefClaim e rhs) :
    EndDefClaim e (.arithAtomic id lhs minus rhs meas) := by
  intro σ mm cm P hden hreg hpos hkeep hprov hinj c o hc hcm
  simp only [regular, Bool.and_eq_true] at hreg
  obtain ⟨⟨hrl, hrr⟩, _⟩ := hreg
  simp only [positive, Bool.and_eq_true] at hpos
  simp only [keeps, Bool.and_eq_true] at hkeep
  simp only [provides, Bool.and_eq_true] at hprov
  obtain ⟨l, r, hl, hr, _⟩ := denote_arithAtomic hden
  simp only [PT.definedChannels] at hinj hc
  have hmemdc : ∀ x, x ∈ lhs.definedChannels ∨ x ∈ rhs.definedChannels →
      x ∈ dedup (lhs.definedChannels ++ rhs.definedChannels) := fun x hx => (mem_dedup _ _).mpr (List.mem_append.mpr hx)
  have hinjl : InjOn cm lhs.definedChannels := fun c1 c2 o' h1 h2 =>
    hinj c1 c2 o' (hmemdc _ (Or.inl h1)) (hmemdc _ (Or.inl h2))
  have hinjr : InjOn cm rhs.definedChannels := fun c1 c2 o' h1 h2 =>
    hinj c1 c2 o' (hmemdc _ (Or.inr h1)) (hmemdc _ (Or.inr h2))
  have hintl := fun hcl => ihl σ mm cm l hl hrl hpos.1 hkeep.1 hprov.1 hinjl c o hcl hcm
  have hintr := fun hcr => ihr σ mm cm r hr hrr hpos.2 hkeep.2 hprov.2 hinjr c o hcr hcm
  simp only [endOf, hprov.1, hprov.2, Bool.and_self, Bool.not_true, Bool.false_eq_true, if_false]
  by_cases hcl : c ∈ lhs.definedChannels
  · have hclb : lhs.definedChannels.contains c = true := by simpa using hcl
    obtain ⟨il, hil⟩ := hintl hcl
    simp only [hclb, if_true, hil, ok_bind]
    by_cases hcr : c ∈ rhs.definedChannels
    · have hcrb : rhs.definedChannels.contains c = true := by simpa using hcr
      obtain ⟨ir, hir⟩ := hintr hcr
      simp only [hcrb, if_true, hir, ok_bind]
      exact ⟨_, rfl⟩
    · have hcrb : rhs.definedChannels.contains c = false := by simpa using hcr
      simp only [hcrb, Bool.false_eq_true, if_false]
      exact ⟨_, rfl⟩
  · have hclb : lhs.definedChannels.contains c = false := by simpa using hcl
    have hcr : c ∈ rhs.definedChannels := by
      rcases List.mem_append.mp ((mem_dedup _ _).mp hc) with h | h
      · exact absurd h hcl
      · exact h
    have hcrb : rhs.definedChannels.contains c = true := by simpa using hcr
    obtain ⟨ir, hir⟩ := hintr hcr
    simp only [hclb, Bool.false_eq_true, if_false, hcrb, if_true, hir, ok_bind]
    exact ⟨_, rfl⟩

/-! ### the induction -/

mutual
theorem endDefClaim (e : End) : ∀ (pt : PT), supported pt = true → EndDefClaim e pt
  | .const id dur amps meas, _ => edef_const e id dur amps meas
  | .func id ch dur x meas cons, h => by
      simp only [supported] at h
      exact edef_func e id ch dur x meas cons h
  | .seq id subs meas cons, h => by
      simp only [supported, Bool.and_eq_true] at h
      exact edef_seq e id subs meas cons (endDefClaimAll e subs h.1) h.2
  | .rep id body count meas cons, h => by
      simp only [supported] at h
      exact edef_rep e id body count meas cons (endDefClaim e body h)
  | .forLoop id body idx start stop step meas cons, h => by
      simp only [supported] at h
      exact edef_forLoop e id body idx start stop step meas cons (endDefClaim e body h)
  | .mapping id body pm mm' cm' cons, h => by
      simp only [supported, Bool.and_eq_true, Bool.not_eq_true'] at h
      exact edef_mapping e id body pm mm' cm' cons (endDefClaim e body h.1.1.1) h.1.1.2 h.1.2 h.2
  | .table id entries meas cons, _ => edef_table e id entries meas cons
  | .timeReversal id body, _ => by
      intro σ mm cm P _ _ _ _ hprov
      simp [provides] at hprov
  | .point id chans entries meas cons, _ => edef_point e id chans entries meas cons
  | .parallel id body over, h => by
      simp only [supported, Bool.and_eq_true, Bool.not_eq_true'] at h
      exact edef_parallel e id body over (endDefClaim e body h.1)
  | .atomicMulti id subs dur meas cons, h => by
      simp only [supported, Bool.and_eq_true, Bool.not_eq_true'] at h
      exact edef_atomicMulti e id subs dur meas cons (endDefClaimAll e subs h.1)
  | .arith id body op scalar ptIsLhs, h => by
      simp only [supported, Bool.and_eq_true, Bool.not_eq_true'] at h
      refine edef_arith e id body op scalar ptIsLhs (endDefClaim e body h.1.1) (defClaim body h.1.1)
        (invClaim body h.1.1) ?_
      have h2 := h.2
      cases scalar with
      | uniform x => exact True.intro
      | perChan m =>
        simp only [Bool.and_eq_true, Bool.not_eq_true', List.all_eq_true] at h2
        exact ⟨h2.1, fun x hx => by simpa using h2.2 x hx⟩
  | .arithAtomic id lhs minus rhs meas, h => by
      simp only [supported, Bool.and_eq_true] at h
      exact edef_arithAtomic e id lhs minus rhs meas (endDefClaim e lhs h.1) (endDefClaim e rhs h.2)
theorem endDefClaimAll (e : End) : ∀ (subs : List PT), supportedAll subs = true → ∀ p ∈ subs, EndDefClaim e p
  | [], _ => fun p hp => nomatch hp
  | q :: qs, h => by
      simp only [supportedAll, Bool.and_eq_true] at h
      intro p hp
      rcases List.mem_cons.mp hp with hpq | hp
      · rw [hpq]; exact endDefClaim e q h.1
      · exact endDefClaimAll e qs h.2 p hp
end

end QP.C07
