import QP.Model.PT
import QP.Proofs.PTRelA2
import QP.Proofs.PTBuildAtoms
/-! Atoms for the reversal-tolerant relation: in addition to `BuildOK` (samples on `[0, d)`) the value a waveform
plays at its very end is the left limit of the denoted function (`BuildEnd`; constant and function templates). -/
namespace QP.PT

def AtomOKA (pt : PT) : Prop :=
  ∀ σ mm cm items P, atomItems pt (ctx0 σ mm cm) = .ok items → denote pt σ mm cm = .ok P →
    Loop.allPosList (nodesOf items) → RelA items P

/-- the end value of the waveform is the left limit of the pulse -/
def BuildEnd (pt : PT) : Prop :=
  ∀ σ mm cm w P, buildWaveform pt σ cm = .ok (some w) → denote pt σ mm cm = .ok P → 0 < w.duration →
    ∀ c pl, P.chans.lookup c = some pl → ∃ v, w.sample c P.dur = some v ∧ PL.atL pl P.dur = some v

theorem leaf_sampleL (w : Wf) (c : Chan) (τ : Rat) (hd : 0 < w.duration) (h0 : 0 < τ) (ht : τ ≤ w.duration) :
    (leaf w).sampleL c τ = w.sample c τ := by
  have hce := ceil_sub_one_eq τ w.duration 0 hd (by simpa using h0) (by simpa using ht)
  simp only [leaf, Loop.sampleL, Loop.bodyDuration]
  have hnd : ¬ w.duration ≤ 0 := not_le.mpr hd
  simp [hnd, hce]

/-- one leaf against a pulse, with the end value -/
theorem relA_single_leaf (w : Wf) (ms : List Window) (d : Rat) (hd : 0 < d) (hw : w.duration = d)
    (chans : List (Chan × PL)) (hne : chans ≠ [])
    (hpl : ∀ c pl, chans.lookup c = some pl →
      PL.dur pl = d ∧ pl.pos ∧ (∀ t, 0 ≤ t → t < d → w.sample c t = PL.at pl t) ∧
        ∃ v, w.sample c d = some v ∧ PL.atL pl d = some v) :
    RelA ((if ms.isEmpty then [] else [Item.measure ms]) ++ [Item.node (leaf w)])
      { dur := d, chans := chans, windows := ms } := by
  have hn : nodesOf (if ms.isEmpty then [] else [Item.measure ms]) = [] := by
    by_cases hm : ms.isEmpty <;> simp [hm, nodesOf]
  refine ⟨?_, ?_, ?_, ?_, ?_, ?_, ?_⟩
  · by_cases hm : ms.isEmpty
    · simp only [hm, if_true, List.nil_append]; exact Blocks.node _ Blocks.nil
    · simp only [hm]; exact Blocks.meas ms _ Blocks.nil
  · rw [nodesOf_append, hn]
    simp only [nodesOf, List.nil_append]
    constructor
    · intro h; simp at h
    · intro h; exact absurd h hne
  · rw [nodesOf_append, hn]
    simp [nodesOf, Loop.durationList, leaf_duration, hw]
  · intro c pl hc; exact (hpl c pl hc).1
  · intro c pl hc; exact (hpl c pl hc).2.1
  · intro c pl hc t ht0 ht
    rw [nodesOf_append, hn]
    simp only [List.nil_append, nodesOf, Loop.sampleList, leaf_duration, hw]
    simp only at ht
    simp only [ht, if_true]
    rw [leaf_sample w c t (by rw [hw]; exact hd) ht0 (by rw [hw]; exact ht)]
    rw [(hpl c pl hc).2.2.1 t ht0 ht]
    obtain ⟨v, hv⟩ := PL.at_isSome pl t ht0 (by rw [(hpl c pl hc).1]; exact ht)
    obtain ⟨rest, hrest⟩ := adm_head pl none t v hv
    exact ⟨v, hv, by rw [hrest]; simp⟩
  · intro c pl hc τ ht0 ht
    rw [nodesOf_append, hn]
    simp only at ht ⊢
    have hle : τ ≤ (leaf w).duration := by rw [leaf_duration, hw]; exact ht
    simp only [List.nil_append, nodesOf, Loop.sampleListL, hle, if_true]
    rw [leaf_sampleL w c τ (by rw [hw]; exact hd) ht0 (by rw [hw]; exact ht)]
    rcases lt_or_eq_of_le ht with hlt | heq
    · rw [(hpl c pl hc).2.2.1 τ (le_of_lt ht0) hlt]
      obtain ⟨v, hv⟩ := PL.at_isSome pl τ (le_of_lt ht0) (by rw [(hpl c pl hc).1]; exact hlt)
      exact ⟨v, hv, Or.inr ⟨hlt, hv⟩⟩
    · subst heq
      obtain ⟨v, hv1, hv2⟩ := (hpl c pl hc).2.2.2
      exact ⟨v, hv1, Or.inl hv2⟩

/-- from the waveform to the appended leaf -/
theorem atomOKA_of {pt : PT} (hb : BuildOK pt) (he : BuildEnd pt) : AtomOKA pt := by
  intro σ mm cm items P h1 h2 hpos
  rcases atomItems_shape' h1 with ⟨hw, rfl⟩ | ⟨w, ms, w', hw, hms, hw', rfl⟩
  · have := hb σ mm cm none P hw h2
    simp only at this
    subst this
    exact RelA.nil
  · obtain ⟨_, hdur, _, hrelc, hwin⟩ := hb σ mm cm (some w) P hw h2
    have hw'dur : w'.duration = w.duration := by
      rcases hw' with ⟨rfl, _⟩ | ⟨cv, _, hcm⟩
      · rfl
      · exact (constFromMapping_spec hcm).1
    have hwpos : 0 < w.duration := by
      rw [nodesOf_append] at hpos
      have := (allPosList_append.mp hpos).2
      simp only [nodesOf] at this
      have := Loop.allPos_duration_pos _ (allPosList_cons.mp this).1
      rw [leaf_duration, hw'dur] at this
      exact this
    obtain ⟨hrel, hcol⟩ := hrelc hwpos
    have hend := he σ mm cm w P hw h2 hwpos
    have hrel' : WfRel w' P := by
      rcases hw' with ⟨rfl, _⟩ | ⟨cv, hcv, hcm⟩
      · exact hrel
      · exact hrel.collapse hcol hcv hcm
    have hend' : ∀ c pl, P.chans.lookup c = some pl → ∃ v, w'.sample c P.dur = some v ∧ PL.atL pl P.dur = some v := by
      rcases hw' with ⟨rfl, _⟩ | ⟨cv, hcv, hcm⟩
      · exact hend
      · intro c pl hc
        obtain ⟨v, hv1, hv2⟩ := hend c pl hc
        refine ⟨v, ?_, hv2⟩
        rcases hcol with hn | hf
        · rw [hn] at hcv; cases hcv
        · obtain ⟨hch, hs⟩ := constDict_sound_flat hf hcv
          obtain ⟨_, _, _, hs'⟩ := constFromMapping_spec hcm
          have hmem : c ∈ w.channels := by
            rw [hrel.chans]; simpa [Pulse.chanNames] using mem_keys_of_lookup _ _ _ hc
          rw [hch] at hmem
          obtain ⟨u, hu⟩ := lookup_some_of_mem_keys cv c hmem
          rw [hs' c u _ hu, ← hs c u P.dur hu]
          exact hv1
    have hP : P = { dur := P.dur, chans := P.chans, windows := ms } := by
      rw [← hwin ms hms]
    have hdpos : 0 < P.dur := by rw [← hdur]; exact hwpos
    rw [hP]
    apply relA_single_leaf w' ms P.dur hdpos hrel'.dur P.chans hrel'.ne
    intro c pl hc
    exact ⟨hrel'.plDur c pl hc, hrel'.plPos c pl hc, hrel'.sample c pl hc, hend' c pl hc⟩

theorem buildEnd_const (id : Option String) (dur : Expr) (amps : List (Chan × Expr)) (meas : List MeasDecl) :
    BuildEnd (.const id dur amps meas) := by
  intro σ mm cm w P h1 h2 _ c pl hc
  simp only [buildWaveform, bind_ok] at h1
  obtain ⟨d, hd, hw⟩ := h1
  simp only [denote, bind_ok] at h2
  obtain ⟨d', hd', h2⟩ := h2
  rw [hd] at hd'; cases hd'
  by_cases hpos : d > 0
  · simp only [hpos, if_true, bind_ok] at hw h2
    obtain ⟨cvs, hcvs, hw⟩ := hw
    obtain ⟨cvs', hcvs', h2⟩ := h2
    rw [hcvs] at hcvs'; cases hcvs'
    rcases Bool.eq_false_or_eq_true (dictOfList cvs).isEmpty with hemp | hemp
    · simp only [hemp, if_true, pure_ok] at hw
      cases hw
    · simp only [hemp, Bool.false_eq_true, if_false, bind_ok, pure_ok] at hw h2
      obtain ⟨w0, hw0, hw⟩ := hw
      cases hw
      obtain ⟨_, _, _, hs⟩ := constFromMapping_spec hw0
      rcases Bool.eq_false_or_eq_true (hasDup ((dictOfList cvs).map (·.1))) with hdup | hdup
      · simp [hdup] at h2
      · simp only [hdup, Bool.false_eq_true, if_false, bind_ok, pure_ok] at h2
        obtain ⟨ms, _, rfl⟩ := h2
        have hlook : (((dictOfList cvs).map (fun (x : Chan × Rat) =>
              (x.1, ([{ len := d, v0 := x.2, v1 := x.2 }] : PL)))).lookup c)
            = ((dictOfList cvs).lookup c).map (fun v => ([{ len := d, v0 := v, v1 := v }] : PL)) :=
          lookup_map_snd (dictOfList cvs) (fun _ v => ([{ len := d, v0 := v, v1 := v }] : PL)) c
        simp only [hlook] at hc
        cases hcl : (dictOfList cvs).lookup c with
        | none => simp [hcl] at hc
        | some v =>
          simp only [hcl, Option.map_some, Option.some.injEq] at hc
          subst hc
          exact ⟨v, hs c v d hcl, by simp [PL.atL, Seg.valueAt]⟩
  · simp only [hpos, if_false, pure_ok] at hw
    cases hw

theorem buildEnd_func (id : Option String) (ch : Chan) (dur e : Expr) (meas : List MeasDecl) (cons : List Expr) :
    BuildEnd (.func id ch dur e meas cons) := by
  intro σ mm cm w P h1 h2 hwpos c pl hc
  simp only [buildWaveform, bind_ok] at h1
  obtain ⟨_, _, o, ho, hw⟩ := h1
  simp only [denote, bind_ok] at h2
  obtain ⟨_, _, o', ho', h2⟩ := h2
  rw [ho] at ho'; cases ho'
  cases o with
  | none =>
    simp only [pure_ok] at hw
    cases hw
  | some oc =>
    simp only [bind_ok] at hw h2
    obtain ⟨_, _, d, hd, env, henv, hw⟩ := hw
    obtain ⟨d', hd', h2⟩ := h2
    rw [hd] at hd'; cases hd'
    rcases Bool.eq_false_or_eq_true (e.affineIn "t") with haff | haff
    · simp only [haff, Bool.not_true, Bool.false_eq_true, if_false, bind_ok, pure_ok] at h2
      obtain ⟨a, ha, b, hb, ms, _, rfl⟩ := h2
      have hvars : ∀ x ∈ e.vars, x ≠ "t" → ∃ v, funcLook σ x = .ok v ∧ env.lookup x = some v := by
        intro x hx hxt
        apply env_lookup σ _ env henv x
        rw [mem_dedup]
        simp [hx, hxt]
      have ha' : e.eval (withT "t" (funcLook σ) 0) = .ok a := ha
      have hb' : e.eval (withT "t" (funcLook σ) 1) = .ok b := hb
      have haffine := affine_eval e "t" (funcLook σ) haff a b ha' hb'
      have hleaf : w.duration = d ∧ ∀ t, w.sample oc t = some (a + (b - a) * t) := by
        by_cases ht : e.vars.contains "t"
        · simp only [ht, if_true, pure_ok, Option.some.injEq] at hw
          subst hw
          refine ⟨by simp [Wf.duration], ?_⟩
          intro t
          simp only [Wf.sample]
          rw [Expr.eval_congr e _ (withT "t" (funcLook σ) t) (by
            intro x hx
            by_cases hxt : x = "t"
            · simp [withT, hxt]
            · obtain ⟨v, hv1, hv2⟩ := hvars x hx hxt
              simp [withT, hxt, hv1, hv2])]
          rw [haffine t]
        · have ht' : e.vars.contains "t" = false := by simpa using ht
          simp only [ht', Bool.false_eq_true, if_false] at hw
          have hnotmem : "t" ∉ e.vars := by simpa using ht'
          have hfree : e.freeOf "t" = true := by simp [Expr.freeOf, hnotmem]
          rw [Expr.eval_congr e _ (withT "t" (funcLook σ) 0) (by
            intro x hx
            have hxt : x ≠ "t" := by
              intro h; subst h; exact hnotmem hx
            obtain ⟨v, hv1, hv2⟩ := hvars x hx hxt
            simp [withT, hxt, hv1, hv2]), ha'] at hw
          simp only [pure_ok, Option.some.injEq] at hw
          subst hw
          have hab : b = a := by
            have := eval_freeOf e "t" (funcLook σ) hfree 1 0
            rw [ha', hb'] at this; cases this; rfl
          refine ⟨by simp [Wf.duration], ?_⟩
          intro t
          simp [Wf.sample, hab]
      obtain ⟨hwd, hws⟩ := hleaf
      have hdpos : 0 < d := by rw [← hwd]; exact hwpos
      have hdne : d ≠ 0 := ne_of_gt hdpos
      simp only [List.lookup_cons, List.lookup_nil] at hc
      by_cases hk : c == oc
      · have hceq : c = oc := by simpa using hk
        subst hceq
        simp only [hk, Option.some.injEq, hdpos, if_true] at hc
        subst hc
        refine ⟨a + (b - a) * d, hws d, ?_⟩
        simp only [PL.atL, le_refl, if_true, Seg.valueAt, Option.some.injEq]
        field_simp
        ring
      · simp [hk] at hc
    · simp [haff] at h2

theorem atomOKA_const (id : Option String) (dur : Expr) (amps : List (Chan × Expr)) (meas : List MeasDecl) :
    AtomOKA (.const id dur amps meas) :=
  atomOKA_of (buildOK_const id dur amps meas) (buildEnd_const id dur amps meas)

theorem atomOKA_func (id : Option String) (ch : Chan) (dur e : Expr) (meas : List MeasDecl) (cons : List Expr) :
    AtomOKA (.func id ch dur e meas cons) :=
  atomOKA_of (buildOK_func id ch dur e meas cons) (buildEnd_func id ch dur e meas cons)

end QP.PT
