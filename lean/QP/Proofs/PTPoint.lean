import QP.Model.PT
import QP.Proofs.PTTableB
/-! `PointPulseTemplate.build_waveform`: the rows of values are transposed into one entry list per channel, and
every kept channel is a table waveform as in `TablePulseTemplate` (`table_channel`, `parallel_rel`). -/
namespace QP.PT

/-- the instantiated rows (one per entry, `n` values each) -/
def pointRows (σ : Scope) (n : Nat) (entries : List PEntry) : Except Err (List (List WEntry)) :=
  entries.mapM (fun e =>
    bind (σ.eval e.t) fun t =>
    bind (e.vs.mapM σ.eval) fun vs =>
      if e.bcast = true then
        bind (match vs with
            | [v] => pure (List.replicate n v)
            | _ => Except.error Err.unsupported) fun vs =>
          pure (vs.map (fun v => ({ t := t, v := v, interp := e.interp } : WEntry)))
      else if vs.length ≠ n then
        bind (Except.error Err.valueError : Except Err (List Rat)) fun vs =>
          pure (vs.map (fun v => ({ t := t, v := v, interp := e.interp } : WEntry)))
      else
        bind (pure vs : Except Err (List Rat)) fun vs =>
          pure (vs.map (fun v => ({ t := t, v := v, interp := e.interp } : WEntry))))

/-- the entry the code puts in front of a channel that does not start at 0 … -/
def prefC (ws : List WEntry) : List WEntry :=
  match ws with
  | w :: _ => if w.t > 0 then { t := 0, v := w.v, interp := w.interp } :: ws else ws
  | [] => ws
/-- … and the one the specification puts there (the interpolation of a first entry is never used) -/
def prefD (ws : List WEntry) : List WEntry :=
  match ws with
  | w :: _ => if w.t > 0 then { t := 0, v := w.v, interp := .hold } :: ws else ws
  | [] => ws

def pointCol (inst : List (List WEntry)) (i : Nat) : List WEntry := inst.filterMap (fun row => row[i]?)

def pointKept (pref : List WEntry → List WEntry) (mapped : List (Option Chan)) (inst : List (List WEntry)) (n : Nat) :
    List (Chan × List WEntry) :=
  (mapped.zip (((List.range n).map (fun i => inst.filterMap (fun row => row[i]?))).map pref)).filterMap
    (fun (o, ws) => o.map (fun o => (o, ws)))

/-- equal up to the interpolation of the first entry -/
def HeadEq (ws ws' : List WEntry) : Prop :=
  ws = ws' ∨ ∃ e e' rest, ws = e :: rest ∧ ws' = e' :: rest ∧ e.t = e'.t ∧ e.v = e'.v

theorem headEq_pref (L : List WEntry) : HeadEq (prefC L) (prefD L) := by
  cases L with
  | nil => left; rfl
  | cons w tl =>
    simp only [prefC, prefD]
    by_cases h : w.t > 0
    · simp only [h, if_true]
      right
      exact ⟨_, _, w :: tl, rfl, rfl, rfl, rfl⟩
    · simp only [h, if_false]
      left; rfl

theorem tablePL_headEq {ws ws' : List WEntry} (h : HeadEq ws ws') : tablePL ws = tablePL ws' := by
  rcases h with rfl | ⟨e, e', rest, rfl, rfl, ht, hv⟩
  · rfl
  · cases rest with
    | nil => rfl
    | cons e2 r =>
      simp only [tablePL, sortedTimes, lastT, entriesToPL, ht, hv]
      rfl

theorem lastT_pref (L : List WEntry) (hne : L ≠ []) : lastT (prefC L) = lastT L := by
  cases L with
  | nil => exact absurd rfl hne
  | cons w tl =>
    simp only [prefC]
    by_cases h : w.t > 0
    · simp only [h, if_true, lastT]
    · simp only [h, if_false]

/-- every column of the instantiated rows ends at the time of the last entry -/
theorem pointCol_last (σ : Scope) (n : Nat) : ∀ (entries : List PEntry) (inst : List (List WEntry)) (elast : PEntry)
    (dur : Rat), pointRows σ n entries = .ok inst → entries.getLast? = some elast → σ.eval elast.t = .ok dur →
    ∀ i, i < n → pointCol inst i ≠ [] ∧ lastT (pointCol inst i) = dur := by
  intro entries
  induction entries with
  | nil => intro inst elast dur _ h; simp at h
  | cons e es ih =>
    intro inst elast dur hinst hlast hdur i hi
    unfold pointRows at hinst
    simp only [List.mapM_cons, bind_ok, pure_ok] at hinst
    obtain ⟨row, hrow, inst', hinst', rfl⟩ := hinst
    obtain ⟨t, ht, vs, _, hrow⟩ := hrow
    have hrowfacts : ∃ w, row[i]? = some w ∧ w.t = t := by
      have key : ∀ vs' : List Rat, vs'.length = n →
          ∃ w, (vs'.map (fun v => ({ t := t, v := v, interp := e.interp } : WEntry)))[i]? = some w ∧ w.t = t := by
        intro vs' hl
        have hi' : i < vs'.length := by rw [hl]; exact hi
        refine ⟨{ t := t, v := vs'[i], interp := e.interp }, ?_, rfl⟩
        simp [List.getElem?_map, List.getElem?_eq_getElem hi']
      by_cases hb : e.bcast = true
      · simp only [hb, if_true, bind_ok, pure_ok] at hrow
        obtain ⟨vs', hvs', rfl⟩ := hrow
        apply key
        split at hvs'
        · simp only [pure_ok] at hvs'; subst hvs'; simp
        · cases hvs'
      · simp only [hb, Bool.false_eq_true, if_false] at hrow
        by_cases hl : vs.length ≠ n
        · rw [if_pos hl] at hrow
          obtain ⟨_, h0, _⟩ := bind_ok.mp hrow
          cases h0
        · rw [if_neg hl] at hrow
          obtain ⟨vs', h0, hrow⟩ := bind_ok.mp hrow
          cases pure_ok.mp h0
          cases pure_ok.mp hrow
          exact key vs (by simpa using hl)
    obtain ⟨w, hw, hwt⟩ := hrowfacts
    have hcol : pointCol (row :: inst') i = w :: pointCol inst' i := by
      simp [pointCol, List.filterMap_cons, hw]
    rw [hcol]
    refine ⟨by simp, ?_⟩
    cases es with
    | nil =>
      simp only [List.mapM_nil, pure_ok] at hinst'
      subst hinst'
      simp only [List.getLast?_singleton, Option.some.injEq] at hlast
      subst hlast
      rw [ht] at hdur
      cases hdur
      simp [pointCol, lastT, hwt]
    | cons e2 es' =>
      have hlast' : (e2 :: es').getLast? = some elast := by
        rw [List.getLast?_cons_cons] at hlast; exact hlast
      obtain ⟨hne, hl⟩ := ih inst' elast dur (by unfold pointRows; exact hinst') hlast' hdur i hi
      obtain ⟨x, xs, hx⟩ := List.exists_cons_of_ne_nil hne
      rw [hx] at hl ⊢
      simpa [lastT] using hl

theorem mapM_forall2' {α α' β γ : Type} (f : α → Except Err β) (g : α' → Except Err γ) (Q : α → α' → Prop)
    (R : β → γ → Prop) : ∀ (l : List α) (l' : List α'), List.Forall₂ Q l l' → ∀ (bs : List β) (cs : List γ),
      l.mapM f = .ok bs → l'.mapM g = .ok cs →
      (∀ x x', Q x x' → ∀ b c, f x = .ok b → g x' = .ok c → R b c) → List.Forall₂ R bs cs := by
  intro l l' hQ
  induction hQ with
  | nil =>
    intro bs cs h1 h2 _
    simp only [List.mapM_nil, pure_ok] at h1 h2
    subst h1; subst h2
    exact List.Forall₂.nil
  | @cons x x' xs xs' hq _ ih =>
    intro bs cs h1 h2 hR
    simp only [List.mapM_cons, bind_ok, pure_ok] at h1 h2
    obtain ⟨b, hb, bs', hbs, rfl⟩ := h1
    obtain ⟨c, hc, cs', hcs, rfl⟩ := h2
    exact List.Forall₂.cons (hR x x' hq b c hb hc) (ih bs' cs' hbs hcs hR)

theorem mapM_mem {α β : Type} (f : α → Except Err β) : ∀ (l : List α) (bs : List β), l.mapM f = .ok bs →
    ∀ b ∈ bs, ∃ a ∈ l, f a = .ok b := by
  intro l
  induction l with
  | nil => intro bs h b hb; simp only [List.mapM_nil, pure_ok] at h; subst h; simp at hb
  | cons x xs ih =>
    intro bs h b hb
    simp only [List.mapM_cons, bind_ok, pure_ok] at h
    obtain ⟨b0, hb0, bs', hbs, rfl⟩ := h
    rcases List.mem_cons.mp hb with rfl | hb
    · exact ⟨x, by simp, hb0⟩
    · obtain ⟨a, ha, hf⟩ := ih bs' hbs b hb
      exact ⟨a, by simp [ha], hf⟩

/-- the kept channels of code and specification agree up to the interpolation of the inserted first entries -/
theorem kept_forall2 : ∀ (cols : List (List WEntry)) (mapped : List (Option Chan)),
    List.Forall₂ (fun (a b : Chan × List WEntry) => a.1 = b.1 ∧ HeadEq a.2 b.2)
      ((mapped.zip (cols.map prefC)).filterMap (fun (o, ws) => o.map (fun o => (o, ws))))
      ((mapped.zip (cols.map prefD)).filterMap (fun (o, ws) => o.map (fun o => (o, ws)))) := by
  intro cols
  induction cols with
  | nil => intro mapped; simp
  | cons c cs ih =>
    intro mapped
    cases mapped with
    | nil => simp
    | cons o os =>
      simp only [List.map_cons, List.zip_cons_cons, List.filterMap_cons]
      cases o with
      | none => simpa using ih os
      | some o' =>
        simp only [Option.map_some]
        exact List.Forall₂.cons ⟨rfl, headEq_pref c⟩ (ih os)

theorem kept_col (pref : List WEntry → List WEntry) (mapped : List (Option Chan)) (inst : List (List WEntry)) (n : Nat)
    (a : Chan × List WEntry) (h : a ∈ pointKept pref mapped inst n) : ∃ i, i < n ∧ a.2 = pref (pointCol inst i) := by
  unfold pointKept at h
  simp only [List.mem_filterMap] at h
  obtain ⟨⟨o, ws⟩, hz, ho⟩ := h
  have hws := (List.of_mem_zip hz).2
  simp only [List.map_map, List.mem_map, List.mem_range, Function.comp] at hws
  obtain ⟨i, hi, rfl⟩ := hws
  cases o with
  | none => simp at ho
  | some o' =>
    simp only [Option.map_some, Option.some.injEq] at ho
    subst ho
    exact ⟨i, hi, rfl⟩

theorem buildOK_point (id : Option String) (chans : List Chan) (entries : List PEntry) (meas : List MeasDecl)
    (cons : List Expr) : BuildOK (.point id chans entries meas cons) := by
  intro σ mm cm w? P h1 h2
  rw [buildWaveform] at h1
  obtain ⟨_, _, h1⟩ := bind_ok.mp h1
  obtain ⟨mappedAll, hmA, h1⟩ := bind_ok.mp h1
  rw [denote] at h2
  obtain ⟨_, _, h2⟩ := bind_ok.mp h2
  obtain ⟨mappedAll', hmA', h2⟩ := bind_ok.mp h2
  rw [hmA] at hmA'; cases hmA'
  rcases Bool.eq_false_or_eq_true (mappedAll.all Option.isNone) with hall | hall
  · rw [if_pos hall] at h1 h2
    cases pure_ok.mp h1; cases pure_ok.mp h2
    rfl
  · rw [if_neg (by simp [hall])] at h1 h2
    cases hgl : entries.getLast? with
    | none => rw [hgl] at h1; cases h1
    | some elast =>
      rw [hgl] at h1 h2
      obtain ⟨dur, hdur, h1⟩ := bind_ok.mp h1
      obtain ⟨dur', hdur', h2⟩ := bind_ok.mp h2
      rw [hdur] at hdur'; cases hdur'
      dsimp only at h1 h2
      by_cases hd0 : dur = 0
      · rw [if_pos hd0] at h1 h2
        cases pure_ok.mp h1; cases pure_ok.mp h2
        rfl
      · rw [if_neg hd0] at h1 h2
        obtain ⟨mapped, hmapped, h1⟩ := bind_ok.mp h1
        obtain ⟨inst, hinst, h1⟩ := bind_ok.mp h1
        obtain ⟨mapped', hmapped', h2⟩ := bind_ok.mp h2
        obtain ⟨inst', hinst', h2⟩ := bind_ok.mp h2
        rw [hmapped] at hmapped'; cases hmapped'
        change pointRows σ chans.length entries = .ok inst at hinst
        change pointRows σ chans.length entries = .ok inst' at hinst'
        rw [hinst] at hinst'; cases hinst'
        obtain ⟨wfs, hwfs, h1⟩ := bind_ok.mp h1
        obtain ⟨w, hw, h1⟩ := bind_ok.mp h1
        cases pure_ok.mp h1
        obtain ⟨cs, hcs, h2⟩ := bind_ok.mp h2
        change (pointKept prefC mapped inst chans.length).mapM
          (fun (x : Chan × List WEntry) => fromTable x.1 x.2) = .ok wfs at hwfs
        change (pointKept prefD mapped inst chans.length).mapM
          (fun (x : Chan × List WEntry) => do let pl ← tablePL x.2; pure (x.1, pl)) = .ok cs at hcs
        rcases Bool.eq_false_or_eq_true (hasDup (cs.map (·.1))) with hdup | hdup
        · rw [if_pos hdup] at h2; cases h2
        · rw [if_neg (by simp [hdup])] at h2
          obtain ⟨ms, hms, h2⟩ := bind_ok.mp h2
          cases pure_ok.mp h2
          have hforall : List.Forall₂ (fun w cp => ChanRel w cp) wfs cs := by
            refine mapM_forall2' _ _ _ _ _ _ (kept_forall2 _ mapped) wfs cs hwfs hcs ?_
            intro x x' hq b c hb hc
            obtain ⟨ch, ws⟩ := x
            obtain ⟨ch', ws'⟩ := x'
            obtain ⟨h1, h2⟩ := hq
            simp only at h1 h2
            subst h1
            simp only [bind_ok, pure_ok] at hc
            obtain ⟨pl, hpl, rfl⟩ := hc
            rw [← tablePL_headEq h2] at hpl
            exact (table_channel ch ws b pl hb hpl).1
          obtain ⟨hrel, hflat, hallw⟩ := parallel_rel wfs cs hforall w hw hdup ms
          -- every kept channel lasts until the last entry
          have hwdur : w.duration = dur := by
            have hne : wfs ≠ [] := by
              intro h0; subst h0; simp [fromParallel] at hw
            obtain ⟨x, xs, hx⟩ := List.exists_cons_of_ne_nil hne
            have hxmem : x ∈ wfs := by rw [hx]; simp
            obtain ⟨a, ha, hfa⟩ := mapM_mem _ _ wfs hwfs x hxmem
            obtain ⟨i, hi, hai⟩ := kept_col prefC mapped inst chans.length a ha
            obtain ⟨hcne, hcl⟩ := pointCol_last σ chans.length entries inst elast dur hinst hgl hdur i hi
            -- the specification side of the same channel gives the table facts
            have : ∃ pl, tablePL a.2 = .ok pl := by
              -- from the Forall₂ between the kept lists and the success of `hcs`
              have hk := kept_forall2 ((List.range chans.length).map (fun i => inst.filterMap (fun row => row[i]?))) mapped
              have : ∀ (l : List (Chan × List WEntry)) (l' : List (Chan × List WEntry)),
                  List.Forall₂ (fun (a b : Chan × List WEntry) => a.1 = b.1 ∧ HeadEq a.2 b.2) l l' →
                  ∀ cs', l'.mapM (fun (x : Chan × List WEntry) => do let pl ← tablePL x.2; pure (x.1, pl)) = .ok cs' →
                  ∀ a ∈ l, ∃ pl, tablePL a.2 = .ok pl := by
                intro l l' hf
                induction hf with
                | nil => intro _ _ a ha; simp at ha
                | @cons y y' ys ys' hq _ ih =>
                  intro cs' hm a ha
                  simp only [List.mapM_cons, bind_ok, pure_ok] at hm
                  obtain ⟨c, ⟨pl, hpl, _⟩, cs'', hm', _⟩ := hm
                  rcases List.mem_cons.mp ha with rfl | ha
                  · exact ⟨pl, by rw [tablePL_headEq hq.2]; exact hpl⟩
                  · exact ih cs'' hm' a ha
              exact this _ _ hk cs hcs a ha
            obtain ⟨pl, hpl⟩ := this
            rw [← hallw x hxmem, (table_channel a.1 a.2 x pl hfa hpl).2, hai, lastT_pref _ hcne, hcl]
          rw [hwdur] at hrel
          refine BuildOK.of_rel ⟨hrel, Or.inr hflat, ?_⟩
          intro ms' hms'
          rw [hms] at hms'
          cases hms'
          rfl

end QP.PT
