import QP.Model.PT
import QP.Proofs.PTCompileT
/-! The induction: `BasicT pt → CompileOKT pt`. -/
namespace QP.PT
open QP.C05 (Chain.chanF Chain.presF Trafo.chanF Trafo.presF)

theorem pf11List_nil {subs : List PT} {cm : List (Chan × Option Chan)} {aff : List Chan}
    (h : pf11ChansList subs cm aff = []) : ∀ p ∈ subs, pf11Chans p cm aff = [] := by
  induction subs with
  | nil => intro p hp; simp at hp
  | cons q qs ih =>
    simp only [pf11ChansList, List.append_eq_nil_iff] at h
    intro p hp
    rcases List.mem_cons.mp hp with rfl | hp
    · exact h.1
    · exact ih h.2 p hp

theorem list_relT (subs : List PT) (ih : ∀ p ∈ subs, CompileOKT p) (σ : Scope)
    (mm : List (MName × Option MName)) (cm : List (Chan × Option Chan)) (T : Chain) (aff : List Chan)
    (hk : ∀ c ∈ Chain.keys T, c ∈ aff) (hpf : ∀ p ∈ subs, pf11Chans p cm aff = []) :
    ∀ its parts p, internalList subs (ctxT σ mm cm T) = .ok its → denoteList subs σ mm cm = .ok parts →
      Pulse.appendAll parts = .ok p → Loop.allPosList (nodesOf its) → RelT T its p := by
  induction subs with
  | nil =>
    intro its parts p h1 h2 h3 _
    simp only [internalList] at h1
    simp only [denoteList] at h2
    cases h1; cases h2
    simp only [Pulse.appendAll] at h3
    cases h3
    exact RelT.nil T
  | cons q qs ihq =>
    intro its parts p h1 h2 h3 hpos
    simp only [internalList, bind_ok, pure_ok] at h1
    obtain ⟨a, ha, b, hb, rfl⟩ := h1
    simp only [denoteList, bind_ok, pure_ok] at h2
    obtain ⟨pa, hpa, pr, hpr, rfl⟩ := h2
    simp only [Pulse.appendAll, bind_ok] at h3
    obtain ⟨r, hr, hp⟩ := h3
    rw [wrapSingle_nil _ _ _ rfl] at ha
    rw [nodesOf_append, allPosList_append] at hpos
    have hq := ih q (by simp) σ mm cm T aff a pa hk (hpf q (by simp)) ha hpa hpos.1
    have hrest := ihq (fun p hp => ih p (by simp [hp])) (fun p hp => hpf p (by simp [hp])) b pr r hb hpr hr hpos.2
    exact RelT.append hq hrest hpos.1 hp

theorem range_relT (body : PT) (ih : CompileOKT body) (σ : Scope) (idx : String)
    (mm : List (MName × Option MName)) (cm : List (Chan × Option Chan)) (T : Chain) (aff : List Chan)
    (hk : ∀ c ∈ Chain.keys T, c ∈ aff) (hpf : pf11Chans body cm aff = []) (rng : List Int) :
    ∀ its parts p,
      rng.flatMapM (fun (i : Int) => wrapSingle body.ident
        { ctxT σ mm cm T with scope := .range σ idx (i : Rat) } (internal body)) = .ok its →
      rng.mapM (fun (i : Int) => denote body (.range σ idx (i : Rat)) mm cm) = .ok parts →
      Pulse.appendAll parts = .ok p → Loop.allPosList (nodesOf its) → RelT T its p := by
  induction rng with
  | nil =>
    intro its parts p h1 h2 h3 _
    simp only [List.flatMapM_nil, pure_ok] at h1
    simp only [List.mapM_nil, pure_ok] at h2
    subst h1; subst h2
    simp only [Pulse.appendAll] at h3
    cases h3
    exact RelT.nil T
  | cons i is ihr =>
    intro its parts p h1 h2 h3 hpos
    simp only [List.flatMapM_cons, bind_ok, pure_ok] at h1
    obtain ⟨a, ha, b, hb, rfl⟩ := h1
    simp only [List.mapM_cons, bind_ok, pure_ok] at h2
    obtain ⟨pa, hpa, pr, hpr, rfl⟩ := h2
    simp only [Pulse.appendAll, bind_ok] at h3
    obtain ⟨r, hr, hp⟩ := h3
    rw [wrapSingle_nil _ _ _ rfl] at ha
    rw [nodesOf_append, allPosList_append] at hpos
    have hq := ih (.range σ idx (i : Rat)) mm cm T aff a pa hk hpf ha hpa hpos.1
    have hrest := ihr b pr r hb hpr hr hpos.2
    exact RelT.append hq hrest hpos.1 hp

theorem relT_dur_pos {T : Chain} {items : List Item} {b : Pulse} (h : RelT T items b)
    (hpos : Loop.allPosList (nodesOf items)) (hne : b.chans ≠ []) : 0 < b.dur := by
  rw [← h.dur]
  apply Loop.allPosList_duration_pos _ hpos
  intro h0
  exact hne (h.empty.mp h0)

theorem compile_relT {pt : PT} (hb : BasicT pt) : CompileOKT pt := by
  induction hb with
  | const h => intro σ mm cm T aff items P _ _ h1 h2 h3; simp only [internal] at h1; exact h σ mm cm T items P h1 h2 h3
  | table h => intro σ mm cm T aff items P _ _ h1 h2 h3; simp only [internal] at h1; exact h σ mm cm T items P h1 h2 h3
  | point h => intro σ mm cm T aff items P _ _ h1 h2 h3; simp only [internal] at h1; exact h σ mm cm T items P h1 h2 h3
  | func h => intro σ mm cm T aff items P _ _ h1 h2 h3; simp only [internal] at h1; exact h σ mm cm T items P h1 h2 h3
  | atomicMulti h =>
    intro σ mm cm T aff items P _ _ h1 h2 h3; simp only [internal] at h1; exact h σ mm cm T items P h1 h2 h3
  | arithAtomic h =>
    intro σ mm cm T aff items P _ _ h1 h2 h3; simp only [internal] at h1; exact h σ mm cm T items P h1 h2 h3
  | @seq id subs meas cons _ ih =>
    intro σ mm cm T aff items P hk hpf h1 h2 hpos
    simp only [internal, ctxT, bind_ok, pure_ok] at h1
    obtain ⟨_, _, ms, hms, its, hits, rfl⟩ := h1
    simp only [denote, bind_ok, pure_ok] at h2
    obtain ⟨_, _, ms', hms', parts, hparts, p, hp, rfl⟩ := h2
    rw [hms] at hms'
    cases hms'
    rw [nodesOf_guardRun] at hpos
    simp only [pf11Chans] at hpf
    exact (list_relT subs ih σ mm cm T aff hk (pf11List_nil hpf) its parts p hits hparts hp hpos).guard ms
  | @rep id body count meas cons _ ih =>
    intro σ mm cm T aff items P hk hpf h1 h2 hpos
    simp only [pf11Chans] at hpf
    simp only [internal, ctxT, bind_ok] at h1
    obtain ⟨_, _, c, hc, h1⟩ := h1
    simp only [denote, bind_ok] at h2
    obtain ⟨_, _, c', hc', h2⟩ := h2
    rw [hc] at hc'
    cases hc'
    cases hn : checkedInt c with
    | none => simp [hn] at h1
    | some n =>
      simp only [hn] at h1 h2
      by_cases hle : n ≤ 0
      · simp only [hle, if_true, pure_ok] at h1 h2
        subst h1; subst h2
        exact RelT.nil T
      · simp only [hle, if_false, bind_ok, pure_ok] at h1 h2
        obtain ⟨ms, hms, its, hits, rfl⟩ := h1
        obtain ⟨ms', hms', b, hbd, h2⟩ := h2
        rw [hms] at hms'
        cases hms'
        rw [wrapSingle_nil _ _ _ rfl] at hits
        have hposb : Loop.allPosList (nodesOf its) := by
          rcases allPos_of_tryAppend hpos with he | hL
          · rw [applyItems_eq] at he
            simp only [Loop.isEmpty, Loop.wf, Loop.children, List.nil_append, Option.isNone_none,
              Bool.true_and, List.isEmpty_iff] at he
            rw [he]; exact allPosList_nil
          · rw [applyItems_eq] at hL
            simp only [List.nil_append] at hL
            cases hcs : nodesOf its with
            | nil => exact allPosList_nil
            | cons c0 cs0 =>
              rw [hcs] at hL
              simp only [Loop.allPos, Loop.allPosB, Bool.and_eq_true] at hL
              exact hL.2
        have hrel := (ih σ mm cm T aff its b hk hpf hits hbd hposb).rep hposb n.toNat ms
        by_cases he : b.isEmpty
        · simp only [he, if_true, pure_ok] at h2
          subst h2
          simpa [he] using hrel
        · have he' : b.isEmpty = false := by simpa using he
          simp only [he', Bool.false_eq_true, if_false, pure_ok] at h2
          simp only [he', Bool.false_eq_true, if_false] at hrel
          subst h2
          exact hrel
  | @forLoop id body idx start stop step meas cons _ ih =>
    intro σ mm cm T aff items P hk hpf h1 h2 hpos
    simp only [pf11Chans] at hpf
    simp only [internal, ctxT, bind_ok] at h1
    obtain ⟨_, _, a, ha, ai, hai, b, hb, bi, hbi, s, hs, si, hsi, h1⟩ := h1
    simp only [denote, bind_ok] at h2
    obtain ⟨_, _, a', ha', ai', hai', b', hb', bi', hbi', s', hs', si', hsi', h2⟩ := h2
    rw [ha] at ha'; cases ha'
    rw [hai] at hai'; cases hai'
    rw [hb] at hb'; cases hb'
    rw [hbi] at hbi'; cases hbi'
    rw [hs] at hs'; cases hs'
    rw [hsi] at hsi'; cases hsi'
    by_cases hz : si = 0
    · simp [hz] at h1
    · simp only [hz, if_false, bind_ok, pure_ok] at h1 h2
      obtain ⟨ms, hms, its, hits, rfl⟩ := h1
      obtain ⟨ms', hms', parts, hparts, p, hp, rfl⟩ := h2
      rw [hms] at hms'; cases hms'
      rw [nodesOf_guardRun] at hpos
      exact (range_relT body ih σ idx mm cm T aff hk hpf (pyRange ai bi si) its parts p hits hparts hp hpos).guard ms
  | @mapping id body pm mm' cm' cons _ ih =>
    intro σ mm cm T aff items P hk hpf h1 h2 hpos
    simp only [internal, ctxT, bind_ok] at h1
    obtain ⟨_, _, mmU, hmm, cmU, hcm, h1⟩ := h1
    simp only [denote, bind_ok] at h2
    obtain ⟨_, _, mmU', hmm', cmU', hcm', h2⟩ := h2
    rw [hmm] at hmm'; cases hmm'
    rw [hcm] at hcm'; cases hcm'
    rw [wrapSingle_nil _ _ _ rfl] at h1
    simp only [pf11Chans, hcm] at hpf
    exact ih (.mapped σ pm) mmU cmU T aff items P hk hpf h1 h2 hpos
  | @parallel id body over _ ih =>
    intro σ mm cm T aff items P hk hpf h1 h2 hpos
    rw [pf11_parallel, List.append_eq_nil_iff] at hpf
    simp only [internal, ctxT, bind_ok] at h1
    obtain ⟨ov, hov, h1⟩ := h1
    simp only [denote, bind_ok] at h2
    obtain ⟨ov', hov', b, hbd, h2⟩ := h2
    rw [hov] at hov'; cases hov'
    rw [wrapSingle_nil _ _ _ rfl] at h1
    have hovk := over_keys over σ cm ov hov
    have hk' : ∀ c ∈ Chain.keys (T ++ [Trafo.parallel ov]),
        c ∈ aff ++ over.filterMap (fun (x : Chan × Expr) => (cm.lookup x.1).join) := by
      intro c hc
      simp only [Chain.keys, List.flatMap_append, List.flatMap_cons, List.flatMap_nil, List.append_nil,
        List.mem_append, Trafo.keys] at hc
      rcases hc with hc | hc
      · exact List.mem_append.mpr (Or.inl (hk c hc))
      · exact List.mem_append.mpr (Or.inr (hovk c hc))
    have hrel := ih σ mm cm (T ++ [Trafo.parallel ov]) _ items b hk' hpf.2 h1 hbd hpos
    by_cases he : b.isEmpty
    · simp only [he, if_true, pure_ok] at h2
      subst h2
      have : items = [] := hrel.items_nil (by simpa [Pulse.isEmpty] using he)
      subst this
      exact RelT.nil T
    · simp only [he, pure_ok] at h2
      simp only [Bool.false_eq_true, if_false, pure_ok] at h2
      subst h2
      have hne : b.chans ≠ [] := by simpa [Pulse.isEmpty] using he
      have hd := relT_dur_pos hrel hpos hne
      -- outside PF-11: no transformation above touches an overwritten channel
      have hdisj : ∀ c ∈ ov.map (·.1), c ∉ Chain.keys T := by
        intro c hc hcT
        have h1 := hovk c hc
        have h2 := hk c hcT
        have : c ∈ (over.filterMap (fun (x : Chan × Expr) => (cm.lookup x.1).join)).filter aff.contains := by
          simp only [List.mem_filter, List.contains_iff_mem]
          exact ⟨h1, by simpa using h2⟩
        rw [hpf.1] at this
        simp at this
      obtain ⟨cF, cB⟩ := par_commutes T ov hdisj
      exact (hrel.congr cF cB).push1 hne hd
  | @arith id body op scalar lhs _ hsub ih =>
    intro σ mm cm T aff items P hk hpf h1 h2 hpos
    rw [pf11_arith] at hpf
    simp only [internal, ctxT, bind_ok] at h1
    obtain ⟨T', hT', h1⟩ := h1
    rw [wrapSingle_nil _ _ _ rfl] at h1
    simp only [denote, bind_ok] at h2
    obtain ⟨b, hbd, h2⟩ := h2
    have hk' : ∀ c ∈ Chain.keys (T' ++ T),
        c ∈ aff ++ arithTouched body.definedChannels op scalar lhs cm := by
      intro c hc
      simp only [Chain.keys, List.flatMap_append, List.mem_append] at hc
      rcases hc with hc | hc
      · exact List.mem_append.mpr (Or.inr (arith_keys _ op scalar lhs σ cm T' hT' hsub c hc))
      · exact List.mem_append.mpr (Or.inl (hk c hc))
    have hrel := ih σ mm cm (T' ++ T) _ items b hk' hpf h1 hbd hpos
    by_cases he : b.isEmpty
    · simp only [he, if_true, pure_ok] at h2
      subst h2
      have : items = [] := hrel.items_nil (by simpa [Pulse.isEmpty] using he)
      subst this
      exact RelT.nil T
    · simp only [he, Bool.false_eq_true, if_false, bind_ok, pure_ok] at h2
      obtain ⟨T'', hT'', rfl⟩ := h2
      rw [hT'] at hT''; cases hT''
      have hne : b.chans ≠ [] := by simpa [Pulse.isEmpty] using he
      have hd := relT_dur_pos hrel hpos hne
      exact hrel.push T' hne hd

end QP.PT
