import QP.Model.PT
import QP.Proofs.PTTop
import Mathlib.Tactic.NormNum
/-! Concrete evaluations: non-vacuity examples and the PF-11 witness (kept out of `QP.Props.*` so that the
equation lemmas they unfold are not counted as property theorems). -/
namespace QP.PT

/-! ## the hypotheses of `compile_correct_partial` are satisfiable -/

def exPt : PT := .const none (.lit 2) [("A", .lit 1)] [⟨"m", .lit 0, .lit 1⟩]
def exProg : Loop := .mk 1 none [("m", 0, 1)] [.mk 1 (some (.const 2 "A" 1)) [] []]

theorem exPt_program : createProgram exPt [] none [] [] = .ok (some exProg) := by
  norm_num [createProgram, topCtx, exPt, exProg, PT.measurementNames, PT.definedChannels, dedup, hasDup, compile,
    wrapSingle, PT.ident, internal, atomItems, buildWaveform, Scope.eval, Expr.eval, chanLookup, dictOfList, dictSet,
    constFromMapping, atomicMeas, getMeas, Wf.constDict, Wf.duration, toProgram, rootLoop, Loop.applyItems,
    Loop.applyItem, leaf, Loop.isEmpty, Loop.bodyDuration, shiftW, bind, Except.bind, pure, Except.pure,
    Loop.rep, Loop.wf, Loop.meas, Loop.children, List.lookup, Loop.durationList]

theorem exProg_allPos : exProg.allPos := by
  norm_num [exProg, Loop.allPos, Loop.allPosB, Loop.allPosListB, Wf.duration]

theorem exPt_denote : denoteTop exPt [] none [] =
    .ok { dur := 2, chans := [("A", [{ len := 2, v0 := 1, v1 := 1 }])], windows := [("m", 0, 1)] } := by
  norm_num [denoteTop, topCtx, exPt, PT.measurementNames, PT.definedChannels, dedup, hasDup, denote,
    Scope.eval, Expr.eval, chanLookup, dictOfList, dictSet, atomicMeas, getMeas, bind, Except.bind, pure, Except.pure,
    List.lookup]

mutual
/-- outer names of the channels on which PF-11 shows: overwritten by a parallel-channel template below a
transformation (`affected`) that applies to them -/
def pf11Chans : PT → List (Chan × Option Chan) → List Chan → List Chan
  | .mapping _ body _ _ cm' _, cm, aff => (match updatedCm cm' cm with
      | .ok cmU => pf11Chans body cmU aff
      | .error _ => [])
  | .seq _ subs _ _, cm, aff => pf11ChansList subs cm aff
  | .rep _ body _ _ _, cm, aff => pf11Chans body cm aff
  | .forLoop _ body _ _ _ _ _ _, cm, aff => pf11Chans body cm aff
  | .timeReversal _ body, cm, aff => pf11Chans body cm aff
  | .parallel _ body over, cm, aff =>
      let own := over.filterMap (fun (c, _) => (cm.lookup c).join)
      own.filter aff.contains ++ pf11Chans body cm (aff ++ own)
  | .arith _ body op scalar ptIsLhs, cm, aff =>
      let all := body.definedChannels.filterMap (fun c => (cm.lookup c).join)
      let touched := match scalar with
        | .uniform _ => all
        | .perChan m => if !ptIsLhs && op == .minus then all else m.filterMap (fun (c, _) => (cm.lookup c).join)
      pf11Chans body cm (aff ++ touched)
  | _, _, _ => []
def pf11ChansList : List PT → List (Chan × Option Chan) → List Chan → List Chan
  | [], _, _ => []
  | p :: ps, cm, aff => pf11Chans p cm aff ++ pf11ChansList ps cm aff
end

/-- the known-finding class of PF-11 -/
def inPF11 (pt : PT) (cm : List (Chan × Option Chan)) : Bool := !(pf11Chans pt cm []).isEmpty

def pf11Pt : PT :=
  .arith none (.parallel none (.func none "A" (.lit 2) (.var "t") [] []) [("B", .lit 1)]) .times (.uniform (.lit 2)) false
/-- the same tree with an arithmetic that touches `A` only: outside the class of PF-11 -/
def pf11SafePt : PT :=
  .arith none (.parallel none (.func none "A" (.lit 2) (.var "t") [] []) [("B", .lit 1)]) .plus
    (.perChan [("A", .lit 1)]) true
def pf11Prog : Loop :=
  .mk 1 none [] [.mk 1 (some (.trafo (.func "A" 2 (.var "t") [])
    [.scaling [("A", 2), ("B", 2)], .parallel [("B", 1)]])) [] []]
def pf11Pulse : Pulse :=
  { dur := 2, chans := [("A", [{ len := 2, v0 := 0, v1 := 4 }]), ("B", [{ len := 2, v0 := 2, v1 := 2 }])],
    windows := [] }

private theorem sAB : ¬ ("B" : String) = "A" := by decide
private theorem sBA : ¬ ("A" : String) = "B" := by decide
private theorem stA : ¬ ("t" : String) = "A" := by decide
private theorem bAB : (("B" : String) == "A") = false := by decide
private theorem bBA : (("A" : String) == "B") = false := by decide
private theorem floor0 : Rat.floor 0 = 0 := by simpa using Rat.floor_intCast 0

/-- **PF-11, the negation of the full statement on the witness** `2 * ParallelChannelPT(FunctionPT('t', 2, 'A'),
{'B': 1})`: the compiled program plays `B = 1` at `t = 0`, the template denotes `B = 2`. -/
theorem pf11_witness :
    createProgram pf11Pt [] none [] [] = .ok (some pf11Prog) ∧
    denoteTop pf11Pt [] none [] = .ok pf11Pulse ∧
    pf11Prog.sample "B" 0 = some 1 ∧
    (pf11Pulse.chans.lookup "B").map (fun pl => PL.at pl 0) = some (some 2) := by
  refine ⟨?_, ?_, ?_, ?_⟩
  · norm_num [createProgram, topCtx, pf11Pt, pf11Prog, PT.measurementNames, PT.definedChannels, dedup, hasDup,
      compile, wrapSingle, PT.ident, internal, atomItems, buildWaveform, Scope.eval, Expr.eval, chanLookup,
      dictOfList, dictSet, constFromMapping, atomicMeas, getMeas, Wf.constDict, Wf.duration, toProgram, rootLoop,
      Loop.applyItems, Loop.applyItem, leaf, Loop.isEmpty, Loop.bodyDuration, shiftW, bind, Except.bind, pure,
      Except.pure, Loop.rep, Loop.wf, Loop.meas, Loop.children, List.lookup, Loop.durationList, arithTransformation,
      overwrittenValues, Scope.evalKw, Scope.forceAll, Scope.keys, fromTransformation, validateCons, Expr.vars,
      cmUpdate, Scope.look, sAB, sBA, stA, Chain.constInvariant, List.filterMapM_cons, Option.map, bAB, bBA]
  · norm_num [denoteTop, topCtx, pf11Pt, pf11Pulse, PT.measurementNames, PT.definedChannels, dedup, hasDup, denote,
      Scope.eval, Expr.eval, chanLookup, dictOfList, dictSet, atomicMeas, getMeas, bind, Except.bind, pure,
      Except.pure, List.lookup, arithTransformation, overwrittenValues, Scope.evalKw, Scope.forceAll, Scope.keys,
      validateCons, Expr.vars, cmUpdate, Scope.look, sAB, sBA, stA, bAB, bBA, List.filterMapM_cons, Option.map,
      Expr.affineIn, Expr.freeOf, applyTrafoPL, PL.mapV, Pulse.isEmpty]
  · norm_num [pf11Prog, Loop.sample, Loop.sampleList, Loop.bodyDuration, Loop.duration, Loop.durationList,
      Wf.duration, Wf.sample, Wf.channels, Wf.sampleAll, Chain.apply, Trafo.apply, Chain.outChans, Trafo.outChans,
      List.lookup, sAB, sBA, bAB, bBA, Expr.eval, floor0]
  · norm_num [pf11Pulse, List.lookup, bAB, bBA, PL.at, Seg.valueAt]

end QP.PT
